// Package kvx is what the KV-storage drivers (c03, c06, c02) share: the two
// backends (inmem.New() and the Redis client over an in-process miniredis), the
// symbolic operation alphabet, execution of one operation with everything that
// is observed about it, and the Gallina printers for run/KVRun.v.
package kvx

import (
	"context"
	"errors"
	"fmt"
	"math/big"
	"sort"
	"strings"
	gosync "sync"
	"time"

	"verifharness/internal/hx"

	gerrors "github.com/acquirecloud/golibs/errors"
	"github.com/acquirecloud/golibs/kvs"
	"github.com/acquirecloud/golibs/kvs/inmem"
	kredis "github.com/acquirecloud/golibs/kvs/redis"
	"github.com/alicebob/miniredis/v2"
	goredis "github.com/go-redis/redis/v8"
)

// RecIn is one record of a PutMany
type RecIn struct {
	Key string `json:"key"`
	Val int    `json:"val,omitempty"`
	Exp string `json:"exp,omitempty"`
}

// Op is one symbolic step of a case.
//
//	K: C create, G get, M getmany, P put, N putmany, S cas, D delete, L listkeys,
//	   W waitforversionchange (ctx deadline D ms), A advance time by D ms
//	Val: 0 nil, 1 "", 2 "x", 3 300 bytes
//	Exp: "" none, or a Go duration relative to the client's clock at the call ("1h", "-1h", "30ms"), or one of the
//	absolute instants "zero", "epoch", "y2400", "y9999" (the last two lie further ahead than a time.Duration reaches)
//	Ver: cur (last version seen for the key), old (the one seen before it), unk, empty
type Op struct {
	K    string   `json:"k"`
	Key  string   `json:"key,omitempty"`
	Keys []string `json:"keys,omitempty"`
	Val  int      `json:"val,omitempty"`
	Exp  string   `json:"exp,omitempty"`
	Recs []RecIn  `json:"recs,omitempty"`
	Ver  string   `json:"ver,omitempty"`
	Pat  string   `json:"pat,omitempty"`
	D    int64    `json:"d,omitempty"`
	Head []RecIn  `json:"head,omitempty"` // PutMany: the batch is Head followed by Rep copies of Recs
	Rep  int      `json:"rep,omitempty"`
	D2   int64    `json:"d2,omitempty"` // c06's step W2 (two waiters): context deadline of the second waiter, ms
}

var big300 = []byte(strings.Repeat("x", 300))

func ValBytes(id int) []byte {
	switch id {
	case 0:
		return nil
	case 1:
		return []byte{}
	case 2:
		return []byte("x")
	case 3:
		return append([]byte(nil), big300...)
	}
	panic("bad value id")
}

// CoqVal prints a value as the Gallina term of type KV.value (nil = empty)
func CoqVal(b []byte) string {
	if len(b) == 300 && string(b) == string(big300) {
		return "V300"
	}
	if len(b) <= 16 {
		return hx.Bytes(b)
	}
	return hx.Bytes([]byte{0, 0, byte(len(b) % 251)}) // not a value of the alphabet: never matches
}

// Z prints an integer as a hexadecimal Gallina literal of type Z: coqc reads the 8..13 digit nanosecond
// instants of the traces about twice as fast in base 16 as in base 10 (they dominate the time of a shard)
func Z(v int64) string {
	if v < 0 {
		return fmt.Sprintf("(-0x%x)%%Z", uint64(-v))
	}
	return fmt.Sprintf("0x%x%%Z", uint64(v))
}

// rel is the instant t relative to the start of the case, ns (exact also for the zero time, whose
// UnixNano does not fit an int64)
func (b *Backend) rel(t time.Time) *big.Int {
	r := big.NewInt(t.Unix() - b.T0.Unix())
	r.Mul(r, big.NewInt(1000000000))
	return r.Add(r, big.NewInt(int64(t.Nanosecond()-b.T0.Nanosecond())))
}

func coqOptRel(p *big.Int) string {
	if p == nil {
		return "None"
	}
	if p.Sign() < 0 {
		return fmt.Sprintf("(Some (-0x%x)%%Z)", new(big.Int).Neg(p))
	}
	return fmt.Sprintf("(Some 0x%x%%Z)", p)
}

func CoqOptZ(p *int64) string {
	if p == nil {
		return "None"
	}
	return "(Some " + Z(*p) + ")"
}

// Class maps an error to the small enum of run/KVRun.v (never texts)
func Class(err error) string {
	switch {
	case err == nil:
		return "OOk"
	case errors.Is(err, gerrors.ErrExist):
		return "OExist"
	case errors.Is(err, gerrors.ErrNotExist):
		return "ONotExist"
	case errors.Is(err, gerrors.ErrConflict):
		return "OConflict"
	case errors.Is(err, context.DeadlineExceeded), errors.Is(err, context.Canceled):
		return "OCtx"
	}
	return "OOther"
}

// Backend is one storage under test together with its clocks and the table of
// the version strings seen in the current case.
type Backend struct {
	Name string
	S    kvs.Storage
	MR   *miniredis.Miniredis // nil for the in-memory store
	Tick time.Duration        // miniredis is moved forward by Tick after every operation
	T0   time.Time
	FF   time.Duration // accumulated FastForward of this case
	ids  map[string]int
	seen map[string][]string // key -> version strings seen for it, oldest first
	// miniredis' clock moves with FastForward only; Exec moves it by the real time that passed since
	// `synced`, so that the server's clock is the reference clock of the case (real time + FF)
	synced  time.Time
	syncMu  gosync.Mutex
	lastExp map[string]int64 // key -> reference instant (ns) of the ExpiresAt last written for it by this harness
}

func NewInmem() *Backend {
	b := &Backend{Name: "inmem"}
	b.Reset()
	return b
}

// NewRedis starts a miniredis in this process and connects the client under test to it
func NewRedis() *Backend {
	mr, err := miniredis.Run()
	if err != nil {
		panic(err)
	}
	b := &Backend{Name: "redis", MR: mr, Tick: 10 * time.Millisecond}
	b.S = kredis.New(&goredis.Options{Addr: mr.Addr()})
	b.Reset()
	return b
}

func (b *Backend) Close() {
	if b.MR != nil {
		if c, ok := b.S.(interface{ Close() error }); ok {
			c.Close()
		}
		b.MR.Close()
	}
}

// Reset gives an empty storage and forgets versions and clocks
func (b *Backend) Reset() {
	if b.MR != nil {
		b.MR.FlushAll()
	} else {
		b.S = inmem.New()
	}
	b.ids = map[string]int{}
	b.seen = map[string][]string{}
	b.FF = 0
	b.T0 = time.Now()
	b.synced = b.T0
	b.lastExp = map[string]int64{}
}

func (b *Backend) CoqBackend() string {
	if b.MR != nil {
		return "BRedis"
	}
	return "BInmem"
}

// ID interns a version string of the current case (ids start at 1)
func (b *Backend) ID(v string) int {
	if id, ok := b.ids[v]; ok {
		return id
	}
	id := len(b.ids) + 1
	b.ids[v] = id
	return id
}

func (b *Backend) note(key, ver string) {
	l := b.seen[key]
	if len(l) == 0 || l[len(l)-1] != ver {
		b.seen[key] = append(l, ver)
	}
}

// Version resolves a symbolic version reference to a string for this backend
func (b *Backend) Version(key, sel string) string {
	l := b.seen[key]
	switch sel {
	case "cur":
		if len(l) > 0 {
			return l[len(l)-1]
		}
	case "old":
		if len(l) > 1 {
			return l[len(l)-2]
		}
	case "empty":
		return ""
	}
	return "01NOSUCHVERSION00000000000"
}

// now on the reference clock of the case, ns
func (b *Backend) now() int64 { return int64(time.Since(b.T0) + b.FF) }

// sync moves miniredis' clock by the real time that passed since the last call
func (b *Backend) sync() {
	if b.MR == nil {
		return
	}
	b.syncMu.Lock()
	defer b.syncMu.Unlock()
	now := time.Now()
	if d := now.Sub(b.synced); d > 0 {
		b.MR.FastForward(d)
		b.synced = now
	}
}

// expires turns an expiration spec into ExpiresAt: a Go duration from now ("1h", "-1h", "30ms", "2h0.5s"),
// or "<duration>~<fraction>": now+duration cut down to a whole wall-clock second plus the fraction
// ("2h~900ms": an ExpiresAt whose sub-second part is .9)
func (b *Backend) expires(exp string) (*time.Time, *big.Int) {
	switch exp {
	case "":
		return nil, nil
	case "zero": // the zero value of time.Time
		t := time.Time{}
		return &t, b.rel(t)
	case "epoch":
		t := time.Unix(0, 0)
		return &t, b.rel(t)
	case "y9999": // a "never" sentinel: further away than a time.Duration can express (about 292 years)
		t := time.Date(9999, 12, 31, 23, 59, 59, 0, time.UTC)
		return &t, b.rel(t)
	case "y2400": // just beyond the range of time.Duration
		t := time.Date(2400, 1, 1, 0, 0, 0, 0, time.UTC)
		return &t, b.rel(t)
	}
	frac := time.Duration(-1)
	if i := strings.Index(exp, "~"); i >= 0 {
		f, err := time.ParseDuration(exp[i+1:])
		if err != nil {
			panic(err)
		}
		frac, exp = f, exp[:i]
	}
	d, err := time.ParseDuration(exp)
	if err != nil {
		panic(err)
	}
	// wall-clock instant without monotonic reading: what a record read back from Redis carries, too
	t := time.Now().Add(d).Round(0)
	if frac >= 0 {
		t = t.Truncate(time.Second).Add(frac)
	}
	return &t, b.rel(t)
}

// expiresAt: the expiration (relative to T0, ns) the LAST record of the batch with that key carries
func (b *Backend) expiresAt(key string, recs []kvs.Record) (*time.Time, *big.Int) {
	for i := len(recs) - 1; i >= 0; i-- {
		if recs[i].Key == key {
			if recs[i].ExpiresAt == nil {
				return nil, nil
			}
			return recs[i].ExpiresAt, b.rel(*recs[i].ExpiresAt)
		}
	}
	return nil, nil
}

// wrote remembers the reference instant of the expiration just written for key
func (b *Backend) wrote(key string, e *big.Int) {
	if e == nil || !e.IsInt64() {
		delete(b.lastExp, key)
		return
	}
	b.lastExp[key] = e.Int64() + int64(b.FF)
}

func (b *Backend) coqRec(r kvs.Record) string {
	var e *big.Int
	if r.ExpiresAt != nil {
		e = b.rel(*r.ExpiresAt)
	}
	return fmt.Sprintf("(%s, %s, %s, %s)", hx.Str(r.Key), CoqVal(r.Value), hx.Nat(b.ID(r.Version)), coqOptRel(e))
}

// Obs is what one executed step looked like
type Obs struct {
	T0, T1, Skew int64
	CoqOp        string // Gallina xop; "" for a pure clock step
	CoqOut       string
	Class        string // head constructor of CoqOut
	List         string // if not empty: a Gallina expression of type list obs that stands for many steps (tight run)
}

func (o Obs) Coq() string {
	return fmt.Sprintf("mkObs %s %s %s (%s) (%s)", Z(o.T0), Z(o.T1), Z(o.Skew), o.CoqOp, o.CoqOut)
}

// Exec runs one step on the backend. Clock steps return ok=false (nothing to compare).
func (b *Backend) Exec(op Op) (obs Obs, ok bool) {
	ctx := context.Background()
	if op.K == "A" {
		d := time.Duration(op.D) * time.Millisecond
		if op.Key != "" {
			// to D ms after (negative: before) the expiration last written for the key; nothing if that is past
			e, ok := b.lastExp[op.Key]
			if !ok {
				return Obs{}, false
			}
			b.sync()
			d = time.Duration(e-b.now()) + d
			if d <= 0 {
				return Obs{}, false
			}
		}
		if b.MR != nil {
			b.MR.FastForward(d)
			b.FF += d
		} else if d <= 500*time.Millisecond {
			time.Sleep(d)
		}
		return Obs{}, false
	}
	obs.Skew = int64(b.FF)
	var coqOp, out string
	run := func(f func()) {
		defer func() {
			if r := recover(); r != nil {
				out = "OOther"
			}
		}()
		obs.T0 = b.now()
		b.sync()
		f()
	}
	switch op.K {
	case "C":
		t, e := b.expires(op.Exp)
		coqOp = fmt.Sprintf("XOp (Create %s %s %s)", hx.Str(op.Key), CoqVal(ValBytes(op.Val)), coqOptRel(e))
		run(func() {
			v, err := b.S.Create(ctx, kvs.Record{Key: op.Key, Value: ValBytes(op.Val), Version: "caller-version", ExpiresAt: t})
			obs.T1 = b.now()
			switch c := Class(err); c {
			case "OOk":
				out = "OVer " + hx.Nat(b.ID(v))
				b.note(op.Key, v)
				b.wrote(op.Key, e)
			case "OExist":
				out = "OExist " + hx.Nat(b.ID(v))
				b.note(op.Key, v)
			default:
				out = c
			}
		})
	case "G":
		coqOp = fmt.Sprintf("XOp (Get %s)", hx.Str(op.Key))
		run(func() {
			r, err := b.S.Get(ctx, op.Key)
			obs.T1 = b.now()
			if c := Class(err); c != "OOk" {
				out = c
				return
			}
			out = "ORec " + b.coqRec(r)
			b.note(op.Key, r.Version)
		})
	case "M":
		ks := make([]string, len(op.Keys))
		for i, k := range op.Keys {
			ks[i] = hx.Str(k)
		}
		coqOp = fmt.Sprintf("XOp (GetMany %s)", hx.List(ks))
		run(func() {
			rs, err := b.S.GetMany(ctx, op.Keys...)
			obs.T1 = b.now()
			if c := Class(err); c != "OOk" {
				out = c
				return
			}
			items := make([]string, len(rs))
			for i, r := range rs {
				if r == nil {
					items[i] = "None"
				} else {
					items[i] = "Some " + b.coqRec(*r)
					b.note(r.Key, r.Version)
				}
			}
			out = "ORecs " + hx.List(items)
		})
	case "P":
		t, e := b.expires(op.Exp)
		coqOp = fmt.Sprintf("XOp (Put %s %s %s)", hx.Str(op.Key), CoqVal(ValBytes(op.Val)), coqOptRel(e))
		run(func() {
			r, err := b.S.Put(ctx, kvs.Record{Key: op.Key, Value: ValBytes(op.Val), Version: "caller-version", ExpiresAt: t})
			obs.T1 = b.now()
			if c := Class(err); c != "OOk" {
				out = c
				return
			}
			out = "ORec " + b.coqRec(r)
			b.note(op.Key, r.Version)
			b.wrote(op.Key, e)
		})
	case "N":
		// the batch is Head ++ Rep copies of Recs (Rep <= 1: one copy); the copies of a record share its ExpiresAt
		mk := func(l []RecIn) ([]kvs.Record, []string) {
			rs, items := make([]kvs.Record, len(l)), make([]string, len(l))
			for i, r := range l {
				t, e := b.expires(r.Exp)
				rs[i] = kvs.Record{Key: r.Key, Value: ValBytes(r.Val), ExpiresAt: t}
				items[i] = fmt.Sprintf("(%s, %s, %s)", hx.Str(r.Key), CoqVal(ValBytes(r.Val)), coqOptRel(e))
			}
			return rs, items
		}
		head, hitems := mk(op.Head)
		pat, pitems := mk(op.Recs)
		recs := append([]kvs.Record(nil), head...)
		n := op.Rep
		if n < 1 {
			n = 1
		}
		for i := 0; i < n; i++ {
			recs = append(recs, pat...)
		}
		if len(op.Head) == 0 && op.Rep <= 1 {
			coqOp = fmt.Sprintf("XOp (PutMany %s)", hx.List(pitems))
		} else {
			coqOp = fmt.Sprintf("XOp (PutMany (%s ++ rep_recs %s %s))", hx.List(hitems), hx.Nat(n), hx.List(pitems))
		}
		run(func() {
			err := b.S.PutMany(ctx, recs)
			obs.T1 = b.now()
			out = Class(err)
			if out == "OOk" {
				for _, r := range recs {
					_, e := b.expiresAt(r.Key, recs)
					b.wrote(r.Key, e)
				}
			}
		})
	case "S":
		t, e := b.expires(op.Exp)
		ver := b.Version(op.Key, op.Ver)
		coqOp = fmt.Sprintf("XOp (CasByVersion %s %s %s %s)", hx.Str(op.Key), CoqVal(ValBytes(op.Val)), coqOptRel(e), hx.Nat(b.ID(ver)))
		run(func() {
			r, err := b.S.CasByVersion(ctx, kvs.Record{Key: op.Key, Value: ValBytes(op.Val), Version: ver, ExpiresAt: t})
			obs.T1 = b.now()
			if c := Class(err); c != "OOk" {
				out = c
				return
			}
			out = "ORec " + b.coqRec(r)
			b.note(op.Key, r.Version)
			b.wrote(op.Key, e)
		})
	case "D":
		coqOp = fmt.Sprintf("XOp (Delete %s)", hx.Str(op.Key))
		run(func() {
			err := b.S.Delete(ctx, op.Key)
			obs.T1 = b.now()
			out = Class(err)
		})
	case "L":
		coqOp = fmt.Sprintf("XOp (ListKeys %s)", hx.Str(op.Pat))
		run(func() {
			it, err := b.S.ListKeys(ctx, op.Pat)
			if err != nil {
				obs.T1 = b.now()
				out = "OOther"
				return
			}
			var keys []string
			for it.HasNext() && len(keys) < 1000 {
				k, _ := it.Next()
				keys = append(keys, k)
			}
			it.Close()
			obs.T1 = b.now()
			sort.Strings(keys)
			ks := make([]string, len(keys))
			for i, k := range keys {
				ks[i] = hx.Str(k)
			}
			out = "OKeys " + hx.List(ks)
		})
	case "W":
		ver := b.Version(op.Key, op.Ver)
		coqOp = fmt.Sprintf("XWait %s %s", hx.Str(op.Key), hx.Nat(b.ID(ver)))
		run(func() {
			d := time.Duration(op.D) * time.Millisecond
			if d <= 0 {
				d = 5 * time.Millisecond
			}
			// A short context can run out before the first look at the record when the machine is busy
			// (go-redis then fails the GET with the context's error): the context's error of a short wait
			// is reported only if it persists over three attempts with deadlines d, 4d, 16d. The call
			// changes nothing, so repeating it is harmless; the last attempt is the observation.
			// a wait lasts: keep the server's clock moving meanwhile (every millisecond)
			stop := make(chan struct{})
			defer close(stop)
			if b.MR != nil {
				go func() {
					tk := time.NewTicker(time.Millisecond)
					defer tk.Stop()
					for {
						select {
						case <-stop:
							return
						case <-tk.C:
							b.sync()
						}
					}
				}()
			}
			var err error
			var dl time.Time
			for attempt := 0; attempt < 3; attempt++ {
				obs.T0 = b.now()
				c2, cancel := context.WithTimeout(ctx, d)
				dl, _ = c2.Deadline()
				err = b.S.WaitForVersionChange(c2, op.Key, ver)
				cancel()
				if Class(err) != "OCtx" || d >= 100*time.Millisecond {
					break
				}
				d *= 4
			}
			obs.T1 = b.now()
			out = Class(err)
			if out == "OCtx" {
				// the context's error is justified by the record still being there, unchanged, when the
				// context ended (the return may be noticed much later on a busy machine)
				// (the Redis client polls, with pauses of up to 64 ms: there it is justified by the record being
				// there at its last look, at most 100 ms before the context ended)
				start := obs.T0
				obs.T1 = int64(dl.Sub(b.T0) + b.FF)
				obs.T0 = obs.T1
				if b.MR != nil {
					obs.T0 = obs.T1 - int64(100*time.Millisecond)
					if obs.T0 < start {
						obs.T0 = start
					}
				}
			}
		})
	default:
		panic("bad op " + op.K)
	}
	if obs.T1 < obs.T0 {
		obs.T1 = b.now()
	}
	if b.MR != nil && b.Tick > 0 {
		b.MR.FastForward(b.Tick)
		b.FF += b.Tick
	}
	obs.CoqOp, obs.CoqOut = coqOp, out
	obs.Class = strings.SplitN(out, " ", 2)[0]
	return obs, true
}

// RunCase executes the operations on a freshly reset backend and returns the Gallina list of observations
func (b *Backend) RunCase(ops []Op, count func(string)) []Obs {
	b.Reset()
	var res []Obs
	for _, o := range ops {
		if o.K == "T" {
			if count != nil {
				count(b.Name + ":op:T")
			}
			res = append(res, b.TightPuts(o)...)
			continue
		}
		obs, ok := b.Exec(o)
		if count != nil {
			count(b.Name + ":op:" + o.K)
		}
		if ok {
			if count != nil {
				count(b.Name + ":out:" + o.K + ":" + obs.Class)
			}
			res = append(res, obs)
		}
	}
	return res
}

func CoqObsList(l []Obs) string {
	var segs, cur []string
	many := false
	for _, o := range l {
		if o.List != "" {
			many = true
			if len(cur) > 0 {
				segs, cur = append(segs, hx.List(cur)), nil
			}
			segs = append(segs, o.List)
			continue
		}
		cur = append(cur, o.Coq())
	}
	if !many {
		return hx.List(cur)
	}
	if len(cur) > 0 {
		segs = append(segs, hx.List(cur))
	}
	return "(" + strings.Join(segs, " ++ ") + ")"
}

// TightPuts is the step T: Rep calls of Put (value Val, no expiration) over Keys in turn, issued back to back
// with nothing in between; every returned version is an observation. If all calls succeed the run is sent
// as one compact term (tight_puts of run/KVRun.v), otherwise call by call.
func (b *Backend) TightPuts(op Op) []Obs {
	ctx := context.Background()
	type res struct {
		r   kvs.Record
		err error
	}
	n := op.Rep
	out := make([]res, n)
	val := ValBytes(op.Val)
	t0 := b.now()
	b.sync()
	func() {
		defer func() { recover() }()
		for i := 0; i < n; i++ {
			out[i].err = fmt.Errorf("not run")
		}
		for i := 0; i < n; i++ {
			out[i].r, out[i].err = b.S.Put(ctx, kvs.Record{Key: op.Keys[i%len(op.Keys)], Value: val, Version: "caller-version"})
		}
	}()
	t1 := b.now()
	skew := int64(b.FF)
	ok := true
	for i := range out {
		r := out[i].r
		if out[i].err != nil || r.Key != op.Keys[i%len(op.Keys)] || r.ExpiresAt != nil || string(r.Value) != string(val) {
			ok = false
		}
	}
	var obs []Obs
	if ok {
		var runs []string
		start, cnt := 0, 0
		for i := range out {
			id := b.ID(out[i].r.Version)
			b.note(out[i].r.Key, out[i].r.Version)
			if cnt > 0 && id == start+cnt {
				cnt++
				continue
			}
			if cnt > 0 {
				runs = append(runs, fmt.Sprintf("(%s, %s)", hx.Nat(start), hx.Nat(cnt)))
			}
			start, cnt = id, 1
		}
		if cnt > 0 {
			runs = append(runs, fmt.Sprintf("(%s, %s)", hx.Nat(start), hx.Nat(cnt)))
		}
		ks := make([]string, len(op.Keys))
		for i, k := range op.Keys {
			ks[i] = hx.Str(k)
		}
		obs = []Obs{{T0: t0, T1: t1, Skew: skew, Class: "ORec",
			List: fmt.Sprintf("tight_puts %s %s %s %s %s %s", Z(t0), Z(t1), Z(skew), hx.List(ks), CoqVal(val), hx.List(runs))}}
	} else {
		for i := range out {
			k := op.Keys[i%len(op.Keys)]
			o := Obs{T0: t0, T1: t1, Skew: skew, CoqOp: fmt.Sprintf("XOp (Put %s %s None)", hx.Str(k), CoqVal(val))}
			if c := Class(out[i].err); c != "OOk" {
				o.CoqOut = "OOther"
				if c != "OOk" && out[i].err.Error() != "not run" {
					o.CoqOut = c
				}
			} else {
				o.CoqOut = "ORec " + b.coqRec(out[i].r)
				b.note(k, out[i].r.Version)
			}
			o.Class = strings.SplitN(o.CoqOut, " ", 2)[0]
			obs = append(obs, o)
		}
	}
	if b.MR != nil && b.Tick > 0 {
		b.MR.FastForward(b.Tick)
		b.FF += b.Tick
	}
	return obs
}

const CoqHeader = "From Coq Require Import List ZArith NArith.\nFrom GL Require Import spec.KV run.KVRun"
