// Package xbgen translates the table-like fragment of xbinary/xbinary.go - the
// constants used by WritableUintSize (bit7 ... bit63) and the if-tree of
// WritableUintSize itself - into Gallina, so that the theorems of
// coqgen/C15_Gen.v are stated over the code as it is written today.
//
// Subset accepted (anything else: non-zero exit with a message):
//   - constants: untyped integer constant expressions built from literals,
//     other such constants, ( ), << >> + - * | & ; every intermediate value
//     must be a natural number
//   - func WritableUintSize(v uint64) int whose body consists of
//     `if cond { ... } [else ...]` and `return <integer constant expression>`;
//     a condition compares the parameter with a constant expression
//     (>= > <= < == !=), combined with && || ! and parentheses.
//
// The translation of statements is by continuation: an `if` without an
// `else` (or whose block does not return on every path) falls through to the
// statements that follow it.
package xbgen

import (
	"fmt"
	"go/ast"
	"go/parser"
	"go/token"
	"math/big"
	"path/filepath"
	"sort"
	"strings"
)

// Error is a fragment outside the translated subset (or an unreadable source)
type Error struct{ Msg string }

func (e *Error) Error() string { return e.Msg }

func fail(format string, a ...any) {
	panic(&Error{fmt.Sprintf(format, a...)})
}

type tr struct {
	fset       *token.FileSet
	consts     map[string]ast.Expr // every single-name constant of the file
	vals       map[string]*big.Int // evaluated
	coq        map[string]string   // Gallina body
	order      []string            // in dependency order
	param      string
	thresholds []uint64 // values of the constant operands of the comparisons
	size       int      // nodes emitted for the function body (guards against blow-up)
}

func (t *tr) pos(n ast.Node) string { return t.fset.Position(n.Pos()).String() }

// constExpr translates and evaluates an integer constant expression
func (t *tr) constExpr(e ast.Expr) (string, *big.Int) {
	switch x := e.(type) {
	case *ast.ParenExpr:
		s, v := t.constExpr(x.X)
		return s, v
	case *ast.BasicLit:
		if x.Kind != token.INT {
			fail("%s: literal %s is not an integer", t.pos(x), x.Value)
		}
		v, ok := new(big.Int).SetString(strings.ReplaceAll(x.Value, "_", ""), 0)
		if !ok {
			fail("%s: cannot read the literal %s", t.pos(x), x.Value)
		}
		return v.String(), v
	case *ast.Ident:
		if x.Name == t.param {
			fail("%s: the parameter may only be compared with a constant", t.pos(x))
		}
		t.needConst(x)
		return x.Name, t.vals[x.Name]
	case *ast.BinaryExpr:
		a, va := t.constExpr(x.X)
		b, vb := t.constExpr(x.Y)
		var s string
		v := new(big.Int)
		switch x.Op {
		case token.SHL:
			if !vb.IsUint64() || vb.Uint64() > 4096 {
				fail("%s: shift count out of range", t.pos(x))
			}
			s, v = fmt.Sprintf("(N.shiftl %s %s)", a, b), v.Lsh(va, uint(vb.Uint64()))
		case token.SHR:
			if !vb.IsUint64() || vb.Uint64() > 4096 {
				fail("%s: shift count out of range", t.pos(x))
			}
			s, v = fmt.Sprintf("(N.shiftr %s %s)", a, b), v.Rsh(va, uint(vb.Uint64()))
		case token.ADD:
			s, v = fmt.Sprintf("(%s + %s)", a, b), v.Add(va, vb)
		case token.SUB:
			s, v = fmt.Sprintf("(%s - %s)", a, b), v.Sub(va, vb)
		case token.MUL:
			s, v = fmt.Sprintf("(%s * %s)", a, b), v.Mul(va, vb)
		case token.OR:
			s, v = fmt.Sprintf("(N.lor %s %s)", a, b), v.Or(va, vb)
		case token.AND:
			s, v = fmt.Sprintf("(N.land %s %s)", a, b), v.And(va, vb)
		default:
			fail("%s: operator %s is outside the translated subset", t.pos(x), x.Op)
		}
		if v.Sign() < 0 {
			fail("%s: negative intermediate value in a constant expression", t.pos(x))
		}
		return s, v
	}
	fail("%s: expression outside the translated subset (%T)", t.pos(e), e)
	return "", nil
}

func (t *tr) needConst(id *ast.Ident) {
	if _, done := t.vals[id.Name]; done {
		return
	}
	e, ok := t.consts[id.Name]
	if !ok {
		fail("%s: %s is not an untyped integer constant of this file", t.pos(id), id.Name)
	}
	if e == nil {
		fail("%s: constant %s is defined in terms of itself", t.pos(id), id.Name)
	}
	t.consts[id.Name] = nil // cycle guard
	s, v := t.constExpr(e)
	t.consts[id.Name] = e
	t.vals[id.Name], t.coq[id.Name] = v, s
	t.order = append(t.order, id.Name)
}

// operand of a comparison: the parameter or a constant expression
func (t *tr) operand(e ast.Expr) string {
	for {
		p, ok := e.(*ast.ParenExpr)
		if !ok {
			break
		}
		e = p.X
	}
	if id, ok := e.(*ast.Ident); ok && id.Name == t.param {
		return "v"
	}
	s, v := t.constExpr(e)
	if v.BitLen() > 64 {
		fail("%s: constant does not fit uint64", t.pos(e))
	}
	t.thresholds = append(t.thresholds, v.Uint64())
	return s
}

func (t *tr) cond(e ast.Expr) string {
	switch x := e.(type) {
	case *ast.ParenExpr:
		return t.cond(x.X)
	case *ast.UnaryExpr:
		if x.Op == token.NOT {
			return "(negb " + t.cond(x.X) + ")"
		}
	case *ast.BinaryExpr:
		switch x.Op {
		case token.LAND:
			return "(" + t.cond(x.X) + " && " + t.cond(x.Y) + ")"
		case token.LOR:
			return "(" + t.cond(x.X) + " || " + t.cond(x.Y) + ")"
		}
		a, b := t.operand(x.X), t.operand(x.Y)
		if a != "v" && b != "v" || a == "v" && b == "v" {
			fail("%s: a condition must compare the parameter with a constant", t.pos(x))
		}
		switch x.Op {
		case token.GEQ:
			return fmt.Sprintf("(%s <=? %s)", b, a)
		case token.GTR:
			return fmt.Sprintf("(%s <? %s)", b, a)
		case token.LEQ:
			return fmt.Sprintf("(%s <=? %s)", a, b)
		case token.LSS:
			return fmt.Sprintf("(%s <? %s)", a, b)
		case token.EQL:
			return fmt.Sprintf("(%s =? %s)", a, b)
		case token.NEQ:
			return fmt.Sprintf("(negb (%s =? %s))", a, b)
		}
	}
	fail("%s: condition outside the translated subset", t.pos(e))
	return ""
}

// stmts translates a statement list; k is what happens after it ("" = the
// function would end without a return)
func (t *tr) stmts(l []ast.Stmt, k string, ind string) string {
	t.size++
	if t.size > 4000 {
		fail("WritableUintSize: the translated tree is too large")
	}
	if len(l) == 0 {
		if k == "" {
			fail("WritableUintSize: a path reaches the end of the function without a return")
		}
		return k
	}
	switch s := l[0].(type) {
	case *ast.ReturnStmt:
		if len(s.Results) != 1 {
			fail("%s: return must have one result", t.pos(s))
		}
		_, v := t.constExpr(s.Results[0])
		if !v.IsInt64() || v.Int64() > 1000 {
			fail("%s: returned size out of range", t.pos(s))
		}
		return fmt.Sprintf("%d%%nat", v.Int64())
	case *ast.IfStmt:
		if s.Init != nil {
			fail("%s: if with an init statement is outside the translated subset", t.pos(s))
		}
		rest := ""
		if len(l) > 1 || k != "" {
			rest = t.stmts(l[1:], k, ind+"  ")
		}
		c := t.cond(s.Cond)
		th := t.stmts(s.Body.List, rest, ind+"  ")
		var el string
		switch e := s.Else.(type) {
		case nil:
			if rest == "" {
				fail("%s: a path reaches the end of the function without a return", t.pos(s))
			}
			el = rest
		case *ast.BlockStmt:
			el = t.stmts(e.List, rest, ind+"  ")
		case *ast.IfStmt:
			el = t.stmts([]ast.Stmt{e}, rest, ind+"  ")
		default:
			fail("%s: else branch outside the translated subset", t.pos(s))
		}
		return fmt.Sprintf("(if %s\n%s then %s\n%s else %s)", c, ind, th, ind, el)
	case *ast.BlockStmt:
		return t.stmts(append(append([]ast.Stmt{}, s.List...), l[1:]...), k, ind)
	}
	fail("%s: statement outside the translated subset (%T)", t.pos(l[0]), l[0])
	return ""
}

// Translate reads <repo>/xbinary/xbinary.go and returns the Gallina text of
// Gen_xbinary.v and the values of the constant operands of the conditions of
// WritableUintSize (the thresholds of the table as written today).
func Translate(repo string) (coq string, thresholds []uint64, err error) {
	defer func() {
		if r := recover(); r != nil {
			if e, ok := r.(*Error); ok {
				coq, thresholds, err = "", nil, e
				return
			}
			panic(r)
		}
	}()
	src := filepath.Join(repo, "xbinary", "xbinary.go")
	t := &tr{fset: token.NewFileSet(), consts: map[string]ast.Expr{}, vals: map[string]*big.Int{}, coq: map[string]string{}}
	f, err := parser.ParseFile(t.fset, src, nil, 0)
	if err != nil {
		fail("cannot parse %s: %v", src, err)
	}
	var fn *ast.FuncDecl
	for _, d := range f.Decls {
		switch x := d.(type) {
		case *ast.GenDecl:
			if x.Tok != token.CONST {
				continue
			}
			for _, sp := range x.Specs {
				vs := sp.(*ast.ValueSpec)
				if vs.Type != nil || len(vs.Names) != len(vs.Values) {
					continue // typed or iota-style constants are not translated (an error only if referenced)
				}
				for i, n := range vs.Names {
					t.consts[n.Name] = vs.Values[i]
				}
			}
		case *ast.FuncDecl:
			if x.Recv == nil && x.Name.Name == "WritableUintSize" {
				fn = x
			}
		}
	}
	if fn == nil {
		fail("func WritableUintSize not found in %s", src)
	}
	ps := fn.Type.Params.List
	if len(ps) != 1 || len(ps[0].Names) != 1 {
		fail("WritableUintSize: expected exactly one parameter")
	}
	if id, ok := ps[0].Type.(*ast.Ident); !ok || id.Name != "uint64" {
		fail("WritableUintSize: the parameter type must be uint64")
	}
	if fn.Type.Results == nil || len(fn.Type.Results.List) != 1 {
		fail("WritableUintSize: expected one result")
	}
	if id, ok := fn.Type.Results.List[0].Type.(*ast.Ident); !ok || id.Name != "int" {
		fail("WritableUintSize: the result type must be int")
	}
	t.param = ps[0].Names[0].Name
	if fn.Body == nil {
		fail("WritableUintSize has no body")
	}
	body := t.stmts(fn.Body.List, "", "  ")

	var sb strings.Builder
	sb.WriteString("(* GENERATED by harness/cmd/gen15 from xbinary/xbinary.go: the constants used by\n")
	sb.WriteString("   WritableUintSize and its if-tree.  Do not edit; regenerated on every run. *)\n")
	sb.WriteString("From Coq Require Import NArith Bool.\nOpen Scope N_scope.\n\nModule Gen.\n\n")
	for _, n := range t.order {
		fmt.Fprintf(&sb, "Definition %s : N := %s.\n", n, t.coq[n])
	}
	sb.WriteString("\n(* the values, computed by the translator and re-checked by Coq *)\n")
	for _, n := range t.order {
		fmt.Fprintf(&sb, "Lemma %s_val : %s = %s.\nProof. vm_compute. reflexivity. Qed.\n", n, n, t.vals[n].String())
	}
	names := append([]string{}, t.order...)
	sort.Strings(names)
	sb.WriteString("\nLtac gen_const_values :=\n  repeat first\n    [ ")
	for i, n := range names {
		if i > 0 {
			sb.WriteString("\n    | ")
		}
		fmt.Fprintf(&sb, "rewrite %s_val in *", n)
	}
	if len(names) == 0 {
		sb.WriteString("fail")
	}
	sb.WriteString(" ].\n\n")
	fmt.Fprintf(&sb, "(* func WritableUintSize(%s uint64) int *)\nDefinition WritableUintSize (v : N) : nat :=\n  %s.\n\nEnd Gen.\n", t.param, body)
	return sb.String(), t.thresholds, nil
}
