// Package imapx is shared by the C10 and C11 drivers: operation vocabulary of
// iterable.Map histories, execution on the real map with the verif hook, the
// Gallina printers and the history generators.
package imapx

import (
	"fmt"
	"time"

	"verifharness/internal/hx"
	"verifharness/internal/prng"

	"github.com/acquirecloud/golibs/container/iterable"
)

// Op kinds: A add(A=key,V=value) R remove(A) G get(A) L len F first
// I new iterator named A, H hasNext(A), N next(A), C close(A)
type Op struct {
	K string `json:"k"`
	A int64  `json:"a,omitempty"`
	V int64  `json:"v,omitempty"`
	F bool   `json:"f,omitempty"` // cache histories (C11): the create function fails
	N []Op   `json:"n,omitempty"` // cache histories (C11): calls made re-entrantly from the create function / members of a concurrent batch
}

func CoqOp(o Op) string {
	switch o.K {
	case "A":
		return "OAdd " + hx.Z(o.A) + " " + hx.Z(o.V)
	case "R":
		return "ORemove " + hx.Z(o.A)
	case "G":
		return "OGet " + hx.Z(o.A)
	case "L":
		return "OLen"
	case "F":
		return "OFirst"
	case "I":
		return "ONewIter " + hx.Z(o.A)
	case "H":
		return "OHasNext " + hx.Z(o.A)
	case "N":
		return "ONext " + hx.Z(o.A)
	case "C":
		return "OClose " + hx.Z(o.A)
	}
	panic("bad op " + o.K)
}

// Obs is what one call did: the Gallina term of the projected result and what
// VerifWalk saw afterwards.
type Obs struct {
	Out      string
	Nodes    int
	Deleted  int
	SumRef   int
	HeadOK   bool
	Len      int // Map.Len() after the call
	Panicked bool
	PanicMsg string
	Hung     bool // the call did not return (see RunGuarded)
}

type entry = iterable.MapEntry[int64, int64]

// Runner executes operations one by one on a real map.
type Runner struct {
	M   *iterable.Map[int64, int64]
	Its map[int64]iterable.Iterator[entry]
}

func NewRunner() *Runner {
	return &Runner{M: iterable.NewMap[int64, int64](), Its: map[int64]iterable.Iterator[entry]{}}
}

// Do runs one operation; a panic is an observation.
func (r *Runner) Do(o Op) (obs Obs) {
	defer func() {
		if x := recover(); x != nil {
			obs = Obs{Out: "OutPanic", Panicked: true, PanicMsg: fmt.Sprint(x)}
		}
	}()
	var out string
	switch o.K {
	case "A":
		if err := r.M.Add(o.A, o.V); err != nil {
			out = "OutErr"
		} else {
			out = "OutUnit"
		}
	case "R":
		r.M.Remove(o.A)
		out = "OutUnit"
	case "G":
		if v, ok := r.M.Get(o.A); ok {
			out = "OutGet (Some " + hx.Z(v) + ")"
		} else {
			out = "OutGet None"
		}
	case "L":
		out = "OutLen " + hx.Nat(r.M.Len())
	case "F":
		if k, ok := r.M.First(); ok {
			out = "OutFirst (Some " + hx.Z(k) + ")"
		} else {
			out = "OutFirst None"
		}
	case "I":
		r.Its[o.A] = r.M.Iterator()
		out = "OutUnit"
	case "H":
		it := r.Its[o.A] // unknown name: nil interface, the call panics like a closed iterator does
		out = "OutBool " + hx.Bool(it.HasNext())
	case "N":
		it := r.Its[o.A]
		if e, ok := it.Next(); ok {
			out = "OutNext (Some (" + hx.Z(e.Key) + ", " + hx.Z(e.Value) + "))"
		} else {
			out = "OutNext None" // key/value with ok=false are not part of the contract
		}
	case "C":
		it := r.Its[o.A]
		if err := it.Close(); err != nil {
			out = "OutNoFuel" // never matches the model
		} else {
			out = "OutUnit"
		}
	default:
		panic("bad op " + o.K)
	}
	n, d, s, ok := r.M.VerifWalk()
	if n > 1<<20 { // a cyclic list (the hook gives up at 2^26): any such count is a mismatch; keep the Gallina nat small
		n, d = 1<<20, 0
	}
	return Obs{Out: out, Nodes: n, Deleted: d, SumRef: s, HeadOK: ok, Len: r.M.Len()}
}

// CaseTimeout bounds one whole history (some tens of calls, microseconds each
// on the unchanged tree: the bound is >= 10^4 times the typical duration).
var CaseTimeout = 1500 * time.Millisecond

// RunGuarded executes a history on a fresh map in its own goroutine; before(i)
// runs ahead of the i-th call.  It stops after the first panic.  A history
// that does not finish within CaseTimeout is run again (up to three times in
// all, so that a stalled machine is not mistaken for a hang); if it still
// does not finish, the call that did not return is reported as the
// observation Hung (printed as OutNoFuel, which the model never produces on
// a well-formed history) and the goroutine is abandoned.
func RunGuarded(ops []Op, before func(i int)) []Obs {
	var res []Obs
	for attempt := 0; attempt < 3; attempt++ {
		var hung bool
		res, hung = runOnce(ops, before)
		if !hung {
			return res
		}
	}
	HungCases++
	return append(res, Obs{Out: "OutNoFuel", Panicked: true, Hung: true,
		PanicMsg: fmt.Sprintf("the call did not return within %v (3 attempts)", CaseTimeout)})
}

// HungCases counts histories abandoned by RunGuarded (each leaves a spinning goroutine behind).
var HungCases int

func runOnce(ops []Op, before func(i int)) ([]Obs, bool) {
	out := make(chan Obs, len(ops)+1)
	go func() {
		r := NewRunner()
		for i, o := range ops {
			if before != nil {
				before(i)
			}
			ob := r.Do(o)
			out <- ob
			if ob.Panicked {
				break
			}
		}
		close(out)
	}()
	var res []Obs
	limit := CaseTimeout
	if before != nil {
		limit *= 10 // forced garbage collections between the calls take milliseconds each
	}
	timer := time.NewTimer(limit)
	defer timer.Stop()
	for {
		select {
		case ob, ok := <-out:
			if !ok {
				return res, false
			}
			res = append(res, ob)
		case <-timer.C:
			return res, true
		}
	}
}

// Run executes a history; it stops after the first panic or hang.
func Run(ops []Op) []Obs { return RunGuarded(ops, nil) }

// ---------------------------------------------------------------- generators

// Sim tracks what a generator needs to stay well-formed: which keys are present
// and which iterator slots are open (slot -> name).
type Sim struct {
	Present  map[int64]bool
	Slot     []int64 // name held by the slot, 0 = closed
	nextName int64
	nextVal  int64
}

func NewSim(slots int) *Sim {
	return &Sim{Present: map[int64]bool{}, Slot: make([]int64, slots)}
}

func (s *Sim) Clone() *Sim {
	c := &Sim{Present: map[int64]bool{}, Slot: append([]int64(nil), s.Slot...), nextName: s.nextName, nextVal: s.nextVal}
	for k, v := range s.Present {
		c.Present[k] = v
	}
	return c
}

func (s *Sim) Add(k int64) Op {
	s.nextVal++
	s.Present[k] = true // (an Add on a present key fails and changes nothing)
	return Op{K: "A", A: k, V: 100 + s.nextVal}
}
func (s *Sim) Remove(k int64) Op { delete(s.Present, k); return Op{K: "R", A: k} }
func (s *Sim) Open(slot int) Op {
	s.nextName++
	s.Slot[slot] = s.nextName
	return Op{K: "I", A: s.nextName}
}
func (s *Sim) Close(slot int) Op {
	n := s.Slot[slot]
	s.Slot[slot] = 0
	return Op{K: "C", A: n}
}
func (s *Sim) OpenSlots() []int {
	var r []int
	for i, n := range s.Slot {
		if n != 0 {
			r = append(r, i)
		}
	}
	return r
}
func (s *Sim) FreeSlot() int {
	for i, n := range s.Slot {
		if n == 0 {
			return i
		}
	}
	return -1
}

// Drain appends the probe suffix: observers, every open iterator advanced to
// its end and closed, then the map used again (First, a fresh full iteration).
func (s *Sim) Drain(ops []Op, keys []int64, maxNext int) []Op {
	ops = append(ops, Op{K: "L"})
	for _, k := range keys {
		ops = append(ops, Op{K: "G", A: k})
	}
	ops = append(ops, Op{K: "F"})
	for _, sl := range s.OpenSlots() {
		n := s.Slot[sl]
		ops = append(ops, Op{K: "H", A: n})
		for i := 0; i < maxNext; i++ {
			ops = append(ops, Op{K: "N", A: n})
		}
		ops = append(ops, s.Close(sl))
	}
	ops = append(ops, Op{K: "F"}, Op{K: "L"})
	o := s.Open(0)
	ops = append(ops, o)
	for i := 0; i < maxNext; i++ {
		ops = append(ops, Op{K: "N", A: o.A})
	}
	ops = append(ops, s.Close(0))
	return ops
}

// Enumerate calls f with every well-formed history of exactly depth state-
// changing operations over the given keys and iterator slots (symmetry broken:
// key i+1 is only added after key i has been, a new iterator takes the lowest
// free slot; Add of a present key / Remove of an absent key are left to the
// random stream), each followed by the drain suffix.
func Enumerate(depth int, keys []int64, slots int, f func(ops []Op)) {
	var rec func(d int, s *Sim, used int, ops []Op)
	rec = func(d int, s *Sim, used int, ops []Op) {
		if d == depth {
			c := s.Clone()
			f(c.Drain(append([]Op(nil), ops...), keys, len(keys)+1))
			return
		}
		try := func(mut func(c *Sim) Op, used2 int) {
			c := s.Clone()
			o := mut(c)
			rec(d+1, c, used2, append(ops[:len(ops):len(ops)], o))
		}
		for i, k := range keys {
			k := k
			if s.Present[k] {
				try(func(c *Sim) Op { return c.Remove(k) }, used)
			} else if i <= used {
				u := used
				if i == used {
					u = used + 1
				}
				try(func(c *Sim) Op { return c.Add(k) }, u)
			}
		}
		try(func(c *Sim) Op { return Op{K: "F"} }, used)
		if fs := s.FreeSlot(); fs >= 0 {
			try(func(c *Sim) Op { return c.Open(fs) }, used)
		}
		for _, sl := range s.OpenSlots() {
			sl := sl
			n := s.Slot[sl]
			try(func(c *Sim) Op { return Op{K: "H", A: n} }, used)
			try(func(c *Sim) Op { return Op{K: "N", A: n} }, used)
			try(func(c *Sim) Op { return c.Close(sl) }, used)
		}
	}
	rec(0, NewSim(slots), 0, nil)
}

// Random returns a well-formed random history of about n operations over
// nkeys keys and the given number of iterator slots, biased towards the
// situations the property is about: keys removed under iterators and re-added,
// iterators closed while parked on removed entries, the map used afterwards.
func Random(r *prng.R, n, nkeys, slots int, closeAll bool) []Op {
	s := NewSim(slots)
	keys := make([]int64, nkeys)
	for i := range keys {
		keys[i] = int64(i + 1)
	}
	var ops []Op
	afterRemove := false
	for len(ops) < n {
		open := s.OpenSlots()
		if afterRemove && len(open) > 0 && r.Chance(1, 3) {
			// close an iterator right after a removal, then use the map
			ops = append(ops, s.Close(prng.Pick(r, open)))
			switch r.Intn(3) {
			case 0:
				ops = append(ops, Op{K: "F"})
			case 1:
				ops = append(ops, s.Add(prng.Pick(r, keys)))
			}
			afterRemove = false
			continue
		}
		afterRemove = false
		x := r.Intn(100)
		switch {
		case x < 22:
			ops = append(ops, s.Add(prng.Pick(r, keys)))
		case x < 40:
			ops = append(ops, s.Remove(prng.Pick(r, keys)))
			afterRemove = true
		case x < 45:
			ops = append(ops, Op{K: "G", A: prng.Pick(r, keys)})
		case x < 48:
			ops = append(ops, Op{K: "L"})
		case x < 55:
			ops = append(ops, Op{K: "F"})
		case x < 65:
			if fs := s.FreeSlot(); fs >= 0 {
				ops = append(ops, s.Open(fs))
			}
		case x < 75:
			if len(open) > 0 {
				ops = append(ops, Op{K: "H", A: s.Slot[prng.Pick(r, open)]})
			}
		case x < 93:
			if len(open) > 0 {
				ops = append(ops, Op{K: "N", A: s.Slot[prng.Pick(r, open)]})
			}
		default:
			if len(open) > 0 {
				ops = append(ops, s.Close(prng.Pick(r, open)))
			}
		}
	}
	if closeAll {
		for _, sl := range s.OpenSlots() {
			ops = append(ops, s.Close(sl))
		}
		ops = append(ops, Op{K: "L"}, Op{K: "F"})
	}
	return ops
}

// RandomChurn returns a long well-formed history made of rounds: iterators are
// opened, entries are added and removed under them (First is called while
// removed entries are pinned), the iterators are advanced part of the way and
// then all closed, and the map is used again.  After every round no iterator
// is open, so whatever a round leaves behind accumulates over the history.
func RandomChurn(r *prng.R, n, nkeys, slots int) []Op {
	s := NewSim(slots)
	keys := make([]int64, nkeys)
	for i := range keys {
		keys[i] = int64(i + 1)
	}
	var ops []Op
	for len(ops) < n {
		for sl := 0; sl < slots; sl++ {
			if s.Slot[sl] == 0 && r.Chance(2, 3) {
				ops = append(ops, s.Open(sl))
			}
			if r.Chance(1, 2) {
				ops = append(ops, s.Add(prng.Pick(r, keys)))
			}
		}
		for j := 8 + r.Intn(16); j > 0; j-- {
			open := s.OpenSlots()
			x := r.Intn(10)
			switch {
			case x < 3:
				ops = append(ops, s.Add(prng.Pick(r, keys)))
			case x < 6:
				ops = append(ops, s.Remove(prng.Pick(r, keys)))
			case x < 7:
				ops = append(ops, Op{K: "F"})
			case x < 9 && len(open) > 0:
				ops = append(ops, Op{K: "N", A: s.Slot[prng.Pick(r, open)]})
			case len(open) > 0:
				ops = append(ops, Op{K: "H", A: s.Slot[prng.Pick(r, open)]})
			}
		}
		for _, sl := range s.OpenSlots() {
			ops = append(ops, s.Close(sl))
		}
		ops = append(ops, Op{K: "L"}, Op{K: "F"})
	}
	return ops
}

// FillDrain returns a well-formed history of fill/drain rounds: the (mostly
// empty) map is asked for First, filled with 1..nkeys entries, iterators are
// opened at the head and some advanced a little, then the entries are removed
// in insertion order -- so iterators get parked on removed head entries --
// with First / HasNext / Next in between and iterators closed *in place*
// (not drained) at arbitrary points; at the end of a round every iterator is
// closed.  Whatever a round leaves behind accumulates over the rounds.
func FillDrain(r *prng.R, rounds, nkeys, slots int) []Op {
	s := NewSim(slots)
	var ops []Op
	for round := 0; round < rounds; round++ {
		if r.Chance(1, 2) {
			ops = append(ops, Op{K: "F"}) // between rounds the map is usually empty
		}
		m := 1 + r.Intn(nkeys)
		for k := 1; k <= m; k++ {
			ops = append(ops, s.Add(int64(k)))
		}
		for sl, nit := 0, r.Intn(slots+1); sl < nit; sl++ {
			ops = append(ops, s.Open(sl))
			for j := r.Intn(3); j > 0; j-- {
				ops = append(ops, Op{K: "N", A: s.Slot[sl]})
			}
		}
		keep := 0
		if r.Chance(1, 4) {
			keep = r.Intn(m + 1) // sometimes the map is not drained completely
		}
		for k := 1; k <= m-keep; k++ {
			ops = append(ops, s.Remove(int64(k)))
			if r.Chance(1, 2) {
				ops = append(ops, Op{K: "F"})
			}
			if open := s.OpenSlots(); len(open) > 0 && r.Chance(1, 2) {
				sl := prng.Pick(r, open)
				switch r.Intn(3) {
				case 0:
					ops = append(ops, s.Close(sl))
				case 1:
					ops = append(ops, Op{K: "H", A: s.Slot[sl]})
				default:
					ops = append(ops, Op{K: "N", A: s.Slot[sl]})
				}
			}
		}
		for _, sl := range s.OpenSlots() {
			ops = append(ops, s.Close(sl))
		}
		ops = append(ops, Op{K: "L"})
		for k := m - keep + 1; k <= m; k++ { // the entries that were kept go before the next round
			ops = append(ops, s.Remove(int64(k)))
		}
	}
	return append(ops, Op{K: "F"}, Op{K: "L"})
}
