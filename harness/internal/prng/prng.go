// Package prng is the single source of randomness of the harness: splitmix64,
// seeded from (VERIF_SEED, property, case index) so that every case replays.
package prng

type R struct{ s uint64 }

func New(seed uint64, salt string, idx uint64) *R {
	h := seed*0x9E3779B97F4A7C15 + 0x1234567
	for _, c := range []byte(salt) {
		h = (h ^ uint64(c)) * 0x100000001B3
	}
	r := &R{s: h ^ (idx+1)*0xD6E8FEB86659FD93}
	r.U64()
	r.U64()
	return r
}

func (r *R) U64() uint64 {
	r.s += 0x9E3779B97F4A7C15
	z := r.s
	z = (z ^ (z >> 30)) * 0xBF58476D1CE4E5B9
	z = (z ^ (z >> 27)) * 0x94D049BB133111EB
	return z ^ (z >> 31)
}

// Intn returns a value in [0,n)
func (r *R) Intn(n int) int {
	if n <= 0 {
		return 0
	}
	return int(r.U64() % uint64(n))
}

// Range returns a value in [lo,hi]
func (r *R) Range(lo, hi int) int { return lo + r.Intn(hi-lo+1) }

func (r *R) Bool() bool { return r.U64()&1 == 1 }

// Chance is true with probability num/den
func (r *R) Chance(num, den int) bool { return r.Intn(den) < num }

func Pick[T any](r *R, xs []T) T { return xs[r.Intn(len(xs))] }
