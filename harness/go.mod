module verifharness

go 1.20

require (
	github.com/acquirecloud/golibs v0.0.0
	github.com/alicebob/miniredis/v2 v2.30.2
	github.com/go-redis/redis/v8 v8.11.5
	github.com/gobwas/glob v0.2.3
	google.golang.org/genproto v0.0.0-20230306155012-7f2fa6fef1f4
	google.golang.org/grpc v1.55.0
	google.golang.org/protobuf v1.30.0
)

require (
	github.com/alicebob/gopher-json v0.0.0-20200520072559-a9ecdc9d1d3a // indirect
	github.com/cespare/xxhash/v2 v2.2.0 // indirect
	github.com/dgryski/go-rendezvous v0.0.0-20200823014737-9f7001d12a5f // indirect
	github.com/edsrzf/mmap-go v1.1.0 // indirect
	github.com/golang/protobuf v1.5.3 // indirect
	github.com/google/uuid v1.3.0 // indirect
	github.com/logrange/linker v0.0.0-20200625191800-a2d82c14f745 // indirect
	github.com/oklog/ulid/v2 v2.1.0 // indirect
	github.com/yuin/gopher-lua v1.1.0 // indirect
	golang.org/x/sys v0.6.0 // indirect
)

replace github.com/acquirecloud/golibs => /repo
