module verifharness

go 1.20

require (
	github.com/acquirecloud/golibs v0.0.0
	google.golang.org/genproto v0.0.0-20230306155012-7f2fa6fef1f4
	google.golang.org/grpc v1.55.0
	google.golang.org/protobuf v1.30.0
)

require (
	github.com/edsrzf/mmap-go v1.1.0 // indirect
	github.com/golang/protobuf v1.5.3 // indirect
	golang.org/x/sys v0.6.0 // indirect
)

replace github.com/acquirecloud/golibs => /repo
