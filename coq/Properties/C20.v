(** C20: headline theorems about the zip helpers of files/files.go
    (model: model/Zip.v, pre-fix transcription: model/legacy/ZipLegacy.v,
    proofs: proofs/C20_Paths.v, proofs/C20_Unzip.v, proofs/C20_Zip.v).

    Vocabulary.  A path string is its '/'-split ([rpath]); [resolve p] is the
    resolved absolute path of the string [p] (the list of elements below "/"
    after lexical cleaning).  [inside d p] := exists q, p = d ++ q : the
    resolved path [p] is [d] itself or lies below the directory [d]
    (element-wise prefix, so "/p/dest2" is NOT inside "/p/dest").

    Partial by nature: archive/zip (an archive is the list of its entries with
    name, directory attribute and content), filepath.Walk (files are visited in
    lexicographic order of their element lists), the file system (a finite map
    from resolved paths to directory / file-with-content; no permissions, no
    symbolic links, no I/O errors) and kernel path resolution (lexical) are
    modelled; they are tied to the real code only by the correspondence run. *)
From Coq Require Import List NArith Bool Arith.
From GL Require Import model.Zip model.legacy.ZipLegacy
  proofs.C20_Paths proofs.C20_Unzip proofs.C20_Zip.
Import ListNotations.

(** * Extraction is confined to the destination, for ANY archive and file system *)

Theorem C20_unzip_confined : forall (dest : rpath) (ar : list entry) (fs fs' : fsys) (res : ures)
                                    (p : list seg),
  is_rooted dest = true ->
  unzip dest ar fs = (fs', res) ->
  fs_get fs' p <> fs_get fs p ->
  inside (resolve dest) p \/
  (p <> [] /\ strict_prefix p (resolve dest) /\ fs_get fs p = None /\ fs_get fs' p = Some Dir).
Proof. exact unzip_confined. Qed.
Print Assumptions C20_unzip_confined.

(** when the destination directory already exists, nothing else changes at all *)
Theorem C20_unzip_confined_existing_dest : forall (dest : rpath) (ar : list entry) (fs fs' : fsys)
                                                  (res : ures) (p : list seg),
  is_rooted dest = true ->
  (forall a b, a <> [] -> resolve dest = a ++ b -> fs_get fs a = Some Dir) ->
  unzip dest ar fs = (fs', res) ->
  fs_get fs' p <> fs_get fs p ->
  inside (resolve dest) p.
Proof. exact unzip_confined_existing_dest. Qed.
Print Assumptions C20_unzip_confined_existing_dest.

(** the lexical fact behind it: the cleaned join of the destination and ANY
    entry name is inside the destination, or the entry is rejected *)
Theorem C20_join_inside_or_escapes : forall (dest n : rpath),
  is_rooted dest = true ->
  inside (resolve dest) (resolve (join dest n)) \/
  (exists r, rel dest (join dest n) = Some r /\ rel_escapes r = true).
Proof. exact join_inside_or_escapes. Qed.
Print Assumptions C20_join_inside_or_escapes.

Theorem C20_clean_idempotent : forall p : rpath, clean (clean_str p) = clean p.
Proof. exact clean_idempotent. Qed.
Print Assumptions C20_clean_idempotent.

(** non-vacuity: a hostile archive into "/p/dest" next to "/p/dest2/keep";
    "../dest2/x" would land in the sibling whose name has "dest" as a string
    prefix; the extraction stops there, the first entry has been written *)
Definition C20_b (s : list N) : seg := s.
Definition C20_p : seg := [112]%N.
Definition C20_dest : seg := [100; 101; 115; 116]%N.
Definition C20_dest2 : seg := [100; 101; 115; 116; 50]%N.
Definition C20_keep : seg := [107]%N.
Definition C20_x : seg := [120]%N.
Definition C20_a : seg := [97]%N.
Definition C20_fs0 : fsys :=
  [([C20_p], Dir); ([C20_p; C20_dest2], Dir); ([C20_p; C20_dest2; C20_keep], File 9%N)].
Definition C20_hostile : list entry :=
  [mkE [C20_a; s_dotdot; C20_x] false 1%N;           (* "a/../x"      -> /p/dest/x *)
   mkE [s_dotdot; C20_dest2; C20_x] false 2%N;       (* "../dest2/x"  -> rejected *)
   mkE [C20_a] false 3%N].

Example C20_ex_confined :
  unzip [s_empty; C20_p; C20_dest] C20_hostile C20_fs0 =
  (([C20_p; C20_dest; C20_x], File 1%N) :: ([C20_p; C20_dest], Dir) :: C20_fs0, URejected).
Proof. vm_compute. reflexivity. Qed.

Example C20_ex_confined_instance : forall p,
  fs_get (fst (unzip [s_empty; C20_p; C20_dest] C20_hostile C20_fs0)) p <> fs_get C20_fs0 p ->
  inside [C20_p; C20_dest] p \/
  (p <> [] /\ strict_prefix p [C20_p; C20_dest] /\ fs_get C20_fs0 p = None /\
   fs_get (fst (unzip [s_empty; C20_p; C20_dest] C20_hostile C20_fs0)) p = Some Dir).
Proof.
  intros p H.
  apply (C20_unzip_confined [s_empty; C20_p; C20_dest] C20_hostile C20_fs0 _ URejected p eq_refl);
    [|exact H].
  rewrite C20_ex_confined. reflexivity.
Qed.

Example C20_ex_join_cases :
  resolve (join [s_empty; C20_p; C20_dest] [C20_a; s_dotdot; s_dotdot; C20_dest; C20_x])
    = [C20_p; C20_dest; C20_x] /\                                   (* leaves and comes back *)
  rel [s_empty; C20_p; C20_dest] (join [s_empty; C20_p; C20_dest] [s_dotdot; C20_dest2; C20_x])
    = Some [s_dotdot; C20_dest2; C20_x] /\                          (* "../dest2/x" *)
  rel [s_empty; C20_p; C20_dest] (join [s_empty; C20_p; C20_dest] [s_empty; C20_x])
    = Some [C20_x].                                                 (* absolute name "/x" *)
Proof. vm_compute. repeat split; reflexivity. Qed.

(** * The pre-fix code escapes (defect D5, repaired in /repo by commit e1a7162) *)

Theorem C20_legacy_unzip_escapes_refuted :
  exists dest ar p c,
    is_rooted dest = true /\
    fs_get (fst (legacy_unzip dest ar [])) p = Some (File c) /\
    fs_get [] p = None /\
    ~ inside (resolve dest) p /\ ~ strict_prefix p (resolve dest).
Proof. exact legacy_unzip_escapes. Qed.
Print Assumptions C20_legacy_unzip_escapes_refuted.

(** * Round trip *)

(** For every well-formed tree [t] (distinct paths of ordinary names - not "",
    "." or ".." -, no file where another path needs a directory), every filter,
    both values of the recursive flag, every spelling of the source directory
    other than "" and "/" ([valid_src]: "/a/b", "a/b/", "./a", "a/.", "a//b",
    ".", "../x" ...; ZipFolder("/") fails because ensureDirName turns "/" into
    "") and every rooted destination:
    ZipFolder succeeds, UnzipToFolder of its archive into the empty file system
    succeeds, and the result contains exactly
    - the selected regular files, relocated below the destination, with their
      contents (first equivalence), and
    - the directories needed to hold them: the destination, the directories
      above it, and the directories between it and a selected file (second). *)
Theorem C20_zip_roundtrip : forall (src : rpath) (filt : option (rpath -> bool)) (recursive : bool)
                                   (t : tree) (dest : rpath),
  valid_src src -> wf_tree t -> is_rooted dest = true ->
  exists ar fs',
    zip_folder src filt recursive t = ZOk ar /\
    unzip dest ar [] = (fs', UOk) /\
    (forall p c, fs_get fs' p = Some (File c) <->
       exists r, In (r, c) t /\ selected (ensure_dir_name src) filt recursive (r, c) = true /\
                 p = resolve dest ++ r) /\
    (forall p, fs_get fs' p = Some Dir <->
       p <> [] /\
       (inside p (resolve dest) \/
        exists r c x y, In (r, c) t /\ selected (ensure_dir_name src) filt recursive (r, c) = true /\
                        r = x ++ y /\ y <> [] /\ p = resolve dest ++ x)).
Proof. exact zip_roundtrip. Qed.
Print Assumptions C20_zip_roundtrip.

(** the archive ZipFolder writes: one entry "/" ++ relative path per selected
    file, in walk order *)
Theorem C20_zip_folder_spec : forall (src : rpath) (filt : option (rpath -> bool)) (recursive : bool)
                                     (t : tree),
  valid_src src -> wf_tree t ->
  zip_folder src filt recursive t =
  ZOk (map plain_entry (filter (selected (ensure_dir_name src) filt recursive) (walk_sort t))).
Proof. exact zip_folder_spec. Qed.
Print Assumptions C20_zip_folder_spec.

(** non-vacuity: a tree with an empty-content file, a nested file, a name with
    dots, zipped from "./s/." (not cleanly spelled) with a filter, recursively
    and not, unzipped into "/p/dest" *)
Definition C20_s : seg := [115]%N.
Definition C20_d : seg := [100]%N.
Definition C20_f : seg := [102]%N.
Definition C20_dots : seg := [46; 46; 46]%N.
Definition C20_tree : tree :=
  [([C20_f], 0%N); ([C20_d; C20_f], 5%N); ([C20_d; C20_dots; C20_x], 6%N); ([C20_a], 7%N)].
Definition C20_filter : option (rpath -> bool) :=
  Some (fun p => negb (path_eqb p [C20_s; C20_a])).     (* everything but "s/a" (cleaned path) *)

Definition C20_src : rpath := [s_dot; C20_s; s_dot].              (* "./s/." *)

Example C20_ex_valid_src : valid_src C20_src.
Proof. reflexivity. Qed.

Ltac C20_seg_simpl :=
  cbv [C20_tree C20_s C20_d C20_f C20_x C20_a C20_dots map fst snd In] in *.

Example C20_ex_wf_tree : wf_tree C20_tree.
Proof.
  split; [|split].
  - C20_seg_simpl. repeat constructor; cbn [In]; intuition discriminate.
  - intros f Hf. C20_seg_simpl.
    repeat (destruct Hf as [Hf|Hf]; [subst f; cbn [fst]; split; [discriminate|];
      repeat constructor; cbv; intuition discriminate|]).
    destruct Hf.
  - intros f g Hf Hg [q [Hq Hp]]. C20_seg_simpl.
    repeat (destruct Hf as [Hf|Hf]; [subst f|]); try destruct Hf;
    repeat (destruct Hg as [Hg|Hg]; [subst g|]); try destruct Hg;
    cbn [fst app] in Hp; try discriminate; inversion Hp; subst; try congruence; try discriminate.
Qed.

Example C20_ex_roundtrip_recursive :
  zip_folder C20_src C20_filter true C20_tree =
    ZOk [mkE [s_empty; C20_d; C20_dots; C20_x] false 6%N; mkE [s_empty; C20_d; C20_f] false 5%N;
         mkE [s_empty; C20_f] false 0%N] /\
  unzip [s_empty; C20_p; C20_dest]
        [mkE [s_empty; C20_d; C20_dots; C20_x] false 6%N; mkE [s_empty; C20_d; C20_f] false 5%N;
         mkE [s_empty; C20_f] false 0%N] [] =
    ([([C20_p; C20_dest; C20_f], File 0%N);
      ([C20_p; C20_dest; C20_d; C20_f], File 5%N);
      ([C20_p; C20_dest; C20_d; C20_dots; C20_x], File 6%N);
      ([C20_p; C20_dest; C20_d; C20_dots], Dir); ([C20_p; C20_dest; C20_d], Dir);
      ([C20_p; C20_dest], Dir); ([C20_p], Dir)], UOk).
Proof. vm_compute. split; reflexivity. Qed.

Example C20_ex_roundtrip_nonrecursive :
  zip_folder C20_src C20_filter false C20_tree = ZOk [mkE [s_empty; C20_f] false 0%N].
Proof. vm_compute. reflexivity. Qed.

Example C20_ex_roundtrip_instance :
  exists ar fs',
    zip_folder C20_src C20_filter false C20_tree = ZOk ar /\
    unzip [s_empty; C20_p; C20_dest] ar [] = (fs', UOk) /\
    (forall p c, fs_get fs' p = Some (File c) <->
       exists r, In (r, c) C20_tree /\
                 selected (ensure_dir_name C20_src) C20_filter false (r, c) = true /\
                 p = resolve [s_empty; C20_p; C20_dest] ++ r).
Proof.
  destruct (C20_zip_roundtrip C20_src C20_filter false C20_tree
              [s_empty; C20_p; C20_dest] C20_ex_valid_src C20_ex_wf_tree eq_refl)
    as [ar [fs' [H1 [H2 [H3 _]]]]].
  exists ar, fs'. repeat split; try assumption; apply H3.
Qed.

(** * Before commit de6fafe (defect D12): unclean spellings of srcDir lost files

    legacy ZipFolder("./s") names "file" as "ile" and "d/file" as "/file",
    archives nothing when not recursive, panics for "././s"; the repaired
    ZipFolder (last conjunct) names them "/d/file" and "/file". *)
Theorem C20_legacy_zip_unclean_src_mangles_names_refuted :
  legacy_zip_folder [s_dot; b_s] None true [([b_file], 1%N); ([b_d; b_file], 2%N)] =
  ZOk [mkE [s_empty; b_file] false 2%N; mkE [[105; 108; 101]%N] false 1%N] /\
  legacy_zip_folder [s_dot; b_s] None false [([b_file], 1%N); ([b_d; b_file], 2%N)] = ZOk [] /\
  legacy_zip_folder [s_dot; s_dot; b_s] None true [([b_d], 1%N)] = ZPanic /\
  zip_folder [s_dot; b_s] None true [([b_file], 1%N); ([b_d; b_file], 2%N)] =
  ZOk [mkE [s_empty; b_d; b_file] false 2%N; mkE [s_empty; b_file] false 1%N].
Proof. exact legacy_zip_unclean_src_mangles_names. Qed.
Print Assumptions C20_legacy_zip_unclean_src_mangles_names_refuted.
