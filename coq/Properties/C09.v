(** C09: headline theorems about container/lru/ecache.go under concurrency.
    Model: model/ECacheConc.v (labelled transition system; each Sec* label is
    one mutex-protected section of the Go code, executed by the functions of
    the sequential model model/ECache.v), proofs: proofs/C09_Invariants.v,
    proofs/C09_Theorems.v, proofs/C09_Lin.v.

    All statements are for every type of primary keys, inner keys (decidable
    equality) and values, every key mapping, every capacity, every reachable
    state / every accepted label sequence: any number of threads, any
    interleaving of their sections, any answers of the create function. *)
From Coq Require Import List ZArith NArith Arith Bool Lia Permutation.
From GL Require Import spec.LRU model.ECache model.ECacheConc
                       proofs.C09_Invariants proofs.C09_Theorems proofs.C09_Lin.
Import ListNotations.

(** * Reachable states *)

(* [reachable cap s]: s is reached from the empty cache of capacity cap by steps
   of the LTS; the states accepted traces pass through are reachable *)
Theorem C09_run_trace_reachable :
  forall (PK K V : Type) (keqb : K -> K -> bool) (kmap : PK -> K) (cap : nat)
         (tr : list (label PK V)) (s' : cstate PK K V) (evs : list (cev PK V)),
  run_trace keqb kmap (cs_init cap) tr = Some (s', evs) -> reachable keqb kmap cap s'.
Proof.
  intros PK K V keqb kmap cap tr s' evs H.
  eapply run_trace_reachable; [apply reach_init|exact H].
Qed.
Print Assumptions C09_run_trace_reachable.

(** * Single flight *)

(* two threads that are inside the create function, or between it and their second
   section, work on different inner keys *)
Theorem C09_single_flight :
  forall (PK K V : Type) (keqb : K -> K -> bool),
  (forall a b : K, reflect (a = b) (keqb a b)) ->
  forall (kmap : PK -> K) (cap : nat) (s : cstate PK K V),
  reachable keqb kmap cap s ->
  forall (t1 t2 : tid) (pk1 : PK) (ch1 : chan) (pk2 : PK) (ch2 : chan),
    owner_of (cs_pc s t1) = Some (pk1, ch1) -> owner_of (cs_pc s t2) = Some (pk2, ch2) ->
    kmap pk1 = kmap pk2 -> t1 = t2.
Proof. exact @single_flight. Qed.
Print Assumptions C09_single_flight.

Theorem C09_inflight_table_exact :
  forall (PK K V : Type) (keqb : K -> K -> bool),
  (forall a b : K, reflect (a = b) (keqb a b)) ->
  forall (kmap : PK -> K) (cap : nat) (s : cstate PK K V),
  reachable keqb kmap cap s ->
  NoDup (map fst (cs_inflight s)) /\
  (forall t pk ch, owner_of (cs_pc s t) = Some (pk, ch) -> In (kmap pk, ch) (cs_inflight s)) /\
  (forall k ch, In (k, ch) (cs_inflight s) ->
     exists t pk, owner_of (cs_pc s t) = Some (pk, ch) /\ kmap pk = k).
Proof. exact @inflight_table_exact. Qed.
Print Assumptions C09_inflight_table_exact.

Theorem C09_inflight_not_resident :
  forall (PK K V : Type) (keqb : K -> K -> bool),
  (forall a b : K, reflect (a = b) (keqb a b)) ->
  forall (kmap : PK -> K) (cap : nat) (s : cstate PK K V),
  reachable keqb kmap cap s ->
  (forall k ch, In (k, ch) (cs_inflight s) -> om_get keqb (cs_items s) k = None) /\
  (forall t pk ch, owner_of (cs_pc s t) = Some (pk, ch) -> om_get keqb (cs_items s) (kmap pk) = None).
Proof. exact @inflight_not_resident. Qed.
Print Assumptions C09_inflight_not_resident.

(** * Capacity *)

Theorem C09_capacity_inv :
  forall (PK K V : Type) (keqb : K -> K -> bool),
  (forall a b : K, reflect (a = b) (keqb a b)) ->
  forall (kmap : PK -> K) (cap : nat) (s : cstate PK K V),
  reachable keqb kmap cap s ->
  cs_cap s = cap /\ om_len (cs_items s) <= cap.
Proof. exact @capacity_inv. Qed.
Print Assumptions C09_capacity_inv.

(** * Accounting: nothing leaked, nothing deleted twice *)

(* as multisets: successfully created = deleted + resident + pending insertion;
   with distinct created values nothing is deleted twice and nothing deleted is
   resident or pending *)
Theorem C09_accounting :
  forall (PK K V : Type) (keqb : K -> K -> bool),
  (forall a b : K, reflect (a = b) (keqb a b)) ->
  forall (kmap : PK -> K) (cap : nat) (s : cstate PK K V),
  reachable keqb kmap cap s ->
  Permutation (cs_created s) (cs_deleted s ++ resident_values s ++ pending s) /\
  (NoDup (cs_created s) ->
     NoDup (cs_deleted s) /\
     (forall x, In x (cs_deleted s) -> ~ In x (resident_values s) /\ ~ In x (pending s))).
Proof. exact @accounting. Qed.
Print Assumptions C09_accounting.

Theorem C09_cleared_balanced :
  forall (PK K V : Type) (keqb : K -> K -> bool),
  (forall a b : K, reflect (a = b) (keqb a b)) ->
  forall (kmap : PK -> K) (cap : nat) (s : cstate PK K V) (t : tid)
         (s' : cstate PK K V) (ev : list (cev PK V)),
  reachable keqb kmap cap s ->
  step keqb kmap s (LSecClear t) = Some (s', ev) ->
  (forall t0, pending_of (cs_pc s' t0) = []) ->
  Permutation (cs_created s') (cs_deleted s') /\
  (NoDup (cs_created s') -> NoDup (cs_deleted s')).
Proof. exact @cleared_balanced. Qed.
Print Assumptions C09_cleared_balanced.

(** * No lost wake-up *)

Theorem C09_can_move_enabled :
  forall (PK K V : Type) (keqb : K -> K -> bool),
  (forall a b : K, reflect (a = b) (keqb a b)) ->
  forall (kmap : PK -> K) (cap : nat) (s : cstate PK K V) (t : tid),
  reachable keqb kmap cap s -> can_move s t = true ->
  exists l s' ev, step keqb kmap s l = Some (s', ev) /\
    l = match cs_pc s t with
        | PPend (CGet _) => LSecA t
        | PPend (CRemove _) => LSecRemove t
        | PPend CClear => LSecClear t
        | PWait _ _ => LWake t
        | PInB _ _ _ => LSecB t
        | _ => LReturn t
        end.
Proof. exact @can_move_enabled. Qed.
Print Assumptions C09_can_move_enabled.

Theorem C09_waiters_covered :
  forall (PK K V : Type) (keqb : K -> K -> bool),
  (forall a b : K, reflect (a = b) (keqb a b)) ->
  forall (kmap : PK -> K) (cap : nat) (s : cstate PK K V) (t : tid) (pk : PK) (ch : chan),
  reachable keqb kmap cap s ->
  cs_pc s t = PWait pk ch ->
  can_move s t = true \/
  exists t' pk', owner_of (cs_pc s t') = Some (pk', ch) /\ kmap pk' = kmap pk /\
    ((exists res, cs_pc s t' = PInB pk' ch res /\
        exists s' ev, step keqb kmap s (LSecB t') = Some (s', ev) /\ chan_closed s' ch = true)
     \/ (cs_pc s t' = PCreating pk' ch /\
         forall res, exists s' ev, step keqb kmap s (LCreateRet t' res) = Some (s', ev))).
Proof. exact @waiters_covered. Qed.
Print Assumptions C09_waiters_covered.

(** * Linearizability *)

(* (1) the linearisation points of any accepted trace, replayed in trace order on
   the sequential cache model of C08 (which C08 proves equal to the reference LRU),
   yield exactly the results left for the threads to return and exactly the delete
   callbacks of the concurrent run, and the same final cache contents *)
Theorem C09_conc_linearizable_replay :
  forall (PK K V : Type) (keqb : K -> K -> bool),
  (forall a b : K, reflect (a = b) (keqb a b)) ->
  forall (kmap : PK -> K) (expires : V -> Z) (cap : nat) (tr : list (label PK V))
         (s' : cstate PK K V) (evs : list (cev PK V)),
  run_trace keqb kmap (cs_init cap) tr = Some (s', evs) ->
  let L := lin_seq (tags keqb kmap (cs_init cap) tr) in
  let '(outs, c, oof) := ec_run keqb kmap expires (ec_new cap) (map (fun x => snd (fst x)) L) in
  map fst outs = map snd L /\
  deleted (all_events outs) = cdels evs /\
  ec_items c = cs_items s' /\ oof = false.
Proof. exact @lin_replay. Qed.
Print Assumptions C09_conc_linearizable_replay.

(* (2) in any accepted trace every thread's labels form calls
       Invoke ; internal steps ; one linearisation label ; Return of that label's result
   so each linearisation point lies inside its call's invocation/response interval
   (the order of the linearisation points respects real-time order) and each
   call returns what the sequential replay of (1) computes for it *)
Theorem C09_conc_linearizable_shape :
  forall (PK K V : Type) (keqb : K -> K -> bool) (kmap : PK -> K) (cap : nat)
         (tr : list (label PK V)) (s' : cstate PK K V) (evs : list (cev PK V)) (t : tid),
  run_trace keqb kmap (cs_init cap) tr = Some (s', evs) ->
  shape PhOut (thread_tags t (tags keqb kmap (cs_init cap) tr)).
Proof. exact @lin_shape. Qed.
Print Assumptions C09_conc_linearizable_shape.

(* (3) the results handed back at Return labels are the observable return events *)
Theorem C09_returns_are_events :
  forall (PK K V : Type) (keqb : K -> K -> bool) (kmap : PK -> K)
         (tr : list (label PK V)) (s s' : cstate PK K V) (evs : list (cev PK V)),
  run_trace keqb kmap s tr = Some (s', evs) ->
  flat_map (fun e => match e with CRet t r => [(t, r)] | _ => [] end) evs
  = flat_map (fun x => match snd x with TRet r => [(fst x, r)] | _ => [] end) (tags keqb kmap s tr).
Proof. exact @returns_are_events. Qed.
Print Assumptions C09_returns_are_events.

(** * A non-trivial accepted trace (capacity 1, identity key mapping, 3 threads)

    thread 0 misses key 1 and creates; thread 1 misses key 1 and parks; thread 2
    creates key 2; thread 0's creation fails (thread 1 wakes up and becomes the
    creator); thread 2 inserts 22; thread 0 clears the cache while thread 1's
    creation is in flight; thread 1 inserts 11; thread 2 hits key 1; thread 0
    creates key 3, which evicts 11; thread 1 removes key 3. *)
Local Open Scope Z_scope.

Definition C09_ex_trace : list (label Z Z) :=
  [LInvoke 0%nat (CGet 1); LSecA 0%nat; LInvoke 1%nat (CGet 1); LSecA 1%nat; LInvoke 2%nat (CGet 2); LSecA 2%nat;
   LCreateRet 0%nat None; LSecB 0%nat; LReturn 0%nat; LWake 1%nat; LSecA 1%nat;
   LCreateRet 2%nat (Some 22); LSecB 2%nat; LReturn 2%nat;
   LInvoke 0%nat CClear; LSecClear 0%nat; LReturn 0%nat;
   LCreateRet 1%nat (Some 11); LSecB 1%nat; LReturn 1%nat;
   LInvoke 2%nat (CGet 1); LSecA 2%nat; LReturn 2%nat;
   LInvoke 0%nat (CGet 3); LSecA 0%nat; LCreateRet 0%nat (Some 33); LSecB 0%nat; LReturn 0%nat;
   LInvoke 1%nat (CRemove 3); LSecRemove 1%nat; LReturn 1%nat].

Definition C09_idk (pk : Z) : Z := pk.

Example C09_ex_accepted :
  option_map snd (run_trace Z.eqb C09_idk (cs_init 1%nat) C09_ex_trace) =
  Some [CEnter 0%nat 1; CEnter 2%nat 2; CRet 0%nat RErr; CEnter 1%nat 1; CRet 2%nat (RVal 22); CDel 2 22;
        CRet 0%nat (RCount 1%nat); CRet 1%nat (RVal 11); CRet 2%nat (RVal 11); CEnter 0%nat 3; CDel 1 11;
        CRet 0%nat (RVal 33); CDel 3 33; CRet 1%nat (RBool true)].
Proof. vm_compute. reflexivity. Qed.

(* its linearisation and the sequential replay *)
Example C09_ex_linearisation :
  lin_seq (tags Z.eqb C09_idk (cs_init 1%nat) C09_ex_trace) =
  [(0%nat, OGet 1 None, RErr); (2%nat, OGet 2 (Some 22), RVal 22); (0%nat, OClear, RCount 1%nat);
   (1%nat, OGet 1 (Some 11), RVal 11); (2%nat, OGet 1 None, RVal 11);
   (0%nat, OGet 3 (Some 33), RVal 33); (1%nat, ORemove 3, RBool true)].
Proof. vm_compute. reflexivity. Qed.

Example C09_ex_replay :
  fst (fst (ec_run Z.eqb C09_idk (fun _ => 0) (ec_new 1%nat)
         (map (fun x => snd (fst x)) (lin_seq (tags Z.eqb C09_idk (cs_init 1%nat) C09_ex_trace))))) =
  [(RErr, [EvCreate 1 None]); (RVal 22, [EvCreate 2 (Some 22)]); (RCount 1%nat, [EvDelete 2 22]);
   (RVal 11, [EvCreate 1 (Some 11)]); (RVal 11, []);
   (RVal 33, [EvCreate 3 (Some 33); EvDelete 1 11]); (RBool true, [EvDelete 3 33])].
Proof. vm_compute. reflexivity. Qed.

(* thread 1's history: one call with a wait, a wake-up and a second first section
   before its linearisation point, then a second call *)
Example C09_ex_thread1 :
  thread_tags 1%nat (tags Z.eqb C09_idk (cs_init 1%nat) C09_ex_trace) =
  [TInv (CGet 1); TInt; TInt; TInt; TInt; TLin (OGet 1 (Some 11)) (Some (RVal 11)); TRet (RVal 11);
   TInv (CRemove 3); TLin (ORemove 3) (Some (RBool true)); TRet (RBool true)].
Proof. vm_compute. reflexivity. Qed.

(* after the first six labels: thread 0 creating key 1 on channel 0, thread 1 parked
   on channel 0 (cannot move), thread 2 creating key 2 on channel 1 - the
   hypotheses of [C09_single_flight] and [C09_waiters_covered] are met *)
Example C09_ex_parked :
  option_map (fun x => let s := fst x in
                (cs_pc s 0%nat, cs_pc s 1%nat, cs_pc s 2%nat, cs_inflight s, cs_closed s, can_move s 1%nat))
             (run_trace Z.eqb C09_idk (cs_init 1%nat) (firstn 6%nat C09_ex_trace)) =
  Some (PCreating 1 0%nat, PWait 1 0%nat, PCreating 2 1%nat, [(2, 1%nat); (1, 0%nat)], [], false).
Proof. vm_compute. reflexivity. Qed.

(* final state: three values created, the same three deleted, nothing resident,
   nothing in flight; the created values are pairwise distinct *)
Example C09_ex_final :
  option_map (fun x => let s := fst x in
                (cs_created s, cs_deleted s, cs_inflight s, om_ents (cs_items s), cs_threads s))
             (run_trace Z.eqb C09_idk (cs_init 1%nat) C09_ex_trace) =
  Some ([(2, 22); (1, 11); (3, 33)], [(2, 22); (1, 11); (3, 33)], [], [], [2; 1; 0]%nat).
Proof. vm_compute. reflexivity. Qed.

(* the Clear at label 16 happens while thread 1's creation is in flight but not yet
   answered: no created value is pending, so [C09_cleared_balanced] applies there *)
Example C09_ex_clear_point :
  match run_trace Z.eqb C09_idk (cs_init 1%nat) (firstn 15%nat C09_ex_trace) with
  | Some (s, _) =>
      match step Z.eqb C09_idk s (LSecClear 0%nat) with
      | Some (s', ev) =>
          ev = [CDel 2 22] /\ cs_created s' = [(2, 22)] /\ cs_deleted s' = [(2, 22)] /\
          pending_of (cs_pc s' 0%nat) = [] /\ pending_of (cs_pc s' 1%nat) = [] /\ pending_of (cs_pc s' 2%nat) = []
      | None => False
      end
  | None => False
  end.
Proof. vm_compute. repeat split; reflexivity. Qed.
