(** C17: headline theorems about container/bytes/blocks.go
    (model: model/Blocks.v, pre-fix constructor: model/legacy/BlocksLegacy.v,
    specification: spec/AllocSet.v, proofs: proofs/C17_*.v).

    [reachable page fit b]: b was produced by NewBlocks on some storage (any size,
    any content) and any sequence of ArrangeBlock / FreeBlock / Block / user
    writes into blocks / reopen / counter calls / Grow of the storage under the
    live allocator ([OGrow]).  [page] is os.Getpagesize().

    [tight fit b]: the allocator covers the storage it sits on (segments =
    size / segment size, and a whole number of segments under fit): what
    NewBlocks establishes and every operation but Grow keeps.  After a Grow the
    live allocator keeps the geometry NewBlocks computed; the room shows after
    the next reopen. *)
From Coq Require Import List ZArith NArith Bool Lia.
From GL Require Import model.Blocks model.legacy.BlocksLegacy spec.AllocSet
  proofs.C17_Bytes proofs.C17_Geometry proofs.C17_Count proofs.C17_Inv proofs.C17_Grow proofs.C17_Blocks.
Import ListNotations.
Open Scope Z_scope.

(** * The constructor accepts exactly the sound geometries *)

Theorem C17_ctor_rejects_invalid : forall page bs buf fit, 0 < page -> 0 <= bsize buf ->
  (new_blocks page bs buf fit = CtorErr EInvalid <->
     ~ valid_bs page bs \/ bsize buf < ssz bs \/ (fit = true /\ bsize buf mod ssz bs <> 0)) /\
  (new_blocks page bs buf fit = CtorErr EInvalid \/
   exists b, new_blocks page bs buf fit = CtorOk b /\ reachable page fit b /\
             blkSize b = bs /\ bts b = buf /\ segments b = bsize buf / ssz bs /\ 1 <= segments b /\
             blocks_count b = segments b * (8 * bs)).
Proof. exact ctor_rejects_invalid. Qed.
Print Assumptions C17_ctor_rejects_invalid.

(** [valid_bs], unfolded: positive; a power of two below the page size, a multiple of it from there on *)
Example C17_ex_valid_bs : forall page bs,
  valid_bs page bs <->
  (0 < bs /\ (bs < page -> exists k, 0 <= k /\ bs = 2 ^ k) /\ (page <= bs -> bs mod page = 0)).
Proof. intros. reflexivity. Qed.

Definition C17_ex_geom (r : ctor_res) : option (Z * Z * Z) :=
  match r with CtorOk b => Some (segments b, blocks_count b, available b) | _ => None end.

Example C17_ex_ctor :
  C17_ex_geom (new_blocks 4096 1 (zero_buffer 18) true) = Some (2, 16, 16) /\
  C17_ex_geom (new_blocks 4096 1 (zero_buffer 19) false) = Some (2, 16, 16) /\
  new_blocks 4096 1 (zero_buffer 19) true = CtorErr EInvalid /\
  new_blocks 4096 1 (zero_buffer 8) false = CtorErr EInvalid /\
  new_blocks 4096 3 (zero_buffer 1000) false = CtorErr EInvalid /\
  new_blocks 4096 5000 (zero_buffer 300000000) false = CtorErr EInvalid /\
  new_blocks 4096 0 (zero_buffer 1000) true = CtorErr EInvalid /\
  new_blocks 4096 (-1) (zero_buffer 1000) false = CtorErr EInvalid /\
  C17_ex_geom (new_blocks 4096 8192 (zero_buffer 536879104) true) = Some (1, 65536, 65536).
Proof. vm_compute. repeat split; reflexivity. Qed.

(** the constructor as it was before the fix (defect D4) *)
Theorem C17_legacy_ctor_refuted :
  (exists b, ~ valid_bs 4096 3 /\ legacy_new_blocks 4096 3 (zero_buffer 1000) false = CtorOk b /\ segments b < 0) /\
  (~ valid_bs 4096 0 /\ legacy_new_blocks 4096 0 (zero_buffer 1000) false = CtorPanic) /\
  (~ valid_bs 4096 0 /\ legacy_new_blocks 4096 0 (zero_buffer 1000) true = CtorPanic) /\
  new_blocks 4096 3 (zero_buffer 1000) false = CtorErr EInvalid /\
  new_blocks 4096 0 (zero_buffer 1000) false = CtorErr EInvalid.
Proof. exact legacy_ctor_refuted. Qed.
Print Assumptions C17_legacy_ctor_refuted.

(** * A running example: block size 1, two segments (18 bytes, 16 blocks) *)

Definition C17_ex_b0 : blocks :=
  match new_blocks 4096 1 (zero_buffer 18) true with CtorOk b => b | _ => mkBlocks 0 0 0 0 0 (zero_buffer 0) end.

(** fill both segments, free three blocks around the segment boundary, take two back *)
Definition C17_ex_ops : list op :=
  [OArrange; OArrange; OArrange; OArrange; OArrange; OArrange; OArrange; OArrange; OArrange;
   OArrange; OArrange; OArrange; OArrange; OArrange; OArrange; OArrange; OArrange; OAvail;
   OFree 8; OFree 3; OFree 7; OFree 7; OFree 16; OFree (-1); OAvail; OArrange; OWrite 3 255%N;
   OPoke 8 0 255%N; OReopen; OArrange; OBlock 7; OBlock 8; OBlock 16; OCount; OSegments; OAvail].

Example C17_ex_run :
  fst (run 4096 true C17_ex_b0 C17_ex_ops) =
  [OutIdx 0; OutIdx 1; OutIdx 2; OutIdx 3; OutIdx 4; OutIdx 5; OutIdx 6; OutIdx 7; OutIdx 8;
   OutIdx 9; OutIdx 10; OutIdx 11; OutIdx 12; OutIdx 13; OutIdx 14; OutIdx 15; OutErr EExhausted; OutN 0;
   OutOk; OutOk; OutOk; OutErr ENotExist; OutErr EInvalid; OutErr EInvalid; OutN 3; OutIdx 3; OutOk;
   OutOk; OutOk; OutIdx 7; OutSlice 8 1; OutSlice 10 1; OutErr EInvalid; OutN 16; OutN 2; OutN 1] /\
  alloc_list (snd (run 4096 true C17_ex_b0 C17_ex_ops)) = [0; 1; 2; 3; 4; 5; 6; 7; 9; 10; 11; 12; 13; 14; 15].
Proof. vm_compute. split; reflexivity. Qed.

Definition C17_ex_b : blocks := snd (run 4096 true C17_ex_b0 C17_ex_ops).

Example C17_ex_reachable : reachable 4096 true C17_ex_b.
Proof.
  exists 1, (zero_buffer 18), C17_ex_b0, C17_ex_ops.
  split; [lia|]. split; [cbn; lia|]. split; [vm_compute; reflexivity|reflexivity].
Qed.

(** * ArrangeBlock *)

Theorem C17_arrange_fresh : forall page fit b b' i, reachable page fit b ->
  arrange b = (b', ArrIdx i) ->
  0 <= i < blocks_count b /\ ~ In i (alloc_list b) /\
  (forall k, 0 <= k < i -> In k (alloc_list b)) /\
  (forall k, In k (alloc_list b') <-> k = i \/ In k (alloc_list b)) /\
  alloc_list b' = as_add i (alloc_list b) /\
  available b' = available b - 1.
Proof. exact arrange_fresh. Qed.
Print Assumptions C17_arrange_fresh.

Example C17_ex_arrange :
  snd (arrange C17_ex_b) = ArrIdx 8 /\
  alloc_list (fst (arrange C17_ex_b)) = [0; 1; 2; 3; 4; 5; 6; 7; 8; 9; 10; 11; 12; 13; 14; 15].
Proof. vm_compute. split; reflexivity. Qed.

Theorem C17_arrange_exhausted_iff_full : forall page fit b, reachable page fit b ->
  ((exists i, snd (arrange b) = ArrIdx i) \/ snd (arrange b) = ArrErr EExhausted) /\
  (snd (arrange b) = ArrErr EExhausted <-> (forall k, 0 <= k < blocks_count b -> In k (alloc_list b))) /\
  (snd (arrange b) = ArrErr EExhausted <-> available b = 0).
Proof. exact arrange_exhausted_iff_full. Qed.
Print Assumptions C17_arrange_exhausted_iff_full.

Example C17_ex_exhausted :
  let full := fst (arrange C17_ex_b) in
  reachable 4096 true full /\ available full = 0 /\ snd (arrange full) = ArrErr EExhausted.
Proof.
  cbv zeta. split; [|split; vm_compute; reflexivity].
  pose proof (reachable_step 4096 true C17_ex_b OArrange C17_ex_reachable) as H.
  cbn [step] in H. destruct (arrange C17_ex_b) as [b' r]. exact H.
Qed.

(** * FreeBlock *)

Theorem C17_free_exact : forall page fit b idx, reachable page fit b ->
  (~ (0 <= idx < blocks_count b) -> free b idx = (b, FreeErr EInvalid)) /\
  (0 <= idx < blocks_count b -> ~ In idx (alloc_list b) -> free b idx = (b, FreeErr ENotExist)) /\
  (In idx (alloc_list b) ->
     exists b', free b idx = (b', FreeOk) /\
       (forall k, In k (alloc_list b') <-> In k (alloc_list b) /\ k <> idx) /\
       alloc_list b' = as_remove idx (alloc_list b) /\
       available b' = available b + 1).
Proof. exact free_exact. Qed.
Print Assumptions C17_free_exact.

Example C17_ex_free :
  snd (free C17_ex_b 8) = FreeErr ENotExist /\ snd (free C17_ex_b 16) = FreeErr EInvalid /\
  snd (free C17_ex_b (-1)) = FreeErr EInvalid /\ snd (free C17_ex_b 9) = FreeOk /\
  alloc_list (fst (free C17_ex_b 9)) = [0; 1; 2; 3; 4; 5; 6; 7; 10; 11; 12; 13; 14; 15] /\
  (* the hint: behind the last segment once ArrangeBlock found everything full, lowered by FreeBlock *)
  (let exhausted := fst (arrange (fst (arrange C17_ex_b))) in
   freeIdx exhausted = 18 /\ freeIdx (fst (free exhausted 9)) = 9 /\
   snd (arrange (fst (free exhausted 9))) = ArrIdx 9).
Proof. vm_compute. repeat split; reflexivity. Qed.

(** * Available *)

Theorem C17_available_eq : forall page fit b, reachable page fit b ->
  available b = blocks_count b - Z.of_nat (length (alloc_list b)).
Proof. exact available_eq. Qed.
Print Assumptions C17_available_eq.

(** the invariant behind it: the hint is a header byte or lies behind the last
    segment, and every header byte before it, in scan order, is 0xFF *)
Theorem C17_reachable_invariant : forall page fit b, reachable page fit b ->
  let bs := blkSize b in
  valid_bs page bs /\ blksInSegm b = 8 * bs /\ 1 <= segments b /\
  segments b * ssz bs <= bsize (bts b) /\
  0 <= freeIdx b /\
  (segments b * ssz bs <= freeIdx b \/ freeIdx b mod ssz bs < bs) /\
  (forall s p, 0 <= s < segments b -> 0 <= p < bs -> hdr_addr bs s p < freeIdx b ->
     bget (bts b) (hdr_addr bs s p) = 255%N).
Proof. exact reachable_invariant. Qed.
Print Assumptions C17_reachable_invariant.

Example C17_ex_available : available C17_ex_b = 1 /\ blocks_count C17_ex_b = 16 /\ length (alloc_list C17_ex_b) = 15%nat.
Proof. vm_compute. repeat split; reflexivity. Qed.

(** * Where blocks live *)

Theorem C17_block_valid : forall page fit b i, reachable page fit b ->
  (0 <= i < blocks_count b -> block b i = SliceOk (block_off b i) (blkSize b)) /\
  (~ (0 <= i < blocks_count b) -> block b i = SliceErr EInvalid).
Proof. exact block_valid. Qed.
Print Assumptions C17_block_valid.

Theorem C17_blocks_disjoint : forall page fit b i j, reachable page fit b ->
  0 <= i < blocks_count b -> 0 <= j < blocks_count b -> i <> j ->
  block_off b i + blkSize b <= block_off b j \/ block_off b j + blkSize b <= block_off b i.
Proof. exact blocks_disjoint. Qed.
Print Assumptions C17_blocks_disjoint.

(** no byte of a block is a header byte (of any segment) *)
Theorem C17_blocks_avoid_headers : forall page fit b i s p k, reachable page fit b ->
  0 <= i < blocks_count b -> 0 <= p < blkSize b -> 0 <= k < blkSize b ->
  block_off b i + k <> hdr_addr (blkSize b) s p.
Proof. exact blocks_avoid_headers. Qed.
Print Assumptions C17_blocks_avoid_headers.

Theorem C17_blocks_inside_buffer : forall page fit b i, reachable page fit b ->
  0 <= i < blocks_count b ->
  blkSize b <= block_off b i /\ block_off b i + blkSize b <= segments b * ssz (blkSize b) /\
  segments b * ssz (blkSize b) <= bsize (bts b).
Proof. exact blocks_inside_buffer. Qed.
Print Assumptions C17_blocks_inside_buffer.

(** the same as pure arithmetic, for every positive block size *)
Theorem C17_layout_arithmetic : forall bs, 0 < bs ->
  (forall i j, 0 <= i -> i < j -> boff bs i + bs <= boff bs j) /\
  (forall i s p k, 0 <= i -> 0 <= p < bs -> 0 <= k < bs -> boff bs i + k <> hdr_addr bs s p) /\
  (forall segs i, 0 <= i < segs * (8 * bs) -> bs <= boff bs i /\ boff bs i + bs <= segs * ssz bs).
Proof.
  intros bs Hbs. split; [|split].
  - intros i j Hi Hij. exact (boff_disjoint bs i j Hbs Hi Hij).
  - intros i s p k Hi Hp Hk. exact (boff_avoids_headers bs i s p k Hbs Hi Hp Hk).
  - intros segs i Hi. exact (boff_inside bs segs i Hbs Hi).
Qed.
Print Assumptions C17_layout_arithmetic.

Example C17_ex_layout :
  map (block_off C17_ex_b) [0; 1; 7; 8; 15] = [1; 2; 8; 10; 17] /\
  hdr_addr 1 0 0 = 0 /\ hdr_addr 1 1 0 = 9 /\ ssz 1 = 9 /\ ssz 4096 = 134221824 /\
  boff 4096 32767 = 134217728 /\ boff 4096 32768 = 134225920.
Proof. vm_compute. repeat split; reflexivity. Qed.

(** * The allocation state lives in the bytes *)

Theorem C17_reopen_same : forall page fit b, reachable page fit b -> tight fit b ->
  exists b0, new_blocks page (blkSize b) (bts b) fit = CtorOk b0 /\
    reachable page fit b0 /\
    alloc_list b0 = alloc_list b /\ available b0 = available b /\
    blocks_count b0 = blocks_count b /\ segments b0 = segments b /\
    blkSize b0 = blkSize b /\ bts b0 = bts b /\ abs b0 = abs b.
Proof. exact reopen_same. Qed.
Print Assumptions C17_reopen_same.

(** [tight] holds after NewBlocks and along every history without Grow *)
Theorem C17_tight_without_grow : forall page bs buf fit b0 ops,
  0 < page -> 0 <= bsize buf -> new_blocks page bs buf fit = CtorOk b0 ->
  no_grow ops = true -> tight fit (snd (run page fit b0 ops)).
Proof.
  intros page bs buf fit b0 ops Hp Hsz Hnew Hng.
  destruct (new_blocks_inv _ _ _ _ _ Hp Hsz Hnew) as [_ I0].
  exact (run_tight page fit ops b0 I0 (new_blocks_tight _ _ _ _ _ Hp Hsz Hnew) Hng).
Qed.
Print Assumptions C17_tight_without_grow.

(** any reachable state, also with room behind the live segments (after Grow) *)
Theorem C17_reopen_grown : forall page fit b, reachable page fit b ->
  (fit = true /\ bsize (bts b) mod ssz (blkSize b) <> 0 /\
   new_blocks page (blkSize b) (bts b) fit = CtorErr EInvalid)
  \/
  exists b0, new_blocks page (blkSize b) (bts b) fit = CtorOk b0 /\
    reachable page fit b0 /\ tight fit b0 /\
    blkSize b0 = blkSize b /\ bts b0 = bts b /\
    segments b0 = bsize (bts b) / ssz (blkSize b) /\ segments b <= segments b0 /\
    blocks_count b <= blocks_count b0 /\
    alloc_list b0 = alloc_list b ++ filter (fun i => i <? blocks_count b0) (hidden_list b) /\
    (forall i, i < blocks_count b -> (In i (alloc_list b0) <-> In i (alloc_list b))) /\
    abs b0 = fst (sp_step fit (abs b) OReopen).
Proof. exact reopen_grown. Qed.
Print Assumptions C17_reopen_grown.

Theorem C17_reopen_after_every_prefix : forall page bs buf fit b0 ops n,
  0 < page -> 0 <= bsize buf -> new_blocks page bs buf fit = CtorOk b0 ->
  no_grow ops = true ->
  let b := snd (run page fit b0 (firstn n ops)) in
  exists b1, new_blocks page (blkSize b) (bts b) fit = CtorOk b1 /\
    alloc_list b1 = alloc_list b /\ available b1 = available b /\ blocks_count b1 = blocks_count b.
Proof. exact reopen_after_every_prefix. Qed.
Print Assumptions C17_reopen_after_every_prefix.

Theorem C17_reopen_after_every_prefix_grown : forall page bs buf fit b0 ops n,
  0 < page -> 0 <= bsize buf -> new_blocks page bs buf fit = CtorOk b0 ->
  let b := snd (run page fit b0 (firstn n ops)) in
  (fit = true /\ bsize (bts b) mod ssz (blkSize b) <> 0 /\
   new_blocks page (blkSize b) (bts b) fit = CtorErr EInvalid)
  \/
  exists b1, new_blocks page (blkSize b) (bts b) fit = CtorOk b1 /\
    blocks_count b <= blocks_count b1 /\
    (forall i, i < blocks_count b -> (In i (alloc_list b1) <-> In i (alloc_list b))) /\
    available b1 = blocks_count b1 - Z.of_nat (length (alloc_list b1)).
Proof. exact reopen_after_every_prefix_grown. Qed.
Print Assumptions C17_reopen_after_every_prefix_grown.

Theorem C17_state_in_bytes : forall page fit b, reachable page fit b -> tight fit b ->
  let bs := blkSize b in let segs := bsize (bts b) / ssz bs in
  segments b = segs /\
  alloc_list b = alloc_of_bytes bs segs (bts b) /\
  blocks_count b = segs * (8 * bs) /\
  available b = segs * (8 * bs) - Z.of_nat (length (alloc_of_bytes bs segs (bts b))) /\
  forall ops, fst (run page fit b ops) = fst (sp_run fit (spec_of_bytes bs (bts b)) ops).
Proof. exact state_in_bytes. Qed.
Print Assumptions C17_state_in_bytes.

(** with room behind the live segments the number of segments the allocator was
    opened with is the one piece of state outside the bytes *)
Theorem C17_state_in_bytes_and_segments : forall page fit b, reachable page fit b ->
  let bs := blkSize b in let segs := segments b in
  segs * ssz bs <= bsize (bts b) /\
  alloc_list b = alloc_of_bytes bs segs (bts b) /\
  blocks_count b = segs * (8 * bs) /\
  available b = segs * (8 * bs) - Z.of_nat (length (alloc_of_bytes bs segs (bts b))) /\
  forall ops, fst (run page fit b ops) =
              fst (sp_run fit (mkSpec bs segs (alloc_of_bytes bs segs (bts b)) (bsize (bts b))
                                 (hidden_of_bytes bs segs (bts b))) ops).
Proof. exact state_in_bytes_and_segments. Qed.
Print Assumptions C17_state_in_bytes_and_segments.

Definition C17_ex_exh : blocks := fst (arrange (fst (arrange C17_ex_b))).
Definition C17_ex_reopened : blocks :=
  match new_blocks 4096 1 (bts C17_ex_exh) true with CtorOk b => b | _ => C17_ex_b0 end.

Example C17_ex_reopen :
  new_blocks 4096 1 (bts C17_ex_exh) true = CtorOk C17_ex_reopened /\
  freeIdx C17_ex_reopened = 0 /\ freeIdx C17_ex_exh = 18 /\
  alloc_list C17_ex_reopened = alloc_list C17_ex_exh /\
  available C17_ex_reopened = 0 /\ available C17_ex_exh = 0 /\
  length (alloc_list C17_ex_reopened) = 16%nat.
Proof. vm_compute. repeat split; reflexivity. Qed.

Example C17_ex_tight : tight true C17_ex_b /\ no_grow C17_ex_ops = true.
Proof. split; [split; [vm_compute; reflexivity|intros _; vm_compute; reflexivity]|vm_compute; reflexivity]. Qed.

(** Grow under the live allocator: block size 1, 20 bytes (two segments and two
    spare bytes), byte 18 - where the header of a third segment would be - holds
    garbage 5 (bits 0 and 2).  Fill everything, grow to three segments: the live
    allocator is still exhausted and still has 2 segments; a smaller size is an
    error; after the reopen there are 3 segments, the garbage marks 16 and 18
    count as allocated, ArrangeBlock goes on with the freed 3, then 17, 19. *)
Definition C17_ex_g0 : blocks :=
  match new_blocks 4096 1 (bset (zero_buffer 20) 18 5%N) false with
  | CtorOk b => b | _ => mkBlocks 0 0 0 0 0 (zero_buffer 0) end.

Definition C17_ex_gops : list op :=
  [OArrange; OArrange; OArrange; OArrange; OArrange; OArrange; OArrange; OArrange; OArrange;
   OArrange; OArrange; OArrange; OArrange; OArrange; OArrange; OArrange; OArrange;
   OGrow 27; OArrange; OSegments; OCount; OAvail; OFree 3; OGrow 10; OFree 16; OAvail;
   OReopen; OSegments; OCount; OAvail; OArrange; OArrange; OArrange; OFree 16; OFree 9; OArrange].

Example C17_ex_grow :
  fst (run 4096 false C17_ex_g0 C17_ex_gops) =
  [OutIdx 0; OutIdx 1; OutIdx 2; OutIdx 3; OutIdx 4; OutIdx 5; OutIdx 6; OutIdx 7; OutIdx 8;
   OutIdx 9; OutIdx 10; OutIdx 11; OutIdx 12; OutIdx 13; OutIdx 14; OutIdx 15; OutErr EExhausted;
   OutOk; OutErr EExhausted; OutN 2; OutN 16; OutN 0; OutOk; OutErr EOther; OutErr EInvalid; OutN 1;
   OutOk; OutN 3; OutN 24; OutN 7; OutIdx 3; OutIdx 17; OutIdx 19; OutOk; OutOk; OutIdx 9] /\
  fst (sp_run false (abs C17_ex_g0) C17_ex_gops) = fst (run 4096 false C17_ex_g0 C17_ex_gops) /\
  hidden_list C17_ex_g0 = [16; 18] /\
  alloc_list (snd (run 4096 false C17_ex_g0 C17_ex_gops)) =
    [0; 1; 2; 3; 4; 5; 6; 7; 8; 9; 10; 11; 12; 13; 14; 15; 17; 18; 19] /\
  no_grow C17_ex_gops = false.
Proof. vm_compute. repeat split; reflexivity. Qed.

(** the state right after the Grow: not tight, the reopen adds the garbage marks *)
Definition C17_ex_gb : blocks := snd (run 4096 false C17_ex_g0 (firstn 23 C17_ex_gops)).

Example C17_ex_grown_state :
  reachable 4096 false C17_ex_gb /\ segments C17_ex_gb = 2 /\ bsize (bts C17_ex_gb) / ssz 1 = 3 /\
  alloc_list C17_ex_gb = [0; 1; 2; 4; 5; 6; 7; 8; 9; 10; 11; 12; 13; 14; 15] /\
  hidden_list C17_ex_gb = [16; 18] /\
  match new_blocks 4096 1 (bts C17_ex_gb) false with
  | CtorOk b1 => alloc_list b1 = [0; 1; 2; 4; 5; 6; 7; 8; 9; 10; 11; 12; 13; 14; 15; 16; 18] /\ available b1 = 7
  | _ => False
  end.
Proof.
  split.
  { exists 1, (bset (zero_buffer 20) 18 5%N), C17_ex_g0, (firstn 23 C17_ex_gops).
    split; [lia|]. split; [cbn; lia|]. split; [vm_compute; reflexivity|reflexivity]. }
  vm_compute. repeat split; reflexivity.
Qed.

(** under fit a grown size that is not a whole number of segments makes the reopen fail *)
Example C17_ex_grow_fit :
  fst (run 4096 true C17_ex_b0 [OArrange; OGrow 20; OReopen; OArrange; OGrow 27; OReopen; OSegments; OAvail]) =
  [OutIdx 0; OutOk; OutErr EInvalid; OutIdx 1; OutOk; OutOk; OutN 3; OutN 22] /\
  fst (sp_run true (abs C17_ex_b0) [OArrange; OGrow 20; OReopen; OArrange; OGrow 27; OReopen; OSegments; OAvail]) =
  [OutIdx 0; OutOk; OutErr EInvalid; OutIdx 1; OutOk; OutOk; OutN 3; OutN 22].
Proof. vm_compute. split; reflexivity. Qed.

(** * User writes into blocks *)

Theorem C17_user_writes_preserve_alloc : forall page fit b idx k v, reachable page fit b ->
  0 <= idx < blocks_count b -> 0 <= k < blkSize b ->
  let b' := fst (poke_block b idx k v) in
  snd (poke_block b idx k v) = SliceOk (block_off b idx) (blkSize b) /\
  bts b' = bset (bts b) (block_off b idx + k) v /\
  alloc_list b' = alloc_list b /\ available b' = available b /\ freeIdx b' = freeIdx b /\
  reachable page fit b'.
Proof. exact user_writes_preserve_alloc. Qed.
Print Assumptions C17_user_writes_preserve_alloc.

Theorem C17_fill_preserves_alloc : forall page fit b idx v, reachable page fit b ->
  0 <= idx < blocks_count b ->
  let b' := fst (write_block b idx v) in
  alloc_list b' = alloc_list b /\ available b' = available b /\ freeIdx b' = freeIdx b /\
  reachable page fit b' /\
  forall k, 0 <= k < blkSize b -> bget (bts b') (block_off b idx + k) = N.land v 255.
Proof. exact fill_preserves_alloc. Qed.
Print Assumptions C17_fill_preserves_alloc.

Example C17_ex_user_write :
  let b' := fst (write_block C17_ex_b 8 255%N) in
  bget (bts b') 10 = 255%N /\ bget (bts C17_ex_b) 10 = 255%N /\ bget (bts b') 9 = 254%N /\
  alloc_list b' = alloc_list C17_ex_b.
Proof. vm_compute. repeat split; reflexivity. Qed.

(** * Refinement: the allocator is the set specification *)

Theorem C17_blocks_refine_allocset : forall page bs buf fit b0 ops,
  0 < page -> 0 <= bsize buf -> new_blocks page bs buf fit = CtorOk b0 ->
  fst (run page fit b0 ops) = fst (sp_run fit (abs b0) ops) /\
  abs (snd (run page fit b0 ops)) = snd (sp_run fit (abs b0) ops).
Proof. exact blocks_refine_allocset. Qed.
Print Assumptions C17_blocks_refine_allocset.

Theorem C17_run_no_panic : forall page bs buf fit b0 ops,
  0 < page -> 0 <= bsize buf -> new_blocks page bs buf fit = CtorOk b0 ->
  (forall o, In o ops -> poke_in_range bs o) ->
  ~ In OutPanic (fst (run page fit b0 ops)) /\ ~ In OutOfFuel (fst (run page fit b0 ops)).
Proof. exact run_no_panic. Qed.
Print Assumptions C17_run_no_panic.

Example C17_ex_refines :
  fst (sp_run true (abs C17_ex_b0) C17_ex_ops) = fst (run 4096 true C17_ex_b0 C17_ex_ops) /\
  sp_alloc (snd (sp_run true (abs C17_ex_b0) C17_ex_ops)) = alloc_list C17_ex_b.
Proof. vm_compute. split; reflexivity. Qed.

Example C17_ex_pokes_in_range : forall o, In o C17_ex_ops -> poke_in_range 1 o.
Proof.
  intros o Hin. unfold C17_ex_ops in Hin. cbn [In] in Hin.
  repeat (destruct Hin as [<-|Hin]; [cbn; try exact I; lia|]). destruct Hin.
Qed.

(** * Concurrent callers: every interleaving of atomic calls is a sequential history *)

Theorem C17_atomic_interleavings_sequential : forall page bs buf fit b0 (progs : list (list op)) tr,
  0 < page -> 0 <= bsize buf -> new_blocks page bs buf fit = CtorOk b0 ->
  interleaving progs tr ->
  fst (run page fit b0 tr) = fst (sp_run fit (abs b0) tr) /\
  reachable page fit (snd (run page fit b0 tr)).
Proof. exact atomic_interleavings_sequential. Qed.
Print Assumptions C17_atomic_interleavings_sequential.

Example C17_ex_interleaving :
  interleaving [[OArrange; OFree 0; OArrange]; [OArrange; OAvail]]
               [OArrange; OArrange; OFree 0; OAvail; OArrange].
Proof.
  apply (il_step [] OArrange [OFree 0; OArrange] [[OArrange; OAvail]]).
  apply (il_step [[OFree 0; OArrange]] OArrange [OAvail] []).
  apply (il_step [] (OFree 0) [OArrange] [[OAvail]]).
  apply (il_step [[OArrange]] OAvail [] []).
  apply (il_step [] OArrange [] [[]]).
  apply il_done. intros p [<-|[<-|[]]]; reflexivity.
Qed.
