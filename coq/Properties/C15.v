(** C15: headline theorems about xbinary/xbinary.go (model: model/XBinary.v,
    proofs: proofs/C15_XBinary.v).  Values are [N] below 2^64 (Go uint/uint64),
    bytes are [N]; a destination buffer is its length [room]; [extra] are the
    bytes between len and cap of the slice handed to a decoder; the hypothesis
    [Z.of_nat (length buf) < 2^63] says that the decoded buffer is a Go slice
    (its length fits an int).

    The tie of the size table *as written in Go today* to the encoder is
    coqgen/C15_Gen.v ([gen_size_correct]), re-checked against a fresh
    translation of the source on every run. *)
From Coq Require Import List NArith ZArith Arith Bool Lia.
From GL Require Import model.XBinary proofs.C15_XBinary.
Import ListNotations.
Open Scope N_scope.

(** * Variable-length uint *)

Theorem C15_uint_roundtrip : forall v rest, v < 2^64 ->
  unmarshal_uint (enc_uint v ++ rest) = DOk (length (enc_uint v)) v.
Proof. exact uint_roundtrip. Qed.
Print Assumptions C15_uint_roundtrip.

Example C15_ex_uint_roundtrip :
  2^64 - 1 < 2^64 /\
  enc_uint (2^64 - 1) = [255; 255; 255; 255; 255; 255; 255; 255; 255; 1] /\
  unmarshal_uint (enc_uint (2^64 - 1) ++ [255; 129]) = DOk 10 (2^64 - 1) /\
  unmarshal_uint (enc_uint 300 ++ [7]) = DOk 2 300.
Proof. vm_compute. repeat split; reflexivity. Qed.

Theorem C15_uint_size : forall v, v < 2^64 ->
  length (enc_uint v) = writable_uint_size v.
Proof. exact uint_size. Qed.
Print Assumptions C15_uint_size.

Example C15_ex_uint_size :
  map writable_uint_size [0; 127; 128; 16383; 16384; 2^35 - 1; 2^35; 2^63 - 1; 2^63; 2^64 - 1]
  = [1; 1; 2; 2; 3; 5; 6; 9; 10; 10]%nat /\
  map (fun v => length (enc_uint v)) [0; 127; 128; 16383; 16384; 2^35 - 1; 2^35; 2^63 - 1; 2^63; 2^64 - 1]
  = [1; 1; 2; 2; 3; 5; 6; 9; 10; 10]%nat.
Proof. vm_compute. split; reflexivity. Qed.

(* a destination buffer shorter than the encoding: error (after the bytes that
   fit have been stored); otherwise exactly the encoding *)
Theorem C15_marshal_uint_buffer : forall v room, v < 2^64 ->
  marshal_uint v room =
  if (room <? length (enc_uint v))%nat then (WErr, firstn room (enc_uint v))
  else (WOk, enc_uint v).
Proof. exact marshal_uint_buffer. Qed.
Print Assumptions C15_marshal_uint_buffer.

(* the int MarshalUint returns *)
Theorem C15_marshal_uint_n : forall v room, v < 2^64 ->
  w_n (marshal_uint v room) =
  if (room <? writable_uint_size v)%nat then O else writable_uint_size v.
Proof. exact marshal_uint_n. Qed.
Print Assumptions C15_marshal_uint_n.

Example C15_ex_marshal_uint_buffer :
  marshal_uint 300 0 = (WErr, []) /\ marshal_uint 300 1 = (WErr, [172]) /\
  marshal_uint 300 2 = (WOk, [172; 2]) /\ marshal_uint 300 3 = (WOk, [172; 2]) /\
  w_n (marshal_uint 300 1) = 0%nat /\ w_n (marshal_uint 300 3) = 2%nat.
Proof. vm_compute. repeat split; reflexivity. Qed.

Theorem C15_writer_uint : forall v, v < 2^64 -> ow_uint v = enc_uint v.
Proof. exact ow_uint_enc. Qed.
Print Assumptions C15_writer_uint.

(** * Fixed width *)

Theorem C15_byte_roundtrip : forall v rest,
  marshal_byte v 1 = (WOk, [v]) /\ marshal_byte v 0 = (WErr, []) /\
  unmarshal_byte ([v] ++ rest) = DOk 1 v.
Proof. exact byte_roundtrip. Qed.
Print Assumptions C15_byte_roundtrip.

(* uint16/32/64 are k = 2/4/8; true of every width *)
Theorem C15_fixed_roundtrip : forall k v rest, v < 2 ^ (8 * N.of_nat k) ->
  marshal_fixed k v k = (WOk, put_be k v) /\
  length (put_be k v) = k /\
  unmarshal_fixed k (put_be k v ++ rest) = DOk k v.
Proof. exact fixed_roundtrip. Qed.
Print Assumptions C15_fixed_roundtrip.

Theorem C15_fixed_short_buffer_fails : forall k v room,
  marshal_fixed k v room = if (room <? k)%nat then (WErr, []) else (WOk, put_be k v).
Proof. exact fixed_short_buffer_fails. Qed.
Print Assumptions C15_fixed_short_buffer_fails.

Example C15_ex_fixed :
  put_be 2 0xBEEF = [0xBE; 0xEF] /\ put_be 4 0xDEADBEEF = [0xDE; 0xAD; 0xBE; 0xEF] /\
  unmarshal_fixed 4 (put_be 4 0xDEADBEEF ++ [1]) = DOk 4 0xDEADBEEF /\
  unmarshal_fixed 8 (put_be 8 (2^64 - 1)) = DOk 8 (2^64 - 1) /\
  0xDEADBEEF < 2 ^ (8 * N.of_nat 4) /\ marshal_fixed 4 0xDEADBEEF 3 = (WErr, []).
Proof. vm_compute. repeat split; reflexivity. Qed.

(** * Byte strings and strings (strings are the same bytes) *)

Theorem C15_bytes_roundtrip : forall l rest extra newBuf,
  (Z.of_nat (length (ow_bytes l ++ rest)) < two63Z)%Z ->
  unmarshal_bytes (ow_bytes l ++ rest) extra newBuf =
  DOk (length (ow_bytes l))
      (mkView (length (enc_uint (N.of_nat (length l)))) l (negb newBuf)).
Proof. exact bytes_roundtrip. Qed.
Print Assumptions C15_bytes_roundtrip.

Theorem C15_bytes_size : forall l, N.of_nat (length l) < 2^64 ->
  length (ow_bytes l) = writable_bytes_size l /\
  marshal_bytes l (writable_bytes_size l) = (WOk, ow_bytes l).
Proof. exact bytes_size. Qed.
Print Assumptions C15_bytes_size.

Theorem C15_bytes_buffer : forall l room, N.of_nat (length l) < 2^64 ->
  marshal_bytes l room =
  if (room <? writable_bytes_size l)%nat
  then (WErr, firstn room (enc_uint (N.of_nat (length l))))
  else (WOk, ow_bytes l).
Proof. exact bytes_buffer. Qed.
Print Assumptions C15_bytes_buffer.

Theorem C15_bytes_short_buffer_fails : forall l room, N.of_nat (length l) < 2^64 ->
  (room < writable_bytes_size l)%nat ->
  fst (marshal_bytes l room) = WErr /\ w_n (marshal_bytes l room) = O.
Proof. exact bytes_short_buffer_fails. Qed.
Print Assumptions C15_bytes_short_buffer_fails.

(* a 128-byte string needs a 2-byte length prefix *)
Example C15_ex_bytes :
  let l := repeat 7 127 ++ [9] in
  writable_bytes_size l = 130%nat /\ firstn 3 (ow_bytes l) = [128; 1; 7] /\
  fst (marshal_bytes l 129) = WErr /\ marshal_bytes l 130 = (WOk, ow_bytes l) /\
  unmarshal_bytes (ow_bytes l ++ [1; 2]) [3] true = DOk 130 (mkView 2 l false) /\
  (Z.of_nat (length (ow_bytes l ++ [1%N; 2%N])) < two63Z)%Z.
Proof. vm_compute. repeat split; reflexivity. Qed.

(** * Items of the seven kinds: ObjectsWriter = Marshal, decode (encode i) = i *)

Theorem C15_marshal_item_buffer : forall i room, item_wf i = true ->
  ((room < length (encode_item i))%nat ->
     fst (marshal_item i room) = WErr /\ w_n (marshal_item i room) = O) /\
  ((length (encode_item i) <= room)%nat -> marshal_item i room = (WOk, encode_item i)).
Proof. exact marshal_item_buffer. Qed.
Print Assumptions C15_marshal_item_buffer.

Theorem C15_item_roundtrip : forall i rest extra, item_wf i = true ->
  (Z.of_nat (length (encode_item i ++ rest)) < two63Z)%Z ->
  decode_item (kind_of i) (encode_item i ++ rest) extra = DOk (length (encode_item i)) i.
Proof. exact item_roundtrip. Qed.
Print Assumptions C15_item_roundtrip.

Theorem C15_stream_roundtrip : forall items rest extra,
  Forall (fun i => item_wf i = true) items ->
  (Z.of_nat (length (concat (map encode_item items) ++ rest)) < two63Z)%Z ->
  decode_items (map kind_of items) (concat (map encode_item items) ++ rest) extra
  = Some (items, rest).
Proof. exact stream_roundtrip. Qed.
Print Assumptions C15_stream_roundtrip.

Theorem C15_marshal_stream_eq_writer : forall items room,
  Forall (fun i => item_wf i = true) items ->
  (length (concat (map encode_item items)) <= room)%nat ->
  marshal_items items room = Some (concat (map encode_item items)).
Proof. exact marshal_stream_eq_writer. Qed.
Print Assumptions C15_marshal_stream_eq_writer.

Definition C15_ex_items : list item :=
  [IByte 200; IU16 0xBEEF; IUint 300; IBytes [1; 2; 3]; IU64 (2^64 - 1); IString [104; 105];
   IU32 7; IUint (2^63); IBytes []].

Example C15_ex_items_wf : Forall (fun i => item_wf i = true) C15_ex_items.
Proof. repeat constructor. Qed.

Example C15_ex_stream :
  length (concat (map encode_item C15_ex_items)) = 35%nat /\
  decode_items (map kind_of C15_ex_items) (concat (map encode_item C15_ex_items) ++ [42]) []
  = Some (C15_ex_items, [42]) /\
  marshal_items C15_ex_items 35 = Some (concat (map encode_item C15_ex_items)) /\
  marshal_items C15_ex_items 34 = None.
Proof. vm_compute. repeat split; reflexivity. Qed.

(** * The model's encoders only produce bytes *)

Theorem C15_enc_uint_wf : forall v, wf_bytes (enc_uint v) = true.
Proof. exact enc_uint_wf. Qed.
Print Assumptions C15_enc_uint_wf.

Theorem C15_put_be_wf : forall k v, wf_bytes (put_be k v) = true.
Proof. exact put_be_wf. Qed.
Print Assumptions C15_put_be_wf.
