(** C19: error classes survive wrapping and the gRPC boundary
    (errors/errors.go, errors/grpc.go; model: model/Errors.v; proofs:
    proofs/C19_Errors.v, proofs/C19_Bytes.v).

    The general theorems hold for every [tables] value that passes the
    computable check [tables_ok]; the [_std] theorems are their instances for
    the hand-written copy of the Go tables ([std_tables], proved equal to the
    tables translated from errors/grpc.go in coqgen/C19_Gen.v, where the same
    theorems are re-proved over the translated tables on every run). *)
From Coq Require Import List NArith Bool Arith.
From GL Require Import model.Errors proofs.C19_Errors proofs.C19_Bytes.
Import ListNotations.

(** * The class survives GRPCWrap and the boundary; no other class appears *)

(* Error values are wrapping TREES: besides the layers with one wrapped
   operand (fmt.Errorf with one %w, EmbedObject, a custom type with
   Unwrap() error) there are layers with several operands (fmt.Errorf with
   several %w verbs, errors.Join, Unwrap() []error), [Multi].  errors.Is
   walks the tree depth-first; [classes_of e] lists the classes it can find. *)
Theorem C19_is_chain_classes :
  forall (e : err) (c : class),
    is_chain e c = existsb (fun c0 => class_eqb c0 c) (classes_of e).
Proof. exact is_chain_classes. Qed.
Print Assumptions C19_is_chain_classes.

(* most general statement: every class c with a code, every tree e that
   contains no status error and in which errors.Is can find the class c (at
   least once: [the_class]) and no other class ([uniform]), every class c'.
   "Exactly one class per tree" is the well-formedness condition: with two
   different classes in one tree the result of GRPCStatusCode depends on the
   order in which Go ranges over the map errorsToCode
   (C19_ex_two_classes_order_dependent below). *)
Theorem C19_class_survives_tree :
  forall (T : tables), tables_ok T = true ->
  forall (e : err) (c : class) (k : code) (c' : class),
    inner_status e = None -> uniform e = true -> the_class e = Some c ->
    to_code T c = Some k ->
    Is_o T (grpc_wrap T e) c' = class_eqb c' c.
Proof. exact class_survives_tree. Qed.
Print Assumptions C19_class_survives_tree.

(* the same with the tree given as a wrapping context x around the sentinel: a
   path of layers (any depth, any texts, any number of embeds), where a layer
   with several operands carries its other operands; [ctx_sides_ok x]: these
   side operands bring neither a class nor a status error (io.EOF,
   errors.New, context.Canceled, wrapped / joined ones ...) *)
Theorem C19_class_survives :
  forall (T : tables), tables_ok T = true ->
  forall (c : class) (k : code) (x : ctx) (c' : class),
    ctx_sides_ok x = true ->
    to_code T c = Some k ->
    Is_o T (grpc_wrap T (plug x (Sentinel c))) c' = class_eqb c' c.
Proof. exact class_survives. Qed.
Print Assumptions C19_class_survives.

(* what [ctx_sides_ok] means: the sentinel in the hole is the only class of the tree, and there is no status error *)
Theorem C19_one_class_per_tree :
  forall (x : ctx) (e : err),
    ctx_sides_ok x = true ->
    classes_of (plug x e) = classes_of e /\ inner_status (plug x e) = inner_status e.
Proof. exact one_class_per_tree. Qed.
Print Assumptions C19_one_class_per_tree.

(* the statement for chains (every layer has one operand): no side condition *)
Theorem C19_linear_sides_ok :
  forall x : ctx, ctx_linear x = true -> ctx_sides_ok x = true.
Proof. exact linear_sides_ok. Qed.
Print Assumptions C19_linear_sides_ok.

Theorem C19_class_survives_linear :
  forall (T : tables), tables_ok T = true ->
  forall (c : class) (k : code) (x : ctx) (c' : class),
    ctx_linear x = true ->
    to_code T c = Some k ->
    Is_o T (grpc_wrap T (plug x (Sentinel c))) c' = class_eqb c' c.
Proof. exact class_survives_linear. Qed.
Print Assumptions C19_class_survives_linear.

Theorem C19_class_survives_std :
  forall (c : class) (x : ctx) (c' : class),
    ctx_sides_ok x = true ->
    In c [ErrExist; ErrNotExist; ErrInvalid; ErrNotAuthorized; ErrDataLoss; ErrInternal;
          ErrConflict; ErrExhausted; ErrUnimplemented; ErrCanceled] ->
    Is_o std_tables (grpc_wrap std_tables (plug x (Sentinel c))) c' = class_eqb c' c /\
    Is_o std_tables (transport_o (grpc_wrap std_tables (plug x (Sentinel c)))) c' = class_eqb c' c.
Proof. exact std_class_survives. Qed.
Print Assumptions C19_class_survives_std.

Theorem C19_class_survives_std_linear :
  forall (c : class) (x : ctx) (c' : class),
    ctx_linear x = true ->
    In c [ErrExist; ErrNotExist; ErrInvalid; ErrNotAuthorized; ErrDataLoss; ErrInternal;
          ErrConflict; ErrExhausted; ErrUnimplemented; ErrCanceled] ->
    Is_o std_tables (grpc_wrap std_tables (plug x (Sentinel c))) c' = class_eqb c' c /\
    Is_o std_tables (transport_o (grpc_wrap std_tables (plug x (Sentinel c)))) c' = class_eqb c' c.
Proof. exact std_class_survives_linear. Qed.
Print Assumptions C19_class_survives_std_linear.

Theorem C19_class_survives_std_tree :
  forall (e : err) (c : class) (c' : class),
    inner_status e = None -> uniform e = true -> the_class e = Some c ->
    In c [ErrExist; ErrNotExist; ErrInvalid; ErrNotAuthorized; ErrDataLoss; ErrInternal;
          ErrConflict; ErrExhausted; ErrUnimplemented; ErrCanceled] ->
    Is_o std_tables (grpc_wrap std_tables e) c' = class_eqb c' c /\
    Is_o std_tables (transport_o (grpc_wrap std_tables e)) c' = class_eqb c' c.
Proof. exact std_class_survives_tree. Qed.
Print Assumptions C19_class_survives_std_tree.

(* the listed classes are exactly the ones with a row in errorsToCode *)
Theorem C19_classes_with_code_std :
  forall c : class,
    In c [ErrExist; ErrNotExist; ErrInvalid; ErrNotAuthorized; ErrDataLoss; ErrInternal;
          ErrConflict; ErrExhausted; ErrUnimplemented; ErrCanceled] <->
    exists k, to_code std_tables c = Some k.
Proof. exact std_has_code. Qed.
Print Assumptions C19_classes_with_code_std.

(* the peer receives the very status error GRPCWrap produced *)
Theorem C19_transport_wrapped :
  forall (T : tables), tables_ok T = true ->
  forall (x : ctx) (c : class),
    ctx_sides_ok x = true ->
    transport_o (grpc_wrap T (plug x (Sentinel c))) = grpc_wrap T (plug x (Sentinel c)).
Proof. exact transport_wrapped. Qed.
Print Assumptions C19_transport_wrapped.

Theorem C19_transport_wrapped_tree :
  forall (T : tables), tables_ok T = true ->
  forall (e : err) (c : class),
    inner_status e = None -> uniform e = true -> the_class e = Some c ->
    transport_o (grpc_wrap T e) = grpc_wrap T e.
Proof. exact transport_wrapped_tree. Qed.
Print Assumptions C19_transport_wrapped_tree.

Theorem C19_wrapped_code :
  forall (T : tables), tables_ok T = true ->
  forall (c : class) (k : code) (x : ctx),
    ctx_sides_ok x = true ->
    to_code T c = Some k ->
    grpc_status_code_o T (grpc_wrap T (plug x (Sentinel c))) = k.
Proof. exact wrapped_code. Qed.
Print Assumptions C19_wrapped_code.

Theorem C19_wrapped_code_tree :
  forall (T : tables), tables_ok T = true ->
  forall (e : err) (c : class) (k : code),
    inner_status e = None -> uniform e = true -> the_class e = Some c ->
    to_code T c = Some k ->
    grpc_status_code_o T (grpc_wrap T e) = k.
Proof. exact wrapped_code_tree. Qed.
Print Assumptions C19_wrapped_code_tree.

(** Appendix C of DESIGN.md: the two classes without a code travel as Internal
    and come back as ErrInternal *)
Theorem C19_class_without_code_std :
  forall (c : class) (x : ctx) (c' : class),
    ctx_sides_ok x = true ->
    ~ In c [ErrExist; ErrNotExist; ErrInvalid; ErrNotAuthorized; ErrDataLoss; ErrInternal;
            ErrConflict; ErrExhausted; ErrUnimplemented; ErrCanceled] ->
    (c = ErrClosed \/ c = ErrCommunication) /\
    Is_o std_tables (grpc_wrap std_tables (plug x (Sentinel c))) c' = class_eqb c' ErrInternal /\
    grpc_status_code_o std_tables (grpc_wrap std_tables (plug x (Sentinel c))) = Internal.
Proof. exact std_class_without_code. Qed.
Print Assumptions C19_class_without_code_std.

(** what the code does before GRPCWrap: a chain without a status error has
    status code Unknown, so Is also answers true for the class grpcToErrors
    gives to Unknown (ErrCommunication) *)
Theorem C19_Is_before_wrap :
  forall (T : tables) (x : ctx) (c c' : class),
    ctx_sides_ok x = true ->
    Is T (plug x (Sentinel c)) c' =
    class_eqb c c' || match from_code T Unknown with Some c0 => class_eqb c0 c' | None => false end.
Proof. exact Is_plain_chain. Qed.
Print Assumptions C19_Is_before_wrap.

(** a concrete context of depth 4: texts with a colon, with JSON, with pieces
    of the marker, and one embedded object *)
Definition C19_ex_obj : obj := [123; 34; 65; 34; 58; 55; 125]%N.            (* {"A":7} *)
Definition C19_ex_ctx : ctx :=
  [FWrap [Text [97; 58; 32; 98]%N];                                          (* "a: b" *)
   FWrap [Json [123; 125]%N];                                                (* "{}" *)
   FEmbed C19_ex_obj;
   FWrap [Text [27; 106; 115; 111]%N]].                                      (* "\x1bjso" *)

Example C19_ex_class_survives :
  map (Is_o std_tables (grpc_wrap std_tables (plug C19_ex_ctx (Sentinel ErrConflict)))) all_classes =
  map (fun c' => class_eqb c' ErrConflict) all_classes /\
  filter (Is_o std_tables (grpc_wrap std_tables (plug C19_ex_ctx (Sentinel ErrConflict)))) all_classes =
  [ErrConflict] /\
  grpc_wrap std_tables (plug C19_ex_ctx (Sentinel ErrConflict)) =
  Some (Status FailedPrecondition (message (plug C19_ex_ctx (Sentinel ErrConflict)))).
Proof. vm_compute. repeat split; reflexivity. Qed.

Example C19_ex_class_survives_instance :
  Is_o std_tables (grpc_wrap std_tables (plug C19_ex_ctx (Sentinel ErrConflict))) ErrConflict = true /\
  Is_o std_tables (grpc_wrap std_tables (plug C19_ex_ctx (Sentinel ErrConflict))) ErrInternal = false.
Proof.
  split.
  - exact (proj1 (C19_class_survives_std_linear ErrConflict C19_ex_ctx ErrConflict eq_refl ltac:(cbn; tauto))).
  - exact (proj1 (C19_class_survives_std_linear ErrConflict C19_ex_ctx ErrInternal eq_refl ltac:(cbn; tauto))).
Qed.

(** a wrapping tree: fmt.Errorf("outer: %w", fmt.Errorf("request failed: %w (cleanup: %w)",
    EmbedObject(o, errors.Join(errors.New("first"), <hole>)), io.EOF)), with a custom Is-method leaf as well *)
Definition C19_ex_eof : err := Plain [Text [69; 79; 70]%N].                         (* io.EOF *)
Definition C19_ex_tree_ctx : ctx :=
  [FWrap [Text [111; 117; 116; 101; 114]%N];                                         (* "outer" *)
   FMulti [Text [114; 101; 113; 58; 32]%N] [] [Text [32; 40]%N] [(C19_ex_eof, [Text [41]%N])];
   FEmbed C19_ex_obj;
   FMulti [] [(Plain [Text [102; 105; 114; 115; 116]%N], [Text [10]%N])] [] []].     (* errors.Join(errors.New("first"), _) *)

Example C19_ex_tree_hypotheses :
  ctx_sides_ok C19_ex_tree_ctx = true /\ ctx_linear C19_ex_tree_ctx = false /\
  ctx_marker_free C19_ex_tree_ctx = true /\ ctx_embeds C19_ex_tree_ctx = [C19_ex_obj] /\
  classes_of (plug C19_ex_tree_ctx (Sentinel ErrConflict)) = [ErrConflict] /\
  build C19_ex_tree_ctx (Sentinel ErrConflict) = Some (plug C19_ex_tree_ctx (Sentinel ErrConflict)).
Proof. vm_compute. repeat split; reflexivity. Qed.

Example C19_ex_tree_class_survives :
  filter (Is_o std_tables (grpc_wrap std_tables (plug C19_ex_tree_ctx (Sentinel ErrConflict)))) all_classes = [ErrConflict] /\
  Is_o std_tables (grpc_wrap std_tables (plug C19_ex_tree_ctx (Sentinel ErrConflict))) ErrInternal = false.
Proof.
  split; [vm_compute; reflexivity|].
  exact (proj1 (C19_class_survives_std ErrConflict C19_ex_tree_ctx ErrInternal eq_refl ltac:(cbn; tauto))).
Qed.

(* a tree that is not of the form "context around a sentinel": the class stands twice, once as a leaf of
   another type with an Is method (syscall.EEXIST), below a join *)
Definition C19_ex_tree : err :=
  Multi [] [(Wrap [Text [97]%N] (IsLeaf ErrExist [Text [102; 105; 108; 101]%N]), [Text [10]%N]);
            (C19_ex_eof, [Text [10]%N]);
            (Embed C19_ex_obj (Sentinel ErrExist), [])].

Example C19_ex_tree_general :
  inner_status C19_ex_tree = None /\ uniform C19_ex_tree = true /\ the_class C19_ex_tree = Some ErrExist /\
  classes_of C19_ex_tree = [ErrExist; ErrExist] /\
  filter (Is_o std_tables (grpc_wrap std_tables C19_ex_tree)) all_classes = [ErrExist].
Proof. vm_compute. repeat split; reflexivity. Qed.

(* the well-formedness condition cannot be dropped: with two different classes in one tree the answer
   depends on the order of the rows (in Go: on the iteration order of the map errorsToCode) *)
Example C19_ex_two_classes_order_dependent :
  let e := Multi [] [(Sentinel ErrExist, [Text [10]%N]); (Sentinel ErrNotExist, [])] in
  let T' := mkTables (t_c2e std_tables) (rev (t_e2c std_tables)) (t_def_class std_tables) (t_def_code std_tables) in
  uniform e = false /\ tables_ok T' = true /\
  grpc_status_code std_tables e = AlreadyExists /\ grpc_status_code T' e = NotFound.
Proof. vm_compute. repeat split; reflexivity. Qed.

(* nor can "no status error among the side operands": status.Code finds it and GRPCWrap returns the tree as it is *)
Example C19_ex_status_side :
  let e := Multi [] [(Sentinel ErrExist, [Text [10]%N]); (Status NotFound [], [])] in
  grpc_wrap std_tables e = Some e /\ filter (Is std_tables e) all_classes = [ErrExist; ErrNotExist].
Proof. vm_compute. split; reflexivity. Qed.

Example C19_ex_without_code :
  filter (Is_o std_tables (grpc_wrap std_tables (plug C19_ex_ctx (Sentinel ErrClosed)))) all_classes = [ErrInternal] /\
  filter (Is std_tables (plug C19_ex_ctx (Sentinel ErrClosed))) all_classes = [ErrClosed; ErrCommunication].
Proof. vm_compute. split; reflexivity. Qed.

(** * GRPCWrap is idempotent, never returns nil, keeps message and object *)

Theorem C19_grpc_wrap_idem :
  forall (T : tables), tables_ok T = true ->
  forall e : option err, grpc_wrap_o T (grpc_wrap_o T e) = grpc_wrap_o T e.
Proof. exact grpc_wrap_idem. Qed.
Print Assumptions C19_grpc_wrap_idem.

Theorem C19_grpc_wrap_total :
  forall (T : tables), tables_ok T = true ->
  forall e : err, exists w, grpc_wrap T e = Some w /\ status_code w <> Unknown.
Proof. exact grpc_wrap_total. Qed.
Print Assumptions C19_grpc_wrap_total.

Theorem C19_grpc_wrap_as_is :
  forall (T : tables), tables_ok T = true ->
  forall (e : err) (k : code), inner_status e = Some k -> k <> Unknown -> grpc_wrap T e = Some e.
Proof. exact grpc_wrap_as_is. Qed.
Print Assumptions C19_grpc_wrap_as_is.

Theorem C19_grpc_wrap_keeps_message :
  forall (T : tables), tables_ok T = true ->
  forall e : err, inner_status e = None -> grpc_msg_o (grpc_wrap T e) = message e.
Proof. exact grpc_wrap_keeps_message. Qed.
Print Assumptions C19_grpc_wrap_keeps_message.

(* whatever ExtractObject finds before GRPCWrap it finds afterwards: every error value *)
Theorem C19_grpc_wrap_keeps_object :
  forall (T : tables), tables_ok T = true ->
  forall e : err, extract_o (grpc_wrap T e) = extract e.
Proof. exact grpc_wrap_keeps_object. Qed.
Print Assumptions C19_grpc_wrap_keeps_object.

Theorem C19_std_tables_ok : tables_ok std_tables = true.
Proof. exact std_tables_ok. Qed.
Print Assumptions C19_std_tables_ok.

(* the hypothesis is not vacuous and not trivially true: a table that sends a
   class to a code that maps back to another class fails it *)
Example C19_ex_tables_ok_rejects :
  tables_ok (mkTables (t_c2e std_tables) [(ErrDataLoss, ResourceExhausted)] (Some ErrInternal) Internal) = false /\
  tables_ok (mkTables (t_c2e std_tables) [(ErrInternal, Unknown)] (Some ErrInternal) Internal) = false /\
  tables_ok (mkTables [(NotFound, None)] (t_e2c std_tables) (Some ErrInternal) Internal) = false.
Proof. vm_compute. repeat split; reflexivity. Qed.

Example C19_ex_idem :
  let w := grpc_wrap std_tables (Wrap [Text [120]%N] (Status Unknown [Text [109]%N])) in
  w = Some (Status Internal [Text [120]%N; sep; StatusPrefix Unknown; Text [109]%N]) /\
  grpc_wrap_o std_tables w = w /\
  grpc_wrap std_tables (Wrap [Text [120]%N] (Status NotFound [])) = Some (Wrap [Text [120]%N] (Status NotFound [])).
Proof. vm_compute. repeat split; reflexivity. Qed.

(** * The embedded object survives *)

(* x: a path through a wrapping tree; [ctx_marker_free] also demands that the
   texts of the side operands contain no marker *)
Theorem C19_embed_survives :
  forall (T : tables), tables_ok T = true ->
  forall (x : ctx) (c : class) (o : obj),
    ctx_sides_ok x = true -> ctx_marker_free x = true -> ctx_embeds x = [o] ->
    extract_o (grpc_wrap T (plug x (Sentinel c))) = Some o /\
    extract_o (transport_o (grpc_wrap T (plug x (Sentinel c)))) = Some o.
Proof. exact embed_survives. Qed.
Print Assumptions C19_embed_survives.

Theorem C19_embed_survives_linear :
  forall (T : tables), tables_ok T = true ->
  forall (x : ctx) (c : class) (o : obj),
    ctx_linear x = true -> ctx_marker_free x = true -> ctx_embeds x = [o] ->
    extract_o (grpc_wrap T (plug x (Sentinel c))) = Some o /\
    extract_o (transport_o (grpc_wrap T (plug x (Sentinel c)))) = Some o.
Proof. exact embed_survives_linear. Qed.
Print Assumptions C19_embed_survives_linear.

Example C19_ex_embed_hypotheses :
  ctx_marker_free C19_ex_ctx = true /\ ctx_embeds C19_ex_ctx = [C19_ex_obj].
Proof. vm_compute. split; reflexivity. Qed.

Example C19_ex_embed_survives :
  extract_o (grpc_wrap std_tables (plug C19_ex_ctx (Sentinel ErrConflict))) = Some C19_ex_obj.
Proof.
  exact (proj1 (C19_embed_survives_linear std_tables C19_std_tables_ok C19_ex_ctx ErrConflict C19_ex_obj
                  eq_refl (proj1 C19_ex_embed_hypotheses) (proj2 C19_ex_embed_hypotheses))).
Qed.

Example C19_ex_embed_survives_tree :
  extract_o (grpc_wrap std_tables (plug C19_ex_tree_ctx (Sentinel ErrConflict))) = Some C19_ex_obj.
Proof.
  exact (proj1 (C19_embed_survives std_tables C19_std_tables_ok C19_ex_tree_ctx ErrConflict C19_ex_obj
                  eq_refl eq_refl eq_refl)).
Qed.

(* the marker-freeness hypothesis cannot be dropped: a wrap text with a marker hides the object *)
Example C19_ex_embed_needs_marker_free :
  extract (plug [FWrap [Marker]; FEmbed C19_ex_obj] (Sentinel ErrConflict)) = None.
Proof. vm_compute. reflexivity. Qed.

(* the context is the value the API builds: no EmbedObject call panics *)
Theorem C19_build_plug :
  forall (x : ctx) (e : err),
    ctx_marker_free x = true -> (length (ctx_embeds x) <= 1)%nat -> has_marker (message e) = false ->
    build x e = Some (plug x e).
Proof. exact build_plug. Qed.
Print Assumptions C19_build_plug.

(* and the API cannot build a value with two embedded objects *)
Theorem C19_build_at_most_one_embed :
  forall (x : ctx) (e e' : err),
    build x e = Some e' -> has_marker (message e) = false ->
    e' = plug x e /\ (length (ctx_embeds x) <= 1)%nat /\
    (ctx_embeds x <> [] -> has_marker (message e') = true).
Proof. exact build_at_most_one_embed. Qed.
Print Assumptions C19_build_at_most_one_embed.

Theorem C19_second_embed_panics :
  forall (x : ctx) (o o' : obj) (e : err), embed_object o' (plug x (Embed o e)) = None.
Proof. exact second_embed_panics. Qed.
Print Assumptions C19_second_embed_panics.

Example C19_ex_build :
  build C19_ex_ctx (Sentinel ErrConflict) = Some (plug C19_ex_ctx (Sentinel ErrConflict)) /\
  build (FEmbed C19_ex_obj :: C19_ex_ctx) (Sentinel ErrConflict) = None.
Proof. vm_compute. split; reflexivity. Qed.

(** * The tables: 17 codes, 12 classes *)

Theorem C19_codes_total_std :
  from_code std_tables OK = None /\
  forall k : code, k <> OK -> exists! c : class, from_code std_tables k = Some c.
Proof. exact std_codes_total. Qed.
Print Assumptions C19_codes_total_std.

Theorem C19_from_code_table_std :
  map (from_code std_tables) all_codes =
  [None; Some ErrCanceled; Some ErrCommunication; Some ErrInvalid; Some ErrCommunication;
   Some ErrNotExist; Some ErrExist; Some ErrNotAuthorized; Some ErrExhausted; Some ErrConflict;
   Some ErrInternal; Some ErrInternal; Some ErrUnimplemented; Some ErrInternal; Some ErrInternal;
   Some ErrDataLoss; Some ErrNotAuthorized].
Proof. exact std_from_code_table. Qed.
Print Assumptions C19_from_code_table_std.

Theorem C19_class_code_roundtrip :
  forall (T : tables), tables_ok T = true ->
  forall (c : class) (k : code), to_code T c = Some k -> from_code T k = Some c.
Proof. exact class_code_roundtrip. Qed.
Print Assumptions C19_class_code_roundtrip.

Theorem C19_to_code_injective :
  forall (T : tables), tables_ok T = true ->
  forall (c1 c2 : class) (k : code), to_code T c1 = Some k -> to_code T c2 = Some k -> c1 = c2.
Proof. exact to_code_injective. Qed.
Print Assumptions C19_to_code_injective.

Example C19_ex_roundtrip :
  to_code std_tables ErrNotAuthorized = Some PermissionDenied /\
  from_code std_tables PermissionDenied = Some ErrNotAuthorized /\
  from_code std_tables Unauthenticated = Some ErrNotAuthorized /\
  to_code std_tables ErrClosed = None.
Proof. vm_compute. repeat split; reflexivity. Qed.

(** * Map iteration order in GRPCStatusCode is irrelevant *)

Theorem C19_is_chain_unique :
  forall (e : err) (c1 c2 : class),
    uniform e = true -> is_chain e c1 = true -> is_chain e c2 = true -> c1 = c2.
Proof. exact is_chain_unique. Qed.
Print Assumptions C19_is_chain_unique.

(* chains (no layer with several operands) need no side condition *)
Theorem C19_is_chain_unique_linear :
  forall (e : err) (c1 c2 : class),
    err_linear e = true -> is_chain e c1 = true -> is_chain e c2 = true -> c1 = c2.
Proof. exact is_chain_unique_linear. Qed.
Print Assumptions C19_is_chain_unique_linear.

Theorem C19_any_matching_row_is_found :
  forall (T : tables) (e : err) (row : class * code),
    uniform e = true ->
    NoDup (map fst (t_e2c T)) -> In row (t_e2c T) -> is_chain e (fst row) = true ->
    find (fun r => is_chain e (fst r)) (t_e2c T) = Some row.
Proof. exact any_matching_row_is_found. Qed.
Print Assumptions C19_any_matching_row_is_found.

Theorem C19_keys_distinct_std : NoDup (map fst (t_e2c std_tables)).
Proof. exact std_keys_distinct. Qed.
Print Assumptions C19_keys_distinct_std.

Example C19_ex_row_found :
  find (fun r => is_chain (plug C19_ex_ctx (Sentinel ErrConflict)) (fst r)) (t_e2c std_tables) =
  Some (ErrConflict, FailedPrecondition).
Proof. vm_compute. reflexivity. Qed.

(** * Token level and byte level agree *)

Theorem C19_levels_agree :
  forall m : msg, msg_wf m = true -> split_bytes (render m) = map render (split_marker m).
Proof. exact levels_agree. Qed.
Print Assumptions C19_levels_agree.

Theorem C19_message_wf :
  forall e : err, err_wf e = true -> msg_wf (message e) = true.
Proof. exact message_wf. Qed.
Print Assumptions C19_message_wf.

Theorem C19_extract_bytes_agrees :
  forall e : err, err_wf e = true ->
    middle_bytes (render (message e)) = option_map render (middle_tokens (message e)).
Proof. exact extract_bytes_agrees. Qed.
Print Assumptions C19_extract_bytes_agrees.

Example C19_ex_levels :
  err_wf (plug C19_ex_ctx (Sentinel ErrConflict)) = true /\
  middle_bytes (render (message (plug C19_ex_ctx (Sentinel ErrConflict)))) = Some C19_ex_obj /\
  length (split_bytes (render (message (plug C19_ex_ctx (Sentinel ErrConflict))))) = 3%nat.
Proof. vm_compute. repeat split; reflexivity. Qed.

(* the well-formedness hypothesis cannot be dropped: "\x1bjso" directly followed by "n" *)
Example C19_ex_levels_needs_wf :
  let m := [Text [27; 106; 115; 111]%N; Text [110]%N] in
  msg_wf m = false /\ length (split_bytes (render m)) = 2%nat /\ length (split_marker m) = 1%nat.
Proof. vm_compute. repeat split; reflexivity. Qed.
