(** C16: the xbinary decoders are total (model: model/XBinary.v, what is asked
    of a result: spec/XBinary.v, proofs: proofs/C16_XBinary.v). *)
From Coq Require Import List NArith ZArith Arith Bool Lia.
From GL Require Import model.XBinary model.legacy.XBinaryLegacy spec.XBinary proofs.C16_XBinary.
Import ListNotations.
Open Scope N_scope.

(** For every byte list that is a Go slice (bytes below 256, length below
    2^63), whatever lies between len and cap ([extra]), every decoder returns
    without panic; on success 1 <= n <= len(buf), scalar values fit their type,
    and UnmarshalBytes/UnmarshalString return exactly the sub-range
    [v_off, v_off+len) of the input, ending at n (aliasing iff newBuf=false). *)
Theorem C16_decoders_total : forall buf extra,
  wf_bytes buf = true -> go_len buf ->
  total_scalar 8 buf (unmarshal_byte buf) /\
  total_scalar 16 buf (unmarshal_fixed 2 buf) /\
  total_scalar 32 buf (unmarshal_fixed 4 buf) /\
  total_scalar 64 buf (unmarshal_fixed 8 buf) /\
  total_scalar 64 buf (unmarshal_uint buf) /\
  (forall newBuf, total_bytes buf newBuf (unmarshal_bytes buf extra newBuf)) /\
  (forall newBuf, total_bytes buf newBuf (unmarshal_string buf extra newBuf)).
Proof. exact decoders_total. Qed.
Print Assumptions C16_decoders_total.

(* [total_bytes] on a success, unfolded *)
Theorem C16_unmarshal_bytes_in_range : forall buf extra newBuf n v,
  go_len buf -> unmarshal_bytes buf extra newBuf = DOk n v ->
  (1 <= n <= length buf)%nat /\ (v_off v + length (v_data v) = n)%nat /\
  v_data v = firstn (length (v_data v)) (skipn (v_off v) buf) /\ v_alias v = negb newBuf.
Proof.
  intros buf extra newBuf n v Hlen H.
  pose proof (total_unmarshal_bytes buf extra newBuf Hlen) as T. rewrite H in T. exact T.
Qed.
Print Assumptions C16_unmarshal_bytes_in_range.

(* a varint decode depends on the consumed bytes only *)
Theorem C16_unmarshal_uint_prefix : forall buf n v more,
  unmarshal_uint buf = DOk n v -> unmarshal_uint (firstn n buf ++ more) = DOk n v.
Proof. exact unmarshal_uint_prefix. Qed.
Print Assumptions C16_unmarshal_uint_prefix.

(* non-vacuity: inputs on which the decoders succeed, fail, and the huge
   length prefixes of D3 on the repaired decoder *)
Example C16_ex_results :
  unmarshal_bytes [2; 7; 8; 9] [] false = DOk 3 (mkView 1 [7; 8] true) /\
  unmarshal_bytes [3; 7; 8] [9; 9] false = DErr /\
  unmarshal_uint [255; 255; 255; 255; 255; 255; 255; 255; 255; 255; 255; 127; 5] = DOk 12 (2^64 - 1) /\
  unmarshal_uint [128; 128] = DErr /\
  unmarshal_fixed 4 [1; 2; 3] = DErr /\
  unmarshal_bytes d3_witness_1 [] false = DErr /\
  unmarshal_bytes d3_witness_2 [] true = DErr /\
  wf_bytes d3_witness_1 = true /\ go_len d3_witness_1.
Proof. vm_compute. repeat split; reflexivity. Qed.

(** The decoder as it was before the fix 98bfc00 is not total: defect D3. *)
Theorem C16_legacy_unmarshal_bytes_refuted :
  exists buf, wf_bytes buf = true /\ go_len buf /\
              unmarshal_bytes_legacy buf [] false = DPanic.
Proof. exact legacy_unmarshal_bytes_refuted. Qed.
Print Assumptions C16_legacy_unmarshal_bytes_refuted.

Example C16_ex_legacy_second_witness :
  unmarshal_bytes_legacy d3_witness_2 [] false = DPanic.
Proof. exact legacy_unmarshal_bytes_refuted_2. Qed.
