(** C12: timers are never early, fire at most once, Cancel is effective and precise
    (timeout/timeout.go; models: model/THeap.v, model/TPool.v; proofs: proofs/C12_THeap.v,
    proofs/C12_TPool.v). *)
From Coq Require Import List ZArith NArith Bool Lia Permutation.
From GL Require Import model.THeap model.TPool proofs.C12_THeap proofs.C12_TPool proofs.C12_HeapOrder proofs.C12_PoolOrder.
Import ListNotations.
Open Scope Z_scope.

(** * The [futures] slice: idx is the position, whatever container/heap does *)

Theorem C12_idx_inv : forall (ps : list prim) (h h' : fheap),
  idx_ok h -> prim_run h ps = Some h' -> idx_ok h'.
Proof. exact idx_inv. Qed.
Print Assumptions C12_idx_inv.

(** [idx_ok], unfolded: every future in the slice has idx = its position, every other
    future has idx = -1 *)
Theorem C12_idx_inv_unfolded : forall (ps : list prim) (h' : fheap),
  prim_run empty_heap ps = Some h' ->
  (forall k, (k < length (arr h'))%nat -> idx (get (hs h') (nth k (arr h') 0%N)) = Z.of_nat k) /\
  (forall x, ~ In x (arr h') -> idx (get (hs h') x) = -1).
Proof. exact idx_inv_unfolded. Qed.
Print Assumptions C12_idx_inv_unfolded.

(* non-vacuity: a sequence of raw calls that swaps, pushes and pops is accepted and ends
   in a non-trivial slice *)
Example C12_ex_prims :
  option_map dump
    (prim_run empty_heap [PPush 7%N; PPush 8%N; PPush 9%N; PSwap 0 2; PLess 0 1; PPop; PPush 5%N; PSwap 1 0; PLen])
  = Some [(8%N, 0); (9%N, 1); (5%N, 2)].
Proof. vm_compute. reflexivity. Qed.

(** * heap.Remove(h, fu.idx) removes fu and only fu; heap.Pop removes the head *)

Theorem C12_remove_exact : forall (h : fheap) (x : fid),
  idx_ok h -> In x (arr h) ->
  let r := heap_remove h (idx (get (hs h) x)) in
  snd r = x /\
  (forall y, In y (arr (fst r)) <-> In y (arr h) /\ y <> x) /\
  S (length (arr (fst r))) = length (arr h) /\
  (forall y, fireT (get (hs (fst r)) y) = fireT (get (hs h) y) /\
             live (get (hs (fst r)) y) = live (get (hs h) y)) /\
  bad (fst r) = bad h /\ idx_ok (fst r) /\ idx (get (hs (fst r)) x) = -1.
Proof. exact remove_exact_unfolded. Qed.
Print Assumptions C12_remove_exact.

Theorem C12_pop_head : forall (h : fheap),
  idx_ok h -> arr h <> [] ->
  let r := heap_pop h in
  snd r = nth 0 (arr h) 0%N /\
  (forall y, In y (arr (fst r)) <-> In y (arr h) /\ y <> snd r) /\
  bad (fst r) = bad h /\ idx_ok (fst r) /\ idx (get (hs (fst r)) (snd r)) = -1.
Proof. exact pop_head_unfolded. Qed.
Print Assumptions C12_pop_head.

Theorem C12_push_exact : forall (h : fheap) (x : fid),
  idx_ok h -> ~ In x (arr h) ->
  let h' := heap_push h x in
  (forall y, In y (arr h') <-> In y (arr h) \/ y = x) /\ bad h' = bad h /\ idx_ok h'.
Proof. exact push_exact_unfolded. Qed.
Print Assumptions C12_push_exact.

(** the slice is a permutation of the pending set *)
Theorem C12_heap_perm_push : forall h x, idx_ok h -> ~ In x (arr h) ->
  Permutation (arr (heap_push h x)) (x :: arr h).
Proof. exact heap_perm_push. Qed.
Print Assumptions C12_heap_perm_push.

Theorem C12_heap_perm_pop : forall h, idx_ok h -> arr h <> [] ->
  Permutation (snd (heap_pop h) :: arr (fst (heap_pop h))) (arr h).
Proof. exact heap_perm_pop. Qed.
Print Assumptions C12_heap_perm_pop.

Theorem C12_heap_perm_remove : forall h x, idx_ok h -> In x (arr h) ->
  Permutation (x :: arr (fst (heap_remove h (idx (get (hs h) x))))) (arr h).
Proof. exact heap_perm_remove. Qed.
Print Assumptions C12_heap_perm_remove.

(* non-vacuity: a heap of seven futures built by heap.Push satisfies idx_ok; removing the
   one in the middle by its own idx moves other futures and removes exactly it *)
Definition C12_ex_heap : fheap :=
  fold_left (fun h o => fst (hop_step h o))
    [HPush 1%N 70; HPush 2%N 30; HPush 3%N 50; HPush 4%N 10; HPush 5%N 20; HPush 6%N 60; HPush 7%N 40]
    empty_heap.

Example C12_ex_heap_dump :
  dump C12_ex_heap = [(4%N, 0); (5%N, 1); (7%N, 2); (1%N, 3); (2%N, 4); (6%N, 5); (3%N, 6)]
  /\ bad C12_ex_heap = false.
Proof. vm_compute. split; reflexivity. Qed.

Example C12_ex_remove_middle :
  let r := heap_remove C12_ex_heap (idx (get (hs C12_ex_heap) 5%N)) in
  snd r = 5%N /\ dump (fst r) = [(4%N, 0); (2%N, 1); (7%N, 2); (1%N, 3); (3%N, 4); (6%N, 5)].
Proof. vm_compute. split; reflexivity. Qed.

(** * the slice is heap-ordered by fire time; the head is a minimum *)

(** [heap_ordered h]: for every slot k > 0, fireT of slot (k-1)/2 <= fireT of slot k *)
Theorem C12_heap_ordered_push : forall h x, heap_ordered h -> heap_ordered (heap_push h x).
Proof. exact heap_ordered_push. Qed.
Print Assumptions C12_heap_ordered_push.

Theorem C12_heap_ordered_pop : forall h, arr h <> [] -> heap_ordered h -> heap_ordered (fst (heap_pop h)).
Proof. exact heap_ordered_pop. Qed.
Print Assumptions C12_heap_ordered_pop.

Theorem C12_heap_ordered_remove : forall h i, in_range h i = true -> heap_ordered h ->
  heap_ordered (fst (heap_remove h i)).
Proof. exact heap_ordered_remove. Qed.
Print Assumptions C12_heap_ordered_remove.

Theorem C12_head_minimal : forall h x, heap_ordered h -> In x (arr h) ->
  fireT (get (hs h) (aget (arr h) 0)) <= fireT (get (hs h) x).
Proof. exact head_fire_minimal. Qed.
Print Assumptions C12_head_minimal.

(* non-vacuity: the example heap is heap-ordered (executable reading: no child is Less than its parent) *)
Example C12_ex_heap_ordered :
  forallb (fun k => negb (f_less C12_ex_heap (Z.of_nat k) (Z.quot (Z.of_nat k - 1) 2))) [1; 2; 3; 4; 5; 6]%nat = true.
Proof. vm_compute. reflexivity. Qed.


(** * The dispatcher: for every accepted trace of the LTS *)

(** [trace_starts p0 tr] lists (id, instant) of every callback start along the run: the
    [LDecide] steps that pop a future whose function is set.  A callback is started
    only strictly after callTime + d of the Call that created it. *)
Theorem C12_never_early : forall (idle maxw wcap tokens0 : Z) (tr : list label) (p : pool) (x : fid) (t : Z),
  run (init_pool idle maxw wcap tokens0) tr = Some p ->
  In (x, t) (trace_starts (init_pool idle maxw wcap tokens0) tr) ->
  exists d tc tl, In (LCall x d tc true tl) tr /\ tc + d < t.
Proof. exact never_early. Qed.
Print Assumptions C12_never_early.

Theorem C12_at_most_once : forall (idle maxw wcap tokens0 : Z) (tr : list label) (p : pool),
  run (init_pool idle maxw wcap tokens0) tr = Some p ->
  NoDup (map fst (trace_starts (init_pool idle maxw wcap tokens0) tr)).
Proof. exact at_most_once. Qed.
Print Assumptions C12_at_most_once.

(** a Cancel of a future that has not been started yet prevents the start for ever ... *)
Theorem C12_cancel_effective : forall (idle maxw wcap tokens0 : Z) tr1 (x : fid) (t : Z) tr2 (p : pool),
  run (init_pool idle maxw wcap tokens0) (tr1 ++ LCancel x t :: tr2) = Some p ->
  ~ In x (map fst (trace_starts (init_pool idle maxw wcap tokens0) tr1)) ->
  ~ In x (map fst (trace_starts (init_pool idle maxw wcap tokens0) (tr1 ++ LCancel x t :: tr2))).
Proof. exact cancel_effective. Qed.
Print Assumptions C12_cancel_effective.

(** ... in particular a Cancel that happens no later than callTime + d (and if the future
    was popped before the Cancel, it was already due: [C12_never_early]) *)
Theorem C12_cancel_in_time : forall (idle maxw wcap tokens0 : Z) tr1 (x : fid) (t : Z) tr2 (p : pool) d tc nn tl,
  run (init_pool idle maxw wcap tokens0) (tr1 ++ LCancel x t :: tr2) = Some p ->
  In (LCall x d tc nn tl) tr1 -> t <= tc + d ->
  ~ In x (map fst (trace_starts (init_pool idle maxw wcap tokens0) (tr1 ++ LCancel x t :: tr2))).
Proof. exact cancel_in_time. Qed.
Print Assumptions C12_cancel_in_time.

(** Cancel x - first, repeated or after x fired - changes nothing about any other future:
    the pending set loses at most x, worker pcs (who runs what), fire times and functions
    of the others are untouched; when x is not pending the heap is untouched altogether *)
Theorem C12_cancel_precise : forall (p : pool) (x : fid) (t : Z) (p' : pool),
  pool_ok p -> step p (LCancel x t) = Some p' ->
  (forall y, y <> x -> (In y (pending p') <-> In y (pending p))) /\
  ~ In x (pending p') /\
  workers p' = workers p /\ watchers p' = watchers p /\ called p' = called p /\
  (forall y, fireT (get (hs (hp p')) y) = fireT (get (hs (hp p)) y)) /\
  (forall y, y <> x -> live (get (hs (hp p')) y) = live (get (hs (hp p)) y)) /\
  (~ In x (pending p) -> hp p' = hp p /\ tokens p' = tokens p).
Proof. exact cancel_precise. Qed.
Print Assumptions C12_cancel_precise.

(** [pool_ok] (idx = position, no fuel/panic flag, pending futures have their function)
    holds in every reachable state *)
Theorem C12_pool_ok_reachable : forall (idle maxw wcap tokens0 : Z) (tr : list label) (p : pool),
  run (init_pool idle maxw wcap tokens0) tr = Some p -> pool_ok p.
Proof. exact pool_ok_reachable. Qed.
Print Assumptions C12_pool_ok_reachable.

(* non-vacuity: an accepted trace with three futures, a Cancel before firing (3), a Cancel
   after firing (1), a repeated Cancel, a token wake-up, two starts, wind-down of the worker *)
Definition C12_ex_trace : list label :=
  [LCall 1%N 10 0 true 0; LCall 2%N 5 1 true 1; LCall 3%N 20 1 true 2; LDecide 0 3; LCancel 3%N 4;
   LWakeToken 0 5; LDecide 0 7; LCbEnd 0 8; LDecide 0 11; LCancel 1%N 12; LCancel 3%N 13; LCbEnd 0 14;
   LDecide 0 15; LWakeToken 0 15; LDecide 0 16; LWakeTimer 0 116; LDecide 0 117].

Example C12_ex_trace_accepted :
  option_map (fun p => (dump (hp p), watchers p, tokens p, workers p)) (run (init_pool 100 2 2 0) C12_ex_trace)
  = Some ([], 0, 0, [Gone])
  /\ trace_starts (init_pool 100 2 2 0) C12_ex_trace = [(2%N, 7); (1%N, 11)].
Proof. vm_compute. split; reflexivity. Qed.

(* a Decide at exactly the fire time does not pop (now.After is strict); one tick later it does *)
Example C12_ex_strict :
  trace_starts (init_pool 100 2 2 0) [LCall 1%N 10 0 true 0; LDecide 0 10; LWakeTimer 0 10; LDecide 0 10] = []
  /\ trace_starts (init_pool 100 2 2 0) [LCall 1%N 10 0 true 0; LDecide 0 11] = [(1%N, 11)].
Proof. vm_compute. split; reflexivity. Qed.

(** every reachable state has a heap-ordered slice, and the future whose callback is
    started is one with the smallest fire time among the pending ones *)
Theorem C12_reachable_heap_ordered : forall (idle maxw wcap tokens0 : Z) (tr : list label) (p : pool),
  run (init_pool idle maxw wcap tokens0) tr = Some p -> heap_ordered (hp p).
Proof. exact reachable_heap_ordered. Qed.
Print Assumptions C12_reachable_heap_ordered.

Theorem C12_started_is_minimal : forall (p : pool) (l : label) (x : fid),
  pool_ok p -> heap_ordered (hp p) -> starts p l = Some x ->
  forall y, In y (pending p) -> fireT (get (hs (hp p)) x) <= fireT (get (hs (hp p)) y).
Proof. exact started_is_minimal. Qed.
Print Assumptions C12_started_is_minimal.
