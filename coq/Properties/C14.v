(** C14: headline theorems about container/ringbuffer.go (model: model/RingBuf.v,
    specification: spec/Queue.v, proofs: proofs/C14_RingBuf.v). *)
From Coq Require Import List ZArith Arith Bool Lia.
From GL Require Import lib.ListUtil model.RingBuf spec.Queue proofs.C14_RingBuf.
Import ListNotations.
Local Open Scope nat_scope.

(** * Refinement: the ring buffer is a bounded FIFO queue *)

Theorem C14_rb_refines_queue : forall (size : nat) (ops : list op),
  fst (rb_run (new_rb size) ops) = fst (q_run (new_q size) ops).
Proof. exact rb_refines_queue. Qed.
Print Assumptions C14_rb_refines_queue.

Theorem C14_rb_final_contents : forall (size : nat) (ops : list op),
  rb_contents (snd (rb_run (new_rb size) ops)) = qitems (snd (q_run (new_q size) ops)).
Proof. exact rb_final_contents. Qed.
Print Assumptions C14_rb_final_contents.

Theorem C14_rb_never_out_of_fuel : forall (size : nat) (ops : list op),
  ~ In OutOfFuel (fst (rb_run (new_rb size) ops)).
Proof. exact rb_never_out_of_fuel. Qed.
Print Assumptions C14_rb_never_out_of_fuel.

Theorem C14_rb_len_le_cap : forall (size : nat) (ops : list op),
  let b := snd (rb_run (new_rb size) ops) in
  rb_len b <= rb_cap b /\ rb_cap b = size.
Proof. exact rb_len_le_cap. Qed.
Print Assumptions C14_rb_len_le_cap.

(** a run on capacity 2 (3 slots) that wraps around the backing array several
    times and exercises all eight operations, including a rejected write, reads
    on empty, out-of-range [At], over-long [ReadN]/[Skip] and a negative [Skip] *)
Definition C14_ex_ops : list op :=
  [OWrite 11; OWrite 12; OWrite 13; OLen; ORead; OWrite 13; OAt 1; OAt 2; OAt (-1);
   OReadN 1; OWrite 14; OCap; OReadN 5; ORead; OWrite 15; OWrite 16; OSkip 1;
   OWrite 17; OLen; OSkip 7; OSkip (-3); OWrite 18; OWrite 19; OClear; OLen;
   OWrite 20]%Z.

Definition C14_ex_outs : list out :=
  [OutOk; OutOk; OutExhausted; OutN 2; OutVal 11; OutOk; OutVal 13; OutPanic; OutPanic;
   OutVals [12]; OutOk; OutN 2; OutVals [13; 14]; OutEOF; OutOk; OutOk; OutN 1;
   OutOk; OutN 2; OutN 2; OutN 0; OutOk; OutOk; OutOk; OutN 0;
   OutOk]%Z.

Example C14_ex_wraparound_model :
  rb_run (new_rb 2) C14_ex_ops = (C14_ex_outs, mkRb [20; 0; 0]%Z 0 1).
Proof. vm_compute. reflexivity. Qed.

Example C14_ex_wraparound_spec :
  q_run (new_q 2) C14_ex_ops = (C14_ex_outs, mkQ [20]%Z 2).
Proof. vm_compute. reflexivity. Qed.

(** capacity 0 (a single slot): nothing can ever be written *)
Example C14_ex_capacity_zero :
  fst (rb_run (new_rb 0)
         [OWrite 1%Z; ORead; OReadN 3; OSkip 2%Z; OAt 0%Z; OClear; OLen; OCap]) =
  [OutExhausted; OutEOF; OutVals []; OutN 0; OutPanic; OutOk; OutN 0; OutN 0].
Proof. vm_compute. reflexivity. Qed.

(** * Released slots are zeroed *)

Theorem C14_rb_zero_outside_window : forall (size : nat) (ops : list op),
  zero_outside (snd (rb_run (new_rb size) ops)).
Proof. exact rb_zero_outside_window. Qed.
Print Assumptions C14_rb_zero_outside_window.

(** [zero_outside], unfolded *)
Theorem C14_rb_zero_outside_window_unfolded : forall (size : nat) (ops : list op),
  let b := snd (rb_run (new_rb size) ops) in
  forall j, j < blen b ->
    ~ (if rd b <=? wr b then rd b <= j < wr b else rd b <= j \/ j < wr b) ->
    nth j (buf b) 0%Z = 0%Z.
Proof. exact rb_zero_outside_window. Qed.
Print Assumptions C14_rb_zero_outside_window_unfolded.

(** a final state whose live window wraps ([rd] > [wr]); slot 1 is outside *)
Example C14_ex_wrapped_window :
  snd (rb_run (new_rb 3)
         [OWrite 1; OWrite 2; OWrite 3; ORead; ORead; OWrite 4; OWrite 5]%Z) =
  mkRb [5; 0; 3; 4]%Z 2 1.
Proof. vm_compute. reflexivity. Qed.

Theorem C14_rb_zeroed : forall (size : nat) (ops : list op),
  (forall v, In (OWrite v) ops -> v <> 0%Z) ->
  let b := snd (rb_run (new_rb size) ops) in
  nonzero_slots b = rb_len b.
Proof. exact rb_zeroed. Qed.
Print Assumptions C14_rb_zeroed.

(** the hypothesis of [C14_rb_zeroed] is met by the wrap-around run ... *)
Example C14_ex_writes_nonzero : forall v, In (OWrite v) C14_ex_ops -> v <> 0%Z.
Proof.
  intros v Hin. unfold C14_ex_ops in Hin. cbn [In] in Hin.
  repeat (destruct Hin as [Heq|Hin];
          [first [discriminate Heq | (injection Heq as Heq; lia)]|]).
  destruct Hin.
Qed.

Example C14_ex_zeroed :
  nonzero_slots (snd (rb_run (new_rb 2) C14_ex_ops)) =
  rb_len (snd (rb_run (new_rb 2) C14_ex_ops)).
Proof. exact (C14_rb_zeroed 2 C14_ex_ops C14_ex_writes_nonzero). Qed.

Example C14_ex_zeroed_value :
  nonzero_slots (snd (rb_run (new_rb 2) C14_ex_ops)) = 1.
Proof. vm_compute. reflexivity. Qed.

(** ... and it cannot be dropped: a written zero is live but not counted *)
Example C14_ex_zeroed_needs_hypothesis :
  let b := snd (rb_run (new_rb 2) [OWrite 0%Z]) in
  nonzero_slots b = 0 /\ rb_len b = 1.
Proof. vm_compute. split; reflexivity. Qed.

(** * FIFO: no loss, no duplication, order preserved *)

Theorem C14_queue_fifo : forall (size : nat) (ops : list op),
  let g := q_run_ghost (new_q size) ops in
  g_outs g = fst (q_run (new_q size) ops) /\
  g_final g = snd (q_run (new_q size) ops) /\
  ghost_consistent ops (g_outs g) (g_removed g) /\
  accepted_writes ops (g_outs g) = concat (g_removed g) ++ qitems (g_final g).
Proof. exact queue_fifo. Qed.
Print Assumptions C14_queue_fifo.

Example C14_ex_fifo :
  let g := q_run_ghost (new_q 2) C14_ex_ops in
  accepted_writes C14_ex_ops (g_outs g) = [11; 12; 13; 14; 15; 16; 17; 18; 19; 20]%Z /\
  concat (g_removed g) = [11; 12; 13; 14; 15; 16; 17; 18; 19]%Z /\
  qitems (g_final g) = [20]%Z.
Proof. vm_compute. repeat split; reflexivity. Qed.

Theorem C14_queue_fifo_observable : forall (size : nat) (ops : list op),
  (forall o, In o ops -> no_discard o) ->
  accepted_writes ops (fst (q_run (new_q size) ops)) =
  consumed ops (fst (q_run (new_q size) ops)) ++ qitems (snd (q_run (new_q size) ops)).
Proof. exact queue_fifo_observable. Qed.
Print Assumptions C14_queue_fifo_observable.

Theorem C14_rb_fifo : forall (size : nat) (ops : list op),
  let r := rb_run (new_rb size) ops in
  let g := q_run_ghost (new_q size) ops in
  ghost_consistent ops (fst r) (g_removed g) /\
  accepted_writes ops (fst r) = concat (g_removed g) ++ rb_contents (snd r).
Proof. exact rb_fifo. Qed.
Print Assumptions C14_rb_fifo.

Theorem C14_rb_fifo_observable : forall (size : nat) (ops : list op),
  (forall o, In o ops -> no_discard o) ->
  let r := rb_run (new_rb size) ops in
  accepted_writes ops (fst r) = consumed ops (fst r) ++ rb_contents (snd r).
Proof. exact rb_fifo_observable. Qed.
Print Assumptions C14_rb_fifo_observable.

(** a run without [Skip]/[Clear] meeting the hypothesis of the observable form *)
Definition C14_ex_ops_nd : list op :=
  [OWrite 1; OWrite 2; OWrite 3; ORead; OWrite 4; OReadN 2; OWrite 5; OWrite 6;
   OAt 0; ORead; OLen]%Z.

Example C14_ex_no_discard : forall o, In o C14_ex_ops_nd -> no_discard o.
Proof.
  intros o Hin. unfold C14_ex_ops_nd in Hin. cbn [In] in Hin.
  repeat (destruct Hin as [Heq|Hin]; [subst o; exact I|]).
  destruct Hin.
Qed.

Example C14_ex_fifo_observable :
  let r := rb_run (new_rb 3) C14_ex_ops_nd in
  accepted_writes C14_ex_ops_nd (fst r) = [1; 2; 3; 4; 5; 6]%Z /\
  consumed C14_ex_ops_nd (fst r) = [1; 2; 3; 4]%Z /\
  rb_contents (snd r) = [5; 6]%Z.
Proof. vm_compute. repeat split; reflexivity. Qed.

Example C14_ex_fifo_observable_instance :
  let r := rb_run (new_rb 3) C14_ex_ops_nd in
  accepted_writes C14_ex_ops_nd (fst r) = consumed C14_ex_ops_nd (fst r) ++ rb_contents (snd r).
Proof. exact (C14_rb_fifo_observable 3 C14_ex_ops_nd C14_ex_no_discard). Qed.

(** * Simple characterisations at the specification level *)

Theorem C14_write_fails_iff_full : forall (q : queue) (v : Z),
  snd (q_step q (OWrite v)) = OutExhausted <-> length (qitems q) = qcap q.
Proof. exact write_fails_iff_full. Qed.
Print Assumptions C14_write_fails_iff_full.

Theorem C14_read_eof_iff_empty : forall (q : queue),
  snd (q_step q ORead) = OutEOF <-> qitems q = [].
Proof. exact read_eof_iff_empty. Qed.
Print Assumptions C14_read_eof_iff_empty.

Theorem C14_at_panics_iff_out_of_range : forall (q : queue) (i : Z),
  snd (q_step q (OAt i)) = OutPanic <->
  (i < 0 \/ Z.of_nat (length (qitems q)) <= i)%Z.
Proof. exact at_panics_iff_out_of_range. Qed.
Print Assumptions C14_at_panics_iff_out_of_range.

Theorem C14_len_le_cap : forall (size : nat) (ops : list op),
  let q := snd (q_run (new_q size) ops) in
  length (qitems q) <= qcap q /\ qcap q = size.
Proof. exact len_le_cap. Qed.
Print Assumptions C14_len_le_cap.

Example C14_ex_write_full :
  snd (q_step (mkQ [1; 2]%Z 2) (OWrite 3%Z)) = OutExhausted /\
  snd (q_step (mkQ [1]%Z 2) (OWrite 3%Z)) = OutOk.
Proof. vm_compute. split; reflexivity. Qed.

Example C14_ex_read_empty :
  snd (q_step (mkQ [] 2) ORead) = OutEOF /\
  snd (q_step (mkQ [7]%Z 2) ORead) = OutVal 7%Z.
Proof. vm_compute. split; reflexivity. Qed.

Example C14_ex_at_range :
  snd (q_step (mkQ [7; 8]%Z 2) (OAt 2%Z)) = OutPanic /\
  snd (q_step (mkQ [7; 8]%Z 2) (OAt (-1)%Z)) = OutPanic /\
  snd (q_step (mkQ [7; 8]%Z 2) (OAt 1%Z)) = OutVal 8%Z.
Proof. vm_compute. repeat split; reflexivity. Qed.
