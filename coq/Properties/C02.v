(** C02: KV storage -- atomic operations, single Create / CasByVersion winner,
    fresh versions, under concurrency.

    Models      model/InmemKV.v + model/InmemConc.v   (kvs/inmem/inmem.go: one critical section per call)
                model/RedisKV.v + model/RedisSrv.v + model/RedisConc.v
                                                      (kvs/redis/redis.go interleaved command by command)
                model/legacy/RedisKVLegacy.v          (the two methods before fixes b59c3d7, 3538561)
    Contract    spec/KV.v ([KV.step]); spec/KVRel.v: the same contract as a relation, [kv_acc] (versions
                1, 2, 3, ...) and [kvf_acc] (a write may install ANY version never handed out before).
    Framework   lib/Lin.v (histories, [linearizable], the checker [valid_lin], one atomic step per call),
                lib/LinSim.v (silent steps, change of specification along a simulation).
    Proofs      proofs/C02_Contract.v, C02_Inmem.v, C02_RedisSrv.v, C02_Redis.v, C02_Legacy.v.

    [linearizable acc s0 h]: some permutation of the completed calls [h] (each with the stamps of its
    invocation and response, its operation and its result) respects real time and is a sequential history
    of the specification [acc] from [s0].  The theorems hold for every trace of the LTSs: any number of
    threads, any number of calls, every interleaving. *)
From Coq Require Import List ZArith NArith Arith Bool Lia Permutation.
From GL Require Import run.KVRun run.Run_C02.
From GL Require Import lib.Lin lib.LinSim spec.KV spec.KVRel
  model.InmemKV model.InmemConc model.RedisSrv model.RedisKV model.RedisConc model.legacy.RedisKVLegacy
  proofs.C02_Contract proofs.C02_Inmem proofs.C02_RedisSrv proofs.C02_Redis proofs.C02_Legacy.
Import ListNotations.

(** * 1. The in-memory store *)

(** every history of "invocation . one critical section ([im_step] at a non-decreasing instant) . response"
    is linearizable w.r.t. the in-memory model itself ... *)
Theorem C02_inmem_linearizable : forall t0 tr y,
  reach im_acc (sys_init (im_new, t0)) tr y -> quiescent y ->
  linearizable im_acc (im_new, t0) (done y).
Proof. exact inmem_linearizable. Qed.
Print Assumptions C02_inmem_linearizable.

(** ... hence w.r.t. the contract [KV.step] (same results, same version numbers; lazy expiry = virtual expiry) *)
Theorem C02_inmem_linearizable_contract : forall t0 tr y,
  reach im_acc (sys_init (im_new, t0)) tr y -> quiescent y ->
  linearizable kv_acc (init, t0) (done y).
Proof. exact inmem_linearizable_contract. Qed.
Print Assumptions C02_inmem_linearizable_contract.

(** a history of [KV.step] is a history of the contract with free fresh versions *)
Theorem C02_kv_linearizable_kvf : forall t h,
  linearizable kv_acc (init, t) h -> linearizable kvf_acc (finit, t) h.
Proof. exact kv_linearizable_kvf. Qed.
Print Assumptions C02_kv_linearizable_kvf.

(** non-vacuity: thread 0 creates "a", thread 1's Create overlaps it and loses *)
Definition C02_ka : key := [97%N].

Definition C02_ex_o0 : op := Create C02_ka [] None.
Definition C02_ex_o1 : op := Create C02_ka [120%N] None.
Definition C02_ex_y0 : sys (imem * Z) op out := sys_init (im_new, 0%Z).
Definition C02_ex_y1 := mkSys (shared C02_ex_y0) (upd (threads C02_ex_y0) 0 (Invoked 1 C02_ex_o0)) 1 (done C02_ex_y0) (order C02_ex_y0).
Definition C02_ex_y2 := mkSys (shared C02_ex_y1) (upd (threads C02_ex_y1) 1 (Invoked 2 C02_ex_o1)) 2 (done C02_ex_y1) (order C02_ex_y1).
Definition C02_ex_s3 : imem * Z := (fst (im_step im_new 0 C02_ex_o0), 0%Z).
Definition C02_ex_y3 := mkSys C02_ex_s3 (upd (threads C02_ex_y2) 0 (Took 3 1 C02_ex_o0 (OVer 1))) 3 (done C02_ex_y2)
                          (order C02_ex_y2 ++ [mkE 3 0 1 C02_ex_o0 (OVer 1) None]).
Definition C02_ex_y4 := mkSys C02_ex_s3 (upd (threads C02_ex_y3) 1 (Took 4 2 C02_ex_o1 (OExist 1))) 4 (done C02_ex_y3)
                          (order C02_ex_y3 ++ [mkE 4 1 2 C02_ex_o1 (OExist 1) None]).
Definition C02_ex_y5 := mkSys C02_ex_s3 (upd (threads C02_ex_y4) 1 Idle) 5
                          (done C02_ex_y4 ++ [mkOpr 2 5 C02_ex_o1 (OExist 1)]) (patch 4 5 (order C02_ex_y4)).
Definition C02_ex_y6 := mkSys C02_ex_s3 (upd (threads C02_ex_y5) 0 Idle) 6
                          (done C02_ex_y5 ++ [mkOpr 1 6 C02_ex_o0 (OVer 1)]) (patch 3 6 (order C02_ex_y5)).

Example C02_ex_inmem_reach :
  reach im_acc (sys_init (im_new, 0%Z))
    (((((([] ++ [EInv 0 C02_ex_o0]) ++ [EInv 1 C02_ex_o1]) ++ [EAtom 0 (OVer 1)]) ++ [EAtom 1 (OExist 1)]) ++
      [ERet 1]) ++ [ERet 0]) C02_ex_y6 /\
  quiescent C02_ex_y6 /\
  done C02_ex_y6 = [mkOpr 2 5 C02_ex_o1 (OExist 1); mkOpr 1 6 C02_ex_o0 (OVer 1)].
Proof.
  split; [|split].
  - assert (S1 : sstep im_acc C02_ex_y0 (EInv 0 C02_ex_o0) C02_ex_y1) by (apply s_inv; reflexivity).
    assert (S2 : sstep im_acc C02_ex_y1 (EInv 1 C02_ex_o1) C02_ex_y2) by (apply s_inv; reflexivity).
    assert (S3 : sstep im_acc C02_ex_y2 (EAtom 0 (OVer 1)) C02_ex_y3).
    { apply (s_atom im_acc C02_ex_y2 0 1 C02_ex_o0 (OVer 1) C02_ex_s3); [reflexivity|].
      split; [cbn; lia|]. vm_compute. reflexivity. }
    assert (S4 : sstep im_acc C02_ex_y3 (EAtom 1 (OExist 1)) C02_ex_y4).
    { apply (s_atom im_acc C02_ex_y3 1 2 C02_ex_o1 (OExist 1) C02_ex_s3); [reflexivity|].
      split; [cbn; lia|]. vm_compute. reflexivity. }
    assert (S5 : sstep im_acc C02_ex_y4 (ERet 1) C02_ex_y5)
      by (apply (s_ret im_acc C02_ex_y4 1 4 2 C02_ex_o1 (OExist 1)); reflexivity).
    assert (S6 : sstep im_acc C02_ex_y5 (ERet 0) C02_ex_y6)
      by (apply (s_ret im_acc C02_ex_y5 0 3 1 C02_ex_o0 (OVer 1)); reflexivity).
    pose proof (reach_nil im_acc C02_ex_y0) as R0.
    pose proof (reach_snoc im_acc _ _ _ _ _ R0 S1) as R1.
    pose proof (reach_snoc im_acc _ _ _ _ _ R1 S2) as R2.
    pose proof (reach_snoc im_acc _ _ _ _ _ R2 S3) as R3.
    pose proof (reach_snoc im_acc _ _ _ _ _ R3 S4) as R4.
    pose proof (reach_snoc im_acc _ _ _ _ _ R4 S5) as R5.
    exact (reach_snoc im_acc _ _ _ _ _ R5 S6).
  - intros t. destruct t as [|[|t]]; reflexivity.
  - reflexivity.
Qed.

(** * 2. The Redis client, interleaved command by command *)

(** operations of a run: keys without leading slash (known finding D10), patterns of the common glob dialect,
    expirations that have not passed, PutMany without expirations (with one, the Go code is a loop of Put calls:
    [puts_prog_cons]) *)
Example C02_ex_op_ok : forall now o,
  op_ok now o <-> (op_clean o /\
    match o with
    | Create _ _ e | Put _ _ e | CasByVersion _ _ e _ => alive now e
    | PutMany rs => Forall (fun r : key * value * option Z => snd r = None) rs
    | _ => True
    end).
Proof. intros. reflexivity. Qed.

(** every concurrent history of the client LTS is linearizable w.r.t. the contract with free versions;
    the clocks stand still during the run.  Linearisation points: see proofs/C02_Redis.v. *)
Theorem C02_redis_linearizable : forall now clk tr z,
  zrun rk_prog now clk z_init tr = Some z -> Forall (label_ok now) tr -> zquiescent z ->
  (forall x, In x (z_done z) -> o_res x <> OFuel) ->
  linearizable kvf_acc (finit, now) (z_done z).
Proof. exact redis_linearizable. Qed.
Print Assumptions C02_redis_linearizable.

(** the same including runs in which a retry loop of the MODEL runs out of fuel (8 attempts; the Go loops are
    unbounded): such a call answers [OFuel] and has changed nothing *)
Theorem C02_redis_linearizable_fuel : forall now clk tr z,
  zrun rk_prog now clk z_init tr = Some z -> Forall (label_ok now) tr -> zquiescent z ->
  linearizable kvf_acc_fuel (finit, now) (z_done z).
Proof. exact redis_linearizable_fuel. Qed.
Print Assumptions C02_redis_linearizable_fuel.

(** PutMany with an expiring record is outside [op_ok]: in the Go code and in the model it is a loop of Put calls --
    per-key effects only.  After the NewID calls of the abandoned MSET preparation its program IS the chain of
    the Put programs of its records (each of which, as a call of its own, is covered by the theorem above) *)
Theorem C02_putmany_is_puts : forall pre k v x suf nx,
  Forall (fun r : key * value * option Z => snd r = None) pre ->
  burn (length pre) nx (rk_putmany (pre ++ (k, v, Some x) :: suf)) = puts_prog (pre ++ (k, v, Some x) :: suf).
Proof. exact putmany_is_puts. Qed.
Print Assumptions C02_putmany_is_puts.

Example C02_ex_puts_prog : forall k v e t,
  puts_prog ((k, v, e) :: t) = put_prog k v e (fun _ => puts_prog t) /\ rk_put k v e = put_prog k v e (fun r => Ret (ORec r)).
Proof. intros. split; reflexivity. Qed.

(** the heart of CasByVersion: whatever another connection [c] does, connection [t] either still finds the
    entry its GET returned under the key it WATCHes, or is marked -- so an EXEC that is not refused replaces
    exactly the record whose version was compared *)
Theorem C02_redis_cas_atomic : forall t clk c x sv, c <> t ->
  forall key,
    (guard0 t key sv -> guard0 t key (fst (srv_cmd clk c x sv))) /\
    (forall ent, guard t key ent sv -> guard t key ent (fst (srv_cmd clk c x sv))).
Proof. exact frame_cmd. Qed.
Print Assumptions C02_redis_cas_atomic.

Example C02_ex_guard : forall t key ent sv,
  (guard0 t key sv <-> conn_dirty t (watches sv) = true \/ watching t key (watches sv)) /\
  (guard t key ent sv <->
     conn_dirty t (watches sv) = true \/ (watching t key (watches sv) /\ s_lookup key (store sv) = ent)).
Proof. intros. split; reflexivity. Qed.

(** a quiescence test that can be computed *)
Theorem C02_zquiet_ok : forall prog_of now clk tr z, zrun prog_of now clk z_init tr = Some z ->
  zquiet tr z = true -> zquiescent z.
Proof. exact zquiet_ok. Qed.
Print Assumptions C02_zquiet_ok.

(** non-vacuity: the race of defect D8a on the FIXED program -- the loser's EXEC is refused, it tries again and
    reports ErrConflict *)
Definition C02_ex_race : list rlabel :=
  solo 0 (Create C02_ka [] None) 2 ++
  [LInv 1 (CasByVersion C02_ka [1%N] None 1); LInv 2 (CasByVersion C02_ka [2%N] None 1); LBegin 1; LBegin 2;
   LStep 1; LStep 2; LStep 1; LStep 2; LStep 1; LStep 2; LStep 1; LStep 2; LStep 1; LStep 2;
   LRet 1; LStep 2; LStep 2; LStep 2; LRet 2].

Example C02_ex_redis_race : exists z,
  zrun rk_prog 0 0 z_init C02_ex_race = Some z /\ Forall (label_ok 0) C02_ex_race /\ zquiescent z /\
  (forall x, In x (z_done z) -> o_res x <> OFuel) /\
  z_done z = [mkOpr 1 5 (Create C02_ka [] None) (OVer 1);
              mkOpr 6 20 (CasByVersion C02_ka [1%N] None 1) (ORec (C02_ka, [1%N], 2, None));
              mkOpr 7 24 (CasByVersion C02_ka [2%N] None 1) OConflict].
Proof.
  assert (H : option_map (fun z => (z_done z, zquiet C02_ex_race z)) (zrun rk_prog 0 0 z_init C02_ex_race)
              = Some ([mkOpr 1 5 (Create C02_ka [] None) (OVer 1);
                       mkOpr 6 20 (CasByVersion C02_ka [1%N] None 1) (ORec (C02_ka, [1%N], 2, None));
                       mkOpr 7 24 (CasByVersion C02_ka [2%N] None 1) OConflict], true))
    by (vm_compute; reflexivity).
  destruct (option_map_some _ _ _ H) as [z [E Hz]]. injection Hz as Hd Hq.
  exists z. split; [exact E|]. split; [|split; [eapply zquiet_ok; eauto|split; [|exact Hd]]].
  - unfold C02_ex_race, solo. cbn [app repeat]. repeat constructor.
  - rewrite Hd. intros x [<-|[<-|[<-|[]]]]; discriminate.
Qed.

(** * 3. What every sequential history of the contract satisfies -- hence every linearizable concurrent one *)

(** the invariant of contract states: one record per key, stored versions were handed out, none stored twice *)
Theorem C02_finv_legal : forall l st stf, finv (fst st) -> legal kvf_acc st l stf -> finv (fst stf).
Proof. exact finv_legal. Qed.
Print Assumptions C02_finv_legal.

Example C02_ex_finv : finv finit.
Proof. exact finv_init. Qed.

Theorem C02_loser_changes_nothing : forall st o r st',
  kvf_acc st o r st' -> failing r = true -> fst st' = fst st.
Proof. exact loser_changes_nothing. Qed.
Print Assumptions C02_loser_changes_nothing.

Example C02_ex_failing : forall r, failing r = true <-> (exists n, r = OExist n) \/ r = OConflict \/ r = ONotExist.
Proof.
  intros r. split.
  - destruct r; try discriminate; eauto.
  - intros [[n ->]|[->| ->]]; reflexivity.
Qed.

Theorem C02_loser_outcome_documented : forall st o r st', kvf_acc st o r st' ->
  match o with
  | Create k v e =>
      (exists n, r = OVer n /\ ffind (snd st') k (fst st) = None /\ ~ In n (fused (fst st))) \/
      (exists rc, r = OExist (ver rc) /\ ffind (snd st') k (fst st) = Some rc)
  | CasByVersion k v e x =>
      (r = ONotExist /\ ffind (snd st') k (fst st) = None) \/
      (r = OConflict /\ exists rc, ffind (snd st') k (fst st) = Some rc /\ ver rc <> x) \/
      (exists n, r = ORec (k, v, n, e) /\ ~ In n (fused (fst st)) /\
                 exists rc, ffind (snd st') k (fst st) = Some rc /\ ver rc = x)
  | _ => True
  end.
Proof. exact loser_outcome_documented. Qed.
Print Assumptions C02_loser_outcome_documented.

Theorem C02_fresh_versions : forall st o r st' n, kvf_acc st o r st' -> In n (new_versions o r) ->
  ~ In n (fused (fst st)) /\ In n (fused (fst st')).
Proof. exact fresh_versions. Qed.
Print Assumptions C02_fresh_versions.

(** handed out once, handed out for ever *)
Theorem C02_fused_grows : forall st o r st' n, kvf_acc st o r st' -> In n (fused (fst st)) -> In n (fused (fst st')).
Proof. exact fused_acc. Qed.
Print Assumptions C02_fused_grows.

Theorem C02_writes_change_version : forall st o r st' k rc, finv (fst st) -> kvf_acc st o r st' ->
  In (k, rc) (frecs (fst st')) -> In (k, rc) (frecs (fst st)) \/ ~ In (ver rc) (fused (fst st)).
Proof. exact writes_change_version. Qed.
Print Assumptions C02_writes_change_version.

Theorem C02_cas_once_per_version : forall l1 x l2 st stf n, finv (fst st) ->
  legal kvf_acc st (l1 ++ x :: l2) stf -> cas_ok n x = true -> forall y, In y l2 -> cas_ok n y = false.
Proof. exact cas_once_per_version. Qed.
Print Assumptions C02_cas_once_per_version.

Theorem C02_concurrent_cas_once : forall st h n, finv (fst st) -> linearizable kvf_acc st h ->
  length (filter (cas_ok n) h) <= 1.
Proof. exact concurrent_cas_once. Qed.
Print Assumptions C02_concurrent_cas_once.

Theorem C02_redis_cas_once : forall now clk tr z n,
  zrun rk_prog now clk z_init tr = Some z -> Forall (label_ok now) tr -> zquiescent z ->
  (forall x, In x (z_done z) -> o_res x <> OFuel) ->
  length (filter (cas_ok n) (z_done z)) <= 1.
Proof. exact redis_cas_once. Qed.
Print Assumptions C02_redis_cas_once.

Theorem C02_single_create_winner : forall l st stf k, legal kvf_acc st l stf ->
  ffind (snd st) k (fst st) = None ->
  (forall x, In x l -> race_ok k (snd stf) x) ->
  creates k l = [] \/
  exists n c rest, creates k l = c :: rest /\ o_res c = OVer n /\ ~ In n (fused (fst st)) /\
                   forall y, In y rest -> o_res y = OExist n.
Proof. exact single_create_winner. Qed.
Print Assumptions C02_single_create_winner.

Theorem C02_concurrent_single_create_winner : forall st h k, linearizable kvf_acc st h ->
  ffind (snd st) k (fst st) = None -> h <> [] ->
  (forall x, In x h -> exists v, o_op x = Create k v None) ->
  exists n c rest, Permutation (c :: rest) h /\ o_res c = OVer n /\ forall y, In y rest -> o_res y = OExist n.
Proof. exact concurrent_single_create_winner. Qed.
Print Assumptions C02_concurrent_single_create_winner.

(** non-vacuity of the sequential statements: Create wins, Create loses, CAS wins, the same CAS loses *)
Definition C02_ex_seq : list (opr op out) :=
  [mkOpr 1 2 (Create C02_ka [] None) (OVer 7);
   mkOpr 3 4 (Create C02_ka [120%N] None) (OExist 7);
   mkOpr 5 6 (CasByVersion C02_ka [120%N] None 7) (ORec (C02_ka, [120%N], 3, None));
   mkOpr 7 8 (CasByVersion C02_ka [] None 7) OConflict].

Example C02_ex_seq_legal : exists sf, legal kvf_acc (finit, 0%Z) C02_ex_seq sf /\
  cas_ok 7 (mkOpr 5 6 (CasByVersion C02_ka [120%N] None 7) (ORec (C02_ka, [120%N], 3, None))) = true /\
  race_ok C02_ka 0 (mkOpr 1 2 (Create C02_ka [] None) (OVer 7)).
Proof.
  eexists. split; [|split; [reflexivity|left; split; [reflexivity|exact I]]].
  unfold C02_ex_seq.
  eapply legal_cons with (s' := (_, 0%Z)).
  { split; [cbn; lia|]. exists [7]. split; [|reflexivity].
    split; [reflexivity|]. split; [repeat constructor; intros []|intros n _ []]. }
  eapply legal_cons with (s' := (_, 0%Z)).
  { split; [cbn; lia|]. exists [8]. split; [|reflexivity].
    split; [reflexivity|]. split; [repeat constructor; intros []|]. cbn. intros n [<-|[]] [E|[]]. discriminate. }
  eapply legal_cons with (s' := (_, 0%Z)).
  { split; [cbn; lia|]. exists [3]. split; [|reflexivity].
    split; [reflexivity|]. split; [repeat constructor; intros []|]. cbn. intros n [<-|[]] [E|[]]. discriminate. }
  eapply legal_cons with (s' := (_, 0%Z)).
  { split; [cbn; lia|]. exists [9]. split; [|reflexivity].
    split; [reflexivity|]. split; [repeat constructor; intros []|]. cbn. intros n [<-|[]] [E|[E|[]]]; discriminate. }
  apply legal_nil.
Qed.

(** * 4. The correspondence check is sound *)

(** a witness accepted by [Run_C02.check_case] proves that the recorded history is linearizable w.r.t. the
    contract [KV.step] read through the version bijection of run/KVRun.v (which rejects a re-used version
    string): the search that proposes the witness needs no trust *)
Theorem C02_witness_check_sound : forall c, check_case c = true ->
  linearizable (fun sb o r sb' => chk_kv sb o r = Some sb') (init, []) (k_hist c).
Proof. intros c. unfold check_case. apply valid_lin_sound. auto. Qed.
Print Assumptions C02_witness_check_sound.

Example C02_ex_check_case :
  check_case (mkCase 1 [mkHop 1 4 (Create C02_ka [] None) (OVer 1); mkHop 2 3 (Create C02_ka [] None) (OExist 1)] [0; 1]) = true /\
  check_case (mkCase 2 [mkHop 1 4 (Create C02_ka [] None) (OVer 1); mkHop 2 3 (Create C02_ka [] None) (OVer 2)] [0; 1]) = false /\
  check_case (mkCase 3 [mkHop 1 2 (Put C02_ka [] None) (ORec (C02_ka, [], 1, None));
                        mkHop 3 4 (Put C02_ka [] None) (ORec (C02_ka, [], 1, None))] [0; 1]) = false.
Proof. vm_compute. repeat split; reflexivity. Qed.

(** * 5. The pinned tree before the fixes *)

(** D8a: a CasByVersion that loses the race reports "redis: transaction failed" *)
Theorem C02_legacy_redis_cas_txfailed_refuted :
  exists tr z, zrun (rk_prog_legacy 0) 0 0 z_init tr = Some z /\ zquiet tr z = true /\
    In (mkOpr 7 21 (CasByVersion ka [2%N] None 1) OOther) (z_done z) /\
    ~ linearizable kvf_acc (finit, 0%Z) (z_done z).
Proof. exact legacy_redis_cas_txfailed_refuted. Qed.
Print Assumptions C02_legacy_redis_cas_txfailed_refuted.

(** D8b: PutMany without expirations keeps the caller's version: a write that nobody can detect *)
Theorem C02_legacy_redis_putmany_version_refuted :
  exists tr z, zrun (rk_prog_legacy 0) 0 0 z_init tr = Some z /\ zquiet tr z = true /\
    z_done z = d8b_history /\
    ~ linearizable kvf_acc (finit, 0%Z) (z_done z).
Proof. exact legacy_redis_putmany_version_refuted. Qed.
Print Assumptions C02_legacy_redis_putmany_version_refuted.

Example C02_ex_d8b_history : d8b_history =
  [mkOpr 1 4 (PutMany [(ka, [120%N], None)]) OOk;
   mkOpr 5 8 (Get ka) (ORec (ka, [120%N], 0, None));
   mkOpr 9 12 (PutMany [(ka, [], None)]) OOk;
   mkOpr 13 16 (Get ka) (ORec (ka, [], 0, None))].
Proof. reflexivity. Qed.
