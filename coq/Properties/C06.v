(** C06: an expired record is indistinguishable from a deleted one; a record that
    has not expired is never dropped.

    contract: spec/KV.v (virtual expiry: a record with [exp < now] is absent for [find])
    models:   model/InmemKV.v (lazy expiry: the map keeps the record until some method's get()
              drops it), model/RedisKV.v over model/RedisSrv.v (TTL on the server),
              model/legacy/InmemKVLegacy.v (the store before fix 2f2d445)
    proofs:   proofs/C06_Expiry.v, C03_KV.v, C03_Inmem.v, C06_Lazy.v, C03_Redis.v

    [exp_passed s now k]: the state holds a record for [k] whose expiration time is before [now].
    [del k s]: the state with that record removed.  [purge now]: drop every expired record. *)
From Coq Require Import List ZArith NArith Arith Bool Lia.
From GL Require Import spec.KV model.InmemKV model.RedisSrv model.RedisKV model.legacy.InmemKVLegacy
  proofs.C03_KV proofs.C06_Expiry proofs.C03_Inmem proofs.C06_Lazy proofs.C03_Redis.
Import ListNotations.

(** * On the contract *)

(** For EVERY operation (all eight kinds, any arguments): the result is the same whether the
    expired record is still there or was deleted, and the successor states are equal once expired
    records are dropped (same version counter, too). *)
Theorem C06_expired_eq_deleted : forall s now k, wf s -> exp_passed s now k -> forall o,
  snd (step s now o) = snd (step (del k s) now o) /\
  purge now (recs (fst (step s now o))) = purge now (recs (fst (step (del k s) now o))) /\
  next (fst (step s now o)) = next (fst (step (del k s) now o)).
Proof. exact expired_eq_deleted. Qed.
Print Assumptions C06_expired_eq_deleted.

(** ... and for every later history (clock not running backwards) *)
Theorem C06_expired_eq_deleted_forever : forall s now k ops, wf s -> exp_passed s now k -> mono now ops ->
  fst (run s ops) = fst (run (del k s) ops).
Proof. exact expired_eq_deleted_forever. Qed.
Print Assumptions C06_expired_eq_deleted_forever.

(** more generally the contract cannot tell apart two states that are equal after dropping the
    expired records *)
Theorem C06_step_veq : forall now s1 s2 o, wf s1 -> wf s2 -> veq now s1 s2 ->
  snd (step s1 now o) = snd (step s2 now o) /\ veq now (fst (step s1 now o)) (fst (step s2 now o)).
Proof. exact step_veq. Qed.
Print Assumptions C06_step_veq.

(** spelled out per operation kind, as the property lists them *)
Theorem C06_expired_key_outcomes : forall s now k, exp_passed s now k ->
  (forall v e, snd (step s now (Create k v e)) = OVer (next s)) /\
  snd (step s now (Get k)) = ONotExist /\
  (forall v e n, snd (step s now (CasByVersion k v e n)) = ONotExist) /\
  snd (step s now (Delete k)) = ONotExist /\
  (forall p, exists ks, snd (step s now (ListKeys p)) = OKeys ks /\ (wf s -> ~ In k ks)) /\
  (forall ks, exists rs, snd (step s now (GetMany ks)) = ORecs rs /\
                         forall i, nth_error ks i = Some k -> nth_error rs i = Some None) /\
  (forall v, wait_now s now k v = Some ONotExist).
Proof. exact expired_key_outcomes. Qed.
Print Assumptions C06_expired_key_outcomes.

Theorem C06_wait_on_expired_notexist : forall s now k v, exp_passed s now k ->
  wait_now s now k v = Some ONotExist /\ wait_now (del k s) now k v = Some ONotExist.
Proof. exact wait_on_expired_notexist. Qed.
Print Assumptions C06_wait_on_expired_notexist.

(** A record whose expiration lies in the future, or that has none, is never dropped: an operation
    that does not name the key leaves its record alone; reading changes nothing at all; a failing
    operation changes nothing; and the record stays visible up to and including its ExpiresAt. *)
Theorem C06_unexpired_never_dropped : forall s now o,
  (forall k, touches o k = false -> lookup k (recs (fst (step s now o))) = lookup k (recs s)) /\
  (read_only o = true -> fst (step s now o) = s) /\
  (match snd (step s now o) with OExist _ | ONotExist | OConflict => fst (step s now o) = s | _ => True end).
Proof. exact unexpired_never_dropped. Qed.
Print Assumptions C06_unexpired_never_dropped.

Theorem C06_live_record_visible : forall s now k r,
  lookup k (recs s) = Some r ->
  (match exp r with Some t => (now <= t)%Z | None => True end) ->
  find now k s = Some r.
Proof. exact live_record_visible. Qed.
Print Assumptions C06_live_record_visible.

(** ** example: a holds a record that expired at 5, b one that expires at 100, c one that never does *)
Definition C06_a : key := [97%N].
Definition C06_b : key := [98%N].
Definition C06_c : key := [99%N].
Definition C06_x : value := [120%N].
Definition C06_ex_hist : list (Z * op) :=
  [(0, Put C06_a C06_x (Some 5)); (1, Put C06_b C06_x (Some 100)); (2, Put C06_c C06_x None)]%Z.
Definition C06_ex_s : state := snd (run init C06_ex_hist).

Example C06_ex_state :
  wf C06_ex_s /\ exp_passed C06_ex_s 10 C06_a /\ ~ exp_passed C06_ex_s 5 C06_a /\
  ~ exp_passed C06_ex_s 10 C06_b /\ ~ exp_passed C06_ex_s 10 C06_c /\
  del C06_a C06_ex_s <> C06_ex_s.
Proof.
  split; [exact (proj1 (run_wf_fresh C06_ex_hist init wf_init fresh_init))|].
  split; [eexists; split; vm_compute; reflexivity|].
  repeat split; try (intros [r [Hl Hx]]; vm_compute in Hl; injection Hl as <-; vm_compute in Hx; discriminate).
  vm_compute. discriminate.
Qed.

(* every operation kind as the first one to touch the expired key: with the record and without *)
Example C06_ex_first_toucher :
  map (fun o => snd (step C06_ex_s 10 o))
    [Create C06_a [] None; Get C06_a; GetMany [C06_b; C06_a]; Put C06_a [] None; PutMany [(C06_a, [], None)];
     CasByVersion C06_a [] None 1; Delete C06_a; ListKeys [42%N]]
  = [OVer 4; ONotExist; ORecs [Some (C06_b, C06_x, 2, Some 100%Z); None]; ORec (C06_a, [], 4, None); OOk;
     ONotExist; ONotExist; OKeys [C06_b; C06_c]] /\
  map (fun o => snd (step (del C06_a C06_ex_s) 10 o))
    [Create C06_a [] None; Get C06_a; GetMany [C06_b; C06_a]; Put C06_a [] None; PutMany [(C06_a, [], None)];
     CasByVersion C06_a [] None 1; Delete C06_a; ListKeys [42%N]]
  = [OVer 4; ONotExist; ORecs [Some (C06_b, C06_x, 2, Some 100%Z); None]; ORec (C06_a, [], 4, None); OOk;
     ONotExist; ONotExist; OKeys [C06_b; C06_c]] /\
  wait_now C06_ex_s 10 C06_a 1 = Some ONotExist /\
  (* b is alive at its very expiration instant, gone right after; c never goes *)
  find 100 C06_b C06_ex_s <> None /\ find 101 C06_b C06_ex_s = None /\ find 1000000000000000000 C06_c C06_ex_s <> None.
Proof. vm_compute. repeat split; try reflexivity; discriminate. Qed.

(** * On the in-memory store: lazy expiry IS virtual expiry *)

(** whichever method meets the expired record first, at whatever later instant, in every history:
    the results are those of the contract (same statement as C03_inmem_refines_kv) *)
Theorem C06_lazy_expiry_is_virtual : forall ops t0, mono t0 ops ->
  fst (im_run im_new ops) = fst (run init ops).
Proof. exact inmem_refines_kv. Qed.
Print Assumptions C06_lazy_expiry_is_virtual.

(** the map with an expired record still in it behaves, from then on, like the map without it *)
Theorem C06_im_expired_eq_deleted : forall t im k ops, im_reachable t im -> im_exp_passed im t k -> mono t ops ->
  fst (im_run im ops) = fst (im_run (im_del k im) ops).
Proof. exact im_expired_eq_deleted. Qed.
Print Assumptions C06_im_expired_eq_deleted.

Theorem C06_im_expired_eq_deleted_step : forall t im k o, im_reachable t im -> im_exp_passed im t k ->
  snd (im_step im t o) = snd (im_step (im_del k im) t o).
Proof. exact im_expired_eq_deleted_step. Qed.
Print Assumptions C06_im_expired_eq_deleted_step.

(** the lazy check never drops a record that has not expired, whichever method runs *)
Theorem C06_im_unexpired_never_dropped : forall im t o k r,
  lookup k (m im) = Some r -> expired t r = false -> touches o k = false ->
  lookup k (m (fst (im_step im t o))) = Some r.
Proof. exact im_unexpired_never_dropped. Qed.
Print Assumptions C06_im_unexpired_never_dropped.

(** WaitForVersionChange's locked check answers like the contract, and ErrNotExist on an expired record *)
Theorem C06_im_wait_check : forall t sp im k v, sim t sp im ->
  snd (im_wait_check t k v im) = wait_now sp t k v /\ sim t sp (fst (im_wait_check t k v im)).
Proof. exact im_wait_sim. Qed.
Print Assumptions C06_im_wait_check.

Theorem C06_im_wait_on_expired_notexist : forall t im k v, im_exp_passed im t k ->
  snd (im_wait_check t k v im) = Some ONotExist.
Proof. exact im_wait_on_expired_notexist. Qed.
Print Assumptions C06_im_wait_on_expired_notexist.

Definition C06_ex_im : imem := snd (im_run im_new C06_ex_hist).

Example C06_ex_im_state :
  im_reachable 2 C06_ex_im /\ im_exp_passed C06_ex_im 10 C06_a /\ sim 2 C06_ex_s C06_ex_im /\
  length (m C06_ex_im) = 3 /\ length (m (im_del C06_a C06_ex_im)) = 2 /\
  (* a ListKeys at 10 drops the expired record from the map, and only that one *)
  map fst (m (fst (im_step C06_ex_im 10 (ListKeys [42%N])))) = [C06_b; C06_c].
Proof.
  split; [exists C06_ex_hist, 0%Z; split; [cbn; lia|split; reflexivity]|].
  split; [eexists; split; vm_compute; reflexivity|].
  assert (M : mono 0 C06_ex_hist) by (cbn; lia).
  split; [exact (im_run_sim_state C06_ex_hist 0 init im_new (sim_init 0) M)|].
  vm_compute. repeat split; reflexivity.
Qed.

(** * On the Redis client: the TTL handed to the server is virtual expiry *)

(** outside the 1 ms minimum-TTL window of [expiration()] (premise [redis_ok]) the client's results
    are the contract's for every history, so everything above about the contract holds of it
    (same statement as C03_redis_refines_kv; the expiry of keys itself happens in the server, which
    is modelled -- model/RedisSrv.v [dead] -- not verified) *)
Theorem C06_redis_ttl_is_virtual_expiry : forall ops t0, redis_ok t0 init ops ->
  exists g, g 0 = 0 /\ inj_below g (next (snd (run init ops))) /\
    fst (rk_run_sync rk_new (map (fun no => (fst no, ren_op g (snd no))) ops)) =
    map (ren_out g) (fst (run init ops)).
Proof. exact redis_refines_kv. Qed.
Print Assumptions C06_redis_ttl_is_virtual_expiry.

(** the server deadline computed from [expiration()] gives the verdict of the contract at every
    instant from [floor_after now e] on *)
Theorem C06_redis_deadline_ok : forall now e,
  dl_ok (floor_after now e) e (deadline now (expiration e now)).
Proof. exact dl_ok_write. Qed.
Print Assumptions C06_redis_deadline_ok.

Example C06_ex_redis :
  let ops := [(0, Put C06_a C06_x (Some 5000000)); (1, Put C06_b C06_x (Some 100000000)); (2, Put C06_c C06_x None);
              (10000000, Create C06_a [] None); (10000001, ListKeys [42%N]); (100000001, Get C06_b);
              (100000002, Delete C06_b); (100000003, Get C06_c)]%Z in
  redis_ok 0 init ops /\
  fst (rk_run_sync rk_new ops) = fst (run init ops) /\
  fst (run init ops) = [ORec (C06_a, C06_x, 1, Some 5000000%Z); ORec (C06_b, C06_x, 2, Some 100000000%Z);
                        ORec (C06_c, C06_x, 3, None); OVer 4; OKeys [C06_b; C06_c; C06_a]; ONotExist; ONotExist;
                        ORec (C06_c, C06_x, 3, None)].
Proof.
  cbn zeta. split; [|split; vm_compute; reflexivity].
  cbn [redis_ok op_clean cas_issued]. unfold clean, pat_ok, clean.
  repeat match goal with |- _ /\ _ => split end; try exact I; try reflexivity; vm_compute; discriminate.
Qed.

(** * The defect the first run of this check found (D6), on the transcription of the old code *)
Theorem C06_legacy_inmem_expiry_refuted :
  (mono 0 [d6_w; (10%Z, Create d6_a [] None)] /\
   fst (leg_run im_new [d6_w; (10%Z, Create d6_a [] None)]) = [ORec (d6_a, [120%N], 1, Some 5%Z); OExist 1] /\
   fst (run init [d6_w; (10%Z, Create d6_a [] None)]) = [ORec (d6_a, [120%N], 1, Some 5%Z); OVer 2]) /\
  (fst (leg_run im_new [d6_w; (10%Z, ListKeys [42%N])]) = [ORec (d6_a, [120%N], 1, Some 5%Z); OKeys [d6_a]] /\
   fst (run init [d6_w; (10%Z, ListKeys [42%N])]) = [ORec (d6_a, [120%N], 1, Some 5%Z); OKeys []]) /\
  (fst (leg_run im_new [d6_w; (10%Z, Delete d6_a)]) = [ORec (d6_a, [120%N], 1, Some 5%Z); OOk] /\
   fst (run init [d6_w; (10%Z, Delete d6_a)]) = [ORec (d6_a, [120%N], 1, Some 5%Z); ONotExist]) /\
  (snd (leg_wait_check d6_a 1 (snd (leg_run im_new [d6_w]))) = None /\
   wait_now (snd (run init [d6_w])) 10 d6_a 1 = Some ONotExist /\
   snd (im_wait_check 10 d6_a 1 (snd (im_run im_new [d6_w]))) = Some ONotExist) /\
  (exists ops, mono 0 ops /\ fst (leg_run im_new ops) <> fst (run init ops)) /\
  (exists im k o, im_reachable 10 im /\ im_exp_passed im 10 k /\
     snd (leg_step im 10 o) <> snd (leg_step (im_del k im) 10 o)).
Proof. exact legacy_inmem_expiry_refuted. Qed.
Print Assumptions C06_legacy_inmem_expiry_refuted.
