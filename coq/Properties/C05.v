(** C05: the lease of the distributed lock (kvs/distlock/kvlock.go) is kept while the
    lock is held and lapses after the holder died; after Unlock the renewal dies out.
    Model: model/LeaseLTS.v (timed LTS of one tenure and its contenders; pre-fix
    renewal: model/legacy/LeaseLegacy.v), vocabulary: spec/Lease.v,
    proofs: proofs/C05_Lease.v, C05_Release.v, C05_Witness.v.

    Timing assumptions are hypotheses, never axioms:
      [timely TTL dl ep init tr]  every clock advance of the trace respects: a due
          renewal of the live holder has its callback started and its call at the
          storage within [dl] of being due; a Create/CAS call of the live holder is
          answered and the answer processed (future armed) within [ep] of being issued;
      [faults_ok TTL k init tr]   the only faults are lost REQUESTS of renewal calls, at
          most [k] in a row (no lost reply, Delete unfaulted);
      [lease_premise TTL dl ep k] 0 < TTL, 0 <= dl, ep, k and
          TTL/2 + k * (TTL/10) + (k+1) * (dl + ep) < TTL
      (for k = 0 this is TTL/2 + dl + ep < TTL, i.e. dl + ep < TTL - TTL/2). *)
From Coq Require Import List ZArith Bool Lia.
From GL Require Import model.LeaseLTS model.legacy.LeaseLegacy spec.Lease.
From GL Require Import proofs.C05_Lease proofs.C05_Release proofs.C05_Witness.
Import ListNotations.
Open Scope Z_scope.

(** * Lease kept while held -- holds of any length, any number of renewals *)

Theorem C05_lease_kept : forall (TTL dl ep k : Z) (tr1 tr2 : list label) (s1 : state),
  lease_premise TTL dl ep k ->
  timely TTL dl ep init (tr1 ++ tr2) = true ->
  faults_ok TTL k init (tr1 ++ tr2) = true ->
  run TTL init tr1 = Some s1 ->
  alive s1 = true ->
  exists r, rec s1 = Some r /\ r_owner r = 0 /\ now s1 < r_exp r.
Proof. exact lease_kept. Qed.
Print Assumptions C05_lease_kept.

(* consequently: a contender's Create is refused, the storage does not drop the record,
   a sample of the record shows the holder's record *)
Theorem C05_lease_kept_excludes : forall (TTL dl ep k : Z) (tr : list label) (s : state) (n : Z),
  lease_premise TTL dl ep k ->
  timely TTL dl ep init tr = true ->
  faults_ok TTL k init tr = true ->
  run TTL init tr = Some s ->
  alive s = true ->
  (forall e, step TTL s (ContenderTry n e) = (if 0 <? n then Some (s, RExist) else None)) /\
  step TTL s Expire = None /\
  exists r, step TTL s Probe = Some (s, RRec (r_ver r) (r_exp r)) /\ r_owner r = 0.
Proof. exact lease_kept_excludes. Qed.
Print Assumptions C05_lease_kept_excludes.

Theorem C05_renewal_survives_transient : forall (TTL dl ep k : Z) (tr : list label) (s : state),
  lease_premise TTL dl ep k ->
  timely TTL dl ep init tr = true ->
  faults_ok TTL k init tr = true ->
  run TTL init tr = Some s ->
  hs s = HHeld ->
  (forall i due, tst s = TFired i due ->
     exists s', step TTL s (StCas FOk) = Some (s', RCasOk (nextv s)) /\
       rec s' = Some (mkRec (nextv s) (i + TTL) 0) /\ tst s' = TApplied i (nextv s) /\
       fails s' = 0 /\ hs s' = HHeld) /\
  (forall i, tst s = TLost i ->
     exists s', step TTL s RetryArm = Some (s', RNone) /\
       tst s' = TArmed (now s) (tenth TTL) /\ tver s' = tver s /\ rec s' = rec s).
Proof. exact renewal_survives_transient. Qed.
Print Assumptions C05_renewal_survives_transient.

(** non-vacuity: TTL = 1000, lateness <= 5, latency <= 5. With k = 4 the premise reads
    500 + 400 + 5 * 10 = 950 < 1000. The run below holds the lock through a normal
    renewal, then FOUR lost requests in a row, then the successful retry (applied at
    1432, 73 before the record runs out at 1505), with a contender and a sample. *)
Definition C05_ex_trace : list label :=
  [Acquire; Tick 2; StCreate; Tick 2; AcqArm;           (* armed at 4, record until 1000 *)
   Tick 300; ContenderTry 1 1304; Tick 201; TimerFire; Tick 1; StCas FOk; Tick 1; Rearm;
                                                          (* fired at 505: record until 1505, armed at 507 *)
   Tick 504; TimerFire; StCas FReqLost; Tick 1; RetryArm; (* fired at 1011 *)
   Tick 104; TimerFire; StCas FReqLost; Tick 1; RetryArm;
   Tick 104; TimerFire; StCas FReqLost; Tick 1; RetryArm;
   Tick 104; TimerFire; StCas FReqLost; Tick 1; RetryArm;
   Tick 104; Probe; TimerFire; Tick 1; StCas FOk].

Example C05_ex_premise : lease_premise 1000 5 5 4.
Proof. unfold lease_premise, half, tenth. cbn. lia. Qed.

Example C05_ex_hypotheses :
  timely 1000 5 5 init C05_ex_trace = true /\
  faults_ok 1000 4 init C05_ex_trace = true /\
  (exists s, run 1000 init C05_ex_trace = Some s /\ alive s = true /\ now s = 1432 /\
             rec s = Some (mkRec 3 2431 0)) /\
  run_res 1000 init C05_ex_trace =
  Some [RNone; RNone; RCreated 1; RNone; RNone;
        RNone; RExist; RNone; RNone; RNone; RCasOk 2; RNone; RNone;
        RNone; RNone; RErr; RNone; RNone;
        RNone; RNone; RErr; RNone; RNone;
        RNone; RNone; RErr; RNone; RNone;
        RNone; RNone; RErr; RNone; RNone;
        RNone; RRec 2 1505; RNone; RNone; RCasOk 3].
Proof.
  split; [vm_compute; reflexivity|]. split; [vm_compute; reflexivity|].
  split; [eexists; split; [vm_compute; reflexivity|]; repeat split|]; vm_compute; reflexivity.
Qed.

Example C05_ex_lease_kept_instance : forall s1,
  run 1000 init (firstn 33 C05_ex_trace) = Some s1 -> alive s1 = true ->
  exists r, rec s1 = Some r /\ r_owner r = 0 /\ now s1 < r_exp r.
Proof.
  intros s1 Hrun Hal.
  apply (C05_lease_kept 1000 5 5 4 (firstn 33 C05_ex_trace) (skipn 33 C05_ex_trace) s1 C05_ex_premise);
    try assumption; rewrite firstn_skipn; apply C05_ex_hypotheses.
Qed.

(* with TTL = 1000 no latency bound lets five lost requests in a row be survived:
   500 + 5 * 100 = 1000 *)
Example C05_ex_five_losses_too_many : forall dl ep, ~ lease_premise 1000 dl ep 5.
Proof.
  intros dl ep (H1 & H2 & H3 & H4 & H5).
  change (half 1000) with 500 in H5. change (tenth 1000) with 100 in H5. lia.
Qed.

(* and the premise cannot simply be dropped: a fault-free run that is timely for
   dl + ep = 600 >= TTL/2 in which the record of the live holder has run out *)
Example C05_ex_premise_needed :
  exists s, run 1000 init [Acquire; StCreate; Tick 300; AcqArm; Tick 800] = Some s /\
    timely 1000 300 300 init [Acquire; StCreate; Tick 300; AcqArm; Tick 800] = true /\
    faults_ok 1000 0 init [Acquire; StCreate; Tick 300; AcqArm; Tick 800] = true /\
    alive s = true /\ lease_ok s = false /\ present s = None.
Proof. eexists. repeat split; vm_compute; reflexivity. Qed.

(** * Defect D9 (fixed) and the open finding *)

(* the code before the fix: ONE lost request, timely run, the record of the live holder
   has run out and a contender's Create succeeds *)
Theorem C05_legacy_renewal_dies_refuted :
  exists TTL dl ep k tr s,
    lease_premise TTL dl ep k /\
    run_legacy TTL init tr = Some s /\
    timely_legacy TTL dl ep init tr = true /\
    faults_ok_legacy TTL k init tr = true /\
    filter faulty tr = [StCas FReqLost] /\
    alive s = true /\ present s = None /\ lease_ok s = false /\
    exists s', step_legacy TTL s (ContenderTry 1 (now s + TTL)) = Some (s', RCreated (nextv s)).
Proof. exact legacy_renewal_dies_refuted. Qed.
Print Assumptions C05_legacy_renewal_dies_refuted.

(* the current code, known finding D9-reply-lost-renewal: one renewal whose reply is lost *)
Theorem C05_reply_lost_renewal_breaks_lease :
  exists TTL dl ep tr s rs,
    lease_premise TTL dl ep 0 /\
    run TTL init tr = Some s /\
    run_res TTL init tr = Some rs /\
    timely TTL dl ep init tr = true /\
    filter faulty tr = [StCas FReplyLost] /\
    In RConflict rs /\ tst s = TDone /\
    alive s = true /\ present s = None /\ lease_ok s = false /\
    exists s', step TTL s (ContenderTry 1 (now s + TTL)) = Some (s', RCreated (nextv s)).
Proof. exact reply_lost_renewal_breaks_lease. Qed.
Print Assumptions C05_reply_lost_renewal_breaks_lease.

Example C05_ex_witnesses :
  run_legacy 1000 init legacy_trace <> None /\ run 1000 init reply_lost_trace <> None /\
  run_res 1000 init reply_lost_trace =
  Some [RNone; RCreated 1; RNone; RNone; RNone; RErr; RNone; RNone; RNone; RConflict; RNone].
Proof. repeat split; vm_compute; congruence. Qed.

(** * A dead holder's record lapses within one lease period *)

Theorem C05_dead_holder_released : forall (TTL : Z) (tr : list label) (s : state) (d : Z),
  run TTL init tr = Some s ->
  hs s = HDead d ->
  d + TTL < now s ->
  holder_rec_absent s = true /\
  (forall n e, 0 < n -> present s = None ->
     exists s', step TTL s (ContenderTry n e) = Some (s', RCreated (nextv s)) /\
                rec s' = Some (mkRec (nextv s) e n)).
Proof. exact dead_holder_released. Qed.
Print Assumptions C05_dead_holder_released.

(* in every reachable state the record of the tenure expires no later than
   (last instant at which the holder was alive) + TTL *)
Theorem C05_holder_record_bound : forall (TTL : Z) (tr : list label) (s : state) (r : srec),
  run TTL init tr = Some s -> rec s = Some r -> r_owner r = 0 ->
  r_exp r <= clock s + TTL.
Proof. exact holder_record_bound. Qed.
Print Assumptions C05_holder_record_bound.

(* after death at most the one renewal that was in flight reaches the storage; no timer
   of the holder fires, nothing is armed *)
Theorem C05_dead_holder_one_cas : forall (TTL : Z) (tr1 tr2 : list label) (s : state),
  run TTL init (tr1 ++ Die :: tr2) = Some s ->
  (cas_count tr2 <= 1)%nat /\ (forall l, In l tr2 -> holder_local l = false).
Proof. exact dead_holder_one_cas. Qed.
Print Assumptions C05_dead_holder_one_cas.

(** non-vacuity: the holder dies at 506 while a renewal is in flight; the renewal is
    still applied (record until 1505 <= 506 + 1000); at 1507 the record is absent and
    contender 2's Create succeeds *)
Definition C05_ex_death : list label :=
  [Acquire; StCreate; AcqArm; Tick 505; TimerFire; Tick 1; Die; Tick 1; StCas FOk;
   Tick 500; ContenderTry 2 2007; Tick 500].

Example C05_ex_death_run :
  let s := mkSt 1507 (Some (mkRec 2 1505 0)) 3 (HDead 506) 1 (TApplied 505 2) 0 in
  run 1000 init C05_ex_death = Some s /\ present s = None /\
  run_res 1000 init (C05_ex_death ++ [ContenderTry 2 2507]) =
  Some [RNone; RCreated 1; RNone; RNone; RNone; RNone; RNone; RNone; RCasOk 2;
        RNone; RExist; RNone; RCreated 3].
Proof. cbv zeta. split; [|split]; vm_compute; reflexivity. Qed.

(** * After Unlock the renewal dies out *)

(** [after_unlock_spec TTL sm tr2] (spec/Lease.v), unfolded: walking along tr2 from the
    state sm right after the Delete, the first renewal call that reaches the storage
    ([StCas FOk]) is answered RNotExist or RConflict, ends the chain (TDone), leaves the
    stored data ([present]) and the version counter unchanged, and no label of the
    chain (TimerFire, StCas, Rearm, RetryArm) occurs after it. *)
Theorem C05_renewal_dies_after_unlock : forall (TTL : Z) (tr1 tr2 : list label) (s : state),
  run TTL init (tr1 ++ StDelete FOk :: tr2) = Some s ->
  ~ In (StCas FReplyLost) tr2 ->
  exists sm, run TTL init (tr1 ++ [StDelete FOk]) = Some sm /\
    hs sm = HUnlocked /\ rec sm = None /\
    after_unlock_spec TTL sm tr2 /\ (applied_cas tr2 <= 1)%nat.
Proof. exact renewal_dies_after_unlock. Qed.
Print Assumptions C05_renewal_dies_after_unlock.

(** non-vacuity: Unlock races a renewal that the storage has applied but whose reply is
    still under way: the reply re-arms the timer AFTER the Delete, the timer fires, the
    call is answered NotExist (or Conflict once contender 1 holds the lock) and the
    chain is over: a further fire / call / re-arm is not accepted. *)
Definition C05_ex_unlock_pre : list label :=
  [Acquire; StCreate; AcqArm; Tick 505; TimerFire; StCas FOk; Unlock true].
Definition C05_ex_unlock_post : list label :=
  [Rearm; Tick 300; ContenderTry 1 1805; Tick 201; TimerFire; StCas FOk; Tick 1000; Probe].

Example C05_ex_unlock_run :
  run_res 1000 init (C05_ex_unlock_pre ++ StDelete FOk :: C05_ex_unlock_post) =
  Some [RNone; RCreated 1; RNone; RNone; RNone; RCasOk 2; RNone; RDeleted;
        RNone; RNone; RCreated 3; RNone; RNone; RConflict; RNone; RNotExist] /\
  ~ In (StCas FReplyLost) C05_ex_unlock_post /\
  applied_cas C05_ex_unlock_post = 1%nat /\
  run 1000 init (C05_ex_unlock_pre ++ StDelete FOk :: C05_ex_unlock_post ++ [TimerFire]) = None /\
  run 1000 init (C05_ex_unlock_pre ++ StDelete FOk :: C05_ex_unlock_post ++ [StCas FOk]) = None /\
  run 1000 init (C05_ex_unlock_pre ++ StDelete FOk :: C05_ex_unlock_post ++ [Rearm]) = None /\
  run 1000 init (C05_ex_unlock_pre ++ StDelete FOk :: C05_ex_unlock_post ++ [RetryArm]) = None.
Proof.
  split; [vm_compute; reflexivity|]. split.
  - cbn. intros H. repeat (destruct H as [H|H]; [discriminate H|]). exact H.
  - repeat split; vm_compute; reflexivity.
Qed.

(* an armed future is cancelled by Unlock: no renewal call at all afterwards *)
Example C05_ex_unlock_cancel :
  run 1000 init [Acquire; StCreate; AcqArm; Tick 100; Unlock true; StDelete FOk; Tick 1000; TimerFire] = None /\
  run 1000 init [Acquire; StCreate; AcqArm; Tick 100; Unlock true; StDelete FOk; Tick 1000] <> None.
Proof. split; vm_compute; congruence. Qed.
