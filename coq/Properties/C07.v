(** C07: WaitForVersionChange never misses or invents a change.
    Model: model/WaitLTS.v (in-memory waiter LTS + [Module Poll] for the Redis
    client), proofs: proofs/C07_Wait.v.  Every theorem is about every state
    reachable from [init] by any sequence of labels, i.e. any number of calls
    (threads), keys, writers, cancellations and any interleaving of their
    critical sections and wake-ups. *)
From Coq Require Import List ZArith NArith Bool Arith Lia.
From GL Require Import model.WaitLTS run.Run_C07 proofs.C07_Wait proofs.C07_Validator.
Import ListNotations.

(** [reachable s := exists ls, run init ls = Some s] *)

(** * wait_sound: every result was produced by a step that justifies it *)

(** [sound_return s l t r], unfolded: the step [l] taken in state [s] that made
    call [t] return [r] is
    - for nil: the locked check at the loop head, which found the key present
      (and not expired at that instant) with a version different from the one given;
    - for ErrNotExist: that check, which found the key absent or expired;
    - for the context's error: the tear-down after the select took ctx.Done, with
      the context of this call done. *)
Theorem C07_sound_return_unfolded : forall s l t r,
  sound_return s l t r <->
  match r with
  | RNil => l = LCheck t /\ exists k v r0,
      pc_of s t = Some (PCheck k v) /\ live s k = Some r0 /\ r_ver r0 <> v
  | RNotExist => l = LCheck t /\ exists k v, pc_of s t = Some (PCheck k v) /\ live s k = None
  | RCtx => l = CancelSec t /\ ctx_of s t = true
  end.
Proof. intros. apply iff_refl. Qed.
Print Assumptions C07_sound_return_unfolded.

(** for every accepted trace and every call that has returned [r] at its end, the
    trace contains the step that produced the result, that step is sound, and a
    context error is preceded by the caller's cancel of that very context *)
Theorem C07_wait_sound : forall (ls : list label) (s : st) (t : tid) (r : res),
  run init ls = Some s -> pc_of s t = Some (PDone r) ->
  exists pre l post s0,
    ls = pre ++ l :: post /\ run init pre = Some s0 /\ sound_return s0 l t r /\
    (r = RCtx -> In (CtxDone t) pre).
Proof. exact sound_trace. Qed.
Print Assumptions C07_wait_sound.

(** one step: a call that becomes Done r does so by a sound step (any state satisfying the invariant) *)
Theorem C07_wait_sound_step : forall s l s' t r,
  reachable s -> step s l = Some s' ->
  pc_of s' t = Some (PDone r) -> pc_of s t <> Some (PDone r) ->
  sound_return s l t r.
Proof. intros s l s' t r R. apply sound_step. apply reachable_Inv. exact R. Qed.
Print Assumptions C07_wait_sound_step.

(** a result, once returned, never changes *)
Theorem C07_wait_done_final : forall s l s' t r,
  step s l = Some s' -> pc_of s t = Some (PDone r) -> pc_of s' t = Some (PDone r).
Proof. exact done_final. Qed.
Print Assumptions C07_wait_done_final.

Definition C07_ex_trace : list label :=
  [Mut (OPut 0 None); Start 0 0 1%N; LCheck 0; Start 1 0 1%N; LCheck 1; Start 2 0 7%N; LCheck 2;
   CtxDone 0; WakeCtx 0; CancelSec 0; Mut (OCas 0 1%N (Some 5%Z)); WakeChan 1; LCheck 1;
   Start 3 0 2%N; LCheck 3; Tick 6; WakeExpiry 3; ExpirySec 3; LCheck 3].

(** three results in one run: nil (twice: a stale version at once, and after a CAS), the context's error, ErrNotExist after expiry *)
Example C07_ex_wait_sound :
  option_map (fun s => map t_pc (thr s)) (run init C07_ex_trace) =
  Some [PDone RCtx; PDone RNil; PDone RNil; PDone RNotExist].
Proof. vm_compute. reflexivity. Qed.

(** * wait_no_lost_wakeup: the inductive invariant *)

(** the invariant is inductive *)
Theorem C07_invariant_inductive :
  Inv init /\ forall s l s', Inv s -> step s l = Some s' -> Inv s'.
Proof. split; [exact Inv_init|exact Inv_step]. Qed.
Print Assumptions C07_invariant_inductive.

(** in every reachable state: a parked call whose channel is still open waits for
    exactly the version of the record that is stored under its key, its timer is
    that record's expiry, and the waiter table's entry for the key is its channel
    with count = number of calls parked / cancel-pending / expiry-pending on it;
    every table entry is an open channel with such a count >= 1 *)
Theorem C07_wait_no_lost_wakeup : forall s, reachable s ->
  (forall t k v c tm, pc_of s t = Some (PParked k v c tm) -> closed s c = false ->
     exists n r, tbl s k = Some (c, n) /\ n = Z.of_nat (count_on k c (thr s)) /\
                 store s k = Some r /\ r_ver r = v /\ r_exp r = tm) /\
  (forall k c n, tbl s k = Some (c, n) ->
     closed s c = false /\ n = Z.of_nat (count_on k c (thr s)) /\ (1 <= n)%Z).
Proof. exact wait_no_lost_wakeup. Qed.
Print Assumptions C07_wait_no_lost_wakeup.

(** who stands behind a table entry: each of the n >= 1 calls registered on it is
    parked for the version the record of the key has NOW (and its timer is that
    record's expiry), or its context is done (it took the ctx branch), or it took the
    timer branch.  The race rounds of the correspondence run check exactly this state
    through the hook, with no context done and no expiry in play: count <= number of
    calls still out that were given the current version; otherwise a call is
    registered for a version that is gone -- it missed the write. *)
Theorem C07_entry_waiters_current : forall s k c n, reachable s -> tbl s k = Some (c, n) ->
  closed s c = false /\ n = Z.of_nat (count_on k c (thr s)) /\ (1 <= n)%Z /\
  forall t p, pc_of s t = Some p -> on_chan k c p = true ->
    match p with
    | PParked _ v _ tm => exists r, store s k = Some r /\ r_ver r = v /\ r_exp r = tm
    | PCancelPending _ _ => ctx_of s t = true
    | PExpiryPending _ _ _ => True
    | PCheck _ _ | PDone _ => False
    end.
Proof. exact wait_entry_waiters_current. Qed.
Print Assumptions C07_entry_waiters_current.

(** a round in which the write was a CAS with a stale version (nothing changed): both calls are
    legitimately registered for the current version; a round whose snapshot shows one
    registered call although the only call still out was given the overwritten version
    (tag 1, current tag 2) is rejected *)
Example C07_ex_race_round :
  rround_ok (mkRR (Some 1%N) 2%Z [1%N; 1%N] []) = true /\
  rround_ok (mkRR (Some 2%N) 0%Z [] [mkSRec 1%N [Some 1%N; Some 2%N] false RNil]) = true /\
  rround_ok (mkRR (Some 2%N) 1%Z [1%N] [mkSRec 1%N [Some 1%N; Some 2%N] false RNil]) = false /\
  rround_ok (mkRR None 1%Z [1%N] []) = false.
Proof. vm_compute. repeat split; reflexivity. Qed.

(** hence: a call that has not returned can take a step whenever it is not parked,
    and also when it is parked and a return condition holds (its context is done,
    or the key is absent / expired / has another version: [changed]) *)
Theorem C07_wait_enabled : forall s t p, reachable s -> pc_of s t = Some p ->
  (forall r, p <> PDone r) ->
  (forall k v c tm, p = PParked k v c tm ->
     ctx_of s t = true \/ live s k = None \/ exists r, live s k = Some r /\ r_ver r <> v) ->
  exists l s', thread_of l = Some t /\ step s l = Some s'.
Proof. exact wait_enabled. Qed.
Print Assumptions C07_wait_enabled.

(** and it can return by its own steps alone, in at most five of them *)
Theorem C07_wait_can_return : forall s t p, reachable s -> pc_of s t = Some p ->
  (forall r, p <> PDone r) ->
  (ctx_of s t = true \/
   exists k v, (p = PCheck k v \/ (exists c tm, p = PParked k v c tm) \/ (exists c, p = PExpiryPending k v c))
               /\ (live s k = None \/ exists r, live s k = Some r /\ r_ver r <> v))
  \/ (exists k c, p = PCancelPending k c) ->
  exists ls s' r, Forall (fun l => thread_of l = Some t) ls /\ length ls <= 5 /\
                  run s ls = Some s' /\ pc_of s' t = Some (PDone r).
Proof. exact wait_can_return. Qed.
Print Assumptions C07_wait_can_return.

(** [enabled_of s t] is exactly the set of steps of call [t] that the LTS accepts in [s]
    (the correspondence run compares "blocked in select" with [enabled_of = []]) *)
Theorem C07_enabled_exact : forall s t l,
  In l (enabled_of s t) <-> (thread_of l = Some t /\ exists s', step s l = Some s').
Proof.
  intros s t l. split.
  - apply enabled_of_sound.
  - intros [H [s' H']]. eapply enabled_of_complete; eauto.
Qed.
Print Assumptions C07_enabled_exact.

(** two calls parked on one channel, a third on another key; a Delete closes the first channel only *)
Example C07_ex_no_lost_wakeup :
  option_map (fun s => (map t_pc (thr s), tbl s 0, tbl s 1, closed s 0, closed s 1,
                        enabled_of s 0, enabled_of s 2))
    (run init [Mut (OPut 0 None); Mut (OPut 1 (Some 9%Z)); Start 0 0 1%N; LCheck 0; Start 1 0 1%N; LCheck 1;
               Start 2 1 2%N; LCheck 2; Mut (ODelete 0)]) =
  Some ([PParked 0 1%N 0 None; PParked 0 1%N 0 None; PParked 1 2%N 1 (Some 9%Z)],
        None, Some (1, 1%Z), true, false, [WakeChan 0], []).
Proof. vm_compute. reflexivity. Qed.

(** a check that finds an expired record returns ErrNotExist and drops the record (the C06 clause about waiters) *)
Theorem C07_wait_on_expired_notexist : forall s t k v r,
  pc_of s t = Some (PCheck k v) -> store s k = Some r -> expired r (now s) = true ->
  exists s', step s (LCheck t) = Some s' /\ pc_of s' t = Some (PDone RNotExist) /\ store s' k = None.
Proof. exact wait_on_expired_notexist. Qed.
Print Assumptions C07_wait_on_expired_notexist.

Example C07_ex_expired :
  option_map (fun s => (map t_pc (thr s), store s 0))
    (run init [Mut (OPut 0 (Some 3%Z)); Tick 4; Start 0 0 1%N; LCheck 0]) = Some ([PDone RNotExist], None).
Proof. vm_compute. reflexivity. Qed.

(** * cancel_isolated *)

(** the locked tear-down of a cancelled call leaves every other call's entry (pc and
    context flag) and its set of enabled steps untouched, does not touch the records,
    and closes a channel only if no other call is registered on it *)
Theorem C07_cancel_isolated : forall s t s', reachable s -> step s (CancelSec t) = Some s' ->
  (forall t', t' <> t -> nth_error (thr s') t' = nth_error (thr s) t') /\
  (forall t', t' <> t -> enabled_of s' t' = enabled_of s t') /\
  (forall c, closed s c = false -> closed s' c = true ->
     forall t' th k', t' <> t -> nth_error (thr s) t' = Some th -> on_chan k' c (t_pc th) = false) /\
  store s' = store s.
Proof. exact wait_cancel_isolated. Qed.
Print Assumptions C07_cancel_isolated.

(** first cancel: the other waiter stays, channel open, count 2 -> 1; second cancel: last waiter, channel closed, entry gone *)
Example C07_ex_cancel_isolated :
  option_map (fun s => (map t_pc (thr s), tbl s 0, closed s 0))
    (run init [Mut (OPut 0 None); Start 0 0 1%N; LCheck 0; Start 1 0 1%N; LCheck 1;
               CtxDone 0; WakeCtx 0; CancelSec 0]) =
  Some ([PDone RCtx; PParked 0 1%N 0 None], Some (0, 1%Z), false)
  /\
  option_map (fun s => (map t_pc (thr s), tbl s 0, closed s 0))
    (run init [Mut (OPut 0 None); Start 0 0 1%N; LCheck 0; Start 1 0 1%N; LCheck 1;
               CtxDone 0; WakeCtx 0; CancelSec 0; CtxDone 1; WakeCtx 1; CancelSec 1]) =
  Some ([PDone RCtx; PDone RCtx], None, true).
Proof. split; vm_compute; reflexivity. Qed.

(** * no_residue *)

(** when no call is registered (parked, cancel-pending or expiry-pending) the waiter
    table is empty; in particular when all calls have returned *)
Theorem C07_no_residue : forall s, reachable s ->
  (forall t p, pc_of s t = Some p -> forall k c, on_chan k c p = false) ->
  forall k, tbl s k = None.
Proof. exact wait_no_residue. Qed.
Print Assumptions C07_no_residue.

Theorem C07_no_residue_all_done : forall s, reachable s ->
  (forall t p, pc_of s t = Some p -> exists r, p = PDone r) -> forall k, tbl s k = None.
Proof.
  intros s R H. apply wait_no_residue; [exact R|].
  intros t p Hp k c. destruct (H t p Hp) as [r ->]. reflexivity.
Qed.
Print Assumptions C07_no_residue_all_done.

(** no channel is ever closed twice (a Go panic) *)
Theorem C07_no_double_close : forall s, reachable s -> dblclose s = false.
Proof. exact wait_no_double_close. Qed.
Print Assumptions C07_no_double_close.

Example C07_ex_no_residue :
  option_map (fun s => (map t_pc (thr s), tbl s 0, dblclose s)) (run init C07_ex_trace) =
  Some ([PDone RCtx; PDone RNil; PDone RNil; PDone RNotExist], None, false).
Proof. vm_compute. reflexivity. Qed.

(** * what a passing correspondence check means *)

(** a script step accepted by the validator ([run/Run_C07.v]) -- a single action
    followed by the canonical firing of the internal labels, or a burst of actions for
    which the validator searched the interleavings -- takes the model along LTS labels
    to a state in which no call can move, whose parked calls are exactly the calls the
    implementation had blocked in select, and in which no channel was closed twice *)
Theorem C07_check_step_sound : forall keys v x v',
  check_step keys v x = Some v' ->
  exists ls, v_trace v' = v_trace v ++ ls /\ run (v_st v) ls = Some (v_st v') /\
             (forall t, enabled_of (v_st v') t = []) /\
             parked_list (thr (v_st v')) 0 = o_parked (s_obs x) /\
             dblclose (v_st v') = false.
Proof. exact check_step_sound. Qed.
Print Assumptions C07_check_step_sound.

(** the search over the interleavings of a burst never leaves the LTS: whatever it
    returns is a run of the model from the state before the burst to a quiescent state
    that the acceptance test (the comparison with the observation) accepted, whatever
    [mac] (wake-ups fused with the section that follows, or every label on its own).
    (The other direction -- every interleaving is tried, so "no explanation" means the
    implementation did something the model cannot do -- is by construction of [search]
    with [mac = single], which [check_step] runs before it rejects a burst: at every node every
    pending action and every enabled label of every call is tried; see the comment
    there and notes/C07.md.) *)
Theorem C07_burst_search_sound :
  forall {X} fuel mac ordered alive (accept : st -> bij -> option X) s vb pend acc s' x ls,
  search fuel mac ordered alive accept s vb pend acc = Some (s', x, ls) ->
  exists ls' vb', ls = rev acc ++ ls' /\ run s ls' = Some s' /\
                  (forall t, enabled_of s' t = []) /\ accept s' vb' = Some x.
Proof. exact @search_sound. Qed.
Print Assumptions C07_burst_search_sound.

(** ... and it misses nothing.  [explains ordered alive accept d s vb pend]
    ([proofs/C07_Validator.v]): from model state [s] there is an interleaving of at most
    [d] nodes -- at every node one of the pending actions that may come next ([picks]: the
    first one if one goroutine issued them, otherwise any, starts in issue order) with its
    observed result, or one label that some call can take ([enabled_of]) -- that ends with
    nothing pending, no call able to move and the comparison with the observation passed,
    and along which no call returned a result the observation does not contain.
    A burst is rejected only if no such explanation exists (depth up to 2 * burst_fuel = 400;
    a burst of four actions with five calls needs fewer than 60), and whatever the
    label-by-label search returns is one. *)
Theorem C07_burst_rejected_no_explanation : forall keys v ordered acts o d,
  check_step keys v (mkBurst ordered acts o) = None -> d <= 2 * burst_fuel ->
  ~ explains ordered (fun s2 => rets_possible (v_st v) s2 o)
             (fun s2 vb1 => obs_match keys (v_st v) s2 vb1 (v_cb v) o) d (v_st v) (v_vb v) acts.
Proof. exact check_step_burst_complete. Qed.
Print Assumptions C07_burst_rejected_no_explanation.

Theorem C07_burst_search_complete : forall {X} ordered alive (accept : st -> bij -> option X) d s vb pend,
  explains ordered alive accept d s vb pend ->
  forall fuel acc, d <= fuel -> exists r, search fuel single ordered alive accept s vb pend acc = Some r.
Proof. exact @search_complete. Qed.
Print Assumptions C07_burst_search_complete.

Theorem C07_burst_search_explains : forall {X} ordered alive (accept : st -> bij -> option X) fuel s vb pend acc r,
  search fuel single ordered alive accept s vb pend acc = Some r ->
  exists d, d <= fuel /\ explains ordered alive accept d s vb pend.
Proof. exact @search_explains. Qed.
Print Assumptions C07_burst_search_explains.

(** the burst "cancel call 0; Put; start call 1 for the new version" issued back-to-back while
    call 0 is parked: both ways call 0 can come back are accepted (through the closed
    channel: nil; through ctx.Done: the context's error -- its tear-down then finds a
    record that is no longer its own and leaves it alone), with call 1 parked on a new
    entry.  The same burst observed with call 1 parked and NO table entry (what a
    tear-down that forgets the identity check produces) has no explanation. *)
Definition C07_ex_burst_pre : list sstep :=
  [mkStep (SMut (OPut 0 None) (MOk 1%N)) (mkObs [] [] [] [(0, 1%N)]);
   mkStep (SStart 0 1%N false) (mkObs [] [0] [(0, (1%N, 1%Z))] [(0, 1%N)])].
Definition C07_ex_burst_acts : list sop :=
  [SCancel 0; SMut (OPut 0 None) (MOk 2%N); SStart 0 2%N false].

Example C07_ex_burst :
  option_map v_trace (run_mem [0; 1] (C07_ex_burst_pre ++
    [mkBurst true C07_ex_burst_acts (mkObs [(0, RCtx)] [1] [(0, (2%N, 1%Z))] [(0, 2%N)])])) =
  Some [Mut (OPut 0 None); Start 0 0 1%N; LCheck 0;
        CtxDone 0; Mut (OPut 0 None); Start 1 0 2%N; WakeCtx 0; CancelSec 0; LCheck 1]
  /\
  option_map v_trace (run_mem [0; 1] (C07_ex_burst_pre ++
    [mkBurst true C07_ex_burst_acts (mkObs [(0, RNil)] [1] [(0, (2%N, 1%Z))] [(0, 2%N)])])) =
  Some [Mut (OPut 0 None); Start 0 0 1%N; LCheck 0;
        CtxDone 0; Mut (OPut 0 None); Start 1 0 2%N; WakeChan 0; LCheck 0; LCheck 1]
  /\
  run_mem [0; 1] (C07_ex_burst_pre ++
    [mkBurst true C07_ex_burst_acts (mkObs [(0, RCtx)] [1] [] [(0, 2%N)])]) = None
  /\
  (* not issued by one goroutine: the start may also come before the Put *)
  option_map v_trace (run_mem [0; 1] (C07_ex_burst_pre ++
    [mkBurst false [SMut (OPut 0 None) (MOk 2%N); SCancel 0; SStart 0 1%N false]
             (mkObs [(0, RCtx); (1, RNil)] [] [] [(0, 2%N)])])) =
  Some [Mut (OPut 0 None); Start 0 0 1%N; LCheck 0;
        Mut (OPut 0 None); CtxDone 0; Start 1 0 1%N; WakeCtx 0; CancelSec 0; LCheck 1].
Proof. vm_compute. repeat split; reflexivity. Qed.

(** an accepted case is a trace of the LTS from [init]; its final state is reachable
    and satisfies the invariant *)
Theorem C07_validated_run_is_trace : forall keys steps v,
  run_mem keys steps = Some v ->
  run init (v_trace v) = Some (v_st v) /\ reachable (v_st v) /\ Inv (v_st v).
Proof. exact run_mem_sound. Qed.
Print Assumptions C07_validated_run_is_trace.

(** an observed run (the first hand-checked case of the development) is accepted *)
Example C07_ex_validated :
  match run_mem [0; 1]
    [mkStep (SMut (OPut 0 None) (MOk 1%N)) (mkObs [] [] [] [(0, 1%N)]);
     mkStep (SStart 0 1%N false) (mkObs [] [0] [(0, (1%N, 1%Z))] [(0, 1%N)]);
     mkStep (SStart 0 1%N false) (mkObs [] [0; 1] [(0, (1%N, 2%Z))] [(0, 1%N)]);
     mkStep (SCancel 0) (mkObs [(0, RCtx)] [1] [(0, (1%N, 1%Z))] [(0, 1%N)]);
     mkStep (SMut (ODelete 0) MDone) (mkObs [(1, RNotExist)] [] [] [])]
  with Some v => v_trace v | None => [] end =
  [Mut (OPut 0 None); Start 0 0 1%N; LCheck 0; Start 1 0 1%N; LCheck 1;
   CtxDone 0; WakeCtx 0; CancelSec 0; Mut (ODelete 0); WakeChan 1; LCheck 1].
Proof. vm_compute. reflexivity. Qed.

(** * the Redis client (polling) *)
Import Poll.

(** [psound_return], unfolded *)
Theorem C07_psound_return_unfolded : forall s l t r,
  psound_return s l t r <->
  match r with
  | RNil => l = PPoll t /\ exists k v tmo r0,
      ppc_of s t = Some (QPoll k v tmo) /\ srv_get s k = Some r0 /\ r_ver r0 <> v
  | RNotExist => l = PPoll t /\ exists k v tmo, ppc_of s t = Some (QPoll k v tmo) /\ srv_get s k = None
  | RCtx => (l = PPollCtx t \/ l = PWakeCtx t) /\ pctx_of s t = true
  end.
Proof. intros. apply iff_refl. Qed.
Print Assumptions C07_psound_return_unfolded.

Theorem C07_redis_wait_sound : forall (ls : list plabel) (s : pst) (t : tid) (r : res),
  prun pinit ls = Some s -> ppc_of s t = Some (QDone r) ->
  exists pre l post s0,
    ls = pre ++ l :: post /\ prun pinit pre = Some s0 /\ psound_return s0 l t r /\
    (r = RCtx -> In (PCtxDone t) pre).
Proof. exact poll_sound_trace. Qed.
Print Assumptions C07_redis_wait_sound.

(** a sleeping poller is due again within 64 ms of any instant at which it sleeps,
    and then it can poll *)
Theorem C07_redis_backoff_bounded : forall ls s t k v tmo wake,
  prun pinit ls = Some s -> ppc_of s t = Some (QSleep k v tmo wake) ->
  (wake <= pnow s + 64)%Z /\
  forall s1, pstep s (PTick 64) = Some s1 -> exists s2, pstep s1 (PWakeTimer t) = Some s2.
Proof. exact poll_sleep_bounded. Qed.
Print Assumptions C07_redis_backoff_bounded.

(** the back-off sequence 4, 8, 16, 32, 64, 2, 4 of seven polls that find nothing new; then the write is seen *)
Example C07_ex_redis :
  option_map (fun s => map q_pc (pthr s))
    (prun pinit [PSrv 0 (Some (mkRcd 1%N None)); PStart 0 0 1%N;
                 PPoll 0; PTick 4; PWakeTimer 0; PPoll 0; PTick 8; PWakeTimer 0; PPoll 0; PTick 16; PWakeTimer 0;
                 PPoll 0; PTick 32; PWakeTimer 0; PPoll 0; PTick 64; PWakeTimer 0; PPoll 0; PTick 2; PWakeTimer 0;
                 PPoll 0]) = Some [QSleep 0 1%N 4%Z 130%Z]
  /\
  option_map (fun s => map q_pc (pthr s))
    (prun pinit [PSrv 0 (Some (mkRcd 1%N None)); PStart 0 0 1%N; PPoll 0; PSrv 0 (Some (mkRcd 2%N None));
                 PTick 4; PWakeTimer 0; PPoll 0; PStart 1 0 2%N; PPoll 1; PCtxDone 1; PWakeCtx 1;
                 PStart 2 1 0%N; PPoll 2]) = Some [QDone RNil; QDone RCtx; QDone RNotExist].
Proof. split; vm_compute; reflexivity. Qed.
