(** C04: distributed lock - hand-off, cancellation and shutdown leave no residue (placeholder, being extended). *)
From Coq Require Import List Arith Bool NArith Lia.
From GL Require Import model.LockLTS.
Import ListNotations.
