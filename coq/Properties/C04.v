(** C04: distributed lock (kvs/distlock/kvlock.go) - hand-off, cancellation and shutdown leave
    no residue.  Model: model/LockLTS.v; proofs: proofs/C04_Residue.v, proofs/C04_Attempts.v,
    proofs/C01_Tokens.v, proofs/C01_Versions.v, proofs/C01_Exclusion.v.

    All theorems quantify over every assignment of Lockers to providers, every trace (any number
    of goroutines, Lockers, providers; every interleaving; cancellation and shutdown anywhere)
    without storage faults ([no_faults]) of well-formed programs ([wf_programs]: Unlock on held
    Lockers only), unless a theorem says it needs less. *)
From Coq Require Import List Arith Bool NArith Lia.
From GL Require Import model.LockLTS proofs.C01_Exclusion proofs.C01_Tokens proofs.C01_Versions
  proofs.C04_Residue proofs.C04_Attempts proofs.C04_Ranking.
Import ListNotations.

(** * No residue at quiescence
    Once every call has returned and every holder has unlocked, the lock record is gone, every
    counter is 0 and the token of every Locker of a live provider is back. *)
Theorem C04_quiescent_clean : forall (lp : lockerId -> provId) (tr : list label) (s : state),
  run (init lp) tr = Some s -> no_faults lp tr -> wf_programs lp tr ->
  (forall t, pc_of s t = Idle \/ exists r, pc_of s t = Done r) ->
  (forall L, held (lk s L) = None) ->
  rec s = None /\
  (forall L, cntr (lk s L) = false) /\
  (forall L, down s (lprov s L) = false -> token (lk s L) = true).
Proof. exact quiescent_clean. Qed.
Print Assumptions C04_quiescent_clean.

(** the invariant behind it: a stored record is always claimed by a held Locker or by an
    Unlock that is about to delete it *)
Theorem C04_record_is_claimed : forall lp tr s v tn,
  run (init lp) tr = Some s -> no_faults lp tr ->
  rec s = Some (v, tn) ->
  (exists L, held (lk s L) = Some tn) \/ (exists t L, pc_of s t = Unl1 L (Some tn)).
Proof. intros lp tr s v tn Hr HF. exact (rinv_reachable lp tr s Hr HF v tn). Qed.
Print Assumptions C04_record_is_claimed.

(** non-vacuity: hand-off between two Lockers with a cancelled third attempt, a failing TryLock
    and a shutdown of the second provider at the end; quiescent and clean *)
Definition C04_ex_trace : list label :=
  [ Invoke 0 (OLock 0); TakeToken 0; CheckCtx 0; StCreate 0 FOk; Return 0 RUnit;
    Invoke 1 (OLock 1); TakeToken 1; CheckCtx 1; StCreate 1 FOk;
    Invoke 2 (OCtx 2); TakeToken 2; CheckCtx 2; StCreate 2 FOk;
    Invoke 3 (OTry 0); TryFail 3; Return 3 RFalse;
    CtxDone 2; StWaitRet 2 WCtx; CheckCtx 2; PutToken 2; Return 2 (RErr ECtx);
    Invoke 0 (OUnlock 0); StDelete 0 FOk; PutToken 0; Return 0 RUnit;
    StWaitRet 1 WChanged; CheckCtx 1; StCreate 1 FOk; Return 1 RUnit;
    Invoke 1 (OUnlock 1); StDelete 1 FOk; PutToken 1; Return 1 RUnit;
    Shutdown 1; Invoke 2 (OCtx 2); TakeToken 2; Return 2 (RErr EClosed) ].

Definition C04_ex_lp : lockerId -> provId := fun L => match L with 2 => 1 | _ => 0 end.

Lemma C04_ex_run : exists s, run (init C04_ex_lp) C04_ex_trace = Some s.
Proof.
  destruct (run (init C04_ex_lp) C04_ex_trace) as [s|] eqn:Hr; [eauto|vm_compute in Hr; discriminate].
Qed.

Example C04_ex_premises :
  no_faults C04_ex_lp C04_ex_trace /\ wf_programs C04_ex_lp C04_ex_trace.
Proof.
  split; [apply no_faults_b|apply wf_programs_b]; vm_compute; reflexivity.
Qed.

(** the run ends quiescent and clean; Locker 2 lost its token to the shutdown of provider 1 *)
Example C04_ex_final :
  forall s, run (init C04_ex_lp) C04_ex_trace = Some s ->
  rec s = None /\ token (lk s 0) = true /\ token (lk s 1) = true /\ token (lk s 2) = false /\
  down s 1 = true /\ pc_of s 0 = Idle /\ pc_of s 1 = Idle /\ pc_of s 2 = Idle /\ pc_of s 3 = Idle.
Proof. intros s Hr. vm_compute in Hr. injection Hr as <-. vm_compute. repeat split. Qed.

(** * No deadlock, no lost wake-up *)

(** If no internal step (a step the implementation takes by itself: local action, un-faulted
    storage call, return) is enabled anywhere and no Locker is held, then no work remains - every
    thread is idle.  Read contrapositively: whenever some call is in progress and nobody holds the
    lock, some internal step is enabled.  (Stated in this direction because the model has
    infinitely many threads and the logic no excluded middle.) *)
Theorem C04_no_deadlock : forall lp tr s,
  run (init lp) tr = Some s -> no_faults lp tr -> wf_programs lp tr ->
  (forall l, internal l = true -> step s l = None) ->
  (forall L, held (lk s L) = None) ->
  forall t, pc_of s t = Idle.
Proof. exact no_deadlock. Qed.
Print Assumptions C04_no_deadlock.

(** per thread: outside the two waits a thread always has an enabled internal step *)
Theorem C04_running_thread_enabled : forall lp tr s t,
  run (init lp) tr = Some s -> wf_programs lp tr ->
  match pc_of s t with
  | Idle | LocalWait _ _ | WaitVer _ _ _ => True
  | _ => exists l, internal l = true /\ step s l <> None
  end.
Proof. intros lp tr s t Hr HW. apply running_thread_enabled. eapply tinv_reachable; eauto. Qed.
Print Assumptions C04_running_thread_enabled.

(** the storage wait: enabled iff the record is gone, has another version, or the context is done *)
Theorem C04_waitver_enabled_iff : forall s t L k v, pc_of s t = WaitVer L k v ->
  ((exists w, step s (StWaitRet t w) <> None)
   <-> (rec s = None \/ (exists v' o, rec s = Some (v', o) /\ v' <> v) \/ ctx_of s t = true)).
Proof. exact waitver_enabled_iff. Qed.
Print Assumptions C04_waitver_enabled_iff.

(** the local wait: enabled iff not [blockedb] (token present, provider down, or context done);
    [blockedb] is what the correspondence run compares with the goroutines the implementation has parked *)
Theorem C04_localwait_enabled_iff : forall s t L k, pc_of s t = LocalWait L k ->
  ((exists l, In l [TakeToken t; TryFail t; Bail t BCtx; Bail t BClosed] /\ step s l <> None)
   <-> blockedb s t = false).
Proof. exact localwait_enabled_iff. Qed.
Print Assumptions C04_localwait_enabled_iff.

Theorem C04_waitver_blocked_iff : forall s t L k v, pc_of s t = WaitVer L k v ->
  ((exists w, step s (StWaitRet t w) <> None) <-> blockedb s t = false).
Proof. exact waitver_blocked_iff. Qed.
Print Assumptions C04_waitver_blocked_iff.

(** a wake-up is never lost: once a storage waiter can return it stays able to, whatever other
    steps (faults included) happen first - a version never comes back *)
Theorem C04_wakeup_persistent : forall lp tr s t L k v l s',
  run (init lp) tr = Some s ->
  pc_of s t = WaitVer L k v ->
  step s (StWaitRet t WChanged) <> None ->
  step s l = Some s' -> (forall w, l <> StWaitRet t w) ->
  pc_of s' t = WaitVer L k v /\ step s' (StWaitRet t WChanged) <> None.
Proof. exact wakeup_persistent. Qed.
Print Assumptions C04_wakeup_persistent.

(** * Hand-off reaches everyone

    The safety core first, for every reachable state:
    (a) if work remains and nobody holds, some internal step is enabled ([C04_no_deadlock]);
    (b) a thread outside the two waits is always enabled; (c) the two waits are enabled exactly
    when token / record say so; (d) an enabled storage waiter stays enabled until it moves.
    The ranking statement that turns this into "some waiting caller acquires, and so on" is
    [C04_handoff_reaches_everyone] below. *)
Theorem C04_handoff_safety_core : forall lp tr s,
  run (init lp) tr = Some s -> no_faults lp tr -> wf_programs lp tr ->
  (* (a) *)
  ((forall l, internal l = true -> step s l = None) -> (forall L, held (lk s L) = None) ->
   forall t, pc_of s t = Idle) /\
  (* (b) *)
  (forall t, match pc_of s t with
             | Idle | LocalWait _ _ | WaitVer _ _ _ => True
             | _ => exists l, internal l = true /\ step s l <> None
             end) /\
  (* (c) *)
  (forall t L k v, pc_of s t = WaitVer L k v ->
     ((exists w, step s (StWaitRet t w) <> None) <-> blockedb s t = false)) /\
  (forall t L k, pc_of s t = LocalWait L k ->
     ((exists l, In l [TakeToken t; TryFail t; Bail t BCtx; Bail t BClosed] /\ step s l <> None)
      <-> blockedb s t = false)) /\
  (* (d) *)
  (forall t L k v l s', pc_of s t = WaitVer L k v -> step s (StWaitRet t WChanged) <> None ->
     step s l = Some s' -> (forall w, l <> StWaitRet t w) ->
     pc_of s' t = WaitVer L k v /\ step s' (StWaitRet t WChanged) <> None).
Proof.
  intros lp tr s Hr HF HW. repeat split.
  - exact (no_deadlock lp tr s Hr HF HW).
  - intros t. apply running_thread_enabled. eapply tinv_reachable; eauto.
  - apply (waitver_blocked_iff s t L k v H).
  - apply (waitver_blocked_iff s t L k v H).
  - apply (localwait_enabled_iff s t L k H).
  - apply (localwait_enabled_iff s t L k H).
  - eapply wakeup_persistent; eauto.
  - eapply wakeup_persistent; eauto.
Qed.
Print Assumptions C04_handoff_safety_core.

(** The ranking statement (DESIGN 5.4).  From a reachable state in which nobody holds the lock,
    consider runs of INTERNAL steps (the steps the implementation takes by itself: no new call,
    no cancellation, no shutdown, no fault, no renewal, no expiry) along which nobody becomes a
    holder ([quiet_run]).
    (1) Such a run has at most [bound] steps - the bound is the explicit measure [rank] over the
        finitely many threads that are inside a call ([C04_handoff_rank_decreases]): the retry
        loop Create -> ErrExist -> WaitForVersionChange -> Create of a waiter goes round only when
        the record changed, and without a new holder the record changes only by the Delete of an
        Unlock already in progress.
    (2) If such a run is maximal (no internal step is enabled after it) every call has returned.
    (3) As long as some blocking attempt (Lock / LockWithCtx) that is not cancelled is under way on
        a live provider ([wants]) such a run is NOT maximal.
    Hence: every maximal internal run from a state without holder in which somebody still wants the
    lock makes somebody a holder within [bound] + 1 internal steps; the theorem applies again at the
    next state without holder (after that holder's Unlock), and so on until nobody wants the lock.
    ("~ stuck" rather than "exists an enabled label": the model has infinitely many threads and
    Coq no excluded middle; the enabled labels are characterised exactly in the safety core above.) *)
Theorem C04_handoff_reaches_everyone : forall lp tr0 s,
  run (init lp) tr0 = Some s -> no_faults lp tr0 -> wf_programs lp tr0 -> holderless s ->
  exists bound,
    (forall tr, quiet_run s tr -> length tr <= bound) /\
    (forall tr s', quiet_run s tr -> run s tr = Some s' -> stuck s' -> forall t, pc_of s' t = Idle) /\
    (forall tr s' w, wants s w -> quiet_run s tr -> run s tr = Some s' -> ~ stuck s').
Proof. exact handoff_reaches_everyone. Qed.
Print Assumptions C04_handoff_reaches_everyone.

(** the measure itself: every internal step after which nobody holds strictly decreases [rank ts]
    ([ts]: any duplicate-free list containing the threads that are inside a call; needs only the
    two small invariants [kinv]: Lock() has no context to cancel, TryLock never waits) *)
Theorem C04_handoff_rank_decreases : forall ts s l s',
  NoDup ts -> covers ts s -> kinv s ->
  internal l = true -> step s l = Some s' -> holderless s' ->
  rank ts s' < rank ts s /\ covers ts s'.
Proof. exact rank_step. Qed.
Print Assumptions C04_handoff_rank_decreases.

(** a blocking attempt that is not cancelled, on a live provider, is still under way after every
    internal run along which nobody became a holder: it returns only as a holder *)
Theorem C04_blocking_attempt_stays : forall lp tr0 s tr s' w,
  run (init lp) tr0 = Some s -> wf_programs lp tr0 ->
  wants s w -> quiet_run s tr -> run s tr = Some s' -> wants s' w.
Proof.
  intros lp tr0 s tr s' w Hr HW. apply wants_quiet. eapply tinv_reachable; eauto.
Qed.
Print Assumptions C04_blocking_attempt_stays.

(** non-vacuity: goroutine 1 holds through Locker 1, goroutine 0 is parked in the storage wait of
    Locker 0 (Lock), then Unlock is invoked: nobody holds, 0 still wants the lock; the five internal
    steps of the hand-off are a quiet run (rank 5 + 3 + 3*1*2 = 14 bounds it), and the next
    internal step - the Create of goroutine 0 - makes it the holder *)
Definition C04_ex_handoff : list label :=
  [Invoke 1 (OLock 1); TakeToken 1; CheckCtx 1; StCreate 1 FOk; Return 1 RUnit;
   Invoke 0 (OLock 0); TakeToken 0; CheckCtx 0; StCreate 0 FOk; Invoke 1 (OUnlock 1)].
Definition C04_ex_quiet : list label :=
  [StDelete 1 FOk; PutToken 1; Return 1 RUnit; StWaitRet 0 WChanged; CheckCtx 0].

Example C04_ex_handoff_ranked :
  exists s, run (init (fun _ => 0)) C04_ex_handoff = Some s /\
    holderless s /\ wants s 0 /\ covers [0; 1] s /\ rank [0; 1] s = 14 /\
    quiet_run s C04_ex_quiet /\
    exists s1 s2, run s C04_ex_quiet = Some s1 /\ step s1 (StCreate 0 FOk) = Some s2 /\
                  held (lk s2 0) <> None.
Proof.
  destruct (run (init (fun _ => 0)) C04_ex_handoff) as [s|] eqn:Hr; [|vm_compute in Hr; discriminate].
  exists s. split; [reflexivity|]. vm_compute in Hr. injection Hr as <-.
  split; [|split; [|split; [|split; [|split]]]].
  - intros [|[|L]]; reflexivity.
  - exists 0, KLock. repeat split; try discriminate. right. right. right. eexists. reflexivity.
  - intros [|[|t]] Hn; [elim Hn; left; reflexivity | elim Hn; right; left; reflexivity | reflexivity].
  - vm_compute. reflexivity.
  - vm_compute. repeat split; try reflexivity; intros [|[|L]]; reflexivity.
  - eexists. eexists. split; [vm_compute; reflexivity|]. split; [vm_compute; reflexivity|]. vm_compute. discriminate.
Qed.

(** * Cancellation and failed TryLock *)

(** a LockWithCtx returns nil, or the error of its context and then the context is really done,
    or ErrClosed and then its provider is really shut down *)
Theorem C04_cancel_returns_ctx_err : forall lp tr0 t L tr s' r,
  run (init lp) (tr0 ++ Invoke t (OCtx L) :: tr) = Some s' ->
  no_faults lp (tr0 ++ Invoke t (OCtx L) :: tr) -> wf_programs lp (tr0 ++ Invoke t (OCtx L) :: tr) ->
  (forall r0, ~ In (Return t r0) tr) ->
  pc_of s' t = Done r ->
  r = RNil \/ (r = RErr ECtx /\ ctx_of s' t = true) \/ (r = RErr EClosed /\ down s' (lprov s' L) = true).
Proof. exact cancel_returns_ctx_err. Qed.
Print Assumptions C04_cancel_returns_ctx_err.

Theorem C04_trylock_fail_returns_false : forall lp tr0 t L tr s' r,
  run (init lp) (tr0 ++ Invoke t (OTry L) :: tr) = Some s' ->
  no_faults lp (tr0 ++ Invoke t (OTry L) :: tr) -> wf_programs lp (tr0 ++ Invoke t (OTry L) :: tr) ->
  (forall r0, ~ In (Return t r0) tr) ->
  pc_of s' t = Done r -> r = RTrue \/ r = RFalse.
Proof. exact trylock_fail_returns_false. Qed.
Print Assumptions C04_trylock_fail_returns_false.

Theorem C04_lock_returns_unit : forall lp tr0 t L tr s' r,
  run (init lp) (tr0 ++ Invoke t (OLock L) :: tr) = Some s' ->
  no_faults lp (tr0 ++ Invoke t (OLock L) :: tr) -> wf_programs lp (tr0 ++ Invoke t (OLock L) :: tr) ->
  (forall r0, ~ In (Return t r0) tr) ->
  pc_of s' t = Done r -> r = RUnit \/ (r = RPanic /\ down s' (lprov s' L) = true).
Proof. exact lock_returns_unit. Qed.
Print Assumptions C04_lock_returns_unit.

(** a cancelled attempt does not wait: with its context done a LockWithCtx is never blocked *)
Theorem C04_cancelled_never_blocked : forall s t L, ctx_of s t = true ->
  (pc_of s t = LocalWait L KCtx \/ exists v, pc_of s t = WaitVer L KCtx v) -> blockedb s t = false.
Proof.
  intros s t L Hc [Hp|[v Hp]]; unfold blockedb; rewrite Hp, Hc; cbn.
  - rewrite !orb_true_r. reflexivity.
  - destruct (rec s) as [[v' o]|]; rewrite ?orb_true_r; reflexivity.
Qed.
Print Assumptions C04_cancelled_never_blocked.

(** the failure exit puts the Locker back exactly: token present, counter 0, not held, nobody
    inside; the record is not touched *)
Theorem C04_failure_exit_restores : forall lp tr s t L r s',
  run (init lp) tr = Some s -> wf_programs lp tr ->
  pc_of s t = Failing L r -> step s (PutToken t) = Some s' ->
  pc_of s' t = Done r /\ rec s' = rec s /\
  token (lk s' L) = true /\ cntr (lk s' L) = false /\ held (lk s' L) = None /\
  forall t0, userb (pc_of s' t0) L = false.
Proof.
  intros lp tr s t L r s' Hr HW. apply failure_exit_restores. eapply tinv_reachable; eauto.
Qed.
Print Assumptions C04_failure_exit_restores.

(** leaving the select without the token (context done, provider down, TryLock on a taken
    Locker) touches neither the Lockers nor the record *)
Theorem C04_local_exit_untouched : forall s t L k l s',
  pc_of s t = LocalWait L k -> In l [TryFail t; Bail t BCtx; Bail t BClosed] ->
  step s l = Some s' -> lk s' = lk s /\ rec s' = rec s /\ exists r, pc_of s' t = Done r.
Proof. exact local_exit_untouched. Qed.
Print Assumptions C04_local_exit_untouched.

(** non-vacuity for the three outcome theorems: in [C04_ex_trace] the LockWithCtx of thread 2 is
    cancelled in the storage wait and is about to return the context error; the TryLock of
    thread 3 is about to return false *)
Example C04_ex_cancel :
  exists s', run (init C04_ex_lp) (firstn 20 C04_ex_trace) = Some s' /\
             pc_of s' 2 = Done (RErr ECtx) /\ ctx_of s' 2 = true /\ token (lk s' 2) = true /\ cntr (lk s' 2) = false.
Proof.
  destruct (run (init C04_ex_lp) (firstn 20 C04_ex_trace)) as [s|] eqn:Hr; [|vm_compute in Hr; discriminate].
  exists s. split; [reflexivity|]. vm_compute in Hr. injection Hr as <-. vm_compute. repeat split.
Qed.

Example C04_ex_try :
  exists s', run (init C04_ex_lp) (firstn 15 C04_ex_trace) = Some s' /\ pc_of s' 3 = Done RFalse.
Proof.
  destruct (run (init C04_ex_lp) (firstn 15 C04_ex_trace)) as [s|] eqn:Hr; [|vm_compute in Hr; discriminate].
  exists s. split; [reflexivity|]. vm_compute in Hr. injection Hr as <-. vm_compute. reflexivity.
Qed.

(** * After Shutdown *)

(** An attempt that is in the select of lockInternal / tryLockInternal while its provider is shut
    down - every attempt invoked after the Shutdown, and every attempt parked in the local wait at
    the Shutdown - never gets past the select: it never issues a Create, never acquires, and ends
    with ErrClosed (Lock: panic, TryLock: false), or the context error if its context is done too.
    Holds for every continuation (faults included). *)
Theorem C04_after_shutdown_no_acquire : forall tr s s' t L k,
  down s (lprov s L) = true -> pc_of s t = LocalWait L k ->
  run s tr = Some s' -> (forall r, ~ In (Return t r) tr) ->
  pc_of s' t = LocalWait L k \/ pc_of s' t = Done (fail_result k EClosed)
  \/ pc_of s' t = Done (RErr ECtx) \/ pc_of s' t = Done RPanic.
Proof. exact after_shutdown_no_acquire. Qed.
Print Assumptions C04_after_shutdown_no_acquire.

Theorem C04_invoked_after_shutdown : forall s t o L k s1 tr s',
  down s (lprov s L) = true -> op_acquire o = Some (L, k) ->
  step s (Invoke t o) = Some s1 -> run s1 tr = Some s' -> (forall r, ~ In (Return t r) tr) ->
  pc_of s' t = LocalWait L k \/ pc_of s' t = Done (fail_result k EClosed)
  \/ pc_of s' t = Done (RErr ECtx) \/ pc_of s' t = Done RPanic.
Proof. exact invoked_after_shutdown. Qed.
Print Assumptions C04_invoked_after_shutdown.

(** the interpretation fixed in DESIGN section 4: an attempt that has already passed the select
    when Shutdown happens may still acquire (the code checks [done] only in the select and right
    after taking the token); this is not reported as a violation *)
Theorem C04_shutdown_inflight_may_acquire :
  exists s, run (init (fun _ => 0)) inflight_trace = Some s /\
            down s 0 = true /\ held (lk s 0) = Some 1%N.
Proof. exact shutdown_inflight_may_acquire. Qed.
Print Assumptions C04_shutdown_inflight_may_acquire.
