(** C10: placeholder while the proofs are being written (replaced below). *)
From Coq Require Import List ZArith.
From GL Require Import lib.IMapBase model.IMap model.Chain spec.OMap model.legacy.IMapLegacy.
Import ListNotations.

Theorem C10_legacy_imap_refuted :
  exists h, wf_hist h /\ In OutPanic (run_imap_legacy always_fresh h) /\ ~ In OutPanic (run_omap h).
Proof.
  exists d1_witness. split; [reflexivity|]. split.
  - vm_compute. tauto.
  - vm_compute. intuition discriminate.
Qed.
Print Assumptions C10_legacy_imap_refuted.
