(** C10: ordered map -- iteration stays correct under any mutation history.

    Code: /repo/container/iterable/map.go (post-fix tree, D1 repaired by cd173af).
    Models: model/IMap.v (L1: pointer heap, statement by statement; [sync.Pool]
    is the oracle [ch], every theorem quantifies over all oracles), model/Chain.v
    (L2: the list of cells), spec/OMap.v (specification: entries in insertion
    order with a live flag, iterators are positions).  Vocabulary of the
    corollaries: spec/OMapObs.v, model/IMapObs.v.  Proofs: proofs/C10_*.v.

    [wf_hist h]: an iterator is used only between its creation and its Close
    and a name is not re-bound while open -- any number of iterators may be
    open at the same time, and may stay open for ever. *)
From Coq Require Import List ZArith Arith Bool Sorted.
From GL Require Import lib.IMapBase model.IMap model.Chain spec.OMap spec.OMapObs model.IMapObs
  model.legacy.IMapLegacy
  proofs.C10_ChainSim proofs.C10_Main proofs.C10_Spec.
Import ListNotations.
Open Scope Z_scope.

(** * Refinement: every history, every number of open iterators, every pool behaviour *)

Theorem C10_imap_refines_omap : forall h ch, wf_hist h -> run_imap ch h = run_omap h.
Proof. exact imap_refines_omap. Qed.
Print Assumptions C10_imap_refines_omap.

Theorem C10_imap_no_panic : forall h ch, wf_hist h ->
  ~ In OutPanic (run_imap ch h) /\ ~ In OutNoFuel (run_imap ch h).
Proof. exact imap_no_panic. Qed.
Print Assumptions C10_imap_no_panic.

Theorem C10_imap_choice_independent : forall h ch ch', wf_hist h -> run_imap ch h = run_imap ch' h.
Proof. exact imap_choice_independent. Qed.
Print Assumptions C10_imap_choice_independent.

Theorem C10_chain_refines_omap : forall h, wf_hist h -> run_chain h = run_omap h.
Proof. exact chain_refines_omap. Qed.
Print Assumptions C10_chain_refines_omap.

Theorem C10_chain_no_panic : forall h, wf_hist h -> Forall (fun x => is_stop x = false) (run_chain h).
Proof. exact chain_no_panic. Qed.
Print Assumptions C10_chain_no_panic.

(** a running example: three entries, an iterator, removals and an addition under it, a second
    iterator, a Close, then the map is used again *)
Definition C10_ex_h1 : list op := [OAdd 1 11; OAdd 2 12; OAdd 3 13; ONewIter 7].
Definition C10_ex_h2 : list op :=
  [ONext 7; ORemove 2; OAdd 4 14; ORemove 1; ONewIter 8; ONext 7; OHasNext 7; ONext 7; ONext 7].
Definition C10_ex_h3 : list op := [OClose 7; OFirst; ONext 8; OClose 8; OLen; OGet 1; OGet 4].
Definition C10_ex_h : list op := C10_ex_h1 ++ C10_ex_h2 ++ C10_ex_h3.

Example C10_ex_wf : wf_hist C10_ex_h /\ wf_hist (C10_ex_h1 ++ C10_ex_h2).
Proof. split; reflexivity. Qed.

Example C10_ex_run :
  run_omap C10_ex_h =
    [OutUnit; OutUnit; OutUnit; OutUnit; OutNext (Some (1, 11)); OutUnit; OutUnit; OutUnit; OutUnit;
     OutNext (Some (3, 13)); OutBool true; OutNext (Some (4, 14)); OutNext None; OutUnit;
     OutFirst (Some 3); OutNext (Some (3, 13)); OutUnit; OutLen 2; OutGet None; OutGet (Some 14)] /\
  run_imap always_fresh C10_ex_h = run_omap C10_ex_h /\
  run_imap always_reuse C10_ex_h = run_omap C10_ex_h /\
  run_chain C10_ex_h = run_omap C10_ex_h.
Proof. vm_compute. repeat split; reflexivity. Qed.

(** * The answer of the pointer model to one more call; [i_answer] is what the run outputs *)

Theorem C10_answer_refines : forall ch h x, wf_hist (h ++ [x]) -> i_answer ch h x = o_answer h x.
Proof. exact answer_refines. Qed.
Print Assumptions C10_answer_refines.

Theorem C10_run_imap_snoc : forall ch h x, wf_hist (h ++ [x]) ->
  run_imap ch (h ++ [x]) = run_imap ch h ++ [i_answer ch h x].
Proof. exact run_imap_snoc. Qed.
Print Assumptions C10_run_imap_snoc.

Example C10_ex_answer :
  i_answer always_reuse (C10_ex_h1 ++ C10_ex_h2) OFirst = OutFirst (Some 3) /\
  i_answer always_fresh (C10_ex_h1 ++ C10_ex_h2) (ONext 8) = OutNext (Some (3, 13)).
Proof. vm_compute. split; reflexivity. Qed.

(** * Get and Len reflect exactly the live keys; First and a new iterator start at the oldest live entry

    [live_kv h]: the association list obtained by the obvious fold over [h] (Add of an
    absent key appends, Remove deletes): the live entries in insertion order. *)

Theorem C10_get_len_exact : forall ch h, wf_hist h ->
  (forall k, i_answer ch h (OGet k) = OutGet (alookup k (live_kv h))) /\
  i_answer ch h OLen = OutLen (length (live_kv h)) /\
  NoDup (map fst (live_kv h)).
Proof. exact get_len_exact. Qed.
Print Assumptions C10_get_len_exact.

Theorem C10_first_is_oldest_live : forall ch h, wf_hist h ->
  i_answer ch h OFirst = OutFirst (option_map fst (hd_error (live_kv h))) /\
  (forall i, ~ In i (map fst (opos (ostate h))) ->
     wf_hist (h ++ [ONewIter i]) /\ live_kv (h ++ [ONewIter i]) = live_kv h /\
     i_answer ch (h ++ [ONewIter i]) (ONext i) = OutNext (hd_error (live_kv h))).
Proof. exact first_is_oldest_live. Qed.
Print Assumptions C10_first_is_oldest_live.

Example C10_ex_live :
  live_kv (C10_ex_h1 ++ C10_ex_h2) = [(3, 13); (4, 14)] /\
  map fst (opos (ostate (C10_ex_h1 ++ C10_ex_h2))) = [8; 7].
Proof. vm_compute. split; reflexivity. Qed.

(** * One iterator

    [added h]: every entry ever added, in order; the index of an entry is its stamp (a
    re-added key gets a new stamp).  [pos_of h i = Some p]: iterator [i] is open after
    [h] and has passed every stamp below [p].  [returned i h1 h2]: the stamps returned by
    the calls [Next i] made during [h2]; [i_rets ch i h1 h2]: the entries the pointer
    model returns to these calls. *)

Theorem C10_iter_never_removed : forall ch h i k v, wf_hist (h ++ [ONext i]) ->
  i_answer ch h (ONext i) = OutNext (Some (k, v)) -> In (k, v) (live_kv h).
Proof. exact iter_never_removed. Qed.
Print Assumptions C10_iter_never_removed.

Theorem C10_added_prefix : forall h1 h2, exists t, added (h1 ++ h2) = added h1 ++ t.
Proof. exact added_prefix. Qed.
Print Assumptions C10_added_prefix.

Theorem C10_rets_stamps : forall ch i h2 h1, wf_hist (h1 ++ h2) ->
  map Some (i_rets ch i h1 h2) = map (nth_error (added (h1 ++ h2))) (returned i h1 h2).
Proof. exact rets_stamps. Qed.
Print Assumptions C10_rets_stamps.

Theorem C10_iter_window : forall h2 h1 i p,
  wf_hist (h1 ++ h2) -> pos_of h1 i = Some p -> ~ In (OClose i) h2 ->
  exists p', pos_of (h1 ++ h2) i = Some p' /\ (p <= p')%nat /\
    StronglySorted lt (returned i h1 h2) /\
    (forall j, In j (returned i h1 h2) -> (p <= j < p')%nat) /\
    (forall j, (p <= j < p')%nat -> live_at (h1 ++ h2) j = true -> In j (returned i h1 h2)).
Proof. exact iter_window. Qed.
Print Assumptions C10_iter_window.

Theorem C10_iter_in_order_once : forall ch h1 h2 i p,
  wf_hist (h1 ++ h2) -> pos_of h1 i = Some p -> ~ In (OClose i) h2 ->
  exists stamps, StronglySorted lt stamps /\ NoDup stamps /\
    map Some (i_rets ch i h1 h2) = map (nth_error (added (h1 ++ h2))) stamps.
Proof. exact imap_iter_in_order_once. Qed.
Print Assumptions C10_iter_in_order_once.

Theorem C10_iter_complete : forall ch h1 h2 i p p' j,
  wf_hist (h1 ++ h2) -> pos_of h1 i = Some p -> ~ In (OClose i) h2 -> pos_of (h1 ++ h2) i = Some p' ->
  (p <= j < p')%nat -> live_at (h1 ++ h2) j = true ->
  exists e, nth_error (added (h1 ++ h2)) j = Some e /\ In e (i_rets ch i h1 h2).
Proof. exact imap_iter_complete. Qed.
Print Assumptions C10_iter_complete.

Theorem C10_iter_sees_added : forall ch h1 k v h2 i p,
  wf_hist (h1 ++ OAdd k v :: h2) -> pos_of h1 i = Some p -> ~ In (OClose i) h2 ->
  alookup k (live_kv h1) = None ->
  let j := length (added h1) in
  let h := h1 ++ OAdd k v :: h2 in
  nth_error (added h) j = Some (k, v) /\
  (live_at h j = true ->
     In (k, v) (i_rets ch i h1 (OAdd k v :: h2)) \/
     (exists j', stamp_ret h i = Some j' /\ (j' <= j)%nat)).
Proof. exact imap_iter_sees_added. Qed.
Print Assumptions C10_iter_sees_added.

(** iterator 7 of the running example: created on three entries; entry 2 is removed before it
    gets there (skipped), entry 4 is added under it (seen), entry 1 is removed after it was
    returned; it returns the stamps 0, 2, 3, each once, and its window ends at 4 *)
Example C10_ex_iter :
  pos_of C10_ex_h1 7 = Some 0%nat /\ ~ In (OClose 7) C10_ex_h2 /\
  pos_of (C10_ex_h1 ++ C10_ex_h2) 7 = Some 4%nat /\
  added (C10_ex_h1 ++ C10_ex_h2) = [(1, 11); (2, 12); (3, 13); (4, 14)] /\
  map (live_at (C10_ex_h1 ++ C10_ex_h2)) [0; 1; 2; 3]%nat = [false; false; true; true] /\
  returned 7 C10_ex_h1 C10_ex_h2 = [0; 2; 3]%nat /\
  i_rets always_reuse 7 C10_ex_h1 C10_ex_h2 = [(1, 11); (3, 13); (4, 14)] /\
  i_rets always_fresh 7 C10_ex_h1 C10_ex_h2 = [(1, 11); (3, 13); (4, 14)].
Proof.
  vm_compute. repeat split; try reflexivity. intros H. repeat (destruct H as [H|H]; [discriminate H|]). exact H.
Qed.

(** * D1: closing an iterator, also one parked on a removed entry, leaves the map usable *)

Theorem C10_close_leaves_usable : forall ch h i, wf_hist (h ++ [OClose i]) ->
  let h' := h ++ [OClose i] in
  i_answer ch h (OClose i) = OutUnit /\ live_kv h' = live_kv h /\
  (forall k, i_answer ch h' (OGet k) = OutGet (alookup k (live_kv h))) /\
  i_answer ch h' OLen = OutLen (length (live_kv h)) /\
  i_answer ch h' OFirst = OutFirst (option_map fst (hd_error (live_kv h))) /\
  (forall i', ~ In i' (map fst (opos (ostate h'))) ->
     i_answer ch (h' ++ [ONewIter i']) (ONext i') = OutNext (hd_error (live_kv h))).
Proof. exact close_leaves_usable. Qed.
Print Assumptions C10_close_leaves_usable.

(** the history of D1: the iterator is parked on entry 1 when it is removed, then closed *)
Example C10_ex_d1_fixed :
  wf_hist d1_witness /\
  run_imap always_fresh d1_witness = [OutUnit; OutUnit; OutUnit; OutUnit; OutUnit; OutFirst (Some 2)] /\
  run_imap always_reuse d1_witness = [OutUnit; OutUnit; OutUnit; OutUnit; OutUnit; OutFirst (Some 2)].
Proof. vm_compute. repeat split; reflexivity. Qed.

(** * The code before the fix cd173af (model/legacy/IMapLegacy.v: [Map.release] drops the new head) *)

Theorem C10_legacy_imap_refuted :
  exists h, wf_hist h /\ In OutPanic (run_imap_legacy always_fresh h) /\ ~ In OutPanic (run_omap h).
Proof. exact legacy_imap_refuted. Qed.
Print Assumptions C10_legacy_imap_refuted.
