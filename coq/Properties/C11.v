(** C11: the ordered map and the LRU cache retain nothing beyond live entries.

    Code: /repo/container/iterable/map.go, /repo/container/lru/ecache.go (post-fix
    tree, D2 repaired by 103acbd).  Models: model/IMap.v (pointer model L1 of the map;
    [i_chain s] = the nodes reachable from head following next, what the verif hook
    VerifWalk counts; [count_deleted s] = how many of them are removed entries
    ("pinned"); [sum_ref s] = the sum of their reference counters), model/IMapLRU.v
    (the cache as the calls it makes on the map, run over L1), model/IMapCost.v (First
    with the fuel of its two loops as parameters), model/legacy/IMapLRULegacy.v (Clear
    before the fix).  Proofs: proofs/C11_*.v on top of the representation relation of
    C10 (proofs/C10_*.v).

    [reach ch h]: the state of the pointer model after the history [h] under the pool
    behaviour [ch]; [open_iters h]: the iterators [h] leaves open. *)
From Coq Require Import List ZArith Arith Bool.
From GL Require Import lib.IMapBase model.IMap model.IMapCost model.IMapLRU model.legacy.IMapLRULegacy
  proofs.C11_Chain proofs.C11_LRU proofs.C11_Legacy proofs.C11_Cost.
Import ListNotations.
Open Scope Z_scope.

(** * The map: reachable nodes = live entries + sentinel + entries pinned by open iterators *)

Theorem C11_chain_length : forall h ch, wf_hist h ->
  length (i_chain (reach ch h)) = (i_len (reach ch h) + 1 + count_deleted (reach ch h))%nat.
Proof. exact chain_length. Qed.
Print Assumptions C11_chain_length.

Theorem C11_pinned_le_iters : forall h ch, wf_hist h ->
  (count_deleted (reach ch h) <= length (iters (reach ch h)))%nat.
Proof. exact pinned_le_iters. Qed.
Print Assumptions C11_pinned_le_iters.

(* every pinned node is the node some open iterator points to *)
Theorem C11_pinned_referenced : forall h ch, wf_hist h -> forall x n,
  In x (i_chain (reach ch h)) -> nth_error (heap_of (reach ch h)) x = Some n -> n_st n = StDeleted ->
  1 <= n_ref n /\ exists i, In (i, x) (iters (reach ch h)) /\ In i (open_iters h).
Proof. exact pinned_referenced. Qed.
Print Assumptions C11_pinned_referenced.

(* head is the first node of the walk, head.prev is nil, every node is linked back by its
   successor and the walk ends at last, the only sentinel *)
Theorem C11_head_on_chain : forall h ch, wf_hist h ->
  hd_error (i_chain (reach ch h)) = Some (head (reach ch h)) /\ head_ok (reach ch h) = true.
Proof. exact head_on_chain. Qed.
Print Assumptions C11_head_on_chain.

Theorem C11_refs_are_iters : forall h ch, wf_hist h ->
  sum_ref (reach ch h) = Z.of_nat (length (iters (reach ch h))).
Proof. exact refs_are_iters. Qed.
Print Assumptions C11_refs_are_iters.

Theorem C11_closed_no_garbage : forall h ch, wf_hist h -> open_iters h = [] ->
  iters (reach ch h) = [] /\ count_deleted (reach ch h) = 0%nat /\
  length (i_chain (reach ch h)) = (i_len (reach ch h) + 1)%nat.
Proof. exact closed_no_garbage. Qed.
Print Assumptions C11_closed_no_garbage.

(** three iterators, two of them parked on removed entries; then all closed *)
Definition C11_ex_h : list op :=
  [OAdd 1 11; OAdd 2 12; OAdd 3 13; ONewIter 7; ONewIter 8; ONext 8; ORemove 1; ORemove 2; OAdd 4 14;
   ORemove 3; ONewIter 9].

Example C11_ex_pinned :
  wf_hist C11_ex_h /\ open_iters C11_ex_h = [9; 8; 7] /\
  let s := reach always_reuse C11_ex_h in
  length (i_chain s) = 4%nat /\ i_len s = 1%nat /\ count_deleted s = 2%nat /\ length (iters s) = 3%nat /\
  sum_ref s = 3 /\ head_ok s = true.
Proof. vm_compute. repeat split; reflexivity. Qed.

Example C11_ex_closed :
  let h := C11_ex_h ++ [OClose 7; OClose 8; OClose 9] in
  wf_hist h /\ open_iters h = [] /\
  length (i_chain (reach always_fresh h)) = 2%nat /\ i_len (reach always_fresh h) = 1%nat.
Proof. vm_compute. repeat split; reflexivity. Qed.

(** * The cost of First: one loop iteration (node examined) per unit of fuel; 1 + pinned suffice

    [i_first_f f1 f2]: First with [f1] units of fuel for the loop of [Map.next] inside
    getValue and [f2] for the one that moves the iterator on (model/IMap.v gives both
    "allocated nodes + 1"); the loop is the same function [i_next]. *)

Theorem C11_first_cost : forall h ch, wf_hist h ->
  exists f1 f2, (f1 + f2 <= 1 + count_deleted (reach ch h))%nat /\
    i_first_f f1 f2 (reach ch h) = i_first (reach ch h) /\
    exists r, i_first (reach ch h) = Ok r.
Proof. exact first_cost. Qed.
Print Assumptions C11_first_cost.

Theorem C11_closed_first_cost : forall h ch, wf_hist h -> open_iters h = [] ->
  i_first_f 0 1 (reach ch h) = i_first (reach ch h) /\ exists r, i_first (reach ch h) = Ok r.
Proof. exact closed_first_cost. Qed.
Print Assumptions C11_closed_first_cost.

(** in the state of [C11_ex_pinned] First walks over the two pinned entries: 2 + 1 units are
    needed (= 1 + pinned: the bound is tight) and enough *)
Example C11_ex_first_cost :
  let s := reach always_reuse C11_ex_h in
  i_first_f 2 1 s = i_first s /\ i_first_f 1 1 s = NoFuel /\ i_first_f 2 0 s = NoFuel /\
  option_map snd (match i_first s with Ok r => Some r | _ => None end) = Some (OutFirst (Some 4)).
Proof. vm_compute. repeat split; reflexivity. Qed.

(** * The cache over the pointer map: after every operation of every history

    [lru_states ch cap ops]: the result and the state after each operation of [ops], from the
    empty cache of capacity [cap]. *)

Theorem C11_lru_no_open_iters : forall cap ch ops r, In r (lru_states ch cap ops) ->
  iters (l_map (snd r)) = [] /\ count_deleted (l_map (snd r)) = 0%nat /\ fst r <> CStop.
Proof. exact lru_no_open_iters. Qed.
Print Assumptions C11_lru_no_open_iters.

Theorem C11_lru_retention : forall cap ch ops r, In r (lru_states ch cap ops) ->
  (length (i_chain (l_map (snd r))) <= cap + 1)%nat.
Proof. exact lru_retention. Qed.
Print Assumptions C11_lru_retention.

Theorem C11_lru_exact : forall cap ch ops r, In r (lru_states ch cap ops) ->
  length (i_chain (l_map (snd r))) = (i_len (l_map (snd r)) + 1)%nat /\
  (i_len (l_map (snd r)) <= cap)%nat /\ head_ok (l_map (snd r)) = true.
Proof. exact lru_exact. Qed.
Print Assumptions C11_lru_exact.

Definition C11_ex_ops : list cop :=
  [CGetOrCreate 1 10 true; CGetOrCreate 2 20 true; CGetOrCreate 1 11 true; CGetOrCreate 3 30 true;
   CGetOrCreate 4 40 false; CRemove 2; CClear; CGetOrCreate 5 50 true; CClear; CClear; CGetOrCreate 1 12 true].

Example C11_ex_lru :
  map (fun r => (fst r, length (i_chain (l_map (snd r))))) (lru_states always_reuse 2 C11_ex_ops) =
  [(CMiss 10 None, 2%nat); (CMiss 20 None, 3%nat); (CHit 10, 3%nat); (CMiss 30 (Some (2, 20)), 3%nat);
   (CFail, 3%nat); (CRemoved false, 3%nat); (CCleared 2, 1%nat); (CMiss 50 None, 2%nat); (CCleared 1, 1%nat);
   (CCleared 0, 1%nat); (CMiss 12 None, 2%nat)].
Proof. vm_compute. reflexivity. Qed.

(** * D2: Clear before the fix 103acbd never closes its iterator

    [legacy_final ch cap ops]: the state of the pre-fix cache after [ops];
    [leaks false ops]: the number of Clear calls in [ops] that follow a successful
    GetOrCreate made since the previous Clear.  Each of them leaves one node behind for
    ever, for every capacity and pool behaviour: the node count has no bound. *)

Theorem C11_legacy_leaks_general : forall cap ch ops,
  (leaks false ops <= length (i_chain (l_map (legacy_final ch cap ops))))%nat.
Proof. exact legacy_leaks_general. Qed.
Print Assumptions C11_legacy_leaks_general.

Theorem C11_legacy_clear_leaks : forall cap ch k v n,
  (n <= length (i_chain (l_map (legacy_final ch cap (leak_cycles k v n)))))%nat.
Proof. exact legacy_clear_leaks. Qed.
Print Assumptions C11_legacy_clear_leaks.

Example C11_ex_legacy :
  map (fun n => length (i_chain (l_map (legacy_final always_reuse 4 (leak_cycles 1 5 n))))) [0; 1; 2; 3; 6]%nat
    = [1; 1; 2; 3; 6]%nat /\
  leaks false C11_ex_ops = 2%nat /\
  length (i_chain (l_map (legacy_final always_reuse 2 C11_ex_ops))) = 3%nat /\
  (* the same operations on the repaired cache: 2 nodes *)
  option_map (fun r => length (i_chain (l_map (snd r)))) (List.last (map Some (lru_states always_reuse 2 C11_ex_ops)) None)
    = Some 2%nat.
Proof. vm_compute. repeat split; reflexivity. Qed.
