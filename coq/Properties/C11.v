(** C11: placeholder while the proofs are being written (replaced below). *)
From Coq Require Import List ZArith.
From GL Require Import lib.IMapBase model.IMap model.IMapLRU model.legacy.IMapLRULegacy.
Import ListNotations.

Example C11_legacy_clear_leaks_sample :
  map (fun r => length (i_chain (l_map (snd r))))
      (lc_run_legacy (i_step always_reuse) 4 (mkLru i_new 0%Z)
         [CGetOrCreate 1 5 true; CClear; CGetOrCreate 1 5 true; CClear; CGetOrCreate 1 5 true; CClear])
  = [2; 1; 2; 2; 3; 3]%nat.
Proof. vm_compute. reflexivity. Qed.
