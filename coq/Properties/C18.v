(** C18: headline theorems about container/iterable/mixer.go (model:
    model/Mixer.v, specification: spec/Merge.v, proofs: proofs/C18_Mixer.v,
    proofs/C18_Merge.v, proofs/C18_Corollaries.v). *)
From Coq Require Import List ZArith Bool Lia Permutation Sorted.
From GL Require Import model.Mixer spec.Merge
  proofs.C18_Mixer proofs.C18_Merge proofs.C18_Corollaries.
Import ListNotations.
Local Open Scope Z_scope.

(** * Refinement: the mixer is the two-pointer merge, under every call pattern *)

(* every selector function, every two inputs (WrapIntSlice), every sequence of
   HasNext / Next / Reset calls: the results of all calls are those of the
   specification *)
Theorem C18_mixer_refines_merge :
  forall (sf : Z -> Z -> bool) (l1 l2 : list Z) (cs : list call),
  fst (mx_run sf (mx_init (wrap_ints l1) (wrap_ints l2)) cs) =
  fst (spec_run sf (spec_init l1 l2) cs).
Proof. exact mixer_refines_merge. Qed.
Print Assumptions C18_mixer_refines_merge.

(* inputs that cannot be reset (either or both): every pattern of HasNext / Next *)
Theorem C18_mixer_refines_merge_noreset :
  forall (sf : Z -> Z -> bool) (rs1 rs2 : bool) (l1 l2 : list Z) (cs : list call),
  ~ In CReset cs ->
  fst (mx_run sf (mx_init (src_of (wrap_items l1) rs1) (src_of (wrap_items l2) rs2)) cs) =
  fst (spec_run sf (spec_init l1 l2) cs).
Proof. exact mixer_refines_merge_noreset. Qed.
Print Assumptions C18_mixer_refines_merge_noreset.

(* the general form: list-backed sources in which only the last item may be a
   ghost (HasNext true, Next not ok - the imparity iterator.go describes), with
   or without Reset; the merge is that of the items that come with ok = true *)
Theorem C18_mixer_refines_merge_general :
  forall (sf : Z -> Z -> bool) (its1 its2 : list (Z * bool)) (rs1 rs2 : bool) (cs : list call),
  tail_ok its1 = true -> tail_ok its2 = true ->
  (In CReset cs -> rs1 = true /\ rs2 = true) ->
  fst (mx_run sf (mx_init (src_of its1 rs1) (src_of its2 rs2)) cs) =
  fst (spec_run sf (spec_init (live_items its1) (live_items its2)) cs).
Proof. exact mixer_refines_merge_general. Qed.
Print Assumptions C18_mixer_refines_merge_general.

Theorem C18_mixer_refines_merge_vanishing_last :
  forall (sf : Z -> Z -> bool) (l1 l2 : list Z) (g1 g2 : list (Z * bool)) (cs : list call),
  (g1 = [] \/ exists v, g1 = [(v, false)]) ->
  (g2 = [] \/ exists v, g2 = [(v, false)]) ->
  fst (mx_run sf (mx_init (src_of (wrap_items l1 ++ g1) true) (src_of (wrap_items l2 ++ g2) true)) cs) =
  fst (spec_run sf (spec_init l1 l2) cs).
Proof. exact mixer_refines_merge_vanishing_last. Qed.
Print Assumptions C18_mixer_refines_merge_vanishing_last.

Example C18_ex_general_hyp :
  tail_ok [(1, true); (4, true); (0, false)] = true /\ tail_ok [(2, true)] = true /\
  live_items [(1, true); (4, true); (0, false)] = [1; 4] /\
  tail_ok [(0, false); (1, true)] = false.
Proof. vm_compute. repeat split; reflexivity. Qed.

Example C18_ex_general :
  fst (mx_run (sel_fn SelLe)
         (mx_init (src_of [(1, true); (4, true); (0, false)] true) (src_of [(2, true)] false))
         [CNext; CHasNext; CNext; CNext; CHasNext; CNext]) =
  [ONext 1 true; OHas true; ONext 2 true; ONext 4 true; OHas false; ONext 0 false].
Proof. vm_compute. reflexivity. Qed.

(* a pattern with repeated HasNext, Next without HasNext, Next on the exhausted
   mixer and a Reset in the middle, on inputs with ties, under [<=] *)
Definition C18_ex_calls : list call :=
  [CHasNext; CHasNext; CNext; CNext; CHasNext; CReset; CNext; CNext; CNext; CHasNext;
   CNext; CNext; CNext; CHasNext; CNext; CHasNext].

Definition C18_ex_outs : list out :=
  [OHas true; OHas true; ONext 1 true; ONext 2 true; OHas true; OReset ROk;
   ONext 1 true; ONext 2 true; ONext 2 true; OHas true;
   ONext 3 true; ONext 5 true; ONext 0 false; OHas false; ONext 0 false; OHas false].

Example C18_ex_model :
  fst (mx_run (sel_fn SelLe) (mx_init (wrap_ints [2; 3]) (wrap_ints [1; 2; 5])) C18_ex_calls) = C18_ex_outs.
Proof. vm_compute. reflexivity. Qed.

Example C18_ex_spec :
  fst (spec_run (sel_fn SelLe) (spec_init [2; 3] [1; 2; 5]) C18_ex_calls) = C18_ex_outs.
Proof. vm_compute. reflexivity. Qed.

Example C18_ex_noreset_hyp : ~ In CReset [CNext; CHasNext; CNext; CNext; CNext].
Proof. cbn. intros H. repeat (destruct H as [H|H]; [discriminate|]). exact H. Qed.

Example C18_ex_noreset :
  fst (mx_run (sel_fn SelGt) (mx_init (src_of (wrap_items [3; 1]) false) (src_of (wrap_items [2]) true))
         [CNext; CHasNext; CNext; CNext; CNext]) =
  [ONext 3 true; OHas true; ONext 2 true; ONext 1 true; ONext 0 false].
Proof. vm_compute. reflexivity. Qed.

(* the model reports no panic and no unclassified Reset error *)
Theorem C18_mixer_outputs : forall (sf : Z -> Z -> bool) (m : mixer) (c : call),
  match c, snd (mx_step sf m c) with
  | CHasNext, OHas _ => True
  | CNext, ONext _ _ => True
  | CReset, OReset r => r <> ROther
  | _, _ => False
  end.
Proof. exact mx_step_outputs. Qed.
Print Assumptions C18_mixer_outputs.

(** * The step rule *)

Theorem C18_merge_choice : forall (sf : Z -> Z -> bool) (r1 r2 : list Z),
  match merge_step sf r1 r2 with
  | None => r1 = [] /\ r2 = []
  | Some (O1, v, r1', r2') =>
      r1 = v :: r1' /\ r2' = r2 /\ (r2 = [] \/ exists y t2, r2 = y :: t2 /\ sf v y = true)
  | Some (O2, v, r1', r2') =>
      r2 = v :: r2' /\ r1' = r1 /\ (r1 = [] \/ exists x t1, r1 = x :: t1 /\ sf x v = false)
  end.
Proof. exact merge_choice. Qed.
Print Assumptions C18_merge_choice.

(* the first input's head is emitted exactly when the second input is
   exhausted or the selector prefers it *)
Theorem C18_merge_choice_first :
  forall (sf : Z -> Z -> bool) (r1 r2 : list Z) (x : Z) (t1 r2' : list Z),
  merge_step sf r1 r2 = Some (O1, x, t1, r2') <->
  r1 = x :: t1 /\ r2' = r2 /\ (r2 = [] \/ exists y t2, r2 = y :: t2 /\ sf x y = true).
Proof. exact merge_step_first. Qed.
Print Assumptions C18_merge_choice_first.

Theorem C18_merge_choice_second :
  forall (sf : Z -> Z -> bool) (r1 r2 : list Z) (y : Z) (t2 r1' : list Z),
  merge_step sf r1 r2 = Some (O2, y, r1', t2) <->
  r2 = y :: t2 /\ r1' = r1 /\ (r1 = [] \/ exists x t1, r1 = x :: t1 /\ sf x y = false).
Proof. exact merge_step_second. Qed.
Print Assumptions C18_merge_choice_second.

Theorem C18_merge_choice_none : forall (sf : Z -> Z -> bool) (r1 r2 : list Z),
  merge_step sf r1 r2 = None <-> r1 = [] /\ r2 = [].
Proof. exact merge_step_none. Qed.
Print Assumptions C18_merge_choice_none.

(* the merge is the step rule iterated *)
Theorem C18_merge_unfold : forall (sf : Z -> Z -> bool) (l1 l2 : list Z),
  merge_tagged sf l1 l2 =
  match merge_step sf l1 l2 with
  | None => []
  | Some (o, v, r1, r2) => (o, v) :: merge_tagged sf r1 r2
  end.
Proof. exact merge_tagged_unfold. Qed.
Print Assumptions C18_merge_unfold.

Example C18_ex_choice :
  merge_step (sel_fn SelLe) [2; 3] [2; 5] = Some (O1, 2, [3], [2; 5]) /\   (* tie under <=: first input *)
  merge_step (sel_fn SelLt) [2; 3] [2; 5] = Some (O2, 2, [2; 3], [5]) /\   (* tie under <: second input *)
  merge_step (sel_fn SelLt) [2; 3] [] = Some (O1, 2, [3], []) /\
  merge_step (sel_fn SelAlways1) [] [7] = Some (O2, 7, [], []) /\
  merge_step (sel_fn SelLeK) [3] [2] = Some (O1, 3, [], [2]) /\            (* keys 3/2 = 2/2 tie *)
  merge_step (sel_fn SelGe) [] [] = None.
Proof. vm_compute. repeat split; reflexivity. Qed.

(** * Every element exactly once, each input's order kept *)

Theorem C18_merge_perm : forall (sf : Z -> Z -> bool) (l1 l2 : list Z),
  Permutation (merge_out sf l1 l2) (l1 ++ l2).
Proof. exact merge_perm. Qed.
Print Assumptions C18_merge_perm.

Theorem C18_merge_length : forall (sf : Z -> Z -> bool) (l1 l2 : list Z),
  length (merge_tagged sf l1 l2) = (length l1 + length l2)%nat.
Proof. exact merge_length. Qed.
Print Assumptions C18_merge_length.

Theorem C18_merge_keeps_order : forall (sf : Z -> Z -> bool) (l1 l2 : list Z),
  from_origin O1 (merge_tagged sf l1 l2) = l1 /\
  from_origin O2 (merge_tagged sf l1 l2) = l2.
Proof. exact merge_keeps_order. Qed.
Print Assumptions C18_merge_keeps_order.

(* unsorted inputs with duplicates inside and across the inputs *)
Example C18_ex_tagged :
  merge_tagged (sel_fn SelLe) [2; 1; 2] [2; 3; 1] =
  [(O1, 2); (O1, 1); (O1, 2); (O2, 2); (O2, 3); (O2, 1)] /\
  merge_tagged (sel_fn SelLt) [2; 1; 2] [2; 3; 1] =
  [(O2, 2); (O1, 2); (O1, 1); (O1, 2); (O2, 3); (O2, 1)].
Proof. vm_compute. split; reflexivity. Qed.

(** * Sorted inputs merge into a sorted output *)

(* the selector decides by an order [leq] (ties either way: both [<] and [<=]
   qualify for the usual order) *)
Theorem C18_merge_sorted :
  forall (leq : Z -> Z -> Prop) (sf : Z -> Z -> bool) (l1 l2 : list Z),
  (forall x y, sf x y = true -> leq x y) ->
  (forall x y, sf x y = false -> leq y x) ->
  Sorted leq l1 -> Sorted leq l2 -> Sorted leq (merge_out sf l1 l2).
Proof. exact merge_sorted. Qed.
Print Assumptions C18_merge_sorted.

Theorem C18_merge_strongly_sorted :
  forall (leq : Z -> Z -> Prop) (sf : Z -> Z -> bool) (l1 l2 : list Z),
  (forall x y z, leq x y -> leq y z -> leq x z) ->
  (forall x y, sf x y = true -> leq x y) ->
  (forall x y, sf x y = false -> leq y x) ->
  StronglySorted leq l1 -> StronglySorted leq l2 -> StronglySorted leq (merge_out sf l1 l2).
Proof. exact merge_strongly_sorted. Qed.
Print Assumptions C18_merge_strongly_sorted.

(* the selector is itself the [<=] of a total preorder *)
Theorem C18_merge_sorted_total_preorder : forall (sf : Z -> Z -> bool) (l1 l2 : list Z),
  (forall x y, sf x y = true \/ sf y x = true) ->
  (forall x y z, sf x y = true -> sf y z = true -> sf x z = true) ->
  StronglySorted (fun a b => sf a b = true) l1 ->
  StronglySorted (fun a b => sf a b = true) l2 ->
  StronglySorted (fun a b => sf a b = true) (merge_out sf l1 l2).
Proof. exact merge_sorted_total_preorder. Qed.
Print Assumptions C18_merge_sorted_total_preorder.

(* the eight selectors of the harness, each with the order it merges by *)
Theorem C18_merge_sorted_sel : forall (s : sel) (l1 l2 : list Z),
  StronglySorted (sel_order s) l1 -> StronglySorted (sel_order s) l2 ->
  StronglySorted (sel_order s) (merge_out (sel_fn s) l1 l2).
Proof. exact merge_sorted_sel. Qed.
Print Assumptions C18_merge_sorted_sel.

Example C18_ex_sorted_hyp :
  StronglySorted (sel_order SelLt) [1; 2; 2; 5] /\ StronglySorted (sel_order SelLt) [2; 3].
Proof. split; repeat (constructor; try (cbn [sel_order]; lia)). Qed.

Example C18_ex_sorted_value :
  merge_out (sel_fn SelLt) [1; 2; 2; 5] [2; 3] = [1; 2; 2; 2; 3; 5].
Proof. vm_compute. reflexivity. Qed.

Example C18_ex_sorted : StronglySorted Z.le (merge_out (sel_fn SelLt) [1; 2; 2; 5] [2; 3]).
Proof.
  exact (C18_merge_sorted_sel SelLt _ _ (proj1 C18_ex_sorted_hyp) (proj2 C18_ex_sorted_hyp)).
Qed.

(* [<=] on Z meets the hypotheses of the total-preorder form *)
Example C18_ex_total_preorder_hyp :
  (forall x y, sel_fn SelLe x y = true \/ sel_fn SelLe y x = true) /\
  (forall x y z, sel_fn SelLe x y = true -> sel_fn SelLe y z = true -> sel_fn SelLe x z = true).
Proof. cbn [sel_fn]. split; intros; lia. Qed.

(** * HasNext is idempotent and agrees with the following Next *)

(* in every state of the model (any sources, reachable or not): a second
   HasNext returns the same answer and changes nothing *)
Theorem C18_hasnext_idem : forall (sf : Z -> Z -> bool) (m : mixer),
  mx_has_next sf (fst (mx_has_next sf m)) = mx_has_next sf m.
Proof. exact mx_has_next_idem. Qed.
Print Assumptions C18_hasnext_idem.

(* HasNext answers whether Next yields an element ... *)
Theorem C18_hasnext_agrees_next : forall (sf : Z -> Z -> bool) (m : mixer),
  snd (mx_has_next sf m) = snd (snd (mx_next sf m)).
Proof. exact mx_has_next_agrees_next. Qed.
Print Assumptions C18_hasnext_agrees_next.

(* ... and calling it first makes no difference to Next *)
Theorem C18_next_after_hasnext : forall (sf : Z -> Z -> bool) (m : mixer),
  mx_next sf (fst (mx_has_next sf m)) = mx_next sf m.
Proof. exact mx_next_after_has_next. Qed.
Print Assumptions C18_next_after_hasnext.

(* a Next that yields nothing returns the zero value; the mixer is exhausted *)
Theorem C18_next_not_ok : forall (sf : Z -> Z -> bool) (m : mixer),
  snd (snd (mx_next sf m)) = false ->
  mx_next sf m = (select_state sf m, (0, false)) /\ m_st (select_state sf m) = St3.
Proof. exact mx_next_not_ok. Qed.
Print Assumptions C18_next_not_ok.

Theorem C18_exhausted_sticky : forall (sf : Z -> Z -> bool) (m : mixer),
  m_st m = St3 ->
  mx_has_next sf m = (m, false) /\ mx_next sf m = (m, (0, false)).
Proof. exact mx_exhausted_sticky. Qed.
Print Assumptions C18_exhausted_sticky.

(* the same at the level of the specification *)
Theorem C18_spec_hasnext_idem : forall (sf : Z -> Z -> bool) (s : mspec),
  spec_step sf (fst (spec_step sf s CHasNext)) CHasNext = spec_step sf s CHasNext.
Proof. exact spec_has_next_idem. Qed.
Print Assumptions C18_spec_hasnext_idem.

Theorem C18_spec_hasnext_agrees_next : forall (sf : Z -> Z -> bool) (s : mspec),
  match snd (spec_step sf s CHasNext) with
  | OHas true => exists o v r1' r2',
      merge_step sf (sp_r1 s) (sp_r2 s) = Some (o, v, r1', r2') /\
      spec_step sf s CNext = (mkSpec (sp_l1 s) (sp_l2 s) r1' r2', ONext v true)
  | OHas false => spec_step sf s CNext = (s, ONext 0 false) /\ sp_r1 s = [] /\ sp_r2 s = []
  | _ => False
  end.
Proof. exact spec_has_next_agrees_next. Qed.
Print Assumptions C18_spec_hasnext_agrees_next.

(* a state in the middle of a merge: src1's look-ahead is loaded and waiting *)
Example C18_ex_hasnext :
  let m := snd (mx_run (sel_fn SelLe) (mx_init (wrap_ints [4; 6]) (wrap_ints [1; 5])) [CNext]) in
  m = mkMixer (mkDesc (mkSrc (wrap_items [4; 6]) (wrap_items [6]) true) true 4)
              (mkDesc (mkSrc (wrap_items [1; 5]) (wrap_items [5]) true) false 1) St0 /\
  snd (mx_has_next (sel_fn SelLe) m) = true /\
  snd (mx_next (sel_fn SelLe) m) = (4, true).
Proof. vm_compute. repeat split; reflexivity. Qed.

(** * Any call pattern obtains a prefix of the merge; draining gives all of it *)

Theorem C18_mixer_next_vals :
  forall (sf : Z -> Z -> bool) (rs1 rs2 : bool) (l1 l2 : list Z) (cs : list call),
  ~ In CReset cs ->
  next_vals (fst (mx_run sf (mx_init (src_of (wrap_items l1) rs1) (src_of (wrap_items l2) rs2)) cs)) =
  firstn (count_next cs) (merge_out sf l1 l2).
Proof. exact mixer_next_vals. Qed.
Print Assumptions C18_mixer_next_vals.

Theorem C18_mixer_drain : forall (sf : Z -> Z -> bool) (l1 l2 : list Z) (n : nat),
  (length l1 + length l2 <= n)%nat ->
  next_vals (fst (mx_run sf (mx_init (wrap_ints l1) (wrap_ints l2)) (repeat CNext n))) =
  merge_out sf l1 l2.
Proof. exact mixer_drain. Qed.
Print Assumptions C18_mixer_drain.

Theorem C18_mixer_drain_perm : forall (sf : Z -> Z -> bool) (l1 l2 : list Z) (n : nat),
  (length l1 + length l2 <= n)%nat ->
  Permutation
    (next_vals (fst (mx_run sf (mx_init (wrap_ints l1) (wrap_ints l2)) (repeat CNext n))))
    (l1 ++ l2).
Proof. exact mixer_drain_perm. Qed.
Print Assumptions C18_mixer_drain_perm.

Theorem C18_mixer_drain_sorted :
  forall (leq : Z -> Z -> Prop) (sf : Z -> Z -> bool) (l1 l2 : list Z) (n : nat),
  (forall x y z, leq x y -> leq y z -> leq x z) ->
  (forall x y, sf x y = true -> leq x y) ->
  (forall x y, sf x y = false -> leq y x) ->
  StronglySorted leq l1 -> StronglySorted leq l2 ->
  (length l1 + length l2 <= n)%nat ->
  StronglySorted leq
    (next_vals (fst (mx_run sf (mx_init (wrap_ints l1) (wrap_ints l2)) (repeat CNext n)))).
Proof. exact mixer_drain_sorted. Qed.
Print Assumptions C18_mixer_drain_sorted.

Example C18_ex_next_vals :
  next_vals (fst (mx_run (sel_fn SelLe) (mx_init (wrap_ints [2; 3]) (wrap_ints [1; 2; 5]))
                    [CHasNext; CNext; CHasNext; CHasNext; CNext; CNext])) = [1; 2; 2] /\
  merge_out (sel_fn SelLe) [2; 3] [1; 2; 5] = [1; 2; 2; 3; 5].
Proof. vm_compute. split; reflexivity. Qed.

Example C18_ex_drain :
  next_vals (fst (mx_run (sel_fn SelGe) (mx_init (wrap_ints [9; 4; 4]) (wrap_ints [7; 4]))
                    (repeat CNext 7))) = [9; 7; 4; 4; 4].
Proof. vm_compute. reflexivity. Qed.

(** * Reset restarts the merge *)

(* from every state reached from Init, Reset leads back to the state Init built *)
Theorem C18_reset_is_init : forall (sf : Z -> Z -> bool) (l1 l2 : list Z) (cs : list call),
  mx_reset (snd (mx_run sf (mx_init (wrap_ints l1) (wrap_ints l2)) cs)) =
  (mx_init (wrap_ints l1) (wrap_ints l2), ROk).
Proof. exact mixer_reset_is_init. Qed.
Print Assumptions C18_reset_is_init.

(* so the results after a Reset are those of a fresh mixer, whatever came before *)
Theorem C18_reset_restarts : forall (sf : Z -> Z -> bool) (l1 l2 : list Z) (cs1 cs2 : list call),
  fst (mx_run sf (mx_init (wrap_ints l1) (wrap_ints l2)) (cs1 ++ CReset :: cs2)) =
  fst (mx_run sf (mx_init (wrap_ints l1) (wrap_ints l2)) cs1) ++
  OReset ROk :: fst (mx_run sf (mx_init (wrap_ints l1) (wrap_ints l2)) cs2).
Proof. exact mixer_reset_restarts. Qed.
Print Assumptions C18_reset_restarts.

Theorem C18_spec_reset_restarts : forall (sf : Z -> Z -> bool) (s : mspec) (cs : list call),
  spec_run sf s (CReset :: cs) =
  (OReset ROk :: fst (spec_run sf (spec_init (sp_l1 s) (sp_l2 s)) cs),
   snd (spec_run sf (spec_init (sp_l1 s) (sp_l2 s)) cs)).
Proof. exact spec_reset_restarts. Qed.
Print Assumptions C18_spec_reset_restarts.

(* Reset with a loaded look-ahead on both sides and a decided state *)
Example C18_ex_reset :
  let m := snd (mx_run (sel_fn SelLt) (mx_init (wrap_ints [4; 6]) (wrap_ints [1; 5])) [CNext; CHasNext]) in
  m_st m = St1 /\ d_load (m_src1 m) = true /\ d_load (m_src2 m) = true /\
  mx_reset m = (mx_init (wrap_ints [4; 6]) (wrap_ints [1; 5]), ROk).
Proof. vm_compute. repeat split; reflexivity. Qed.

(** * Outside the property's premises: what the code does there (model only;
      compared with the implementation when the harness runs with --exact) *)

(* a Reset that fails (a source is not a Reseter) has already dropped a
   look-ahead but keeps the decided state: the next Next "emits" the zero
   value, 5 is lost *)
Example C18_ex_failed_reset :
  fst (mx_run (sel_fn SelLe)
         (mx_init (src_of (wrap_items [5]) false) (src_of (wrap_items [7]) true))
         [CHasNext; CReset; CNext; CNext; CNext]) =
  [OHas true; OReset RUnimpl; ONext 0 true; ONext 7 true; ONext 0 false] /\
  fst (mx_run (sel_fn SelLe)
         (mx_init (src_of (wrap_items [7]) true) (src_of (wrap_items [5]) false))
         [CHasNext; CReset; CNext; CNext; CNext; CNext]) =
  [OHas true; OReset RDataLoss; ONext 0 true; ONext 7 true; ONext 0 false; ONext 0 false].
Proof. vm_compute. split; reflexivity. Qed.

(* a source whose Next reports "no value" although HasNext was true: at the
   end of the source (the case iterator.go documents) the merge is unaffected;
   in the middle, the mixer can declare itself exhausted early *)
Example C18_ex_ghost_items :
  fst (mx_run (sel_fn SelLe)
         (mx_init (src_of [(1, true); (0, false)] true) (src_of [(2, true)] true))
         [CNext; CNext; CNext; CHasNext]) =
  [ONext 1 true; ONext 2 true; ONext 0 false; OHas false] /\
  fst (mx_run (sel_fn SelLe)
         (mx_init (src_of [(0, false); (1, true)] true) (src_of [] true))
         [CHasNext; CNext; CHasNext]) =
  [OHas false; ONext 0 false; OHas false].
Proof. vm_compute. split; reflexivity. Qed.
