(** C13: every live future fires; the worker pool adapts and winds down
    (timeout/timeout.go; model: model/TPool.v over model/THeap.v; proofs:
    proofs/C13_TPool.v and proofs/C13_Coverage.v, which build on proofs/C12_TPool.v,
    proofs/C12_THeap.v, proofs/C12_HeapOrder.v and proofs/C12_PoolOrder.v).

    Eventualities are stated as what the model makes provable without a fairness
    assumption on the Go scheduler: coverage invariants ("somebody is about to look at
    the heap, or will wake up in time") and a ranking function for wind-down. *)
From Coq Require Import List ZArith NArith Bool Lia.
From GL Require Import model.THeap model.TPool proofs.C12_THeap proofs.C12_TPool proofs.C13_TPool proofs.C13_Coverage.
Import ListNotations.
Open Scope Z_scope.

(** * The invariant of every reachable state (Appendix B: F0, burst_bounded, tokens, F1,
      weak coverage) *)

Theorem C13_pool_inv_reachable : forall (idle maxw wcap tokens0 : Z) (tr : list label) (p : pool),
  0 <= idle -> 1 <= maxw -> 1 <= wcap -> 0 <= tokens0 <= wcap ->
  run (init_pool idle maxw wcap tokens0) tr = Some p -> pool_inv p.
Proof. exact pool_inv_reachable. Qed.
Print Assumptions C13_pool_inv_reachable.

(** [pool_inv], unfolded *)
Theorem C13_invariants : forall (idle maxw wcap tokens0 : Z) (tr : list label) (p : pool),
  0 <= idle -> 1 <= maxw -> 1 <= wcap -> 0 <= tokens0 <= wcap ->
  run (init_pool idle maxw wcap tokens0) tr = Some p ->
  (* F0 *) watchers p = live_workers p /\ (arr (hp p) <> [] -> 1 <= watchers p) /\
  (* burst_bounded *) watchers p <= maxw /\
  (* the wake channel *) 0 <= tokens p <= wcap /\
  (* F1: with two or more workers every sleeper wakes within idle *)
  (2 <= watchers p -> forall w m u, pc_of p w = Sleeping m u -> u <= now p + idle) /\
  (* weak coverage: with a non-empty heap some worker is deciding or running, or a token is
     buffered for a sleeper, or a sleeper wakes no later than max (head's fire time, now + idle) *)
  (arr (hp p) <> [] ->
     (exists w, active (pc_of p w)) \/
     (0 < tokens p /\ exists w m u, pc_of p w = Sleeping m u) \/
     (exists w m u, pc_of p w = Sleeping m u /\ (u <= head_fire (hp p) \/ u <= now p + idle))).
Proof.
  intros i m c k tr p Hi Hm Hc Hk Hr.
  assert (Hpar : idle p = i /\ maxw p = m /\ wcap p = c).
  { clear - Hr. set (p0 := init_pool i m c k) in *.
    assert (G : forall tr q p, run q tr = Some p -> idle p = idle q /\ maxw p = maxw q /\ wcap p = wcap q).
    { clear. induction tr as [|l tr IH]; intros q p Hr; cbn [run] in Hr.
      - injection Hr as <-. auto.
      - destruct (step q l) as [q1|] eqn:Es; [|discriminate].
        destruct (IH q1 p Hr) as [A [B C]]. rewrite A, B, C. clear - Es.
        unfold step in Es. destruct (label_time l <? now q); [discriminate|].
        destruct l as [x d tc nn t|x t|w t|w t|w t|w t]; cbn [label_time] in Es.
        + destruct (tc >? t); [discriminate|]. destruct nn.
          * destruct (do_call_nonnil _ x d tc q1 Es) as [h [_ [A [B [C _]]]]]. auto.
          * destruct (do_call_nil _ x d tc q1 Es) as [_ [_ [_ [_ [_ [A [B [C _]]]]]]]]. auto.
        + unfold do_cancel in Es. destruct (negb (was_called _ x)); [discriminate|].
          destruct (idx _ <? 0); [injection Es as <-; auto|].
          match type of Es with Some (if ?c then _ else _) = _ => destruct c end; injection Es as <-; auto.
        + destruct (pc_of _ w) as [mis| | |]; try discriminate. injection Es as <-.
          destruct (decide_out_intro (with_now q t) w mis t) as [? ?|u ?|h1 x sp ? ? ? ?]; auto.
          destruct sp; auto.
        + destruct (pc_of _ w); try discriminate. destruct (t <? until); [discriminate|].
          injection Es as <-. auto.
        + destruct (pc_of _ w); try discriminate. destruct (tokens _ >? 0); [|discriminate].
          injection Es as <-. auto.
        + destruct (pc_of _ w); try discriminate. injection Es as <-. auto. }
    apply (G tr p0 p Hr). }
  destruct Hpar as [<- [<- <-]].
  destruct (pool_inv_reachable _ _ _ _ tr p Hi Hm Hc Hk Hr) as [Par W F0 B T F1 WC].
  repeat (split; [assumption|]). exact WC.
Qed.
Print Assumptions C13_invariants.

(** * spawn_iff_none *)

Theorem C13_no_watchers_iff_all_gone : forall p, pool_inv p ->
  (watchers p = 0 <-> forall w, pc_of p w = Gone).
Proof. exact no_watchers_iff_all_gone. Qed.
Print Assumptions C13_no_watchers_iff_all_gone.

Theorem C13_call_spawns_iff_none : forall p x d tc t p',
  step p (LCall x d tc true t) = Some p' ->
  (watchers p = 0 -> watchers p' = 1 /\ workers p' = workers p ++ [Deciding 1] /\ tokens p' = tokens p) /\
  (watchers p <> 0 -> watchers p' = watchers p /\ workers p' = workers p /\
                      tokens p' = (if tokens p <? wcap p then tokens p + 1 else tokens p)).
Proof. exact call_spawns_iff_none. Qed.
Print Assumptions C13_call_spawns_iff_none.

(** * no_early_exit: a worker gives up only after two rounds without work and only when
      the heap is empty or another worker remains (which then satisfies [pool_inv], in
      particular weak coverage) *)
Theorem C13_no_early_exit : forall p w t p' mis,
  step p (LDecide w t) = Some p' -> pc_of p w = Deciding mis -> pc_of p' w = Gone ->
  1 < mis /\ (arr (hp p) = [] \/ (1 < watchers p /\ t <= head_fire (hp p))) /\
  watchers p' = watchers p - 1.
Proof. exact no_early_exit. Qed.
Print Assumptions C13_no_early_exit.

(** * coverage (Appendix B), at full strength.

    For every state p reached by an accepted trace that respects the timer fact "a wake-up
    by timer happens strictly after until" ([strict_run]: every LWakeTimer w t label has
    until < t; time.NewTimer is armed after the locked section that computed until from an
    earlier clock reading):
      covered p  :=  arr (hp p) <> [] ->
           (exists w, active (pc_of p w))                                  (deciding / running)
        \/ (exists w m u, pc_of p w = Sleeping m u /\ u <= now p)           (expired sleeper)
        \/ (0 < tokens p /\ exists sleeper)                                 (buffered wake-up)
        \/ (exists w m u, pc_of p w = Sleeping m u /\ u <= head_fire (hp p)) (wakes in time).
    The proof is an inductive invariant ([cov_inv], proofs/C13_Coverage.v) under which the
    exit of a worker with misCount > 1 that leaves only sleepers is a trivial step; the
    argument sits in "fall asleep" (a worker that is not alone sleeps until the head's fire
    time or until now + idle, and by F1 nobody sleeps longer) and in "timer wake-up strictly
    after until" (the head slept for is due, or every possibly stale sleeper has expired). *)
Theorem C13_coverage : forall (idle maxw wcap tokens0 : Z) (tr : list label) (p : pool),
  0 <= idle -> 1 <= maxw -> 1 <= wcap -> 0 <= tokens0 <= wcap ->
  run (init_pool idle maxw wcap tokens0) tr = Some p ->
  strict_run (init_pool idle maxw wcap tokens0) tr = true ->
  covered p.
Proof. exact coverage. Qed.
Print Assumptions C13_coverage.

(** the invariant behind it, one step at a time *)
Theorem C13_coverage_step : forall p l p',
  pool_ok p -> pool_inv p -> cov_inv p -> step p l = Some p' -> strict_label p l = true ->
  cov_inv p' /\ (pool_inv p' -> covered p').
Proof.
  intros p l p' Hok Hinv Hc Hs Hst.
  pose proof (cov_inv_step p l p' Hok Hinv Hc Hs Hst) as H.
  split; [exact H|]. intros Hinv'. apply cov_inv_covered; assumption.
Qed.
Print Assumptions C13_coverage_step.

(** the timer fact cannot be dropped: with a timer that may fire AT until there is an
    accepted trace (maxWorkers = 2) that ends in a state that is not covered - a worker
    wakes at the exact fire time of the head, finds it not yet due (now.After is strict),
    has slept twice, is not alone and exits; the remaining worker sleeps past the head *)
Theorem C13_coverage_needs_strict_timers :
  exists tr p, run (init_pool 50 2 2 0) tr = Some p /\ strict_run (init_pool 50 2 2 0) tr = false /\ ~ covered p.
Proof. exact coverage_needs_strict_timers. Qed.
Print Assumptions C13_coverage_needs_strict_timers.

(** * every live future fires, as far as the model can say it without a fair scheduler:
      the dispatcher is never stuck with a due future.  While a future whose fire time has
      passed is pending, some worker label (Decide / CbEnd / WakeToken / WakeTimer) is
      enabled at the current instant or one tick later, and taking it respects the timer
      fact.  Together with [C12_started_is_minimal] (a pop takes the earliest future) and
      [C13_wind_down_bounded]-style ranking this is the model-level content of "is
      eventually started"; that the Go scheduler takes enabled steps is sampled by the
      correspondence run (bounded lateness with a quiet canary), not proved. *)
Theorem C13_due_head_progress : forall p,
  covered p -> arr (hp p) <> [] -> head_fire (hp p) < now p ->
  exists l, worker_label l = true /\ now p <= label_time l <= now p + 1 /\
            strict_label p l = true /\ step p l <> None.
Proof. exact due_head_progress. Qed.
Print Assumptions C13_due_head_progress.

Theorem C13_never_stuck : forall (idle maxw wcap tokens0 : Z) (tr : list label) (p : pool) (x : fid),
  0 <= idle -> 1 <= maxw -> 1 <= wcap -> 0 <= tokens0 <= wcap ->
  run (init_pool idle maxw wcap tokens0) tr = Some p ->
  strict_run (init_pool idle maxw wcap tokens0) tr = true ->
  In x (pending p) -> fireT (get (hs (hp p)) x) < now p ->
  exists l, worker_label l = true /\ now p <= label_time l <= now p + 1 /\
            strict_label p l = true /\ step p l <> None.
Proof. exact never_stuck. Qed.
Print Assumptions C13_never_stuck.

(** ... and a due head is started after at most [watchers] + 1 worker steps: while the head
    is due every locked section pops, and every live worker is at most one step (timer or
    token wake-up, callback return) away from its next locked section.  No timer fact and
    no fairness premise: the statement is about every accepted run of worker labels. *)
Theorem C13_due_head_started_within : forall (idle maxw wcap tokens0 : Z) (tr0 : list label) (p : pool)
                                             (tr : list label) (p' : pool),
  0 <= idle -> 1 <= maxw -> 1 <= wcap -> 0 <= tokens0 <= wcap ->
  run (init_pool idle maxw wcap tokens0) tr0 = Some p ->
  arr (hp p) <> [] -> head_fire (hp p) < now p ->
  forallb worker_label tr = true -> run p tr = Some p' ->
  watchers p < Z.of_nat (length tr) ->
  trace_starts p tr <> [].
Proof. exact due_head_started_within. Qed.
Print Assumptions C13_due_head_started_within.

(** coverage for a pool limited to one worker holds without the timer fact (the exit with a
    non-empty heap needs a second worker) *)
Theorem C13_coverage_single_worker : forall (idle wcap tokens0 : Z) (tr : list label) (p : pool),
  0 <= idle -> 1 <= wcap -> 0 <= tokens0 <= wcap ->
  run (init_pool idle 1 wcap tokens0) tr = Some p -> covered p.
Proof. exact coverage_single_worker. Qed.
Print Assumptions C13_coverage_single_worker.

(** * wind_down: with an empty heap and no further Call/Cancel every run of worker
      labels is finite (at most [rank p] steps) and ends, when nothing is enabled any
      more, with no worker left *)
Theorem C13_wind_down_bounded : forall tr p p',
  arr (hp p) = [] -> 0 <= tokens p -> forallb worker_label tr = true -> run p tr = Some p' ->
  Z.of_nat (length tr) <= rank p - rank p' /\ arr (hp p') = [] /\ 0 <= rank p'.
Proof. exact wind_down_bounded. Qed.
Print Assumptions C13_wind_down_bounded.

Theorem C13_wind_down_end : forall p, pool_inv p ->
  (forall l, worker_label l = true -> now p <= label_time l -> step p l = None) ->
  watchers p = 0.
Proof. exact wind_down_end. Qed.
Print Assumptions C13_wind_down_end.

(** * restart: a Call that finds no worker spawns one, and that worker can decide *)
Theorem C13_restart : forall p x d tc t p',
  watchers p = 0 -> step p (LCall x d tc true t) = Some p' ->
  watchers p' = 1 /\ pc_of p' (length (workers p)) = Deciding 1 /\
  forall t', t <= t' -> step p' (LDecide (length (workers p)) t') <> None.
Proof. exact restart. Qed.
Print Assumptions C13_restart.

(** * non-vacuity *)

(* a burst of three due futures on a pool limited to two workers: the second worker is
   spawned by the popping one, a third is not; both go to sleep on the empty heap *)
Definition C13_ex_burst : list label :=
  [LCall 1%N 0 0 true 0; LCall 2%N 0 0 true 0; LCall 3%N 0 0 true 0; LDecide 0 1; LDecide 1 1;
   LCbEnd 0 2; LDecide 0 2; LCbEnd 1 3; LDecide 1 3; LCbEnd 0 4; LDecide 0 4].

Definition C13_view (p : pool) := (dump (hp p), watchers p, tokens p, workers p, rank p).

Example C13_ex_burst_state :
  option_map C13_view (run (init_pool 50 2 2 0) C13_ex_burst)
  = Some ([], 2, 2, [Sleeping 0 54; Sleeping 0 53], 12).
Proof. vm_compute. reflexivity. Qed.

(* wind-down: stale tokens are consumed, both workers sleep twice and exit; 8 <= rank = 12 *)
Definition C13_ex_wind : list label :=
  [LWakeToken 1 5; LDecide 1 5; LWakeToken 0 6; LDecide 0 6; LWakeTimer 1 55; LDecide 1 55;
   LWakeTimer 0 56; LDecide 0 60].

Example C13_ex_wind_state :
  option_map C13_view (run (init_pool 50 2 2 0) (C13_ex_burst ++ C13_ex_wind))
  = Some ([], 0, 0, [Gone; Gone], 0)
  /\ forallb worker_label C13_ex_wind = true.
Proof. vm_compute. split; reflexivity. Qed.

(* restart: the next Call spawns worker 2, which sleeps towards the deadline and runs it *)
Example C13_ex_restart :
  option_map C13_view
    (run (init_pool 50 2 2 0)
         (C13_ex_burst ++ C13_ex_wind ++ [LCall 4%N 5 61 true 61; LDecide 2 62; LWakeTimer 2 66; LDecide 2 67]))
  = Some ([], 1, 0, [Gone; Gone; Running 4%N], 6).
Proof. vm_compute. reflexivity. Qed.

(* an exit with a non-empty heap (the delicate step): worker 1 gives up after two rounds
   while worker 0 sleeps towards the far future 9 *)
Example C13_ex_delicate :
  option_map (fun p => (dump (hp p), watchers p, workers p))
    (run (init_pool 50 2 2 0)
       [LCall 1%N 0 0 true 0; LCall 2%N 0 0 true 0; LCall 9%N 1000 0 true 0; LDecide 0 1; LDecide 1 1;
        LCbEnd 0 2; LDecide 0 2; LCbEnd 1 3; LDecide 1 3; LWakeToken 0 3; LDecide 0 3;
        LWakeTimer 1 54; LDecide 1 54; LWakeTimer 1 105; LDecide 1 105])
  = Some ([(9%N, 0)], 1, [Sleeping 1 53; Gone]).
Proof. vm_compute. reflexivity. Qed.

(* ... and that trace respects the timer fact, so [C13_coverage] applies to it: the state
   after the exit is covered by worker 0, which sleeps until 53 <= 1000 *)
Example C13_ex_delicate_strict :
  strict_run (init_pool 50 2 2 0)
       [LCall 1%N 0 0 true 0; LCall 2%N 0 0 true 0; LCall 9%N 1000 0 true 0; LDecide 0 1; LDecide 1 1;
        LCbEnd 0 2; LDecide 0 2; LCbEnd 1 3; LDecide 1 3; LWakeToken 0 3; LDecide 0 3;
        LWakeTimer 1 54; LDecide 1 54; LWakeTimer 1 105; LDecide 1 105] = true.
Proof. vm_compute. reflexivity. Qed.

(* never stuck: future 1 (due at 5) is still pending at 10 because the only worker sleeps
   until 5 and has not been scheduled yet; the hypotheses of [C13_never_stuck] hold and the
   enabled label is the worker's timer wake-up *)
Definition C13_ex_due : list label := [LCall 1%N 5 0 true 0; LDecide 0 1; LCall 2%N 100 10 true 10].

Example C13_ex_due_state :
  option_map (fun p => (dump (hp p), workers p, tokens p, now p, fireT (get (hs (hp p)) 1%N),
                        existsb (N.eqb 1%N) (pending p),
                        match step p (LWakeTimer 0 10) with Some _ => true | None => false end))
             (run (init_pool 50 2 2 0) C13_ex_due)
  = Some ([(1%N, 0); (2%N, 1)], [Sleeping 1 5], 1, 10, 5, true, true)
  /\ strict_run (init_pool 50 2 2 0) C13_ex_due = true.
Proof. vm_compute. split; reflexivity. Qed.

(* started within watchers + 1 steps: from the state of [C13_ex_due] (one worker, asleep,
   head due) two worker labels are possible before a start - not more: the timer wake-up,
   then the locked section that pops future 1 *)
Example C13_ex_due_started :
  option_map (fun p => (watchers p, trace_starts p [LWakeTimer 0 10; LDecide 0 11]))
             (run (init_pool 50 2 2 0) C13_ex_due)
  = Some (1, [(1%N, 11)]).
Proof. vm_compute. reflexivity. Qed.
