(** C13: every live future fires; the worker pool adapts and winds down
    (timeout/timeout.go; model: model/TPool.v over model/THeap.v; proofs:
    proofs/C13_TPool.v, which builds on proofs/C12_TPool.v and proofs/C12_THeap.v).

    Eventualities are stated as what the model makes provable without a fairness
    assumption on the Go scheduler: coverage invariants ("somebody is about to look at
    the heap, or will wake up in time") and a ranking function for wind-down. *)
From Coq Require Import List ZArith NArith Bool Lia.
From GL Require Import model.THeap model.TPool proofs.C12_THeap proofs.C12_TPool proofs.C13_TPool.
Import ListNotations.
Open Scope Z_scope.

(** * The invariant of every reachable state (Appendix B: F0, burst_bounded, tokens, F1,
      weak coverage) *)

Theorem C13_pool_inv_reachable : forall (idle maxw wcap tokens0 : Z) (tr : list label) (p : pool),
  0 <= idle -> 1 <= maxw -> 1 <= wcap -> 0 <= tokens0 <= wcap ->
  run (init_pool idle maxw wcap tokens0) tr = Some p -> pool_inv p.
Proof. exact pool_inv_reachable. Qed.
Print Assumptions C13_pool_inv_reachable.

(** [pool_inv], unfolded *)
Theorem C13_invariants : forall (idle maxw wcap tokens0 : Z) (tr : list label) (p : pool),
  0 <= idle -> 1 <= maxw -> 1 <= wcap -> 0 <= tokens0 <= wcap ->
  run (init_pool idle maxw wcap tokens0) tr = Some p ->
  (* F0 *) watchers p = live_workers p /\ (arr (hp p) <> [] -> 1 <= watchers p) /\
  (* burst_bounded *) watchers p <= maxw /\
  (* the wake channel *) 0 <= tokens p <= wcap /\
  (* F1: with two or more workers every sleeper wakes within idle *)
  (2 <= watchers p -> forall w m u, pc_of p w = Sleeping m u -> u <= now p + idle) /\
  (* weak coverage: with a non-empty heap some worker is deciding or running, or a token is
     buffered for a sleeper, or a sleeper wakes no later than max (head's fire time, now + idle) *)
  (arr (hp p) <> [] ->
     (exists w, active (pc_of p w)) \/
     (0 < tokens p /\ exists w m u, pc_of p w = Sleeping m u) \/
     (exists w m u, pc_of p w = Sleeping m u /\ (u <= head_fire (hp p) \/ u <= now p + idle))).
Proof.
  intros i m c k tr p Hi Hm Hc Hk Hr.
  assert (Hpar : idle p = i /\ maxw p = m /\ wcap p = c).
  { clear - Hr. set (p0 := init_pool i m c k) in *.
    assert (G : forall tr q p, run q tr = Some p -> idle p = idle q /\ maxw p = maxw q /\ wcap p = wcap q).
    { clear. induction tr as [|l tr IH]; intros q p Hr; cbn [run] in Hr.
      - injection Hr as <-. auto.
      - destruct (step q l) as [q1|] eqn:Es; [|discriminate].
        destruct (IH q1 p Hr) as [A [B C]]. rewrite A, B, C. clear - Es.
        unfold step in Es. destruct (label_time l <? now q); [discriminate|].
        destruct l as [x d tc nn t|x t|w t|w t|w t|w t]; cbn [label_time] in Es.
        + destruct (tc >? t); [discriminate|]. destruct nn.
          * destruct (do_call_nonnil _ x d tc q1 Es) as [h [_ [A [B [C _]]]]]. auto.
          * destruct (do_call_nil _ x d tc q1 Es) as [_ [_ [_ [_ [_ [A [B [C _]]]]]]]]. auto.
        + unfold do_cancel in Es. destruct (negb (was_called _ x)); [discriminate|].
          destruct (idx _ <? 0); [injection Es as <-; auto|].
          match type of Es with Some (if ?c then _ else _) = _ => destruct c end; injection Es as <-; auto.
        + destruct (pc_of _ w) as [mis| | |]; try discriminate. injection Es as <-.
          destruct (decide_out_intro (with_now q t) w mis t) as [? ?|u ?|h1 x sp ? ? ? ?]; auto.
          destruct sp; auto.
        + destruct (pc_of _ w); try discriminate. destruct (t <? until); [discriminate|].
          injection Es as <-. auto.
        + destruct (pc_of _ w); try discriminate. destruct (tokens _ >? 0); [|discriminate].
          injection Es as <-. auto.
        + destruct (pc_of _ w); try discriminate. injection Es as <-. auto. }
    apply (G tr p0 p Hr). }
  destruct Hpar as [<- [<- <-]].
  destruct (pool_inv_reachable _ _ _ _ tr p Hi Hm Hc Hk Hr) as [Par W F0 B T F1 WC].
  repeat (split; [assumption|]). exact WC.
Qed.
Print Assumptions C13_invariants.

(** * spawn_iff_none *)

Theorem C13_no_watchers_iff_all_gone : forall p, pool_inv p ->
  (watchers p = 0 <-> forall w, pc_of p w = Gone).
Proof. exact no_watchers_iff_all_gone. Qed.
Print Assumptions C13_no_watchers_iff_all_gone.

Theorem C13_call_spawns_iff_none : forall p x d tc t p',
  step p (LCall x d tc true t) = Some p' ->
  (watchers p = 0 -> watchers p' = 1 /\ workers p' = workers p ++ [Deciding 1] /\ tokens p' = tokens p) /\
  (watchers p <> 0 -> watchers p' = watchers p /\ workers p' = workers p /\
                      tokens p' = (if tokens p <? wcap p then tokens p + 1 else tokens p)).
Proof. exact call_spawns_iff_none. Qed.
Print Assumptions C13_call_spawns_iff_none.

(** * no_early_exit: a worker gives up only after two rounds without work and only when
      the heap is empty or another worker remains (which then satisfies [pool_inv], in
      particular weak coverage) *)
Theorem C13_no_early_exit : forall p w t p' mis,
  step p (LDecide w t) = Some p' -> pc_of p w = Deciding mis -> pc_of p' w = Gone ->
  1 < mis /\ (arr (hp p) = [] \/ (1 < watchers p /\ t <= head_fire (hp p))) /\
  watchers p' = watchers p - 1.
Proof. exact no_early_exit. Qed.
Print Assumptions C13_no_early_exit.

(** * coverage.

    Full statement aimed at (Appendix B), for every reachable state p, under the timer
    fact "a wake-up by timer happens strictly after until":
      covered p  :=  arr (hp p) <> [] ->
           (exists w, active (pc_of p w))
        \/ (exists w m u, pc_of p w = Sleeping m u /\ u <= now p)
        \/ (0 < tokens p /\ exists sleeper)
        \/ (exists w m u, pc_of p w = Sleeping m u /\ u <= head_fire (hp p)).
    Proved: [covered] holds initially and is preserved by every step except possibly the
    exit of a worker with misCount > 1 while the heap is non-empty and another worker
    exists ([delicate_exit]); for that step the remaining workers are still covered in the
    weak sense of [C13_invariants] (lateness bounded by idle in the model), and with
    maxWorkers = 1 the delicate step cannot occur, so [covered] is a full invariant.
    Missing for the full statement: the ordering argument on sleep start times of
    Appendix B (a stale sleeper went to sleep before the exiting worker's own capped
    sleep and has expired), which needs ghost sleep-start stamps. *)
Theorem C13_coverage_partial : forall p l p',
  pool_ok p -> pool_inv p -> covered p -> step p l = Some p' ->
  covered p' \/ delicate_exit p l.
Proof. exact coverage_step_partial. Qed.
Print Assumptions C13_coverage_partial.

Theorem C13_coverage_single_worker : forall (idle wcap tokens0 : Z) (tr : list label) (p : pool),
  0 <= idle -> 1 <= wcap -> 0 <= tokens0 <= wcap ->
  run (init_pool idle 1 wcap tokens0) tr = Some p -> covered p.
Proof. exact coverage_single_worker. Qed.
Print Assumptions C13_coverage_single_worker.

(** * wind_down: with an empty heap and no further Call/Cancel every run of worker
      labels is finite (at most [rank p] steps) and ends, when nothing is enabled any
      more, with no worker left *)
Theorem C13_wind_down_bounded : forall tr p p',
  arr (hp p) = [] -> 0 <= tokens p -> forallb worker_label tr = true -> run p tr = Some p' ->
  Z.of_nat (length tr) <= rank p - rank p' /\ arr (hp p') = [] /\ 0 <= rank p'.
Proof. exact wind_down_bounded. Qed.
Print Assumptions C13_wind_down_bounded.

Theorem C13_wind_down_end : forall p, pool_inv p ->
  (forall l, worker_label l = true -> now p <= label_time l -> step p l = None) ->
  watchers p = 0.
Proof. exact wind_down_end. Qed.
Print Assumptions C13_wind_down_end.

(** * restart: a Call that finds no worker spawns one, and that worker can decide *)
Theorem C13_restart : forall p x d tc t p',
  watchers p = 0 -> step p (LCall x d tc true t) = Some p' ->
  watchers p' = 1 /\ pc_of p' (length (workers p)) = Deciding 1 /\
  forall t', t <= t' -> step p' (LDecide (length (workers p)) t') <> None.
Proof. exact restart. Qed.
Print Assumptions C13_restart.

(** * non-vacuity *)

(* a burst of three due futures on a pool limited to two workers: the second worker is
   spawned by the popping one, a third is not; both go to sleep on the empty heap *)
Definition C13_ex_burst : list label :=
  [LCall 1%N 0 0 true 0; LCall 2%N 0 0 true 0; LCall 3%N 0 0 true 0; LDecide 0 1; LDecide 1 1;
   LCbEnd 0 2; LDecide 0 2; LCbEnd 1 3; LDecide 1 3; LCbEnd 0 4; LDecide 0 4].

Definition C13_view (p : pool) := (dump (hp p), watchers p, tokens p, workers p, rank p).

Example C13_ex_burst_state :
  option_map C13_view (run (init_pool 50 2 2 0) C13_ex_burst)
  = Some ([], 2, 2, [Sleeping 0 54; Sleeping 0 53], 12).
Proof. vm_compute. reflexivity. Qed.

(* wind-down: stale tokens are consumed, both workers sleep twice and exit; 8 <= rank = 12 *)
Definition C13_ex_wind : list label :=
  [LWakeToken 1 5; LDecide 1 5; LWakeToken 0 6; LDecide 0 6; LWakeTimer 1 55; LDecide 1 55;
   LWakeTimer 0 56; LDecide 0 60].

Example C13_ex_wind_state :
  option_map C13_view (run (init_pool 50 2 2 0) (C13_ex_burst ++ C13_ex_wind))
  = Some ([], 0, 0, [Gone; Gone], 0)
  /\ forallb worker_label C13_ex_wind = true.
Proof. vm_compute. split; reflexivity. Qed.

(* restart: the next Call spawns worker 2, which sleeps towards the deadline and runs it *)
Example C13_ex_restart :
  option_map C13_view
    (run (init_pool 50 2 2 0)
         (C13_ex_burst ++ C13_ex_wind ++ [LCall 4%N 5 61 true 61; LDecide 2 62; LWakeTimer 2 66; LDecide 2 67]))
  = Some ([], 1, 0, [Gone; Gone; Running 4%N], 6).
Proof. vm_compute. reflexivity. Qed.

(* an exit with a non-empty heap (the delicate step): worker 1 gives up after two rounds
   while worker 0 sleeps towards the far future 9 *)
Example C13_ex_delicate :
  option_map (fun p => (dump (hp p), watchers p, workers p))
    (run (init_pool 50 2 2 0)
       [LCall 1%N 0 0 true 0; LCall 2%N 0 0 true 0; LCall 9%N 1000 0 true 0; LDecide 0 1; LDecide 1 1;
        LCbEnd 0 2; LDecide 0 2; LCbEnd 1 3; LDecide 1 3; LWakeToken 0 3; LDecide 0 3;
        LWakeTimer 1 54; LDecide 1 54; LWakeTimer 1 105; LDecide 1 105])
  = Some ([(9%N, 0)], 1, [Sleeping 1 53; Gone]).
Proof. vm_compute. reflexivity. Qed.
