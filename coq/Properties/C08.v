(** C08: headline theorems about container/lru (ecache.go, cache.go, expirable.go).
    Model: model/ECache.v (sequential cache over the contract of the ordered map),
    specification: spec/LRU.v (reference LRU), proofs: proofs/C08_ECache.v,
    proofs/C08_LRU.v, proofs/C08_Corollaries.v.

    All statements are for every type of primary keys, inner keys (with a
    decidable equality) and values, every key mapping, every capacity
    (NewECache only admits capacities >= 1; the theorems do not need that)
    and every sequence of calls with every script of create-function answers. *)
From Coq Require Import List ZArith NArith Arith Bool Lia Permutation.
From GL Require Import spec.LRU model.ECache proofs.C08_ECache proofs.C08_LRU proofs.C08_Corollaries.
Import ListNotations.

(** * Refinement: the cache is a reference LRU *)

(* call by call the same results and the same create / delete callback
   invocations with the same arguments in the same order; covers GetOrCreate,
   Remove, Clear and ExpirableCache.GetOrCreate mixed freely *)
Theorem C08_ecache_refines_lru :
  forall (PK K V : Type) (keqb : K -> K -> bool),
  (forall a b : K, reflect (a = b) (keqb a b)) ->
  forall (kmap : PK -> K) (expires : V -> Z) (cap : nat) (ops : list (lru_op PK V)),
  fst (fst (ec_run keqb kmap expires (ec_new cap) ops))
    = fst (lru_run keqb kmap expires cap [] ops).
Proof. exact @ecache_refines_lru. Qed.
Print Assumptions C08_ecache_refines_lru.

(* the resident entries, least recently used first, are the recency list *)
Theorem C08_ecache_final_state :
  forall (PK K V : Type) (keqb : K -> K -> bool),
  (forall a b : K, reflect (a = b) (keqb a b)) ->
  forall (kmap : PK -> K) (expires : V -> Z) (cap : nat) (ops : list (lru_op PK V)),
  ec_resident (snd (fst (ec_run keqb kmap expires (ec_new cap) ops)))
    = snd (lru_run keqb kmap expires cap [] ops).
Proof. exact @ecache_final_state. Qed.
Print Assumptions C08_ecache_final_state.

(* the iterator loop of Clear terminates within its fuel *)
Theorem C08_ecache_never_out_of_fuel :
  forall (PK K V : Type) (keqb : K -> K -> bool),
  (forall a b : K, reflect (a = b) (keqb a b)) ->
  forall (kmap : PK -> K) (expires : V -> Z) (cap : nat) (ops : list (lru_op PK V)),
  snd (ec_run keqb kmap expires (ec_new cap) ops) = false.
Proof. exact @ecache_never_out_of_fuel. Qed.
Print Assumptions C08_ecache_never_out_of_fuel.

(* the ExpirableCache API (no direct Cache.GetOrCreate) *)
Theorem C08_expirable_refines :
  forall (PK K V : Type) (keqb : K -> K -> bool),
  (forall a b : K, reflect (a = b) (keqb a b)) ->
  forall (kmap : PK -> K) (expires : V -> Z) (cap : nat) (ops : list (lru_op PK V)),
  Forall (fun o => match o with OGet _ _ => False | _ => True end) ops ->
  fst (fst (ec_run keqb kmap expires (ec_new cap) ops))
    = fst (lru_run keqb kmap expires cap [] ops).
Proof. exact @expirable_refines. Qed.
Print Assumptions C08_expirable_refines.

(** a run on capacity 2 with the identity key mapping: creation, hit (no create
    call, refreshes recency), failed creation (nothing changes), eviction of
    exactly the least recently used entry, Remove, Clear, re-use after Clear *)
Definition C08_ex_ops : list (lru_op Z Z) :=
  [OGet 1 (Some 101); OGet 2 (Some 102); OGet 1 (Some 999); OGet 3 None;
   OGet 3 (Some 103); OGet 2 (Some 104); ORemove 3; ORemove 3; OGet 5 (Some 105);
   OClear; OGet 1 (Some 106); OClear]%Z.

Definition C08_ex_outs : list (lru_out Z Z) :=
  [(RVal 101, [EvCreate 1 (Some 101)]);
   (RVal 102, [EvCreate 2 (Some 102)]);
   (RVal 101, []);
   (RErr, [EvCreate 3 None]);
   (RVal 103, [EvCreate 3 (Some 103); EvDelete 2 102]);
   (RVal 104, [EvCreate 2 (Some 104); EvDelete 1 101]);
   (RBool true, [EvDelete 3 103]);
   (RBool false, []);
   (RVal 105, [EvCreate 5 (Some 105)]);
   (RCount 2, [EvDelete 2 104; EvDelete 5 105]);
   (RVal 106, [EvCreate 1 (Some 106)]);
   (RCount 1, [EvDelete 1 106])]%Z.

Example C08_ex_model :
  fst (fst (ec_run Z.eqb (fun pk => pk) (fun _ => 0%Z) (ec_new 2) C08_ex_ops)) = C08_ex_outs.
Proof. vm_compute. reflexivity. Qed.

Example C08_ex_spec :
  fst (lru_run Z.eqb (fun pk => pk) (fun _ => 0%Z) 2 [] C08_ex_ops) = C08_ex_outs.
Proof. vm_compute. reflexivity. Qed.

(** ECache with a non-identity key mapping ([pk mod 3]): primary keys 1, 4 and 7
    share one entry; the delete callback gets the primary key the entry was
    created with *)
Example C08_ex_keymap :
  fst (fst (ec_run Z.eqb (fun pk => pk mod 3)%Z (fun _ => 0%Z) (ec_new 1)
             [OGet 1 (Some 11); OGet 4 (Some 12); OGet 2 (Some 13); ORemove 5; OGet 7 (Some 14)]%Z)) =
  [(RVal 11, [EvCreate 1 (Some 11)]); (RVal 11, []);
   (RVal 13, [EvCreate 2 (Some 13); EvDelete 1 11]); (RBool true, [EvDelete 2 13]);
   (RVal 14, [EvCreate 7 (Some 14)])]%Z.
Proof. vm_compute. reflexivity. Qed.

(** ExpirableCache at instant 100, values are (id, expiry): a fresh item is
    returned; an expired resident item is deleted and created again (the second
    answer is returned even if it is expired too); an item that is expired when
    created is deleted at once and created again *)
Example C08_ex_expirable :
  fst (fst (ec_run Z.eqb (fun pk => pk) (fun v : Z * Z => snd v) (ec_new 2)
             [OEGet 1 100 (Some (1, 500)) None;
              OEGet 1 100 None None;
              OEGet 1 600 (Some (2, 550)) (Some (3, 560));
              OEGet 2 600 (Some (4, 10)) (Some (5, 900));
              OEGet 3 600 (Some (6, 10)) None]%Z)) =
  [(RVal (1, 500), [EvCreate 1 (Some (1, 500))]);
   (RVal (1, 500), []);
   (RVal (2, 550), [EvDelete 1 (1, 500); EvCreate 1 (Some (2, 550))]);
   (RVal (5, 900), [EvCreate 2 (Some (4, 10)); EvDelete 2 (4, 10); EvCreate 2 (Some (5, 900))]);
   (RErr, [EvCreate 3 (Some (6, 10)); EvDelete 1 (2, 550); EvDelete 3 (6, 10); EvCreate 3 None])]%Z.
Proof. vm_compute. reflexivity. Qed.

Example C08_ex_expirable_ops_shape :
  Forall (fun o : lru_op Z (Z * Z) => match o with OGet _ _ => False | _ => True end)
         [OEGet 1 100 (Some (1, 500)) None; ORemove 1; OClear]%Z.
Proof. repeat constructor. Qed.

(** * What "reference LRU" means, case by case *)

Theorem C08_lru_get_hit :
  forall (PK K V : Type) (keqb : K -> K -> bool) (kmap : PK -> K) (cap : nat)
         (l : lru_state PK K V) (pk : PK) (res : option V) (pk0 : PK) (v0 : V),
  lru_find keqb (kmap pk) l = Some (pk0, v0) ->
  lru_get keqb kmap cap l pk res
    = (lru_del keqb (kmap pk) l ++ [(kmap pk, (pk0, v0))], (RVal v0, [])).
Proof. exact @lru_get_hit. Qed.
Print Assumptions C08_lru_get_hit.

Theorem C08_lru_get_miss_failed :
  forall (PK K V : Type) (keqb : K -> K -> bool) (kmap : PK -> K) (cap : nat)
         (l : lru_state PK K V) (pk : PK),
  lru_find keqb (kmap pk) l = None ->
  lru_get keqb kmap cap l pk None = (l, (RErr, [EvCreate pk None])).
Proof. exact @lru_get_miss_failed. Qed.
Print Assumptions C08_lru_get_miss_failed.

Theorem C08_lru_get_miss_room :
  forall (PK K V : Type) (keqb : K -> K -> bool) (kmap : PK -> K) (cap : nat)
         (l : lru_state PK K V) (pk : PK) (v : V),
  lru_find keqb (kmap pk) l = None -> length l < cap ->
  lru_get keqb kmap cap l pk (Some v)
    = (l ++ [(kmap pk, (pk, v))], (RVal v, [EvCreate pk (Some v)])).
Proof. exact @lru_get_miss_room. Qed.
Print Assumptions C08_lru_get_miss_room.

Theorem C08_lru_get_miss_evict :
  forall (PK K V : Type) (keqb : K -> K -> bool) (kmap : PK -> K) (cap : nat)
         (kd : K) (pkd : PK) (vd : V) (t : lru_state PK K V) (pk : PK) (v : V),
  lru_find keqb (kmap pk) ((kd, (pkd, vd)) :: t) = None ->
  length ((kd, (pkd, vd)) :: t) = cap ->
  lru_get keqb kmap cap ((kd, (pkd, vd)) :: t) pk (Some v)
    = (t ++ [(kmap pk, (pk, v))], (RVal v, [EvCreate pk (Some v); EvDelete pkd vd])).
Proof. exact @lru_get_miss_evict. Qed.
Print Assumptions C08_lru_get_miss_evict.

Example C08_ex_hit_hypothesis :
  lru_find Z.eqb 2%Z [(1, (1, 11)); (2, (2, 12))]%Z = Some (2, 12)%Z.
Proof. reflexivity. Qed.

Example C08_ex_evict_hypotheses :
  lru_find Z.eqb 3%Z [(1, (1, 11)); (2, (2, 12))]%Z = None /\
  length [(1, (1, 11)); (2, (2, 12))]%Z = 2.
Proof. split; reflexivity. Qed.

(** * The delete callback: exactly once for everything that left, never for a resident entry *)

(* multiset equation: successfully created = deleted + resident *)
Theorem C08_delete_exactly_once :
  forall (PK K V : Type) (keqb : K -> K -> bool),
  (forall a b : K, reflect (a = b) (keqb a b)) ->
  forall (kmap : PK -> K) (expires : V -> Z) (cap : nat) (ops : list (lru_op PK V)),
  let '(outs, s) := lru_run keqb kmap expires cap [] ops in
  Permutation (created_ok (all_events outs)) (deleted (all_events outs) ++ resident s).
Proof. exact @delete_exactly_once. Qed.
Print Assumptions C08_delete_exactly_once.

(* the same for the cache model (through the refinement) *)
Theorem C08_ecache_delete_exactly_once :
  forall (PK K V : Type) (keqb : K -> K -> bool),
  (forall a b : K, reflect (a = b) (keqb a b)) ->
  forall (kmap : PK -> K) (expires : V -> Z) (cap : nat) (ops : list (lru_op PK V)),
  let '(outs, c, _) := ec_run keqb kmap expires (ec_new cap) ops in
  Permutation (created_ok (all_events outs))
              (deleted (all_events outs) ++ map snd (ec_resident c)).
Proof. exact @ecache_delete_exactly_once. Qed.
Print Assumptions C08_ecache_delete_exactly_once.

Theorem C08_resident_le_cap :
  forall (PK K V : Type) (keqb : K -> K -> bool),
  (forall a b : K, reflect (a = b) (keqb a b)) ->
  forall (kmap : PK -> K) (expires : V -> Z) (cap : nat) (ops : list (lru_op PK V)),
  length (resident (snd (lru_run keqb kmap expires cap [] ops))) <= cap.
Proof. exact @resident_le_cap. Qed.
Print Assumptions C08_resident_le_cap.

Theorem C08_ecache_resident_le_cap :
  forall (PK K V : Type) (keqb : K -> K -> bool),
  (forall a b : K, reflect (a = b) (keqb a b)) ->
  forall (kmap : PK -> K) (expires : V -> Z) (cap : nat) (ops : list (lru_op PK V)),
  length (ec_resident (snd (fst (ec_run keqb kmap expires (ec_new cap) ops)))) <= cap.
Proof. exact @ecache_resident_le_cap. Qed.
Print Assumptions C08_ecache_resident_le_cap.

Theorem C08_resident_keys_distinct :
  forall (PK K V : Type) (keqb : K -> K -> bool),
  (forall a b : K, reflect (a = b) (keqb a b)) ->
  forall (kmap : PK -> K) (expires : V -> Z) (cap : nat) (ops : list (lru_op PK V)),
  NoDup (map fst (snd (lru_run keqb kmap expires cap [] ops))).
Proof. exact @resident_keys_distinct. Qed.
Print Assumptions C08_resident_keys_distinct.

(* when the created values are pairwise distinct (ghost-unique): nothing is
   deleted twice and nothing that was deleted is resident; the statement is for
   every call sequence, hence for every prefix of a history *)
Theorem C08_never_delete_resident :
  forall (PK K V : Type) (keqb : K -> K -> bool),
  (forall a b : K, reflect (a = b) (keqb a b)) ->
  forall (kmap : PK -> K) (expires : V -> Z) (cap : nat) (ops : list (lru_op PK V)),
  let '(outs, s) := lru_run keqb kmap expires cap [] ops in
  NoDup (created_ok (all_events outs)) ->
  NoDup (deleted (all_events outs)) /\
  NoDup (resident s) /\
  forall x, In x (deleted (all_events outs)) -> ~ In x (resident s).
Proof. exact @never_delete_resident. Qed.
Print Assumptions C08_never_delete_resident.

(** the example run: 6 values created, 6 deleted (one eviction each for 101
    and 102, Remove of 103, Clear of 104, 105 and later of 106), none resident;
    its created values are pairwise distinct, so the hypothesis of
    [C08_never_delete_resident] is met *)
Example C08_ex_accounting :
  let '(outs, s) := lru_run Z.eqb (fun pk => pk) (fun _ => 0%Z) 2 [] C08_ex_ops in
  created_ok (all_events outs) = [(1, 101); (2, 102); (3, 103); (2, 104); (5, 105); (1, 106)]%Z /\
  deleted (all_events outs) = [(2, 102); (1, 101); (3, 103); (2, 104); (5, 105); (1, 106)]%Z /\
  resident s = [].
Proof. vm_compute. repeat split; reflexivity. Qed.

Example C08_ex_created_distinct :
  NoDup (created_ok (all_events (fst (lru_run Z.eqb (fun pk => pk) (fun _ => 0%Z) 2 [] C08_ex_ops)))).
Proof.
  vm_compute.
  repeat (constructor; [cbn [In]; intros H;
    repeat (destruct H as [H|H]; [discriminate H|]); exact H|]).
  constructor.
Qed.

(** a state with residents: after the first six calls keys 3 and 2 are resident
    (3 least recently used), within capacity *)
Example C08_ex_residents :
  snd (lru_run Z.eqb (fun pk => pk) (fun _ => 0%Z) 2 [] (firstn 6 C08_ex_ops)) =
  [(3, (3, 103)); (2, (2, 104))]%Z.
Proof. vm_compute. reflexivity. Qed.
