(** C03: both KV backends implement one sequential contract.

    contract: spec/KV.v ([step], [run]: virtual expiry, versions 1, 2, 3, ...)
    models:   model/InmemKV.v (kvs/inmem/inmem.go, lazy expiry),
              model/RedisKV.v over model/RedisSrv.v (kvs/redis/redis.go as the server
              commands it issues; TTL = max(ExpiresAt - now, 1 ms)),
              model/legacy/RedisCreateLegacy.v (Create before fix 100dccd)
    proofs:   proofs/C03_KV.v, C06_Expiry.v, C03_Inmem.v, C03_Redis.v, C03_Agree.v

    Time is in ns; an operation sequence is a list of (instant, operation). *)
From Coq Require Import List ZArith NArith Arith Bool Lia.
From GL Require Import spec.KV model.InmemKV model.RedisSrv model.RedisKV model.legacy.RedisCreateLegacy
  proofs.C03_KV proofs.C06_Expiry proofs.C03_Inmem proofs.C03_Redis proofs.C03_Agree.
Import ListNotations.

(** * The two backends against the contract, for ALL operation sequences *)

(** In-memory store: for every sequence whose instants do not decrease ([mono]) the results are
    those of the contract, with the very same version numbers. *)
Theorem C03_inmem_refines_kv : forall ops t0, mono t0 ops ->
  fst (im_run im_new ops) = fst (run init ops).
Proof. exact inmem_refines_kv. Qed.
Print Assumptions C03_inmem_refines_kv.

(** Redis client (sequential, clocks of client and server synchronised): for every sequence inside
    the premises [redis_ok] (stated in full below) the results are those of the contract up to a
    renaming [g] of versions that is injective on the versions handed out and keeps 0 (the version
    no storage ever issues).  The client uses up ids the contract never hands out (a failing Create,
    the abandoned MSET preparation of PutMany), hence a renaming and not the identity. *)
Theorem C03_redis_refines_kv : forall ops t0, redis_ok t0 init ops ->
  exists g, g 0 = 0 /\ inj_below g (next (snd (run init ops))) /\
    fst (rk_run_sync rk_new (map (fun no => (fst no, ren_op g (snd no))) ops)) =
    map (ren_out g) (fst (run init ops)).
Proof. exact redis_refines_kv. Qed.
Print Assumptions C03_redis_refines_kv.

(** the premises, unfolded: [lo] is the instant from which every earlier write is judged alike *)
Example C03_ex_redis_ok_unfold : forall lo s now o t,
  redis_ok lo s ((now, o) :: t) <->
  ((lo <= now)%Z /\ op_clean o /\ cas_issued (next s) o /\
   redis_ok (Z.max lo (op_floor now o)) (fst (step s now o)) t).
Proof. intros. reflexivity. Qed.

(** after a write at [now] of a record whose ExpiresAt is less than 1 ms ahead (or past), the next
    operation must come later than now + 1 ms: until then the server still holds the record *)
Example C03_ex_floor : forall now e,
  floor_after now (Some e) = (if (e - now <? 1000000)%Z then now + 1000000 + 1 else now)%Z /\
  floor_after now None = now.
Proof. intros. split; reflexivity. Qed.

Example C03_ex_clean : forall k, clean k <-> strip_slashes k = k.
Proof. intros. reflexivity. Qed.

Example C03_ex_pat_ok : forall p,
  pat_ok p <-> (clean p /\ parse_pat 94 (length p) p = parse_pat 33 (length p) p).
Proof. intros. reflexivity. Qed.

Theorem C03_backends_agree : forall ops t0, redis_ok t0 init ops ->
  exists g, g 0 = 0 /\ inj_below g (next (snd (run init ops))) /\
    fst (rk_run_sync rk_new (map (fun no => (fst no, ren_op g (snd no))) ops)) =
    map (ren_out g) (fst (im_run im_new ops)).
Proof. exact backends_agree. Qed.
Print Assumptions C03_backends_agree.

(** the premises of the Redis comparison include a clock that does not run backwards *)
Theorem C03_redis_ok_mono : forall ops lo s, redis_ok lo s ops -> mono lo ops.
Proof. exact redis_ok_mono. Qed.
Print Assumptions C03_redis_ok_mono.

(** ** a running example: keys a, b, k/1; values x, empty; expirations; repeated keys *)
Definition C03_a : key := [97%N].
Definition C03_b : key := [98%N].
Definition C03_k1 : key := [107%N; 47%N; 49%N].
Definition C03_x : value := [120%N].
Definition C03_ms : Z := 1000000%Z.
Definition C03_h : Z := 3600000000000%Z.

Definition C03_ex_ops : list (Z * op) :=
  [(0, Create C03_a C03_x None);
   (1, Create C03_a [] None);                                       (* ErrExist + version 1 *)
   (2, Put C03_b C03_x (Some C03_h));
   (3, GetMany [C03_a; C03_b; C03_a; C03_k1]);
   (4, PutMany [(C03_a, C03_x, None); (C03_a, [], None); (C03_k1, C03_x, None)]);
   (5, CasByVersion C03_a C03_x None 1);                            (* stale: ErrConflict *)
   (6, CasByVersion C03_a C03_x (Some C03_h) 4);                    (* current *)
   (7, CasByVersion C03_a C03_x None 0);                            (* unknown version *)
   (8, PutMany [(C03_b, [], Some (-C03_h)); (C03_a, [], None)]);    (* b: expiration already past *)
   (8 + 2 * C03_ms, Get C03_b);                                     (* later than the 1 ms window *)
   (8 + 2 * C03_ms, Delete C03_b);
   (8 + 2 * C03_ms, Create C03_b C03_x None);
   (9 + 2 * C03_ms, Delete C03_b);
   (9 + 2 * C03_ms, CasByVersion C03_b C03_x None 2);               (* ErrNotExist *)
   (10 + 2 * C03_ms, ListKeys [42%N]);                              (* "*" *)
   (10 + 2 * C03_ms, ListKeys [91%N; 97%N; 98%N; 93%N]);            (* "[ab]" *)
   (10 + 2 * C03_ms, ListKeys [107%N; 47%N; 42%N])]%Z.              (* "k/*" *)

Example C03_ex_ops_ok : redis_ok 0 init C03_ex_ops /\ mono 0 C03_ex_ops.
Proof.
  assert (H : redis_ok 0 init C03_ex_ops).
  { unfold C03_ex_ops. cbn [redis_ok op_clean cas_issued]. unfold clean, pat_ok, clean.
    repeat match goal with |- _ /\ _ => split end; try exact I; try reflexivity;
      try (vm_compute; discriminate); try (vm_compute; lia);
      try (repeat constructor; reflexivity). }
  split; [exact H|]. exact (redis_ok_mono _ _ _ H).
Qed.

Example C03_ex_contract_run :
  fst (run init C03_ex_ops) =
  [OVer 1; OExist 1; ORec (C03_b, C03_x, 2, Some C03_h);
   ORecs [Some (C03_a, C03_x, 1, None); Some (C03_b, C03_x, 2, Some C03_h); Some (C03_a, C03_x, 1, None); None];
   OOk; OConflict; ORec (C03_a, C03_x, 6, Some C03_h); OConflict; OOk;
   ONotExist; ONotExist; OVer 9; OOk; ONotExist;
   OKeys [C03_k1; C03_a]; OKeys [C03_a]; OKeys [C03_k1]].
Proof. vm_compute. reflexivity. Qed.

Example C03_ex_inmem_run : fst (im_run im_new C03_ex_ops) = fst (run init C03_ex_ops).
Proof. vm_compute. reflexivity. Qed.

(** the Redis client numbers its versions differently (ids 2 is used up by the failing Create) *)
Definition C03_ex_g (v : nat) : nat :=
  match v with 0 => 0 | 1 => 1 | v => S v end.

Example C03_ex_redis_run :
  fst (rk_run_sync rk_new (map (fun no => (fst no, ren_op C03_ex_g (snd no))) C03_ex_ops)) =
  map (ren_out C03_ex_g) (fst (run init C03_ex_ops)) /\
  nth 1 (fst (rk_run_sync rk_new (map (fun no => (fst no, ren_op C03_ex_g (snd no))) C03_ex_ops))) OOther = OExist 1 /\
  nth 2 (fst (rk_run_sync rk_new (map (fun no => (fst no, ren_op C03_ex_g (snd no))) C03_ex_ops))) OOther =
    ORec (C03_b, C03_x, 3, Some C03_h).
Proof. vm_compute. repeat split; reflexivity. Qed.

(** outside the premises the Redis client does differ from the contract -- the two open findings
    D10 (leading slash; class negation) and the 1 ms minimum TTL *)
Definition C03_sl_s : key := [47%N; 115%N].      (* "/s" *)
Definition C03_s : key := [115%N].               (* "s" *)
Definition C03_pat_nota : list N := [91%N; 33%N; 97%N; 93%N].   (* "[!a]" *)

Example C03_ex_outside_premises :
  (* Put "/s"; Get "s" *)
  fst (rk_run_sync rk_new [(0%Z, Put C03_sl_s C03_x None); (1%Z, Get C03_s)])
    = [ORec (C03_sl_s, C03_x, 1, None); ORec (C03_s, C03_x, 1, None)] /\
  fst (run init [(0%Z, Put C03_sl_s C03_x None); (1%Z, Get C03_s)])
    = [ORec (C03_sl_s, C03_x, 1, None); ONotExist] /\
  (* PutMany a, b; ListKeys "[!a]" *)
  fst (rk_run_sync rk_new [(0%Z, PutMany [(C03_a, C03_x, None); (C03_b, C03_x, None)]); (1%Z, ListKeys C03_pat_nota)])
    = [OOk; OKeys [C03_a]] /\
  fst (run init [(0%Z, PutMany [(C03_a, C03_x, None); (C03_b, C03_x, None)]); (1%Z, ListKeys C03_pat_nota)])
    = [OOk; OKeys [C03_b]] /\
  (* a record put with a past expiration is still served 0.5 ms later *)
  fst (rk_run_sync rk_new [(0%Z, Put C03_a C03_x (Some (-5)%Z)); (500000%Z, Get C03_a)])
    = [ORec (C03_a, C03_x, 1, Some (-5)%Z); ORec (C03_a, C03_x, 1, Some (-5)%Z)] /\
  fst (run init [(0%Z, Put C03_a C03_x (Some (-5)%Z)); (500000%Z, Get C03_a)])
    = [ORec (C03_a, C03_x, 1, Some (-5)%Z); ONotExist].
Proof. vm_compute. repeat split; reflexivity. Qed.

(** * The clauses of the contract *)

(** every state of a history is well formed ([wf]: one record per key) and [fresh] (stored versions
    are positive and below the counter): the hypotheses of the statements below *)
Theorem C03_reachable_wf_fresh : forall ops,
  wf (snd (run init ops)) /\ fresh (snd (run init ops)).
Proof. exact reachable_wf_fresh. Qed.
Print Assumptions C03_reachable_wf_fresh.

Definition C03_ex_s : state := snd (run init C03_ex_ops).

Example C03_ex_state :
  C03_ex_s = mkSt [(C03_k1, mkRec C03_x 5 None); (C03_a, mkRec [] 8 None)] 10 /\ wf C03_ex_s /\ fresh C03_ex_s.
Proof. split; [vm_compute; reflexivity|]. exact (C03_reachable_wf_fresh C03_ex_ops). Qed.

(** Create: ErrExist with the stored version on a present key, nothing changes; on an absent or
    expired key the record is stored under the next version *)
Theorem C03_create_exist_reports_version : forall s now k v e,
  (forall r, find now k s = Some r -> step s now (Create k v e) = (s, OExist (ver r))) /\
  (find now k s = None ->
     step s now (Create k v e) = (mkSt (set k (mkRec v (next s) e) (recs s)) (S (next s)), OVer (next s))).
Proof. exact create_exist_reports_version. Qed.
Print Assumptions C03_create_exist_reports_version.

Example C03_ex_create :
  find 0 C03_a C03_ex_s = Some (mkRec [] 8 None) /\ step C03_ex_s 0 (Create C03_a C03_x None) = (C03_ex_s, OExist 8) /\
  find 0 C03_b C03_ex_s = None /\ snd (step C03_ex_s 0 (Create C03_b C03_x None)) = OVer 10.
Proof. vm_compute. repeat split; reflexivity. Qed.

(** Get returns the last written key, value, version and expiry *)
Theorem C03_get_returns_last_write : forall s now k v e ops now',
  (forall no, In no ops -> touches (snd no) k = false) ->
  (match e with Some t => (now' <= t)%Z | None => True end) ->
  let '(s1, o1) := step s now (Put k v e) in
  o1 = ORec (k, v, next s, e) /\
  snd (step (snd (run s1 ops)) now' (Get k)) = ORec (k, v, next s, e).
Proof. exact get_returns_last_write. Qed.
Print Assumptions C03_get_returns_last_write.

(** ... the same after a successful Create or CasByVersion (both store through [write]) *)
Theorem C03_write_then_get : forall s now' k v e ops,
  (forall no, In no ops -> touches (snd no) k = false) ->
  (match e with Some t => (now' <= t)%Z | None => True end) ->
  snd (step (snd (run (fst (write k v e s)) ops)) now' (Get k)) = ORec (k, v, next s, e).
Proof. exact write_then_get. Qed.
Print Assumptions C03_write_then_get.

Example C03_ex_get_last_write :
  let ops := [(1, Put C03_b C03_x None); (2, Delete C03_b); (3, ListKeys [42%N])]%Z in
  (forall no, In no ops -> touches (snd no) C03_a = false) /\
  snd (step (snd (run (fst (step C03_ex_s 0 (Put C03_a C03_x (Some 7%Z)))) ops)) 7 (Get C03_a))
    = ORec (C03_a, C03_x, 10, Some 7%Z).
Proof.
  cbn zeta. split; [|vm_compute; reflexivity].
  intros no [<-|[<-|[<-|[]]]]; reflexivity.
Qed.

(** every successful write stores a version that was never handed out before *)
Theorem C03_writes_get_new_version : forall s now o, fresh s ->
  let s' := fst (step s now o) in
  fresh s' /\ next s <= next s' /\
  forall k r, In (k, r) (recs s') -> In (k, r) (recs s) \/ next s <= ver r < next s'.
Proof. exact writes_get_new_version. Qed.
Print Assumptions C03_writes_get_new_version.

(** ... nor seen by anybody: every version any earlier result mentioned is below the counter, and
    a successful Create / Put / CasByVersion returns the counter *)
Theorem C03_new_versions_never_seen : forall ops now o n,
  let s := snd (run init ops) in
  In n (flat_map out_vers (fst (run init ops))) ->
  n < next s /\
  match o, snd (step s now o) with
  | Create _ _ _, OVer n' => n <> n'
  | Put _ _ _, ORec (_, _, n', _) => n <> n'
  | CasByVersion _ _ _ _, ORec (_, _, n', _) => n <> n'
  | _, _ => True
  end.
Proof. exact new_versions_never_seen. Qed.
Print Assumptions C03_new_versions_never_seen.

Theorem C03_successful_write_version : forall s now o,
  match o, snd (step s now o) with
  | Create _ _ _, OVer n => n = next s
  | Put k v e, x => x = ORec (k, v, next s, e)
  | CasByVersion k v e _, ORec r => r = (k, v, next s, e)
  | _, _ => True
  end.
Proof. exact successful_write_version. Qed.
Print Assumptions C03_successful_write_version.

Example C03_ex_versions_seen :
  flat_map out_vers (fst (run init C03_ex_ops)) = [1; 1; 2; 1; 2; 1; 6; 9] /\ next C03_ex_s = 10.
Proof. vm_compute. split; reflexivity. Qed.

(** CasByVersion: ErrNotExist iff absent, ErrConflict iff present under another version, success
    iff present under that version; a failure changes nothing *)
Theorem C03_cas_distinguishes_notexist_conflict : forall s now k v e n,
  (snd (step s now (CasByVersion k v e n)) = ONotExist <-> find now k s = None) /\
  (snd (step s now (CasByVersion k v e n)) = OConflict <-> exists r, find now k s = Some r /\ ver r <> n) /\
  (snd (step s now (CasByVersion k v e n)) = ORec (k, v, next s, e) <-> exists r, find now k s = Some r /\ ver r = n) /\
  (snd (step s now (CasByVersion k v e n)) <> ORec (k, v, next s, e) -> fst (step s now (CasByVersion k v e n)) = s).
Proof. exact cas_distinguishes_notexist_conflict. Qed.
Print Assumptions C03_cas_distinguishes_notexist_conflict.

Example C03_ex_cas :
  snd (step C03_ex_s 0 (CasByVersion C03_b C03_x None 8)) = ONotExist /\
  snd (step C03_ex_s 0 (CasByVersion C03_a C03_x None 7)) = OConflict /\
  snd (step C03_ex_s 0 (CasByVersion C03_a C03_x None 8)) = ORec (C03_a, C03_x, 10, None).
Proof. vm_compute. repeat split; reflexivity. Qed.

(** Delete: ErrNotExist exactly for a missing (or expired) key; otherwise the key is gone *)
Theorem C03_delete_missing_notexist : forall s now k,
  (snd (step s now (Delete k)) = ONotExist <-> find now k s = None) /\
  (snd (step s now (Delete k)) = OOk <-> find now k s <> None) /\
  (snd (step s now (Delete k)) = OOk -> forall now', find now' k (fst (step s now (Delete k))) = None).
Proof. exact delete_missing_notexist. Qed.
Print Assumptions C03_delete_missing_notexist.

Example C03_ex_delete :
  snd (step C03_ex_s 0 (Delete C03_b)) = ONotExist /\ snd (step C03_ex_s 0 (Delete C03_a)) = OOk.
Proof. vm_compute. split; reflexivity. Qed.

(** ListKeys returns exactly the present keys that match the pattern, each once.  [matches] is the
    glob matcher of spec/KV.v (literal, [*], [?], classes with ranges and [!] negation). *)
Theorem C03_listkeys_exact : forall s now p, wf s ->
  exists ks, step s now (ListKeys p) = (s, OKeys ks) /\ NoDup ks /\
    forall k, In k ks <-> (present s now k /\ matches p k = true).
Proof. exact listkeys_exact. Qed.
Print Assumptions C03_listkeys_exact.

Open Scope N_scope.
Example C03_ex_matches :
  matches [42] [107; 47; 49] = true /\                    (* "*" matches "k/1": the star crosses '/' *)
  matches [97; 42] [97; 98] = true /\ matches [97; 42] [98] = false /\       (* "a*" *)
  matches [63] [97] = true /\ matches [63] [97; 98] = false /\               (* "?" *)
  matches [97; 63] [97; 98] = true /\                                         (* "a?" *)
  matches [91; 97; 98; 93] [98] = true /\ matches [91; 97; 98; 93] [99] = false /\  (* "[ab]" *)
  matches [91; 97; 45; 99; 93] [98] = true /\                                 (* "[a-c]" *)
  matches [91; 33; 97; 93] [98] = true /\ matches [91; 33; 97; 93] [97] = false /\  (* "[!a]" *)
  matches [107; 47; 42] [107; 47; 49] = true /\ matches [122; 122] [97] = false /\
  matches [] [] = true /\ matches [] [97] = false /\ matches [42; 97; 42] [98; 97; 98] = true.
Proof. vm_compute. repeat split; reflexivity. Qed.
Close Scope N_scope.

(** GetMany answers position by position like Get (repeated keys included) and changes nothing;
    PutMany is the sequence of its Puts: of two records with one key the later one stays, every
    record gets its own new version *)
Theorem C03_getmany_putmany_repeated_keys : forall s now,
  (forall ks, step s now (GetMany ks) =
     (s, ORecs (map (fun k => match snd (step s now (Get k)) with ORec r => Some r | _ => None end) ks))) /\
  (forall rs, fst (step s now (PutMany rs)) =
     fold_left (fun s r => fst (step s now (Put (fst (fst r)) (snd (fst r)) (snd r)))) rs s) /\
  (forall rs, snd (step s now (PutMany rs)) = OOk /\ next (fst (step s now (PutMany rs))) = length rs + next s).
Proof. exact getmany_putmany_repeated_keys. Qed.
Print Assumptions C03_getmany_putmany_repeated_keys.

Example C03_ex_repeated_keys :
  let s1 := fst (step C03_ex_s 0 (PutMany [(C03_a, C03_x, None); (C03_b, [], None); (C03_a, [], None)])) in
  snd (step s1 0 (GetMany [C03_a; C03_b; C03_a])) =
    ORecs [Some (C03_a, [], 12, None); Some (C03_b, [], 11, None); Some (C03_a, [], 12, None)] /\
  next s1 = 13.
Proof. vm_compute. split; reflexivity. Qed.

(** * The defect the first run of this check found (D7), on the transcription of the old code *)
Theorem C03_legacy_redis_create_refuted :
  redis_ok 0 init d7_ops /\
  fst (run init d7_ops) = [OVer 1; OExist 1; ORec ([97%N], [120%N], 1, None)] /\
  fst (leg_rk_run_sync rk_new d7_ops) = [OVer 1; OExist 0; ORec ([97%N], [120%N], 1, None)] /\
  fst (rk_run_sync rk_new d7_ops) = [OVer 1; OExist 1; ORec ([97%N], [120%N], 1, None)] /\
  forall g, fst (leg_rk_run_sync rk_new (map (fun no => (fst no, ren_op g (snd no))) d7_ops))
            <> map (ren_out g) (fst (run init d7_ops)).
Proof. exact legacy_redis_create_refuted. Qed.
Print Assumptions C03_legacy_redis_create_refuted.
