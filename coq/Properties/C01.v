(** C01: distributed lock (kvs/distlock/kvlock.go) - at most one holder at any instant.
    Model: model/LockLTS.v, proofs: proofs/C01_Exclusion.v, proofs/C01_Versions.v. *)
From Coq Require Import List Arith Bool NArith Lia.
From GL Require Import model.LockLTS proofs.C01_Exclusion proofs.C01_Tokens proofs.C01_Versions.
Import ListNotations.

(** * Mutual exclusion

    For every assignment [lp] of Lockers to providers, every trace [tr] of the model - any
    number of goroutines, Lockers and providers, every interleaving of their local steps and
    storage calls, any number of request-lost / reply-lost faults on Create, Delete and the
    renewal CAS, cancellations and shutdowns anywhere - that respects the two premises of the
    property (the lease of a live holder does not run out; Unlock is called on held Lockers only):
    in the state reached, among any set of Lockers at most one is held.  A Locker is held from
    the successful Storage.Create of its acquisition until the entry of Unlock, which contains
    the property's window "from the return of Lock / TryLock / LockWithCtx until Unlock is called". *)
Theorem C01_mutual_exclusion : forall (lp : lockerId -> provId) (tr : list label) (s : state),
  run (init lp) tr = Some s -> leases_respected lp tr -> wf_programs lp tr ->
  forall Ls : list lockerId, NoDup Ls -> holders_in s Ls <= 1.
Proof. exact mutual_exclusion. Qed.
Print Assumptions C01_mutual_exclusion.

Theorem C01_mutual_exclusion_pair : forall (lp : lockerId -> provId) (tr : list label) (s : state),
  run (init lp) tr = Some s -> leases_respected lp tr -> wf_programs lp tr ->
  forall L1 L2, held (lk s L1) <> None -> held (lk s L2) <> None -> L1 = L2.
Proof. exact mutual_exclusion_pair. Qed.
Print Assumptions C01_mutual_exclusion_pair.

(** the holder owns the record that is in the storage *)
Theorem C01_holder_owns_record : forall (lp : lockerId -> provId) (tr : list label) (s : state),
  run (init lp) tr = Some s -> leases_respected lp tr -> wf_programs lp tr ->
  forall L tn, held (lk s L) = Some tn -> exists v, rec s = Some (v, tn).
Proof. exact holder_owns_record. Qed.
Print Assumptions C01_holder_owns_record.

(** an acquisition succeeds only in a state in which no Locker is held *)
Theorem C01_acquire_needs_no_holder : forall lp tr s t s',
  run (init lp) tr = Some s -> leases_respected lp tr -> wf_programs lp tr ->
  step s (StCreate t FOk) = Some s' ->
  (exists L k, pc_of s' t = Done (ok_result k) /\ held (lk s' L) <> None) ->
  forall L, held (lk s L) = None.
Proof. exact acquire_needs_no_holder. Qed.
Print Assumptions C01_acquire_needs_no_holder.

(** non-vacuity: three goroutines, two Lockers; goroutine 1 waits in the storage for goroutine 0's
    record, a TryLock on the held Locker fails, the release loses its reply, the hand-off happens *)
Definition C01_ex_trace : list label :=
  [ Invoke 0 (OLock 0); TakeToken 0; CheckCtx 0; StCreate 0 FOk; Return 0 RUnit;
    Invoke 1 (OCtx 1); TakeToken 1; CheckCtx 1; StCreate 1 FOk;
    Invoke 2 (OTry 0); TryFail 2; Return 2 RFalse;
    Invoke 0 (OUnlock 0); StDelete 0 FReplyLost; PutToken 0; Return 0 RUnit;
    StWaitRet 1 WChanged; CheckCtx 1; StCreate 1 FOk; Return 1 RNil ].

Example C01_ex_meets_premises :
  exists s, run (init (fun _ => 0)) C01_ex_trace = Some s
            /\ leases_respected (fun _ => 0) C01_ex_trace
            /\ wf_programs (fun _ => 0) C01_ex_trace
            /\ holders_in s [0; 1] = 1 /\ held (lk s 1) = Some 2%N.
Proof.
  destruct (run (init (fun _ => 0)) C01_ex_trace) as [s|] eqn:Hr; [|vm_compute in Hr; discriminate].
  exists s. split; [reflexivity|]. split; [|split].
  - apply no_expire_respected. unfold C01_ex_trace. cbn.
    intros H. repeat (destruct H as [H|H]; [discriminate H|]). exact H.
  - apply wf_programs_b. vm_compute. reflexivity.
  - vm_compute in Hr. injection Hr as <-. vm_compute. split; reflexivity.
Qed.

Example C01_ex_instance :
  forall s, run (init (fun _ => 0)) C01_ex_trace = Some s -> holders_in s [0; 1] <= 1.
Proof.
  intros s Hr. destruct C01_ex_meets_premises as (s0 & Hr0 & HL & HW & _).
  apply (C01_mutual_exclusion (fun _ => 0) C01_ex_trace s Hr HL HW).
  repeat constructor; cbn; intuition discriminate.
Qed.

(** non-vacuity of [leases_respected] with an [Expire]: a Create whose reply is lost leaves an orphan
    record (nobody claims it); goroutine 1 waits on it; the lease runs out; goroutine 1 acquires *)
Definition C01_ex_pre : list label :=
  [ Invoke 0 (OCtx 0); TakeToken 0; CheckCtx 0; StCreate 0 FReplyLost; PutToken 0; Return 0 (RErr EStorage);
    Invoke 1 (OLock 1); TakeToken 1; CheckCtx 1; StCreate 1 FOk ].
Definition C01_ex_post : list label :=
  [ StWaitRet 1 WChanged; CheckCtx 1; StCreate 1 FOk; Return 1 RUnit ].

Example C01_ex_expire :
  exists s, run (init (fun _ => 0)) (C01_ex_pre ++ Expire :: C01_ex_post) = Some s
            /\ leases_respected (fun _ => 0) (C01_ex_pre ++ Expire :: C01_ex_post)
            /\ wf_programs (fun _ => 0) (C01_ex_pre ++ Expire :: C01_ex_post)
            /\ held (lk s 1) = Some 2%N /\ holders_in s [0; 1; 2] = 1.
Proof.
  destruct (run (init (fun _ => 0)) (C01_ex_pre ++ Expire :: C01_ex_post)) as [s|] eqn:Hr;
    [|vm_compute in Hr; discriminate].
  exists s. split; [reflexivity|]. split; [|split].
  - apply respects_app_intro.
    + apply no_expire_respected. unfold C01_ex_pre. cbn.
      intros H. repeat (destruct H as [H|H]; [discriminate H|]). exact H.
    + intros s1 Hs1. vm_compute in Hs1. injection Hs1 as <-.
      cbn [respects]. split.
      * cbn [lease_ok]. intros v tn Hrec [[L H]|[t [L H]]].
        -- vm_compute in H. destruct L as [|[|L]]; discriminate.
        -- vm_compute in H. destruct t as [|[|t]]; discriminate.
      * match goal with |- match ?x with _ => _ end => destruct x as [s2|]; [|exact I] end.
        apply no_expire_respected. unfold C01_ex_post. cbn.
        intros H. repeat (destruct H as [H|H]; [discriminate H|]). exact H.
  - apply wf_programs_b. vm_compute. reflexivity.
  - vm_compute in Hr. injection Hr as <-. vm_compute. split; reflexivity.
Qed.

(** * Token accounting (invariant I1) and version freshness (invariant I3)

    For every trace of well-formed programs, faults included: the token of a Locker is in its
    channel only when the Locker is not held, its counter is 0 and no thread is between TakeToken
    and PutToken on it; at most one thread is inside per Locker, and not while the Locker is
    held; and if nobody is inside, it is not held and its provider is live, the token is there. *)
Theorem C01_token_accounting : forall (lp : lockerId -> provId) (tr : list label) (s : state),
  run (init lp) tr = Some s -> wf_programs lp tr ->
  (forall L, token (lk s L) = true ->
     held (lk s L) = None /\ cntr (lk s L) = false /\ forall t, userb (pc_of s t) L = false) /\
  (forall t1 t2 L, userb (pc_of s t1) L = true -> userb (pc_of s t2) L = true -> t1 = t2) /\
  (forall t L, userb (pc_of s t) L = true -> held (lk s L) = None) /\
  (forall L, held (lk s L) <> None -> cntr (lk s L) = true /\ token (lk s L) = false) /\
  (forall L, (forall t, userb (pc_of s t) L = false) -> held (lk s L) = None ->
     down s (lprov s L) = false -> token (lk s L) = true).
Proof.
  intros lp tr s Hr HW. pose proof (tinv_reachable lp tr s Hr HW) as I.
  repeat split.
  - apply (t_tok s I L H).
  - apply (t_tok s I L H).
  - apply (t_tok s I L H).
  - apply (t_one s I).
  - apply (t_user s I).
  - apply (t_held s I L H).
  - apply (held_no_users s I L H).
  - apply (t_tok1 s I).
Qed.
Print Assumptions C01_token_accounting.

(** every version in the record, in renewal timers and in storage waits is below the counter of
    fresh versions (this is where the storage's version freshness, C02, enters) *)
Theorem C01_versions_below_counter : forall lp tr s,
  run (init lp) tr = Some s ->
  (forall v tn, rec s = Some (v, tn) -> (v < nextver s)%N) /\
  (forall id, (tm_ver (timers s id) < nextver s)%N) /\
  (forall t L k v, pc_of s t = WaitVer L k v -> (v < nextver s)%N).
Proof. exact versions_below_counter. Qed.
Print Assumptions C01_versions_below_counter.

(** a renewal CAS matches only the record of its own tenure: the stale timer of a previous
    tenure can never touch (prolong) a newer record.  Every trace, no premise. *)
Theorem C01_stale_renewal_never_matches : forall lp tr s id o,
  run (init lp) tr = Some s ->
  cas_hit s (timers s id) = Some o -> o = tm_tn (timers s id).
Proof. exact stale_renewal_never_matches. Qed.
Print Assumptions C01_stale_renewal_never_matches.

(** non-vacuity: a renewal of tenure 1 in flight at Unlock, the stale CAS after a new tenure
    began finds a newer version and dies; exclusion is unaffected *)
Definition C01_ex_renew : list label :=
  [ Invoke 0 (OLock 0); TakeToken 0; CheckCtx 0; StCreate 0 FOk; Return 0 RUnit;
    TimerFire 0; StCas 0 FOk; Rearm 0;        (* first renewal: version 1 -> 2, timer 1 armed *)
    TimerFire 1;                              (* second renewal starts ... *)
    Invoke 0 (OUnlock 0); StDelete 0 FOk; PutToken 0; Return 0 RUnit;
    Invoke 1 (OLock 1); TakeToken 1; CheckCtx 1; StCreate 1 FOk; Return 1 RUnit;
    StCas 1 FOk; Rearm 1 ].                   (* ... and its CAS arrives after the hand-over: no match *)

Example C01_ex_renew_run :
  exists s, run (init (fun _ => 0)) C01_ex_renew = Some s /\
            rec s = Some (3%N, 2%N) /\ held (lk s 1) = Some 2%N /\ held (lk s 0) = None /\
            tm_st (timers s 1) = TFinished /\ tm_tn (timers s 1) = 1%N.
Proof.
  destruct (run (init (fun _ => 0)) C01_ex_renew) as [s|] eqn:Hr; [|vm_compute in Hr; discriminate].
  exists s. split; [reflexivity|]. vm_compute in Hr. injection Hr as <-. vm_compute. repeat split.
Qed.

(** * The premise on programs cannot be dropped

    Unlock on a Locker whose acquisition is still in progress (counter already 1, record not yet
    created) deletes the record of whoever holds the lock: two holders.  Such a call is outside
    the property ("holds ... until it calls Unlock") and is excluded by [wf_programs]. *)
Theorem C01_misuse_unlock_breaks_exclusion :
  exists s, run (init (fun _ => 0)) misuse_trace = Some s
            /\ leases_respected (fun _ => 0) misuse_trace
            /\ ~ wf_programs (fun _ => 0) misuse_trace
            /\ holders_in s [0; 1] = 2.
Proof. exact misuse_unlock_breaks_exclusion. Qed.
Print Assumptions C01_misuse_unlock_breaks_exclusion.

(** * The lease premise must cover an Unlock in progress

    [leases_respected] counts as "live holder" a held Locker AND an Unlock that has not yet
    reached its Delete.  This is needed: Unlock deletes the record by key (not by version), so if
    the lease runs out between the entry of Unlock and the arrival of its Delete at the storage,
    the late Delete removes the record of the next holder.  Under the weaker reading
    [lease_held_only] (only held Lockers protect their record) exclusion fails: *)
Theorem C01_late_delete_breaks_exclusion :
  exists s, run (init (fun _ => 0)) late_delete_trace = Some s
            /\ wf_programs (fun _ => 0) late_delete_trace
            /\ respects lease_held_only (init (fun _ => 0)) late_delete_trace
            /\ ~ leases_respected (fun _ => 0) late_delete_trace
            /\ holders_in s [0; 1; 2] = 2.
Proof. exact late_delete_breaks_exclusion. Qed.
Print Assumptions C01_late_delete_breaks_exclusion.
