(** C01: distributed lock (kvs/distlock/kvlock.go) - at most one holder at any instant.
    Model: model/LockLTS.v, proofs: proofs/C01_Exclusion.v, proofs/C01_Versions.v. *)
From Coq Require Import List Arith Bool NArith Lia.
From GL Require Import model.LockLTS proofs.C01_Exclusion.
Import ListNotations.

(** * Mutual exclusion

    For every assignment [lp] of Lockers to providers, every trace [tr] of the model - any
    number of goroutines, Lockers and providers, every interleaving of their local steps and
    storage calls, any number of request-lost / reply-lost faults on Create, Delete and the
    renewal CAS, cancellations and shutdowns anywhere - that respects the two premises of the
    property (the lease of a live holder does not run out; Unlock is called on held Lockers only):
    in the state reached, among any set of Lockers at most one is held.  A Locker is held from
    the successful Storage.Create of its acquisition until the entry of Unlock, which contains
    the property's window "from the return of Lock / TryLock / LockWithCtx until Unlock is called". *)
Theorem C01_mutual_exclusion : forall (lp : lockerId -> provId) (tr : list label) (s : state),
  run (init lp) tr = Some s -> leases_respected lp tr -> wf_programs lp tr ->
  forall Ls : list lockerId, NoDup Ls -> holders_in s Ls <= 1.
Proof. exact mutual_exclusion. Qed.
Print Assumptions C01_mutual_exclusion.

Theorem C01_mutual_exclusion_pair : forall (lp : lockerId -> provId) (tr : list label) (s : state),
  run (init lp) tr = Some s -> leases_respected lp tr -> wf_programs lp tr ->
  forall L1 L2, held (lk s L1) <> None -> held (lk s L2) <> None -> L1 = L2.
Proof. exact mutual_exclusion_pair. Qed.
Print Assumptions C01_mutual_exclusion_pair.

(** the holder owns the record that is in the storage *)
Theorem C01_holder_owns_record : forall (lp : lockerId -> provId) (tr : list label) (s : state),
  run (init lp) tr = Some s -> leases_respected lp tr -> wf_programs lp tr ->
  forall L tn, held (lk s L) = Some tn -> exists v, rec s = Some (v, tn).
Proof. exact holder_owns_record. Qed.
Print Assumptions C01_holder_owns_record.

(** an acquisition succeeds only in a state in which no Locker is held *)
Theorem C01_acquire_needs_no_holder : forall lp tr s t s',
  run (init lp) tr = Some s -> leases_respected lp tr -> wf_programs lp tr ->
  step s (StCreate t FOk) = Some s' ->
  (exists L k, pc_of s' t = Done (ok_result k) /\ held (lk s' L) <> None) ->
  forall L, held (lk s L) = None.
Proof. exact acquire_needs_no_holder. Qed.
Print Assumptions C01_acquire_needs_no_holder.

(** non-vacuity: three goroutines, two Lockers; goroutine 1 waits in the storage for goroutine 0's
    record, a TryLock on the held Locker fails, the release loses its reply, the hand-off happens *)
Definition C01_ex_trace : list label :=
  [ Invoke 0 (OLock 0); TakeToken 0; CheckCtx 0; StCreate 0 FOk; Return 0 RUnit;
    Invoke 1 (OCtx 1); TakeToken 1; CheckCtx 1; StCreate 1 FOk;
    Invoke 2 (OTry 0); TryFail 2; Return 2 RFalse;
    Invoke 0 (OUnlock 0); StDelete 0 FReplyLost; PutToken 0; Return 0 RUnit;
    StWaitRet 1 WChanged; CheckCtx 1; StCreate 1 FOk; Return 1 RNil ].

Example C01_ex_meets_premises :
  exists s, run (init (fun _ => 0)) C01_ex_trace = Some s
            /\ leases_respected (fun _ => 0) C01_ex_trace
            /\ wf_programs (fun _ => 0) C01_ex_trace
            /\ holders_in s [0; 1] = 1 /\ held (lk s 1) = Some 2%N.
Proof.
  destruct (run (init (fun _ => 0)) C01_ex_trace) as [s|] eqn:Hr; [|vm_compute in Hr; discriminate].
  exists s. split; [reflexivity|]. split; [|split].
  - apply no_expire_respected. unfold C01_ex_trace. cbn.
    intros H. repeat (destruct H as [H|H]; [discriminate H|]). exact H.
  - unfold wf_programs, C01_ex_trace. cbn. repeat split; discriminate.
  - vm_compute in Hr. injection Hr as <-. vm_compute. split; reflexivity.
Qed.

Example C01_ex_instance :
  forall s, run (init (fun _ => 0)) C01_ex_trace = Some s -> holders_in s [0; 1] <= 1.
Proof.
  intros s Hr. destruct C01_ex_meets_premises as (s0 & Hr0 & HL & HW & _).
  apply (C01_mutual_exclusion (fun _ => 0) C01_ex_trace s Hr HL HW).
  repeat constructor; cbn; intuition discriminate.
Qed.

(** * The premise on programs cannot be dropped

    Unlock on a Locker whose acquisition is still in progress (counter already 1, record not yet
    created) deletes the record of whoever holds the lock: two holders.  Such a call is outside
    the property ("holds ... until it calls Unlock") and is excluded by [wf_programs]. *)
Theorem C01_misuse_unlock_breaks_exclusion :
  exists s, run (init (fun _ => 0)) misuse_trace = Some s
            /\ leases_respected (fun _ => 0) misuse_trace
            /\ ~ wf_programs (fun _ => 0) misuse_trace
            /\ holders_in s [0; 1] = 2.
Proof. exact misuse_unlock_breaks_exclusion. Qed.
Print Assumptions C01_misuse_unlock_breaks_exclusion.
