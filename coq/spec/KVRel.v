(** The contract of kvs.Storage as a RELATION between states, the form a
    sequential specification has in lib/Lin.v ([acc s o r s']: in state [s]
    operation [o] may answer [r] and leave [s']).  Used by C02.

    * [kv_acc]: spec/KV.v itself with a clock: an operation takes effect at some
      instant not earlier than the previous one, and then [KV.step] says what
      happens.  Versions are the numbers 1, 2, 3, ... in the order of the writes.

    * [kvf_acc]: the same contract with the ONE thing the implementations are
      free in made explicit: which version a write gets.  A write may install
      any version that was never handed out before ([fused]: every version
      handed out so far).  ULIDs, the counter of the in-memory model and the
      out-of-order counter values of concurrent Redis clients (NewID is called
      before the command that writes) are all instances; [KV.step] is the
      instance "smallest unused number" (proofs/C02_Contract.v, [kv_acc_kvf]).
      Everything C02 says about winners, losers and versions is proved for
      every sequential history of [kvf_acc].

    No proofs in this file. *)
From Coq Require Import List ZArith NArith Arith Bool.
From GL Require Import spec.KV.
Import ListNotations.

Definition kv_acc (st : state * Z) (o : op) (r : out) (st' : state * Z) : Prop :=
  (snd st <= snd st')%Z /\ step (fst st) (snd st') o = (fst st', r).

(** ** free choice of fresh versions *)

Record fstate := mkF { frecs : list (key * rec); fused : list nat }.

Definition finit : fstate := mkF [] [].

(* the record of [k] as every operation sees it at [now] (virtual expiry, as [KV.find]) *)
Definition ffind (now : Z) (k : key) (s : fstate) : option rec := find now k (mkSt (frecs s) 0).

(* store (v, e) under [k] with version [n] *)
Definition fwrite (k : key) (v : value) (e : option Z) (n : nat) (s : fstate) : fstate :=
  mkF (set k (mkRec v n e) (frecs s)) (n :: fused s).

Fixpoint fput_many (rs : list (key * value * option Z)) (ns : list nat) (s : fstate) : fstate :=
  match rs, ns with
  | (k, v, e) :: t, n :: nt => fput_many t nt (fwrite k v e n s)
  | _, _ => s
  end.

(* [ns]: the versions this operation may use, in the order of its writes *)
Definition fstep (s : fstate) (now : Z) (ns : list nat) (o : op) : fstate * out :=
  match o with
  | Create k v e =>
      match ffind now k s with
      | Some r => (s, OExist (ver r))
      | None => (fwrite k v e (hd 0 ns) s, OVer (hd 0 ns))
      end
  | Get k =>
      match ffind now k s with
      | Some r => (s, ORec (as_orec k r))
      | None => (s, ONotExist)
      end
  | GetMany ks =>
      (s, ORecs (map (fun k => option_map (as_orec k) (ffind now k s)) ks))
  | Put k v e => (fwrite k v e (hd 0 ns) s, ORec (k, v, hd 0 ns, e))
  | PutMany rs => (fput_many rs ns s, OOk)
  | CasByVersion k v e expected =>
      match ffind now k s with
      | None => (s, ONotExist)
      | Some r =>
          if Nat.eqb (ver r) expected then (fwrite k v e (hd 0 ns) s, ORec (k, v, hd 0 ns, e))
          else (s, OConflict)
      end
  | Delete k =>
      match ffind now k s with
      | Some _ => (mkF (remove k (frecs s)) (fused s), OOk)
      | None => (s, ONotExist)
      end
  | ListKeys pat =>
      (s, OKeys (map fst (filter (fun kr => negb (expired now (snd kr)) && matches pat (fst kr)) (frecs s))))
  end.

(* how many versions an operation is given *)
Definition wants (o : op) : nat :=
  match o with
  | Create _ _ _ | Put _ _ _ | CasByVersion _ _ _ _ => 1
  | PutMany rs => length rs
  | _ => 0
  end.

(* pairwise different versions, none of them handed out before *)
Definition supply_ok (s : fstate) (o : op) (ns : list nat) : Prop :=
  length ns = wants o /\ NoDup ns /\ forall n, In n ns -> ~ In n (fused s).

Definition kvf_acc (st : fstate * Z) (o : op) (r : out) (st' : fstate * Z) : Prop :=
  (snd st <= snd st')%Z /\
  exists ns, supply_ok (fst st) o ns /\ fstep (fst st) (snd st') ns o = (fst st', r).

(* [kvf_acc], or the model-only answer [OFuel] (a retry loop of an implementation MODEL ran out of
   fuel; the Go loops are unbounded) which changes nothing *)
Definition kvf_acc_fuel (st : fstate * Z) (o : op) (r : out) (st' : fstate * Z) : Prop :=
  kvf_acc st o r st' \/ (r = OFuel /\ st' = st).
