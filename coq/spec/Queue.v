(** Abstract specification for C14: a bounded FIFO queue of [Z]. *)
From Coq Require Import List ZArith Arith Bool.
From GL Require Import model.RingBuf.
Import ListNotations.
Open Scope Z_scope.

Record queue := mkQ { qitems : list Z; qcap : nat }.   (* oldest first *)

Definition new_q (size : nat) : queue := mkQ [] size.

Definition q_step (q : queue) (o : op) : queue * out :=
  match o with
  | OWrite v =>
      if (length (qitems q) =? qcap q)%nat then (q, OutExhausted)
      else (mkQ (qitems q ++ [v]) (qcap q), OutOk)
  | ORead =>
      match qitems q with
      | [] => (q, OutEOF)
      | x :: t => (mkQ t (qcap q), OutVal x)
      end
  | OReadN k =>
      (mkQ (skipn k (qitems q)) (qcap q), OutVals (firstn k (qitems q)))
  | OSkip n =>
      let m := Z.to_nat (Z.min n (Z.of_nat (length (qitems q)))) in (* = min (max n 0) Len; computed in Z so that huge requests stay cheap *)
      (mkQ (skipn m (qitems q)) (qcap q), OutN m)
  | OAt i =>
      if (i <? 0) || (Z.of_nat (length (qitems q)) <=? i) then (q, OutPanic)
      else (q, OutVal (nth (Z.to_nat i) (qitems q) 0))
  | OClear => (mkQ [] (qcap q), OutOk)
  | OLen => (q, OutN (length (qitems q)))
  | OCap => (q, OutN (qcap q))
  end.

Fixpoint q_run (q : queue) (ops : list op) : list out * queue :=
  match ops with
  | [] => ([], q)
  | o :: t => let '(q', x) := q_step q o in
              let '(xs, qf) := q_run q' t in (x :: xs, qf)
  end.
