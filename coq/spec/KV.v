(** THE CONTRACT of kvs.Storage (kvs/kvs.go), as one sequential reference object.

    State: a finite map  key -> option {val; ver; exp}  (an association list
    without repeated keys, read through [lookup]) and a counter of the versions
    handed out so far.  Time is in nanoseconds ([Z]); every operation is given
    the instant [now] at which it takes effect.  A record with [exp < now] is
    ABSENT for every operation (virtual expiry): nothing ever removes it "at"
    its expiration time, it just stops being visible.

    Versions are natural numbers [1, 2, 3, ...] in the order in which they are
    handed out ([0] is never issued).  The implementations use ULID strings;
    the correspondence is a bijection built along the trace.

    [nil] and empty values are the same value [[]].

    No proofs in this file. *)
From Coq Require Import List ZArith NArith Arith Bool.
Import ListNotations.

Definition key := list N.          (* bytes of the key string *)
Definition value := list N.        (* bytes of the value *)

Record rec := mkRec { val : value; ver : nat; exp : option Z }.

Record state := mkSt { recs : list (key * rec); next : nat }.

Definition init : state := mkSt [] 1.

Fixpoint key_eqb (a b : key) : bool :=
  match a, b with
  | [], [] => true
  | x :: a', y :: b' => N.eqb x y && key_eqb a' b'
  | _, _ => false
  end.

Fixpoint lookup (k : key) (l : list (key * rec)) : option rec :=
  match l with
  | [] => None
  | (k', r) :: t => if key_eqb k k' then Some r else lookup k t
  end.

Definition remove (k : key) (l : list (key * rec)) : list (key * rec) :=
  filter (fun kr => negb (key_eqb k (fst kr))) l.

(* every write moves the key to the end of the list: the order of the list is
   the order of the last writes (only [ListKeys] could see it, and its result
   is documented as unordered) *)
Definition set (k : key) (r : rec) (l : list (key * rec)) : list (key * rec) :=
  remove k l ++ [(k, r)].

(** ** Virtual expiry *)

(* Go: r.ExpiresAt != nil && r.ExpiresAt.Before(now) *)
Definition expired (now : Z) (r : rec) : bool :=
  match exp r with
  | Some e => Z.ltb e now
  | None => false
  end.

(* the record of [k] as every operation sees it at [now] *)
Definition find (now : Z) (k : key) (s : state) : option rec :=
  match lookup k (recs s) with
  | Some r => if expired now r then None else Some r
  | None => None
  end.

(* what is left when the expired records are physically dropped *)
Definition purge (now : Z) (l : list (key * rec)) : list (key * rec) :=
  filter (fun kr => negb (expired now (snd kr))) l.

(** ** Glob patterns over byte strings: literal, [*], [?], [[..]] (with ranges
    [a-c] and the negation [[!..]] of gobwas/glob).  This is the dialect on
    which gobwas/glob and Redis SCAN MATCH agree as long as no class starts
    with [!] or [^] and there is no [{], [}] or backslash. *)

Inductive tok := TLit (c : N) | TStar | TAny | TClass (neg : bool) (cs : list N).

(* the characters up to the closing bracket, and what follows it *)
Fixpoint split_class (p : list N) (acc : list N) : option (list N * list N) :=
  match p with
  | [] => None
  | c :: t => if N.eqb c 93 then Some (rev acc, t) else split_class t (c :: acc)
  end.

(* [negc]: the character that negates a class when it comes first: 33 (!) for
   gobwas/glob, 94 (^) for Redis *)
Fixpoint parse_pat (negc : N) (fuel : nat) (p : list N) : list tok :=
  match fuel, p with
  | O, _ | _, [] => []
  | S f, c :: t =>
      if N.eqb c 42 then TStar :: parse_pat negc f t
      else if N.eqb c 63 then TAny :: parse_pat negc f t
      else if N.eqb c 91 then
        match split_class t [] with
        | Some (x :: cs, rest) =>
            if N.eqb x negc then TClass true cs :: parse_pat negc f rest
            else TClass false (x :: cs) :: parse_pat negc f rest
        | Some ([], rest) => TClass false [] :: parse_pat negc f rest
        | None => TLit c :: parse_pat negc f t
        end
      else TLit c :: parse_pat negc f t
  end.

Fixpoint in_class (cs : list N) (c : N) : bool :=
  match cs with
  | lo :: 45 :: hi :: t => (N.leb lo c && N.leb c hi) || in_class t c
  | x :: t => N.eqb x c || in_class t c
  | [] => false
  end%N.

Definition tok1 (t : tok) (c : N) : bool :=
  match t with
  | TLit x => N.eqb x c
  | TAny => true
  | TClass neg cs => xorb neg (in_class cs c)
  | TStar => false
  end.

Fixpoint tmatch (p : list tok) : list N -> bool :=
  match p with
  | [] => fun s => match s with [] => true | _ => false end
  | TStar :: p' =>
      fix star (s : list N) : bool :=
        tmatch p' s || match s with [] => false | _ :: s' => star s' end
  | t :: p' => fun s => match s with [] => false | c :: s' => tok1 t c && tmatch p' s' end
  end.

Definition glob (negc : N) (pat : list N) (k : list N) : bool := tmatch (parse_pat negc (length pat) pat) k.

(* the contract's matcher: gobwas/glob (kvs.go names that library) *)
Definition matches (pat : list N) (k : key) : bool := glob 33 pat k.

(** ** Operations and results *)

Inductive op :=
| Create (k : key) (v : value) (e : option Z)
| Get (k : key)
| GetMany (ks : list key)
| Put (k : key) (v : value) (e : option Z)
| PutMany (rs : list (key * value * option Z))
| CasByVersion (k : key) (v : value) (e : option Z) (expected : nat)
| Delete (k : key)
| ListKeys (pat : list N).

Definition orec := (key * value * nat * option Z)%type.   (* a kvs.Record as returned *)

Inductive out :=
| OVer (v : nat)                 (* Create: version of the new record, nil *)
| OExist (v : nat)               (* Create: version of the stored record, ErrExist *)
| ORec (r : orec)                (* Get / Put / CasByVersion: the record, nil *)
| ORecs (rs : list (option orec))  (* GetMany: one slot per requested key *)
| OOk                            (* PutMany / Delete: nil *)
| ONotExist                      (* ErrNotExist *)
| OConflict                      (* ErrConflict *)
| OKeys (ks : list key)          (* ListKeys (no order promised) *)
| OCtx                           (* ctx.Err(): WaitForVersionChange whose context ended (C06, C07); no operation of [step] *)
| OOther                         (* any other error or a panic: never a result of the contract *)
| OFuel.                         (* only the implementation models can produce it: a retry loop ran out of fuel *)

Definition as_orec (k : key) (r : rec) : orec := (k, val r, ver r, exp r).

(* store (v, e) under [k] with a version never handed out before *)
Definition write (k : key) (v : value) (e : option Z) (s : state) : state * nat :=
  (mkSt (set k (mkRec v (next s) e) (recs s)) (S (next s)), next s).

Fixpoint put_many (rs : list (key * value * option Z)) (s : state) : state :=
  match rs with
  | [] => s
  | (k, v, e) :: t => put_many t (fst (write k v e s))
  end.

Definition step (s : state) (now : Z) (o : op) : state * out :=
  match o with
  | Create k v e =>
      match find now k s with
      | Some r => (s, OExist (ver r))
      | None => let '(s', n) := write k v e s in (s', OVer n)
      end
  | Get k =>
      match find now k s with
      | Some r => (s, ORec (as_orec k r))
      | None => (s, ONotExist)
      end
  | GetMany ks =>
      (s, ORecs (map (fun k => option_map (as_orec k) (find now k s)) ks))
  | Put k v e =>
      let '(s', n) := write k v e s in (s', ORec (k, v, n, e))
  | PutMany rs => (put_many rs s, OOk)
  | CasByVersion k v e expected =>
      match find now k s with
      | None => (s, ONotExist)
      | Some r =>
          if Nat.eqb (ver r) expected then
            let '(s', n) := write k v e s in (s', ORec (k, v, n, e))
          else (s, OConflict)
      end
  | Delete k =>
      match find now k s with
      | Some _ => (mkSt (remove k (recs s)) (next s), OOk)
      | None => (s, ONotExist)
      end
  | ListKeys pat =>
      (s, OKeys (map fst (filter (fun kr => negb (expired now (snd kr)) && matches pat (fst kr)) (recs s))))
  end.

(* a timed operation sequence: every operation with the instant at which it takes effect *)
Fixpoint run (s : state) (ops : list (Z * op)) : list out * state :=
  match ops with
  | [] => ([], s)
  | (now, o) :: t =>
      let '(s', x) := step s now o in
      let '(xs, sf) := run s' t in (x :: xs, sf)
  end.

(** WaitForVersionChange(key, ver) at one instant: the result the call has if it
    returns at [now], [None] = it keeps waiting (the record exists with that very
    version).  The concurrent behaviour is the subject of C07. *)
Definition wait_now (s : state) (now : Z) (k : key) (v : nat) : option out :=
  match find now k s with
  | None => Some ONotExist
  | Some r => if Nat.eqb (ver r) v then None else Some OOk
  end.
