(** Observations of a live run of the timeout package and the one-sided facts that every
    run must satisfy (shared by the correspondence runs of C12 and C13).

    Times are ns on the monotonic clock since the start of the case.  Nothing here
    predicts the scheduler: [fut_ok] states never-early / at-most-once / cancel-effective
    (+ the liveness observation "an un-cancelled future has started", which the harness
    only reports after it persisted over re-runs), [snap_ok] is the executable form of the
    state invariants proved for the models (idx = position, heap order, F0, bounds)
    evaluated on a snapshot taken under the package lock. *)
From Coq Require Import List ZArith NArith Bool.
From GL Require Import model.THeap.
Import ListNotations.
Open Scope Z_scope.

Definition zid (x : Z) : fid := Z.to_N x.

(* executable form of the invariants proved in proofs/C12_THeap.v *)
Fixpoint heap_ordered_from (h : fheap) (n : nat) (k : Z) : bool :=
  match n with
  | O => true
  | S n' =>
      (if k =? 0 then true
       else negb (f_less h k (Z.quot (k - 1) 2)))
      && heap_ordered_from h n' (k + 1)
  end.
Definition heap_ordered_b (h : fheap) : bool := heap_ordered_from h (length (arr h)) 0.

Fixpoint idx_ok_from (h : fheap) (l : list fid) (k : Z) : bool :=
  match l with
  | [] => true
  | x :: t => (idx (get (hs h) x) =? k) && idx_ok_from h t (k + 1)
  end.
Definition idx_ok_b (h : fheap) : bool :=
  idx_ok_from h (arr h) 0 && match strays h with [] => true | _ => false end.


(** * live runs *)

(* one future of a live run; times in ns since the start of the case *)
Record lfut := mkLF {
  lf_id : fid;
  lf_d : Z;                 (* the timeout passed to Call *)
  lf_nonnil : bool;         (* f != nil *)
  lf_call0 : Z;             (* just before Call *)
  lf_call1 : Z;             (* just after Call returned *)
  lf_fire : Z;              (* fu.fireT read through the hook *)
  lf_starts : list Z;       (* start instants of the callback *)
  lf_cancels : list (Z * Z) (* (before, after) of every Cancel of this future *)
}.

(* a snapshot taken under the package lock *)
Record lsnap := mkLS {
  ls_t0 : Z; ls_t1 : Z;                    (* just before / after VerifSnapshot *)
  ls_watchers : Z; ls_tokens : Z;
  ls_heap : list (fid * Z * Z)             (* (id, idx, fireT) in slice order *)
}.

Record lcase := mkLC {
  lc_maxw : Z; lc_wcap : Z;
  lc_futs : list lfut;
  lc_snaps : list lsnap;
  lc_end : Z                               (* instant at which the run stopped waiting *)
}.

Definition first_cancel_return (f : lfut) : option Z :=
  match map snd (lf_cancels f) with
  | [] => None
  | c :: t => Some (fold_left Z.min t c)
  end.

(* never early: start > fireT >= call0 + d; at most once; no start after an in-time
   Cancel; a nil function never runs; an un-cancelled future has started *)
Definition fut_ok (f : lfut) : bool :=
  forallb (fun s => (lf_fire f <? s) && (lf_call0 f + lf_d f <? s)) (lf_starts f)
  && (lf_call0 f + lf_d f <=? lf_fire f) && (lf_fire f <=? lf_call1 f + lf_d f)
  && (Nat.leb (length (lf_starts f)) 1)
  && (if lf_nonnil f then true else match lf_starts f with [] => true | _ => false end)
  && match first_cancel_return f with
     | Some c => if c <=? lf_fire f
                 then match lf_starts f with [] => true | _ => false end
                 else true
     | None => if lf_nonnil f then match lf_starts f with [] => false | _ => true end else true
     end.

Definition find_fut (fs : list lfut) (x : fid) : option lfut :=
  find (fun f => N.eqb (lf_id f) x) fs.

(* the snapshot as a model heap *)
Definition snap_heap (s : lsnap) : fheap :=
  mkHeap (map (fun e => fst (fst e)) (ls_heap s))
         (map (fun e => (fst (fst e), mkFut (snd e) (snd (fst e)) true)) (ls_heap s))
         false.

(* a future that is not in the snapshot although its Call had returned before, it has a
   function and no Cancel of it had begun: it was popped, hence it was due *)
Definition absent_ok (s : lsnap) (f : lfut) : bool :=
  if existsb (fun e => N.eqb (fst (fst e)) (lf_id f)) (ls_heap s) then true
  else if lf_nonnil f && (lf_call1 f <? ls_t0 s)
          && forallb (fun cn => ls_t1 s <? fst cn) (lf_cancels f)
       then lf_fire f <? ls_t1 s
       else true.

Definition nodup_b (l : list fid) : bool :=
  (fix go (l : list fid) : bool :=
     match l with
     | [] => true
     | x :: t => negb (existsb (N.eqb x) t) && go t
     end) l.

(* executable form of the invariants on a lock-held state: idx = position, heap order,
   F0 (non-empty heap => a worker exists), burst_bounded, token bound; and the pending
   futures have not started before the snapshot *)
Definition snap_ok (c : lcase) (s : lsnap) : bool :=
  let h := snap_heap s in
  idx_ok_from h (arr h) 0 && heap_ordered_b h && nodup_b (arr h)
  && (0 <=? ls_watchers s) && (ls_watchers s <=? lc_maxw c)
  && (0 <=? ls_tokens s) && (ls_tokens s <=? lc_wcap c)
  && (match ls_heap s with [] => true | _ => 1 <=? ls_watchers s end)
  && forallb (fun e =>
       match find_fut (lc_futs c) (fst (fst e)) with
       | Some f => (snd e =? lf_fire f)
                   && forallb (fun st => ls_t0 s <=? st) (lf_starts f)
                   && forallb (fun cn => ls_t0 s <=? snd cn) (lf_cancels f)
                   && (lf_call0 f <=? ls_t1 s)
       | None => false
       end) (ls_heap s)
  && forallb (absent_ok s) (lc_futs c).

(* the part of [snap_ok] that only looks at the state (idx = position, heap order, no
   duplicates, F0, burst_bounded, token bound); for streams whose snapshots may hold
   futures that are not recorded individually *)
Definition snap_state_ok (c : lcase) (s : lsnap) : bool :=
  let h := snap_heap s in
  idx_ok_from h (arr h) 0 && heap_ordered_b h && nodup_b (arr h)
  && (0 <=? ls_watchers s) && (ls_watchers s <=? lc_maxw c)
  && (0 <=? ls_tokens s) && (ls_tokens s <=? lc_wcap c)
  && (match ls_heap s with [] => true | _ => 1 <=? ls_watchers s end).

(* progress on a lock-held snapshot: the head of the queue has not been due for longer
   than [bound].  By coverage (Properties/C13.v: C13_coverage, C13_due_head_progress) a state
   with a due head always has an enabled worker label (a worker about to take the lock,
   an expired or token-served sleeper, or a callback about to return); a head that stays
   due for [bound] while every callback returns at once means that such a label stayed
   enabled for [bound] without being taken - or that the state is not covered (a lost
   wake-up).  Only used with bounds >= 100 x the quiet-system latency and after the
   harness saw it persist over re-runs with a quiet machine. *)
Definition snap_progress_ok (bound : Z) (s : lsnap) : bool :=
  match ls_heap s with
  | [] => true
  | e :: _ => ls_t0 s <=? snd e + bound
  end.

Definition check_live (c : lcase) : bool :=
  forallb fut_ok (lc_futs c) && forallb (snap_ok c) (lc_snaps c)
  && nodup_b (map lf_id (lc_futs c)).


(** * wire format (everything a [Z] literal) *)

Fixpoint unpairs (l : list Z) : list (Z * Z) :=
  match l with
  | a :: b :: t => (a, b) :: unpairs t
  | _ => []
  end.

Definition LF (x d : Z) (nonnil : bool) (c0 c1 fire : Z) (starts cancels : list Z) : lfut :=
  mkLF (zid x) d nonnil c0 c1 fire starts (unpairs cancels).

Fixpoint untriples (l : list Z) : list (fid * Z * Z) :=
  match l with
  | a :: b :: c :: t => (zid a, b, c) :: untriples t
  | _ => []
  end.

Definition SN (t0 t1 w tk : Z) (heap : list Z) : lsnap := mkLS t0 t1 w tk (untriples heap).

