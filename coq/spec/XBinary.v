(** What C16 asks of a decoder result (xbinary Unmarshal functions).

    [total_scalar w buf r]: no panic; an error carries nothing (the model's
    [DErr] has no consumed count: the harness checks the Go value is 0); on
    success the consumed count lies within the input (and is at least 1) and
    the value fits [w] bits.

    [total_bytes buf newBuf r]: no panic; on success the consumed count lies
    within the input, the returned bytes are exactly the sub-range
    [v_off, v_off + len) of the input, that range ends at the consumed count,
    and the result aliases the input iff [newBuf] is false. *)
From Coq Require Import List NArith ZArith Bool.
From GL Require Import model.XBinary.
Import ListNotations.
Open Scope N_scope.

Definition total_scalar (w : N) (buf : list N) (r : dres N) : Prop :=
  match r with
  | DPanic => False
  | DErr => True
  | DOk n v => (1 <= n <= length buf)%nat /\ v < 2 ^ w
  end.

Definition total_bytes (buf : list N) (newBuf : bool) (r : dres bview) : Prop :=
  match r with
  | DPanic => False
  | DErr => True
  | DOk n v =>
      (1 <= n <= length buf)%nat /\
      (v_off v + length (v_data v) = n)%nat /\
      v_data v = firstn (length (v_data v)) (skipn (v_off v) buf) /\
      v_alias v = negb newBuf
  end.

(* a Go slice: its length fits a (64-bit) int *)
Definition go_len (buf : list N) : Prop := (Z.of_nat (length buf) < two63Z)%Z.
