(** Untrusted-scheduler explanation of an observed live run by the dispatcher LTS
    (model/TPool.v): the observable events of a run (Call with the instant chosen for
    its locked section, Cancel, callback start, callback end, sorted by time) are replayed
    as labels; worker labels (Decide / WakeToken / WakeTimer) are inserted on demand by a
    greedy scheduler so that the future whose callback was observed to start is running
    by that instant.  [explain_run ... = Some _] means: the LTS has an accepted trace
    whose Call/Cancel/CbEnd labels are the observed ones, in which every observed start
    is a pop made no later than the observed instant (and, by the LTS, strictly after the
    fire time and in heap order).  [None] only means that THIS scheduler found no such
    trace (the order of overlapping locked sections is not observable); it is counted,
    never reported as a violation. *)
From Coq Require Import List ZArith NArith Bool.
From GL Require Import model.THeap model.TPool.
Import ListNotations.
Open Scope Z_scope.

Inductive oev :=
| OCall (x : fid) (d tc : Z) (nonnil : bool) (a : Z)
| OCancel (x : fid) (t : Z) (started : bool)
| OStart (x : fid) (s : Z)
| OEnd (x : fid) (e : Z).

(* first worker index satisfying f *)
Fixpoint find_worker (f : pc -> bool) (l : list pc) (k : nat) : option nat :=
  match l with
  | [] => None
  | c :: t => if f c then Some k else find_worker f t (S k)
  end.

Definition is_deciding (c : pc) := match c with Deciding _ => true | _ => false end.
Definition is_sleeping (c : pc) := match c with Sleeping _ _ => true | _ => false end.
Definition is_expired (t : Z) (c : pc) := match c with Sleeping _ u => u <=? t | _ => false end.
Definition runs (x : fid) (c : pc) := match c with Running y => N.eqb x y | _ => false end.

(* advance some worker at instant t: a deciding one decides, else a sleeper takes a token,
   else an expired sleeper wakes *)
Definition advance (p : pool) (t : Z) : option pool :=
  match find_worker is_deciding (workers p) 0 with
  | Some w => step p (LDecide w t)
  | None =>
      match (if tokens p >? 0 then find_worker is_sleeping (workers p) 0 else None) with
      | Some w => step p (LWakeToken w t)
      | None =>
          match find_worker (is_expired t) (workers p) 0 with
          | Some w => step p (LWakeTimer w t)
          | None => None
          end
      end
  end.

(* make some worker run x by instant t *)
Fixpoint make_running (fuel : nat) (p : pool) (x : fid) (t : Z) : option pool :=
  if is_running p x then Some p
  else if negb (is_pending p x) then None
  else match fuel with
       | O => None
       | S f => match advance p t with
                | Some p' => make_running f p' x t
                | None => None
                end
       end.

Definition explain_ev (p : pool) (e : oev) : option pool :=
  match e with
  | OCall x d tc nn a => step p (LCall x d tc nn a)
  | OCancel x t started =>
      if started && is_pending p x then
        match make_running (4 * length (pending p) + 4 * length (workers p) + 8) p x t with
        | Some p' => step p' (LCancel x t)
        | None => None
        end
      else step p (LCancel x t)
  | OStart x s => make_running (4 * length (pending p) + 4 * length (workers p) + 8) p x s
  | OEnd x e =>
      match find_worker (runs x) (workers p) 0 with
      | Some w => step p (LCbEnd w e)
      | None => None
      end
  end.

Fixpoint explain_run (p : pool) (es : list oev) : option pool :=
  match es with
  | [] => Some p
  | e :: t => match explain_ev p e with Some p' => explain_run p' t | None => None end
  end.


(** wire format: a flat list of Z.
      1 x d tc nonnil a | 2 x t started | 3 x s | 4 x e *)
Fixpoint decode_evs (fuel : nat) (l : list Z) : list oev :=
  match fuel with
  | O => []
  | S f =>
      match l with
      | 1 :: x :: d :: tc :: nn :: a :: t => OCall (Z.to_N x) d tc (negb (nn =? 0)) a :: decode_evs f t
      | 2 :: x :: tm :: st :: t => OCancel (Z.to_N x) tm (negb (st =? 0)) :: decode_evs f t
      | 3 :: x :: s :: t => OStart (Z.to_N x) s :: decode_evs f t
      | 4 :: x :: e :: t => OEnd (Z.to_N x) e :: decode_evs f t
      | _ => []
      end
  end.

(* EX idle maxw wcap tokens0 events: is the run explained? *)
Definition EX (idle_ maxw_ wcap_ tokens0 : Z) (evs : list Z) : bool :=
  match explain_run (init_pool idle_ maxw_ wcap_ tokens0) (decode_evs (length evs) evs) with
  | Some _ => true
  | None => false
  end.
