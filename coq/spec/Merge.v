(** Abstract specification for C18: the two-pointer merge of two lists under a
    selector [sf] ([sf x y = true]: the head [x] of the first input is emitted
    before the head [y] of the second one). *)
From Coq Require Import List ZArith Bool.
From GL Require Import model.Mixer.
Import ListNotations.
Open Scope Z_scope.

Inductive origin := O1 | O2.

Definition origin_eqb (a b : origin) : bool :=
  match a, b with O1, O1 | O2, O2 => true | _, _ => false end.

(** One step on the remaining inputs [r1], [r2]: which input gives the next
    element, the element, and what remains.  The head of [r1] is emitted iff
    [r2] is empty or ([r1] is not empty and [sf x y]). *)
Definition merge_step (sf : Z -> Z -> bool) (r1 r2 : list Z)
  : option (origin * Z * list Z * list Z) :=
  match r1, r2 with
  | [], [] => None
  | x :: t1, [] => Some (O1, x, t1, [])
  | [], y :: t2 => Some (O2, y, [], t2)
  | x :: t1, y :: t2 =>
      if sf x y then Some (O1, x, t1, y :: t2) else Some (O2, y, x :: t1, t2)
  end.

(** The merge as an iterator over two resettable inputs [l1], [l2]. *)
Record mspec := mkSpec { sp_l1 : list Z; sp_l2 : list Z; sp_r1 : list Z; sp_r2 : list Z }.

Definition spec_init (l1 l2 : list Z) : mspec := mkSpec l1 l2 l1 l2.

Definition spec_step (sf : Z -> Z -> bool) (s : mspec) (c : call) : mspec * out :=
  match c with
  | CHasNext =>
      (s, OHas (match merge_step sf (sp_r1 s) (sp_r2 s) with Some _ => true | None => false end))
  | CNext =>
      match merge_step sf (sp_r1 s) (sp_r2 s) with
      | Some (_, v, r1', r2') => (mkSpec (sp_l1 s) (sp_l2 s) r1' r2', ONext v true)
      | None => (s, ONext 0 false)
      end
  | CReset => (spec_init (sp_l1 s) (sp_l2 s), OReset ROk)
  end.

Fixpoint spec_run (sf : Z -> Z -> bool) (s : mspec) (cs : list call) : list out * mspec :=
  match cs with
  | [] => ([], s)
  | c :: t => let '(s', o) := spec_step sf s c in
              let '(os, sf') := spec_run sf s' t in (o :: os, sf')
  end.

(** The fully drained, origin-tagged output: [merge_step] iterated (on fuel;
    [length r1 + length r2] steps are exactly enough). *)
Fixpoint merge_run (fuel : nat) (sf : Z -> Z -> bool) (r1 r2 : list Z) : list (origin * Z) :=
  match fuel with
  | O => []
  | S f =>
      match merge_step sf r1 r2 with
      | None => []
      | Some (o, v, r1', r2') => (o, v) :: merge_run f sf r1' r2'
      end
  end.

Definition merge_tagged (sf : Z -> Z -> bool) (l1 l2 : list Z) : list (origin * Z) :=
  merge_run (length l1 + length l2) sf l1 l2.

Definition merge_out (sf : Z -> Z -> bool) (l1 l2 : list Z) : list Z :=
  map snd (merge_tagged sf l1 l2).

(* the elements of a tagged output that came from input [o], in output order *)
Definition from_origin (o : origin) (l : list (origin * Z)) : list Z :=
  map snd (filter (fun p => origin_eqb (fst p) o) l).
