(** Abstract specification of the ordered map (C10): the entries ever added,
    in insertion order, each with a live flag; the index of an entry in
    [entries] is its stamp (a re-added key gets a new entry, hence a new
    stamp, at the end).  An iterator is a position: it has passed every
    entry with a smaller stamp. *)
From Coq Require Import List ZArith Arith Bool.
From GL Require Import lib.IMapBase.
Import ListNotations.
Open Scope Z_scope.

Record entry := mkEntry { e_key : Z; e_val : Z; e_live : bool }.

Record omap := mkOMap {
  entries : list entry;
  opos : list (Z * nat)        (* open iterators: name -> position *)
}.

Definition o_new : omap := mkOMap [] [].

(* the first live entry at index >= the given one, searching [l] whose first element has index [i] *)
Fixpoint first_live_from (i : nat) (l : list entry) : option (nat * entry) :=
  match l with
  | [] => None
  | e :: t => if e_live e then Some (i, e) else first_live_from (S i) t
  end.

Definition first_live (es : list entry) (pos : nat) : option (nat * entry) :=
  first_live_from pos (skipn pos es).

Definition live_with (k : Z) (e : entry) : bool := e_live e && (e_key e =? k).

Definition o_find (es : list entry) (k : Z) : option entry := find (live_with k) es.

Definition kill (k : Z) (e : entry) : entry :=
  if live_with k e then mkEntry (e_key e) (e_val e) false else e.

Definition o_len (es : list entry) : nat := length (filter e_live es).

Definition o_step (s : omap) (o : op) : omap * out :=
  match o with
  | OAdd k v =>
      match o_find (entries s) k with
      | Some _ => (s, OutErr)
      | None => (mkOMap (entries s ++ [mkEntry k v true]) (opos s), OutUnit)
      end
  | ORemove k => (mkOMap (map (kill k) (entries s)) (opos s), OutUnit)
  | OGet k => (s, OutGet (option_map e_val (o_find (entries s) k)))
  | OLen => (s, OutLen (o_len (entries s)))
  | OFirst => (s, OutFirst (option_map (fun r => e_key (snd r)) (first_live (entries s) 0)))
  | ONewIter i => (mkOMap (entries s) ((i, 0%nat) :: opos s), OutUnit)
  | OHasNext i =>
      match alookup i (opos s) with
      | Some p => (s, OutBool (match first_live (entries s) p with Some _ => true | None => false end))
      | None => (s, OutPanic)
      end
  | ONext i =>
      match alookup i (opos s) with
      | Some p =>
          match first_live (entries s) p with
          | Some (j, e) => (mkOMap (entries s) (aset i (S j) (opos s)), OutNext (Some (e_key e, e_val e)))
          | None => (s, OutNext None)
          end
      | None => (s, OutPanic)
      end
  | OClose i =>
      match alookup i (opos s) with
      | Some _ => (mkOMap (entries s) (aremove i (opos s)), OutUnit)
      | None => (s, OutPanic)
      end
  end.

Definition run_omap (h : list op) : list out := outs o_step o_new h.
