(** Vocabulary for the corollaries of C10: what a history means, told without
    the machinery of spec/OMap.v wherever possible.

    - [live_kv h]: the live entries after [h] as an association list in
      insertion order, computed by the obvious fold (Add of an absent key
      appends, Remove deletes).  The oldest live entry is its head.
    - [ostate h]: the state of the specification after [h]; [added h]: every
      entry ever added, in order -- the position of an entry in this list is
      its *stamp*, a re-added key gets a new stamp; [live_at h j]: is the entry
      with stamp [j] live after [h].
    - [pos_of h i]: the position of the open iterator [i] (it has passed
      every stamp below it); [stamp_ret h i]: the stamp a call [Next i] made
      after [h] returns; [returned i h1 h2]: the stamps the calls [Next i]
      made during [h2] (after [h1]) return, in order.

    No proofs in this file. *)
From Coq Require Import List ZArith Arith Bool.
From GL Require Import lib.IMapBase spec.OMap.
Import ListNotations.
Open Scope Z_scope.

Definition kv_step (l : list (Z * Z)) (x : op) : list (Z * Z) :=
  match x with
  | OAdd k v => match alookup k l with Some _ => l | None => l ++ [(k, v)] end
  | ORemove k => aremove k l
  | _ => l
  end.

Definition live_kv (h : list op) : list (Z * Z) := fold_left kv_step h [].

Definition ostate (h : list op) : omap := fold_left (fun s x => fst (o_step s x)) h o_new.

(* what the specification answers to the call [x] made after [h] *)
Definition o_answer (h : list op) (x : op) : out := snd (o_step (ostate h) x).

Definition kv (e : entry) : Z * Z := (e_key e, e_val e).

Definition added (h : list op) : list (Z * Z) := map kv (entries (ostate h)).

Definition live_at (h : list op) (j : nat) : bool :=
  match nth_error (entries (ostate h)) j with Some e => e_live e | None => false end.

Definition pos_of (h : list op) (i : Z) : option nat := alookup i (opos (ostate h)).

Definition stamp_ret (h : list op) (i : Z) : option nat :=
  match pos_of h i with
  | Some p => option_map fst (first_live (entries (ostate h)) p)
  | None => None
  end.

Fixpoint returned (i : Z) (h1 h2 : list op) : list nat :=
  match h2 with
  | [] => []
  | x :: t =>
      (match x with
       | ONext j => if j =? i then match stamp_ret h1 i with Some s => [s] | None => [] end else []
       | _ => []
       end) ++ returned i (h1 ++ [x]) t
  end.
