(** Vocabulary of the C05 statements over traces of model/LeaseLTS.v. *)
From Coq Require Import List ZArith Bool.
From GL Require Import model.LeaseLTS.
Import ListNotations.
Open Scope Z_scope.

(* the last instant at which the holder was known to be alive *)
Definition clock (s : state) : Z := match hs s with HDead d => d | _ => now s end.

(* labels of the renewal chain of the tenure *)
Definition chain_label (l : label) : bool :=
  match l with TimerFire | StCas _ | Rearm | RetryArm => true | _ => false end.

(* every local action of the holder's thread and of its timer *)
Definition holder_local (l : label) : bool :=
  match l with
  | TimerFire | Rearm | RetryArm | Unlock _ | StDelete _ | Acquire | StCreate | AcqArm | Die => true
  | _ => false
  end.

Definition is_cas (l : label) : bool := match l with StCas _ => true | _ => false end.
(* renewal calls of the tenure (lost or not) *)
Definition cas_count (tr : list label) : nat := length (filter is_cas tr).
(* renewal calls of the tenure that reach the storage *)
Definition is_applied_cas (l : label) : bool := match l with StCas FOk => true | _ => false end.
Definition applied_cas (tr : list label) : nat := length (filter is_applied_cas tr).

(** What "renewal dies out after Unlock" means along a trace [tr] that starts in the
    state [s] right after the Delete of Unlock: the first renewal call of the tenure
    that reaches the storage is answered ErrNotExist or ErrConflict, leaves the stored
    data and the version counter as they were, ends the chain ([TDone]), and no label
    of the chain (timer fire, storage call, re-arm, retry-arm) occurs after it. *)
Fixpoint after_unlock_spec (TTL : Z) (s : state) (tr : list label) : Prop :=
  match tr with
  | [] => True
  | l :: t =>
      match step TTL s l with
      | None => True
      | Some (s', r) =>
          if is_applied_cas l then
            (r = RNotExist \/ r = RConflict) /\ tst s' = TDone /\
            present s' = present s /\ nextv s' = nextv s /\
            (forall l', In l' t -> chain_label l' = false)
          else after_unlock_spec TTL s' t
      end
  end.

(* labels carrying an injected fault *)
Definition faulty (l : label) : bool :=
  match l with
  | StCas FOk | StDelete FOk => false
  | StCas _ | StDelete _ => true
  | _ => false
  end.
