(** Abstract specification for C08 / C09: a reference LRU cache.

    State: the recency list, least recently used entry first, most recently
    used last.  An entry is [(k, (pk, v))]: inner (comparable) key, the primary
    key the entry was created with, and the value.  Capacity is a parameter.

    The operations take the *scripted* answer of the create function: [res] is
    what the create callback will return if (and only if) it is called.  Every
    callback invocation is an observable event, in order:
      [EvCreate pk res]  the create function was called with [pk] and answered [res]
      [EvDelete pk v]    the delete callback was called with [(pk, v)].

    This file also defines the operation / result / event types shared with the
    executable model (model/ECache.v).  No proofs in this file. *)
From Coq Require Import List ZArith Arith Bool.
Import ListNotations.

Section LRU.
Context {PK K V : Type}.
Context (keqb : K -> K -> bool).     (* decidable equality of inner keys *)
Context (kmap : PK -> K).            (* mapToInnerKeyF (identity for Cache) *)
Context (expires : V -> Z).          (* GetExpiresAt, as an instant (ExpirableCache only) *)

Inductive lru_op : Type :=
| OGet (pk : PK) (res : option V)                       (* ECache/Cache.GetOrCreate *)
| ORemove (pk : PK)
| OClear
| OEGet (pk : PK) (now : Z) (res1 res2 : option V).     (* ExpirableCache.GetOrCreate *)

Inductive lru_res : Type :=
| RVal (v : V)         (* (v, nil) *)
| RErr                 (* (_, err) : the create function failed *)
| RBool (b : bool)     (* Remove *)
| RCount (n : nat).    (* Clear *)

Inductive lru_ev : Type :=
| EvCreate (pk : PK) (res : option V)
| EvDelete (pk : PK) (v : V).

Definition lru_out : Type := (lru_res * list lru_ev)%type.

Definition lru_state : Type := list (K * (PK * V)).

Fixpoint lru_find (k : K) (l : lru_state) : option (PK * V) :=
  match l with
  | [] => None
  | (k', x) :: t => if keqb k k' then Some x else lru_find k t
  end.

Definition lru_del (k : K) (l : lru_state) : lru_state :=
  filter (fun e => negb (keqb k (fst e))) l.

(* GetOrCreate: hit -> no create call, entry becomes most recently used;
   miss -> exactly one create call; on success insert as MRU and evict exactly
   the LRU entry iff the capacity is exceeded; on failure nothing changes *)
Definition lru_get (cap : nat) (l : lru_state) (pk : PK) (res : option V)
  : lru_state * lru_out :=
  let k := kmap pk in
  match lru_find k l with
  | Some (pk0, v0) => (lru_del k l ++ [(k, (pk0, v0))], (RVal v0, []))
  | None =>
      match res with
      | None => (l, (RErr, [EvCreate pk None]))
      | Some v =>
          let l' := l ++ [(k, (pk, v))] in
          if (cap <? length l')%nat then
            match l' with
            | (_, (pkd, vd)) :: t => (t, (RVal v, [EvCreate pk (Some v); EvDelete pkd vd]))
            | [] => (l', (RVal v, [EvCreate pk (Some v)]))
            end
          else (l', (RVal v, [EvCreate pk (Some v)]))
      end
  end.

Definition lru_remove (l : lru_state) (pk : PK) : lru_state * lru_out :=
  let k := kmap pk in
  match lru_find k l with
  | Some (pk0, v0) => (lru_del k l, (RBool true, [EvDelete pk0 v0]))
  | None => (l, (RBool false, []))
  end.

Definition lru_clear (l : lru_state) : lru_state * lru_out :=
  ([], (RCount (length l), map (fun e => EvDelete (fst (snd e)) (snd (snd e))) l)).

(* ExpirableCache.GetOrCreate: a value that is already expired at [now] is
   replaced: it leaves the cache (delete callback) and the create function is
   asked again; the second answer is returned as it is.  [res1], [res2] are the
   answers to the first and to the second call of the create function made
   during this operation (a hit makes no call, so the re-creation after a hit
   on an expired item consumes [res1]) *)
Definition lru_eget (cap : nat) (l : lru_state) (pk : PK) (now : Z) (res1 res2 : option V)
  : lru_state * lru_out :=
  let '(l1, (r1, e1)) := lru_get cap l pk res1 in
  match r1 with
  | RVal v =>
      if (expires v <? now)%Z then
        let '(l2, (_, e2)) := lru_remove l1 pk in
        let res' := match e1 with [] => res1 | _ => res2 end in
        let '(l3, (r3, e3)) := lru_get cap l2 pk res' in
        (l3, (r3, e1 ++ e2 ++ e3))
      else (l1, (r1, e1))
  | _ => (l1, (r1, e1))
  end.

Definition lru_step (cap : nat) (l : lru_state) (o : lru_op) : lru_state * lru_out :=
  match o with
  | OGet pk res => lru_get cap l pk res
  | ORemove pk => lru_remove l pk
  | OClear => lru_clear l
  | OEGet pk now r1 r2 => lru_eget cap l pk now r1 r2
  end.

Fixpoint lru_run (cap : nat) (l : lru_state) (ops : list lru_op) : list lru_out * lru_state :=
  match ops with
  | [] => ([], l)
  | o :: t => let '(l', x) := lru_step cap l o in
              let '(xs, lf) := lru_run cap l' t in (x :: xs, lf)
  end.

(** ghost projections used by the accounting theorems *)
Definition all_events (outs : list lru_out) : list lru_ev := concat (map snd outs).

Fixpoint created_ok (evs : list lru_ev) : list (PK * V) :=
  match evs with
  | [] => []
  | EvCreate pk (Some v) :: t => (pk, v) :: created_ok t
  | _ :: t => created_ok t
  end.

Fixpoint deleted (evs : list lru_ev) : list (PK * V) :=
  match evs with
  | [] => []
  | EvDelete pk v :: t => (pk, v) :: deleted t
  | _ :: t => deleted t
  end.

Definition resident (l : lru_state) : list (PK * V) := map snd l.

End LRU.

Arguments lru_op : clear implicits.
Arguments lru_res : clear implicits.
Arguments lru_ev : clear implicits.
Arguments lru_out : clear implicits.
Arguments lru_state : clear implicits.
