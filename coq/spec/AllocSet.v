(** Abstract specification for C17: the allocator as a finite set of allocated
    block indices (a strictly ascending list) over [count] indices.

    ArrangeBlock hands out the least index that is not allocated (this is what
    the hint-driven scan of the implementation amounts to, see
    proofs/C17_Blocks.v) and fails with ErrExhausted iff every index is
    allocated; FreeBlock removes exactly the index it is given; user writes
    into blocks do not change the set.

    The storage under the allocator may be larger than the segments the
    allocator was opened with (non-fit storages; [OGrow] = bts.Grow under the
    live allocator).  The specification therefore also carries the storage
    size and the marks recorded behind the live segments ([sp_hidden]).  Grow
    changes the size and nothing else: the live set, count and Available stay.
    Reopening (NewBlocks on the storage as it is now) recomputes the number of
    segments from the size: the marks of the segments that became whole join
    the set, no live index changes its state; with fit it fails with
    ErrInvalid when the size is not a whole number of segments.  Without room
    behind the live segments a reopen changes nothing. *)
From Coq Require Import List ZArith Bool.
From GL Require Import model.Blocks.
Import ListNotations.
Open Scope Z_scope.

(** * Finite sets of indices as ascending lists *)

Fixpoint as_mem (i : Z) (l : list Z) : bool :=
  match l with
  | [] => false
  | x :: t => (x =? i) || as_mem i t
  end.

Fixpoint as_add (i : Z) (l : list Z) : list Z :=
  match l with
  | [] => [i]
  | x :: t => if i <? x then i :: l else if i =? x then l else x :: as_add i t
  end.

Fixpoint as_remove (i : Z) (l : list Z) : list Z :=
  match l with
  | [] => []
  | x :: t => if x =? i then t else x :: as_remove i t
  end.

Definition as_card (l : list Z) : Z := Z.of_nat (length l).

(* least index >= i that is not in the ascending list l (all of whose elements are >= i) *)
Fixpoint lowest_free (i : Z) (l : list Z) : Z :=
  match l with
  | [] => i
  | x :: t => if x =? i then lowest_free (i + 1) t else i
  end.

(** * The specification machine *)

Record aspec := mkSpec {
  sp_bs : Z; sp_segs : Z;
  sp_alloc : list Z;    (* allocated indices below the live count, ascending *)
  sp_size : Z;          (* size of the storage in bytes *)
  sp_hidden : list Z    (* marks behind the live count inside the storage, ascending *)
}.

Definition sp_count (s : aspec) : Z := sp_segs s * (8 * sp_bs s).

Definition sp_ssz (s : aspec) : Z := (8 * sp_bs s + 1) * sp_bs s.

Definition sp_with (s : aspec) (l : list Z) : aspec :=
  mkSpec (sp_bs s) (sp_segs s) l (sp_size s) (sp_hidden s).

(* NewBlocks on the storage as it is now *)
Definition sp_reopen (fit : bool) (s : aspec) : aspec * out :=
  if fit && negb (sp_size s mod sp_ssz s =? 0) then (s, OutErr EInvalid)
  else
    let segs := sp_size s / sp_ssz s in
    let cnt := segs * (8 * sp_bs s) in
    (mkSpec (sp_bs s) segs
       (sp_alloc s ++ filter (fun i => i <? cnt) (sp_hidden s))
       (sp_size s)
       (filter (fun i => cnt <=? i) (sp_hidden s)), OutOk).

Definition sp_valid (s : aspec) (i : Z) : bool := (0 <=? i) && (i <? sp_count s).

(* where block i lives: (i + i/(8 bs) + 1) * bs *)
Definition sp_block_off (s : aspec) (i : Z) : Z := (i + i / (8 * sp_bs s) + 1) * sp_bs s.

Definition sp_step (fit : bool) (s : aspec) (o : op) : aspec * out :=
  match o with
  | OArrange =>
      if as_card (sp_alloc s) =? sp_count s then (s, OutErr EExhausted)
      else let i := lowest_free 0 (sp_alloc s) in (sp_with s (as_add i (sp_alloc s)), OutIdx i)
  | OFree i =>
      if negb (sp_valid s i) then (s, OutErr EInvalid)
      else if as_mem i (sp_alloc s) then (sp_with s (as_remove i (sp_alloc s)), OutOk)
      else (s, OutErr ENotExist)
  | OBlock i =>
      if sp_valid s i then (s, OutSlice (sp_block_off s i) (sp_bs s)) else (s, OutErr EInvalid)
  | OWrite i _ =>
      if sp_valid s i then (s, OutOk) else (s, OutErr EInvalid)
  | OPoke i k _ =>
      if sp_valid s i then (s, if (k <? 0) || (sp_bs s <=? k) then OutPanic else OutOk)
      else (s, OutErr EInvalid)
  | OReopen => sp_reopen fit s
  | OAvail => (s, OutN (sp_count s - as_card (sp_alloc s)))
  | OCount => (s, OutN (sp_count s))
  | OSegments => (s, OutN (sp_segs s))
  | OGrow n =>
      if n <? sp_size s then (s, OutErr EOther)
      else (mkSpec (sp_bs s) (sp_segs s) (sp_alloc s) n (sp_hidden s), OutOk)
  end.

Fixpoint sp_run (fit : bool) (s : aspec) (ops : list op) : list out * aspec :=
  match ops with
  | [] => ([], s)
  | o :: t =>
      let '(s', x) := sp_step fit s o in
      let '(xs, sf) := sp_run fit s' t in (x :: xs, sf)
  end.

(* the abstraction: what a model state stands for *)
Definition abs (b : blocks) : aspec :=
  mkSpec (blkSize b) (segments b) (alloc_list b) (bsize (bts b)) (hidden_list b).

(* the same from block size and bytes alone (an allocator just opened on them) *)
Definition spec_of_bytes (bs : Z) (buf : buffer) : aspec :=
  let segs := bsize buf / ((8 * bs + 1) * bs) in
  mkSpec bs segs (alloc_of_bytes bs segs buf) (bsize buf) (hidden_of_bytes bs segs buf).
