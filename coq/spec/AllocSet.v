(** Abstract specification for C17: the allocator as a finite set of allocated
    block indices (a strictly ascending list) over [count] indices.

    ArrangeBlock hands out the least index that is not allocated (this is what
    the hint-driven scan of the implementation amounts to, see
    proofs/C17_Blocks.v) and fails with ErrExhausted iff every index is
    allocated; FreeBlock removes exactly the index it is given; reopening and
    user writes into blocks do not change the set. *)
From Coq Require Import List ZArith Bool.
From GL Require Import model.Blocks.
Import ListNotations.
Open Scope Z_scope.

(** * Finite sets of indices as ascending lists *)

Fixpoint as_mem (i : Z) (l : list Z) : bool :=
  match l with
  | [] => false
  | x :: t => (x =? i) || as_mem i t
  end.

Fixpoint as_add (i : Z) (l : list Z) : list Z :=
  match l with
  | [] => [i]
  | x :: t => if i <? x then i :: l else if i =? x then l else x :: as_add i t
  end.

Fixpoint as_remove (i : Z) (l : list Z) : list Z :=
  match l with
  | [] => []
  | x :: t => if x =? i then t else x :: as_remove i t
  end.

Definition as_card (l : list Z) : Z := Z.of_nat (length l).

(* least index >= i that is not in the ascending list l (all of whose elements are >= i) *)
Fixpoint lowest_free (i : Z) (l : list Z) : Z :=
  match l with
  | [] => i
  | x :: t => if x =? i then lowest_free (i + 1) t else i
  end.

(** * The specification machine *)

Record aspec := mkSpec { sp_bs : Z; sp_segs : Z; sp_alloc : list Z }.

Definition sp_count (s : aspec) : Z := sp_segs s * (8 * sp_bs s).

Definition sp_with (s : aspec) (l : list Z) : aspec := mkSpec (sp_bs s) (sp_segs s) l.

Definition sp_valid (s : aspec) (i : Z) : bool := (0 <=? i) && (i <? sp_count s).

(* where block i lives: (i + i/(8 bs) + 1) * bs *)
Definition sp_block_off (s : aspec) (i : Z) : Z := (i + i / (8 * sp_bs s) + 1) * sp_bs s.

Definition sp_step (s : aspec) (o : op) : aspec * out :=
  match o with
  | OArrange =>
      if as_card (sp_alloc s) =? sp_count s then (s, OutErr EExhausted)
      else let i := lowest_free 0 (sp_alloc s) in (sp_with s (as_add i (sp_alloc s)), OutIdx i)
  | OFree i =>
      if negb (sp_valid s i) then (s, OutErr EInvalid)
      else if as_mem i (sp_alloc s) then (sp_with s (as_remove i (sp_alloc s)), OutOk)
      else (s, OutErr ENotExist)
  | OBlock i =>
      if sp_valid s i then (s, OutSlice (sp_block_off s i) (sp_bs s)) else (s, OutErr EInvalid)
  | OWrite i _ =>
      if sp_valid s i then (s, OutOk) else (s, OutErr EInvalid)
  | OPoke i k _ =>
      if sp_valid s i then (s, if (k <? 0) || (sp_bs s <=? k) then OutPanic else OutOk)
      else (s, OutErr EInvalid)
  | OReopen => (s, OutOk)
  | OAvail => (s, OutN (sp_count s - as_card (sp_alloc s)))
  | OCount => (s, OutN (sp_count s))
  | OSegments => (s, OutN (sp_segs s))
  end.

Fixpoint sp_run (s : aspec) (ops : list op) : list out * aspec :=
  match ops with
  | [] => ([], s)
  | o :: t =>
      let '(s', x) := sp_step s o in
      let '(xs, sf) := sp_run s' t in (x :: xs, sf)
  end.

(* the abstraction: what a model state stands for *)
Definition abs (b : blocks) : aspec := mkSpec (blkSize b) (segments b) (alloc_list b).
