(** LockLTS: labelled transition system of the distributed lock
    kvs/distlock/kvlock.go over one kvs.Storage, for ONE lock name.

    Any number of goroutines [t], Locker objects [L] (sync.Locker values made by
    NewLocker with the same name), providers [p] (kvsLockProvider values, each
    Locker belongs to one: [lprov]) and ONE shared storage.  All maps are total
    functions over [nat] whose default is the initial value, so the system has
    infinitely many threads / Lockers / providers, all initially untouched.

    Every label is one storage call (at the instant the storage applies it) or
    one local atomic action of kvlock.go:

    - [Invoke t op]     entry of Lock / TryLock / LockWithCtx / Unlock.  For Unlock this is the
                        CompareAndSwap(lckCntr,1,0) together with future.Load().Cancel()
                        (kvlock.go:137-143); the panic of an un-locked Unlock is the outcome
                        [Done RPanic] with no effect.
    - [TakeToken t]     the case [<-l.lockCh] of the select in lockInternal/tryLockInternal together
                        with the following IsOpened(done) test and CompareAndSwap(lckCntr,0,1)
                        (kvlock.go:234-242, 250-258).  When the provider is shut down the
                        token has been received and is NOT put back (the code returns ErrClosed
                        right away): the token of that Locker is lost.
    - [TryFail t]       the [default] case of tryLockInternal (kvlock.go:259).
    - [Bail t why]      the cases [<-ctx.Done()] / [<-l.dlp.done] of the select.
    - [CheckCtx t]      the evaluation of ctx.Err() at the head of the retry loop
                        (kvlock.go:168 and :183); TryLock has no such test.
    - [StCreate t flt]  Storage.Create (kvlock.go:109, :171).  On success the renewal timer is armed
                        and stored into l.future (kvlock.go:114, :177) in the same label.
    - [StWaitRet t why] return of Storage.WaitForVersionChange (kvlock.go:182); its result is ignored.
    - [CtxDone t]       the context of the running attempt of t ends.
    - [StDelete t flt]  Storage.Delete in Unlock (kvlock.go:144); every outcome is ignored.
    - [PutToken t]      [l.lockCh <- true], preceded on the failure paths by StoreInt32(lckCntr,0)
                        (kvlock.go:117-118, :187-188, :151).
    - [Return t r]      the call returns r to the caller (a panic of Lock/Unlock is the result RPanic).
    - [Shutdown p]      close(dlp.done).
    - [TimerFire id], [StCas id flt], [Rearm id]   the three steps of supportTimeout (kvlock.go:196-222):
                        future.Load(), Storage.CasByVersion, timeout.Call + future.CompareAndSwap.
    - [Expire]          the storage drops the record because its lease ran out.

    [flt]: FOk, FReqLost (the call never reaches the storage, an error is returned), FReplyLost (the
    call is applied, an error is returned), FCtx (the storage refuses the call because the context
    of the caller is done - what inmem.Create does).

    Ghost state: the [owner] tenure of the stored record, [held] of a Locker (set by the successful
    Create, cleared by Invoke Unlock) and the tenure carried by [Unl1].  No proofs in this file. *)
From Coq Require Import List Arith Bool NArith.
Import ListNotations.

Definition thread := nat.
Definition lockerId := nat.
Definition provId := nat.
Definition ver := N.
Definition tenure := N.

Inductive kind := KLock | KTry | KCtx.
Inductive err := ECtx | EClosed | EStorage.
Inductive res := RUnit | RTrue | RFalse | RNil | RErr (e : err) | RPanic.
Inductive op := OLock (L : lockerId) | OTry (L : lockerId) | OCtx (L : lockerId) | OUnlock (L : lockerId).
Inductive flt := FOk | FReqLost | FReplyLost | FCtx.
Inductive why := WChanged | WCtx.
Inductive bail := BCtx | BClosed.

Inductive pc :=
| Idle
| LocalWait (L : lockerId) (k : kind)     (* in the select of lockInternal / tryLockInternal *)
| HasToken (L : lockerId) (k : kind)      (* token taken, counter 1, about to look at ctx.Err() *)
| CreateIssued (L : lockerId) (k : kind)  (* Storage.Create called, not yet applied *)
| WaitVer (L : lockerId) (k : kind) (v : ver)  (* inside WaitForVersionChange(ctx, key, v) *)
| Unl1 (L : lockerId) (tn : option tenure)     (* Unlock: counter reset, timer cancelled, Delete pending *)
| Unl2 (L : lockerId)                     (* Unlock: Delete done, token to be returned *)
| Failing (L : lockerId) (r : res)        (* failure path: counter reset + token to be returned *)
| Done (r : res).                         (* about to return r *)

Inductive label :=
| Invoke (t : thread) (o : op)
| TakeToken (t : thread)
| TryFail (t : thread)
| Bail (t : thread) (b : bail)
| CheckCtx (t : thread)
| StCreate (t : thread) (f : flt)
| StWaitRet (t : thread) (w : why)
| CtxDone (t : thread)
| StDelete (t : thread) (f : flt)
| PutToken (t : thread)
| Return (t : thread) (r : res)
| Shutdown (p : provId)
| TimerFire (id : nat)
| StCas (id : nat) (f : flt)
| Rearm (id : nat)
| Expire.

(** per Locker: lockCh (one slot), lckCntr, the future stored in l.future, ghost [held] *)
Record locker := mkLocker {
  token : bool;
  cntr : bool;
  held : option tenure;
  future : option nat
}.

Inductive cas_out := CRenewed (v : ver) | CRetry | CDead.

Inductive tstate :=
| TArmed
| TCancelled
| TFired (loaded : option nat)                 (* callback running, l.future.Load() done *)
| TCasDone (loaded : option nat) (o : cas_out) (* CasByVersion returned *)
| TFinished.

Record timer := mkTimer {
  tm_L : lockerId;
  tm_tn : tenure;     (* ghost: the tenure whose lease this chain renews *)
  tm_ver : ver;
  tm_st : tstate
}.

Record tcb := mkTcb { t_pc : pc; t_ctx : bool }.

Record state := mkState {
  rec : option (ver * tenure);   (* the lock record: version, ghost owner *)
  nextver : N;
  nexttn : N;
  lprov : lockerId -> provId;    (* immutable *)
  lk : lockerId -> locker;
  down : provId -> bool;
  th : thread -> tcb;
  timers : nat -> timer;
  ntimers : nat
}.

Definition upd {A} (f : nat -> A) (i : nat) (v : A) : nat -> A :=
  fun j => if Nat.eqb j i then v else f j.

Definition locker0 : locker := mkLocker true false None None.
Definition tcb0 : tcb := mkTcb Idle false.
Definition timer0 : timer := mkTimer 0 0%N 0%N TFinished.

Definition init (lp : lockerId -> provId) : state :=
  mkState None 1%N 1%N lp (fun _ => locker0) (fun _ => false) (fun _ => tcb0) (fun _ => timer0) 0.

(** setters *)
Definition set_rec (s : state) (r : option (ver * tenure)) : state :=
  mkState r (nextver s) (nexttn s) (lprov s) (lk s) (down s) (th s) (timers s) (ntimers s).
Definition set_nextver (s : state) (n : N) : state :=
  mkState (rec s) n (nexttn s) (lprov s) (lk s) (down s) (th s) (timers s) (ntimers s).
Definition set_nexttn (s : state) (n : N) : state :=
  mkState (rec s) (nextver s) n (lprov s) (lk s) (down s) (th s) (timers s) (ntimers s).
Definition set_lk (s : state) (L : lockerId) (k : locker) : state :=
  mkState (rec s) (nextver s) (nexttn s) (lprov s) (upd (lk s) L k) (down s) (th s) (timers s) (ntimers s).
Definition set_down (s : state) (p : provId) : state :=
  mkState (rec s) (nextver s) (nexttn s) (lprov s) (lk s) (upd (down s) p true) (th s) (timers s) (ntimers s).
Definition set_th (s : state) (t : thread) (c : tcb) : state :=
  mkState (rec s) (nextver s) (nexttn s) (lprov s) (lk s) (down s) (upd (th s) t c) (timers s) (ntimers s).
Definition set_timer (s : state) (id : nat) (tm : timer) : state :=
  mkState (rec s) (nextver s) (nexttn s) (lprov s) (lk s) (down s) (th s) (upd (timers s) id tm) (ntimers s).
Definition set_ntimers (s : state) (n : nat) : state :=
  mkState (rec s) (nextver s) (nexttn s) (lprov s) (lk s) (down s) (th s) (timers s) n.

Definition pc_of (s : state) (t : thread) : pc := t_pc (th s t).
Definition ctx_of (s : state) (t : thread) : bool := t_ctx (th s t).
(** change the pc of t, keep its context flag *)
Definition set_pc (s : state) (t : thread) (p : pc) : state :=
  set_th s t (mkTcb p (ctx_of s t)).

Definition set_token (k : locker) (b : bool) := mkLocker b (cntr k) (held k) (future k).
Definition set_cntr (k : locker) (b : bool) := mkLocker (token k) b (held k) (future k).
Definition set_held (k : locker) (h : option tenure) := mkLocker (token k) (cntr k) h (future k).
Definition set_future (k : locker) (f : option nat) := mkLocker (token k) (cntr k) (held k) f.
Definition set_st (tm : timer) (st : tstate) := mkTimer (tm_L tm) (tm_tn tm) (tm_ver tm) st.

Definition ok_result (k : kind) : res :=
  match k with KLock => RUnit | KTry => RTrue | KCtx => RNil end.
(** Lock() panics on every error of lockWithCtx; TryLock maps every error to false *)
Definition fail_result (k : kind) (e : err) : res :=
  match k with KLock => RPanic | KTry => RFalse | KCtx => RErr e end.

Definition kind_eqb (a b : kind) : bool :=
  match a, b with KLock, KLock | KTry, KTry | KCtx, KCtx => true | _, _ => false end.
Definition err_eqb (a b : err) : bool :=
  match a, b with ECtx, ECtx | EClosed, EClosed | EStorage, EStorage => true | _, _ => false end.
Definition res_eqb (a b : res) : bool :=
  match a, b with
  | RUnit, RUnit | RTrue, RTrue | RFalse, RFalse | RNil, RNil | RPanic, RPanic => true
  | RErr x, RErr y => err_eqb x y
  | _, _ => false
  end.
Definition onat_eqb (a b : option nat) : bool :=
  match a, b with
  | None, None => true
  | Some x, Some y => Nat.eqb x y
  | _, _ => false
  end.

(** future.Cancel(): only an armed timer is affected *)
Definition cancel_timer (s : state) (id : nat) : state :=
  match tm_st (timers s id) with
  | TArmed => set_timer s id (set_st (timers s id) TCancelled)
  | _ => s
  end.

(** timeout.Call(func(){ l.supportTimeout(v) }, ...) followed by l.future.Store *)
Definition arm_first (s : state) (L : lockerId) (tn : tenure) (v : ver) : state :=
  let id := ntimers s in
  let s1 := set_ntimers (set_timer s id (mkTimer L tn v TArmed)) (S id) in
  set_lk s1 L (set_future (lk s1 L) (Some id)).

(** CasByVersion finds the record with exactly the version the timer carries: its ghost owner *)
Definition cas_hit (s : state) (tm : timer) : option tenure :=
  match rec s with
  | Some (v, o) => if N.eqb v (tm_ver tm) then Some o else None
  | None => None
  end.

Definition acquire_entry (s : state) (t : thread) (L : lockerId) (k : kind) : option state :=
  Some (set_th s t (mkTcb (LocalWait L k) false)).

Definition step (s : state) (l : label) : option state :=
  match l with
  | Invoke t o =>
      match pc_of s t with
      | Idle =>
          match o with
          | OLock L => acquire_entry s t L KLock
          | OTry L => acquire_entry s t L KTry
          | OCtx L => acquire_entry s t L KCtx
          | OUnlock L =>
              let k := lk s L in
              if cntr k then
                match future k with
                | None =>
                    (* CompareAndSwap succeeded, future.Load().(timeout.Future) panics on nil *)
                    Some (set_lk (set_th s t (mkTcb (Done RPanic) false)) L (set_cntr k false))
                | Some f =>
                    let s1 := set_lk s L (set_held (set_cntr k false) None) in
                    Some (cancel_timer (set_th s1 t (mkTcb (Unl1 L (held k)) false)) f)
                end
              else Some (set_th s t (mkTcb (Done RPanic) false))
          end
      | _ => None
      end
  | TakeToken t =>
      match pc_of s t with
      | LocalWait L k =>
          let lo := lk s L in
          if token lo then
            if down s (lprov s L) then
              (* token received, IsOpened(done) false: ErrClosed, the token is not put back *)
              Some (set_pc (set_lk s L (set_token lo false)) t (Done (fail_result k EClosed)))
            else if cntr lo then
              (* "internal error, invalid locker state": panic with the token taken *)
              Some (set_pc (set_lk s L (set_token lo false)) t (Done RPanic))
            else
              Some (set_pc (set_lk s L (set_cntr (set_token lo false) true)) t (HasToken L k))
          else None
      | _ => None
      end
  | TryFail t =>
      match pc_of s t with
      | LocalWait L KTry =>
          if token (lk s L) || down s (lprov s L) then None
          else Some (set_pc s t (Done RFalse))
      | _ => None
      end
  | Bail t b =>
      match pc_of s t with
      | LocalWait L k =>
          match b with
          | BCtx => if kind_eqb k KCtx && ctx_of s t then Some (set_pc s t (Done (RErr ECtx))) else None
          | BClosed => if down s (lprov s L) then Some (set_pc s t (Done (fail_result k EClosed))) else None
          end
      | _ => None
      end
  | CheckCtx t =>
      match pc_of s t with
      | HasToken L k =>
          if kind_eqb k KCtx && ctx_of s t then Some (set_pc s t (Failing L (RErr ECtx)))
          else Some (set_pc s t (CreateIssued L k))
      | _ => None
      end
  | StCreate t f =>
      match pc_of s t with
      | CreateIssued L k =>
          match f with
          | FCtx => if ctx_of s t then Some (set_pc s t (Failing L (fail_result k ECtx))) else None
          | FReqLost => Some (set_pc s t (Failing L (fail_result k EStorage)))
          | FOk =>
              match rec s with
              | None =>
                  let v := nextver s in
                  let tn := nexttn s in
                  let s1 := set_nexttn (set_nextver (set_rec s (Some (v, tn))) (N.succ v)) (N.succ tn) in
                  let s2 := set_lk s1 L (set_held (lk s1 L) (Some tn)) in
                  Some (set_pc (arm_first s2 L tn v) t (Done (ok_result k)))
              | Some (v, _) =>
                  match k with
                  | KTry => Some (set_pc s t (Failing L RFalse))
                  | _ => Some (set_pc s t (WaitVer L k v))
                  end
              end
          | FReplyLost =>
              match rec s with
              | None =>
                  let v := nextver s in
                  let tn := nexttn s in
                  let s1 := set_nexttn (set_nextver (set_rec s (Some (v, tn))) (N.succ v)) (N.succ tn) in
                  Some (set_pc s1 t (Failing L (fail_result k EStorage)))
              | Some _ => Some (set_pc s t (Failing L (fail_result k EStorage)))
              end
          end
      | _ => None
      end
  | StWaitRet t w =>
      match pc_of s t with
      | WaitVer L k v =>
          let en := match w with
                    | WChanged => match rec s with None => true | Some (v', _) => negb (N.eqb v' v) end
                    | WCtx => ctx_of s t
                    end in
          if en then Some (set_pc s t (HasToken L k)) else None
      | _ => None
      end
  | CtxDone t =>
      match pc_of s t with
      | LocalWait _ k | HasToken _ k | CreateIssued _ k | WaitVer _ k _ =>
          if kind_eqb k KLock then None else Some (set_th s t (mkTcb (pc_of s t) true))
      | _ => None
      end
  | StDelete t f =>
      match pc_of s t with
      | Unl1 L _ =>
          match f with
          | FOk | FReplyLost => Some (set_pc (set_rec s None) t (Unl2 L))
          | FReqLost => Some (set_pc s t (Unl2 L))
          | FCtx => None
          end
      | _ => None
      end
  | PutToken t =>
      match pc_of s t with
      | Unl2 L =>
          let lo := lk s L in
          if token lo then None  (* a full channel would block the sender *)
          else Some (set_pc (set_lk s L (set_token lo true)) t (Done RUnit))
      | Failing L r =>
          let lo := lk s L in
          if token lo then None
          else Some (set_pc (set_lk s L (set_token (set_cntr lo false) true)) t (Done r))
      | _ => None
      end
  | Return t r =>
      match pc_of s t with
      | Done r' => if res_eqb r r' then Some (set_pc s t Idle) else None
      | _ => None
      end
  | Shutdown p =>
      if down s p then None else Some (set_down s p)
  | TimerFire id =>
      let tm := timers s id in
      match tm_st tm with
      | TArmed => Some (set_timer s id (set_st tm (TFired (future (lk s (tm_L tm))))))
      | _ => None
      end
  | StCas id f =>
      let tm := timers s id in
      match tm_st tm with
      | TFired ld =>
          let hit := cas_hit s tm in
          match f with
          | FCtx => None
          | FReqLost => Some (set_timer s id (set_st tm (TCasDone ld CRetry)))
          | FOk =>
              match hit with
              | Some o =>
                  let v' := nextver s in
                  Some (set_timer (set_nextver (set_rec s (Some (v', o))) (N.succ v')) id
                          (set_st tm (TCasDone ld (CRenewed v'))))
              | None => Some (set_timer s id (set_st tm (TCasDone ld CDead)))
              end
          | FReplyLost =>
              match hit with
              | Some o =>
                  let v' := nextver s in
                  Some (set_timer (set_nextver (set_rec s (Some (v', o))) (N.succ v')) id
                          (set_st tm (TCasDone ld CRetry)))
              | None => Some (set_timer s id (set_st tm (TCasDone ld CRetry)))
              end
          end
      | _ => None
      end
  | Rearm id =>
      let tm := timers s id in
      match tm_st tm with
      | TCasDone ld o =>
          let s0 := set_timer s id (set_st tm TFinished) in
          match o with
          | CDead => Some s0
          | _ =>
              let v := match o with CRenewed v' => v' | _ => tm_ver tm end in
              let L := tm_L tm in
              let n := ntimers s0 in
              if onat_eqb (future (lk s0 L)) ld then
                let s1 := set_ntimers (set_timer s0 n (mkTimer L (tm_tn tm) v TArmed)) (S n) in
                Some (set_lk s1 L (set_future (lk s1 L) (Some n)))
              else
                Some (set_ntimers (set_timer s0 n (mkTimer L (tm_tn tm) v TCancelled)) (S n))
          end
      | _ => None
      end
  | Expire =>
      match rec s with
      | Some _ => Some (set_rec s None)
      | None => None
      end
  end.

Fixpoint run (s : state) (tr : list label) : option state :=
  match tr with
  | [] => Some s
  | l :: tr' => match step s l with Some s' => run s' tr' | None => None end
  end.

(** ** Trace premises *)

(** tenure [tn] is claimed: a Locker is held with it, or an Unlock of it is still before its Delete *)
Definition claimed (s : state) (tn : tenure) : Prop :=
  (exists L, held (lk s L) = Some tn) \/ (exists t L, pc_of s t = Unl1 L (Some tn)).

(** the premise of C01: the lease of a live holder does not run out *)
Definition lease_ok (s : state) (l : label) : Prop :=
  match l with
  | Expire => forall v tn, rec s = Some (v, tn) -> ~ claimed s tn
  | _ => True
  end.

(** well-formed programs: Unlock is only called on a Locker that is held *)
Definition wf_ok (s : state) (l : label) : Prop :=
  match l with
  | Invoke _ (OUnlock L) => held (lk s L) <> None
  | _ => True
  end.

Definition faulty (f : flt) : bool :=
  match f with FReqLost | FReplyLost => true | _ => false end.

(** no storage call is faulted *)
Definition fault_free (s : state) (l : label) : Prop :=
  match l with
  | StCreate _ f | StDelete _ f | StCas _ f => faulty f = false
  | _ => True
  end.

Fixpoint respects (g : state -> label -> Prop) (s : state) (tr : list label) : Prop :=
  match tr with
  | [] => True
  | l :: tr' => g s l /\ match step s l with Some s' => respects g s' tr' | None => True end
  end.

Definition leases_respected (lp : lockerId -> provId) (tr : list label) : Prop := respects lease_ok (init lp) tr.
Definition wf_programs (lp : lockerId -> provId) (tr : list label) : Prop := respects wf_ok (init lp) tr.
Definition no_faults (lp : lockerId -> provId) (tr : list label) : Prop := respects fault_free (init lp) tr.

(** ** Observations *)

Definition is_held (k : locker) : bool := match held k with Some _ => true | None => false end.

(** number of held Lockers among the (duplicate-free) list [Ls] *)
Definition holders_in (s : state) (Ls : list lockerId) : nat :=
  length (filter (fun L => is_held (lk s L)) Ls).

(** thread t is inside a call and cannot take a step on its own *)
Definition blockedb (s : state) (t : thread) : bool :=
  match pc_of s t with
  | LocalWait L k =>
      match k with
      | KTry => false
      | _ => negb (token (lk s L) || down s (lprov s L) || (kind_eqb k KCtx && ctx_of s t))
      end
  | WaitVer L k v =>
      negb (match rec s with None => true | Some (v', _) => negb (N.eqb v' v) end || ctx_of s t)
  | _ => false
  end.

(** labels the implementation takes by itself (no environment choice, no fault) *)
Definition internal (l : label) : bool :=
  match l with
  | TakeToken _ | TryFail _ | Bail _ _ | CheckCtx _ | StWaitRet _ _ | PutToken _ | Return _ _ => true
  | StCreate _ f | StDelete _ f => negb (faulty f)
  | _ => false
  end.
