(** The Redis client (kvs/redis/redis.go, model/RedisKV.v) under concurrency,
    interleaved at COMMAND granularity.

    Any number of goroutines (threads, numbered) call methods of one client.
    A call is: the invocation, the start of the method body (which picks the
    method's program [prog_of o]: a resumption over server commands and NewID),
    then one step per NewID / server command, then the response.  Between two
    steps of one thread any steps of other threads may happen.  The server
    (model/RedisSrv.v) executes each command atomically; thread [t] talks over
    connection [t] (go-redis takes a dedicated connection for the duration of a
    Watch callback; for every other command the connection is irrelevant).
    ulidutils.NewID() is one shared counter.

    The labels are the scheduler's choices; everything else is determined:
    [zstep] is a function (label not enabled = [None]).

    Ghost state, as in lib/Lin.v: an event counter [z_clock], the stamp of its
    invocation in every running thread, and the history [z_done] of completed
    calls (invocation stamp, response stamp, operation, result).

    The clocks: [now] (the client's time.Now()) and [clk] (the server's) are
    parameters of a run, i.e. constant during a run: C02 is about interleavings;
    what expiry does as time passes is the subject of C03/C06.

    The same LTS runs the legacy programs (model/legacy/RedisKVLegacy.v).
    No proofs in this file. *)
From Coq Require Import List ZArith NArith Arith Bool.
From GL Require Import lib.Lin spec.KV model.RedisSrv model.RedisKV.
Import ListNotations.

Inductive rth :=
| TIdle
| TStart (inv : nat) (o : op)               (* invoked, the method body has not started *)
| TRun (inv : nat) (o : op) (p : prog).     (* inside the method: what is left of its program *)

Record rsys := mkZ {
  z_srv : srv;
  z_nxt : nat;                      (* the NewID counter *)
  z_thr : nat -> rth;
  z_clock : nat;
  z_done : list (opr op out)
}.

Inductive rlabel :=
| LInv (t : nat) (o : op)
| LBegin (t : nat)
| LStep (t : nat)                   (* the next NewID / server command of thread t *)
| LRet (t : nat).

Definition zupd (f : nat -> rth) (t : nat) (x : rth) : nat -> rth :=
  fun u => if Nat.eqb u t then x else f u.

Definition z_init : rsys := mkZ srv_init 1 (fun _ => TIdle) 0 [].

Section Run.
Variable prog_of : op -> prog.
Variables now clk : Z.

Definition zstep (z : rsys) (l : rlabel) : option rsys :=
  let c := S (z_clock z) in
  match l with
  | LInv t o =>
      match z_thr z t with
      | TIdle => Some (mkZ (z_srv z) (z_nxt z) (zupd (z_thr z) t (TStart c o)) c (z_done z))
      | _ => None
      end
  | LBegin t =>
      match z_thr z t with
      | TStart inv o => Some (mkZ (z_srv z) (z_nxt z) (zupd (z_thr z) t (TRun inv o (prog_of o))) c (z_done z))
      | _ => None
      end
  | LStep t =>
      match z_thr z t with
      | TRun inv o (NewID k) =>
          Some (mkZ (z_srv z) (S (z_nxt z)) (zupd (z_thr z) t (TRun inv o (k (z_nxt z)))) c (z_done z))
      | TRun inv o (Cmd x k) =>
          let '(sv, r) := srv_cmd clk t (x now) (z_srv z) in
          Some (mkZ sv (z_nxt z) (zupd (z_thr z) t (TRun inv o (k r))) c (z_done z))
      | _ => None
      end
  | LRet t =>
      match z_thr z t with
      | TRun inv o (Ret r) =>
          Some (mkZ (z_srv z) (z_nxt z) (zupd (z_thr z) t TIdle) c (z_done z ++ [mkOpr inv c o r]))
      | _ => None
      end
  end.

Fixpoint zrun (z : rsys) (tr : list rlabel) : option rsys :=
  match tr with
  | [] => Some z
  | l :: t => match zstep z l with Some z' => zrun z' t | None => None end
  end.

End Run.

(* every call has returned *)
Definition zquiescent (z : rsys) : Prop := forall t, z_thr z t = TIdle.

(* a checkable form: the threads a trace mentions are idle (the others never left [TIdle]) *)
Definition label_thread (l : rlabel) : nat :=
  match l with LInv t _ | LBegin t | LStep t | LRet t => t end.

Definition idleb (x : rth) : bool := match x with TIdle => true | _ => false end.

Definition zquiet (tr : list rlabel) (z : rsys) : bool :=
  forallb (fun l => idleb (z_thr z (label_thread l))) tr.

(* the operations invoked along a trace *)
Definition invoked (tr : list rlabel) : list op :=
  flat_map (fun l => match l with LInv _ o => [o] | _ => [] end) tr.

(** convenience for examples: thread [t] runs operation [o] alone, from invocation to response
    ([n] = number of NewID/command steps) *)
Definition solo (t : nat) (o : op) (n : nat) : list rlabel :=
  LInv t o :: LBegin t :: repeat (LStep t) n ++ [LRet t].
