(** Labelled transition system for the concurrent behaviour of
    container/lru/ecache.go, any number of threads.

    Modelled runtime facts (not verified): a [sync.Mutex]-protected region of the
    Go code is one atomic step; [close(ch)] makes every present and future
    receive on [ch] return; [make(chan)] yields a channel different from all
    earlier ones.  Everything the code does *inside* a region is the
    corresponding function of the sequential model (model/ECache.v).

    Program counters of a thread (one API call at a time per thread):
      [PIdle]              no call in progress
      [PPend o]            call [o] invoked; for GetOrCreate: at the top of the for loop
      [PWait pk ch]        GetOrCreate: first section found another creator; blocked in [<-ch]
      [PCreating pk ch]    GetOrCreate: registered [ch] in the in-flight table; inside createNewF(pk)
      [PInB pk ch res]     createNewF returned [res]; before the second section
      [PDone r]            the call's last section is over; [r] is about to be returned

    Labels (the schedule and the environment's inputs):
      [LInvoke t o]        thread [t] calls [o]
      [LSecA t]            first section of GetOrCreate (hit / register + create / wait)
      [LCreateRet t res]   the create function returns [res] to [t]
      [LSecB t]            second section: close(ch); delete(inflight,k); on success insert, maybe evict
      [LWake t]            [<-ch] returns (only when [ch] is closed); back to the top of the loop
      [LSecRemove t], [LSecClear t]   the single section of Remove / Clear
      [LReturn t]          the call returns
    Observable events produced by a step: entering the create callback, each
    delete callback, each returned result.

    Ghost fields: [cs_created] / [cs_deleted] record the successful answers of
    the create function and the delete callbacks, [cs_threads] the threads that
    have made a call so far; no transition depends on them (Invoke only avoids
    listing a thread twice).

    No proofs in this file. *)
From Coq Require Import List ZArith NArith Arith Bool.
From GL Require Import spec.LRU model.ECache.
Import ListNotations.

Section Conc.
Context {PK K V : Type}.
Context (keqb : K -> K -> bool).
Context (kmap : PK -> K).

Definition tid := nat.
Definition chan := nat.

Inductive cop : Type :=
| CGet (pk : PK)
| CRemove (pk : PK)
| CClear.

Inductive pc : Type :=
| PIdle
| PPend (o : cop)
| PWait (pk : PK) (ch : chan)
| PCreating (pk : PK) (ch : chan)
| PInB (pk : PK) (ch : chan) (res : option V)
| PDone (r : lru_res V).

Inductive label : Type :=
| LInvoke (t : tid) (o : cop)
| LSecA (t : tid)
| LCreateRet (t : tid) (res : option V)
| LSecB (t : tid)
| LWake (t : tid)
| LSecRemove (t : tid)
| LSecClear (t : tid)
| LReturn (t : tid).

Inductive cev : Type :=
| CEnter (t : tid) (pk : PK)          (* createNewF(pk) entered by t *)
| CDel (pk : PK) (v : V)              (* onDeleteF(pk, v) *)
| CRet (t : tid) (r : lru_res V).     (* t's call returned r *)

Record cstate : Type := mkCS {
  cs_items : items_t (PK:=PK) (K:=K) (V:=V);
  cs_cap : nat;
  cs_inflight : list (K * chan);
  cs_closed : list chan;
  cs_nextch : chan;
  cs_pc : tid -> pc;
  cs_created : list (PK * V);
  cs_deleted : list (PK * V);
  cs_threads : list tid
}.

Definition cs_init (cap : nat) : cstate :=
  mkCS om_empty cap [] [] 0 (fun _ => PIdle) [] [] [].

Definition upd (f : tid -> pc) (t : tid) (x : pc) : tid -> pc :=
  fun t' => if Nat.eqb t' t then x else f t'.

Fixpoint inflight_get (k : K) (l : list (K * chan)) : option chan :=
  match l with
  | [] => None
  | (k', ch) :: t => if keqb k k' then Some ch else inflight_get k t
  end.

Definition inflight_del (k : K) (l : list (K * chan)) : list (K * chan) :=
  filter (fun e => negb (keqb k (fst e))) l.

Definition chan_closed (s : cstate) (ch : chan) : bool :=
  existsb (Nat.eqb ch) (cs_closed s).

Definition set_pc (s : cstate) (t : tid) (x : pc) : cstate :=
  mkCS (cs_items s) (cs_cap s) (cs_inflight s) (cs_closed s) (cs_nextch s)
       (upd (cs_pc s) t x) (cs_created s) (cs_deleted s) (cs_threads s).

Definition step (s : cstate) (l : label) : option (cstate * list cev) :=
  match l with
  | LInvoke t o =>
      match cs_pc s t with
      | PIdle =>
          Some (mkCS (cs_items s) (cs_cap s) (cs_inflight s) (cs_closed s) (cs_nextch s)
                     (upd (cs_pc s) t (PPend o)) (cs_created s) (cs_deleted s)
                     (if existsb (Nat.eqb t) (cs_threads s) then cs_threads s else t :: cs_threads s),
                [])
      | _ => None
      end
  | LSecA t =>
      match cs_pc s t with
      | PPend (CGet pk) =>
          match sec_lookup keqb kmap (cs_items s) pk with
          | Some (v, it') =>
              Some (mkCS it' (cs_cap s) (cs_inflight s) (cs_closed s) (cs_nextch s)
                         (upd (cs_pc s) t (PDone (RVal v))) (cs_created s) (cs_deleted s) (cs_threads s), [])
          | None =>
              match inflight_get (kmap pk) (cs_inflight s) with
              | Some ch => Some (set_pc s t (PWait pk ch), [])
              | None =>
                  let ch := cs_nextch s in
                  Some (mkCS (cs_items s) (cs_cap s) ((kmap pk, ch) :: cs_inflight s) (cs_closed s)
                             (S ch) (upd (cs_pc s) t (PCreating pk ch))
                             (cs_created s) (cs_deleted s) (cs_threads s),
                        [CEnter t pk])
              end
          end
      | _ => None
      end
  | LCreateRet t res =>
      match cs_pc s t with
      | PCreating pk ch =>
          Some (mkCS (cs_items s) (cs_cap s) (cs_inflight s) (cs_closed s) (cs_nextch s)
                     (upd (cs_pc s) t (PInB pk ch res))
                     (match res with Some v => cs_created s ++ [(pk, v)] | None => cs_created s end)
                     (cs_deleted s) (cs_threads s), [])
      | _ => None
      end
  | LSecB t =>
      match cs_pc s t with
      | PInB pk ch res =>
          let infl := inflight_del (kmap pk) (cs_inflight s) in
          let closed := ch :: cs_closed s in
          match res with
          | None =>
              Some (mkCS (cs_items s) (cs_cap s) infl closed (cs_nextch s)
                         (upd (cs_pc s) t (PDone RErr)) (cs_created s) (cs_deleted s) (cs_threads s), [])
          | Some v =>
              let '(it', d) := sec_insert keqb kmap (cs_cap s) (cs_items s) pk v in
              Some (mkCS it' (cs_cap s) infl closed (cs_nextch s)
                         (upd (cs_pc s) t (PDone (RVal v))) (cs_created s) (cs_deleted s ++ d) (cs_threads s),
                    map (fun x => CDel (fst x) (snd x)) d)
          end
      | _ => None
      end
  | LWake t =>
      match cs_pc s t with
      | PWait pk ch =>
          if chan_closed s ch then Some (set_pc s t (PPend (CGet pk)), []) else None
      | _ => None
      end
  | LSecRemove t =>
      match cs_pc s t with
      | PPend (CRemove pk) =>
          let '(it', b, d) := sec_remove keqb kmap (cs_items s) pk in
          Some (mkCS it' (cs_cap s) (cs_inflight s) (cs_closed s) (cs_nextch s)
                     (upd (cs_pc s) t (PDone (RBool b))) (cs_created s) (cs_deleted s ++ d) (cs_threads s),
                map (fun x => CDel (fst x) (snd x)) d)
      | _ => None
      end
  | LSecClear t =>
      match cs_pc s t with
      | PPend CClear =>
          let '(it', n, d, oof) := sec_clear keqb (cs_items s) in
          if oof then None
          else
            Some (mkCS it' (cs_cap s) (cs_inflight s) (cs_closed s) (cs_nextch s)
                       (upd (cs_pc s) t (PDone (RCount n))) (cs_created s) (cs_deleted s ++ d) (cs_threads s),
                  map (fun x => CDel (fst x) (snd x)) d)
      | _ => None
      end
  | LReturn t =>
      match cs_pc s t with
      | PDone r => Some (set_pc s t PIdle, [CRet t r])
      | _ => None
      end
  end.

(* runs a label sequence; the events of all steps, in order *)
Fixpoint run_trace (s : cstate) (tr : list label) : option (cstate * list cev) :=
  match tr with
  | [] => Some (s, [])
  | l :: t =>
      match step s l with
      | None => None
      | Some (s', ev) =>
          match run_trace s' t with
          | None => None
          | Some (sf, evs) => Some (sf, ev ++ evs)
          end
      end
  end.

(* a thread that can take a step without an input from the environment
   (Invoke and CreateRet are the environment's) *)
Definition can_move (s : cstate) (t : tid) : bool :=
  match cs_pc s t with
  | PIdle => false
  | PPend _ => true
  | PWait _ ch => chan_closed s ch
  | PCreating _ _ => false
  | PInB _ _ _ => true
  | PDone _ => true
  end.

(** linearisation: the label at which a call takes effect, as the operation of
    the sequential cache it performs ([None]: not a linearisation label).
    A first section that misses only reads the cache. *)
Definition lin_op (s : cstate) (l : label) : option (tid * lru_op PK V) :=
  match l with
  | LSecA t =>
      match cs_pc s t with
      | PPend (CGet pk) =>
          match sec_lookup keqb kmap (cs_items s) pk with
          | Some _ => Some (t, OGet pk None)
          | None => None
          end
      | _ => None
      end
  | LSecB t =>
      match cs_pc s t with
      | PInB pk _ res => Some (t, OGet pk res)
      | _ => None
      end
  | LSecRemove t =>
      match cs_pc s t with
      | PPend (CRemove pk) => Some (t, ORemove pk)
      | _ => None
      end
  | LSecClear t =>
      match cs_pc s t with
      | PPend CClear => Some (t, OClear)
      | _ => None
      end
  | _ => None
  end.

Definition label_tid (l : label) : tid :=
  match l with
  | LInvoke t _ | LSecA t | LCreateRet t _ | LSecB t | LWake t
  | LSecRemove t | LSecClear t | LReturn t => t
  end.

(** the history of a run: every label of an accepted trace, attributed to its
    thread and classified as the invocation of a call, its linearisation point
    (with the sequential operation it performs and the result it leaves for the
    thread to return), the return of a call (with the returned result), or an
    internal step *)
Inductive tag : Type :=
| TInv (o : cop)
| TLin (o : lru_op PK V) (r : option (lru_res V))
| TRet (r : lru_res V)
| TInt.

Definition tag_of (s : cstate) (l : label) (s' : cstate) : tag :=
  match l with
  | LInvoke _ o => TInv o
  | LReturn t => match cs_pc s t with PDone r => TRet r | _ => TInt end
  | _ =>
      match lin_op s l with
      | Some (t, o) => TLin o (match cs_pc s' t with PDone r => Some r | _ => None end)
      | None => TInt
      end
  end.

Fixpoint tags (s : cstate) (tr : list label) : list (tid * tag) :=
  match tr with
  | [] => []
  | l :: t =>
      match step s l with
      | None => []
      | Some (s', _) => (label_tid l, tag_of s l s') :: tags s' t
      end
  end.

(* the linearisation points of a history, in order: thread, operation, result *)
Fixpoint lin_seq (tg : list (tid * tag)) : list (tid * lru_op PK V * lru_res V) :=
  match tg with
  | [] => []
  | (t, TLin o (Some r)) :: rest => (t, o, r) :: lin_seq rest
  | _ :: rest => lin_seq rest
  end.

(* one thread's part of a history *)
Definition thread_tags (t : tid) (tg : list (tid * tag)) : list tag :=
  map snd (filter (fun x => Nat.eqb (fst x) t) tg).

(* the shape of one thread's history: calls follow each other; each is an
   invocation, internal steps, exactly one linearisation point, and the return
   of the result left at that point (the last call may be incomplete) *)
Inductive phase : Type := PhOut | PhIn | PhLin (r : lru_res V).

Fixpoint shape (ph : phase) (l : list tag) : Prop :=
  match l with
  | [] => True
  | tg :: rest =>
      match ph, tg with
      | PhOut, TInv _ => shape PhIn rest
      | PhIn, TInt => shape PhIn rest
      | PhIn, TLin _ (Some x) => shape (PhLin x) rest
      | PhLin x, TRet y => x = y /\ shape PhOut rest
      | _, _ => False
      end
  end.

Definition phase_of (p : pc) : phase :=
  match p with
  | PIdle => PhOut
  | PDone r => PhLin r
  | _ => PhIn
  end.

(* the delete callbacks among the events of a run *)
Fixpoint cdels (e : list cev) : list (PK * V) :=
  match e with
  | [] => []
  | CDel pk v :: t => (pk, v) :: cdels t
  | _ :: t => cdels t
  end.

(* values created successfully whose insertion is still to come *)
Definition pending_of (p : pc) : list (PK * V) :=
  match p with
  | PInB pk _ (Some v) => [(pk, v)]
  | _ => []
  end.

(* the key whose creation a thread owns, and its channel *)
Definition owner_of (p : pc) : option (PK * chan) :=
  match p with
  | PCreating pk ch => Some (pk, ch)
  | PInB pk ch _ => Some (pk, ch)
  | _ => None
  end.

End Conc.

Arguments cop : clear implicits.
Arguments pc : clear implicits.
Arguments label : clear implicits.
Arguments cev : clear implicits.
Arguments cstate : clear implicits.
Arguments tag : clear implicits.
Arguments phase : clear implicits.
