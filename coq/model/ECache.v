(** Executable sequential model of container/lru/ecache.go (ECache), cache.go
    (Cache = ECache with the identity key mapping) and expirable.go
    (ExpirableCache.GetOrCreate), written over the *contract* of the ordered map
    container/iterable/map.go (verified separately as C10/C11):

      an insertion-ordered finite map: [Add] appends (and fails, leaving the map
      unchanged, when the key is present), [Get], [Remove], [Len], [First]
      (oldest live entry) and an iterator that walks the live entries in
      insertion order and tolerates removals of what it has returned.

    The map abstraction below keeps the live entries in insertion order, each
    with the stamp it got when it was added; an iterator is a stamp position and
    [Next] returns the first live entry whose stamp is >= the position.

    The cache code is transcribed section by section (a "section" is one
    mutex-protected region of the Go code; the concurrent model
    model/ECacheConc.v re-uses exactly these functions):

      [sec_lookup]  GetOrCreate, first section, hit path: Get, Remove, Add
      [sec_insert]  GetOrCreate, second section, err == nil: Add, Len, First, Get, Remove, onDelete
      [sec_remove]  Remove
      [sec_clear]   Clear: Iterator / HasNext / Next / Remove / onDelete loop (on fuel)

    In a sequential run the in-flight table of the Go code is empty at every
    call boundary (it is registered and unregistered inside one GetOrCreate), so
    the sequential composition [ec_get] is lookup; create; insert.

    No proofs in this file. *)
From Coq Require Import List ZArith NArith Arith Bool.
From GL Require Import spec.LRU.
Import ListNotations.

Section OMap.
Context {K X : Type}.
Context (keqb : K -> K -> bool).

Record ent := mkEnt { e_stamp : N; e_key : K; e_val : X }.
Record omap := mkOMap { om_ents : list ent; om_next : N }.

Definition om_empty : omap := mkOMap [] 0%N.

Fixpoint ents_get (k : K) (l : list ent) : option X :=
  match l with
  | [] => None
  | e :: t => if keqb k (e_key e) then Some (e_val e) else ents_get k t
  end.

(* Map.Get *)
Definition om_get (m : omap) (k : K) : option X := ents_get k (om_ents m).

(* Map.Add: error (ignored by the cache code) and no change when the key exists *)
Definition om_add (m : omap) (k : K) (x : X) : omap :=
  match om_get m k with
  | Some _ => m
  | None => mkOMap (om_ents m ++ [mkEnt (om_next m) k x]) (N.succ (om_next m))
  end.

(* Map.Remove *)
Definition om_remove (m : omap) (k : K) : omap :=
  mkOMap (filter (fun e => negb (keqb k (e_key e))) (om_ents m)) (om_next m).

(* Map.Len *)
Definition om_len (m : omap) : nat := length (om_ents m).

(* iterator = position; Iterator() starts before everything *)
Definition it_start : N := 0%N.

(* the entry Next would return at position [pos] *)
Definition it_peek (m : omap) (pos : N) : option ent :=
  find (fun e => (pos <=? e_stamp e)%N) (om_ents m).

(* HasNext *)
Definition it_has_next (m : omap) (pos : N) : bool :=
  match it_peek m pos with Some _ => true | None => false end.

(* Next: the entry and the new position *)
Definition it_next (m : omap) (pos : N) : option (ent * N) :=
  match it_peek m pos with
  | Some e => Some (e, N.succ (e_stamp e))
  | None => None
  end.

(* Map.First: Iterator(); Next(); Close() *)
Definition om_first (m : omap) : option K :=
  match it_next m it_start with
  | Some (e, _) => Some (e_key e)
  | None => None
  end.

End OMap.

Arguments ent : clear implicits.
Arguments omap : clear implicits.
Arguments om_empty {K X}.

Section ECache.
Context {PK K V : Type}.
Context (keqb : K -> K -> bool).
Context (kmap : PK -> K).
Context (expires : V -> Z).

Definition items_t : Type := omap K (PK * V).

(* GetOrCreate, first critical section, hit path:
     if res, ok := p.items.Get(k); ok { p.items.Remove(k); p.items.Add(k, res); return res.v, nil }
   [None] = not resident (the section then consults the in-flight table) *)
Definition sec_lookup (it : items_t) (pk : PK) : option (V * items_t) :=
  let k := kmap pk in
  match om_get keqb it k with
  | Some res => Some (snd res, om_add keqb (om_remove keqb it k) k res)
  | None => None
  end.

(* GetOrCreate, second critical section when err == nil:
     p.items.Add(k, pair{pk, v})
     if p.maxSize < p.items.Len() { k, _ := First(); v, _ := Get(k); Remove(k); onDeleteF(v.pk, v.v) }
   returns the new map and the delete callbacks made.  First/Get cannot fail when
   Len() > maxSize >= 0; the model makes no callback in that (unreachable) case *)
Definition sec_insert (cap : nat) (it : items_t) (pk : PK) (v : V) : items_t * list (PK * V) :=
  let it1 := om_add keqb it (kmap pk) (pk, v) in
  if (cap <? om_len it1)%nat then
    match om_first it1 with
    | Some k1 =>
        match om_get keqb it1 k1 with
        | Some d => (om_remove keqb it1 k1, [d])
        | None => (om_remove keqb it1 k1, [])
        end
    | None => (it1, [])
    end
  else (it1, []).

(* Remove *)
Definition sec_remove (it : items_t) (pk : PK) : items_t * bool * list (PK * V) :=
  let k := kmap pk in
  match om_get keqb it k with
  | None => (it, false, [])
  | Some d => (om_remove keqb it k, true, [d])
  end.

(* Clear: it := Iterator(); for it.HasNext() { e, ok := it.Next(); if !ok {continue};
            Remove(e.Key); onDeleteF(e.Value.pk, e.Value.v); removed++ }
   result: map, removed, callbacks, out-of-fuel flag *)
Fixpoint clear_loop (fuel : nat) (it : items_t) (pos : N) (removed : nat) (dels : list (PK * V))
  : items_t * nat * list (PK * V) * bool :=
  if it_has_next it pos then
    match fuel with
    | O => (it, removed, dels, true)
    | S f =>
        match it_next it pos with
        | None => clear_loop f it pos removed dels            (* !ok: continue *)
        | Some (e, pos') =>
            clear_loop f (om_remove keqb it (e_key e)) pos' (S removed) (dels ++ [e_val e])
        end
    end
  else (it, removed, dels, false).

Definition sec_clear (it : items_t) : items_t * nat * list (PK * V) * bool :=
  clear_loop (S (om_len it)) it it_start 0 [].

(** sequential cache *)
Record ecache := mkEC { ec_items : items_t; ec_cap : nat }.

Definition ec_new (cap : nat) : ecache := mkEC om_empty cap.

Definition dels_ev (d : list (PK * V)) : list (lru_ev PK V) :=
  map (fun x => EvDelete (fst x) (snd x)) d.

(* GetOrCreate, run without interference *)
Definition ec_get (c : ecache) (pk : PK) (res : option V) : ecache * lru_out PK V :=
  match sec_lookup (ec_items c) pk with
  | Some (v, it') => (mkEC it' (ec_cap c), (RVal v, []))
  | None =>
      (* ch registered in the in-flight table; v, err := createNewF(pk) *)
      match res with
      | None => (c, (RErr, [EvCreate pk None]))
      | Some v =>
          let '(it', d) := sec_insert (ec_cap c) (ec_items c) pk v in
          (mkEC it' (ec_cap c), (RVal v, EvCreate pk (Some v) :: dels_ev d))
      end
  end.

Definition ec_remove (c : ecache) (pk : PK) : ecache * lru_out PK V :=
  let '(it', b, d) := sec_remove (ec_items c) pk in
  (mkEC it' (ec_cap c), (RBool b, dels_ev d)).

(* the Boolean is the out-of-fuel flag of the Clear loop (theorems: never raised) *)
Definition ec_clear (c : ecache) : ecache * lru_out PK V * bool :=
  let '(it', n, d, oof) := sec_clear (ec_items c) in
  (mkEC it' (ec_cap c), (RCount n, dels_ev d), oof).

(* ExpirableCache.GetOrCreate:
     now := time.Now(); v, err := p.Cache.GetOrCreate(k); if err != nil { return v, err }
     if v.GetExpiresAt().Before(now) { p.Remove(k); return p.Cache.GetOrCreate(k) }
     return v, nil *)
Definition ec_eget (c : ecache) (pk : PK) (now : Z) (res1 res2 : option V)
  : ecache * lru_out PK V :=
  let '(c1, (r1, e1)) := ec_get c pk res1 in
  match r1 with
  | RVal v =>
      if (expires v <? now)%Z then
        let '(c2, (_, e2)) := ec_remove c1 pk in
        let res' := match e1 with [] => res1 | _ => res2 end in   (* next unused scripted answer *)
        let '(c3, (r3, e3)) := ec_get c2 pk res' in
        (c3, (r3, e1 ++ e2 ++ e3))
      else (c1, (r1, e1))
  | _ => (c1, (r1, e1))
  end.

Definition ec_step (c : ecache) (o : lru_op PK V) : ecache * lru_out PK V * bool :=
  match o with
  | OGet pk res => (ec_get c pk res, false)
  | ORemove pk => (ec_remove c pk, false)
  | OClear => ec_clear c
  | OEGet pk now r1 r2 => (ec_eget c pk now r1 r2, false)
  end.

(* outputs, final state, "some loop ran out of fuel" *)
Fixpoint ec_run (c : ecache) (ops : list (lru_op PK V)) : list (lru_out PK V) * ecache * bool :=
  match ops with
  | [] => ([], c, false)
  | o :: t => let '(c', x, oof) := ec_step c o in
              let '(xs, cf, oof') := ec_run c' t in (x :: xs, cf, oof || oof')
  end.

(* the resident entries, least recently used first *)
Definition ec_resident (c : ecache) : list (K * (PK * V)) :=
  map (fun e => (e_key e, e_val e)) (om_ents (ec_items c)).

End ECache.
