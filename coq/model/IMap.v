(** L1: executable pointer model of container/iterable/map.go (post-fix tree).

    A heap of list nodes addressed by ids (index into [heap]); every Go
    statement that writes a field is one [upd]; every dereference is a [get]
    that yields [Panic] on nil / dangling ids.  The [for] loop of [next] runs
    on fuel (number of allocated nodes + 1); [NoFuel] is excluded by the
    theorems.  [sync.Pool] is nondeterministic: [Add] takes a [choice]
    ([Some n]: re-use the n-th pooled node, [None] or out of range: allocate
    a zero node, which is what [pool.New] does); the state machine reads the
    choice for the j-th allocation from an oracle [ch : nat -> option nat] and
    every theorem quantifies over all oracles.

    Go source <-> definitions
      rlItem.delete   n_delete      rlItem.putVal   n_putval
      Map.next        i_next        Map.getValue    i_getvalue
      Map.release     i_release     Map.Iterator    i_iterator
      Map.Add/Get/Remove/Len/First  i_add/i_get/i_remove/i_len/i_first
      mapIterator.HasNext/Next/Close   i_hasnext/i_itnext/i_close

    No proofs in this file. *)
From Coq Require Import List ZArith Arith Bool.
From GL Require Import lib.IMapBase.
Import ListNotations.
Open Scope Z_scope.

Notation id := nat (only parsing).   (* node ids: indices into the heap *)

Record node := mkNode {
  n_st : nstate; n_prev : option id; n_next : option id;
  n_ref : Z; n_key : Z; n_val : Z }.

(* &rlItem[K,V]{} *)
Definition zero_node : node := mkNode StLast None None 0 0 0.

Definition set_st (x : nstate) (n : node) := mkNode x (n_prev n) (n_next n) (n_ref n) (n_key n) (n_val n).
Definition set_prev (x : option id) (n : node) := mkNode (n_st n) x (n_next n) (n_ref n) (n_key n) (n_val n).
Definition set_next (x : option id) (n : node) := mkNode (n_st n) (n_prev n) x (n_ref n) (n_key n) (n_val n).
Definition set_ref (x : Z) (n : node) := mkNode (n_st n) (n_prev n) (n_next n) x (n_key n) (n_val n).
Definition set_key (x : Z) (n : node) := mkNode (n_st n) (n_prev n) (n_next n) (n_ref n) x (n_val n).
Definition set_val (x : Z) (n : node) := mkNode (n_st n) (n_prev n) (n_next n) (n_ref n) (n_key n) x.

Definition heap := list node.

Definition get (h : heap) (x : id) : res node := deref (nth_error h x).

Fixpoint upd (h : heap) (x : id) (f : node -> node) : heap :=
  match h, x with
  | [], _ => []
  | n :: t, O => f n :: t
  | n :: t, S x' => n :: upd t x' f
  end.

(* a field write through a pointer: panics when the pointer is nil/dangling *)
Definition wr (h : heap) (x : id) (f : node -> node) : res heap :=
  _ <- get h x ;; Ok (upd h x f).

Record imap := mkIMap {
  heap_of : heap;
  vals : list (Z * id);        (* im.vals *)
  head : id;                   (* im.head *)
  last : id;                   (* im.last *)
  pool : list id;              (* im.pool: most recently Put first *)
  iters : list (Z * id);       (* open iterators: name -> it.ptr *)
  allocs : nat                 (* number of pool.Get calls so far (index into the oracle) *)
}.

(* NewMap *)
Definition i_new : imap := mkIMap [zero_node] [] 0%nat 0%nat [] [] 0.

(** ** rlItem methods *)

(* func (rli *rlItem) delete() *rlItem : returns the heap and the new head, if changed *)
Definition n_delete (h : heap) (x : id) : res (heap * option id) :=
  n <- get h x ;;
  match n_st n with
  | StLast => Ok (h, None)
  | _ =>
      let h := upd h x (set_val 0) in                         (* rli.val = *new(V) *)
      if n_ref n =? 0 then
        match n_prev n with
        | Some p =>
            h <- wr h p (set_next (n_next n)) ;;              (* rli.prev.next = rli.next *)
            nx <- deref (n_next n) ;;
            h <- wr h nx (set_prev (Some p)) ;;               (* rli.next.prev = rli.prev *)
            let h := upd h x (fun n => set_prev None (set_next None n)) in  (* rli.next, rli.prev = nil, nil *)
            Ok (h, None)
        | None =>
            nx <- deref (n_next n) ;;
            h <- wr h nx (set_prev None) ;;                   (* rli.next.prev = nil *)
            let h := upd h x (set_next None) in               (* head := rli.next; rli.next = nil *)
            Ok (h, Some nx)
        end
      else Ok (upd h x (set_st StDeleted), None)              (* rli.state = rlDeleted *)
  end.

(* func (rli *rlItem) putVal(k, v, rliNew) *rlItem *)
Definition n_putval (h : heap) (x : id) (k v : Z) (new : id) : res (heap * id) :=
  n <- get h x ;;
  match n_st n with
  | StLast =>
      h <- wr h new (set_prev (Some x)) ;;                    (* rliNew.prev = rli *)
      let h := upd h new (set_next None) in                   (* rliNew.next = nil *)
      let h := upd h new (set_st StLast) in                   (* rliNew.state = rlLast *)
      let h := upd h x (set_next (Some new)) in               (* rli.next = rliNew *)
      let h := upd h x (set_st StOk) in
      let h := upd h x (set_key k) in
      let h := upd h x (set_val v) in
      n' <- get h x ;;
      r <- deref (n_next n') ;;                               (* return rli.next *)
      Ok (h, r)
  | _ => Panic                                                (* explicit panic(...) *)
  end.

(** ** Map internals *)

Definition retarget (hd : id) (o : option id) : id :=
  match o with Some x => x | None => hd end.

(* the part of the map that the list-walking code mutates *)
Definition core := (heap * id * list id)%type.      (* heap, im.head, pool *)

(* func (im *Map) next(p) *)
Fixpoint i_next (fuel : nat) (c : core) (p : id) : res (core * id) :=
  match fuel with
  | O => NoFuel
  | S f =>
      let '(h, hd, pl) := c in
      n <- get h p ;;
      match n_st n with
      | StLast => Ok (c, p)
      | _ =>
          let r := n_ref n - 1 in
          let h := upd h p (set_ref r) in                             (* p.refCnt-- *)
          '(c', p') <-
            (if nstate_eqb (n_st n) StDeleted && (r <=? 0) then
               let np := n_next n in                                   (* np := p.next *)
               '(h, nh) <- n_delete h p ;;                             (* head := p.delete() *)
               let hd := retarget hd nh in
               let pl := p :: pl in                                    (* im.pool.Put(p) *)
               p' <- deref np ;;
               n' <- get h p' ;;
               Ok ((upd h p' (set_ref (n_ref n' + 1)), hd, pl), p')    (* p = np; p.refCnt++ *)
             else
               p' <- deref (n_next n) ;;                               (* p = p.next *)
               n' <- get h p' ;;
               Ok ((upd h p' (set_ref (n_ref n' + 1)), hd, pl), p')) ;;
          n'' <- get (fst (fst c')) p' ;;
          if nstate_eqb (n_st n'') StDeleted then i_next f c' p'
          else Ok (c', p')
      end
  end.

Definition fuel_of (h : heap) : nat := S (length h).

(* func (im *Map) getValue(p) *)
Definition i_getvalue (c : core) (p : id) : res (core * id) :=
  n <- get (fst (fst c)) p ;;
  if nstate_eqb (n_st n) StDeleted then i_next (fuel_of (fst (fst c))) c p
  else Ok (c, p).

(* func (im *Map) release(p) *)
Definition i_release (c : core) (p : id) : res core :=
  let '(h, hd, pl) := c in
  n <- get h p ;;
  let h := upd h p (set_ref (n_ref n - 1)) in                 (* p.refCnt-- *)
  if nstate_eqb (n_st n) StDeleted then
    '(h, nh) <- n_delete h p ;;
    let hd := retarget hd nh in                               (* the fix cd173af *)
    n' <- get h p ;;
    Ok (h, hd, if n_ref n' =? 0 then p :: pl else pl)
  else Ok (h, hd, pl).

Definition core_of (s : imap) : core := (heap_of s, head s, pool s).
Definition with_core (s : imap) (c : core) (its : list (Z * id)) : imap :=
  let '(h, hd, pl) := c in mkIMap h (vals s) hd (last s) pl its (allocs s).

(** ** Exported methods *)

Fixpoint remove_nth {A} (n : nat) (l : list A) : list A :=
  match l, n with
  | [], _ => []
  | _ :: t, O => t
  | x :: t, S n' => x :: remove_nth n' t
  end.

(* im.pool.Get(): the chosen pooled node, else a new zero node *)
Definition pool_get (h : heap) (pl : list id) (choice : option nat) : id * heap * list id :=
  match choice with
  | Some n =>
      match nth_error pl n with
      | Some x => (x, h, remove_nth n pl)
      | None => (length h, h ++ [zero_node], pl)
      end
  | None => (length h, h ++ [zero_node], pl)
  end.

(* func (im *Map) Add(k, v) error *)
Definition i_add (s : imap) (k v : Z) (choice : option nat) : res (imap * out) :=
  match alookup k (vals s) with
  | Some _ => Ok (s, OutErr)
  | None =>
      let '(new, h, pl) := pool_get (heap_of s) (pool s) choice in
      '(h, l') <- n_putval h (last s) k v new ;;             (* im.last = im.last.putVal(k, v, rliNew) *)
      nl <- get h l' ;;
      e <- deref (n_prev nl) ;;                              (* im.vals[k] = im.last.prev *)
      Ok (mkIMap h ((k, e) :: vals s) (head s) l' pl (iters s) (S (allocs s)), OutUnit)
  end.

(* func (im *Map) Get(k) (V, bool) *)
Definition i_get (s : imap) (k : Z) : res (imap * out) :=
  match alookup k (vals s) with
  | Some x => n <- get (heap_of s) x ;; Ok (s, OutGet (Some (n_val n)))
  | None => Ok (s, OutGet None)
  end.

(* func (im *Map) Remove(k) *)
Definition i_remove (s : imap) (k : Z) : res (imap * out) :=
  match alookup k (vals s) with
  | Some x =>
      '(h, nh) <- n_delete (heap_of s) x ;;
      let hd := retarget (head s) nh in
      n <- get h x ;;
      let pl := if n_ref n =? 0 then x :: pool s else pool s in
      Ok (mkIMap h (aremove k (vals s)) hd (last s) pl (iters s) (allocs s), OutUnit)
  | None => Ok (s, OutUnit)
  end.

Definition i_len (s : imap) : nat := length (vals s).

(* func (im *Map) Iterator(): the new iterator is entered into the table under [name] *)
Definition i_iterator (s : imap) (name : Z) : res (imap * out) :=
  n <- get (heap_of s) (head s) ;;
  let h := upd (heap_of s) (head s) (set_ref (n_ref n + 1)) in        (* im.head.refCnt++ *)
  Ok (mkIMap h (vals s) (head s) (last s) (pool s) ((name, head s) :: iters s) (allocs s), OutUnit).

(* func (it *mapIterator) HasNext() bool *)
Definition i_hasnext (s : imap) (name : Z) : res (imap * out) :=
  p <- deref (alookup name (iters s)) ;;                               (* it.ptr (nil after Close) *)
  '(c, p) <- i_getvalue (core_of s) p ;;
  n <- get (fst (fst c)) p ;;
  Ok (with_core s c (aset name p (iters s)), OutBool (negb (nstate_eqb (n_st n) StLast))).

(* func (it *mapIterator) Next() (MapEntry, bool) *)
Definition i_itnext (s : imap) (name : Z) : res (imap * out) :=
  p <- deref (alookup name (iters s)) ;;
  '(c, p) <- i_getvalue (core_of s) p ;;
  n <- get (fst (fst c)) p ;;
  let has := negb (nstate_eqb (n_st n) StLast) in
  '(c, p') <- i_next (fuel_of (fst (fst c))) c p ;;
  Ok (with_core s c (aset name p' (iters s)),
      OutNext (if has then Some (n_key n, n_val n) else None)).

(* func (it *mapIterator) Close() error *)
Definition i_close (s : imap) (name : Z) : res (imap * out) :=
  p <- deref (alookup name (iters s)) ;;
  c <- i_release (core_of s) p ;;
  Ok (with_core s c (aremove name (iters s)), OutUnit).                (* it.ptr = nil *)

(* func (im *Map) First() (K, bool): it := im.Iterator(); defer it.Close(); it.Next() *)
Definition i_first (s : imap) : res (imap * out) :=
  let name := fresh_name (akeys (iters s)) in
  '(s, _) <- i_iterator s name ;;
  '(s, o) <- i_itnext s name ;;
  '(s, _) <- i_close s name ;;
  Ok (s, match o with OutNext (Some (k, _)) => OutFirst (Some k) | _ => OutFirst None end).

(** ** The state machine *)

Definition i_do (ch : nat -> option nat) (s : imap) (o : op) : res (imap * out) :=
  match o with
  | OAdd k v => i_add s k v (ch (allocs s))
  | ORemove k => i_remove s k
  | OGet k => i_get s k
  | OLen => Ok (s, OutLen (i_len s))
  | OFirst => i_first s
  | ONewIter i => i_iterator s i
  | OHasNext i => i_hasnext s i
  | ONext i => i_itnext s i
  | OClose i => i_close s i
  end.

Definition i_step (ch : nat -> option nat) (s : imap) (o : op) : imap * out :=
  match i_do ch s o with
  | Ok r => r
  | Panic => (s, OutPanic)
  | NoFuel => (s, OutNoFuel)
  end.

Definition run_imap (ch : nat -> option nat) (h : list op) : list out := outs (i_step ch) i_new h.

Definition always_fresh : nat -> option nat := fun _ => None.
Definition always_reuse : nat -> option nat := fun _ => Some 0%nat.

(** ** What the verif hook [VerifWalk] sees: the nodes reachable from [head]
       following [next] *)

Fixpoint walk (fuel : nat) (h : heap) (x : id) : list id :=
  match fuel with
  | O => []
  | S f =>
      match nth_error h x with
      | None => []
      | Some n => x :: match n_next n with Some y => walk f h y | None => [] end
      end
  end.

Definition i_chain (s : imap) : list id := walk (fuel_of (heap_of s)) (heap_of s) (head s).

Definition nodes_of (s : imap) : list node :=
  flat_map (fun x => match nth_error (heap_of s) x with Some n => [n] | None => [] end) (i_chain s).

Definition count_deleted (s : imap) : nat :=
  length (filter (fun n => nstate_eqb (n_st n) StDeleted) (nodes_of s)).

Definition sum_ref (s : imap) : Z := fold_right (fun n acc => n_ref n + acc) 0 (nodes_of s).

(* head.prev == nil, the walk ends at im.last whose state is rlLast and whose next is nil,
   every interior node is linked back by its successor *)
Fixpoint back_linked (h : heap) (prev : option id) (l : list id) : bool :=
  match l with
  | [] => true
  | x :: t =>
      match nth_error h x with
      | Some n =>
          match n_prev n, prev with
          | None, None => back_linked h (Some x) t
          | Some a, Some b => Nat.eqb a b && back_linked h (Some x) t
          | _, _ => false
          end
      | None => false
      end
  end.

Definition head_ok (s : imap) : bool :=
  back_linked (heap_of s) None (i_chain s) &&
  match List.last (map Some (i_chain s)) None with
  | Some x =>
      Nat.eqb x (last s) &&
      match nth_error (heap_of s) x with
      | Some n => nstate_eqb (n_st n) StLast && match n_next n with None => true | _ => false end
      | None => false
      end
  | None => false
  end.
