(** Executable model of kvs/inmem/inmem.go (the in-memory kvs.Storage), as the
    code is written now (after fix 2f2d445).

    [service.recs] is a Go map; here an association list without repeated keys.
    The map KEEPS expired records: only the helper [get()] -- called by a method
    that looks a key up -- notices that a record has expired, deletes it and
    reports "not found" (lazy expiry).  [Put] and [PutMany] never call [get()].
    One function per Go method, with exactly the checks that method makes.

    Every method body is one critical section of [service.lock]; [now] is the
    value of time.Now() inside that section (the calls made by one method are
    nanoseconds apart and are modelled as one instant).  ulidutils.NewID() is
    the counter [nxt].  The waiter table (WaitForVersionChange/notifyWaiters) is
    not part of this model (C07 has it).  Go's map iteration order is not
    modelled: [ListKeys] lists in the order of the association list and every
    comparison with the implementation sorts both sides.

    Operation and result types are those of the contract (spec/KV.v).
    No proofs in this file. *)
From Coq Require Import List ZArith NArith Arith Bool.
From GL Require Import spec.KV.
Import ListNotations.

Record imem := mkIm { m : list (key * rec); nxt : nat }.

(* func New() kvs.Storage *)
Definition im_new : imem := mkIm [] 1.

(* func (s *service) get(key) (kvs.Record, bool):
     r, ok := s.recs[key]; if !ok {return false}
     if r.ExpiresAt != nil && r.ExpiresAt.Before(time.Now()) { delete(s.recs, key); return false }
     return r, true *)
Definition im_get (now : Z) (k : key) (s : imem) : imem * option rec :=
  match lookup k (m s) with
  | None => (s, None)
  | Some r =>
      if expired now r then (mkIm (remove k (m s)) (nxt s), None)
      else (s, Some r)
  end.

(* record.Version = ulidutils.NewID(); s.recs[record.Key] = record *)
Definition im_store (k : key) (v : value) (e : option Z) (s : imem) : imem * nat :=
  (mkIm (set k (mkRec v (nxt s) e) (m s)) (S (nxt s)), nxt s).

(* Create: if r, ok := s.get(key); ok { return r.Version, ErrExist }; store *)
Definition im_create (now : Z) (k : key) (v : value) (e : option Z) (s : imem) : imem * out :=
  let '(s1, r) := im_get now k s in
  match r with
  | Some r => (s1, OExist (ver r))
  | None => let '(s2, n) := im_store k v e s1 in (s2, OVer n)
  end.

(* Get: r, ok := s.get(key); if !ok { ErrNotExist }; return r *)
Definition im_getop (now : Z) (k : key) (s : imem) : imem * out :=
  let '(s1, r) := im_get now k s in
  match r with
  | Some r => (s1, ORec (as_orec k r))
  | None => (s1, ONotExist)
  end.

(* Put: no look-up at all: new version, store, return the record *)
Definition im_put (k : key) (v : value) (e : option Z) (s : imem) : imem * out :=
  let '(s1, n) := im_store k v e s in (s1, ORec (k, v, n, e)).

(* PutMany: for _, r := range records { r.Version = NewID(); s.recs[r.Key] = r } *)
Fixpoint im_putmany (rs : list (key * value * option Z)) (s : imem) : imem :=
  match rs with
  | [] => s
  | (k, v, e) :: t => im_putmany t (fst (im_store k v e s))
  end.

(* GetMany: for idx, key := range keys { r, ok := s.get(key); if !ok {continue}; res[idx] = &r } *)
Fixpoint im_getmany (now : Z) (ks : list key) (s : imem) : imem * list (option orec) :=
  match ks with
  | [] => (s, [])
  | k :: t =>
      let '(s1, r) := im_get now k s in
      let '(s2, rs) := im_getmany now t s1 in
      (s2, option_map (as_orec k) r :: rs)
  end.

(* CasByVersion: get; !ok -> ErrNotExist; r.Version != record.Version -> ErrConflict; store *)
Definition im_cas (now : Z) (k : key) (v : value) (e : option Z) (expected : nat) (s : imem) : imem * out :=
  let '(s1, r) := im_get now k s in
  match r with
  | None => (s1, ONotExist)
  | Some r =>
      if Nat.eqb (ver r) expected then
        let '(s2, n) := im_store k v e s1 in (s2, ORec (k, v, n, e))
      else (s1, OConflict)
  end.

(* Delete: if _, ok := s.get(key); !ok { ErrNotExist }; delete(s.recs, key) *)
Definition im_delete (now : Z) (k : key) (s : imem) : imem * out :=
  let '(s1, r) := im_get now k s in
  match r with
  | None => (s1, ONotExist)
  | Some _ => (mkIm (remove k (m s1)) (nxt s1), OOk)
  end.

(* ListKeys: for k := range s.recs { if _, ok := s.get(k); ok && g.Match(k) { res = append(res, k) } }
   (the range runs over the keys present when it starts; get() may delete the key it is asked for) *)
Fixpoint im_list_loop (now : Z) (pat : list N) (ks : list key) (s : imem) : imem * list key :=
  match ks with
  | [] => (s, [])
  | k :: t =>
      let '(s1, r) := im_get now k s in
      let '(s2, res) := im_list_loop now pat t s1 in
      match r with
      | Some _ => if matches pat k then (s2, k :: res) else (s2, res)
      | None => (s2, res)
      end
  end.

Definition im_listkeys (now : Z) (pat : list N) (s : imem) : imem * out :=
  let '(s1, res) := im_list_loop now pat (map fst (m s)) s in (s1, OKeys res).

(* WaitForVersionChange, the locked section at the head of its loop: the
   result with which the call returns from there, or None = it parks *)
Definition im_wait_check (now : Z) (k : key) (v : nat) (s : imem) : imem * option out :=
  let '(s1, r) := im_get now k s in
  match r with
  | None => (s1, Some ONotExist)
  | Some r => if Nat.eqb (ver r) v then (s1, None) else (s1, Some OOk)
  end.

Definition im_step (s : imem) (now : Z) (o : op) : imem * out :=
  match o with
  | Create k v e => im_create now k v e s
  | Get k => im_getop now k s
  | GetMany ks => let '(s1, rs) := im_getmany now ks s in (s1, ORecs rs)
  | Put k v e => im_put k v e s
  | PutMany rs => (im_putmany rs s, OOk)
  | CasByVersion k v e expected => im_cas now k v e expected s
  | Delete k => im_delete now k s
  | ListKeys pat => im_listkeys now pat s
  end.

Fixpoint im_run (s : imem) (ops : list (Z * op)) : list out * imem :=
  match ops with
  | [] => ([], s)
  | (now, o) :: t =>
      let '(s', x) := im_step s now o in
      let '(xs, sf) := im_run s' t in (x :: xs, sf)
  end.
