(** Executable model of the timer heap of timeout/timeout.go:

      type future  struct { f func(); fireT time.Time; idx int }
      type futures []*future            (Len / Less / Swap / Push / Pop, timeout.go:204-232)

    together with a line-by-line transcription of Go 1.23's container/heap
    (Init / Push / Pop / Remove / Fix / up / down).

    Pointers are ids: a [*future] is a [fid]; the pointees live in a [store]
    (association list, newest binding first, absent ids read as [no_future]
    whose [idx] is -1).  The slice [fs] is [arr : list fid].  Go [int]s are
    [Z] (so that [(j-1)/2] is Go's truncating division, [Z.quot]); [nat] is
    used only to index the list and as loop fuel (= current length).

    [bad] is the out-of-fuel / would-panic flag: it is raised when a loop
    runs out of fuel or when [Swap]/[Pop] index outside the slice (Go panics
    there).  The theorems show it is never raised under the preconditions of
    the callers.  [Less] outside the slice (also a panic in Go) reads
    [no_future]; every [Less] call of [up]/[down] is bounds-guarded by the
    code itself ([j1 < n], [j2 < n], parent of an index).

    No proofs in this file. *)
From Coq Require Import List ZArith NArith Bool.
Import ListNotations.
Open Scope Z_scope.

Definition fid := N.

(* f != nil is [live]; fireT in ns on the monotonic clock *)
Record future := mkFut { fireT : Z; idx : Z; live : bool }.

Definition no_future : future := mkFut 0 (-1) false.

Definition store := list (fid * future).

Fixpoint get (s : store) (i : fid) : future :=
  match s with
  | [] => no_future
  | (k, f) :: t => if N.eqb k i then f else get t i
  end.

Definition set (s : store) (i : fid) (f : future) : store := (i, f) :: s.

Definition set_idx (s : store) (i : fid) (v : Z) : store :=
  let f := get s i in set s i (mkFut (fireT f) v (live f)).

Definition set_live (s : store) (i : fid) (b : bool) : store :=
  let f := get s i in set s i (mkFut (fireT f) (idx f) b).

Definition known (s : store) (i : fid) : bool := existsb (N.eqb i) (map fst s).

Record fheap := mkHeap { arr : list fid; hs : store; bad : bool }.

Definition empty_heap : fheap := mkHeap [] [] false.

Definition mark_bad (h : fheap) : fheap := mkHeap (arr h) (hs h) true.

(* fs[i] *)
Definition aget (l : list fid) (i : Z) : fid := nth (Z.to_nat i) l 0%N.

(* fs[i] = v *)
Fixpoint aset_nat (l : list fid) (i : nat) (v : fid) : list fid :=
  match l, i with
  | [], _ => []
  | _ :: t, O => v :: t
  | x :: t, S i' => x :: aset_nat t i' v
  end.
Definition aset (l : list fid) (i : Z) (v : fid) : list fid := aset_nat l (Z.to_nat i) v.

(** ** the [futures] methods (timeout.go:204-232) *)

(* func (fs *futures) Len() int *)
Definition f_len (h : fheap) : Z := Z.of_nat (length (arr h)).

Definition in_range (h : fheap) (i : Z) : bool := (0 <=? i) && (i <? f_len h).

(* func (fs *futures) Less(i, j int) bool { return fi.fireT.Before(fj.fireT) } *)
Definition f_less (h : fheap) (i j : Z) : bool :=
  fireT (get (hs h) (aget (arr h) i)) <? fireT (get (hs h) (aget (arr h) j)).

(* func (fs *futures) Swap(i, j int) {
     fs[i], fs[j] = fs[j], fs[i]
     fs[i].idx, fs[j].idx = i, j } *)
Definition f_swap (h : fheap) (i j : Z) : fheap :=
  if in_range h i && in_range h j then
    let a := arr h in
    let a' := aset (aset a i (aget a j)) j (aget a i) in
    let s1 := set_idx (hs h) (aget a' i) i in
    let s2 := set_idx s1 (aget a' j) j in
    mkHeap a' s2 (bad h)
  else mark_bad h.

(* func (fs *futures) Push(x any) { fu.idx = fs.Len(); fs = append(fs, fu) } *)
Definition f_push (h : fheap) (x : fid) : fheap :=
  mkHeap (arr h ++ [x]) (set_idx (hs h) x (f_len h)) (bad h).

(* func (fs *futures) Pop() any {
     last := fs.Len() - 1; res := fs[last]; fs[last] = nil
     fs = fs[:last]; res.idx = -1; return res } *)
Definition f_pop (h : fheap) : fheap * fid :=
  match arr h with
  | [] => (mark_bad h, 0%N)
  | _ =>
      let last := f_len h - 1 in
      let res := aget (arr h) last in
      (mkHeap (removelast (arr h)) (set_idx (hs h) res (-1)) (bad h), res)
  end.

(** ** container/heap (Go 1.23, src/container/heap/heap.go) *)

(* func up(h Interface, j int) {
     for { i := (j - 1) / 2 // parent
           if i == j || !h.Less(j, i) { break }
           h.Swap(i, j); j = i } } *)
Fixpoint up (fuel : nat) (h : fheap) (j : Z) : fheap :=
  match fuel with
  | O => mark_bad h
  | S fuel' =>
      let i := Z.quot (j - 1) 2 in
      if (i =? j) || negb (f_less h j i) then h
      else up fuel' (f_swap h i j) i
  end.

(* func down(h Interface, i0, n int) bool {
     i := i0
     for { j1 := 2*i + 1
           if j1 >= n || j1 < 0 { break }
           j := j1
           if j2 := j1 + 1; j2 < n && h.Less(j2, j1) { j = j2 }
           if !h.Less(j, i) { break }
           h.Swap(i, j); i = j }
     return i > i0 }
   [down_loop] returns the heap and the final i *)
Fixpoint down_loop (fuel : nat) (h : fheap) (i n : Z) : fheap * Z :=
  match fuel with
  | O => (mark_bad h, i)
  | S fuel' =>
      let j1 := 2 * i + 1 in
      if (j1 >=? n) || (j1 <? 0) then (h, i)
      else
        let j := if (j1 + 1 <? n) && f_less h (j1 + 1) j1 then j1 + 1 else j1 in
        if negb (f_less h j i) then (h, i)
        else down_loop fuel' (f_swap h i j) j n
  end.

(* one more than the length: a loop over a heap of n elements makes at most
   log2 n + 1 <= n + 1 tests *)
Definition fuel_of (h : fheap) : nat := S (length (arr h)).

Definition down (h : fheap) (i0 n : Z) : fheap * bool :=
  let '(h', i) := down_loop (fuel_of h) h i0 n in (h', i0 <? i).

(* func Init(h Interface) { n := h.Len(); for i := n/2 - 1; i >= 0; i-- { down(h, i, n) } } *)
Fixpoint init_loop (fuel : nat) (h : fheap) (i n : Z) : fheap :=
  match fuel with
  | O => mark_bad h
  | S fuel' =>
      if i >=? 0 then init_loop fuel' (fst (down h i n)) (i - 1) n else h
  end.
Definition heap_init (h : fheap) : fheap :=
  let n := f_len h in init_loop (fuel_of h) h (Z.quot n 2 - 1) n.

(* func Push(h Interface, x any) { h.Push(x); up(h, h.Len()-1) } *)
Definition heap_push (h : fheap) (x : fid) : fheap :=
  let h1 := f_push h x in up (fuel_of h1) h1 (f_len h1 - 1).

(* func Pop(h Interface) any { n := h.Len() - 1; h.Swap(0, n); down(h, 0, n); return h.Pop() } *)
Definition heap_pop (h : fheap) : fheap * fid :=
  let n := f_len h - 1 in
  let h1 := f_swap h 0 n in
  let '(h2, _) := down h1 0 n in
  f_pop h2.

(* func Remove(h Interface, i int) any {
     n := h.Len() - 1
     if n != i { h.Swap(i, n); if !down(h, i, n) { up(h, i) } }
     return h.Pop() } *)
Definition heap_remove (h : fheap) (i : Z) : fheap * fid :=
  let n := f_len h - 1 in
  let h1 :=
    if negb (n =? i) then
      let h1 := f_swap h i n in
      let '(h2, moved) := down h1 i n in
      if negb moved then up (fuel_of h2) h2 i else h2
    else h in
  f_pop h1.

(* func Fix(h Interface, i int) { if !down(h, i, h.Len()) { up(h, i) } } *)
Definition heap_fix (h : fheap) (i : Z) : fheap :=
  let '(h1, moved) := down h i (f_len h) in
  if negb moved then up (fuel_of h1) h1 i else h1.

(** ** the primitive calls container/heap (or anything else) can make on a [futures] value *)
Inductive prim := PSwap (i j : Z) | PPush (x : fid) | PPop | PLess (i j : Z) | PLen.

(* [None]: Go panics (index out of range) or the call is outside the use made
   of the type (pushing a pointer that is already in the slice) *)
Definition prim_step (h : fheap) (p : prim) : option fheap :=
  match p with
  | PSwap i j => if in_range h i && in_range h j then Some (f_swap h i j) else None
  | PPush x => if existsb (N.eqb x) (arr h) then None else Some (f_push h x)
  | PPop => match arr h with [] => None | _ => Some (fst (f_pop h)) end
  | PLess i j => if in_range h i && in_range h j then Some h else None
  | PLen => Some h
  end.

Fixpoint prim_run (h : fheap) (ps : list prim) : option fheap :=
  match ps with
  | [] => Some h
  | p :: t => match prim_step h p with Some h' => prim_run h' t | None => None end
  end.

(** ** scripts driven through the verif hook VerifHeapOps *)

(* a fresh future as made by Call: fu.fireT = ...; fu.idx = -1; fu.f = f *)
Definition new_future (h : fheap) (x : fid) (t : Z) : fheap :=
  mkHeap (arr h) (set (hs h) x (mkFut t (-1) true)) (bad h).

Inductive hop :=
| HPush (x : fid) (t : Z)   (* new future x with fireT t; heap.Push *)
| HRemoveAt (k : Z)         (* heap.Remove(h, k) *)
| HRemoveId (x : fid)       (* what cancel does: if x.idx >= 0 { x.f = nil; heap.Remove(h, x.idx) } *)
| HPop                      (* heap.Pop if Len > 0 *)
| HFix (k : Z) (t : Z)      (* fs[k].fireT = t; heap.Fix(h, k) *)
| HInit.                    (* heap.Init *)

Inductive hop_out := HSkip | HNone | HOut (x : fid) (still_live : bool).

Definition out_of (h : fheap) (x : fid) : hop_out := HOut x (live (get (hs h) x)).

(* [HSkip]: the step is not applicable (index out of range, unknown or not pending id, empty heap) *)
Definition hop_step (h : fheap) (o : hop) : fheap * hop_out :=
  match o with
  | HPush x t =>
      if known (hs h) x then (h, HSkip) else (heap_push (new_future h x t) x, HNone)
  | HRemoveAt k =>
      if in_range h k then let '(h', x) := heap_remove h k in (h', out_of h' x) else (h, HSkip)
  | HRemoveId x =>
      let fu := get (hs h) x in
      if idx fu <? 0 then (h, HSkip)
      else
        let '(h', y) := heap_remove (mkHeap (arr h) (set_live (hs h) x false) (bad h)) (idx fu) in
        (h', out_of h' y)
  | HPop =>
      match arr h with
      | [] => (h, HSkip)
      | _ => let '(h', x) := heap_pop h in (h', out_of h' x)
      end
  | HFix k t =>
      if in_range h k then
        let x := aget (arr h) k in
        let fu := get (hs h) x in
        (heap_fix (mkHeap (arr h) (set (hs h) x (mkFut t (idx fu) (live fu))) (bad h)) k, HNone)
      else (h, HSkip)
  | HInit => (heap_init h, HNone)
  end.

(* the observable dump: (id, idx) of every slot, in slice order *)
Definition dump (h : fheap) : list (fid * Z) :=
  map (fun x => (x, idx (get (hs h) x))) (arr h).

(* ids of futures that are not in the slice although their idx is not -1 *)
Definition strays (h : fheap) : list fid :=
  filter (fun x => negb (existsb (N.eqb x) (arr h)) && negb (idx (get (hs h) x) =? -1))
         (map fst (hs h)).
