(** Model of [WaitForVersionChange] (C07).

    Part 1 — the in-memory storage, kvs/inmem/inmem.go: a labelled transition
    system whose atomic steps are the critical sections of [service.lock] and
    the wake-ups of the waiter's [select].

      Go                                         here
      -----------------------------------------  ---------------------------------
      s.recs                                     [store] (+ [dom], the keys ever written,
                                                 a superset of the keys of s.recs, only
                                                 used by ListKeys to range over the map)
      s.verChange : key -> *waiter{done,waiters} [tbl : key -> option (chan * Z)]
      close(ws.done)                             [closed c := true]  ([dblclose] records a
                                                 close of a closed channel = Go panic)
      make(chan struct{})                        fresh id [nextch]
      ulidutils.NewID()                          fresh id [nextver]
      time.Now()                                 [now] (moved by [Tick] only)
      get(key)            (lazy expiry)          [get_rec]
      notifyWaiters(key)                         [notify]
      releaseWaiter(key, ws)                     [release]
      the loop head of WaitForVersionChange,
        Lock .. Unlock                           label [LCheck t]
      select: <-ws.done / <-ctx.Done() / <-expired   [WakeChan t] / [WakeCtx t] / [WakeExpiry t]
      ctx branch:   Lock; releaseWaiter; return  [CancelSec t]
      timer branch: Lock; releaseWaiter; Unlock  [ExpirySec t]
      every other method (one critical section)  [Mut op]
      cancel() of the caller's context           [CtxDone t]

    A "thread" is one call of WaitForVersionChange; [Start] creates it.

    Part 2 — [Module Poll]: the Redis client, kvs/redis/redis.go, which polls
    GET with a 2..64 ms back-off.

    No proofs in this file. *)
From Coq Require Import List ZArith NArith Bool Arith.
Import ListNotations.

Definition key := nat.
Definition tid := nat.
Definition chan := nat.

(** a stored record, reduced to what the waiter looks at *)
Record rcd := mkRcd { r_ver : N; r_exp : option Z }.

(** results of WaitForVersionChange: nil, ErrNotExist, ctx.Err() *)
Inductive res := RNil | RNotExist | RCtx.

(** where a call of WaitForVersionChange is *)
Inductive pc :=
| PCheck (k : key) (v : N)                              (* about to take the lock at the loop head *)
| PParked (k : key) (v : N) (c : chan) (tm : option Z)  (* registered on c, in (or on the way to) select;
                                                            tm = ExpiresAt of the record read = the timer *)
| PCancelPending (k : key) (c : chan)                   (* select took ctx.Done, lock not yet taken *)
| PExpiryPending (k : key) (v : N) (c : chan)           (* select took the timer, lock not yet taken *)
| PDone (r : res).

Record thread := mkThr { t_pc : pc; t_ctx : bool (* the call's context is done *) }.

Record st := mkSt {
  store : key -> option rcd;
  dom : list key;
  tbl : key -> option (chan * Z);
  closed : chan -> bool;
  nextch : chan;
  nextver : N;
  now : Z;
  thr : list thread;
  dblclose : bool }.

Definition init : st :=
  mkSt (fun _ => None) [] (fun _ => None) (fun _ => false) 0 1%N 0%Z [] false.

Definition upd {A} (f : nat -> A) (k : nat) (x : A) : nat -> A :=
  fun k' => if Nat.eqb k' k then x else f k'.

Fixpoint upd_nth {A} (l : list A) (n : nat) (x : A) : list A :=
  match l, n with
  | [], _ => []
  | _ :: tl, O => x :: tl
  | h :: tl, S n' => h :: upd_nth tl n' x
  end.

Definition with_store (s : st) f d :=
  mkSt f d (tbl s) (closed s) (nextch s) (nextver s) (now s) (thr s) (dblclose s).
Definition with_tbl (s : st) f :=
  mkSt (store s) (dom s) f (closed s) (nextch s) (nextver s) (now s) (thr s) (dblclose s).
Definition with_thr (s : st) l :=
  mkSt (store s) (dom s) (tbl s) (closed s) (nextch s) (nextver s) (now s) l (dblclose s).
Definition with_now (s : st) z :=
  mkSt (store s) (dom s) (tbl s) (closed s) (nextch s) (nextver s) z (thr s) (dblclose s).

(** close(c): closing a closed channel panics in Go; recorded in [dblclose] *)
Definition close_ch (s : st) (c : chan) : st :=
  mkSt (store s) (dom s) (tbl s) (upd (closed s) c true) (nextch s) (nextver s) (now s) (thr s)
       (dblclose s || closed s c).

(** r.ExpiresAt != nil && r.ExpiresAt.Before(time.Now()) *)
Definition expired (r : rcd) (t : Z) : bool :=
  match r_exp r with Some e => Z.ltb e t | None => false end.

(** notifyWaiters(key) *)
Definition notify (s : st) (k : key) : st :=
  match tbl s k with
  | None => s
  | Some (c, _) => with_tbl (close_ch s c) (upd (tbl s) k None)
  end.

(** get(key): lazy expiry *)
Definition get_rec (s : st) (k : key) : st * option rcd :=
  match store s k with
  | None => (s, None)
  | Some r =>
      if expired r (now s)
      then (notify (with_store s (upd (store s) k None) (dom s)) k, None)
      else (s, Some r)
  end.

(** releaseWaiter(key, ws) where ws.done = c *)
Definition release (s : st) (k : key) (c : chan) : st :=
  match tbl s k with
  | None => s
  | Some (c1, n) =>
      if Nat.eqb c1 c then
        let n' := (n - 1)%Z in
        if Z.eqb n' 0 then with_tbl (close_ch s c) (upd (tbl s) k None)
        else with_tbl s (upd (tbl s) k (Some (c1, n')))
      else s
  end.

(** the registration at the loop head: look up / create the waiter record, waiters++ *)
Definition register (s : st) (k : key) : st * chan :=
  match tbl s k with
  | Some (c, n) => (with_tbl s (upd (tbl s) k (Some (c, (n + 1)%Z))), c)
  | None =>
      let c := nextch s in
      (mkSt (store s) (dom s) (upd (tbl s) k (Some (c, 1%Z))) (closed s) (S c) (nextver s) (now s)
            (thr s) (dblclose s), c)
  end.

Definition add_dom (d : list key) (k : key) : list key :=
  if existsb (Nat.eqb k) d then d else k :: d.

(** s.recs[key] = record with a fresh version *)
Definition write_rec (s : st) (k : key) (e : option Z) : st :=
  mkSt (upd (store s) k (Some (mkRcd (nextver s) e))) (add_dom (dom s) k) (tbl s) (closed s) (nextch s)
       (N.succ (nextver s)) (now s) (thr s) (dblclose s).

(** the other methods of the storage; each is one critical section *)
Inductive mop :=
| OCreate (k : key) (e : option Z)
| OGet (k : key)
| OGetMany (ks : list key)
| OPut (k : key) (e : option Z)
| OPutMany (l : list (key * option Z))
| OCas (k : key) (v : N) (e : option Z)
| ODelete (k : key)
| OListKeys.

Inductive mout :=
| MOk (v : N)              (* success; the version written / read *)
| MExist (v : N)           (* Create: ErrExist with the stored version *)
| MNotExist
| MConflict
| MDone                    (* PutMany, Delete: nil *)
| MVers (l : list (option N))   (* GetMany: versions found *)
| MKeys (l : list key).    (* ListKeys "*": the keys, sorted by the harness; here in dom order *)

Fixpoint get_many (s : st) (ks : list key) : st * list (option N) :=
  match ks with
  | [] => (s, [])
  | k :: tl =>
      let '(s1, r) := get_rec s k in
      let '(s2, l) := get_many s1 tl in
      (s2, option_map r_ver r :: l)
  end.

Fixpoint put_many (s : st) (l : list (key * option Z)) : st :=
  match l with
  | [] => s
  | (k, e) :: tl => put_many (notify (write_rec s k e) k) tl
  end.

(** ListKeys: ranges over the records map and calls get() on every key *)
Fixpoint list_keys (s : st) (ks : list key) : st * list key :=
  match ks with
  | [] => (s, [])
  | k :: tl =>
      let '(s1, r) := get_rec s k in
      let '(s2, l) := list_keys s1 tl in
      (s2, match r with Some _ => k :: l | None => l end)
  end.

Definition mut_step (s : st) (o : mop) : st * mout :=
  match o with
  | OCreate k e =>
      let '(s1, r) := get_rec s k in
      match r with
      | Some r => (s1, MExist (r_ver r))
      | None => (write_rec s1 k e, MOk (nextver s1))          (* no notifyWaiters in Create *)
      end
  | OGet k =>
      let '(s1, r) := get_rec s k in
      (s1, match r with Some r => MOk (r_ver r) | None => MNotExist end)
  | OGetMany ks => let '(s1, l) := get_many s ks in (s1, MVers l)
  | OPut k e => (notify (write_rec s k e) k, MOk (nextver s))  (* no get() in Put *)
  | OPutMany l => (put_many s l, MDone)
  | OCas k v e =>
      let '(s1, r) := get_rec s k in
      match r with
      | None => (s1, MNotExist)
      | Some r =>
          if N.eqb (r_ver r) v then (notify (write_rec s1 k e) k, MOk (nextver s1))
          else (s1, MConflict)
      end
  | ODelete k =>
      let '(s1, r) := get_rec s k in
      match r with
      | None => (s1, MNotExist)
      | Some _ => (notify (with_store s1 (upd (store s1) k None) (dom s1)) k, MDone)
      end
  | OListKeys => let '(s1, l) := list_keys s (dom s) in (s1, MKeys l)
  end.

Inductive label :=
| Start (t : tid) (k : key) (v : N)
| LCheck (t : tid)
| Mut (o : mop)
| CtxDone (t : tid)
| WakeChan (t : tid)
| WakeCtx (t : tid)
| WakeExpiry (t : tid)
| CancelSec (t : tid)
| ExpirySec (t : tid)
| Tick (dt : Z).

Definition set_pc (s : st) (t : tid) (p : pc) : st :=
  match nth_error (thr s) t with
  | Some th => with_thr s (upd_nth (thr s) t (mkThr p (t_ctx th)))
  | None => s
  end.

Definition pc_of (s : st) (t : tid) : option pc := option_map t_pc (nth_error (thr s) t).
Definition ctx_of (s : st) (t : tid) : bool :=
  match nth_error (thr s) t with Some th => t_ctx th | None => false end.

Definition step (s : st) (l : label) : option st :=
  match l with
  | Start t k v =>
      if Nat.eqb t (length (thr s)) then Some (with_thr s (thr s ++ [mkThr (PCheck k v) false])) else None
  | LCheck t =>
      match pc_of s t with
      | Some (PCheck k v) =>
          let '(s1, found) := get_rec s k in
          match found with
          | None => Some (set_pc s1 t (PDone RNotExist))
          | Some r =>
              if N.eqb (r_ver r) v then
                let '(s2, c) := register s1 k in
                Some (set_pc s2 t (PParked k v c (r_exp r)))
              else Some (set_pc s1 t (PDone RNil))
          end
      | _ => None
      end
  | Mut o => Some (fst (mut_step s o))
  | CtxDone t =>
      match nth_error (thr s) t with
      | Some th => Some (with_thr s (upd_nth (thr s) t (mkThr (t_pc th) true)))
      | None => None
      end
  | WakeChan t =>
      match pc_of s t with
      | Some (PParked k v c _) => if closed s c then Some (set_pc s t (PCheck k v)) else None
      | _ => None
      end
  | WakeCtx t =>
      match pc_of s t with
      | Some (PParked k _ c _) => if ctx_of s t then Some (set_pc s t (PCancelPending k c)) else None
      | _ => None
      end
  | WakeExpiry t =>
      match pc_of s t with
      | Some (PParked k v c (Some e)) =>
          if Z.leb e (now s) then Some (set_pc s t (PExpiryPending k v c)) else None
      | _ => None
      end
  | CancelSec t =>
      match pc_of s t with
      | Some (PCancelPending k c) => Some (set_pc (release s k c) t (PDone RCtx))
      | _ => None
      end
  | ExpirySec t =>
      match pc_of s t with
      | Some (PExpiryPending k v c) => Some (set_pc (release s k c) t (PCheck k v))
      | _ => None
      end
  | Tick dt => if Z.leb 0 dt then Some (with_now s (now s + dt)%Z) else None
  end.

Fixpoint run (s : st) (ls : list label) : option st :=
  match ls with
  | [] => Some s
  | l :: tl => match step s l with Some s' => run s' tl | None => None end
  end.

(** the steps thread [t] itself can take (everything except Start/Mut/CtxDone/Tick,
    which belong to the environment) *)
Definition enabled_of (s : st) (t : tid) : list label :=
  match pc_of s t with
  | Some (PCheck _ _) => [LCheck t]
  | Some (PParked _ _ c tm) =>
      (if closed s c then [WakeChan t] else []) ++
      (if ctx_of s t then [WakeCtx t] else []) ++
      (match tm with Some e => if Z.leb e (now s) then [WakeExpiry t] else [] | None => [] end)
  | Some (PCancelPending _ _) => [CancelSec t]
  | Some (PExpiryPending _ _ _) => [ExpirySec t]
  | Some (PDone _) | None => []
  end.

(** which thread a label belongs to *)
Definition thread_of (l : label) : option tid :=
  match l with
  | LCheck t | WakeChan t | WakeCtx t | WakeExpiry t | CancelSec t | ExpirySec t => Some t
  | Start _ _ _ | Mut _ | CtxDone _ | Tick _ => None
  end.

(** the record a lookup at time [now s] finds: absent or expired = None *)
Definition live (s : st) (k : key) : option rcd :=
  match store s k with
  | Some r => if expired r (now s) then None else Some r
  | None => None
  end.

(** is the thread registered on (k, c)? *)
Definition on_chan (k : key) (c : chan) (p : pc) : bool :=
  match p with
  | PParked k' _ c' _ | PCancelPending k' c' | PExpiryPending k' _ c' => Nat.eqb k' k && Nat.eqb c' c
  | PCheck _ _ | PDone _ => false
  end.

Definition count_on (k : key) (c : chan) (l : list thread) : nat :=
  length (filter (fun th => on_chan k c (t_pc th)) l).

(** * Part 2: the polling waiter of the Redis client *)
Module Poll.

(** back-off of the loop in redis.go: timeout starts at 2 ms; at the loop head
    timeout *= 2; if timeout > 100 then timeout = 2 *)
Definition next_timeout (t : Z) : Z :=
  let t2 := (t * 2)%Z in if Z.ltb 100 t2 then 2%Z else t2.

Inductive ppc :=
| QPoll (k : key) (v : N) (tmo : Z)            (* at the loop head, tmo = current timeout *)
| QSleep (k : key) (v : N) (tmo : Z) (wake : Z) (* in select on ctx.Done / timer that fires at wake *)
| QDone (r : res).

Record pthread := mkPThr { q_pc : ppc; q_ctx : bool }.

(** the server: a record is visible to GET iff present and its TTL has not run
    out (Redis expires by itself: [e <= now] = gone) *)
Record pst := mkPSt { srv : key -> option rcd; pnow : Z; pthr : list pthread }.

Definition pinit : pst := mkPSt (fun _ => None) 0%Z [].

Definition srv_get (s : pst) (k : key) : option rcd :=
  match srv s k with
  | Some r => match r_exp r with
              | Some e => if Z.leb e (pnow s) then None else Some r
              | None => Some r
              end
  | None => None
  end.

Inductive plabel :=
| PStart (t : tid) (k : key) (v : N)
| PPoll (t : tid)          (* timeout update + GET + comparison *)
| PPollCtx (t : tid)       (* GET fails because the context is done: the error is returned *)
| PSrv (k : key) (r : option rcd)   (* any other client writes / deletes key k *)
| PCtxDone (t : tid)
| PWakeTimer (t : tid)
| PWakeCtx (t : tid)
| PTick (dt : Z).

Definition pset (s : pst) (t : tid) (p : ppc) : pst :=
  match nth_error (pthr s) t with
  | Some th => mkPSt (srv s) (pnow s) (upd_nth (pthr s) t (mkPThr p (q_ctx th)))
  | None => s
  end.

Definition ppc_of (s : pst) (t : tid) : option ppc := option_map q_pc (nth_error (pthr s) t).
Definition pctx_of (s : pst) (t : tid) : bool :=
  match nth_error (pthr s) t with Some th => q_ctx th | None => false end.

Definition pstep (s : pst) (l : plabel) : option pst :=
  match l with
  | PStart t k v =>
      if Nat.eqb t (length (pthr s))
      then Some (mkPSt (srv s) (pnow s) (pthr s ++ [mkPThr (QPoll k v 2%Z) false])) else None
  | PPoll t =>
      match ppc_of s t with
      | Some (QPoll k v tmo) =>
          let tmo' := next_timeout tmo in
          match srv_get s k with
          | None => Some (pset s t (QDone RNotExist))
          | Some r =>
              if N.eqb (r_ver r) v then Some (pset s t (QSleep k v tmo' (pnow s + tmo')%Z))
              else Some (pset s t (QDone RNil))
          end
      | _ => None
      end
  | PPollCtx t =>
      match ppc_of s t with
      | Some (QPoll _ _ _) => if pctx_of s t then Some (pset s t (QDone RCtx)) else None
      | _ => None
      end
  | PSrv k r => Some (mkPSt (upd (srv s) k r) (pnow s) (pthr s))
  | PCtxDone t =>
      match nth_error (pthr s) t with
      | Some th => Some (mkPSt (srv s) (pnow s) (upd_nth (pthr s) t (mkPThr (q_pc th) true)))
      | None => None
      end
  | PWakeTimer t =>
      match ppc_of s t with
      | Some (QSleep k v tmo wake) => if Z.leb wake (pnow s) then Some (pset s t (QPoll k v tmo)) else None
      | _ => None
      end
  | PWakeCtx t =>
      match ppc_of s t with
      | Some (QSleep _ _ _ _) => if pctx_of s t then Some (pset s t (QDone RCtx)) else None
      | _ => None
      end
  | PTick dt => if Z.leb 0 dt then Some (mkPSt (srv s) (pnow s + dt)%Z (pthr s)) else None
  end.

Fixpoint prun (s : pst) (ls : list plabel) : option pst :=
  match ls with
  | [] => Some s
  | l :: tl => match pstep s l with Some s' => prun s' tl | None => None end
  end.

End Poll.
