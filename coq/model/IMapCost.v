(** [First] of the pointer model with the fuel of its two loops as parameters
    (model/IMap.v gives both loops "number of allocated nodes + 1").  The loop
    [i_next] itself is the one of model/IMap.v: one unit of fuel is one
    iteration of the Go [for] loop, i.e. one list node examined, so the fuel a
    call needs is its cost in node visits.  Used by [first_cost] (C11).

    No proofs in this file. *)
From Coq Require Import List ZArith Arith Bool.
From GL Require Import lib.IMapBase model.IMap.
Import ListNotations.
Open Scope Z_scope.

Definition i_getvalue_f (f : nat) (c : core) (p : id) : res (core * id) :=
  n <- get (fst (fst c)) p ;;
  if nstate_eqb (n_st n) StDeleted then i_next f c p else Ok (c, p).

Definition i_itnext_f (f1 f2 : nat) (s : imap) (name : Z) : res (imap * out) :=
  p <- deref (alookup name (iters s)) ;;
  '(c, p) <- i_getvalue_f f1 (core_of s) p ;;
  n <- get (fst (fst c)) p ;;
  let has := negb (nstate_eqb (n_st n) StLast) in
  '(c, p') <- i_next f2 c p ;;
  Ok (with_core s c (aset name p' (iters s)),
      OutNext (if has then Some (n_key n, n_val n) else None)).

Definition i_first_f (f1 f2 : nat) (s : imap) : res (imap * out) :=
  let name := fresh_name (akeys (iters s)) in
  '(s, _) <- i_iterator s name ;;
  '(s, o) <- i_itnext_f f1 f2 s name ;;
  '(s, _) <- i_close s name ;;
  Ok (s, match o with OutNext (Some (k, _)) => OutFirst (Some k) | _ => OutFirst None end).
