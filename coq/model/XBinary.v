(** Executable model of xbinary/xbinary.go (the tree after the fix 98bfc00).

    Bytes are [N] (well-formed: below 256), Go's [uint]/[uint64] are [N] below
    2^64, Go's [int] is [Z] in two's complement on 64 bits where the code
    converts between the two ([to_int64]/[to_uint64]/[add64]/[sub64]).  Lengths,
    indices and fuel are [nat].

    The functions follow the Go code statement by statement:
      - [marshal_uint_go]      the loop of MarshalUint (fuel 10; a destination
                               buffer is represented by its length [room] and
                               the result carries the bytes stored into
                               buf[0..], also on failure: the loop writes before
                               it discovers that the buffer is exhausted)
      - [unmarshal_uint_go]    the loop of UnmarshalUint (fuel: the remaining
                               input; [res] accumulates in 64 bits, a shift by
                               64 or more gives 0 as in Go)
      - [writable_uint_size]   the hand-unrolled if-tree of WritableUintSize
                               (the same tree is also regenerated from the
                               source on every run: coqgen/Gen_xbinary.v)
      - [put_be]/[get_be]      encoding/binary.BigEndian.PutUintNN / UintNN
      - [marshal_bytes], [unmarshal_bytes]  with the slice expression
                               buf[idx:idx+ln] as [go_slice], which fails
                               exactly when Go panics (low < 0, high < low,
                               high > cap).  A Go slice is its visible part
                               [buf] (len) plus the bytes [extra] between len
                               and cap.
      - ObjectsWriter          [ow_*]: what is handed to Writer.Write
    Decoders return [DOk n v | DErr | DPanic].

    No proofs in this file. *)
From Coq Require Import List NArith ZArith Bool.
Import ListNotations.
Open Scope N_scope.

(** * Machine integers *)

Definition two64 : N := 18446744073709551616.
Definition two63 : N := 9223372036854775808.
Definition two64Z : Z := 18446744073709551616%Z.
Definition two63Z : Z := 9223372036854775808%Z.

Definition wf_byte (b : N) : bool := b <? 256.
Definition wf_bytes (l : list N) : bool := forallb wf_byte l.

(* x << s on uint (64 bits): shift counts >= 64 give 0, bits above 63 are lost *)
Definition shl64 (x s : N) : N :=
  if 64 <=? s then 0 else (N.shiftl x s) mod two64.

(* int(u) for u : uint *)
Definition to_int64 (u : N) : Z :=
  if u <? two63 then Z.of_N u else (Z.of_N u - two64Z)%Z.

(* uint(i) for i : int *)
Definition to_uint64 (i : Z) : N := Z.to_N (i mod two64Z).

(* wrap an exact integer into the int range *)
Definition wrap64 (i : Z) : Z := to_int64 (to_uint64 i).

Definition add64 (a b : Z) : Z := wrap64 (a + b).
Definition sub64 (a b : Z) : Z := wrap64 (a - b).

(** * Results *)

(* encoders: the error/ok flag and the bytes stored at the front of buf *)
Inductive wres := WOk | WErr | WFuel.

Definition wres_eqb (a b : wres) : bool :=
  match a, b with WOk, WOk | WErr, WErr | WFuel, WFuel => true | _, _ => false end.

(* the int returned by a Marshal function *)
Definition w_n (r : wres * list N) : nat :=
  match fst r with WOk => length (snd r) | _ => O end.

(* decoders *)
Inductive dres (A : Type) :=
| DOk (n : nat) (v : A)
| DErr
| DPanic.
Arguments DOk {A} n v.
Arguments DErr {A}.
Arguments DPanic {A}.

(** * Variable-length uint *)

(* func MarshalUint(v uint, buf []byte) (int, error); room = len(buf)-idx *)
Fixpoint marshal_uint_go (fuel : nat) (v : N) (room : nat) : wres * list N :=
  match fuel with
  | O => (WFuel, [])
  | S f =>
      match room with
      | O => (WErr, [])                              (* idx == len(buf) *)
      | S r =>
          if 127 <? v then
            let '(st, bs) := marshal_uint_go f (N.shiftr v 7) r in
            (st, N.lor 128 (N.land v 127) :: bs)     (* buf[idx] = 128 | byte(v&127) *)
          else (WOk, [v])                            (* buf[idx] = byte(v); return idx+1 *)
      end
  end.

Definition marshal_uint (v : N) (room : nat) : wres * list N :=
  marshal_uint_go 10 v room.

(* the bytes MarshalUint produces when the buffer is long enough *)
Fixpoint enc_uint_go (fuel : nat) (v : N) : list N :=
  match fuel with
  | O => []
  | S f => if 127 <? v then N.lor 128 (N.land v 127) :: enc_uint_go f (N.shiftr v 7)
           else [v]
  end.

Definition enc_uint (v : N) : list N := enc_uint_go 10 v.

(* func UnmarshalUint(buf []byte) (int, uint, error); the first argument is
   buf[idx:] *)
Fixpoint unmarshal_uint_go (buf : list N) (res shft : N) (idx : nat) : dres N :=
  match buf with
  | [] => DErr                                       (* idx == len(buf) *)
  | b :: tl =>
      let res' := N.lor res (shl64 (N.land b 127) shft) in
      if b <=? 127 then DOk (S idx) res'
      else unmarshal_uint_go tl res' (shft + 7) (S idx)
  end.

Definition unmarshal_uint (buf : list N) : dres N := unmarshal_uint_go buf 0 0 O.

(* const bit7 ... bit63 and func WritableUintSize(v uint64) int *)
Definition bit7  : N := N.shiftl 1 7.
Definition bit14 : N := N.shiftl 1 14.
Definition bit21 : N := N.shiftl 1 21.
Definition bit28 : N := N.shiftl 1 28.
Definition bit35 : N := N.shiftl 1 35.
Definition bit42 : N := N.shiftl 1 42.
Definition bit49 : N := N.shiftl 1 49.
Definition bit56 : N := N.shiftl 1 56.
Definition bit63 : N := N.shiftl 1 63.

Definition writable_uint_size (v : N) : nat :=
  if bit35 <=? v then
    if bit49 <=? v then
      if bit63 <=? v then 10%nat
      else if bit56 <=? v then 9%nat
      else 8%nat
    else if bit42 <=? v then 7%nat
    else 6%nat
  else if bit21 <=? v then
    if bit28 <=? v then 5%nat else 4%nat
  else if bit14 <=? v then 3%nat
  else if bit7 <=? v then 2%nat
  else 1%nat.

(** * Fixed width: byte, uint16/32/64 big endian *)

(* func MarshalByte(v byte, buf []byte) / UnmarshalByte *)
Definition marshal_byte (v : N) (room : nat) : wres * list N :=
  if (room <? 1)%nat then (WErr, []) else (WOk, [v]).

Definition unmarshal_byte (buf : list N) : dres N :=
  match buf with
  | [] => DErr
  | b :: _ => DOk 1 b
  end.

(* binary.BigEndian.PutUintNN: b[i] = byte(v >> (8*(k-1-i))) *)
Fixpoint put_be (k : nat) (v : N) : list N :=
  match k with
  | O => []
  | S k' => (N.shiftr v (8 * N.of_nat k')) mod 256 :: put_be k' v
  end.

(* binary.BigEndian.UintNN: uintNN(b[k-1]) | uintNN(b[k-2])<<8 | ... *)
Fixpoint get_be (l : list N) : N :=
  match l with
  | [] => 0
  | b :: t => N.lor (N.shiftl b (8 * N.of_nat (length t))) (get_be t)
  end.

(* MarshalUint16/32/64 with k = 2/4/8 *)
Definition marshal_fixed (k : nat) (v : N) (room : nat) : wres * list N :=
  if (room <? k)%nat then (WErr, []) else (WOk, put_be k v).

(* UnmarshalUint16/32/64 *)
Definition unmarshal_fixed (k : nat) (buf : list N) : dres N :=
  if (length buf <? k)%nat then DErr else DOk k (get_be (firstn k buf)).

(** * Byte strings *)

(* s[lo:hi] on a slice whose backing array (up to cap) holds [arr] *)
Definition go_slice (lo hi : Z) (arr : list N) : option (list N) :=
  if ((lo <? 0) || (hi <? lo) || (Z.of_nat (length arr) <? hi))%Z then None
  else Some (firstn (Z.to_nat (hi - lo)) (skipn (Z.to_nat lo) arr)).

(* func MarshalBytes(v []byte, buf []byte) (int, error) *)
Definition marshal_bytes (v : list N) (room : nat) : wres * list N :=
  let ln := length v in
  match marshal_uint (N.of_nat ln) room with
  | (WOk, hdr) =>
      let idx := length hdr in
      if (room - idx <? ln)%nat then (WErr, hdr)     (* len(buf[idx:]) < ln *)
      else (WOk, hdr ++ v)                           (* copy(buf[:ln], v) *)
  | (st, hdr) => (st, hdr)
  end.

(* func WritebleBytesSize(buf []byte) int *)
Definition writable_bytes_size (v : list N) : nat :=
  (writable_uint_size (N.of_nat (length v)) + length v)%nat.

(* the value returned by UnmarshalBytes/UnmarshalString: the bytes, and whether
   they are the sub-slice buf[v_off : v_off+len] of the input (newBuf=false) or
   a fresh copy made by container.SliceCopy (newBuf=true) *)
Record bview := mkView { v_off : nat; v_data : list N; v_alias : bool }.

(* func UnmarshalBytes(buf []byte, newBuf bool) (int, []byte, error) *)
Definition unmarshal_bytes (buf extra : list N) (newBuf : bool) : dres bview :=
  match unmarshal_uint buf with
  | DOk idx uln =>
      let remaining := sub64 (Z.of_nat (length buf)) (Z.of_nat idx) in   (* len(buf)-idx *)
      if to_uint64 remaining <? uln then DErr                            (* uln > uint(...) *)
      else
        let ln := to_int64 uln in                                        (* ln := int(uln) *)
        let hi := add64 (Z.of_nat idx) ln in                             (* idx+ln *)
        match go_slice (Z.of_nat idx) hi (buf ++ extra) with             (* buf[idx:idx+ln] *)
        | None => DPanic
        | Some s => DOk (Z.to_nat hi) (mkView idx s (negb newBuf))
        end
  | DErr => DErr
  | DPanic => DPanic
  end.

(* MarshalString / UnmarshalString / WritableStringSize: the unsafe casts of
   cast/bytes_string.go are the identity on the bytes *)
Definition marshal_string := marshal_bytes.
Definition unmarshal_string := unmarshal_bytes.
Definition writable_string_size := writable_bytes_size.

(** * ObjectsWriter: the bytes handed to Writer.Write *)

Definition ow_byte (v : N) : list N := [v].
Definition ow_fixed (k : nat) (v : N) : list N := put_be k v.
(* sz, _ := MarshalUint(v, ow.buf[:]) ; Write(ow.buf[:sz]) with a 10-byte buf *)
Definition ow_uint (v : N) : list N :=
  let r := marshal_uint v 10 in firstn (w_n r) (snd r).
Definition ow_bytes (v : list N) : list N := ow_uint (N.of_nat (length v)) ++ v.

(** * Streams of items *)

Inductive kind := KByte | KU16 | KU32 | KU64 | KUint | KBytes | KString.

Inductive item :=
| IByte (v : N) | IU16 (v : N) | IU32 (v : N) | IU64 (v : N) | IUint (v : N)
| IBytes (l : list N) | IString (l : list N).

Definition kind_of (i : item) : kind :=
  match i with
  | IByte _ => KByte | IU16 _ => KU16 | IU32 _ => KU32 | IU64 _ => KU64
  | IUint _ => KUint | IBytes _ => KBytes | IString _ => KString
  end.

(* values that fit the Go type of the item *)
Definition item_wf (i : item) : bool :=
  match i with
  | IByte v => v <? 256
  | IU16 v => v <? 65536
  | IU32 v => v <? 4294967296
  | IU64 v | IUint v => v <? two64
  | IBytes l | IString l => N.of_nat (length l) <? two63
  end.

(* Marshal<kind>(v, buf) for a buffer of length room *)
Definition marshal_item (i : item) (room : nat) : wres * list N :=
  match i with
  | IByte v => marshal_byte v room
  | IU16 v => marshal_fixed 2 v room
  | IU32 v => marshal_fixed 4 v room
  | IU64 v => marshal_fixed 8 v room
  | IUint v => marshal_uint v room
  | IBytes l => marshal_bytes l room
  | IString l => marshal_string l room
  end.

(* ObjectsWriter.Write<kind>(v) *)
Definition encode_item (i : item) : list N :=
  match i with
  | IByte v => ow_byte v
  | IU16 v => ow_fixed 2 v
  | IU32 v => ow_fixed 4 v
  | IU64 v => ow_fixed 8 v
  | IUint v => ow_uint v
  | IBytes l | IString l => ow_bytes l
  end.

Definition dmap {A B} (f : A -> B) (r : dres A) : dres B :=
  match r with DOk n v => DOk n (f v) | DErr => DErr | DPanic => DPanic end.

(* Unmarshal<kind>(buf) *)
Definition decode_item (k : kind) (buf extra : list N) : dres item :=
  match k with
  | KByte => dmap IByte (unmarshal_byte buf)
  | KU16 => dmap IU16 (unmarshal_fixed 2 buf)
  | KU32 => dmap IU32 (unmarshal_fixed 4 buf)
  | KU64 => dmap IU64 (unmarshal_fixed 8 buf)
  | KUint => dmap IUint (unmarshal_uint buf)
  | KBytes => dmap (fun v => IBytes (v_data v)) (unmarshal_bytes buf extra false)
  | KString => dmap (fun v => IString (v_data v)) (unmarshal_string buf extra false)
  end.

(* the usual reading loop: decode one item, continue with buf[n:] *)
Fixpoint decode_items (ks : list kind) (buf extra : list N) : option (list item * list N) :=
  match ks with
  | [] => Some ([], buf)
  | k :: ks' =>
      match decode_item k buf extra with
      | DOk n i =>
          match decode_items ks' (skipn n buf) extra with
          | Some (is, rest) => Some (i :: is, rest)
          | None => None
          end
      | _ => None
      end
  end.

(* the Marshal functions called one after the other on one buffer of [room]
   bytes (buf = buf[n:] after every call); None when one of them fails *)
Fixpoint marshal_items (items : list item) (room : nat) : option (list N) :=
  match items with
  | [] => Some []
  | i :: t =>
      match marshal_item i room with
      | (WOk, bs) =>
          match marshal_items t (room - length bs) with
          | Some r => Some (bs ++ r)
          | None => None
          end
      | _ => None
      end
  end.
