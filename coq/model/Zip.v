(** Executable model of the zip helpers of files/files.go:
    [ZipFolder], [UnzipToFolder], [EnsureDirExists], [ensureDirName], together
    with the lexical path functions of path/filepath they are built on
    ([Clean], [Join], [Rel], [Split]; Unix flavour) and a small file system.

    Representation.  A path *string* is modelled by its '/'-split: the
    non-empty list of its segments ([rpath]); a segment is a list of bytes that
    contains no '/'.  ["" <-> [[]]], ["/" <-> [[];[]]], ["a/" <-> [a;[]]],
    ["/a/b" <-> [[];a;b]].  This is a bijection between strings and non-empty
    lists of slash-free segments, so string equality is list equality and
    string concatenation [a + "/" + b] is list concatenation [a ++ b]
    (["/" + s] is [[] :: s]).  [render] gives the bytes of a string (used by
    byte-level predicates such as strings.HasSuffix in filters).

    The file system is a finite map from *resolved* absolute paths (the list of
    segments after the root, no "", ".", "..") to [Dir] or [File content];
    contents are opaque ids.  Kernel path resolution is modelled by lexical
    cleaning (no symbolic links; see notes/C20.md).

    No proofs in this file. *)
From Coq Require Import List NArith Bool Arith.
Import ListNotations.

Definition seg := list N.
Definition rpath := list seg.

Definition slash : N := 47%N.
Definition s_empty : seg := [].
Definition s_dot : seg := [46%N].
Definition s_dotdot : seg := [46%N; 46%N].

Fixpoint seg_eqb (a b : seg) : bool :=
  match a, b with
  | [], [] => true
  | x :: a', y :: b' => N.eqb x y && seg_eqb a' b'
  | _, _ => false
  end.

Fixpoint path_eqb (a b : list seg) : bool :=
  match a, b with
  | [], [] => true
  | x :: a', y :: b' => seg_eqb x y && path_eqb a' b'
  | _, _ => false
  end.

(* the segment is an ordinary name: not "", "." or ".." *)
Definition seg_normal (s : seg) : bool :=
  negb (seg_eqb s s_empty || seg_eqb s s_dot || seg_eqb s s_dotdot).

(* the string is "" *)
Definition is_empty_str (p : rpath) : bool :=
  match p with
  | [] => true
  | [s] => seg_eqb s s_empty
  | _ => false
  end.

(* the string starts with '/' *)
Definition is_rooted (p : rpath) : bool :=
  match p with
  | s :: _ :: _ => seg_eqb s s_empty
  | _ => false
  end.

(** * filepath.Clean

    Result of [Clean] in structured form: [c_rooted] (leading '/'), [c_up]
    (number of leading ".." elements, only when not rooted) and the remaining
    ordinary elements.  The Go loop keeps an output buffer with a write index
    [w] and a mark [dotdot] below which ".." may not backtrack; here the buffer
    above the mark is the stack [c_segs] and the part below it is [c_up]. *)
Record cpath := mkC { c_rooted : bool; c_up : nat; c_segs : list seg }.

(* one iteration of the loop of Clean on the next path element *)
Definition cstep (rooted : bool) (st : nat * list seg) (s : seg) : nat * list seg :=
  if seg_eqb s s_empty || seg_eqb s s_dot then st            (* empty element, "." *)
  else if seg_eqb s s_dotdot then
    match snd st with
    | [] => if rooted then st else (S (fst st), [])           (* cannot backtrack *)
    | _ :: _ => (fst st, removelast (snd st))                 (* backtrack *)
    end
  else (fst st, snd st ++ [s]).                               (* real element *)

Definition clean (p : rpath) : cpath :=
  let r := is_rooted p in
  let st := fold_left (cstep r) p (0, []) in
  mkC r (fst st) (snd st).

(* the string Clean returns, '/'-split *)
Definition craw (c : cpath) : rpath :=
  if c_rooted c then
    match c_segs c with
    | [] => [s_empty; s_empty]                                (* "/" *)
    | l => s_empty :: l
    end
  else
    match repeat s_dotdot (c_up c) ++ c_segs c with
    | [] => [s_dot]                                           (* "." *)
    | l => l
    end.

Definition clean_str (p : rpath) : rpath := craw (clean p).

(** * filepath.Join (two elements) *)
Definition join (a b : rpath) : rpath :=
  if is_empty_str a then (if is_empty_str b then [s_empty] else clean_str b)
  else clean_str (a ++ b).

(** * filepath.Split: the directory part (up to and including the last '/') *)
Definition split_dir (p : rpath) : rpath := removelast p ++ [s_empty].

(** * filepath.Rel

    Elements the comparison loop of [Rel] sees in the cleaned base / target:
    a rooted path starts with an empty element; base "." is the empty string
    (no element) but target "." stays the element ".". *)
Definition elems_targ (c : cpath) : list seg :=
  if c_rooted c then s_empty :: c_segs c
  else match repeat s_dotdot (c_up c) ++ c_segs c with
       | [] => [s_dot]
       | l => l
       end.

Definition elems_base (c : cpath) : list seg :=
  if c_rooted c then s_empty :: c_segs c
  else repeat s_dotdot (c_up c) ++ c_segs c.

(* advance over the common leading elements *)
Fixpoint strip_common (b t : list seg) : list seg * list seg :=
  match b, t with
  | x :: b', y :: t' => if seg_eqb x y then strip_common b' t' else (b, t)
  | _, _ => (b, t)
  end.

(* None = the error "Rel: can't make ... relative to ..." *)
Definition rel (base targ : rpath) : option rpath :=
  let cb := clean base in
  let ct := clean targ in
  if path_eqb (craw cb) (craw ct) then Some [s_dot]
  else if negb (Bool.eqb (c_rooted cb) (c_rooted ct)) then None
  else
    let bt := strip_common (elems_base cb) (elems_targ ct) in
    match fst bt with
    | [] => Some (match snd bt with [] => [s_empty] | l => l end)
    | x :: _ =>
        if seg_eqb x s_dotdot then None
        else Some (repeat s_dotdot (length (fst bt)) ++ snd bt)
    end.

(* rel == ".." || strings.HasPrefix(rel, "../") *)
Definition rel_escapes (r : rpath) : bool :=
  match r with
  | x :: _ => seg_eqb x s_dotdot
  | [] => false
  end.

(** * Bytes of a path string (for byte-offset slicing) *)
Fixpoint render (p : rpath) : list N :=
  match p with
  | [] => []
  | [s] => s
  | s :: p' => s ++ slash :: render p'
  end.

(** * files.ensureDirName: drop one trailing '/' *)
Definition ensure_dir_name (p : rpath) : rpath :=
  match p with
  | _ :: _ :: _ => if seg_eqb (last p s_dot) s_empty then removelast p else p
  | _ => p
  end.

(** * The source tree and ZipFolder

    A tree is the list of its regular files: path relative to the source
    directory (list of names) and content id.  [filepath.Walk] visits the root
    as given and every child as [Join(parent, name)], children of a directory
    in byte-wise name order, a sub-directory completely before the next name:
    the files in lexicographic order of their name lists. *)
Definition tree := list (list seg * N).

Fixpoint seg_leb (a b : seg) : bool :=
  match a, b with
  | [], _ => true
  | _ :: _, [] => false
  | x :: a', y :: b' => if N.ltb x y then true else if N.eqb x y then seg_leb a' b' else false
  end.

Fixpoint names_leb (a b : list seg) : bool :=
  match a, b with
  | [], _ => true
  | _ :: _, [] => false
  | x :: a', y :: b' => if seg_eqb x y then names_leb a' b' else seg_leb x y
  end.

Fixpoint walk_insert (f : list seg * N) (l : tree) : tree :=
  match l with
  | [] => [f]
  | g :: l' => if names_leb (fst f) (fst g) then f :: l else g :: walk_insert f l'
  end.

Fixpoint walk_sort (t : tree) : tree :=
  match t with
  | [] => []
  | f :: t' => walk_insert f (walk_sort t')
  end.

(* the path string the walk callback receives for the file [names] *)
Definition walk_path (src : rpath) (names : list seg) : rpath :=
  fold_left (fun p s => clean_str (p ++ [s])) names src.

Record entry := mkE { e_name : rpath; e_dirattr : bool; e_data : N }.

Inductive zres := ZOk (es : list entry) | ZErr | ZPanic.

Inductive zsel := SelSkip | SelErr | SelPanic | SelEntry (e : entry).

(* filepath.Dir: Clean of the part up to and including the last '/' *)
Definition dir_of (p : rpath) : rpath := clean_str (split_dir p).

(* body of the walk callback for one regular file; [src] is srcDir after
   ensureDirName.  (As of commit de6fafe in /repo: entry name and sub-folder
   test through filepath.Rel; the earlier byte slicing is in
   model/legacy/ZipLegacy.v.) *)
Definition zip_select (src : rpath) (filt : option (rpath -> bool)) (recursive : bool)
           (f : list seg * N) : zsel :=
  let path := walk_path src (fst f) in
  if match filt with Some t => negb (t path) | None => false end then SelSkip
  else
    match rel src path with
    | None => SelErr                                           (* the callback returns the error *)
    | Some r =>
        if negb recursive && negb (path_eqb (dir_of r) [s_dot]) then SelSkip
        else SelEntry (mkE (s_empty :: r) false (snd f))       (* "/" + rel *)
    end.

(* the walk stops at the first error / panic *)
Fixpoint zip_collect (l : list zsel) : zres :=
  match l with
  | [] => ZOk []
  | SelSkip :: l' => zip_collect l'
  | SelErr :: _ => ZErr
  | SelPanic :: _ => ZPanic
  | SelEntry e :: l' =>
      match zip_collect l' with
      | ZOk es => ZOk (e :: es)
      | r => r
      end
  end.

Definition zip_folder (src : rpath) (filt : option (rpath -> bool)) (recursive : bool)
           (t : tree) : zres :=
  let src' := ensure_dir_name src in
  if is_empty_str src' then ZErr                               (* Walk("") : lstat fails *)
  else zip_collect (map (zip_select src' filt recursive) (walk_sort t)).

(** * File system *)
Inductive node := Dir | File (c : N).
Definition fsys := list (list seg * node).

Fixpoint fs_get (fs : fsys) (p : list seg) : option node :=
  match fs with
  | [] => None
  | (k, v) :: r => if path_eqb k p then Some v else fs_get r p
  end.

Definition fs_set (fs : fsys) (p : list seg) (n : node) : fsys := (p, n) :: fs.

(* how the kernel resolves a path string (no symbolic links): the cleaned
   element list below "/"; a relative string is resolved against "/" *)
Definition resolve (p : rpath) : list seg := c_segs (clean p).

(* EnsureDirExists on the resolved path [pre ++ rest], [pre] known to be a
   directory: os.Open succeeds when the path exists (directory or file);
   ENOTDIR on a file in the middle is an error; ENOENT makes MkdirAll create
   the missing directories.  [md]: the path string ends in '/', "." or "..",
   so the kernel insists on a directory (ENOTDIR on a file).
   None = error, nothing changed. *)
Fixpoint ensure_dir_from (md : bool) (fs : fsys) (pre rest : list seg) : option fsys :=
  match rest with
  | [] => Some fs
  | s :: rest' =>
      let p := pre ++ [s] in
      match fs_get fs p with
      | Some Dir => ensure_dir_from md fs p rest'
      | Some (File _) => match rest' with [] => if md then None else Some fs | _ => None end
      | None => ensure_dir_from md (fs_set fs p Dir) p rest'
      end
  end.

Definition must_be_dir (p : rpath) : bool := negb (seg_normal (last p s_empty)).

Definition ensure_dir (fs : fsys) (p : rpath) : option fsys :=
  ensure_dir_from (must_be_dir p) fs [] (resolve p).

(* every path pre++[x1], pre++[x1;x2], ... is a directory *)
Fixpoint all_dirs (fs : fsys) (pre rest : list seg) : bool :=
  match rest with
  | [] => true
  | s :: rest' =>
      match fs_get fs (pre ++ [s]) with
      | Some Dir => all_dirs fs (pre ++ [s]) rest'
      | _ => false
      end
  end.

(* os.Create + io.Copy + Close: the parent must be a directory chain, the
   path itself must not be a directory; an existing file is truncated *)
Definition create_file (fs : fsys) (p : rpath) (c : N) : option fsys :=
  let t := resolve p in
  match t with
  | [] => None
  | _ :: _ =>
      if all_dirs fs [] (removelast t) then
        match fs_get fs t with
        | Some Dir => None
        | _ => Some (fs_set fs t (File c))
        end
      else None
  end.

(** * UnzipToFolder *)
Inductive ures := UOk | URejected | UOsErr.

(* zip.File.FileInfo().IsDir(): directory bit of the external attributes, or
   a non-empty name ending in '/' *)
Definition is_dir_entry (e : entry) : bool :=
  e_dirattr e ||
  match e_name e with
  | _ :: _ :: _ => seg_eqb (last (e_name e) s_dot) s_empty
  | _ => false
  end.

Definition ustate := (fsys * list rpath)%type.   (* file system, pathChecked *)

Definition unzip_entry (dest : rpath) (st : ustate) (e : entry) : ustate * ures :=
  if is_dir_entry e then (st, UOk)
  else
    let destFile := join dest (e_name e) in
    match rel dest destFile with
    | None => (st, URejected)
    | Some r =>
        if rel_escapes r then (st, URejected)
        else
          let destPath := join dest (split_dir (e_name e)) in
          let mk :=
            if existsb (path_eqb destPath) (snd st) then Some st
            else match ensure_dir (fst st) destPath with
                 | Some fs' => Some (fs', destPath :: snd st)
                 | None => None
                 end in
          match mk with
          | None => (st, UOsErr)
          | Some st1 =>
              match create_file (fst st1) destFile (e_data e) with
              | Some fs2 => ((fs2, snd st1), UOk)
              | None => (st1, UOsErr)
              end
          end
    end.

Fixpoint unzip_loop (dest : rpath) (st : ustate) (es : list entry) : ustate * ures :=
  match es with
  | [] => (st, UOk)
  | e :: es' =>
      let r := unzip_entry dest st e in
      match snd r with
      | UOk => unzip_loop dest (fst r) es'
      | _ => r
      end
  end.

Definition unzip (dest : rpath) (ar : list entry) (fs : fsys) : fsys * ures :=
  match ensure_dir fs dest with
  | None => (fs, UOsErr)
  | Some fs1 =>
      let r := unzip_loop dest (fs1, []) ar in
      (fst (fst r), snd r)
  end.

(** * Vocabulary of the theorems *)

(* [p] lies inside (or is) the directory [d]: resolved paths, element-wise prefix *)
Fixpoint is_prefix (d p : list seg) : bool :=
  match d, p with
  | [], _ => true
  | x :: d', y :: p' => seg_eqb x y && is_prefix d' p'
  | _ :: _, [] => false
  end.

Definition inside (d p : list seg) : Prop := exists q, p = d ++ q.
Definition strict_prefix (p d : list seg) : Prop := exists q, q <> [] /\ d = p ++ q.
