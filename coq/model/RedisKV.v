(** Executable model of kvs/redis/redis.go (the Redis kvs.Storage client), as
    the code is written now (after fixes 100dccd, b59c3d7, 3538561, 5042a3c).

    Every method is the sequence of server commands it issues, written as a
    resumption [prog]: [Cmd c k] sends the command [c now] (the TTL inside is
    computed by [expiration] from the client's clock [now]) and continues with
    [k reply]; [NewID k] is ulidutils.NewID() (a shared counter).  The same
    programs are run sequentially here ([rk_step]: all commands of one method
    back to back) and interleaved command by command in the concurrent model of
    C02.  Loops (Create's retry, CasByVersion's retry on an aborted EXEC) are on
    explicit fuel; [OFuel] is the out-of-fuel result the theorems exclude.

    rKey/key (prefix "/kvs/", leading slashes stripped) and the record<->payload
    codec are in the model.  No proofs in this file. *)
From Coq Require Import List ZArith NArith Arith Bool.
From GL Require Import spec.KV model.RedisSrv.
Import ListNotations.

Inductive prog :=
| Ret (o : out)
| NewID (k : nat -> prog)
| Cmd (c : Z -> cmd) (k : reply -> prog).

(* func expiration(eat *time.Time, curT time.Time) time.Duration: 0 (= no TTL) without ExpiresAt,
   otherwise ExpiresAt-now but at least one millisecond *)
Definition expiration (e : option Z) (now : Z) : option Z :=
  match e with
  | None => None
  | Some t => Some (Z.max (t - now) 1000000)
  end.

Definition kvs_prefix : list N := [47; 107; 118; 115; 47]%N.   (* "/kvs/" *)

Fixpoint strip_slashes (k : list N) : list N :=
  match k with
  | 47%N :: t => strip_slashes t
  | _ => k
  end.

(* func rKey(key string) string *)
Definition rKey (k : key) : skey := kvs_prefix ++ strip_slashes k.

(* func key(rKey string) string: rKey[5:] if len(rKey) > 5, "" otherwise *)
Definition unKey (k : skey) : key := skipn 5 k.

(* db2rec + r.Key = key *)
Definition pl_orec (k : key) (p : payload) : orec := (k, p_val p, p_ver p, p_exp p).

(* Get: GET rKey(key); redis.Nil -> ErrNotExist *)
Definition get_prog (k : key) (ret : option orec -> prog) : prog :=
  Cmd (fun _ => GETC (rKey k)) (fun r =>
    match r with
    | RVal (Some p) => ret (Some (pl_orec k p))
    | _ => ret None
    end).

Definition rk_get (k : key) : prog :=
  get_prog k (fun r => match r with Some x => Ret (ORec x) | None => Ret ONotExist end).

(* Create: Version = NewID(); for { SETNX; ok -> version; else Get: found -> (its version, ErrExist);
   ErrNotExist -> again } *)
Fixpoint create_loop (fuel : nat) (k : key) (pl : payload) (e : option Z) : prog :=
  match fuel with
  | O => Ret OFuel
  | S f =>
      Cmd (fun now => SETNX (rKey k) pl (expiration e now)) (fun r =>
        match r with
        | RBool true => Ret (OVer (p_ver pl))
        | _ => get_prog k (fun g =>
                 match g with
                 | Some (_, _, v, _) => Ret (OExist v)
                 | None => create_loop f k pl e
                 end)
        end)
  end.

Definition rk_create (fuel : nat) (k : key) (v : value) (e : option Z) : prog :=
  NewID (fun n => create_loop fuel k (mkPl k v n e) e).

(* Put: Version = NewID(); SET rKey(key) buf expiration *)
Definition put_prog (k : key) (v : value) (e : option Z) (ret : orec -> prog) : prog :=
  NewID (fun n =>
    Cmd (fun now => SETC (rKey k) (mkPl k v n e) (expiration e now)) (fun _ => ret (k, v, n, e))).

Definition rk_put (k : key) (v : value) (e : option Z) : prog := put_prog k v e (fun r => Ret (ORec r)).

(* PutMany, first loop: build the MSET arguments, giving every record a new version;
   stop (mset = nil) at the first record that has an expiration *)
Fixpoint mset_args (rs : list (key * value * option Z)) (acc : list (skey * payload))
                   (ret : option (list (skey * payload)) -> prog) : prog :=
  match rs with
  | [] => ret (Some (rev acc))
  | (k, v, e) :: t =>
      match e with
      | Some _ => ret None
      | None => NewID (fun n => mset_args t ((rKey k, mkPl k v n None) :: acc) ret)
      end
  end.

(* PutMany, second loop: one Put per record *)
Fixpoint puts_prog (rs : list (key * value * option Z)) : prog :=
  match rs with
  | [] => Ret OOk
  | (k, v, e) :: t => put_prog k v e (fun _ => puts_prog t)
  end.

Definition rk_putmany (rs : list (key * value * option Z)) : prog :=
  mset_args rs [] (fun a =>
    match a with
    | Some (x :: l) => Cmd (fun _ => MSET (x :: l)) (fun _ => Ret OOk)   (* len(mset) > 0 *)
    | _ => puts_prog rs
    end).

(* GetMany: MGET rKeys(keys); nil entries are skipped; r.Key = keys[idx] *)
Fixpoint zip_recs (ks : list key) (vs : list (option payload)) : list (option orec) :=
  match ks, vs with
  | k :: kt, v :: vt => option_map (pl_orec k) v :: zip_recs kt vt
  | k :: kt, [] => None :: zip_recs kt []
  | [], _ => []
  end.

Definition mget_prog (ks : list key) : prog :=
  Cmd (fun _ => MGET (map rKey ks)) (fun r =>
    match r with
    | RVals vs => Ret (ORecs (zip_recs ks vs))
    | _ => Ret OOther           (* checkErr passes any other error through *)
    end).

(* if len(keys) == 0 { return []*kvs.Record{}, nil }   (fix 5042a3c: MGET needs at least one key) *)
Definition rk_getmany (ks : list key) : prog :=
  match ks with
  | [] => Ret (ORecs [])
  | _ => mget_prog ks
  end.

(* CasByVersion: for { WATCH key; GET key: nil -> ErrNotExist; version differs -> ErrConflict;
   Version = NewID(); MULTI SET EXEC; aborted -> again }; the connection is un-watched when
   rdb.Watch returns *)
Fixpoint cas_loop (fuel : nat) (k : key) (v : value) (e : option Z) (expected : nat) : prog :=
  match fuel with
  | O => Ret OFuel
  | S f =>
      Cmd (fun _ => WATCH (rKey k)) (fun _ =>
      Cmd (fun _ => GETC (rKey k)) (fun r =>
        match r with
        | RVal (Some p) =>
            if Nat.eqb (p_ver p) expected then
              NewID (fun n =>
              Cmd (fun now => EXEC_SET (rKey k) (mkPl k v n e) (expiration e now)) (fun x =>
              Cmd (fun _ => UNWATCH) (fun _ =>
                match x with
                | RTxFailed => cas_loop f k v e expected
                | _ => Ret (ORec (k, v, n, e))
                end)))
            else Cmd (fun _ => UNWATCH) (fun _ => Ret OConflict)
        | _ => Cmd (fun _ => UNWATCH) (fun _ => Ret ONotExist)
        end))
  end.

(* Delete: DEL rKey(key); 0 -> ErrNotExist *)
Definition rk_delete (k : key) : prog :=
  Cmd (fun _ => DEL (rKey k)) (fun r =>
    match r with
    | RInt O => Ret ONotExist
    | _ => Ret OOk
    end).

(* ListKeys: SCAN 0 MATCH rKey(pattern) COUNT 1000, every returned key through key() *)
Definition rk_listkeys (pat : list N) : prog :=
  Cmd (fun _ => SCAN (rKey pat)) (fun r =>
    match r with
    | RKeys ks => Ret (OKeys (map unKey ks))
    | _ => Ret (OKeys [])
    end).

Definition retry_fuel : nat := 8.

Definition rk_prog (o : op) : prog :=
  match o with
  | Create k v e => rk_create retry_fuel k v e
  | Get k => rk_get k
  | GetMany ks => rk_getmany ks
  | Put k v e => rk_put k v e
  | PutMany rs => rk_putmany rs
  | CasByVersion k v e expected => cas_loop retry_fuel k v e expected
  | Delete k => rk_delete k
  | ListKeys pat => rk_listkeys pat
  end.

(** ** Sequential execution: the whole method at client time [now], server time [clk] *)

Record rstate := mkR { r_srv : srv; r_nxt : nat }.

Definition rk_new : rstate := mkR srv_init 1.

Fixpoint run_prog (now clk : Z) (c : nat) (p : prog) (s : rstate) : rstate * out :=
  match p with
  | Ret o => (s, o)
  | NewID k => run_prog now clk c (k (r_nxt s)) (mkR (r_srv s) (S (r_nxt s)))
  | Cmd x k =>
      let '(sv, r) := srv_cmd clk c (x now) (r_srv s) in
      run_prog now clk c (k r) (mkR sv (r_nxt s))
  end.

Definition rk_step (s : rstate) (now clk : Z) (o : op) : rstate * out :=
  run_prog now clk 0 (rk_prog o) s.

(* client clock, server clock, operation *)
Fixpoint rk_run (s : rstate) (ops : list (Z * Z * op)) : list out * rstate :=
  match ops with
  | [] => ([], s)
  | (now, clk, o) :: t =>
      let '(s', x) := rk_step s now clk o in
      let '(xs, sf) := rk_run s' t in (x :: xs, sf)
  end.

(* synchronised clocks (one real clock shared by client and server) *)
Definition rk_run_sync (s : rstate) (ops : list (Z * op)) : list out * rstate :=
  rk_run s (map (fun no => (fst no, fst no, snd no)) ops).

(* WaitForVersionChange, one poll: Get; ErrNotExist -> return it; version differs -> nil; else sleep *)
Definition rk_wait_poll (k : key) (v : nat) (ret : option out -> prog) : prog :=
  get_prog k (fun g =>
    match g with
    | None => ret (Some ONotExist)
    | Some (_, _, v', _) => if Nat.eqb v' v then ret None else ret (Some OOk)
    end).
