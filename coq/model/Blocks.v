(** Executable model of container/bytes/blocks.go (type [Blocks]) over a byte
    storage (container/bytes/inmem.go, files/mmfile.go: interface [Buffer]).

    The model follows the Go algorithm:
    - the storage is a size plus a sparse map offset -> byte (absent = 0); the
      only operations are the ones [Buffer(offs,size)] allows: a bounds-checked,
      possibly truncated window, then reads/writes of single bytes inside it;
    - geometry: [blkSize], [blksInSegm] (= 8*blkSize, header excluded),
      [segments]; a segment is one header block of [blkSize] bytes (a bitmap:
      bit j of header byte p stands for block p*8+j of the segment) followed by
      [blksInSegm] data blocks;
    - [freeIdx] is the absolute offset of the header byte where the next scan
      starts, maintained exactly as ArrangeBlock/FreeBlock do (advanced over
      bytes found full, lowered on free); [available] is the counter;
    - the page size (os.Getpagesize()) is a parameter.
    Machine integers are unbounded [Z] (int/int64/int32 overflow is not
    modelled).  Go's [/] and [%] truncate towards zero: [Z.quot]/[Z.rem].
    Loops are recursion on explicit fuel; [OutOfFuel] and [OutPanic] (index out
    of range, division by zero) are model outcomes the theorems exclude.

    No proofs in this file. *)
From Coq Require Import List ZArith NArith Bool FMapPositive.
Import ListNotations.
Open Scope Z_scope.

(** * The byte storage *)

Record buffer := mkBuf { bsize : Z; cells : PositiveMap.t N }.

(* offsets as map keys (an injection Z -> positive) *)
Definition key (off : Z) : positive :=
  match off with
  | Z0 => xH
  | Zpos p => xO p
  | Zneg p => xI p
  end.

(* buf[off]; a cell holds a byte: whatever is stored is read modulo 256 *)
Definition bget (b : buffer) (off : Z) : N :=
  match PositiveMap.find (key off) (cells b) with
  | Some v => N.land v 255
  | None => 0%N
  end.

(* buf[off] = v *)
Definition bset (b : buffer) (off : Z) (v : N) : buffer :=
  mkBuf (bsize b) (PositiveMap.add (key off) v (cells b)).

Definition zero_buffer (size : Z) : buffer := mkBuf size (PositiveMap.empty N).

(* func (ib *inmemBtsBuf) Buffer(offs int64, size int) / (mmf *MMFile) Buffer:
   None = ErrInvalid (offs out of bounds); otherwise the window (offset, length),
   cut at the end of the storage *)
Definition buf_slice (b : buffer) (offs size : Z) : option (Z * Z) :=
  if (offs <? 0) || (bsize b <=? offs) then None
  else Some (offs, if bsize b <? offs + size then bsize b - offs else size).

(* for k := range w { w[k] = v } on the window starting at off, n bytes *)
Fixpoint fill (n : nat) (b : buffer) (off : Z) (v : N) : buffer :=
  match n with
  | O => b
  | S n' => fill n' (bset b off v) (off + 1) v
  end.

(* bts.Grow(newSize), container/bytes/inmem.go: nb := make([]byte, newSize);
   copy(nb, *ib) - the old bytes, zeros behind them (files/mmfile.go: the file is
   extended with zeros and mapped again).  A cell of the sparse map outside
   [0, old size) is not a byte of the old storage: it reads 0 afterwards. *)
Definition unkey (k : positive) : Z :=
  match k with
  | xH => 0
  | xO p => Zpos p
  | xI p => Zneg p
  end.

Definition grow_buf (b : buffer) (n : Z) : buffer :=
  mkBuf n (PositiveMap.mapi
             (fun k v => if (0 <=? unkey k) && (unkey k <? bsize b) then v else 0%N) (cells b)).

(** * Errors and results *)

Inductive err := EInvalid | ENotExist | EExhausted | EClosed | EOther.

Record blocks := mkBlocks {
  blkSize : Z;      (* size of one block *)
  blksInSegm : Z;   (* data blocks per segment (header excluded) *)
  segments : Z;
  freeIdx : Z;      (* absolute offset of the header byte where the scan starts *)
  available : Z;
  bts : buffer
}.

Inductive ctor_res := CtorOk (b : blocks) | CtorErr (e : err) | CtorPanic.

Definition segm_size (b : blocks) : Z := (blksInSegm b + 1) * blkSize b.

(** * Geometry validation *)

(* func GetBlocksInSegment(blkSize int) int *)
Definition get_blocks_in_segment (page blkSz : Z) : Z :=
  if blkSz <=? 0 then -1
  else if blkSz <? page then
    (if Z.land blkSz (blkSz - 1) =? 0 then blkSz * 8 + 1 else -1)
  else if Z.rem blkSz page =? 0 then blkSz * 8 + 1 else -1.

(** * Bits of a header byte *)

Definition bit_mask (j : N) : N := N.shiftl 1 j.            (* 1 << j *)
Definition bit_is_clear (v : N) (j : N) : bool := (N.land v (bit_mask j) =? 0)%N.

(* for j := uint(0); j < 8; j++ { if v&(1<<j) == 0 { cnt++ } } *)
Fixpoint zero_bits (n : nat) (j : N) (v : N) : Z :=
  match n with
  | O => 0
  | S n' => (if bit_is_clear v j then 1 else 0) + zero_bits n' (j + 1)%N v
  end.

(* for j := uint(0); j < 8; j++ { if buf[pos]&(1<<j) == 0 { ... return } } *)
Fixpoint find_zero_bit (n : nat) (j : N) (v : N) : option N :=
  match n with
  | O => None
  | S n' => if bit_is_clear v j then Some j else find_zero_bit n' (j + 1)%N v
  end.

(** * initAvailabe *)

(* for _, v := range buf { if v != 0xFF { count the zero bits } } over the
   window (base, n bytes) *)
Fixpoint count_window (n : nat) (buf : buffer) (base : Z) : Z :=
  match n with
  | O => 0
  | S n' =>
      let v := bget buf base in
      (if (v =? 255)%N then 0 else zero_bits 8 0 v) + count_window n' buf (base + 1)
  end.

(* for s := 0; s < segments; s++ {...}: [n] segments are left, [s] is the
   current one; None = the error of bts.Buffer *)
Fixpoint init_loop (n : nat) (buf : buffer) (bs segsz : Z) (s : Z) (cnt : Z) : option Z :=
  match n with
  | O => Some cnt
  | S n' =>
      match buf_slice buf (s * segsz) bs with
      | None => None
      | Some (base, len) =>
          init_loop n' buf bs segsz (s + 1) (cnt + count_window (Z.to_nat len) buf base)
      end
  end.

(* func (bks *Blocks) initAvailabe() error *)
Definition init_available (b : blocks) : option blocks :=
  match init_loop (Z.to_nat (segments b)) (bts b) (blkSize b) (segm_size b) 0 0 with
  | None => None
  | Some cnt => Some (mkBlocks (blkSize b) (blksInSegm b) (segments b) (freeIdx b) cnt (bts b))
  end.

(** * NewBlocks (current code: the guard tests the value GetBlocksInSegment returned) *)

Definition new_blocks (page bs : Z) (buf : buffer) (fit : bool) : ctor_res :=
  let bis := get_blocks_in_segment page bs in
  if bis <? 0 then CtorErr EInvalid
  else
    let segsz := bis * bs in
    let size := bsize buf in
    if segsz =? 0 then CtorPanic    (* size%segmSize, size/segmSize: integer divide by zero *)
    else if (size <? segsz) || (fit && negb (Z.rem size segsz =? 0)) then CtorErr EInvalid
    else
      match init_available (mkBlocks bs (bis - 1) (Z.quot size segsz) 0 0 buf) with
      | Some b => CtorOk b
      | None => CtorErr EInvalid
      end.

(** * Block *)

Definition blocks_count (b : blocks) : Z := segments b * blksInSegm b.

(* the offset computed by Block(idx) *)
Definition block_off (b : blocks) (idx : Z) : Z :=
  (idx + Z.quot idx (blksInSegm b) + 1) * blkSize b.

Inductive slice_res := SliceOk (off len : Z) | SliceErr (e : err) | SlicePanic.

(* func (bks *Blocks) Block(idx int) ([]byte, error) *)
Definition block (b : blocks) (idx : Z) : slice_res :=
  if blksInSegm b =? 0 then SlicePanic
  else
    let segm := Z.quot idx (blksInSegm b) in
    if (segments b <=? segm) || (idx <? 0) then SliceErr EInvalid
    else
      match buf_slice (bts b) (block_off b idx) (blkSize b) with
      | None => SliceErr EInvalid
      | Some (o, l) => SliceOk o l
      end.

(** * ArrangeBlock *)

Inductive scan_res :=
| ScanFound (pos : Z) (j : N) (fidx : Z)   (* header byte, bit, value of freeIdx *)
| ScanEnd (fidx : Z)
| ScanOOF.

(* for pos < len(buf) { if buf[pos] != 0xFF {for j ...}; pos++; bks.freeIdx++ } *)
Fixpoint scan_hdr (fuel : nat) (buf : buffer) (base len pos fidx : Z) : scan_res :=
  if pos <? len then
    match fuel with
    | O => ScanOOF
    | S f =>
        let v := bget buf (base + pos) in
        match (if (v =? 255)%N then None else find_zero_bit 8 0 v) with
        | Some j => ScanFound pos j fidx
        | None => scan_hdr f buf base len (pos + 1) (fidx + 1)
        end
    end
  else ScanEnd fidx.

Inductive arr_res := ArrIdx (i : Z) | ArrErr (e : err) | ArrPanic | ArrOOF.

Definition with_free (b : blocks) (fidx : Z) : blocks :=
  mkBlocks (blkSize b) (blksInSegm b) (segments b) fidx (available b) (bts b).

(* for freeSegm < bks.segments { ... } *)
Fixpoint arrange_loop (fuel : nat) (b : blocks) (freeSegm fidx : Z) : blocks * arr_res :=
  if freeSegm <? segments b then
    match fuel with
    | O => (with_free b fidx, ArrOOF)
    | S f =>
        if blkSize b =? 0 then (with_free b fidx, ArrPanic)
        else
          let pos := Z.rem fidx (blkSize b) in
          match buf_slice (bts b) (fidx - pos) (blkSize b) with
          | None => (with_free b fidx, ArrErr EInvalid)
          | Some (base, len) =>
              match scan_hdr (Z.to_nat len) (bts b) base len pos fidx with
              | ScanFound p j fidx' =>
                  let v := bget (bts b) (base + p) in
                  (mkBlocks (blkSize b) (blksInSegm b) (segments b) fidx' (available b - 1)
                     (bset (bts b) (base + p) (N.lor v (bit_mask j))),
                   ArrIdx (freeSegm * blksInSegm b + p * 8 + Z.of_N j))
              | ScanEnd _ =>
                  arrange_loop f b (freeSegm + 1) ((freeSegm + 1) * segm_size b)
              | ScanOOF => (with_free b fidx, ArrOOF)
              end
          end
    end
  else (with_free b fidx, ArrErr EExhausted).

(* func (bks *Blocks) ArrangeBlock() (int, error) *)
Definition arrange (b : blocks) : blocks * arr_res :=
  if segm_size b =? 0 then (b, ArrPanic)
  else arrange_loop (Z.to_nat (segments b)) b (Z.quot (freeIdx b) (segm_size b)) (freeIdx b).

(** * FreeBlock *)

(* func (bks *Blocks) getBlockIdxInHdr(idx int) (int64, int, uint); None = panic *)
Definition get_block_idx_in_hdr (b : blocks) (idx : Z) : option (Z * Z * N) :=
  if blksInSegm b =? 0 then None
  else
    let segm := Z.quot idx (blksInSegm b) in
    if (segments b <=? segm) || (idx <? 0) then Some (-1, -1, 0%N)
    else
      let bidx := Z.rem idx (blksInSegm b) in
      Some (segm * segm_size b, Z.quot bidx 8, Z.to_N (Z.rem bidx 8)).

Inductive free_res := FreeOk | FreeErr (e : err) | FreePanic.

(* func (bks *Blocks) FreeBlock(idx int) error *)
Definition free (b : blocks) (idx : Z) : blocks * free_res :=
  match get_block_idx_in_hdr b idx with
  | None => (b, FreePanic)
  | Some (offs, fidx, bit) =>
      if offs <? 0 then (b, FreeErr EInvalid)
      else
        match buf_slice (bts b) offs (blkSize b) with
        | None => (b, FreeErr EInvalid)
        | Some (base, len) =>
            if (fidx <? 0) || (len <=? fidx) then (b, FreePanic)   (* buf[fidx] out of range *)
            else
              let v := bget (bts b) (base + fidx) in
              if bit_is_clear v bit then (b, FreeErr ENotExist)
              else
                let i := offs + fidx in
                (mkBlocks (blkSize b) (blksInSegm b) (segments b)
                   (if i <? freeIdx b then i else freeIdx b)
                   (available b + 1)
                   (bset (bts b) (base + fidx) (N.land v (N.lxor 255 (bit_mask bit)))),
                 FreeOk)
        end
  end.

(** * A user writing into a block: w, _ := Block(idx); for k := range w { w[k] = v } *)

Definition write_block (b : blocks) (idx : Z) (v : N) : blocks * slice_res :=
  match block b idx with
  | SliceOk o l =>
      (mkBlocks (blkSize b) (blksInSegm b) (segments b) (freeIdx b) (available b)
         (fill (Z.to_nat l) (bts b) o v), SliceOk o l)
  | r => (b, r)
  end.

(** * A user writing one byte of a block: w, _ := Block(idx); w[k] = v *)

Definition poke_block (b : blocks) (idx k : Z) (v : N) : blocks * slice_res :=
  match block b idx with
  | SliceOk o l =>
      if (k <? 0) || (l <=? k) then (b, SlicePanic)      (* index out of range *)
      else
        (mkBlocks (blkSize b) (blksInSegm b) (segments b) (freeIdx b) (available b)
           (bset (bts b) (o + k) v), SliceOk o l)
  | r => (b, r)
  end.

(** * Operations and outputs (shared by model, spec and the correspondence run) *)

Inductive op :=
| OArrange
| OFree (idx : Z)
| OBlock (idx : Z)
| OWrite (idx : Z) (v : N)   (* fill Block(idx) with the byte v *)
| OPoke (idx k : Z) (v : N)  (* Block(idx)[k] = v *)
| OReopen                    (* NewBlocks on the same bytes, continue with the new allocator *)
| OAvail | OCount | OSegments
| OGrow (newSize : Z).       (* bts.Grow(newSize) on the storage under the live allocator *)

Inductive out :=
| OutOk
| OutIdx (i : Z)
| OutErr (e : err)
| OutN (n : Z)
| OutSlice (off len : Z)
| OutPanic
| OutOfFuel.

Definition out_of_slice (r : slice_res) : out :=
  match r with
  | SliceOk o l => OutSlice o l
  | SliceErr e => OutErr e
  | SlicePanic => OutPanic
  end.

Definition step (page : Z) (fit : bool) (b : blocks) (o : op) : blocks * out :=
  match o with
  | OArrange =>
      let '(b', r) := arrange b in
      (b', match r with
           | ArrIdx i => OutIdx i | ArrErr e => OutErr e
           | ArrPanic => OutPanic | ArrOOF => OutOfFuel
           end)
  | OFree idx =>
      let '(b', r) := free b idx in
      (b', match r with FreeOk => OutOk | FreeErr e => OutErr e | FreePanic => OutPanic end)
  | OBlock idx => (b, out_of_slice (block b idx))
  | OWrite idx v =>
      let '(b', r) := write_block b idx v in
      (b', match r with SliceOk _ _ => OutOk | _ => out_of_slice r end)
  | OPoke idx k v =>
      let '(b', r) := poke_block b idx k v in
      (b', match r with SliceOk _ _ => OutOk | _ => out_of_slice r end)
  | OReopen =>
      match new_blocks page (blkSize b) (bts b) fit with
      | CtorOk b' => (b', OutOk)
      | CtorErr e => (b, OutErr e)
      | CtorPanic => (b, OutPanic)
      end
  | OAvail => (b, OutN (available b))
  | OCount => (b, OutN (blocks_count b))
  | OSegments => (b, OutN (segments b))
  | OGrow n =>
      (* inmem.go: newSize < Size() is a plain error; otherwise a new array with
         the old bytes.  The Blocks object is untouched: blkSize, blksInSegm,
         segments, freeIdx, available stay what they are; the room shows after
         the next NewBlocks on the storage (OReopen) *)
      if n <? bsize (bts b) then (b, OutErr EOther)
      else (mkBlocks (blkSize b) (blksInSegm b) (segments b) (freeIdx b) (available b)
              (grow_buf (bts b) n), OutOk)
  end.

Fixpoint run (page : Z) (fit : bool) (b : blocks) (ops : list op) : list out * blocks :=
  match ops with
  | [] => ([], b)
  | o :: t =>
      let '(b', x) := step page fit b o in
      let '(xs, bf) := run page fit b' t in (x :: xs, bf)
  end.

(** * The allocation state as a function of the bytes alone *)

Fixpoint zrange (a : Z) (n : nat) : list Z :=
  match n with
  | O => []
  | S n' => a :: zrange (a + 1) n'
  end.

(* is block idx marked in the headers of a storage laid out for block size bs? *)
Definition is_alloc_bytes (bs : Z) (buf : buffer) (idx : Z) : bool :=
  let bis := 8 * bs in
  let bidx := idx mod bis in
  negb (bit_is_clear (bget buf ((idx / bis) * ((bis + 1) * bs) + bidx / 8)) (Z.to_N (bidx mod 8))).

(* the allocated indices recorded in the bytes, ascending *)
Definition alloc_of_bytes (bs segs : Z) (buf : buffer) : list Z :=
  filter (is_alloc_bytes bs buf) (zrange 0 (Z.to_nat (segs * (8 * bs)))).

(* What a later NewBlocks on the same storage would add (the storage may be
   larger than the segments the live allocator was opened with: non-fit, or
   after Grow): the indices behind the live ones whose header byte lies inside
   the storage and has the bit set, ascending.  Only whole segments become
   visible at a reopen; the marks of a partial tail segment wait for more room. *)
Definition is_hidden (bs : Z) (buf : buffer) (idx : Z) : bool :=
  let bis := 8 * bs in
  ((idx / bis) * ((bis + 1) * bs) + (idx mod bis) / 8 <? bsize buf) && is_alloc_bytes bs buf idx.

Definition hidden_of_bytes (bs segs : Z) (buf : buffer) : list Z :=
  filter (is_hidden bs buf)
    (zrange (segs * (8 * bs)) (Z.to_nat ((bsize buf / ((8 * bs + 1) * bs) + 1 - segs) * (8 * bs)))).

Definition is_alloc (b : blocks) (idx : Z) : bool := is_alloc_bytes (blkSize b) (bts b) idx.

Definition alloc_list (b : blocks) : list Z := alloc_of_bytes (blkSize b) (segments b) (bts b).

Definition hidden_list (b : blocks) : list Z := hidden_of_bytes (blkSize b) (segments b) (bts b).
