(** Observing the pointer model L1 along a history (vocabulary of the
    corollaries of C10): the state after a history, the answer to one more
    call, and what the calls [Next i] of a stretch of history return.

    No proofs in this file. *)
From Coq Require Import List ZArith Arith Bool.
From GL Require Import lib.IMapBase model.IMap.
Import ListNotations.
Open Scope Z_scope.

Definition istate (ch : nat -> option nat) (h : list op) : imap :=
  fold_left (fun s x => fst (i_step ch s x)) h i_new.

(* what the pointer model (pool choices [ch]) answers to the call [x] made after [h] *)
Definition i_answer (ch : nat -> option nat) (h : list op) (x : op) : out :=
  snd (i_step ch (istate ch h) x).

(* the entries the calls [Next i] made during [h2] (after [h1]) return, in order *)
Fixpoint i_rets (ch : nat -> option nat) (i : Z) (h1 h2 : list op) : list (Z * Z) :=
  match h2 with
  | [] => []
  | x :: t =>
      (match x, i_answer ch h1 x with
       | ONext j, OutNext (Some e) => if j =? i then [e] else []
       | _, _ => []
       end) ++ i_rets ch i (h1 ++ [x]) t
  end.
