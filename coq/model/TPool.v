(** Executable model of the dispatcher of timeout/timeout.go as a labelled
    transition system.

    Shared state (callControl): the heap [hp] (model/THeap.v), [watchers], the
    number [tokens] of values buffered in wakeCh (capacity [wcap]),
    [idle] = idleTimeout, [maxw] = maxWorkers.  Every goroutine running
    watcher() is a worker with a program counter:

      Deciding mis     about to enter the locked section of the loop with misCount = mis
                       (a fresh worker: 1; after a callback: 0; after a timer wake-up:
                       mis + 1; after a token wake-up: 1)
      Sleeping mis u   blocked in the select on a timer that cannot fire before u
      Running x        between heap.Pop returning x (with x.f != nil) and the return of x.f()
      Gone             returned

    Labels (every label carries the instant [t] at which it happens; instants
    never decrease along a trace):

      LCall x d tc nonnil t   Call(f, d): time.Now() returned tc (<= t, it is read before
                              the lock is taken), then add() ran under the lock at t
      LCancel x t             cancel() under the lock
      LDecide w t             one locked section of watcher(), time.Now() = t: exit / sleep /
                              pop-and-run (+ maybe spawn) exactly as the code decides
      LWakeTimer w t          <-tmr.C, only when t >= until: a timer never fires early
      LWakeToken w t          <-cc.wakeCh, needs a buffered token
      LCbEnd w t              the callback returned

    Durations and instants are [Z] nanoseconds.  No proofs in this file. *)
From Coq Require Import List ZArith NArith Bool.
From GL Require Import model.THeap.
Import ListNotations.
Open Scope Z_scope.

Inductive pc :=
| Deciding (mis : Z)
| Sleeping (mis : Z) (until : Z)
| Running (x : fid)
| Gone.

Record pool := mkPool {
  hp : fheap;
  watchers : Z;
  tokens : Z;
  workers : list pc;
  called : list fid;    (* ghost: every id a Call has used so far (new(future) is fresh) *)
  now : Z;
  idle : Z;
  maxw : Z;
  wcap : Z
}.

Inductive label :=
| LCall (x : fid) (d tc : Z) (nonnil : bool) (t : Z)
| LCancel (x : fid) (t : Z)
| LDecide (w : nat) (t : Z)
| LWakeTimer (w : nat) (t : Z)
| LWakeToken (w : nat) (t : Z)
| LCbEnd (w : nat) (t : Z).

Definition label_time (l : label) : Z :=
  match l with
  | LCall _ _ _ _ t | LCancel _ t | LDecide _ t | LWakeTimer _ t | LWakeToken _ t | LCbEnd _ t => t
  end.

Definition init_pool (idle_ maxw_ wcap_ tokens0 : Z) : pool :=
  mkPool empty_heap 0 tokens0 [] [] 0 idle_ maxw_ wcap_.

Definition pc_of (p : pool) (w : nat) : pc := nth w (workers p) Gone.

Fixpoint set_pc_list (l : list pc) (w : nat) (c : pc) : list pc :=
  match l, w with
  | [], _ => []
  | _ :: t, O => c :: t
  | x :: t, S w' => x :: set_pc_list t w' c
  end.

Definition with_heap (p : pool) (h : fheap) : pool :=
  mkPool h (watchers p) (tokens p) (workers p) (called p) (now p) (idle p) (maxw p) (wcap p).
Definition with_pc (p : pool) (w : nat) (c : pc) : pool :=
  mkPool (hp p) (watchers p) (tokens p) (set_pc_list (workers p) w c) (called p) (now p) (idle p) (maxw p) (wcap p).
Definition with_now (p : pool) (t : Z) : pool :=
  mkPool (hp p) (watchers p) (tokens p) (workers p) (called p) t (idle p) (maxw p) (wcap p).

(* func (cc *callControl) notifyWatcher() { select { case cc.wakeCh <- true: default: } } *)
Definition notify (p : pool) : pool :=
  mkPool (hp p) (watchers p) (if tokens p <? wcap p then tokens p + 1 else tokens p)
         (workers p) (called p) (now p) (idle p) (maxw p) (wcap p).

(* cc.watchers++; go cc.watcher()     -- the new goroutine starts with misCount = 0, f = nil
   and therefore reaches its first locked section with misCount = 1 *)
Definition spawn (p : pool) : pool :=
  mkPool (hp p) (watchers p + 1) (tokens p) (workers p ++ [Deciding 1]) (called p) (now p) (idle p) (maxw p) (wcap p).

(* cc.watchers--; cc.lock.Unlock(); return *)
Definition exit_worker (p : pool) (w : nat) : pool :=
  mkPool (hp p) (watchers p - 1) (tokens p) (set_pc_list (workers p) w Gone) (called p) (now p) (idle p) (maxw p) (wcap p).

(* Call + add (timeout.go:67-99) *)
Definition was_called (p : pool) (x : fid) : bool := existsb (N.eqb x) (called p).

Definition add_called (p : pool) (x : fid) : pool :=
  mkPool (hp p) (watchers p) (tokens p) (workers p) (x :: called p) (now p) (idle p) (maxw p) (wcap p).

Definition do_call (p : pool) (x : fid) (d tc : Z) (nonnil : bool) : option pool :=
  if was_called p x then None   (* new(future) is a fresh pointer *)
  else
    let p := add_called p x in
    let h0 := hp p in
    let h1 := mkHeap (arr h0) (set (hs h0) x (mkFut (tc + d) (-1) nonnil)) (bad h0) in
    if nonnil then
      let p1 := with_heap p (heap_push h1 x) in
      Some (if watchers p1 =? 0 then spawn p1 else notify p1)
    else Some (with_heap p h1).

(* cancel (timeout.go:116-128) *)
Definition do_cancel (p : pool) (x : fid) : option pool :=
  if negb (was_called p x) then None   (* a Future comes from a Call *)
  else
    let h0 := hp p in
    let fu := get (hs h0) x in
    if idx fu <? 0 then Some p
    else
      let h1 := mkHeap (arr h0) (set_live (hs h0) x false) (bad h0) in
      let p1 := with_heap p (fst (heap_remove h1 (idx fu))) in
      Some (if watchers p1 >? 0 then notify p1 else p1).

Definition head_fire (h : fheap) : Z := fireT (get (hs h) (aget (arr h) 0)).

(* the locked section of watcher() (timeout.go:150-190) for worker w whose misCount is mis,
   time.Now() = t *)
Definition do_decide (p : pool) (w : nat) (mis t : Z) : pool :=
  if f_len (hp p) =? 0 then
    if mis >? 1 then exit_worker p w
    else with_pc p w (Sleeping mis (t + idle p))
  else
    let ft := head_fire (hp p) in
    if t >? ft then                                  (* now.After(fireT) *)
      let '(h1, x) := heap_pop (hp p) in
      let f := live (get (hs h1) x) in
      let p1 := with_heap p h1 in
      let p2 :=
        if (f_len h1 >? 0) && (t >? head_fire h1) && (watchers p1 <? maxw p1)
        then spawn p1 else p1 in
      (* continue: the loop top runs f if it is not nil (misCount := 0 afterwards),
         otherwise misCount++ *)
      with_pc p2 w (if f then Running x else Deciding (mis + 1))
    else
      let tmt := ft - t in
      if watchers p >? 1 then
        if mis >? 1 then exit_worker p w
        else with_pc p w (Sleeping mis (t + (if tmt >? idle p then idle p else tmt)))
      else with_pc p w (Sleeping mis (t + tmt)).

Definition step (p : pool) (l : label) : option pool :=
  if label_time l <? now p then None
  else
    let p := with_now p (label_time l) in
    match l with
    | LCall x d tc nonnil t => if tc >? t then None else do_call p x d tc nonnil
    | LCancel x _ => do_cancel p x
    | LDecide w t =>
        match pc_of p w with
        | Deciding mis => Some (do_decide p w mis t)
        | _ => None
        end
    | LWakeTimer w t =>
        match pc_of p w with
        | Sleeping mis u => if t <? u then None else Some (with_pc p w (Deciding (mis + 1)))
        | _ => None
        end
    | LWakeToken w _ =>
        match pc_of p w with
        | Sleeping _ _ =>
            if tokens p >? 0 then
              Some (with_pc (mkPool (hp p) (watchers p) (tokens p - 1) (workers p) (called p) (now p)
                                    (idle p) (maxw p) (wcap p)) w (Deciding 1))
            else None
        | _ => None
        end
    | LCbEnd w _ =>
        match pc_of p w with
        | Running _ => Some (with_pc p w (Deciding 0))
        | _ => None
        end
    end.

Fixpoint run (p : pool) (tr : list label) : option pool :=
  match tr with
  | [] => Some p
  | l :: t => match step p l with Some p' => run p' t | None => None end
  end.

(** ** observations used by the theorems and the correspondence run *)

(* the ids in the heap *)
Definition pending (p : pool) : list fid := arr (hp p).

Definition is_pending (p : pool) (x : fid) : bool := existsb (N.eqb x) (pending p).

(* some worker is running x *)
Definition is_running (p : pool) (x : fid) : bool :=
  existsb (fun c => match c with Running y => N.eqb x y | _ => false end) (workers p).

(* the future whose callback this step starts, if any: a Decide that pops a live future *)
Definition starts (p : pool) (l : label) : option fid :=
  match l with
  | LDecide w t =>
      match pc_of p w with
      | Deciding _ =>
          if negb (now p >? t) && negb (f_len (hp p) =? 0) && (t >? head_fire (hp p)) then
            let '(h1, x) := heap_pop (hp p) in
            if live (get (hs h1) x) then Some x else None
          else None
      | _ => None
      end
  | _ => None
  end.

Definition live_workers (p : pool) : Z :=
  Z.of_nat (length (filter (fun c => match c with Gone => false | _ => true end) (workers p))).

(* the callbacks started along a run, with the instant of the Decide that popped them *)
Fixpoint trace_starts (p : pool) (tr : list label) : list (fid * Z) :=
  match tr with
  | [] => []
  | l :: t =>
      match step p l with
      | None => []
      | Some p' =>
          match starts p l with
          | Some x => (x, label_time l) :: trace_starts p' t
          | None => trace_starts p' t
          end
      end
  end.
