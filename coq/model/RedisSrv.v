(** A Redis server as the client in kvs/redis/redis.go uses it: an ATOMIC command
    processor over string keys with TTLs and per-connection WATCH state.
    (Modelled, not verified: the real server / miniredis and go-redis.)

    * the keyspace is an association list  skey -> (payload, deadline)  ; a key
      whose deadline has passed ([deadline < clock], as Redis' keyIsExpired) is
      absent for every command; it is not physically removed (nothing can tell);
    * [SET]/[MSET] replace value and TTL (no KEEPTTL), a write puts the key at
      the end of the list (only the order of SCAN could see it; unordered);
    * WATCH: per connection a list of watched keys and a dirty flag; every
      command that modifies a key marks the connections watching it; EXEC runs
      its queued SET only if the connection is clean, and clears the watches;
    * SCAN with MATCH uses Redis' glob dialect (class negation is [^]).
      One SCAN command stands for the whole cursor iteration.

    The stored values are the client's payloads (rec2db of a kvs.Record): the
    codec is modelled as an injective pairing, [mkPl] / projections, with nil and
    empty values identified.  No proofs in this file. *)
From Coq Require Import List ZArith NArith Arith Bool.
From GL Require Import spec.KV.
Import ListNotations.

Definition skey := list N.

(* protobuf Record{Key, Value, Version, ExpiresAt} *)
Record payload := mkPl { p_key : key; p_val : value; p_ver : nat; p_exp : option Z }.

Record entry := mkEnt { e_pl : payload; e_dl : option Z }.

Record watch := mkW { w_conn : nat; w_keys : list skey; w_dirty : bool }.

Record srv := mkSrv { store : list (skey * entry); watches : list watch }.

Definition srv_init : srv := mkSrv [] [].

Fixpoint s_lookup (k : skey) (l : list (skey * entry)) : option entry :=
  match l with
  | [] => None
  | (k', r) :: t => if key_eqb k k' then Some r else s_lookup k t
  end.

Definition s_remove (k : skey) (l : list (skey * entry)) : list (skey * entry) :=
  filter (fun kr => negb (key_eqb k (fst kr))) l.

Definition s_set (k : skey) (r : entry) (l : list (skey * entry)) : list (skey * entry) :=
  s_remove k l ++ [(k, r)].

(* keyIsExpired: now > when *)
Definition dead (clk : Z) (e : entry) : bool :=
  match e_dl e with
  | Some d => Z.ltb d clk
  | None => false
  end.

Definition s_find (clk : Z) (k : skey) (s : srv) : option entry :=
  match s_lookup k (store s) with
  | Some e => if dead clk e then None else Some e
  | None => None
  end.

Fixpoint mem_key (k : skey) (l : list skey) : bool :=
  match l with
  | [] => false
  | x :: t => key_eqb k x || mem_key k t
  end.

(* touchWatchedKey *)
Definition touch (k : skey) (ws : list watch) : list watch :=
  map (fun w => if mem_key k (w_keys w) then mkW (w_conn w) (w_keys w) true else w) ws.

Definition unwatch (c : nat) (ws : list watch) : list watch :=
  filter (fun w => negb (Nat.eqb (w_conn w) c)) ws.

Fixpoint conn_dirty (c : nat) (ws : list watch) : bool :=
  match ws with
  | [] => false
  | w :: t => (Nat.eqb (w_conn w) c && w_dirty w) || conn_dirty c t
  end.

Definition add_watch (c : nat) (k : skey) (ws : list watch) : list watch :=
  mkW c [k] false :: ws.

Inductive cmd :=
| SETNX (k : skey) (v : payload) (ttl : option Z)   (* SETNX k v  /  SET k v PX ttl NX *)
| GETC (k : skey)
| MGET (ks : list skey)
| SETC (k : skey) (v : payload) (ttl : option Z)    (* SET k v [PX ttl] *)
| MSET (kvs : list (skey * payload))
| DEL (k : skey)
| SCAN (pat : list N)                                (* SCAN 0 MATCH pat COUNT 1000 ... until cursor 0 *)
| WATCH (k : skey)
| EXEC_SET (k : skey) (v : payload) (ttl : option Z) (* MULTI ; SET k v [PX ttl] ; EXEC  (one pipeline) *)
| UNWATCH.

Inductive reply :=
| RBool (b : bool)
| RVal (v : option payload)
| RVals (vs : list (option payload))
| ROk
| RInt (n : nat)
| RKeys (ks : list skey)
| RTxFailed             (* EXEC answered nil: go-redis' TxFailedErr *)
| RErr.                 (* an error reply (wrong number of arguments) *)

Definition deadline (clk : Z) (ttl : option Z) : option Z := option_map (fun t => clk + t)%Z ttl.

Definition do_set (clk : Z) (k : skey) (v : payload) (ttl : option Z) (s : srv) : srv :=
  mkSrv (s_set k (mkEnt v (deadline clk ttl)) (store s)) (touch k (watches s)).

Fixpoint do_mset (clk : Z) (kvs : list (skey * payload)) (s : srv) : srv :=
  match kvs with
  | [] => s
  | (k, v) :: t => do_mset clk t (do_set clk k v None s)
  end.

(* one command of connection [c], executed atomically at server time [clk] *)
Definition srv_cmd (clk : Z) (c : nat) (x : cmd) (s : srv) : srv * reply :=
  match x with
  | SETNX k v ttl =>
      match s_find clk k s with
      | Some _ => (s, RBool false)
      | None => (do_set clk k v ttl s, RBool true)
      end
  | GETC k => (s, RVal (option_map e_pl (s_find clk k s)))
  | MGET [] => (s, RErr)      (* ERR wrong number of arguments for 'mget' command *)
  | MGET ks => (s, RVals (map (fun k => option_map e_pl (s_find clk k s)) ks))
  | SETC k v ttl => (do_set clk k v ttl s, ROk)
  | MSET kvs => (do_mset clk kvs s, ROk)
  | DEL k =>
      match s_find clk k s with
      | Some _ => (mkSrv (s_remove k (store s)) (touch k (watches s)), RInt 1)
      | None => (s, RInt 0)
      end
  | SCAN pat =>
      (s, RKeys (map fst (filter (fun kr => negb (dead clk (snd kr)) && glob 94 pat (fst kr)) (store s))))
  | WATCH k => (mkSrv (store s) (add_watch c k (watches s)), ROk)
  | EXEC_SET k v ttl =>
      if conn_dirty c (watches s) then (mkSrv (store s) (unwatch c (watches s)), RTxFailed)
      else let s1 := do_set clk k v ttl s in
           (mkSrv (store s1) (unwatch c (watches s1)), ROk)
  | UNWATCH => (mkSrv (store s) (unwatch c (watches s)), ROk)
  end.
