(** Pre-fix [ECache.Clear] (before commit 103acbd of /repo): the iterator it
    opens is never closed.  Used only by [legacy_clear_leaks] (D2). *)
From Coq Require Import List ZArith Arith Bool.
From GL Require Import lib.IMapBase model.IMapLRU.
Import ListNotations.
Open Scope Z_scope.

Section Legacy.
Context {M : Type} (step : M -> op -> M * out).

Definition lc_clear_legacy (m : M) (it : Z) : res (M * cout) :=
  let fuel := clear_fuel step m in
  '(m, _) <- mstep step m (ONewIter it) ;;
  '(m, n) <- lc_clear_loop step fuel m it O ;;
  Ok (m, CCleared n).

Definition lc_do_legacy (cap : nat) (s : lru) (o : cop) : res (lru * cout) :=
  match o with
  | CClear => '(m, x) <- lc_clear_legacy (l_map s) (l_clears s) ;; Ok (mkLru m (l_clears s + 1), x)
  | _ => lc_do step cap s o
  end.

Definition lc_step_legacy (cap : nat) (s : lru) (o : cop) : lru * cout :=
  match lc_do_legacy cap s o with
  | Ok r => r
  | _ => (s, CStop)
  end.

Fixpoint lc_run_legacy (cap : nat) (s : lru) (ops : list cop) : list (cout * lru) :=
  match ops with
  | [] => []
  | o :: t => let '(s', x) := lc_step_legacy cap s o in (x, s') :: lc_run_legacy cap s' t
  end.

End Legacy.
