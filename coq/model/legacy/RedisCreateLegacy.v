(** kvs/redis/redis.go BEFORE the fix of defect D7 (commit 100dccd): Create was a
    single SETNX and answered ("", ErrExist) when the key was there: the empty
    string is no version the storage ever issued (reference version 0).

    Only Create differs from model/RedisKV.v here (the later fixes b59c3d7,
    3538561 -- transcribed in model/legacy/RedisKVLegacy.v for C02 -- and 5042a3c
    concern PutMany, CasByVersion and GetMany).  Used only by
    legacy_redis_create_refuted (C03).  No proofs here. *)
From Coq Require Import List ZArith NArith Arith Bool.
From GL Require Import spec.KV model.RedisSrv model.RedisKV.
Import ListNotations.

(* Version = NewID(); ok := SETNX ...; if !ok { return "", ErrExist }; return record.Version, nil *)
Definition leg_rk_create (k : key) (v : value) (e : option Z) : prog :=
  NewID (fun n =>
    Cmd (fun now => SETNX (rKey k) (mkPl k v n e) (expiration e now)) (fun r =>
      match r with
      | RBool true => Ret (OVer n)
      | _ => Ret (OExist 0)
      end)).

Definition leg_rk_prog (o : op) : prog :=
  match o with
  | Create k v e => leg_rk_create k v e
  | _ => rk_prog o
  end.

Definition leg_rk_step (s : rstate) (now clk : Z) (o : op) : rstate * out :=
  run_prog now clk 0 (leg_rk_prog o) s.

Fixpoint leg_rk_run (s : rstate) (ops : list (Z * Z * op)) : list out * rstate :=
  match ops with
  | [] => ([], s)
  | (now, clk, o) :: t =>
      let '(s', x) := leg_rk_step s now clk o in
      let '(xs, sf) := leg_rk_run s' t in (x :: xs, sf)
  end.

Definition leg_rk_run_sync (s : rstate) (ops : list (Z * op)) : list out * rstate :=
  leg_rk_run s (map (fun no => (fst no, fst no, snd no)) ops).
