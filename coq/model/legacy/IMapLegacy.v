(** Pre-fix transcription of [Map.release] (before commit cd173af of /repo):
    the new head returned by [rlItem.delete] is dropped.  Everything else is
    the L1 model of model/IMap.v.  Used only by [legacy_imap_refuted] (D1). *)
From Coq Require Import List ZArith Arith Bool.
From GL Require Import lib.IMapBase model.IMap.
Import ListNotations.
Open Scope Z_scope.

(* func (im *Map) release(p) { p.refCnt--; if p.state == rlDeleted { p.delete(); if p.refCnt == 0 { im.pool.Put(p) } } } *)
Definition i_release_legacy (c : core) (p : id) : res core :=
  let '(h, hd, pl) := c in
  n <- get h p ;;
  let h := upd h p (set_ref (n_ref n - 1)) in
  if nstate_eqb (n_st n) StDeleted then
    '(h, _) <- n_delete h p ;;                                 (* p.delete(): result dropped *)
    n' <- get h p ;;
    Ok (h, hd, if n_ref n' =? 0 then p :: pl else pl)
  else Ok (h, hd, pl).

Definition i_close_legacy (s : imap) (name : Z) : res (imap * out) :=
  p <- deref (alookup name (iters s)) ;;
  c <- i_release_legacy (core_of s) p ;;
  Ok (with_core s c (aremove name (iters s)), OutUnit).

Definition i_first_legacy (s : imap) : res (imap * out) :=
  let name := fresh_name (akeys (iters s)) in
  '(s, _) <- i_iterator s name ;;
  '(s, o) <- i_itnext s name ;;
  '(s, _) <- i_close_legacy s name ;;
  Ok (s, match o with OutNext (Some (k, _)) => OutFirst (Some k) | _ => OutFirst None end).

Definition i_do_legacy (ch : nat -> option nat) (s : imap) (o : op) : res (imap * out) :=
  match o with
  | OFirst => i_first_legacy s
  | OClose i => i_close_legacy s i
  | _ => i_do ch s o
  end.

Definition i_step_legacy (ch : nat -> option nat) (s : imap) (o : op) : imap * out :=
  match i_do_legacy ch s o with
  | Ok r => r
  | Panic => (s, OutPanic)
  | NoFuel => (s, OutNoFuel)
  end.

Definition run_imap_legacy (ch : nat -> option nat) (h : list op) : list out :=
  outs (i_step_legacy ch) i_new h.

(* D1: Add 1; Add 2; it := Iterator(); Remove 1; it.Close(); First() *)
Definition d1_witness : list op :=
  [OAdd 1 11; OAdd 2 12; ONewIter 0; ORemove 1; OClose 0; OFirst].
