(** Transcription of NewBlocks as it was before commit c7b90bd of /repo
    ("fix: bytes.NewBlocks must reject every block size GetBlocksInSegment
    rejects"): the guard tested [bs < 0] instead of the value returned by
    GetBlocksInSegment.  Used only by [legacy_ctor_refuted] (defect D4). *)
From Coq Require Import List ZArith NArith Bool.
From GL Require Import model.Blocks.
Open Scope Z_scope.

Definition legacy_new_blocks (page bs : Z) (buf : buffer) (fit : bool) : ctor_res :=
  let bis := get_blocks_in_segment page bs in
  if bs <? 0 then CtorErr EInvalid
  else
    let segsz := bis * bs in
    let size := bsize buf in
    if size <? segsz then CtorErr EInvalid
    else if fit && (segsz =? 0) then CtorPanic               (* size%segmSize *)
    else if fit && negb (Z.rem size segsz =? 0) then CtorErr EInvalid
    else if segsz =? 0 then CtorPanic                        (* size/segmSize *)
    else
      match init_available (mkBlocks bs (bis - 1) (Z.quot size segsz) 0 0 buf) with
      | Some b => CtorOk b
      | None => CtorErr EInvalid
      end.
