(** The renewal chain of kvs/distlock/kvlock.go BEFORE the fix of defect D9
    (commit e96ab86): supportTimeout returned on ANY CasByVersion error, so the
    error path armed nothing.  Everything else is model/LeaseLTS.v; the only
    difference is the label [RetryArm] (the error of a lost call comes back):
    the callback returns and the chain is over ([TDone]).

    Used only by the lemma legacy_renewal_dies_refuted. No proofs here. *)
From Coq Require Import List ZArith Bool.
From GL Require Import model.LeaseLTS.
Import ListNotations.
Open Scope Z_scope.

Definition step_legacy (TTL : Z) (s : state) (l : label) : option (state * res) :=
  match l with
  | RetryArm =>
      match tst s with
      | TLost _ => if is_dead (hs s) then None else Some (set_tst s TDone, RNone)
      | _ => None
      end
  | _ => step TTL s l
  end.

Definition step_st_legacy (TTL : Z) (s : state) (l : label) : option state :=
  match step_legacy TTL s l with Some (s', _) => Some s' | None => None end.

Fixpoint run_legacy (TTL : Z) (s : state) (tr : list label) : option state :=
  match tr with
  | [] => Some s
  | l :: t => match step_st_legacy TTL s l with Some s' => run_legacy TTL s' t | None => None end
  end.

Fixpoint timely_legacy (TTL dl ep : Z) (s : state) (tr : list label) : bool :=
  match tr with
  | [] => true
  | l :: t =>
      tick_ok dl ep s l &&
      match step_st_legacy TTL s l with Some s' => timely_legacy TTL dl ep s' t | None => true end
  end.

Fixpoint faults_ok_legacy (TTL k : Z) (s : state) (tr : list label) : bool :=
  match tr with
  | [] => true
  | l :: t =>
      fault_ok k s l &&
      match step_st_legacy TTL s l with Some s' => faults_ok_legacy TTL k s' t | None => true end
  end.
