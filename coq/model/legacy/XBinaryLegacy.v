(** UnmarshalBytes as it was before the fix 98bfc00 (xbinary.go:263-279 of the
    pinned tree), kept only for the [_refuted] lemma of C16 (defect D3):

      ln := int(uln)
      if len(buf) < ln+idx { return 0, nil, noBufErr(...) }
      res := buf[idx : idx+ln]

    [int(uln)] and [ln+idx] are two's complement on 64 bits.  No proofs here. *)
From Coq Require Import List NArith ZArith Bool.
From GL Require Import model.XBinary.
Import ListNotations.
Open Scope N_scope.

Definition unmarshal_bytes_legacy (buf extra : list N) (newBuf : bool) : dres bview :=
  match unmarshal_uint buf with
  | DOk idx uln =>
      let ln := to_int64 uln in                                          (* ln := int(uln) *)
      if (Z.of_nat (length buf) <? add64 ln (Z.of_nat idx))%Z then DErr  (* len(buf) < ln+idx *)
      else
        let hi := add64 (Z.of_nat idx) ln in
        match go_slice (Z.of_nat idx) hi (buf ++ extra) with             (* buf[idx:idx+ln] *)
        | None => DPanic
        | Some s => DOk (Z.to_nat hi) (mkView idx s (negb newBuf))
        end
  | DErr => DErr
  | DPanic => DPanic
  end.
