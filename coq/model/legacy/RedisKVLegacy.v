(** kvs/redis/redis.go BEFORE the fixes b59c3d7 (D8b) and 3538561 (D8a): the two
    methods they changed, transcribed in the style of model/RedisKV.v.  Used only
    by the [..._refuted] lemmas of C02 (proofs/C02_Legacy.v); run by the same
    concurrent LTS (model/RedisConc.v).

    PutMany (D8b):
        for _, r := range records {
            if r.ExpiresAt != nil { mset = nil; break }
            // no  r.Version = ulidutils.NewID()  here
            mset = append(mset, rKey(r.Key)); mset = append(mset, rec2db(&r))
        }
    the payloads of the MSET branch carry the Version field the CALLER passed in.
    The operation [PutMany] of the contract has no such field (it is ignored by
    contract and fixed code alike), so the transcription takes the caller's
    value as a parameter [cv]; 0 stands for the empty string.

    CasByVersion (D8a): one WATCH/GET/MULTI/SET/EXEC attempt, no loop; when EXEC
    is refused rdb.Watch returns redis.TxFailedErr, which is handed to the caller:
    an error of none of the documented classes, [OOther].

    No proofs in this file. *)
From Coq Require Import List ZArith NArith Arith Bool.
From GL Require Import spec.KV model.RedisSrv model.RedisKV.
Import ListNotations.

Fixpoint mset_args_legacy (cv : nat) (rs : list (key * value * option Z)) (acc : list (skey * payload))
                          (ret : option (list (skey * payload)) -> prog) : prog :=
  match rs with
  | [] => ret (Some (rev acc))
  | (k, v, e) :: t =>
      match e with
      | Some _ => ret None
      | None => mset_args_legacy cv t ((rKey k, mkPl k v cv None) :: acc) ret
      end
  end.

Definition rk_putmany_legacy (cv : nat) (rs : list (key * value * option Z)) : prog :=
  mset_args_legacy cv rs [] (fun a =>
    match a with
    | Some (x :: l) => Cmd (fun _ => MSET (x :: l)) (fun _ => Ret OOk)
    | _ => puts_prog rs
    end).

Definition cas_legacy (k : key) (v : value) (e : option Z) (expected : nat) : prog :=
  Cmd (fun _ => WATCH (rKey k)) (fun _ =>
  Cmd (fun _ => GETC (rKey k)) (fun r =>
    match r with
    | RVal (Some p) =>
        if Nat.eqb (p_ver p) expected then
          NewID (fun n =>
          Cmd (fun now => EXEC_SET (rKey k) (mkPl k v n e) (expiration e now)) (fun x =>
          Cmd (fun _ => UNWATCH) (fun _ =>
            match x with
            | RTxFailed => Ret OOther            (* redis: transaction failed *)
            | _ => Ret (ORec (k, v, n, e))
            end)))
        else Cmd (fun _ => UNWATCH) (fun _ => Ret OConflict)
    | _ => Cmd (fun _ => UNWATCH) (fun _ => Ret ONotExist)
    end)).

Definition rk_prog_legacy (cv : nat) (o : op) : prog :=
  match o with
  | PutMany rs => rk_putmany_legacy cv rs
  | CasByVersion k v e expected => cas_legacy k v e expected
  | _ => rk_prog o
  end.
