(** Pre-fix transcriptions.

    1. files.UnzipToFolder before commit e1a7162 in /repo: identical to
       [Zip.unzip_entry] except that the destination of an entry is not checked
       to lie inside the destination directory.  Used only by the refutation
       lemma [legacy_unzip_escapes] (defect D5, zip slip).
    2. files.ZipFolder before commit de6fafe in /repo: the entry name is the
       byte slice [path[len(srcDir):]] and sub-folders are recognised by
       comparing the directory string of the path with the srcDir string,
       although filepath.Walk reports cleaned paths.  Used only by
       [legacy_zip_unclean_src_mangles_names] (defect D12).

    No proofs in this file. *)
From Coq Require Import List NArith Bool Arith.
From GL Require Import model.Zip.
Import ListNotations.

Definition legacy_unzip_entry (dest : rpath) (st : ustate) (e : entry) : ustate * ures :=
  if is_dir_entry e then (st, UOk)
  else
    let destPath := join dest (split_dir (e_name e)) in
    let mk :=
      if existsb (path_eqb destPath) (snd st) then Some st
      else match ensure_dir (fst st) destPath with
           | Some fs' => Some (fs', destPath :: snd st)
           | None => None
           end in
    match mk with
    | None => (st, UOsErr)
    | Some st1 =>
        let destFile := join dest (e_name e) in
        match create_file (fst st1) destFile (e_data e) with
        | Some fs2 => ((fs2, snd st1), UOk)
        | None => (st1, UOsErr)
        end
    end.

Fixpoint legacy_unzip_loop (dest : rpath) (st : ustate) (es : list entry) : ustate * ures :=
  match es with
  | [] => (st, UOk)
  | e :: es' =>
      let r := legacy_unzip_entry dest st e in
      match snd r with
      | UOk => legacy_unzip_loop dest (fst r) es'
      | _ => r
      end
  end.

Definition legacy_unzip (dest : rpath) (ar : list entry) (fs : fsys) : fsys * ures :=
  match ensure_dir fs dest with
  | None => (fs, UOsErr)
  | Some fs1 =>
      let r := legacy_unzip_loop dest (fs1, []) ar in
      (fst (fst r), snd r)
  end.

(** * ZipFolder before de6fafe *)

(* '/'-split of a byte string *)
Fixpoint bsplit (l : list N) : rpath :=
  match l with
  | [] => [[]]
  | b :: l' =>
      if N.eqb b slash then [] :: bsplit l'
      else match bsplit l' with
           | s :: r => (b :: s) :: r
           | [] => [[b]]
           end
  end.

(* body of the walk callback for one regular file; [src] is srcDir after ensureDirName *)
Definition legacy_zip_select (src : rpath) (filt : option (rpath -> bool)) (recursive : bool)
           (f : list seg * N) : zsel :=
  let path := walk_path src (fst f) in
  if match filt with Some t => negb (t path) | None => false end then SelSkip
  else if negb recursive && negb (path_eqb (ensure_dir_name (split_dir path)) src) then SelSkip
  else
    let pb := render path in
    let n := length (render src) in
    if length pb <? n then SelPanic                            (* path[len(srcDir):] out of range *)
    else SelEntry (mkE (bsplit (skipn n pb)) false (snd f)).

Definition legacy_zip_folder (src : rpath) (filt : option (rpath -> bool)) (recursive : bool)
           (t : tree) : zres :=
  let src' := ensure_dir_name src in
  if is_empty_str src' then ZErr
  else zip_collect (map (legacy_zip_select src' filt recursive) (walk_sort t)).
