(** Pre-fix transcription of files.UnzipToFolder (before commit e1a7162 in
    /repo): identical to [Zip.unzip_entry] except that the destination of an
    entry is not checked to lie inside the destination directory.  Used only by
    the refutation lemma [legacy_unzip_escapes] (defect D5, zip slip).

    No proofs in this file. *)
From Coq Require Import List NArith Bool Arith.
From GL Require Import model.Zip.
Import ListNotations.

Definition legacy_unzip_entry (dest : rpath) (st : ustate) (e : entry) : ustate * ures :=
  if is_dir_entry e then (st, UOk)
  else
    let destPath := join dest (split_dir (e_name e)) in
    let mk :=
      if existsb (path_eqb destPath) (snd st) then Some st
      else match ensure_dir (fst st) destPath with
           | Some fs' => Some (fs', destPath :: snd st)
           | None => None
           end in
    match mk with
    | None => (st, UOsErr)
    | Some st1 =>
        let destFile := join dest (e_name e) in
        match create_file (fst st1) destFile (e_data e) with
        | Some fs2 => ((fs2, snd st1), UOk)
        | None => (st1, UOsErr)
        end
    end.

Fixpoint legacy_unzip_loop (dest : rpath) (st : ustate) (es : list entry) : ustate * ures :=
  match es with
  | [] => (st, UOk)
  | e :: es' =>
      let r := legacy_unzip_entry dest st e in
      match snd r with
      | UOk => legacy_unzip_loop dest (fst r) es'
      | _ => r
      end
  end.

Definition legacy_unzip (dest : rpath) (ar : list entry) (fs : fsys) : fsys * ures :=
  match ensure_dir fs dest with
  | None => (fs, UOsErr)
  | Some fs1 =>
      let r := legacy_unzip_loop dest (fs1, []) ar in
      (fst (fst r), snd r)
  end.
