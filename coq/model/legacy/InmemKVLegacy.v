(** kvs/inmem/inmem.go BEFORE the fix of defect D6 (commit 2f2d445): there was no
    [get()] helper; only Get, GetMany and CasByVersion looked at ExpiresAt (and
    dropped the record); Create, Delete, ListKeys and WaitForVersionChange read
    [s.recs] directly and so treated an expired record as present.

    Same state, operation and result types as model/InmemKV.v; [im_get],
    [im_store], [im_put], [im_putmany], [im_getop], [im_getmany], [im_cas] are
    unchanged by the fix (the old methods had the same check inlined) and are
    re-used.  Used only by legacy_inmem_expiry_refuted.  No proofs here. *)
From Coq Require Import List ZArith NArith Arith Bool.
From GL Require Import spec.KV model.InmemKV.
Import ListNotations.

(* Create: if r, ok := s.recs[record.Key]; ok { return r.Version, ErrExist } *)
Definition leg_create (k : key) (v : value) (e : option Z) (s : imem) : imem * out :=
  match lookup k (m s) with
  | Some r => (s, OExist (ver r))
  | None => let '(s2, n) := im_store k v e s in (s2, OVer n)
  end.

(* Delete: if _, ok := s.recs[key]; !ok { ErrNotExist }; delete(s.recs, key) *)
Definition leg_delete (k : key) (s : imem) : imem * out :=
  match lookup k (m s) with
  | None => (s, ONotExist)
  | Some _ => (mkIm (remove k (m s)) (nxt s), OOk)
  end.

(* ListKeys: for k := range s.recs { if g.Match(k) { res = append(res, k) } } *)
Definition leg_listkeys (pat : list N) (s : imem) : imem * out :=
  (s, OKeys (filter (matches pat) (map fst (m s)))).

(* WaitForVersionChange, the locked section at the loop head: r, ok := s.recs[key] *)
Definition leg_wait_check (k : key) (v : nat) (s : imem) : imem * option out :=
  match lookup k (m s) with
  | None => (s, Some ONotExist)
  | Some r => if Nat.eqb (ver r) v then (s, None) else (s, Some OOk)
  end.

Definition leg_step (s : imem) (now : Z) (o : op) : imem * out :=
  match o with
  | Create k v e => leg_create k v e s
  | Delete k => leg_delete k s
  | ListKeys pat => leg_listkeys pat s
  | _ => im_step s now o
  end.

Fixpoint leg_run (s : imem) (ops : list (Z * op)) : list out * imem :=
  match ops with
  | [] => ([], s)
  | (now, o) :: t =>
      let '(s', x) := leg_step s now o in
      let '(xs, sf) := leg_run s' t in (x :: xs, sf)
  end.
