(** Timed model of ONE tenure of the distributed lock of kvs/distlock/kvlock.go
    and of its contenders (C05: lease kept while held, lapses after death).

    Go code  <->  model
    - TryLock / lockWithCtx:  [Acquire] (time.Now().Add(leaseTTL) is computed and
      Create issued), [StCreate] (the storage applies Create), [AcqArm] (the reply
      is processed: l.future.Store(timeout.Call(supportTimeout(ver), leaseTTL/2))).
    - timeout.Call / watcher: a future armed at [at] with delay [d] runs its
      callback only when now.After(fireT), i.e. [at + d < now]  ([TimerFire]; the
      callback computes ExpiresAt = now + leaseTTL at that instant).
    - supportTimeout: [StCas f] is the CasByVersion call reaching (or not reaching)
      the storage, [Rearm] the success path (timeout.Call(.., leaseTTL/2) +
      future.CompareAndSwap), [RetryArm] the path of the D9 fix (an error other
      than ErrNotExist/ErrConflict: same version again after leaseTTL/10);
      ErrNotExist/ErrConflict end the chain ([TDone]).
    - Unlock: [Unlock c] = lckCntr CAS + future.Cancel(); [c = true]: Cancel found
      the future pending and removed it; [c = false]: Cancel had no effect (the
      callback already runs, or a watcher has already popped the future but the
      callback has not read the clock yet -- the model allows [c = false] in any
      state, a superset of what the code can do, so the theorems also cover an
      Unlock whose Cancel is lost).  [StDelete f] = Storage.Delete (deletes the
      record under the key whoever wrote it).
    - storage (kvs/inmem): a record with ExpiresAt.Before(now), i.e. [exp < now],
      is absent for every operation ([present]); [Expire] is the lazy removal.
      Versions are fresh: a counter.  [r_owner] is a ghost field (0 = the tenure
      under study, n > 0 = contender n).
    - [Die]: the holder stops (its process is gone / all its calls are
      black-holed): no timer fires, nothing is armed any more; a CAS that was
      already in flight may still be applied.
    - [ContenderTry n e] / [ContenderUnlock n]: another Locker's Create (with
      ExpiresAt = e, whatever that Locker computed) / Delete.

    Time is [Z] (nanoseconds in the correspondence run).  Timing assumptions are
    NOT part of [step]: they are the separate predicates [tick_ok]/[timely]
    (timer lateness bound [dl], storage call latency bound [ep]) and
    [fault_ok]/[faults_ok] (which faults the environment injects), which the
    theorems take as hypotheses.

    No proofs in this file. *)
From Coq Require Import List ZArith Bool.
Import ListNotations.
Open Scope Z_scope.

Record srec := mkRec { r_ver : Z; r_exp : Z; r_owner : Z }.

Inductive fault := FOk | FReqLost | FReplyLost.

(* the holder's thread *)
Inductive hstate :=
| HIdle
| HAcquiring (issued : Z)   (* Create issued at [issued], ExpiresAt = issued + TTL *)
| HCreated (issued : Z)     (* Create applied; its reply is not processed yet (no future armed) *)
| HFailed                   (* Create answered ErrExist: the tenure never started *)
| HHeld
| HUnlocking                (* Unlock invoked: future cancelled, Delete not yet at the storage *)
| HUnlocked
| HDead (d : Z).            (* died at time d *)

(* the renewal chain (the current timeout.Future and the callback it runs) *)
Inductive tstate :=
| TNone
| TArmed (armed delay : Z)      (* future armed at [armed], fires after [armed + delay] *)
| TFired (issued due : Z)       (* callback started at [issued] (ExpiresAt = issued + TTL); [due] = at + delay of the future that fired; CAS not yet at the storage *)
| TApplied (issued newver : Z)  (* CAS applied, new version [newver]; reply not processed yet *)
| TLost (issued : Z)            (* an error other than NotExist/Conflict is on its way back *)
| TDone                         (* chain ended: supportTimeout returned without arming *)
| TCancelled.                   (* armed future removed by Unlock's Cancel *)

Record state := mkSt {
  now : Z;
  rec : option srec;
  nextv : Z;          (* fresh version counter *)
  hs : hstate;
  tver : Z;           (* the version the renewal chain will present *)
  tst : tstate;
  fails : Z           (* ghost: consecutive request-lost renewals since the last applied one *)
}.

Definition init : state := mkSt 0 None 1 HIdle 0 TNone 0.

(* what a storage operation answers / what a local action shows *)
Inductive res :=
| RNone
| RCreated (v : Z)
| RExist
| RCasOk (v : Z)
| RNotExist
| RConflict
| RErr                         (* injected transport error (neither NotExist nor Conflict) *)
| RDeleted
| RRec (v exp : Z).            (* Probe: the stored record *)

Inductive label :=
| Tick (dt : Z)
| Acquire
| StCreate
| AcqArm
| TimerFire
| StCas (f : fault)
| Rearm
| RetryArm
| Unlock (c : bool)
| StDelete (f : fault)
| Die
| Expire
| ContenderTry (n e : Z)
| ContenderUnlock (n : Z)
| Probe.

(* kvs/inmem get(): an expired record (ExpiresAt.Before(now)) is absent *)
Definition present (s : state) : option srec :=
  match rec s with
  | Some r => if r_exp r <? now s then None else Some r
  | None => None
  end.

Definition set_now (s : state) (t : Z) : state :=
  mkSt t (rec s) (nextv s) (hs s) (tver s) (tst s) (fails s).
Definition set_rec (s : state) (r : option srec) : state :=
  mkSt (now s) r (nextv s) (hs s) (tver s) (tst s) (fails s).
Definition set_hs (s : state) (h : hstate) : state :=
  mkSt (now s) (rec s) (nextv s) h (tver s) (tst s) (fails s).
Definition set_tst (s : state) (t : tstate) : state :=
  mkSt (now s) (rec s) (nextv s) (hs s) (tver s) t (fails s).

Definition is_dead (h : hstate) : bool := match h with HDead _ => true | _ => false end.

(* the holder holds the lock: from the applied Create until Unlock is invoked / it dies *)
Definition alive (s : state) : bool :=
  match hs s with HCreated _ | HHeld => true | _ => false end.

Definition half (TTL : Z) : Z := TTL / 2.     (* l.dlp.leaseTTL / 2  *)
Definition tenth (TTL : Z) : Z := TTL / 10.   (* l.dlp.leaseTTL / 10 *)

Definition step (TTL : Z) (s : state) (l : label) : option (state * res) :=
  match l with
  | Tick dt => if 0 <=? dt then Some (set_now s (now s + dt), RNone) else None
  | Acquire =>
      match hs s with
      | HIdle => Some (set_hs s (HAcquiring (now s)), RNone)
      | _ => None
      end
  | StCreate =>
      match hs s with
      | HAcquiring i =>
          match present s with
          | None =>
              Some (mkSt (now s) (Some (mkRec (nextv s) (i + TTL) 0)) (nextv s + 1)
                         (HCreated i) (nextv s) (tst s) (fails s), RCreated (nextv s))
          | Some _ => Some (set_hs s HFailed, RExist)
          end
      | _ => None
      end
  | AcqArm =>
      match hs s with
      | HCreated _ =>
          Some (mkSt (now s) (rec s) (nextv s) HHeld (tver s) (TArmed (now s) (half TTL)) (fails s), RNone)
      | _ => None
      end
  | TimerFire =>
      match tst s with
      | TArmed a d =>
          if (a + d <? now s) && negb (is_dead (hs s))
          then Some (set_tst s (TFired (now s) (a + d)), RNone) else None
      | _ => None
      end
  | StCas f =>
      match tst s with
      | TFired i _ =>
          match f with
          | FReqLost =>
              Some (mkSt (now s) (rec s) (nextv s) (hs s) (tver s) (TLost i) (fails s + 1), RErr)
          | _ =>
              let lost := match f with FReplyLost => true | _ => false end in
              match present s with
              | None =>
                  Some (mkSt (now s) None (nextv s) (hs s) (tver s)
                             (if lost then TLost i else TDone) (fails s),
                        if lost then RErr else RNotExist)
              | Some r =>
                  if r_ver r =? tver s then
                    Some (mkSt (now s) (Some (mkRec (nextv s) (i + TTL) 0)) (nextv s + 1) (hs s) (tver s)
                               (if lost then TLost i else TApplied i (nextv s))
                               (if lost then fails s else 0),
                          if lost then RErr else RCasOk (nextv s))
                  else
                    Some (set_tst s (if lost then TLost i else TDone),
                          if lost then RErr else RConflict)
              end
          end
      | _ => None
      end
  | Rearm =>
      match tst s with
      | TApplied _ v =>
          if is_dead (hs s) then None
          else Some (mkSt (now s) (rec s) (nextv s) (hs s) v (TArmed (now s) (half TTL)) (fails s), RNone)
      | _ => None
      end
  | RetryArm =>
      match tst s with
      | TLost _ =>
          if is_dead (hs s) then None
          else Some (set_tst s (TArmed (now s) (tenth TTL)), RNone)
      | _ => None
      end
  | Unlock c =>
      match hs s with
      | HHeld =>
          Some (mkSt (now s) (rec s) (nextv s) HUnlocking (tver s)
                     (match tst s with TArmed _ _ => if c then TCancelled else tst s | t => t end)
                     (fails s), RNone)
      | _ => None
      end
  | StDelete f =>
      match hs s with
      | HUnlocking =>
          match f with
          | FReqLost => Some (set_hs s HUnlocked, RErr)
          | _ =>
              let lost := match f with FReplyLost => true | _ => false end in
              match present s with
              | Some _ => Some (set_hs (set_rec s None) HUnlocked, if lost then RErr else RDeleted)
              | None => Some (set_hs (set_rec s None) HUnlocked, if lost then RErr else RNotExist)
              end
          end
      | _ => None
      end
  | Die =>
      match hs s with
      | HCreated _ | HHeld => Some (set_hs s (HDead (now s)), RNone)
      | _ => None
      end
  | Expire =>
      match rec s with
      | Some r => if r_exp r <? now s then Some (set_rec s None, RNone) else None
      | None => None
      end
  | ContenderTry n e =>
      if 0 <? n then
        match present s with
        | None =>
            Some (mkSt (now s) (Some (mkRec (nextv s) e n)) (nextv s + 1)
                       (hs s) (tver s) (tst s) (fails s), RCreated (nextv s))
        | Some _ => Some (s, RExist)
        end
      else None
  | ContenderUnlock n =>
      match present s with
      | Some r => if (0 <? n) && (r_owner r =? n) then Some (set_rec s None, RDeleted) else None
      | None => None
      end
  | Probe =>
      match present s with
      | Some r => Some (s, RRec (r_ver r) (r_exp r))
      | None => Some (set_rec s None, RNotExist)
      end
  end.

Definition step_st (TTL : Z) (s : state) (l : label) : option state :=
  match step TTL s l with Some (s', _) => Some s' | None => None end.

Fixpoint run (TTL : Z) (s : state) (tr : list label) : option state :=
  match tr with
  | [] => Some s
  | l :: t => match step_st TTL s l with Some s' => run TTL s' t | None => None end
  end.

(* the results along a run (None when the trace is not accepted) *)
Fixpoint run_res (TTL : Z) (s : state) (tr : list label) : option (list res) :=
  match tr with
  | [] => Some []
  | l :: t =>
      match step TTL s l with
      | Some (s', r) => match run_res TTL s' t with Some rs => Some (r :: rs) | None => None end
      | None => None
      end
  end.

(** * Timing assumptions (hypotheses of the theorems, never built into [step])

    [dl]: a future of a live holder that is due at [at + delay] has its callback
    started and its CAS at the storage (applied or lost) no later than
    [at + delay + dl].
    [ep]: a Create / CasByVersion call of a live holder is answered, and the
    answer processed (future armed), no later than [ep] after it was issued. *)
Definition tick_ok (dl ep : Z) (s : state) (l : label) : bool :=
  match l with
  | Tick dt =>
      let n := now s + dt in
      match hs s with
      | HAcquiring i => n <=? i + ep
      | HCreated i => n <=? i + ep
      | HHeld =>
          match tst s with
          | TArmed a d => n <=? a + d + dl
          | TFired i due => (n <=? due + dl) && (n <=? i + ep)
          | TApplied i _ => n <=? i + ep
          | TLost i => n <=? i + ep
          | _ => true
          end
      | _ => true
      end
  | _ => true
  end.

Fixpoint timely (TTL dl ep : Z) (s : state) (tr : list label) : bool :=
  match tr with
  | [] => true
  | l :: t =>
      tick_ok dl ep s l &&
      match step_st TTL s l with Some s' => timely TTL dl ep s' t | None => true end
  end.

(* the environment only loses requests of renewal calls, never replies, and never
   more than [k] renewals in a row; Delete is not faulted *)
Definition fault_ok (k : Z) (s : state) (l : label) : bool :=
  match l with
  | StCas FOk => true
  | StCas FReqLost => fails s <? k
  | StCas FReplyLost => false
  | StDelete FOk => true
  | StDelete _ => false
  | _ => true
  end.

Fixpoint faults_ok (TTL k : Z) (s : state) (tr : list label) : bool :=
  match tr with
  | [] => true
  | l :: t =>
      fault_ok k s l &&
      match step_st TTL s l with Some s' => faults_ok TTL k s' t | None => true end
  end.

(* the arithmetic premise under which [k] consecutive request-lost renewals are survived *)
Definition lease_premise (TTL dl ep k : Z) : Prop :=
  0 < TTL /\ 0 <= dl /\ 0 <= ep /\ 0 <= k /\
  half TTL + k * tenth TTL + (k + 1) * (dl + ep) < TTL.

Definition lease_premiseb (TTL dl ep k : Z) : bool :=
  (0 <? TTL) && (0 <=? dl) && (0 <=? ep) && (0 <=? k) &&
  (half TTL + k * tenth TTL + (k + 1) * (dl + ep) <? TTL).

(* the lease of the live holder is in force *)
Definition lease_ok (s : state) : bool :=
  match rec s with
  | Some r => (r_owner r =? 0) && (now s <? r_exp r)
  | None => false
  end.

(* the record of the tenure under study is not in the way of anybody *)
Definition holder_rec_absent (s : state) : bool :=
  match present s with
  | Some r => negb (r_owner r =? 0)
  | None => true
  end.
