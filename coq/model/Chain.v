(** L2: the ordered map as a list of cells in link order.

    The same algorithm as L1 (state Last|Ok|Deleted, reference counts, the
    [next] loop, unlink at zero) with [prev]/[next] implicit in the list
    order, [head] = first cell, [last] = last cell, unlink = list removal.
    A cell is named by its stamp (the number of the [Add] that filled or will
    fill it; the trailing sentinel carries the next stamp), so there are no
    node ids, no pool and no allocation choices at this level.  Introduced to
    split the refinement proof; also executable and run against the
    implementation by the correspondence check.

    No proofs in this file. *)
From Coq Require Import List ZArith Arith Bool.
From GL Require Import lib.IMapBase.
Import ListNotations.
Open Scope Z_scope.

Record cell := mkCell { c_stamp : nat; c_st : nstate; c_ref : Z; c_key : Z; c_val : Z }.

Definition cset_st (x : nstate) (c : cell) := mkCell (c_stamp c) x (c_ref c) (c_key c) (c_val c).
Definition cset_ref (x : Z) (c : cell) := mkCell (c_stamp c) (c_st c) x (c_key c) (c_val c).
Definition cset_val (x : Z) (c : cell) := mkCell (c_stamp c) (c_st c) (c_ref c) (c_key c) x.

Record chain := mkChain {
  cells : list cell;
  cvals : list (Z * nat);      (* key -> stamp of its cell *)
  citers : list (Z * nat)      (* open iterators: name -> stamp of the cell they sit on *)
}.

Definition c_new : chain := mkChain [mkCell 0 StLast 0 0 0] [] [].

Definition at_stamp (s : nat) (c : cell) : bool := Nat.eqb (c_stamp c) s.

Definition cfind (s : nat) (cs : list cell) : res cell := deref (find (at_stamp s) cs).
Definition cupd (s : nat) (f : cell -> cell) (cs : list cell) : list cell :=
  map (fun c => if at_stamp s c then f c else c) cs.
Definition cdel (s : nat) (cs : list cell) : list cell :=
  filter (fun c => negb (at_stamp s c)) cs.

(* stamp of the cell that follows the cell with stamp [s] *)
Fixpoint csucc (s : nat) (cs : list cell) : option nat :=
  match cs with
  | [] => None
  | c :: t => if at_stamp s c then option_map c_stamp (hd_error t) else csucc s t
  end.

(* rlItem.delete on the cell with stamp [s] *)
Definition c_delete (cs : list cell) (s : nat) : res (list cell) :=
  c <- cfind s cs ;;
  match c_st c with
  | StLast => Ok cs
  | _ =>
      if c_ref c =? 0 then
        _ <- deref (csucc s cs) ;;
        Ok (cdel s cs)
      else Ok (cupd s (fun c => cset_st StDeleted (cset_val 0 c)) cs)
  end.

(* Map.next *)
Fixpoint c_next (fuel : nat) (cs : list cell) (s : nat) : res (list cell * nat) :=
  match fuel with
  | O => NoFuel
  | S f =>
      c <- cfind s cs ;;
      match c_st c with
      | StLast => Ok (cs, s)
      | _ =>
          let r := c_ref c - 1 in
          np <- deref (csucc s cs) ;;
          let cs := cupd s (cset_ref r) cs in
          cs <- (if nstate_eqb (c_st c) StDeleted && (r <=? 0) then c_delete cs s else Ok cs) ;;
          c' <- cfind np cs ;;
          let cs := cupd np (cset_ref (c_ref c' + 1)) cs in
          if nstate_eqb (c_st c') StDeleted then c_next f cs np else Ok (cs, np)
      end
  end.

Definition cfuel (cs : list cell) : nat := S (length cs).

(* Map.getValue *)
Definition c_getvalue (cs : list cell) (s : nat) : res (list cell * nat) :=
  c <- cfind s cs ;;
  if nstate_eqb (c_st c) StDeleted then c_next (cfuel cs) cs s else Ok (cs, s).

(* Map.release *)
Definition c_release (cs : list cell) (s : nat) : res (list cell) :=
  c <- cfind s cs ;;
  let cs := cupd s (cset_ref (c_ref c - 1)) cs in
  if nstate_eqb (c_st c) StDeleted then c_delete cs s else Ok cs.

Definition clast (cs : list cell) : res cell := deref (List.last (map Some cs) None).

Definition c_add (s : chain) (k v : Z) : res (chain * out) :=
  match alookup k (cvals s) with
  | Some _ => Ok (s, OutErr)
  | None =>
      l <- clast (cells s) ;;
      match c_st l with
      | StLast =>
          let cs := cupd (c_stamp l) (fun c => mkCell (c_stamp c) StOk (c_ref c) k v) (cells s) in
          Ok (mkChain (cs ++ [mkCell (S (c_stamp l)) StLast 0 0 0]) ((k, c_stamp l) :: cvals s) (citers s),
              OutUnit)
      | _ => Panic
      end
  end.

Definition c_get (s : chain) (k : Z) : res (chain * out) :=
  match alookup k (cvals s) with
  | Some x => c <- cfind x (cells s) ;; Ok (s, OutGet (Some (c_val c)))
  | None => Ok (s, OutGet None)
  end.

Definition c_remove (s : chain) (k : Z) : res (chain * out) :=
  match alookup k (cvals s) with
  | Some x =>
      cs <- c_delete (cells s) x ;;
      Ok (mkChain cs (aremove k (cvals s)) (citers s), OutUnit)
  | None => Ok (s, OutUnit)
  end.

Definition c_iterator (s : chain) (name : Z) : res (chain * out) :=
  hd <- deref (hd_error (cells s)) ;;
  Ok (mkChain (cupd (c_stamp hd) (cset_ref (c_ref hd + 1)) (cells s)) (cvals s)
        ((name, c_stamp hd) :: citers s), OutUnit).

Definition c_hasnext (s : chain) (name : Z) : res (chain * out) :=
  p <- deref (alookup name (citers s)) ;;
  '(cs, p) <- c_getvalue (cells s) p ;;
  c <- cfind p cs ;;
  Ok (mkChain cs (cvals s) (aset name p (citers s)), OutBool (negb (nstate_eqb (c_st c) StLast))).

Definition c_itnext (s : chain) (name : Z) : res (chain * out) :=
  p <- deref (alookup name (citers s)) ;;
  '(cs, p) <- c_getvalue (cells s) p ;;
  c <- cfind p cs ;;
  let has := negb (nstate_eqb (c_st c) StLast) in
  '(cs, p') <- c_next (cfuel cs) cs p ;;
  Ok (mkChain cs (cvals s) (aset name p' (citers s)),
      OutNext (if has then Some (c_key c, c_val c) else None)).

Definition c_close (s : chain) (name : Z) : res (chain * out) :=
  p <- deref (alookup name (citers s)) ;;
  cs <- c_release (cells s) p ;;
  Ok (mkChain cs (cvals s) (aremove name (citers s)), OutUnit).

Definition c_first (s : chain) : res (chain * out) :=
  let name := fresh_name (akeys (citers s)) in
  '(s, _) <- c_iterator s name ;;
  '(s, o) <- c_itnext s name ;;
  '(s, _) <- c_close s name ;;
  Ok (s, match o with OutNext (Some (k, _)) => OutFirst (Some k) | _ => OutFirst None end).

Definition c_do (s : chain) (o : op) : res (chain * out) :=
  match o with
  | OAdd k v => c_add s k v
  | ORemove k => c_remove s k
  | OGet k => c_get s k
  | OLen => Ok (s, OutLen (length (cvals s)))
  | OFirst => c_first s
  | ONewIter i => c_iterator s i
  | OHasNext i => c_hasnext s i
  | ONext i => c_itnext s i
  | OClose i => c_close s i
  end.

Definition c_step (s : chain) (o : op) : chain * out :=
  match c_do s o with
  | Ok r => r
  | Panic => (s, OutPanic)
  | NoFuel => (s, OutNoFuel)
  end.

Definition run_chain (h : list op) : list out := outs c_step c_new h.

(** number of cells pinned by iterators (removed entries still on the chain) *)
Definition c_pinned (s : chain) : nat :=
  length (filter (fun c => nstate_eqb (c_st c) StDeleted) (cells s)).

Definition c_sum_ref (s : chain) : Z := fold_right (fun c acc => c_ref c + acc) 0 (cells s).
