(** The LRU cache of container/lru/ecache.go as the sequences of ordered-map
    calls it makes (single-threaded view: what happens between Lock and
    Unlock; the in-flight table and the create callback are represented by
    the scripted result carried by the operation).  Written once over an
    arbitrary map machine [step], instantiated with the pointer model L1 (for
    the node-count theorems of C11 and for running), the chain L2 and the
    specification.

      GetOrCreate  lc_getorcreate     Remove  lc_remove     Clear  lc_clear

    No proofs in this file. *)
From Coq Require Import List ZArith Arith Bool.
From GL Require Import lib.IMapBase.
Import ListNotations.
Open Scope Z_scope.

Inductive cop :=
| CGetOrCreate (k v : Z) (ok : bool)   (* createNewF(k) would return (v, nil) if ok, an error otherwise *)
| CRemove (k : Z)
| CClear.

Inductive cout :=
| CHit (v : Z)                          (* resident: value returned, no create call *)
| CMiss (v : Z) (evicted : option (Z * Z))   (* created and inserted; onDeleteF(k, v) of the evicted entry *)
| CFail                                 (* create failed *)
| CRemoved (b : bool)
| CCleared (n : nat)
| CStop.                                (* the map panicked / ran out of fuel *)

Definition cout_eqb (a b : cout) : bool :=
  match a, b with
  | CHit x, CHit y => x =? y
  | CMiss x None, CMiss y None => x =? y
  | CMiss x (Some (k1, v1)), CMiss y (Some (k2, v2)) => (x =? y) && (k1 =? k2) && (v1 =? v2)
  | CFail, CFail | CStop, CStop => true
  | CRemoved x, CRemoved y => Bool.eqb x y
  | CCleared x, CCleared y => Nat.eqb x y
  | _, _ => false
  end.

Section Cache.
Context {M : Type} (step : M -> op -> M * out).

(* cache state: the map and the number of Clear calls so far (names the iterator Clear opens) *)
Record lru := mkLru { l_map : M; l_clears : Z }.

Definition mstep (s : M) (o : op) : res (M * out) :=
  let '(s', x) := step s o in
  match x with OutPanic => Panic | OutNoFuel => NoFuel | _ => Ok (s', x) end.

(* GetOrCreate, first critical section (hit) and second one (after createNewF) *)
Definition lc_getorcreate (cap : nat) (m : M) (k v : Z) (ok : bool) : res (M * cout) :=
  '(m, r) <- mstep m (OGet k) ;;                       (* p.items.Get(k) *)
  match r with
  | OutGet (Some x) =>
      '(m, _) <- mstep m (ORemove k) ;;                (* p.items.Remove(k) *)
      '(m, _) <- mstep m (OAdd k x) ;;                 (* p.items.Add(k, res) *)
      Ok (m, CHit x)
  | _ =>
      if ok then
        '(m, _) <- mstep m (OAdd k v) ;;               (* p.items.Add(k, pair{pk, v}) *)
        '(m, rl) <- mstep m OLen ;;
        match rl with
        | OutLen n =>
            if (cap <? n)%nat then                     (* p.maxSize < p.items.Len() *)
              '(m, rf) <- mstep m OFirst ;;            (* k, _ := p.items.First() *)
              let fk := match rf with OutFirst (Some x) => x | _ => 0 end in
              '(m, rg) <- mstep m (OGet fk) ;;         (* v, _ := p.items.Get(k) *)
              let fv := match rg with OutGet (Some x) => x | _ => 0 end in
              '(m, _) <- mstep m (ORemove fk) ;;       (* p.items.Remove(k) *)
              Ok (m, CMiss v (Some (fk, fv)))          (* p.onDeleteF(v.pk, v.v) *)
            else Ok (m, CMiss v None)
        | _ => Panic
        end
      else Ok (m, CFail)
  end.

Definition lc_remove (m : M) (k : Z) : res (M * cout) :=
  '(m, r) <- mstep m (OGet k) ;;
  match r with
  | OutGet (Some _) => '(m, _) <- mstep m (ORemove k) ;; Ok (m, CRemoved true)
  | _ => Ok (m, CRemoved false)
  end.

(* for it.HasNext() { e, ok := it.Next(); if !ok { continue }; p.items.Remove(e.Key); removed++ } *)
Fixpoint lc_clear_loop (fuel : nat) (m : M) (it : Z) (removed : nat) : res (M * nat) :=
  match fuel with
  | O => NoFuel
  | S f =>
      '(m, rh) <- mstep m (OHasNext it) ;;
      match rh with
      | OutBool true =>
          '(m, rn) <- mstep m (ONext it) ;;
          match rn with
          | OutNext (Some (k, _)) =>
              '(m, _) <- mstep m (ORemove k) ;;
              lc_clear_loop f m it (S removed)
          | _ => lc_clear_loop f m it removed
          end
      | _ => Ok (m, removed)
      end
  end.

Definition clear_fuel (m : M) : nat :=
  match snd (step m OLen) with OutLen n => S (S n) | _ => O end.

Definition lc_clear (m : M) (it : Z) : res (M * cout) :=
  let fuel := clear_fuel m in
  '(m, _) <- mstep m (ONewIter it) ;;                  (* it := p.items.Iterator() *)
  '(m, n) <- lc_clear_loop fuel m it O ;;
  '(m, _) <- mstep m (OClose it) ;;                    (* defer it.Close()  (the fix 103acbd) *)
  Ok (m, CCleared n).

Definition lc_do (cap : nat) (s : lru) (o : cop) : res (lru * cout) :=
  match o with
  | CGetOrCreate k v ok =>
      '(m, x) <- lc_getorcreate cap (l_map s) k v ok ;; Ok (mkLru m (l_clears s), x)
  | CRemove k => '(m, x) <- lc_remove (l_map s) k ;; Ok (mkLru m (l_clears s), x)
  | CClear => '(m, x) <- lc_clear (l_map s) (l_clears s) ;; Ok (mkLru m (l_clears s + 1), x)
  end.

Definition lc_step (cap : nat) (s : lru) (o : cop) : lru * cout :=
  match lc_do cap s o with
  | Ok r => r
  | _ => (s, CStop)
  end.

(* outputs and the state after every operation *)
Fixpoint lc_run (cap : nat) (s : lru) (ops : list cop) : list (cout * lru) :=
  match ops with
  | [] => []
  | o :: t => let '(s', x) := lc_step cap s o in (x, s') :: lc_run cap s' t
  end.

End Cache.

Arguments mkLru {M} _ _.
Arguments l_map {M} _.
Arguments l_clears {M} _.
