(** The in-memory store (kvs/inmem/inmem.go) under concurrency.

    Every exported method starts with  s.lock.Lock(); defer s.lock.Unlock()  and
    touches the maps only inside: the whole method body is ONE critical section
    of the one mutex.  (Modelled, not verified: sync.Mutex gives mutual
    exclusion.)  A concurrent execution is therefore a run of the system of
    lib/Lin.v -- each call is  invocation . one atomic step . response  -- whose
    atomic step is the method body [InmemKV.im_step], executed at the instant
    time.Now() shows inside the section; instants never decrease.

    (WaitForVersionChange is not one critical section; it is the subject of C07.)
    No proofs in this file. *)
From Coq Require Import List ZArith NArith Arith Bool.
From GL Require Import spec.KV model.InmemKV.
Import ListNotations.

(* state: the store and the instant of the last critical section *)
Definition im_acc (st : imem * Z) (o : op) (r : out) (st' : imem * Z) : Prop :=
  (snd st <= snd st')%Z /\ im_step (fst st) (snd st') o = (fst st', r).
