(** Executable model of container/ringbuffer.go (ringBuffer[V]).

    The model follows the Go algorithm: a backing array of [size+1] slots and
    two indices [r] (next slot to read) and [w] (next slot to write).  Element
    type is [Z]; the Go zero value [*new(V)] is [0].  Loops ([ReadN], [Skip])
    are recursion on explicit fuel; the theorems show fuel 2 always suffices
    (the out-of-fuel flag is never raised).

    No proofs in this file: it must stay loadable when a proof breaks. *)
From Coq Require Import List ZArith Arith Bool.
Import ListNotations.
Open Scope Z_scope.

Record rb := mkRb { buf : list Z; rd : nat; wr : nat }.

Definition new_rb (size : nat) : rb := mkRb (repeat 0 (S size)) 0 0.

Definition blen (b : rb) : nat := length (buf b).

(* func (r *ringBuffer[V]) Len() int *)
Definition rb_len (b : rb) : nat :=
  if (rd b <=? wr b)%nat then (wr b - rd b)%nat
  else (blen b - (rd b - wr b))%nat.

(* func (r *ringBuffer[V]) Cap() int *)
Definition rb_cap (b : rb) : nat := (blen b - 1)%nat.

(* buf[i] = v *)
Fixpoint set_nth (l : list Z) (i : nat) (v : Z) : list Z :=
  match l, i with
  | [], _ => []
  | _ :: t, O => v :: t
  | h :: t, S i' => h :: set_nth t i' v
  end.

(* SliceFill(buf[from:from+cnt], 0) *)
Fixpoint zero_range (l : list Z) (from cnt : nat) : list Z :=
  match cnt with
  | O => l
  | S c => zero_range (set_nth l from 0) (S from) c
  end.

(* buf[from:from+cnt] *)
Definition slice (l : list Z) (from cnt : nat) : list Z := firstn cnt (skipn from l).

Definition wrap (b : rb) (i : nat) : nat := if (i =? blen b)%nat then O else i.

(* Write: returns (new state, ok?) ; ok=false is ErrExhausted *)
Definition rb_write (b : rb) (v : Z) : rb * bool :=
  if (rb_len b =? rb_cap b)%nat then (b, false)
  else (mkRb (set_nth (buf b) (wr b) v) (rd b) (wrap b (S (wr b))), true).

(* Read: None is io.EOF *)
Definition rb_read (b : rb) : rb * option Z :=
  if (rb_len b =? 0)%nat then (b, None)
  else (mkRb (set_nth (buf b) (rd b) 0) (wrap b (S (rd b))) (wr b),
        Some (nth (rd b) (buf b) 0)).

(* ReadN(dst) with len(dst) = k.  Returns the state, the values copied to the
   front of dst (their number is the result of ReadN) and an out-of-fuel flag. *)
Fixpoint rb_readn_loop (fuel : nat) (b : rb) (k : nat) (acc : list Z) : rb * list Z * bool :=
  if ((0 <? k) && (0 <? rb_len b))%nat then
    match fuel with
    | O => (b, acc, true)
    | S f =>
        let endIdx := if (rd b <? wr b)%nat then wr b else blen b in
        let cnt := Nat.min k (endIdx - rd b) in
        let vals := slice (buf b) (rd b) cnt in
        let b' := mkRb (zero_range (buf b) (rd b) cnt) (wrap b (rd b + cnt)) (wr b) in
        rb_readn_loop f b' (k - cnt) (acc ++ vals)
    end
  else (b, acc, false).

Definition rb_readn (b : rb) (k : nat) : rb * list Z * bool := rb_readn_loop 2 b k [].

(* Skip(n) with n an arbitrary Go int *)
Fixpoint rb_skip_loop (fuel : nat) (b : rb) (n : Z) (res : nat) : rb * nat * bool :=
  if ((0 <? n) && (0 <? rb_len b)%nat) then
    match fuel with
    | O => (b, res, true)
    | S f =>
        let n1 := if (Z.of_nat (rb_len b) <? n) then rb_len b else Z.to_nat n in
        let endIdx := if (blen b <=? rd b + n1)%nat then blen b else (rd b + n1)%nat in
        let cnt := (endIdx - rd b)%nat in
        let b' := mkRb (zero_range (buf b) (rd b) cnt) (wrap b endIdx) (wr b) in
        rb_skip_loop f b' (Z.of_nat (n1 - cnt)) (res + cnt)
    end
  else (b, res, false).

Definition rb_skip (b : rb) (n : Z) : rb * nat * bool := rb_skip_loop 2 b n 0.

(* At(idx): None is the panic *)
Definition rb_at (b : rb) (i : Z) : option Z :=
  if (i <? 0) || (Z.of_nat (rb_len b) <=? i) then None
  else
    let j := (rd b + Z.to_nat i)%nat in
    let d := if (blen b <=? j)%nat then blen b else O in
    Some (nth (j - d) (buf b) 0).

(* Clear() = Skip(Len()) *)
Definition rb_clear (b : rb) : rb * bool :=
  let '(b', _, oof) := rb_skip b (Z.of_nat (rb_len b)) in (b', oof).

(** * Operations and outputs (shared by model, spec and the correspondence run) *)

Inductive op :=
| OWrite (v : Z) | ORead | OReadN (k : nat) | OSkip (n : Z)
| OAt (i : Z) | OClear | OLen | OCap.

Inductive out :=
| OutOk            (* Write ok, Clear *)
| OutExhausted     (* Write -> ErrExhausted *)
| OutVal (v : Z)   (* Read / At value *)
| OutEOF           (* Read -> io.EOF *)
| OutVals (l : list Z)  (* ReadN: the values moved into dst, in order *)
| OutN (n : nat)   (* Skip / Len / Cap *)
| OutPanic         (* At out of range *)
| OutOfFuel.       (* model artefact; proved unreachable *)

Definition rb_step (b : rb) (o : op) : rb * out :=
  match o with
  | OWrite v => let '(b', ok) := rb_write b v in (b', if ok then OutOk else OutExhausted)
  | ORead => let '(b', r) := rb_read b in
             (b', match r with Some v => OutVal v | None => OutEOF end)
  | OReadN k => let '(b', vals, oof) := rb_readn b k in
                (b', if oof then OutOfFuel else OutVals vals)
  | OSkip n => let '(b', res, oof) := rb_skip b n in
               (b', if oof then OutOfFuel else OutN res)
  | OAt i => (b, match rb_at b i with Some v => OutVal v | None => OutPanic end)
  | OClear => let '(b', oof) := rb_clear b in (b', if oof then OutOfFuel else OutOk)
  | OLen => (b, OutN (rb_len b))
  | OCap => (b, OutN (rb_cap b))
  end.

Fixpoint rb_run (b : rb) (ops : list op) : list out * rb :=
  match ops with
  | [] => ([], b)
  | o :: t => let '(b', x) := rb_step b o in
              let '(xs, bf) := rb_run b' t in (x :: xs, bf)
  end.

(* number of slots of the backing array holding a non-zero value *)
Definition nonzero_slots (b : rb) : nat :=
  length (filter (fun x => negb (x =? 0)) (buf b)).
