(** Executable model of errors/errors.go and errors/grpc.go (package
    github.com/acquirecloud/golibs/errors) together with the parts of the Go
    standard library and of google.golang.org/grpc v1.55 (status, codes) they
    rely on.

    - [class]: the twelve sentinel errors ErrExist ... ErrCanceled (pointer
      identity in Go; a constructor here).
    - [code]: the seventeen gRPC codes, in numeric order ([code_num]).
    - [err]: non-nil error values, as the API builds them: a sentinel, a
      class-less leaf ([errors.New]), a leaf of another type whose [Is] method
      answers for a sentinel (syscall.ENOENT), a gRPC status error
      ([status.Error]), [fmt.Errorf("%s: %w", text, e)], the result of a
      successful [EmbedObject(o, e)], and wrapping TREES: a layer with several
      wrapped operands ([fmt.Errorf] with several %w verbs, [errors.Join], a
      custom type with [Unwrap() []error] or [Unwrap() error]).  The Go value
      [nil] is [None : option err].
    - messages ([err.Error()]) are token lists: the property only depends on
      where the embed marker "\x1bjson" occurs in a message and on what stands
      between two markers.  [Text] carries the bytes, so that a message can
      also be rendered to bytes ([render]) and searched like [strings.Split]
      does ([split_bytes]); the correspondence run compares both levels on
      every case and proofs/C19_Bytes.v relates them.
    - the two hand-maintained tables of grpc.go and the two default results
      are a parameter ([tables]); [std_tables] is the hand-written copy used
      by the normal build, coqgen/Gen_errors.v is regenerated from the Go
      source on every run.

    No proofs in this file. *)
From Coq Require Import List NArith Bool.
Import ListNotations.
Open Scope N_scope.

(** * Classes and codes *)

(* errors.go: var ( ErrExist ... ErrCanceled ) *)
Inductive class :=
| ErrExist | ErrNotExist | ErrClosed | ErrInvalid | ErrNotAuthorized | ErrDataLoss
| ErrCommunication | ErrInternal | ErrConflict | ErrExhausted | ErrUnimplemented
| ErrCanceled.

Definition all_classes : list class :=
  [ErrExist; ErrNotExist; ErrClosed; ErrInvalid; ErrNotAuthorized; ErrDataLoss;
   ErrCommunication; ErrInternal; ErrConflict; ErrExhausted; ErrUnimplemented;
   ErrCanceled].

Definition class_idx (c : class) : N :=
  match c with
  | ErrExist => 0 | ErrNotExist => 1 | ErrClosed => 2 | ErrInvalid => 3
  | ErrNotAuthorized => 4 | ErrDataLoss => 5 | ErrCommunication => 6
  | ErrInternal => 7 | ErrConflict => 8 | ErrExhausted => 9
  | ErrUnimplemented => 10 | ErrCanceled => 11
  end.

(* err == target on two sentinels *)
Definition class_eqb (a b : class) : bool := class_idx a =? class_idx b.

(* google.golang.org/grpc/codes: OK = 0 ... Unauthenticated = 16 *)
Inductive code :=
| OK | Canceled | Unknown | InvalidArgument | DeadlineExceeded | NotFound
| AlreadyExists | PermissionDenied | ResourceExhausted | FailedPrecondition
| Aborted | OutOfRange | Unimplemented | Internal | Unavailable | DataLoss
| Unauthenticated.

Definition all_codes : list code :=
  [OK; Canceled; Unknown; InvalidArgument; DeadlineExceeded; NotFound;
   AlreadyExists; PermissionDenied; ResourceExhausted; FailedPrecondition;
   Aborted; OutOfRange; Unimplemented; Internal; Unavailable; DataLoss;
   Unauthenticated].

Definition code_num (k : code) : N :=
  match k with
  | OK => 0 | Canceled => 1 | Unknown => 2 | InvalidArgument => 3
  | DeadlineExceeded => 4 | NotFound => 5 | AlreadyExists => 6
  | PermissionDenied => 7 | ResourceExhausted => 8 | FailedPrecondition => 9
  | Aborted => 10 | OutOfRange => 11 | Unimplemented => 12 | Internal => 13
  | Unavailable => 14 | DataLoss => 15 | Unauthenticated => 16
  end.

Definition code_eqb (a b : code) : bool := code_num a =? code_num b.

Definition oclass_eqb (a b : option class) : bool :=
  match a, b with
  | None, None => true
  | Some x, Some y => class_eqb x y
  | _, _ => false
  end.

(** * Messages *)

Definition bytes := list N.

(* an embedded object is identified with its JSON encoding (json.Marshal) *)
Definition obj := bytes.

Inductive tok :=
| Text (s : bytes)          (* bytes that contain no complete marker *)
| Marker                    (* jsonErrorMarker = "\x1bjson" *)
| Json (o : obj)            (* the JSON encoding of an object *)
| ClassText (c : class)     (* the text of a sentinel, e.g. "file already exists" *)
| StatusPrefix (k : code).  (* "rpc error: code = <k> desc = " *)

Definition msg := list tok.

(* the ": " of fmt.Errorf("%s: %w", ...) and of EmbedObject's format *)
Definition sep : tok := Text [58; 32].

Definition is_marker (t : tok) : bool := match t with Marker => true | _ => false end.

(* strings.Index(s, jsonErrorMarker) >= 0 *)
Definition has_marker (m : msg) : bool := existsb is_marker m.

Definition count_markers (m : msg) : nat := length (filter is_marker m).

(* strings.Split(s, jsonErrorMarker), on tokens *)
Fixpoint split_marker (m : msg) : list msg :=
  match m with
  | [] => [[]]
  | Marker :: r => [] :: split_marker r
  | t :: r => match split_marker r with
              | s :: ss => (t :: s) :: ss
              | [] => [[t]]                 (* unreachable: the result is never empty *)
              end
  end.

(* json.Unmarshal(segment, o) == nil : the segment must be the JSON encoding
   of an object (modelled: exactly one Json token) *)
Definition decode_segment (s : msg) : option obj :=
  match s with
  | [Json o] => Some o
  | _ => None
  end.

(** * Error values *)

(* the first result of f, in list order *)
Definition first_some {A B : Type} (f : A -> option B) : list A -> option B :=
  fix go (l : list A) : option B :=
    match l with
    | [] => None
    | a :: r => match f a with Some b => Some b | None => go r end
    end.

Inductive err :=
| Sentinel (c : class)               (* one of the package-level variables *)
| Plain (t : msg)                    (* errors.New(t): no class, no status *)
| IsLeaf (c : class) (t : msg)       (* a value of another (hashable) type whose Is method answers true for
                                        the sentinel c and for nothing else: syscall.ENOENT, a custom type *)
| Status (k : code) (m : msg)        (* status.Error(k, m), k <> OK *)
| Wrap (t : msg) (e : err)           (* fmt.Errorf("%s: %w", t, e); a custom type with Unwrap() error and this text *)
| Glue (t : msg) (e : err)           (* fmt.Errorf("%s%w", t, e): no separator *)
| Embed (o : obj) (e : err)          (* EmbedObject(o, e) when it neither panics nor gives up *)
| Multi (t0 : msg) (ps : list (err * msg)).
                                     (* a layer with the wrapped operands e1 .. en (n >= 1, all non-nil), in
                                        this order, and the text t0 ++ e1 ++ t1 ++ ... ++ en ++ tn:
                                        fmt.Errorf with several %w verbs (type fmt.wrapErrors; a nil operand is the
                                        text "%!w(<nil>)" and no operand), errors.Join (t0 empty, "\n" between
                                        the operands; nil operands are dropped), a custom type with
                                        Unwrap() []error.  errors.Unwrap of such a value is nil; errors.Is and
                                        errors.As visit the operands depth-first, left to right *)

(* the text of the operands of a Multi layer *)
Definition ops_text (message : err -> msg) (ps : list (err * msg)) : msg :=
  flat_map (fun p => let '(e', t) := p in message e' ++ t) ps.

(* err.Error() *)
Fixpoint message (e : err) : msg :=
  match e with
  | Sentinel c => [ClassText c]
  | Plain t => t
  | IsLeaf _ t => t
  | Status k m => StatusPrefix k :: m      (* Status.String() *)
  | Wrap t e' => t ++ sep :: message e'
  | Glue t e' => t ++ message e'
  | Embed o e' => Marker :: Json o :: Marker :: sep :: message e'
  | Multi t0 ps => t0 ++ ops_text message ps
  end.

Definition ops_msg (ps : list (err * msg)) : msg := ops_text message ps.

(* stdlib errors.Is(e, <sentinel c>): depth-first pre-order walk of the tree
   of Unwrap() error / Unwrap() []error, comparing pointers and asking Is
   methods; *status.Error has an Is method that only matches another
   *status.Error, *fmt.wrapError / *fmt.wrapErrors / *errors.joinError have none *)
Fixpoint is_chain (e : err) (c : class) : bool :=
  match e with
  | Sentinel c0 => class_eqb c0 c
  | Plain _ => false
  | IsLeaf c0 _ => class_eqb c0 c
  | Status _ _ => false
  | Wrap _ e' => is_chain e' c
  | Glue _ e' => is_chain e' c
  | Embed _ e' => is_chain e' c
  | Multi _ ps => existsb (fun p => let '(e', _) := p in is_chain e' c) ps
  end.

(* errors.As(err, &grpcstatus): the first error of the tree, in depth-first
   pre-order, that has a GRPCStatus method *)
Fixpoint inner_status (e : err) : option code :=
  match e with
  | Status k _ => Some k
  | Wrap _ e' => inner_status e'
  | Glue _ e' => inner_status e'
  | Embed _ e' => inner_status e'
  | Sentinel _ => None
  | Plain _ => None
  | IsLeaf _ _ => None
  | Multi _ ps => first_some (fun p => let '(e', _) := p in inner_status e') ps
  end.

(* the classes errors.Is can find in the tree (sentinels and Is-method
   leaves), in depth-first pre-order *)
Fixpoint classes_of (e : err) : list class :=
  match e with
  | Sentinel c => [c]
  | IsLeaf c _ => [c]
  | Plain _ => []
  | Status _ _ => []
  | Wrap _ e' => classes_of e'
  | Glue _ e' => classes_of e'
  | Embed _ e' => classes_of e'
  | Multi _ ps => flat_map (fun p => let '(e', _) := p in classes_of e') ps
  end.

(* all classes of the tree are one and the same class (or there is none): the
   well-formedness condition under which the result of GRPCStatusCode does not
   depend on the order in which Go ranges over the map errorsToCode *)
Definition uniform (e : err) : bool :=
  match classes_of e with
  | [] => true
  | c :: r => forallb (class_eqb c) r
  end.

Definition the_class (e : err) : option class := hd_error (classes_of e).

(* status.FromError (grpc 1.55) on a non-nil error: code and message of the Status *)
Definition from_error (e : err) : code * msg :=
  match e with
  | Status k m => (k, m)                               (* err.(grpcstatus) *)
  | _ => match inner_status e with
         | Some k => (k, message e)                    (* wrapped: code of the inner status, whole text *)
         | None => (Unknown, message e)                (* not a status error *)
         end
  end.

(* status.Code(err), err != nil *)
Definition status_code (e : err) : code := fst (from_error e).

(* status.Error(k, m): nil when k is OK *)
Definition status_error (k : code) (m : msg) : option err :=
  if code_eqb k OK then None else Some (Status k m).

(* status.Convert(err).Err(): what the peer receives when err crosses a gRPC boundary *)
Definition transport (e : err) : option err :=
  let '(k, m) := from_error e in status_error k m.

(* EmbedObject(o, e) for a marshalable non-nil o and a non-nil e.
   None: it panics (the message already contains a marker). *)
Definition embed_object (o : obj) (e : err) : option err :=
  if has_marker (message e) then None else Some (Embed o e).

(* ExtractObject(e, &o): the decoded object, None when it returns false *)
Definition extract (e : err) : option obj :=
  match split_marker (message e) with
  | [_; mid; _] => decode_segment mid
  | _ => None
  end.

(** * The tables of grpc.go *)

Record tables := mkTables {
  t_c2e : list (code * option class);   (* var grpcToErrors; None is nil *)
  t_e2c : list (class * code);          (* var errorsToCode *)
  t_def_class : option class;           (* FromGRPCError: result for a code that is not in grpcToErrors *)
  t_def_code : code                     (* GRPCStatusCode: result when nothing matches *)
}.

Fixpoint lookup_code (t : list (code * option class)) (k : code) : option (option class) :=
  match t with
  | [] => None
  | (k0, r) :: t' => if code_eqb k0 k then Some r else lookup_code t' k
  end.

Fixpoint lookup_class (t : list (class * code)) (c : class) : option code :=
  match t with
  | [] => None
  | (c0, k) :: t' => if class_eqb c0 c then Some k else lookup_class t' c
  end.

Section WithTables.
  Variable T : tables.

  (* grpcToErrors[k] with the fall-back of FromGRPCError; None is nil *)
  Definition from_code (k : code) : option class :=
    match lookup_code (t_c2e T) k with
    | Some r => r
    | None => t_def_class T
    end.

  (* errorsToCode[<sentinel c>] *)
  Definition to_code (c : class) : option code := lookup_class (t_e2c T) c.

  (* FromGRPCError(e), e != nil *)
  Definition from_grpc (e : err) : option class := from_code (status_code e).

  (* Is(e, <sentinel c>), e != nil *)
  Definition Is (e : err) (c : class) : bool :=
    if is_chain e c then true
    else match from_grpc e with
         | Some c0 => class_eqb c0 c       (* errors.Is(<sentinel c0>, <sentinel c>) *)
         | None => false                   (* errors.Is(nil, <sentinel c>) *)
         end.

  (* GRPCStatusCode(e), e != nil.  The `for e, c := range errorsToCode` loop
     visits the rows in an unspecified order; [find] visits them in table
     order.  At most one row can match a chain (C19_is_chain_unique), so the
     order does not matter. *)
  Definition grpc_status_code (e : err) : code :=
    let k := status_code e in
    if negb (code_eqb k Unknown) then k
    else
      match (match e with Sentinel c => to_code c | _ => None end) with   (* errorsToCode[err] *)
      | Some k' => k'
      | None =>
          match find (fun row => is_chain e (fst row)) (t_e2c T) with
          | Some row => snd row
          | None => t_def_code T
          end
      end.

  (* GRPCWrap(e), e != nil; None is a nil result *)
  Definition grpc_wrap (e : err) : option err :=
    if negb (code_eqb (status_code e) Unknown) then Some e
    else status_error (grpc_status_code e) (message e).

  (* FromGRPCErrorMsg(e), e != nil *)
  Definition grpc_msg (e : err) : msg := snd (from_error e).

  (** the same functions on possibly-nil errors *)
  Definition Is_o (e : option err) (c : class) : bool :=
    match e with Some e' => Is e' c | None => false end.
  Definition from_grpc_o (e : option err) : option class :=
    match e with Some e' => from_grpc e' | None => from_code OK end.
  Definition grpc_status_code_o (e : option err) : code :=
    match e with Some e' => grpc_status_code e' | None => OK end.
  Definition grpc_wrap_o (e : option err) : option err :=
    match e with Some e' => grpc_wrap e' | None => None end.
End WithTables.

Definition extract_o (e : option err) : option obj :=
  match e with Some e' => extract e' | None => None end.
Definition transport_o (e : option err) : option err :=
  match e with Some e' => transport e' | None => None end.
Definition grpc_msg_o (e : option err) : msg :=
  match e with Some e' => snd (from_error e') | None => [] end.

(** hand-written copy of the tables of grpc.go (coqgen/C19_Gen.v proves it
    equal to what the translator reads from the source) *)
Definition std_tables : tables :=
  mkTables
    [ (OK, None);
      (Canceled, Some ErrCanceled);
      (Unknown, Some ErrCommunication);
      (DeadlineExceeded, Some ErrCommunication);
      (ResourceExhausted, Some ErrExhausted);
      (InvalidArgument, Some ErrInvalid);
      (NotFound, Some ErrNotExist);
      (AlreadyExists, Some ErrExist);
      (Unauthenticated, Some ErrNotAuthorized);
      (PermissionDenied, Some ErrNotAuthorized);
      (DataLoss, Some ErrDataLoss);
      (Unimplemented, Some ErrUnimplemented);
      (FailedPrecondition, Some ErrConflict) ]
    [ (ErrExist, AlreadyExists);
      (ErrNotExist, NotFound);
      (ErrInvalid, InvalidArgument);
      (ErrNotAuthorized, PermissionDenied);
      (ErrInternal, Internal);
      (ErrDataLoss, DataLoss);
      (ErrExhausted, ResourceExhausted);
      (ErrUnimplemented, Unimplemented);
      (ErrConflict, FailedPrecondition);
      (ErrCanceled, Canceled) ]
    (Some ErrInternal)
    Internal.

(** what every theorem needs of the tables, as a computable check: a class
    never travels as OK (GRPCWrap would return nil) or as Unknown (the result
    would not be recognised as already wrapped), and its code maps back to it *)
Definition class_row_ok (T : tables) (c : class) : bool :=
  match to_code T c with
  | None => true
  | Some k => negb (code_eqb k OK) && negb (code_eqb k Unknown)
              && oclass_eqb (from_code T k) (Some c)
  end.

Definition tables_ok (T : tables) : bool :=
  forallb (class_row_ok T) all_classes
  && negb (code_eqb (t_def_code T) OK) && negb (code_eqb (t_def_code T) Unknown).

(** * Wrapping contexts *)

Inductive frame :=
| FWrap (t : msg)        (* fmt.Errorf("%s: %w", t, _) *)
| FGlue (t : msg)        (* fmt.Errorf("%s%w", t, _) *)
| FEmbed (o : obj)       (* EmbedObject(o, _) *)
| FMulti (t0 : msg) (before : list (err * msg)) (t : msg) (after : list (err * msg)).
                         (* a Multi layer with the hole as one of its operands: the operands [before]
                            stand to its left, [after] to its right, [t] is the text that follows the hole *)

Definition ctx := list frame.   (* outermost frame first: a path from the root of the tree to the hole *)

Fixpoint plug (c : ctx) (e : err) : err :=
  match c with
  | [] => e
  | FWrap t :: r => Wrap t (plug r e)
  | FGlue t :: r => Glue t (plug r e)
  | FEmbed o :: r => Embed o (plug r e)
  | FMulti t0 b t a :: r => Multi t0 (b ++ (plug r e, t) :: a)
  end.

(* building the same value through the API, innermost frame first; None: an
   EmbedObject call panicked *)
Fixpoint build (c : ctx) (e : err) : option err :=
  match c with
  | [] => Some e
  | f :: r =>
      match build r e with
      | None => None
      | Some e' =>
          match f with
          | FWrap t => Some (Wrap t e')
          | FGlue t => Some (Glue t e')
          | FEmbed o => embed_object o e'
          | FMulti t0 b t a => Some (Multi t0 (b ++ (e', t) :: a))
          end
      end
  end.

Definition frame_markers (f : frame) : nat :=
  match f with
  | FWrap t => count_markers t
  | FGlue t => count_markers t
  | FEmbed _ => 0
  | FMulti t0 b t a => count_markers (t0 ++ ops_msg b) + count_markers (t ++ ops_msg a)
  end.

(* no wrap text of the context (and no text of a side operand) contains a marker *)
Definition ctx_marker_free (c : ctx) : bool :=
  forallb (fun f => Nat.eqb (frame_markers f) 0) c.

Definition ctx_embeds (c : ctx) : list obj :=
  flat_map (fun f => match f with FEmbed o => [o] | _ => [] end) c.

(* a side operand that brings neither a class nor a status error into the tree
   (io.EOF, errors.New, context.Canceled, wrapped ones, joins of them ...) *)
Definition side_ok (s : err) : bool :=
  match classes_of s, inner_status s with
  | [], None => true
  | _, _ => false
  end.

Definition frame_sides_ok (f : frame) : bool :=
  match f with
  | FMulti _ b _ a => forallb (fun p => side_ok (fst p)) (b ++ a)
  | _ => true
  end.

(* exactly one class per tree: the hole is the only place where a class (or a status error) can stand *)
Definition ctx_sides_ok (c : ctx) : bool := forallb frame_sides_ok c.

(* a chain: no layer has more than one operand *)
Definition frame_linear (f : frame) : bool :=
  match f with FMulti _ _ _ _ => false | _ => true end.
Definition ctx_linear (c : ctx) : bool := forallb frame_linear c.

Fixpoint err_linear (e : err) : bool :=
  match e with
  | Wrap _ e' => err_linear e'
  | Glue _ e' => err_linear e'
  | Embed _ e' => err_linear e'
  | Multi _ _ => false
  | _ => true
  end.

(** * Byte level *)

Definition marker_bytes : bytes := [27; 106; 115; 111; 110].   (* "\x1bjson" *)

(* sentinel texts and code names are not compared: they are rendered as
   place-holders.  The only fact used is that they contain no ESC byte (the
   harness checks this of the real strings when it starts). *)
Definition render_tok (t : tok) : bytes :=
  match t with
  | Text s => s
  | Marker => marker_bytes
  | Json o => o
  | ClassText c => [60; 99; 48 + class_idx c; 62]          (* "<c?>" *)
  | StatusPrefix k => [60; 115; 48 + code_num k; 62; 32]   (* "<s?> " *)
  end.

Definition render (m : msg) : bytes := flat_map render_tok m.

Fixpoint starts_with (p s : bytes) : bool :=
  match p, s with
  | [], _ => true
  | _ :: _, [] => false
  | a :: p', b :: s' => (a =? b) && starts_with p' s'
  end.

(* list reversal in linear time (the [rev] of the standard library is
   quadratic: messages of 64 KB are evaluated) *)
Definition frev (l : bytes) : bytes := rev_append l [].

(* strings.Split(s, "\x1bjson"): left-most non-overlapping occurrences.
   [skip] counts the remaining bytes of an occurrence that has been found,
   [cur] is the current segment, reversed. *)
Fixpoint split_bytes_aux (s : bytes) (skip : nat) (cur : bytes) : list bytes :=
  match s with
  | [] => [frev cur]
  | b :: r =>
      match skip with
      | S k => split_bytes_aux r k cur
      | O => if starts_with marker_bytes s
             then frev cur :: split_bytes_aux r 4 []
             else split_bytes_aux r 0 (b :: cur)
      end
  end.

Definition split_bytes (s : bytes) : list bytes := split_bytes_aux s 0 [].

Fixpoint bytes_eqb (a b : bytes) : bool :=
  match a, b with
  | [], [] => true
  | x :: a', y :: b' => (x =? y) && bytes_eqb a' b'
  | _, _ => false
  end.

(* no occurrence of the marker starts anywhere in s *)
Fixpoint no_occurrence (s : bytes) : bool :=
  match s with
  | [] => true
  | _ :: r => negb (starts_with marker_bytes s) && no_occurrence r
  end.

Definition no_esc (s : bytes) : bool := forallb (fun b => negb (b =? 27)) s.

(* well-formed tokens: a Text is non-empty and has no complete marker inside,
   a JSON encoding has no ESC byte (encoding/json escapes control characters) *)
Definition tok_wf (t : tok) : bool :=
  match t with
  | Text [] => false
  | Text s => no_occurrence s
  | Json o => no_esc o
  | _ => true
  end.

(* 'j' 's' 'o' 'n': the bytes that can continue a marker begun in the
   previous token *)
Definition cont_byte (b : N) : bool :=
  (106 =? b) || (115 =? b) || (111 =? b) || (110 =? b).

Definition starts_safe (t : tok) : bool :=
  match render_tok t with
  | [] => false
  | b :: _ => negb (cont_byte b)
  end.

(* no marker can be formed across a token boundary: what follows a Text that
   contains an ESC byte does not start with a byte that continues a marker.
   Messages built by [message] from texts that are split at their markers
   satisfy this because of the ": " separators. *)
Fixpoint adjacent_ok (m : msg) : bool :=
  match m with
  | [] => true
  | t :: r =>
      match t, r with
      | Text s, y :: _ => no_esc s || starts_safe y
      | _, _ => true
      end && adjacent_ok r
  end.

Definition msg_wf (m : msg) : bool := forallb tok_wf m && adjacent_ok m.

(* an error value all of whose texts are well-formed one by one *)
Fixpoint err_wf (e : err) : bool :=
  match e with
  | Sentinel _ => true
  | Plain t => msg_wf t
  | Status _ m => msg_wf m
  | Wrap t e' => msg_wf t && err_wf e'
  | Glue t e' => msg_wf (t ++ message e') && err_wf e'   (* no separator: the junction itself must be safe *)
  | Embed o e' => no_esc o && err_wf e'
  | IsLeaf _ t => msg_wf t
  | Multi t0 ps => msg_wf (t0 ++ ops_msg ps)              (* no separators: the junctions themselves must be safe *)
                   && forallb (fun p => let '(e', _) := p in err_wf e') ps
  end.

(* ExtractObject's search on the rendered message: the bytes between the two markers *)
Definition middle_bytes (s : bytes) : option bytes :=
  match split_bytes s with
  | [_; mid; _] => Some mid
  | _ => None
  end.

Definition middle_tokens (m : msg) : option msg :=
  match split_marker m with
  | [_; mid; _] => Some mid
  | _ => None
  end.
