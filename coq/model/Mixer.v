(** Executable model of container/iterable/mixer.go (Mixer[E], srcDesc[E]).

    The model transcribes the Go code: two source descriptors with a
    one-element look-ahead ([load], [e]) and the 4-valued selector state [st]
    (0 = undecided, 1 = src1 selected, 2 = src2 selected, 3 = both exhausted),
    [selectState], [HasNext], [Next], [Reset] and [srcDesc.reset].

    Sources are list-backed iterators.  An item is a pair [(v, ok)]: what the
    source's [Next] returns for it.  [WrapIntSlice l] (intit.go) is the source
    whose items are all [(v, true)] and that supports [Reset]; the more general
    form (items with [ok = false] - "HasNext was true but Next has no value",
    allowed by the contract in iterator.go - and sources without [Reset]) is
    what the harness' own test iterator implements, so that the mixer's
    [e, load = it.Next()] assignment and the two failure paths of [Reset] are
    part of the correspondence run too.  Element type is [Z], zero value [0].

    No proofs in this file. *)
From Coq Require Import List ZArith Bool.
Import ListNotations.
Open Scope Z_scope.

(** * Selectors (the enum the harness uses; interpreted identically in Go) *)

Inductive sel := SelLt | SelLe | SelGt | SelGe | SelAlways1 | SelAlways2
               | SelLtK | SelLeK.   (* compare the keys x/2 (floor): distinct values can tie *)

Definition sel_fn (s : sel) (x y : Z) : bool :=
  match s with
  | SelLt => x <? y
  | SelLe => x <=? y
  | SelGt => y <? x
  | SelGe => y <=? x
  | SelAlways1 => true
  | SelAlways2 => false
  | SelLtK => Z.shiftr x 1 <? Z.shiftr y 1
  | SelLeK => Z.shiftr x 1 <=? Z.shiftr y 1
  end.

(** * List-backed sources (intit.go and the harness' test iterator) *)

Record src := mkSrc {
  s_orig : list (Z * bool);   (* the whole slice *)
  s_rest : list (Z * bool);   (* i[idx:] *)
  s_rst  : bool               (* implements golibs.Reseter *)
}.

Definition src_of (items : list (Z * bool)) (rst : bool) : src := mkSrc items items rst.

(* WrapIntSlice *)
Definition wrap_items (l : list Z) : list (Z * bool) := map (fun v => (v, true)) l.
Definition wrap_ints (l : list Z) : src := src_of (wrap_items l) true.

(* the values a source delivers (its items with ok = true), in order *)
Definition live_items (its : list (Z * bool)) : list Z := map fst (filter snd its).

(* every item except possibly the last one has ok = true: the one imparity
   between HasNext and Next that the contract in iterator.go describes (the
   last element vanished between the two calls) *)
Fixpoint tail_ok (its : list (Z * bool)) : bool :=
  match its with
  | [] => true
  | p :: t => match t with [] => true | _ :: _ => snd p && tail_ok t end
  end.

(* HasNext: idx < len(i) *)
Definition src_has_next (s : src) : bool :=
  match s_rest s with [] => false | _ :: _ => true end.

(* Next: (i[idx], ok) and idx++, or (0, false) at the end *)
Definition src_next (s : src) : src * (Z * bool) :=
  match s_rest s with
  | [] => (s, (0, false))
  | p :: t => (mkSrc (s_orig s) t (s_rst s), p)
  end.

(* Reset through the golibs.Reseter type assertion; false = not a Reseter *)
Definition src_reset (s : src) : src * bool :=
  if s_rst s then (mkSrc (s_orig s) (s_orig s) (s_rst s), true) else (s, false).

(** * The mixer *)

(* srcDesc[E] *)
Record desc := mkDesc { d_it : src; d_load : bool; d_e : Z }.

(* the byte [st]; only the constants 0..3 are ever assigned to it *)
Inductive mst := St0 | St1 | St2 | St3.

Definition mst_eqb (a b : mst) : bool :=
  match a, b with
  | St0, St0 | St1, St1 | St2, St2 | St3, St3 => true
  | _, _ => false
  end.

(* Mixer[E]; the selector [sf] is fixed by Init and passed separately *)
Record mixer := mkMixer { m_src1 : desc; m_src2 : desc; m_st : mst }.

(* Init *)
Definition mx_init (it1 it2 : src) : mixer :=
  mkMixer (mkDesc it1 false 0) (mkDesc it2 false 0) St0.

(* if !sd.load && sd.it.HasNext() { sd.e, sd.load = sd.it.Next() } *)
Definition desc_load (d : desc) : desc :=
  if negb (d_load d) && src_has_next (d_it d) then
    let '(it', (v, ok)) := src_next (d_it d) in mkDesc it' ok v
  else d.

(* selectState *)
Definition select_state (sf : Z -> Z -> bool) (m : mixer) : mixer :=
  match m_st m with
  | St0 =>
      let d1 := desc_load (m_src1 m) in
      let d2 := desc_load (m_src2 m) in
      let st :=
        if negb (d_load d1) && negb (d_load d2) then St3
        else if negb (d_load d1) then St2
        else if negb (d_load d2) || sf (d_e d1) (d_e d2) then St1
        else St2 in
      mkMixer d1 d2 st
  | _ => m
  end.

(* HasNext *)
Definition mx_has_next (sf : Z -> Z -> bool) (m : mixer) : mixer * bool :=
  let m' := select_state sf m in (m', negb (mst_eqb (m_st m') St3)).

(* Next: (value, ok) *)
Definition mx_next (sf : Z -> Z -> bool) (m : mixer) : mixer * (Z * bool) :=
  let m' := select_state sf m in
  match m_st m' with
  | St1 =>
      let d := m_src1 m' in
      (mkMixer (mkDesc (d_it d) false (d_e d)) (m_src2 m') St0, (d_e d, true))
  | St2 =>
      let d := m_src2 m' in
      (mkMixer (m_src1 m') (mkDesc (d_it d) false (d_e d)) St0, (d_e d, true))
  | _ => (m', (0, false))
  end.

(* srcDesc.reset: the look-ahead is dropped before the type assertion *)
Definition desc_reset (d : desc) : desc * bool :=
  let '(it', ok) := src_reset (d_it d) in (mkDesc it' false 0, ok).

Inductive rres :=
| ROk            (* nil *)
| RUnimpl        (* errors.Is(err, ErrUnimplemented): src1 is not a Reseter *)
| RDataLoss      (* errors.Is(err, ErrDataLoss): src2 is not a Reseter *)
| ROther.        (* any other error; the model never yields it *)

(* Reset: note that [st] is only cleared when both sources were reset *)
Definition mx_reset (m : mixer) : mixer * rres :=
  let '(d1, ok1) := desc_reset (m_src1 m) in
  if ok1 then
    let '(d2, ok2) := desc_reset (m_src2 m) in
    if ok2 then (mkMixer d1 d2 St0, ROk)
    else (mkMixer d1 d2 (m_st m), RDataLoss)
  else (mkMixer d1 (m_src2 m) (m_st m), RUnimpl).

(** * Calls and outputs (shared by model, spec and the correspondence run) *)

Inductive call := CHasNext | CNext | CReset.

Inductive out :=
| OHas (b : bool)
| ONext (v : Z) (ok : bool)
| OReset (r : rres)
| OPanic.          (* observation of the implementation only; the model never yields it *)

Definition mx_step (sf : Z -> Z -> bool) (m : mixer) (c : call) : mixer * out :=
  match c with
  | CHasNext => let '(m', b) := mx_has_next sf m in (m', OHas b)
  | CNext => let '(m', (v, ok)) := mx_next sf m in (m', ONext v ok)
  | CReset => let '(m', r) := mx_reset m in (m', OReset r)
  end.

Fixpoint mx_run (sf : Z -> Z -> bool) (m : mixer) (cs : list call) : list out * mixer :=
  match cs with
  | [] => ([], m)
  | c :: t => let '(m', o) := mx_step sf m c in
              let '(os, mf) := mx_run sf m' t in (o :: os, mf)
  end.

(* the values of the successful Next calls among some outputs *)
Fixpoint next_vals (os : list out) : list Z :=
  match os with
  | [] => []
  | ONext v true :: t => v :: next_vals t
  | _ :: t => next_vals t
  end.
