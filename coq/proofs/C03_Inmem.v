(** The in-memory store refines the contract: LAZY expiry inside each method
    (model/InmemKV.v: the map keeps expired records until some method's [get()]
    drops them) gives, for every operation sequence with a monotone clock, exactly
    the results of VIRTUAL expiry (spec/KV.v).  This is the common substance of
    C03 (inmem_refines_kv) and C06. *)
From Coq Require Import List ZArith NArith Arith Bool Lia.
From GL Require Import spec.KV model.InmemKV proofs.C03_KV proofs.C06_Expiry.
Import ListNotations.

(** the map of the implementation is the contract's list with some records left out that had
    expired by time [t] (those a [get()] has dropped so far) *)
Inductive lazy_sub (t : Z) : list (key * rec) -> list (key * rec) -> Prop :=
| ls_nil : lazy_sub t [] []
| ls_keep : forall x l l', lazy_sub t l l' -> lazy_sub t (x :: l) (x :: l')
| ls_drop : forall x l l', expired t (snd x) = true -> lazy_sub t l l' -> lazy_sub t (x :: l) l'.

Lemma lazy_sub_refl : forall t l, lazy_sub t l l.
Proof. induction l; constructor; auto. Qed.

Lemma lazy_sub_mono : forall t t' l l', (t <= t')%Z -> lazy_sub t l l' -> lazy_sub t' l l'.
Proof.
  intros t t' l l' Hle H. induction H; [constructor|constructor; auto|].
  apply ls_drop; [eapply expired_mono; eauto|auto].
Qed.

Lemma lazy_sub_incl : forall t l l', lazy_sub t l l' -> incl l' l.
Proof.
  intros t l l' H. induction H; intros y Hy.
  - exact Hy.
  - destruct Hy as [<-|Hy]; [left; reflexivity|right; auto].
  - right. auto.
Qed.

Lemma lazy_sub_nodup : forall t l l', lazy_sub t l l' -> NoDup (akeys l) -> NoDup (akeys l').
Proof.
  intros t l l' H. induction H; intros Hnd; cbn [akeys map] in *.
  - exact Hnd.
  - inversion Hnd as [|? ? Hn Ht]; subst. constructor; [|auto].
    intros Hin. apply Hn. apply in_map_iff in Hin. destruct Hin as [y [Hy Hin]].
    apply in_map_iff. exists y. split; [exact Hy|]. eapply lazy_sub_incl; eauto.
  - inversion Hnd; subst. auto.
Qed.

Lemma lazy_sub_remove : forall t k l l', lazy_sub t l l' -> lazy_sub t (aremove k l) (aremove k l').
Proof.
  intros t k l l' H. induction H; cbn [aremove filter].
  - constructor.
  - destruct (negb (key_eqb k (fst x))); [constructor|]; exact IHlazy_sub.
  - destruct (negb (key_eqb k (fst x))); [apply ls_drop; [assumption|]|]; exact IHlazy_sub.
Qed.

Lemma lazy_sub_snoc : forall t x l l', lazy_sub t l l' -> lazy_sub t (l ++ [x]) (l' ++ [x]).
Proof.
  intros t x l l' H. induction H; cbn [app].
  - constructor. constructor.
  - constructor. exact IHlazy_sub.
  - apply ls_drop; assumption.
Qed.

Lemma lazy_sub_set : forall t k x l l', lazy_sub t l l' -> lazy_sub t (aset k x l) (aset k x l').
Proof. intros. unfold aset. apply lazy_sub_snoc. apply lazy_sub_remove. assumption. Qed.

(* dropping from the implementation's map a key all of whose records (in the contract) have expired *)
Lemma lazy_sub_drop_key : forall t k l l', lazy_sub t l l' ->
  (forall r, In (k, r) l -> expired t r = true) -> lazy_sub t l (aremove k l').
Proof.
  intros t k l l' H. induction H; intros Hex; cbn [aremove filter].
  - constructor.
  - destruct x as [k' r']. cbn [fst]. destruct (key_eqb k k') eqn:E; cbn [negb].
    + apply key_eqb_eq in E. subst k'. apply ls_drop.
      * cbn [snd]. apply Hex. left. reflexivity.
      * apply IHlazy_sub. intros r Hin. apply Hex. right. exact Hin.
    + constructor. apply IHlazy_sub. intros r Hin. apply Hex. right. exact Hin.
  - apply ls_drop; [assumption|]. apply IHlazy_sub. intros r Hin. apply Hex. right. exact Hin.
Qed.

Lemma lazy_sub_lookup_some : forall t k r l l', lazy_sub t l l' -> NoDup (akeys l) ->
  alookup k l' = Some r -> alookup k l = Some r.
Proof.
  intros t k r l l' H Hnd Hl. apply In_alookup; [exact Hnd|].
  eapply lazy_sub_incl; [exact H|]. apply alookup_In. exact Hl.
Qed.

Lemma lazy_sub_lookup_none : forall t k l l', lazy_sub t l l' ->
  alookup k l' = None -> alookup k l = None \/ exists r, alookup k l = Some r /\ expired t r = true.
Proof.
  intros t k l l' H. induction H; intros Hl.
  - left. reflexivity.
  - destruct x as [k' r']. cbn [alookup] in *. destruct (key_eqb k k'); [discriminate|auto].
  - destruct x as [k' r']. cbn [alookup snd] in *. destruct (key_eqb k k'); [|auto].
    right. exists r'. auto.
Qed.

(* dropping expired records: both sides agree *)
Lemma lazy_sub_filter_live : forall t (g : key * rec -> bool) l l', lazy_sub t l l' ->
  filter (fun kr => negb (expired t (snd kr)) && g kr) l = filter (fun kr => negb (expired t (snd kr)) && g kr) l'.
Proof.
  intros t g l l' H. induction H; cbn [filter]; [reflexivity| |].
  - rewrite IHlazy_sub. reflexivity.
  - rewrite H. cbn [negb andb]. exact IHlazy_sub.
Qed.

(** ** the simulation relation at time [t] *)
Record sim (t : Z) (sp : state) (im : imem) : Prop := {
  sim_next : nxt im = next sp;
  sim_wf : wf sp;
  sim_sub : lazy_sub t (recs sp) (m im)
}.

Lemma sim_init : forall t, sim t init im_new.
Proof. intros t. constructor; [reflexivity|apply wf_init|constructor]. Qed.

Lemma sim_mono : forall t t' sp im, (t <= t')%Z -> sim t sp im -> sim t' sp im.
Proof. intros t t' sp im Hle [H1 H2 H3]. constructor; auto. eapply lazy_sub_mono; eauto. Qed.

Lemma sim_nodup : forall t sp im, sim t sp im -> NoDup (akeys (m im)).
Proof. intros t sp im [H1 H2 H3]. eapply lazy_sub_nodup; eauto. Qed.

(* the helper get(): same answer as the contract's [find]; the relation survives the drop *)
Lemma im_get_sim : forall t sp im k, sim t sp im ->
  sim t sp (fst (im_get t k im)) /\ snd (im_get t k im) = find t k sp.
Proof.
  intros t sp im k S. pose proof S as [H1 H2 H3]. unfold im_get, find.
  rewrite (lookup_alookup k (m im)), (lookup_alookup k (recs sp)).
  destruct (alookup k (m im)) as [r|] eqn:E.
  - rewrite (lazy_sub_lookup_some t k r _ _ H3 H2 E).
    destruct (expired t r) eqn:Ex; cbn [fst snd]; [|auto]. split; [|reflexivity].
    constructor; cbn [nxt m]; [exact H1|exact H2|].
    rewrite remove_aremove. apply lazy_sub_drop_key; [exact H3|].
    intros r' Hin. pose proof (lazy_sub_lookup_some t k r _ _ H3 H2 E) as Hl.
    rewrite (In_alookup k r' _ H2 Hin) in Hl. injection Hl as ->. exact Ex.
  - cbn [fst snd]. split; [exact S|].
    destruct (lazy_sub_lookup_none t k _ _ H3 E) as [Hn|[r [Hs Hx]]].
    + rewrite Hn. reflexivity.
    + rewrite Hs, Hx. reflexivity.
Qed.

Lemma im_store_sim : forall t sp im k v e, sim t sp im ->
  sim t (fst (write k v e sp)) (fst (im_store k v e im)) /\ snd (im_store k v e im) = snd (write k v e sp).
Proof.
  intros t sp im k v e [H1 H2 H3]. unfold write, im_store. cbn [fst snd]. split; [|exact H1].
  constructor; cbn [nxt next m recs].
  - congruence.
  - apply (wf_write k v e sp H2).
  - rewrite H1, !set_aset. apply lazy_sub_set. exact H3.
Qed.

Lemma im_putmany_sim : forall t rs sp im, sim t sp im -> sim t (put_many rs sp) (im_putmany rs im).
Proof.
  induction rs as [|[[k v] e] r IH]; intros sp im S; cbn [put_many im_putmany]; [exact S|].
  apply IH. apply im_store_sim. exact S.
Qed.

Lemma im_getmany_sim : forall t ks sp im, sim t sp im ->
  sim t sp (fst (im_getmany t ks im)) /\
  snd (im_getmany t ks im) = map (fun k => option_map (as_orec k) (find t k sp)) ks.
Proof.
  induction ks as [|k r IH]; intros sp im S; cbn [im_getmany map]; [auto|].
  destruct (im_get_sim t sp im k S) as [S1 Hg].
  destruct (im_get t k im) as [s1 g]. cbn [fst snd] in *.
  destruct (IH sp s1 S1) as [S2 Hr]. destruct (im_getmany t r s1) as [s2 rs]. cbn [fst snd] in *.
  split; [exact S2|]. rewrite Hg, Hr. reflexivity.
Qed.

(* the ListKeys loop: the relation survives, whatever it drops *)
Lemma im_list_loop_sim : forall t pat ks sp im, sim t sp im -> sim t sp (fst (im_list_loop t pat ks im)).
Proof.
  induction ks as [|k r IH]; intros sp im S; cbn [im_list_loop]; [exact S|].
  destruct (im_get_sim t sp im k S) as [S1 _]. destruct (im_get t k im) as [s1 g]. cbn [fst] in S1.
  specialize (IH sp s1 S1). destruct (im_list_loop t pat r s1) as [s2 res]. cbn [fst] in *.
  destruct g; [destruct (matches pat k)|]; exact IH.
Qed.

(* ... and it lists the keys of the (remaining) snapshot whose records are live and match *)
Lemma im_list_loop_out : forall t pat suf im, NoDup (akeys suf) ->
  (forall k r, In (k, r) suf -> alookup k (m im) = Some r) ->
  snd (im_list_loop t pat (map fst suf) im) =
  map fst (filter (fun kr => negb (expired t (snd kr)) && matches pat (fst kr)) suf).
Proof.
  induction suf as [|[k r] suf IH]; intros im Hnd Hall; cbn [map fst im_list_loop filter snd]; [reflexivity|].
  cbn [akeys map fst] in Hnd. inversion Hnd as [|? ? Hn Ht]; subst.
  assert (Hk : alookup k (m im) = Some r) by (apply Hall; left; reflexivity).
  unfold im_get at 1. rewrite lookup_alookup, Hk.
  assert (Hrest : forall im', (forall k', k' <> k -> alookup k' (m im') = alookup k' (m im)) ->
            forall k' r', In (k', r') suf -> alookup k' (m im') = Some r').
  { intros im' Hsame k' r' Hin. rewrite Hsame; [apply Hall; right; exact Hin|].
    intros ->. apply Hn. apply (in_map fst) in Hin. exact Hin. }
  destruct (expired t r) eqn:Ex; cbn [negb andb].
  - specialize (IH (mkIm (remove k (m im)) (nxt im)) Ht).
    rewrite <- IH.
    + destruct (im_list_loop t pat (map fst suf) (mkIm (remove k (m im)) (nxt im))). reflexivity.
    + apply Hrest. intros k' Hne. cbn [m]. rewrite remove_aremove. apply alookup_remove_other. congruence.
  - specialize (IH im Ht (Hrest im (fun _ _ => eq_refl))).
    destruct (im_list_loop t pat (map fst suf) im) as [s2 res]. cbn [snd] in *.
    destruct (matches pat k); cbn [map fst]; rewrite IH; reflexivity.
Qed.

(** one step: same result, related successors *)
Lemma im_step_sim : forall t sp im o, sim t sp im ->
  snd (im_step im t o) = snd (step sp t o) /\ sim t (fst (step sp t o)) (fst (im_step im t o)).
Proof.
  intros t sp im o S. destruct o; cbn [im_step step].
  - (* Create *)
    unfold im_create. destruct (im_get_sim t sp im k S) as [S1 Hg].
    destruct (im_get t k im) as [s1 g]. cbn [fst snd] in *. subst g.
    destruct (find t k sp) as [r|]; cbn [fst snd]; [auto|].
    destruct (im_store_sim t sp s1 k v e S1) as [S2 Hn].
    destruct (im_store k v e s1) as [s2 n], (write k v e sp) as [sp2 n']. cbn [fst snd] in *. subst. auto.
  - (* Get *)
    unfold im_getop. destruct (im_get_sim t sp im k S) as [S1 Hg].
    destruct (im_get t k im) as [s1 g]. cbn [fst snd] in *. subst g.
    destruct (find t k sp); cbn [fst snd]; auto.
  - (* GetMany *)
    destruct (im_getmany_sim t ks sp im S) as [S1 Hr].
    destruct (im_getmany t ks im) as [s1 rs]. cbn [fst snd] in *. subst rs. auto.
  - (* Put *)
    unfold im_put. destruct (im_store_sim t sp im k v e S) as [S2 Hn].
    destruct (im_store k v e im) as [s2 n], (write k v e sp) as [sp2 n']. cbn [fst snd] in *. subst. auto.
  - (* PutMany *)
    cbn [fst snd]. split; [reflexivity|apply im_putmany_sim; exact S].
  - (* CasByVersion *)
    unfold im_cas. destruct (im_get_sim t sp im k S) as [S1 Hg].
    destruct (im_get t k im) as [s1 g]. cbn [fst snd] in *. subst g.
    destruct (find t k sp) as [r|]; cbn [fst snd]; [|auto].
    destruct (Nat.eqb (ver r) expected); cbn [fst snd]; [|auto].
    destruct (im_store_sim t sp s1 k v e S1) as [S2 Hn].
    destruct (im_store k v e s1) as [s2 n], (write k v e sp) as [sp2 n']. cbn [fst snd] in *. subst. auto.
  - (* Delete *)
    unfold im_delete. destruct (im_get_sim t sp im k S) as [S1 Hg].
    destruct (im_get t k im) as [s1 g]. cbn [fst snd] in *. subst g.
    destruct (find t k sp) as [r|]; cbn [fst snd]; [|auto]. split; [reflexivity|].
    destruct S1 as [H1 H2 H3]. constructor; cbn [nxt next m recs].
    + exact H1.
    + unfold wf. cbn [recs]. apply NoDup_remove. exact H2.
    + rewrite !remove_aremove. apply lazy_sub_remove. exact H3.
  - (* ListKeys *)
    unfold im_listkeys.
    pose proof (im_list_loop_sim t pat (map fst (m im)) sp im S) as S1.
    pose proof (im_list_loop_out t pat (m im) im (sim_nodup _ _ _ S)
                  (fun k r Hin => In_alookup k r _ (sim_nodup _ _ _ S) Hin)) as Ho.
    destruct (im_list_loop t pat (map fst (m im)) im) as [s1 res]. cbn [fst snd] in *. subst res.
    split; [|exact S1]. f_equal. f_equal. symmetry.
    apply (lazy_sub_filter_live t (fun kr => matches pat (fst kr))). apply S.
Qed.

Lemma im_run_sim : forall ops t sp im, sim t sp im -> mono t ops ->
  fst (im_run im ops) = fst (run sp ops).
Proof.
  induction ops as [|[now o] r IH]; intros t sp im S M; cbn [im_run run]; [reflexivity|].
  destruct M as [Hle M].
  destruct (im_step_sim now sp im o (sim_mono _ _ _ _ Hle S)) as [Ho S'].
  destruct (im_step im now o) as [im' x], (step sp now o) as [sp' y]. cbn [fst snd] in *. subst y.
  specialize (IH now sp' im' S' M).
  destruct (im_run im' r) as [xs f1], (run sp' r) as [ys f2]. cbn [fst] in *. congruence.
Qed.

(** For every operation sequence whose instants do not decrease, the in-memory
    store returns exactly what the contract prescribes (the same version numbers,
    too: both hand out 1, 2, 3, ... in the order of the successful writes). *)
Theorem inmem_refines_kv : forall ops t0, mono t0 ops ->
  fst (im_run im_new ops) = fst (run init ops).
Proof. intros ops t0 M. apply (im_run_sim ops t0); [apply sim_init|exact M]. Qed.

(** a record that has not expired is never dropped by the lazy check, whichever method runs *)
Lemma im_get_lookup : forall t k im k',
  lookup k' (m (fst (im_get t k im))) =
  match lookup k (m im) with
  | Some r => if expired t r && key_eqb k k' then None else lookup k' (m im)
  | None => lookup k' (m im)
  end.
Proof.
  intros t k im k'. unfold im_get. destruct (lookup k (m im)) as [r|] eqn:E; [|reflexivity].
  destruct (expired t r); cbn [andb fst m]; [|reflexivity].
  rewrite !lookup_alookup, remove_aremove. destruct (key_eqb k k') eqn:Ek.
  - apply key_eqb_eq in Ek. subst k'. apply alookup_remove_same.
  - apply alookup_remove_other. apply key_eqb_neq. exact Ek.
Qed.

Lemma im_get_keeps_live : forall t k im k' r, lookup k' (m im) = Some r -> expired t r = false ->
  lookup k' (m (fst (im_get t k im))) = Some r.
Proof.
  intros t k im k' r Hl Hx. rewrite im_get_lookup. destruct (lookup k (m im)) as [r0|] eqn:E; [|exact Hl].
  destruct (expired t r0) eqn:E0; cbn [andb]; [|exact Hl].
  destruct (key_eqb k k') eqn:Ek; [|exact Hl]. apply key_eqb_eq in Ek. subst k'. congruence.
Qed.

Lemma im_store_other : forall k v e im k', k <> k' ->
  lookup k' (m (fst (im_store k v e im))) = lookup k' (m im).
Proof.
  intros. unfold im_store. cbn [fst m]. rewrite !lookup_alookup, set_aset. apply alookup_set_other. assumption.
Qed.

Lemma im_getmany_keeps_live : forall t ks im k' r, lookup k' (m im) = Some r -> expired t r = false ->
  lookup k' (m (fst (im_getmany t ks im))) = Some r.
Proof.
  induction ks as [|k ks IH]; intros im k' r Hl Hx; cbn [im_getmany]; [exact Hl|].
  pose proof (im_get_keeps_live t k im k' r Hl Hx) as H1. destruct (im_get t k im) as [s1 g]. cbn [fst] in H1.
  specialize (IH s1 k' r H1 Hx). destruct (im_getmany t ks s1) as [s2 rs]. exact IH.
Qed.

Lemma im_list_loop_keeps_live : forall t pat ks im k' r, lookup k' (m im) = Some r -> expired t r = false ->
  lookup k' (m (fst (im_list_loop t pat ks im))) = Some r.
Proof.
  induction ks as [|k ks IH]; intros im k' r Hl Hx; cbn [im_list_loop]; [exact Hl|].
  pose proof (im_get_keeps_live t k im k' r Hl Hx) as H1. destruct (im_get t k im) as [s1 g]. cbn [fst] in H1.
  specialize (IH s1 k' r H1 Hx). destruct (im_list_loop t pat ks s1) as [s2 res]. cbn [fst] in *.
  destruct g; [destruct (matches pat k)|]; exact IH.
Qed.

Lemma im_putmany_other : forall rs im k',
  existsb (fun r => key_eqb (fst (fst r)) k') rs = false ->
  lookup k' (m (im_putmany rs im)) = lookup k' (m im).
Proof.
  induction rs as [|[[k v] e] t IH]; intros im k' H; cbn [im_putmany]; [reflexivity|].
  cbn [existsb fst] in H. apply orb_false_elim in H. destruct H as [H1 H2].
  rewrite IH by exact H2. apply im_store_other. apply key_eqb_neq. exact H1.
Qed.

Theorem im_unexpired_never_dropped : forall im t o k r,
  lookup k (m im) = Some r -> expired t r = false -> touches o k = false ->
  lookup k (m (fst (im_step im t o))) = Some r.
Proof.
  intros im t o k r Hl Hx Ht. destruct o; cbn [touches] in Ht; cbn [im_step].
  - unfold im_create. pose proof (im_get_keeps_live t k0 im k r Hl Hx) as H1.
    destruct (im_get t k0 im) as [s1 g]. cbn [fst] in *. destruct g; [exact H1|].
    pose proof (im_store_other k0 v e s1 k (proj1 (key_eqb_neq _ _) Ht)) as H2.
    destruct (im_store k0 v e s1) as [s2 n]. cbn [fst] in *. congruence.
  - unfold im_getop. pose proof (im_get_keeps_live t k0 im k r Hl Hx) as H1.
    destruct (im_get t k0 im) as [s1 g]. cbn [fst] in *. destruct g; exact H1.
  - pose proof (im_getmany_keeps_live t ks im k r Hl Hx) as H1.
    destruct (im_getmany t ks im) as [s1 rs]. exact H1.
  - unfold im_put. pose proof (im_store_other k0 v e im k (proj1 (key_eqb_neq _ _) Ht)) as H2.
    destruct (im_store k0 v e im) as [s2 n]. cbn [fst] in *. congruence.
  - cbn [fst]. rewrite im_putmany_other by exact Ht. exact Hl.
  - unfold im_cas. pose proof (im_get_keeps_live t k0 im k r Hl Hx) as H1.
    destruct (im_get t k0 im) as [s1 g]. cbn [fst] in *. destruct g as [r0|]; [|exact H1].
    destruct (Nat.eqb (ver r0) expected); [|exact H1].
    pose proof (im_store_other k0 v e s1 k (proj1 (key_eqb_neq _ _) Ht)) as H2.
    destruct (im_store k0 v e s1) as [s2 n]. cbn [fst] in *. congruence.
  - unfold im_delete. pose proof (im_get_keeps_live t k0 im k r Hl Hx) as H1.
    destruct (im_get t k0 im) as [s1 g]. cbn [fst] in *. destruct g; [|exact H1].
    cbn [fst m]. rewrite lookup_alookup, remove_aremove, alookup_remove_other, <- lookup_alookup; [exact H1|].
    apply key_eqb_neq. exact Ht.
  - unfold im_listkeys. pose proof (im_list_loop_keeps_live t pat (map fst (m im)) im k r Hl Hx) as H1.
    destruct (im_list_loop t pat (map fst (m im)) im) as [s1 res]. exact H1.
Qed.
