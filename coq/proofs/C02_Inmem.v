(** C02, in-memory store: every concurrent history is linearizable w.r.t. the
    in-memory model itself ([Lin.atomic_linearizable]: one critical section per
    call), hence w.r.t. the contract ([C03_Inmem.im_step_sim]: the model refines
    [KV.step] step by step, lazy expiry included), hence w.r.t. the contract
    with free versions. *)
From Coq Require Import List ZArith NArith Arith Bool Lia Permutation.
From GL Require Import lib.Lin lib.LinSim spec.KV spec.KVRel model.InmemKV model.InmemConc
                       proofs.C03_KV proofs.C06_Expiry proofs.C03_Inmem proofs.C02_Contract.
Import ListNotations.

Theorem inmem_linearizable : forall t0 tr y,
  reach im_acc (sys_init (im_new, t0)) tr y -> quiescent y ->
  linearizable im_acc (im_new, t0) (done y).
Proof. intros t0 tr y Hr Hq. eapply atomic_linearizable'; eauto. Qed.

Definition im_rel (a : imem * Z) (b : state * Z) : Prop := snd a = snd b /\ sim (snd a) (fst b) (fst a).

Lemma im_acc_kv : forall a b o r a', im_rel a b -> im_acc a o r a' ->
  exists b', kv_acc b o r b' /\ im_rel a' b'.
Proof.
  intros [im t] [sp t'] o r [im' t2] [Ht S] [Hle Hs]. cbn [fst snd] in *. subst t'.
  destruct (im_step_sim t2 sp im o (sim_mono _ _ _ _ Hle S)) as [Ho S'].
  rewrite Hs in Ho, S'. cbn [fst snd] in Ho, S'.
  exists (fst (step sp t2 o), t2). split.
  - split; [exact Hle|]. cbn [fst snd]. rewrite Ho. destruct (step sp t2 o); reflexivity.
  - split; [reflexivity|exact S'].
Qed.

Theorem inmem_linearizable_contract : forall t0 tr y,
  reach im_acc (sys_init (im_new, t0)) tr y -> quiescent y ->
  linearizable kv_acc (init, t0) (done y).
Proof.
  intros t0 tr y Hr Hq.
  apply (linearizable_sim im_acc kv_acc im_rel im_acc_kv (im_new, t0) (init, t0)).
  - split; [reflexivity|apply sim_init].
  - eapply inmem_linearizable; eauto.
Qed.

Corollary inmem_linearizable_kvf : forall t0 tr y,
  reach im_acc (sys_init (im_new, t0)) tr y -> quiescent y ->
  linearizable kvf_acc (finit, t0) (done y).
Proof. intros t0 tr y Hr Hq. apply kv_linearizable_kvf. eapply inmem_linearizable_contract; eauto. Qed.
