(** C11, part 5: the cost of [First].

    The loop of [Map.next] runs on fuel; one unit of fuel is one iteration,
    i.e. one node examined.  [c_next_cells_tight]: the loop started on the
    cell with stamp [s] needs no more fuel than 1 + the number of cells
    strictly between [s] and the place where it stops -- all of which are
    removed entries pinned by iterators.  Hence [First] (Iterator; Next;
    Close) examines at most 1 + pinned nodes in its two loops
    ([first_cost]), and the cache's [First] exactly one ([lru_first_cost]). *)
From Coq Require Import List ZArith Arith Bool Lia.
From GL Require Import lib.IMapBase model.IMap model.IMapCost model.Chain spec.OMap model.IMapLRU
  proofs.C10_Assoc proofs.C10_Cells proofs.C10_Next proofs.C10_R2 proofs.C10_ChainSim
  proofs.C10_Heap proofs.C10_L1 proofs.C10_Repr proofs.C10_Main proofs.C11_Chain.
Import ListNotations.
Open Scope Z_scope.

(** * The loop needs one unit of fuel per cell it passes *)

Definition between (a b x : nat) : bool := (a <? x)%nat && (x <? b)%nat.

Definition run_len (a b : nat) (cs : list cell) : nat :=
  length (filter (fun c => between a b (c_stamp c)) cs).

Lemma filter_between_lt s np nl l :
  (s < np < nl)%nat -> In np (map c_stamp l) -> (run_len np nl l < run_len s nl l)%nat.
Proof.
  intros Hlt. unfold run_len, between. induction l as [|c t IH]; intros Hin; [destruct Hin|].
  cbn [filter]. cbn [map In] in Hin.
  assert (Hmono : (length (filter (fun c => (np <? c_stamp c)%nat && (c_stamp c <? nl)%nat) t)
                   <= length (filter (fun c => (s <? c_stamp c)%nat && (c_stamp c <? nl)%nat) t))%nat).
  { clear - Hlt. induction t as [|c t IH]; [cbn; lia|]. cbn [filter].
    destruct (Nat.ltb_spec np (c_stamp c)), (Nat.ltb_spec s (c_stamp c)), (Nat.ltb_spec (c_stamp c) nl);
      cbn [andb length]; lia. }
  destruct Hin as [Heq|Hin].
  - rewrite Heq. destruct (Nat.ltb_spec np np); [lia|]. destruct (Nat.ltb_spec s np); [|lia].
    destruct (Nat.ltb_spec np nl); [|lia]. cbn [andb length]. lia.
  - specialize (IH Hin).
    destruct (Nat.ltb_spec np (c_stamp c)), (Nat.ltb_spec s (c_stamp c)), (Nat.ltb_spec (c_stamp c) nl);
      cbn [andb length]; lia.
Qed.

Lemma c_next_cells_tight : forall fuel r s es e,
  (forall j, 0 <= r j) ->
  nth_error es s = Some e -> 1 <= r s ->
  (run_len s (nlive es (S s)) (cells_from r 0 es) < fuel)%nat ->
  c_next fuel (cells_from r 0 es) s =
  Ok (cells_from (move r s (nlive es (S s))) 0 es, nlive es (S s)).
Proof.
  induction fuel as [|f IH]; intros r s es e Hr0 Hn Hrs Hfuel; [lia|].
  assert (Hpos : 0 < r s) by lia.
  assert (Hs : (S s <= length es)%nat) by (apply nth_error_Some; congruence).
  rewrite (c_next_unfold f _ s (the_cell r s e) (cfind_present r es s e Hn (or_intror Hpos)))
    by (unfold the_cell; destruct (e_live e); discriminate).
  rewrite (csucc_present r es s e Hn (or_intror Hpos)).
  set (np := first_present r (S s) (skipn (S s) es)).
  destruct (first_present_skipn r es (S s) Hs) as (Hb & Hd & Hp). fold np in Hb, Hd, Hp.
  assert (Hdr : dead_range es (S s) np) by (intros k e' Hk He'; apply (Hd k e' Hk He')).
  set (r1 := bump r s (-1)).
  assert (Hr1np : r1 np = r np) by (apply bump_other; lia).
  (* after leaving [s] the cells are those of [r1] *)
  assert (Hstep :
    (x <- (if nstate_eqb (c_st (the_cell r s e)) StDeleted && (c_ref (the_cell r s e) - 1 <=? 0)
           then c_delete (cupd s (cset_ref (c_ref (the_cell r s e) - 1)) (cells_from r 0 es)) s
           else Ok (cupd s (cset_ref (c_ref (the_cell r s e) - 1)) (cells_from r 0 es))) ;;
     Ok x) = Ok (cells_from r1 0 es)).
  { unfold the_cell. destruct (e_live e) eqn:El; cbn [c_st c_ref nstate_eqb andb].
    - cbn [bind]. f_equal. symmetry. apply unpark_keep; [exact Hrs|].
      intros e' He' _. unfold ent in He'. rewrite Nat.sub_0_r in He'. left. congruence.
    - destruct (Z.leb_spec (r s - 1) 0) as [Hle|Hgt].
      + assert (Hr1 : r s = 1) by lia.
        unfold c_delete. rewrite cfind_cupd_same by reflexivity.
        rewrite (cfind_present r es s e Hn (or_intror Hpos)).
        unfold the_cell. rewrite El. cbn [bind cset_ref c_st c_ref].
        rewrite Hr1. cbn [Z.sub Z.add Z.opp Z.pos_sub Z.eqb].
        rewrite csucc_cupd by reflexivity. rewrite (csucc_present r es s e Hn (or_intror Hpos)).
        cbn [deref bind]. rewrite cdel_cupd by reflexivity. f_equal. symmetry.
        apply (unpark_drop r s es 0%nat e); [exact Hr1|lia| |exact El].
        unfold ent. rewrite Nat.sub_0_r. exact Hn.
      + cbn [bind]. f_equal. symmetry. apply unpark_keep; [exact Hrs|]. intros; right; lia. }
  cbn [deref bind].
  match goal with |- context [bind ?X ?K] =>
    match X with (if _ then _ else _) =>
      replace (bind X K) with (bind (x <- X ;; Ok x) K)
        by (destruct X; reflexivity)
    end end.
  rewrite Hstep. cbn [bind].
  assert (Hr1ge : 0 <= r1 np) by (rewrite Hr1np; apply Hr0).
  (* the cell we arrive at *)
  destruct (Nat.lt_ge_cases np (length es)) as [Hlt|Hge].
  - destruct (Hp Hlt) as (e' & Hn' & Hor').
    assert (Hor1 : e_live e' = true \/ 0 < r1 np) by (rewrite Hr1np; exact Hor').
    rewrite (cfind_present r1 es np e' Hn' Hor1).
    assert (Hpark : cupd np (cset_ref (c_ref (the_cell r1 np e') + 1)) (cells_from r1 0 es)
                    = cells_from (move r s np) 0 es).
    { replace (c_ref (the_cell r1 np e')) with (r1 np) by (unfold the_cell; destruct (e_live e'); reflexivity).
      symmetry. apply park_cells; [exact Hr1ge|]. intros _ e'' He''. unfold ent in He''.
      rewrite Nat.sub_0_r in He''. assert (e'' = e') by congruence. subst e''. exact Hor1. }
    cbn [bind]. rewrite Hpark.
    assert (Hin : In np (map c_stamp (cells_from r 0 es))) by (eapply cfind_in; apply (cfind_present r es np e' Hn' Hor')).
    destruct (e_live e') eqn:El'.
    + (* a live entry: stop *)
      replace (c_st (the_cell r1 np e')) with StOk by (unfold the_cell; rewrite El'; reflexivity).
      cbn [nstate_eqb]. unfold nlive. rewrite (first_live_some es (S s) np e'); [reflexivity|lia|exact Hn'|exact El'|exact Hdr].
    + (* a pinned removed entry: go on *)
      replace (c_st (the_cell r1 np e')) with StDeleted by (unfold the_cell; rewrite El'; reflexivity).
      cbn [nstate_eqb].
      assert (Hnl : nlive es (S s) = nlive es (S np)).
      { apply nlive_skip_dead; [lia|]. eapply dead_range_split; [exact Hdr|].
        eapply dead_range_one; eassumption. }
      rewrite (IH (move r s np) np es e').
      * rewrite Hnl. f_equal. f_equal. apply cells_from_ext. intros j _. apply move_move. lia.
      * intros j. unfold move, bump.
        pose proof (Hr0 j) as Hj.
        destruct (Nat.eqb_spec j np) as [Ej|Ej]; destruct (Nat.eqb_spec j s) as [Es|Es]; try lia.
        subst j. lia.
      * exact Hn'.
      * unfold move. rewrite bump_same. fold r1. lia.
      * (* fuel *)
        rewrite <- Hnl. set (nl := nlive es (S s)) in *.
        assert (Hnpnl : (np < nl)%nat).
        { rewrite Hnl. pose proof (nlive_bounds es (S np)) as Hb2.
          assert (S np <= length es)%nat by (apply nth_error_Some; congruence). lia. }
        rewrite <- Hpark. unfold run_len in *.
        pose proof (filter_between_lt s np nl _ ltac:(lia) Hin) as Hlt2. unfold run_len in Hlt2.
        rewrite (filter_stamp_cupd (between np nl)) by reflexivity.
        assert (Hle : (length (filter (fun c => between np nl (c_stamp c)) (cells_from r1 0 es))
                       <= length (filter (fun c => between np nl (c_stamp c)) (cells_from r 0 es)))%nat).
        { unfold r1. destruct (e_live e) eqn:El.
          - rewrite (unpark_keep r s es 0%nat Hrs).
            + rewrite (filter_stamp_cupd (between np nl)) by reflexivity. lia.
            + intros e0 He0 _. unfold ent in He0. rewrite Nat.sub_0_r in He0. left. congruence.
          - destruct (Z.eq_dec (r s) 1) as [Hr1|Hr1].
            + rewrite (unpark_drop r s es 0%nat e Hr1); [apply (filter_stamp_cdel_le (between np nl))|lia| |exact El].
              unfold ent. rewrite Nat.sub_0_r. exact Hn.
            + rewrite (unpark_keep r s es 0%nat Hrs).
              * rewrite (filter_stamp_cupd (between np nl)) by reflexivity. lia.
              * intros; right; lia. }
        lia.
  - (* the end of the chain *)
    assert (Hnp : np = length es) by lia.
    rewrite Hnp. rewrite cfind_end. cbn [bind last_cell c_st c_ref nstate_eqb].
    rewrite <- Hnp.
    replace (cupd np (cset_ref (r1 np + 1)) (cells_from r1 0 es)) with (cells_from (move r s np) 0 es).
    + unfold nlive. rewrite first_live_none; [rewrite <- Hnp; reflexivity|]. rewrite <- Hnp. exact Hdr.
    + apply park_cells; [exact Hr1ge|]. intros _ e'' He''. unfold ent in He''. rewrite Nat.sub_0_r in He''.
      exfalso. assert (np < length es)%nat by (apply nth_error_Some; congruence). lia.
Qed.

(** * Fuel of the pointer-model loop: more never hurts, and what the chain needs is enough *)

Lemma i_next_mono : forall f c p r, i_next f c p = Ok r -> forall f', (f <= f')%nat -> i_next f' c p = Ok r.
Proof.
  induction f as [|f IH]; intros c p r H f' Hf; [discriminate H|]. destruct f' as [|f']; [lia|].
  destruct c as [[h hd] pl]. cbn [i_next] in *.
  destruct (get h p) as [n| |]; try discriminate H. cbn [bind] in *.
  destruct (n_st n); [exact H| |];
    (match type of H with bind ?X _ = _ => destruct X as [[c' p']| |]; try discriminate H end;
     cbn [bind] in *; destruct (get (fst (fst c')) p') as [n''| |]; try discriminate H; cbn [bind] in *;
     destruct (nstate_eqb (n_st n'') StDeleted); [apply (IH _ _ _ H); lia|exact H]).
Qed.

Lemma i_next_small f h hd pl zs p cl cs' st' :
  (f <= fuel_of h)%nat -> wst h hd pl zs -> In (p, cl) zs -> 1 <= c_ref cl ->
  c_next f (map snd zs) (c_stamp cl) = Ok (cs', st') ->
  i_next f (h, hd, pl) p = i_next (fuel_of h) (h, hd, pl) p.
Proof.
  intros Hf Hw Hin Hr Hc.
  destruct (next_sim f f h hd pl zs p cl cs' st' (le_n _) Hw Hin Hr Hc) as (h' & hd' & pl' & p' & zs' & Hi & _).
  rewrite Hi. symmetry. apply (i_next_mono f _ _ _ Hi). exact Hf.
Qed.

(** * Counting cells by stamp ranges *)

Definition in_range (a b : nat) (c : cell) : bool := (a <=? c_stamp c)%nat && (c_stamp c <? b)%nat.

Lemma run_lt_range a b l : (a < b)%nat -> In a (map c_stamp l) ->
  (run_len a b l < length (filter (in_range a b) l))%nat.
Proof.
  intros Hab. unfold run_len, between, in_range. induction l as [|c t IH]; intros Hin; [destruct Hin|].
  cbn [filter]. cbn [map In] in Hin.
  assert (Hmono : (length (filter (fun c => (a <? c_stamp c)%nat && (c_stamp c <? b)%nat) t)
                   <= length (filter (fun c => (a <=? c_stamp c)%nat && (c_stamp c <? b)%nat) t))%nat).
  { clear. induction t as [|c t IH]; [cbn; lia|]. cbn [filter].
    destruct (Nat.ltb_spec a (c_stamp c)), (Nat.leb_spec a (c_stamp c)), (Nat.ltb_spec (c_stamp c) b);
      cbn [andb length]; lia. }
  destruct Hin as [Heq|Hin].
  - rewrite Heq. destruct (Nat.ltb_spec a a); [lia|]. destruct (Nat.leb_spec a a); [|lia].
    destruct (Nat.ltb_spec a b); [|lia]. cbn [andb length]. lia.
  - specialize (IH Hin).
    destruct (Nat.ltb_spec a (c_stamp c)), (Nat.leb_spec a (c_stamp c)), (Nat.ltb_spec (c_stamp c) b);
      cbn [andb length]; lia.
Qed.

(* two disjoint selections inside a third one *)
Lemma filter_two_le {A} (p1 p2 q : A -> bool) (l : list A) :
  (forall x, In x l -> p1 x = true -> q x = true) -> (forall x, In x l -> p2 x = true -> q x = true) ->
  (forall x, p1 x = true -> p2 x = true -> False) ->
  (length (filter p1 l) + length (filter p2 l) <= length (filter q l))%nat.
Proof.
  intros H1 H2 Hd. induction l as [|x t IH]; [cbn; lia|]. cbn [filter].
  assert (IH' : (length (filter p1 t) + length (filter p2 t) <= length (filter q t))%nat).
  { apply IH; intros y Hy; [apply H1|apply H2]; right; exact Hy. }
  pose proof (H1 x (or_introl eq_refl)) as A1. pose proof (H2 x (or_introl eq_refl)) as A2. pose proof (Hd x) as A3.
  destruct (p1 x), (p2 x), (q x); cbn [length]; try lia; try (exfalso; auto; fail);
    try (specialize (A1 eq_refl); discriminate); try (specialize (A2 eq_refl); discriminate).
Qed.

(* the cells over a stretch of removed entries are pinned cells *)
Lemma cells_dead_range r es a b : dead_range es a b -> (b <= length es)%nat ->
  forall i c, In c (cells_from r i es) -> (i + a <= c_stamp c < i + b)%nat -> is_del c = true.
Proof.
  revert a b. induction es as [|e t IH]; intros a b Hd Hb i c; cbn [cells_from].
  - cbn [length] in Hb. intros _ Hs. lia.
  - rewrite in_app_iff. intros [Hin|Hin] Hs.
    + pose proof (proj1 (Forall_forall _ _) (cell_at_stamp r i e) c Hin) as Hst. cbn beta in Hst.
      assert (Ha : a = 0%nat) by lia. subst a.
      assert (He : e_live e = false) by (apply (Hd 0%nat e); [lia|reflexivity]).
      unfold cell_at in Hin. rewrite He in Hin. destruct (0 <? r i); [|destruct Hin].
      destruct Hin as [<-|[]]. reflexivity.
    + pose proof (proj1 (Forall_forall _ _) (cells_from_stamps r t (S i)) c Hin) as Hst. cbn beta in Hst.
      apply (IH (Nat.pred a) (Nat.pred b)) with (i := S i); [| |exact Hin|lia].
      * intros j e' Hj He'. apply (Hd (S j) e'); [lia|exact He'].
      * cbn [length] in Hb. lia.
Qed.

(* beyond [a] the cells only depend on the parked counts beyond [a] *)
Lemma filter_between_ext r r' a b es : forall i,
  (forall x, (a < x)%nat -> r x = r' x) ->
  filter (fun c => between a b (c_stamp c)) (cells_from r i es) =
  filter (fun c => between a b (c_stamp c)) (cells_from r' i es).
Proof.
  induction es as [|e t IH]; intros i Hr; cbn [cells_from].
  - unfold last_cell. cbn [filter c_stamp]. destruct (between a b i) eqn:E; [|reflexivity].
    unfold between in E. apply andb_true_iff in E. destruct E as [E _]. apply Nat.ltb_lt in E.
    rewrite Hr by exact E. reflexivity.
  - rewrite !filter_app, (IH (S i) Hr). f_equal.
    destruct (Nat.ltb_spec a i) as [Hlt|Hge].
    + unfold cell_at. rewrite Hr by exact Hlt. reflexivity.
    + assert (Hno : forall rr, filter (fun c => between a b (c_stamp c)) (cell_at rr i e) = []).
      { intros rr. unfold cell_at, between. destruct (e_live e); cbn [filter c_stamp].
        - destruct (Nat.ltb_spec a i); [lia|reflexivity].
        - destruct (0 <? rr i); cbn [filter c_stamp]; [|reflexivity]. destruct (Nat.ltb_spec a i); [lia|reflexivity]. }
      rewrite !Hno. reflexivity.
Qed.

Lemma filter_st_cupd (q : nstate -> bool) s f l :
  (forall c, c_st (f c) = c_st c) ->
  length (filter (fun c => q (c_st c)) (cupd s f l)) = length (filter (fun c => q (c_st c)) l).
Proof.
  intros Hf. induction l as [|c t IH]; [reflexivity|]. cbn [cupd map filter].
  assert (Hst : c_st (if at_stamp s c then f c else c) = c_st c).
  { destruct (at_stamp s c); [apply Hf|reflexivity]. }
  rewrite Hst. fold (cupd s f t). destruct (q (c_st c)); cbn [length]; rewrite IH; reflexivity.
Qed.

(** * The cost of First *)

(* [First] with [f1] units of fuel for the loop inside [getValue] and [f2] for the loop that
   moves the iterator on behaves like [First], and [f1 + f2 <= 1 + pinned] is enough *)
Lemma R_first_cost ch s o : R s o ->
  exists f1 f2, (f1 + f2 <= 1 + count_deleted s)%nat /\ (1 <= f2)%nat /\
    i_first_f f1 f2 s = i_first s /\ exists r, i_do ch s OFirst = Ok r.
Proof.
  intros HR. pose proof HR as (c & zs & Hrepr & HR2).
  assert (Hdo : exists r, i_do ch s OFirst = Ok r).
  { destruct (imap_step_sim ch s o OFirst HR I) as (s' & Hi & _). eauto. }
  pose proof (trel_keys _ _ _ (r2_iters _ _ HR2)) as Hk2.
  pose proof (trel_keys _ _ _ (rp_iters _ _ _ Hrepr)) as Hk1.
  unfold i_first_f, i_first. unfold akeys. rewrite Hk1. set (name := fresh_name (map fst (citers c))).
  assert (Hfresh : ~ In name (map fst (citers c))) by apply fresh_name_notin.
  destruct (sim_iterator c o name HR2 Hfresh) as (c1 & Hc1 & HR1).
  set (o1 := mkOMap (entries o) ((name, 0%nat) :: opos o)) in *. set (es := entries o) in *.
  pose proof (cinv_of_R2 _ _ HR1) as Hci1.
  destruct (sim1_iterator s c zs name c1 _ Hrepr Hci1 Hc1) as (s1 & zs1 & Hi1 & Hr1).
  (* the new iterator: on the head cell, stamp [st0] *)
  unfold c_iterator in Hc1. destruct (hd_error (cells c)) as [hd0|] eqn:Ehd; [|discriminate Hc1].
  cbn [deref bind] in Hc1. injection Hc1 as Hc1. set (st0 := c_stamp hd0) in *.
  assert (Hits1 : citers c1 = (name, st0) :: citers c) by (rewrite <- Hc1; reflexivity).
  assert (Hcells1 : cells c1 = cupd st0 (cset_ref (c_ref hd0 + 1)) (cells c)) by (rewrite <- Hc1; reflexivity).
  assert (Hs0 : alookup name (citers c1) = Some st0) by (rewrite Hits1; cbn [alookup]; rewrite Z.eqb_refl; reflexivity).
  assert (Hp0 : alookup name (opos o1) = Some 0%nat) by (cbn; rewrite Z.eqb_refl; reflexivity).
  destruct (sim_getvalue c1 o1 name st0 0%nat HR1 Hs0 Hp0) as (Hgv & Hirel). cbn zeta in Hgv, Hirel.
  cbn [entries o1] in Hgv, Hirel. fold es in Hgv, Hirel. set (j := nlive es 0) in *.
  set (r1 := cnt (citers c1)). set (its2 := aset name j (citers c1)) in *. set (r2 := cnt its2) in *.
  assert (HC1 : cells c1 = cells_from r1 0 es) by exact (r2_cells _ _ HR1).
  assert (Hst0j : (st0 <= j)%nat).
  { destruct (trel_lookup _ _ _ _ _ (r2_iters _ _ HR1) Hs0) as (p' & Hp' & [Hb Hd]).
    assert (p' = 0%nat) by congruence. subst p'. cbn [entries o1] in Hb, Hd. fold es in Hb, Hd.
    unfold j. rewrite (nlive_skip_dead es 0 st0 ltac:(lia) Hd). apply nlive_bounds. lia. }
  (* the fuel *)
  set (f1 := length (filter (in_range st0 j) (cells c1))).
  set (f2 := S (run_len j (nlive es (S j)) (cells c1))).
  exists f1, f2. split; [|split; [unfold f2; lia|split; [|exact Hdo]]].
  { (* f1 + f2 <= 1 + pinned *)
    rewrite (proj1 (count_deleted_pinned _ _ _ Hrepr)). unfold c_pinned.
    rewrite <- (filter_st_cupd (fun st => nstate_eqb st StDeleted) st0 (cset_ref (c_ref hd0 + 1)) (cells c)) by reflexivity.
    rewrite <- Hcells1. unfold f1, f2, run_len.
    pose proof (filter_two_le (in_range st0 j) (fun c0 => between j (nlive es (S j)) (c_stamp c0))
                  (fun c0 => nstate_eqb (c_st c0) StDeleted) (cells c1)) as Hle.
    cbn beta in Hle. enough (Hgoal : (length (filter (in_range st0 j) (cells c1)) +
                      length (filter (fun c0 => between j (nlive es (S j)) (c_stamp c0)) (cells c1)) <=
                      length (filter (fun c0 => nstate_eqb (c_st c0) StDeleted) (cells c1)))%nat) by lia.
    destruct Hirel as [Hjb Hdj].
    apply Hle.
    - intros x Hx Hrg. unfold in_range in Hrg. apply andb_true_iff in Hrg. destruct Hrg as [Ha Hb].
      apply Nat.leb_le in Ha. apply Nat.ltb_lt in Hb. rewrite HC1 in Hx.
      apply (cells_dead_range r1 es 0 j Hdj ltac:(lia) 0%nat x Hx). lia.
    - intros x Hx Hrg. unfold between in Hrg. apply andb_true_iff in Hrg. destruct Hrg as [Ha Hb].
      apply Nat.ltb_lt in Ha. apply Nat.ltb_lt in Hb. rewrite HC1 in Hx.
      assert (Hj1 : (S j <= length es)%nat).
      { destruct (Nat.le_gt_cases (S j) (length es)) as [H|H]; [exact H|]. exfalso.
        assert (j = length es) by lia. unfold nlive in Hb at 1.
        pose proof (proj1 (Forall_forall _ _) (cells_from_stamps r1 es 0) x Hx) as Hst. cbn beta in Hst. lia. }
      apply (cells_dead_range r1 es (S j) (nlive es (S j)) (nlive_dead es (S j))
               ltac:(pose proof (nlive_bounds es (S j) Hj1); lia) 0%nat x Hx). lia.
    - intros x Hrg1 Hrg2. unfold in_range, between in *. apply andb_true_iff in Hrg1, Hrg2.
      destruct Hrg1 as [_ Hb]. destruct Hrg2 as [Ha _]. apply Nat.ltb_lt in Hb. apply Nat.ltb_lt in Ha. lia. }
  rewrite Hi1. cbn [bind].
  (* the pointer side of the new iterator *)
  assert (Hit1 : alookup name (iters s1) = Some (head s)).
  { unfold i_iterator in Hi1. destruct (get (heap_of s) (head s)); try discriminate Hi1. cbn [bind] in Hi1.
    injection Hi1 as <-. cbn [iters alookup]. rewrite Z.eqb_refl. reflexivity. }
  destruct (repr_iter_cell _ _ _ _ _ _ Hr1 Hci1 Hit1 Hs0) as (cl & Hin & Hs & Hrf).
  pose proof (rp_wst _ _ _ Hr1) as Hw1. pose proof (ws_core _ _ _ _ Hw1) as Hcore1.
  pose proof (rp_cells _ _ _ Hr1) as Hz1.
  destruct (in_zs_pay _ _ _ _ Hcore1 Hin) as (n0 & Hn0 & Hnst0 & _). cbn [fst snd] in *.
  assert (Hf1le : (f1 <= fuel_of (heap_of s1))%nat).
  { pose proof (fuel_ok _ _ Hcore1) as Hfo. unfold cfuel in Hfo. rewrite <- Hz1 in Hfo.
    unfold f1. pose proof (filter_len_le (in_range st0 j) (cells c1)). lia. }
  (* getValue *)
  assert (Egv : i_getvalue_f f1 (core_of s1) (head s) = i_getvalue (core_of s1) (head s)).
  { unfold i_getvalue_f, i_getvalue, core_of. cbn [fst]. rewrite (get_ok _ _ _ Hn0). cbn [bind]. rewrite Hnst0.
    destruct (nstate_eqb (c_st cl) StDeleted) eqn:Ed; [|reflexivity].
    (* the head is a pinned removed entry *)
    assert (Hcl : In cl (cells_from r1 0 es)) by (rewrite <- HC1, Hz1; apply (in_map snd) in Hin; exact Hin).
    assert (Hlt0 : (st0 < length es)%nat).
    { destruct (Nat.lt_ge_cases st0 (length es)) as [H|H]; [exact H|]. exfalso.
      pose proof (proj1 (Forall_forall _ _) (cells_from_stamps r1 es 0) cl Hcl) as Hst. cbn beta in Hst.
      assert (Hend : c_stamp cl = length es) by lia.
      pose proof (cfind_end r1 es) as Hce. rewrite <- HC1, Hz1, <- Hend in Hce.
      rewrite (cfind_zs _ _ _ (co_stamps _ _ Hcore1) Hin) in Hce. injection Hce as Hce. rewrite Hce in Ed. discriminate Ed. }
    destruct (nth_error es st0) as [e0|] eqn:He0; [|apply nth_error_None in He0; lia].
    assert (Hr1s : 1 <= r1 st0) by (eapply cnt_in, alookup_in; exact Hs0).
    assert (Hdead0 : e_live e0 = false).
    { assert (Hpos0 : 0 < r1 st0) by lia.
      pose proof (cfind_present r1 es st0 e0 He0 (or_intror Hpos0)) as Hcf.
      rewrite <- HC1, Hz1, <- Hs, (cfind_zs _ _ _ (co_stamps _ _ Hcore1) Hin) in Hcf. injection Hcf as Hcf. rewrite Hcf in Ed.
      unfold the_cell in Ed. destruct (e_live e0); [discriminate Ed|reflexivity]. }
    assert (Hjj : nlive es (S st0) = j).
    { symmetry. destruct Hirel as [_ Hdj]. apply nlive_skip_dead; [lia|].
      destruct (trel_lookup _ _ _ _ _ (r2_iters _ _ HR1) Hs0) as (p' & Hp' & [Hb Hd]).
      assert (p' = 0%nat) by congruence. subst p'. cbn [entries o1] in Hd. fold es in Hd.
      eapply dead_range_split; [exact Hd|]. eapply dead_range_one; eassumption. }
    destruct s1 as [h1 v1 hd1 l1 pl1 it1 a1]. cbn [heap_of head pool] in *.
    eapply (i_next_small f1 h1 hd1 pl1 zs1 (head s) cl); [exact Hf1le|exact Hw1|exact Hin|exact Hrf|].
    rewrite <- Hz1, Hs, HC1. apply (c_next_cells_tight f1 r1 st0 es e0 (cnt_nonneg _) He0 Hr1s).
    rewrite Hjj, <- HC1. apply run_lt_range.
    - destruct Hirel as [Hjb _]. rewrite <- Hjj. pose proof (nlive_bounds es (S st0) ltac:(lia)). lia.
    - rewrite Hz1, <- Hs. apply in_map_iff. exists cl. split; [reflexivity|]. apply (in_map snd) in Hin. exact Hin. }
  unfold i_itnext_f, i_itnext. rewrite Hit1. cbn [deref bind]. rewrite Egv.
  (* after getValue *)
  rewrite HC1 in Hgv. rewrite <- HC1, Hz1, <- Hs in Hgv.
  destruct s1 as [h1 v1 hd1 l1 pl1 it1 a1]. unfold core_of in *. cbn [heap_of head pool] in *.
  destruct (getvalue_sim _ _ _ _ _ _ _ _ Hw1 Hin Hrf Hgv) as (h' & hd' & pl' & p1 & zs' & Hgi & Hcs & Hw' & _ & (c2 & Hin2 & Hs2 & Hrf2)).
  rewrite Hgi. cbn [bind fst].
  destruct (get h' p1) as [n1| |]; try reflexivity. cbn [bind].
  pose proof (ws_core _ _ _ _ Hw') as Hcore'.
  assert (Hf2le : (f2 <= fuel_of h')%nat).
  { pose proof (fuel_ok _ _ Hcore') as Hfo. unfold cfuel in Hfo. rewrite <- Hcs in Hfo.
    unfold f2, run_len. rewrite HC1, (filter_between_ext r1 r2 j (nlive es (S j)) es 0%nat).
    - pose proof (filter_len_le (fun c0 => between j (nlive es (S j)) (c_stamp c0)) (cells_from r2 0 es)). lia.
    - intros x Hx. unfold r2, its2. rewrite (cnt_aset name st0 j (citers c1) x (r2_names _ _ HR1) Hs0).
      unfold move, bump, r1. destruct Hirel as [Hjb _].
      destruct (Nat.eqb_spec x j); [lia|]. destruct (Nat.eqb_spec x st0); [lia|reflexivity]. }
  assert (En : i_next f2 (h', hd', pl') p1 = i_next (fuel_of h') (h', hd', pl') p1).
  { assert (Hcn : exists cs' st', c_next f2 (map snd zs') (c_stamp c2) = Ok (cs', st')).
    { rewrite <- Hcs, Hs2.
      assert (Hs2' : alookup name its2 = Some j).
      { unfold its2. apply alookup_aset_same. rewrite Hits1. left. reflexivity. }
      assert (Hr2j : 1 <= r2 j) by (eapply cnt_in, alookup_in; exact Hs2').
      destruct (Nat.eq_dec j (length es)) as [Hend|Hne].
      - unfold f2. cbn [c_next]. rewrite (cfind_end' _ _ _ Hend). cbn [bind last_cell c_st]. eauto.
      - destruct Hirel as [Hjb _]. destruct (nlive_some es 0) as (e & _ & Hn & Hl); [fold j; lia|]. fold j in Hn.
        eexists. eexists. apply (c_next_cells_tight f2 r2 j es e (cnt_nonneg _) Hn Hr2j).
        unfold f2, run_len. rewrite HC1, (filter_between_ext r1 r2 j (nlive es (S j)) es 0%nat); [lia|].
        intros x Hx. unfold r2, its2. rewrite (cnt_aset name st0 j (citers c1) x (r2_names _ _ HR1) Hs0).
        unfold move, bump, r1.
        destruct (Nat.eqb_spec x j); [lia|]. destruct (Nat.eqb_spec x st0); [lia|reflexivity]. }
    destruct Hcn as (cs3 & st3 & Hcn).
    exact (i_next_small f2 h' hd' pl' zs' p1 c2 cs3 st3 Hf2le Hw' Hin2 Hrf2 Hcn). }
  rewrite En. reflexivity.
Qed.

Theorem first_cost : forall h ch, wf_hist h ->
  exists f1 f2, (f1 + f2 <= 1 + count_deleted (reach ch h))%nat /\
    i_first_f f1 f2 (reach ch h) = i_first (reach ch h) /\
    exists r, i_first (reach ch h) = Ok r.
Proof.
  intros h ch Hwf. destruct (R_first_cost ch _ _ (R_reach h ch Hwf)) as (f1 & f2 & H1 & _ & H2 & H3).
  exists f1, f2. auto.
Qed.

(* no iterator open (the situation of every First the LRU cache calls): one iteration *)
Theorem closed_first_cost : forall h ch, wf_hist h -> open_iters h = [] ->
  i_first_f 0 1 (reach ch h) = i_first (reach ch h) /\ exists r, i_first (reach ch h) = Ok r.
Proof.
  intros h ch Hwf Hopen. destruct (closed_no_garbage h ch Hwf Hopen) as (_ & Hp & _).
  destruct (R_first_cost ch _ _ (R_reach h ch Hwf)) as (f1 & f2 & H1 & H1' & H2 & H3).
  rewrite Hp in H1. assert (f1 = 0%nat) by lia. assert (f2 = 1%nat) by lia. subst f1 f2. auto.
Qed.
