(** C02: the two defects of the pinned tree (fixed by b59c3d7 and 3538561),
    refuted on the legacy transcriptions (model/legacy/RedisKVLegacy.v) by
    concrete runs of the concurrent LTS, evaluated by [vm_compute].  Both runs
    produce a history that is NOT linearizable w.r.t. the contract, i.e. the
    conclusion of [redis_linearizable] fails for the legacy programs. *)
From Coq Require Import List ZArith NArith Arith Bool Lia Permutation.
From GL Require Import lib.Lin lib.LinSim spec.KV spec.KVRel model.RedisSrv model.RedisKV model.RedisConc
                       model.legacy.RedisKVLegacy proofs.C03_KV proofs.C02_Contract.
Import ListNotations.

Definition ka : key := [97%N].

Lemma option_map_some : forall {A B} (f : A -> B) (o : option A) (b : B),
  option_map f o = Some b -> exists a, o = Some a /\ f a = b.
Proof. intros A B f [a|] b H; [injection H as <-; eauto|discriminate]. Qed.

(* the contract never answers with an undocumented error *)
Lemma kvf_no_other : forall st o st', ~ kvf_acc st o OOther st'.
Proof.
  intros st o st' [_ [ns [_ He]]]. destruct o; cbn [fstep] in He.
  - destruct (ffind (snd st') k (fst st)); discriminate.
  - destruct (ffind (snd st') k (fst st)); discriminate.
  - discriminate.
  - discriminate.
  - discriminate.
  - destruct (ffind (snd st') k (fst st)) as [r|]; [|discriminate].
    destruct (Nat.eqb (ver r) expected); discriminate.
  - destruct (ffind (snd st') k (fst st)); discriminate.
  - discriminate.
Qed.

(** ** D8a: two CasByVersion calls race; the loser's EXEC is refused and it reports
    "redis: transaction failed" *)
Definition d8a_trace : list rlabel :=
  solo 0 (Create ka [] None) 2 ++
  [LInv 1 (CasByVersion ka [1%N] None 1); LInv 2 (CasByVersion ka [2%N] None 1); LBegin 1; LBegin 2;
   LStep 1; LStep 2;      (* WATCH, WATCH *)
   LStep 1; LStep 2;      (* GET, GET: both see version 1 *)
   LStep 1; LStep 2;      (* NewID, NewID *)
   LStep 1; LStep 2;      (* EXEC of thread 1 writes; EXEC of thread 2 is refused *)
   LStep 1; LStep 2;      (* UNWATCH *)
   LRet 1; LRet 2].

Definition d8a_history : list (opr op out) :=
  [mkOpr 1 5 (Create ka [] None) (OVer 1);
   mkOpr 6 20 (CasByVersion ka [1%N] None 1) (ORec (ka, [1%N], 2, None));
   mkOpr 7 21 (CasByVersion ka [2%N] None 1) OOther].

Theorem legacy_redis_cas_txfailed_refuted :
  exists tr z, zrun (rk_prog_legacy 0) 0 0 z_init tr = Some z /\ zquiet tr z = true /\
    (* a loser with an outcome that is none of nil, ErrConflict, ErrNotExist ... *)
    In (mkOpr 7 21 (CasByVersion ka [2%N] None 1) OOther) (z_done z) /\
    (* ... so the history is not one of the contract *)
    ~ linearizable kvf_acc (finit, 0%Z) (z_done z).
Proof.
  exists d8a_trace.
  assert (H : option_map (fun z => (z_done z, zquiet d8a_trace z)) (zrun (rk_prog_legacy 0) 0 0 z_init d8a_trace)
              = Some (d8a_history, true)) by (vm_compute; reflexivity).
  destruct (option_map_some _ _ _ H) as [z [E Hz]]. injection Hz as Hd Hq.
  exists z. split; [exact E|].
  split; [exact Hq|]. rewrite Hd. split; [right; right; left; reflexivity|].
  intros [l [sf [Hp [_ Hl]]]].
  assert (Hin : In (mkOpr 7 21 (CasByVersion ka [2%N] None 1) OOther) l).
  { eapply Permutation_in; [apply Permutation_sym; exact Hp|]. right. right. left. reflexivity. }
  destruct (legal_in kvf_acc l _ _ _ Hl Hin) as [s1 [s2 Ha]]. exact (kvf_no_other _ _ _ Ha).
Qed.

(** ** D8b: PutMany (without expirations) stores the caller's Version: two writes, same version *)
Definition d8b_trace : list rlabel :=
  solo 0 (PutMany [(ka, [120%N], None)]) 1 ++ solo 0 (Get ka) 1 ++
  solo 0 (PutMany [(ka, [], None)]) 1 ++ solo 0 (Get ka) 1.

Definition d8b_history : list (opr op out) :=
  [mkOpr 1 4 (PutMany [(ka, [120%N], None)]) OOk;
   mkOpr 5 8 (Get ka) (ORec (ka, [120%N], 0, None));
   mkOpr 9 12 (PutMany [(ka, [], None)]) OOk;
   mkOpr 13 16 (Get ka) (ORec (ka, [], 0, None))].

Lemma d8b_not_legal : forall sf, ~ legal kvf_acc (finit, 0%Z) d8b_history sf.
Proof.
  intros sf H. unfold d8b_history in H.
  inversion H as [|? ? st1 ? ? H1 L1]; subst; clear H. cbn [o_op o_res] in H1.
  inversion L1 as [|? ? st2 ? ? H2 L2]; subst; clear L1. cbn [o_op o_res] in H2.
  inversion L2 as [|? ? st3 ? ? H3 L3]; subst; clear L2. cbn [o_op o_res] in H3.
  inversion L3 as [|? ? st4 ? ? H4 L4]; subst; clear L3 L4. cbn [o_op o_res] in H4.
  destruct st1 as [A1 t1], st2 as [A2 t2], st3 as [A3 t3], st4 as [A4 t4].
  destruct H1 as [_ [ns1 [[Hl1 _] E1]]], H2 as [_ [ns2 [_ E2]]],
           H3 as [_ [ns3 [[Hl3 [_ Hf3]] E3]]], H4 as [_ [ns4 [_ E4]]].
  cbn [fst snd wants length] in *.
  destruct ns1 as [|n1 [|? ?]]; try discriminate. destruct ns3 as [|n3 [|? ?]]; try discriminate.
  cbn [fstep fput_many] in E1. injection E1 as <-.
  cbn in E2. injection E2 as <- En1.
  cbn [fstep fput_many] in E3. injection E3 as <-.
  cbn in E4. injection E4 as _ En3.
  apply (Hf3 n3 (or_introl eq_refl)). subst. cbn. left. reflexivity.
Qed.

Theorem legacy_redis_putmany_version_refuted :
  exists tr z, zrun (rk_prog_legacy 0) 0 0 z_init tr = Some z /\ zquiet tr z = true /\
    (* the same version is read before and after an acknowledged write of the key ... *)
    z_done z = d8b_history /\
    (* ... so the history is not one of the contract *)
    ~ linearizable kvf_acc (finit, 0%Z) (z_done z).
Proof.
  exists d8b_trace.
  assert (H : option_map (fun z => (z_done z, zquiet d8b_trace z)) (zrun (rk_prog_legacy 0) 0 0 z_init d8b_trace)
              = Some (d8b_history, true)) by (vm_compute; reflexivity).
  destruct (option_map_some _ _ _ H) as [z [E Hz]]. injection Hz as Hd Hq.
  exists z. split; [exact E|].
  split; [exact Hq|]. split; [exact Hd|]. rewrite Hd.
  intros [l [sf [Hp [Hrt Hl]]]].
  assert (Hs : sequential d8b_history).
  { unfold d8b_history, sequential, precedes. cbn [In o_ret o_inv].
    repeat split; intros y Hy; repeat (destruct Hy as [<-|Hy]; [cbn; lia|]); destruct Hy. }
  rewrite (sequential_unique d8b_history l Hs Hp Hrt) in Hl. exact (d8b_not_legal sf Hl).
Qed.
