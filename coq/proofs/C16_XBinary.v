(** C16: the decoders of the xbinary model are total (never [DPanic], consumed
    count within the input, returned bytes a sub-range of the input), and the
    decoder as it was before the fix 98bfc00 is not (defect D3). *)
From Coq Require Import List NArith ZArith Arith Lia Bool.
From Coq Require Import ZifyBool ZifyN ZifyNat.
From GL Require Import model.XBinary model.legacy.XBinaryLegacy spec.XBinary proofs.C15_XBinary.
Import ListNotations.
Open Scope N_scope.
Ltac Zify.zify_post_hook ::= Z.div_mod_to_equations.

Lemma wf_firstn k : forall l, wf_bytes l = true -> wf_bytes (firstn k l) = true.
Proof.
  induction k as [|k IH]; intros l Hl; [reflexivity|].
  destruct l as [|b t]; [reflexivity|]. cbn [firstn wf_bytes forallb] in *.
  apply andb_true_iff in Hl as [Hb Ht]. rewrite Hb. apply IH, Ht.
Qed.

Lemma get_be_lt : forall l, wf_bytes l = true -> get_be l < 2 ^ (8 * N.of_nat (length l)).
Proof.
  induction l as [|b t IH]; intros Hl.
  - reflexivity.
  - cbn [wf_bytes forallb] in Hl. apply andb_true_iff in Hl as [Hb Ht].
    unfold wf_byte in Hb. apply N.ltb_lt in Hb. specialize (IH Ht).
    cbn [get_be length].
    replace (8 * N.of_nat (S (length t))) with (8 * N.of_nat (length t) + 8) by lia.
    set (s := 8 * N.of_nat (length t)) in *.
    assert (Hp : 2 ^ (s + 8) = 2 ^ s * 256) by (rewrite N.pow_add_r; reflexivity).
    apply lor_lt_pow2.
    + rewrite N.shiftl_mul_pow2, Hp. nia.
    + rewrite Hp. nia.
Qed.

Lemma total_fixed k buf : wf_bytes buf = true -> k <> O ->
  total_scalar (8 * N.of_nat k) buf (unmarshal_fixed k buf).
Proof.
  intros Hwf Hk. unfold unmarshal_fixed.
  destruct (Nat.ltb_spec (length buf) k) as [Hlt|Hge]; [exact I|].
  cbn [total_scalar]. split; [lia|].
  pose proof (get_be_lt (firstn k buf) (wf_firstn k buf Hwf)) as H.
  rewrite firstn_length_le in H by exact Hge. exact H.
Qed.

Lemma total_byte buf : wf_bytes buf = true -> total_scalar 8 buf (unmarshal_byte buf).
Proof.
  intros Hwf. destruct buf as [|b t]; [exact I|]. cbn [unmarshal_byte total_scalar length].
  cbn [wf_bytes forallb] in Hwf. apply andb_true_iff in Hwf as [Hb _].
  unfold wf_byte in Hb. apply N.ltb_lt in Hb. split; [lia|exact Hb].
Qed.

Lemma total_uint buf : total_scalar 64 buf (unmarshal_uint buf).
Proof.
  pose proof (unmarshal_uint_bounds buf) as Hb.
  pose proof (unmarshal_uint_value buf) as Hv.
  destruct (unmarshal_uint buf) as [n v| |]; cbn [total_scalar]; [|exact I|exact Hb].
  split; [exact Hb|]. eapply Hv. reflexivity.
Qed.

Lemma total_unmarshal_bytes buf extra nb : go_len buf ->
  total_bytes buf nb (unmarshal_bytes buf extra nb).
Proof.
  intros Hlen. pose proof (unmarshal_uint_bounds buf) as Hb.
  destruct (unmarshal_uint buf) as [idx uln| |] eqn:Hu.
  - rewrite (unmarshal_bytes_spec buf extra nb idx uln Hlen Hu) by lia.
    destruct (N.ltb_spec (N.of_nat (length buf - idx)) uln) as [Hlt|Hge]; [exact I|].
    cbn [total_bytes v_off v_data v_alias].
    assert (Hfl : length (firstn (N.to_nat uln) (skipn idx buf)) = N.to_nat uln)
      by (rewrite firstn_length_le; [reflexivity|rewrite skipn_length; lia]).
    rewrite Hfl. repeat split; lia.
  - unfold unmarshal_bytes. rewrite Hu. exact I.
  - destruct Hb.
Qed.

Theorem decoders_total : forall buf extra,
  wf_bytes buf = true -> go_len buf ->
  total_scalar 8 buf (unmarshal_byte buf) /\
  total_scalar 16 buf (unmarshal_fixed 2 buf) /\
  total_scalar 32 buf (unmarshal_fixed 4 buf) /\
  total_scalar 64 buf (unmarshal_fixed 8 buf) /\
  total_scalar 64 buf (unmarshal_uint buf) /\
  (forall newBuf, total_bytes buf newBuf (unmarshal_bytes buf extra newBuf)) /\
  (forall newBuf, total_bytes buf newBuf (unmarshal_string buf extra newBuf)).
Proof.
  intros buf extra Hwf Hlen. repeat split.
  - apply total_byte, Hwf.
  - apply (total_fixed 2 buf Hwf). discriminate.
  - apply (total_fixed 4 buf Hwf). discriminate.
  - apply (total_fixed 8 buf Hwf). discriminate.
  - apply total_uint.
  - intros nb. apply total_unmarshal_bytes, Hlen.
  - intros nb. apply total_unmarshal_bytes, Hlen.
Qed.

(* decoding never looks past the consumed bytes: the result on the consumed
   prefix alone is the same (so nothing beyond n, in particular nothing beyond
   len(buf), influences it) *)
Lemma unmarshal_uint_go_prefix : forall buf res shft idx n v more,
  unmarshal_uint_go buf res shft idx = DOk n v ->
  unmarshal_uint_go (firstn (n - idx) buf ++ more) res shft idx = DOk n v.
Proof.
  induction buf as [|b tl IH]; intros res shft idx n v more H; cbn [unmarshal_uint_go] in H.
  - discriminate.
  - pose proof (unmarshal_uint_go_bounds (b :: tl) res shft idx) as Hb.
    cbn [unmarshal_uint_go] in Hb.
    destruct (b <=? 127) eqn:Hc.
    + injection H as <- <-. replace (S idx - idx)%nat with 1%nat by lia.
      cbn [firstn app unmarshal_uint_go]. rewrite Hc. reflexivity.
    + rewrite H in Hb. pose proof (unmarshal_uint_go_bounds tl (N.lor res (shl64 (N.land b 127) shft)) (shft + 7) (S idx)) as Hb'.
      rewrite H in Hb'.
      replace (n - idx)%nat with (S (n - S idx)) by lia.
      cbn [firstn app unmarshal_uint_go]. rewrite Hc. apply IH. exact H.
Qed.

Theorem unmarshal_uint_prefix : forall buf n v more,
  unmarshal_uint buf = DOk n v -> unmarshal_uint (firstn n buf ++ more) = DOk n v.
Proof.
  intros buf n v more H. unfold unmarshal_uint in *.
  pose proof (unmarshal_uint_go_prefix buf 0 0 O n v more H) as P.
  rewrite Nat.sub_0_r in P. exact P.
Qed.

(** * The decoder before the fix: D3 *)

Definition d3_witness_1 : list N := [255; 255; 255; 255; 255; 255; 255; 255; 255; 1].
Definition d3_witness_2 : list N := [255; 255; 255; 255; 255; 255; 255; 255; 127].

Theorem legacy_unmarshal_bytes_refuted :
  exists buf, wf_bytes buf = true /\ go_len buf /\
              unmarshal_bytes_legacy buf [] false = DPanic.
Proof.
  exists d3_witness_1. split; [reflexivity|]. split; [reflexivity|].
  vm_compute. reflexivity.
Qed.

Lemma legacy_unmarshal_bytes_refuted_2 :
  unmarshal_bytes_legacy d3_witness_2 [] false = DPanic.
Proof. vm_compute. reflexivity. Qed.

(* the repaired decoder on the same inputs reports an error *)
Lemma d3_witnesses_fixed :
  unmarshal_bytes d3_witness_1 [] false = DErr /\ unmarshal_bytes d3_witness_2 [] false = DErr.
Proof. split; vm_compute; reflexivity. Qed.
