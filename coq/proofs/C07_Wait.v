(** C07: lemmas about the waiter LTS (model/WaitLTS.v).

    Part A  lists: [upd_nth], [nth_error], counting threads on a channel
    Part B  projections of the primitives (notify, release, register, get_rec, ...)
    Part C  the invariant [Inv] = [InvT] (table / channel accounting) + [InvP]
            (a parked waiter on an open channel waits for the current version)
            + [InvC] (cancel-pending only with a done context); preserved by every step
    Part D  consequences: soundness of returns, enabledness, isolation of a
            cancellation, no residue, no double close. *)
From Coq Require Import List ZArith NArith Bool Arith Lia.
From GL Require Import model.WaitLTS.
Import ListNotations.

(** * Part A: lists *)

Lemma nth_error_upd_nth_eq : forall {A} (l : list A) n x y,
  nth_error l n = Some y -> nth_error (upd_nth l n x) n = Some x.
Proof.
  induction l as [|h tl IH]; intros [|n] x y H; cbn in *; try discriminate; eauto.
Qed.

Lemma nth_error_upd_nth_neq : forall {A} (l : list A) n m x,
  n <> m -> nth_error (upd_nth l n x) m = nth_error l m.
Proof.
  induction l as [|h tl IH]; intros [|n] [|m] x H; cbn in *; try reflexivity; try congruence.
  apply IH. congruence.
Qed.

Lemma length_upd_nth : forall {A} (l : list A) n x, length (upd_nth l n x) = length l.
Proof.
  induction l as [|h tl IH]; intros [|n] x; cbn; auto.
Qed.

Lemma nth_error_upd_nth : forall {A} (l : list A) n m x,
  nth_error (upd_nth l n x) m =
  if Nat.eqb n m then match nth_error l n with Some _ => Some x | None => None end
  else nth_error l m.
Proof.
  intros A l n m x. destruct (Nat.eqb_spec n m) as [->|Hne].
  - destruct (nth_error l m) as [y|] eqn:E.
    + eapply nth_error_upd_nth_eq; eauto.
    + apply nth_error_None. rewrite length_upd_nth. apply nth_error_None. exact E.
  - apply nth_error_upd_nth_neq. exact Hne.
Qed.

Definition b2n (b : bool) : nat := if b then 1 else 0.

Lemma count_on_cons : forall k c th l,
  count_on k c (th :: l) = b2n (on_chan k c (t_pc th)) + count_on k c l.
Proof.
  intros. unfold count_on. cbn [filter]. destruct (on_chan k c (t_pc th)); reflexivity.
Qed.

Lemma count_on_app : forall k c l1 l2, count_on k c (l1 ++ l2) = count_on k c l1 + count_on k c l2.
Proof.
  intros. unfold count_on. rewrite filter_app, app_length. reflexivity.
Qed.

Lemma count_on_upd_nth : forall k c l t th th',
  nth_error l t = Some th ->
  count_on k c (upd_nth l t th') + b2n (on_chan k c (t_pc th)) =
  count_on k c l + b2n (on_chan k c (t_pc th')).
Proof.
  intros k c. induction l as [|h tl IH]; intros [|t] th th' H; cbn [nth_error] in H; try discriminate.
  - injection H as ->. cbn [upd_nth]. rewrite !count_on_cons. lia.
  - cbn [upd_nth]. rewrite !count_on_cons. specialize (IH _ _ th' H). lia.
Qed.

Lemma count_on_pos : forall k c l t th,
  nth_error l t = Some th -> on_chan k c (t_pc th) = true -> 1 <= count_on k c l.
Proof.
  intros k c. induction l as [|h tl IH]; intros [|t] th H Hon; cbn [nth_error] in H; try discriminate.
  - injection H as ->. rewrite count_on_cons, Hon. cbn. lia.
  - rewrite count_on_cons. specialize (IH _ _ H Hon). lia.
Qed.

Lemma count_on_two : forall k c l t1 t2 th1 th2,
  t1 <> t2 -> nth_error l t1 = Some th1 -> nth_error l t2 = Some th2 ->
  on_chan k c (t_pc th1) = true -> on_chan k c (t_pc th2) = true -> 2 <= count_on k c l.
Proof.
  intros k c. induction l as [|h tl IH]; intros [|t1] [|t2] th1 th2 Hne H1 H2 Ho1 Ho2;
    cbn [nth_error] in *; try discriminate; try congruence.
  - injection H1 as ->. rewrite count_on_cons, Ho1. pose proof (count_on_pos _ _ _ _ _ H2 Ho2). cbn. lia.
  - injection H2 as ->. rewrite count_on_cons, Ho2. pose proof (count_on_pos _ _ _ _ _ H1 Ho1). cbn. lia.
  - rewrite count_on_cons. assert (t1 <> t2) by congruence.
    specialize (IH _ _ _ _ H H1 H2 Ho1 Ho2). lia.
Qed.

Lemma count_on_zero : forall k c l,
  (forall t th, nth_error l t = Some th -> on_chan k c (t_pc th) = false) -> count_on k c l = 0.
Proof.
  intros k c. induction l as [|h tl IH]; intros H.
  - reflexivity.
  - rewrite count_on_cons. rewrite (H 0 h eq_refl). cbn. apply IH. intros t th Ht. exact (H (S t) th Ht).
Qed.

Lemma on_chan_true : forall k c p, on_chan k c p = true ->
  (exists v tm, p = PParked k v c tm) \/ p = PCancelPending k c \/ (exists v, p = PExpiryPending k v c).
Proof.
  intros k c [k' v'|k' v' c' tm|k' c'|k' v' c'|r] H; cbn in H; try discriminate;
    apply andb_true_iff in H as [H1 H2]; apply Nat.eqb_eq in H1; apply Nat.eqb_eq in H2; subst; eauto.
Qed.

Lemma upd_eq : forall {A} (f : nat -> A) k x, upd f k x k = x.
Proof. intros. unfold upd. rewrite Nat.eqb_refl. reflexivity. Qed.

Lemma upd_neq : forall {A} (f : nat -> A) k k' x, k' <> k -> upd f k x k' = f k'.
Proof. intros. unfold upd. destruct (Nat.eqb_spec k' k); congruence. Qed.

Lemma on_chan_inj : forall k c k' c' p,
  on_chan k c p = true -> on_chan k' c' p = true -> k' = k /\ c' = c.
Proof.
  intros k c k' c' p H H'. destruct p; cbn in H, H'; try discriminate;
    apply andb_true_iff in H as [H1 H2]; apply andb_true_iff in H' as [H3 H4];
    apply Nat.eqb_eq in H1, H2, H3, H4; subst; auto.
Qed.

Definition off_chan (p : pc) : Prop := forall k c, on_chan k c p = false.

Lemma off_chan_check : forall k v, off_chan (PCheck k v).
Proof. intros k v k' c'. reflexivity. Qed.
Lemma off_chan_done : forall r, off_chan (PDone r).
Proof. intros r k' c'. reflexivity. Qed.

Lemma on_chan_refl_parked : forall k v c tm, on_chan k c (PParked k v c tm) = true.
Proof. intros. cbn. rewrite !Nat.eqb_refl. reflexivity. Qed.
Lemma on_chan_refl_cancel : forall k c, on_chan k c (PCancelPending k c) = true.
Proof. intros. cbn. rewrite !Nat.eqb_refl. reflexivity. Qed.
Lemma on_chan_refl_expiry : forall k v c, on_chan k c (PExpiryPending k v c) = true.
Proof. intros. cbn. rewrite !Nat.eqb_refl. reflexivity. Qed.

(** * Part C: the invariant, on the components of the state *)

Record InvT' (tb : key -> option (chan * Z)) (cl : chan -> bool) (nx : chan) (l : list thread) : Prop := {
  it_tbl : forall k c n, tb k = Some (c, n) ->
     c < nx /\ cl c = false /\ n = Z.of_nat (count_on k c l) /\ (1 <= n)%Z;
  it_uniq : forall k1 k2 c n1 n2, tb k1 = Some (c, n1) -> tb k2 = Some (c, n2) -> k1 = k2;
  it_thr : forall t th k c, nth_error l t = Some th -> on_chan k c (t_pc th) = true -> c < nx;
  it_chkey : forall t th k c k' n, nth_error l t = Some th -> on_chan k c (t_pc th) = true ->
     tb k' = Some (c, n) -> k' = k;
  it_closed : forall c, cl c = true -> c < nx }.

Definition InvP' (sto : key -> option rcd) (tb : key -> option (chan * Z)) (cl : chan -> bool)
  (l : list thread) : Prop :=
  forall t th k v c tm, nth_error l t = Some th -> t_pc th = PParked k v c tm -> cl c = false ->
    (exists n, tb k = Some (c, n)) /\ exists r, sto k = Some r /\ r_ver r = v /\ r_exp r = tm.

Definition InvC' (l : list thread) : Prop :=
  forall t th k c, nth_error l t = Some th -> t_pc th = PCancelPending k c -> t_ctx th = true.

(** ** table accounting *)

Lemma T_notify : forall tb cl nx l k c n,
  InvT' tb cl nx l -> tb k = Some (c, n) -> InvT' (upd tb k None) (upd cl c true) nx l.
Proof.
  intros tb cl nx l k c n I Hk. destruct I as [Itbl Iuniq Ithr Ichk Icl]. split.
  - intros k' c' n' H. unfold upd in H. destruct (Nat.eqb_spec k' k) as [->|Hne]; [discriminate|].
    destruct (Itbl _ _ _ H) as (H1 & H2 & H3 & H4). repeat split; auto.
    unfold upd. destruct (Nat.eqb_spec c' c) as [->|Hc]; auto.
    exfalso. apply Hne. eapply Iuniq; eauto.
  - intros k1 k2 c' n1 n2 H1 H2. unfold upd in H1, H2.
    destruct (Nat.eqb_spec k1 k); [discriminate|]. destruct (Nat.eqb_spec k2 k); [discriminate|]. eauto.
  - exact Ithr.
  - intros t th k0 c0 k' n' Ht Hon H. unfold upd in H. destruct (Nat.eqb_spec k' k); [discriminate|]. eauto.
  - intros c' H. unfold upd in H. destruct (Nat.eqb c' c) eqn:E.
    + apply Nat.eqb_eq in E. subst c'. apply (Itbl _ _ _ Hk).
    + auto.
Qed.

Lemma T_leave_dec : forall tb cl nx l k c n t th th',
  InvT' tb cl nx l -> tb k = Some (c, n) -> nth_error l t = Some th ->
  on_chan k c (t_pc th) = true -> off_chan (t_pc th') -> (n - 1 <> 0)%Z ->
  InvT' (upd tb k (Some (c, n - 1)%Z)) cl nx (upd_nth l t th').
Proof.
  intros tb cl nx l k c n t th th' I Hk Ht Hon Hoff Hn. destruct I as [Itbl Iuniq Ithr Ichk Icl]. split.
  - intros k' c' n' H. unfold upd in H. destruct (Nat.eqb_spec k' k) as [->|Hne].
    + injection H as <- <-. destruct (Itbl _ _ _ Hk) as (H1 & H2 & H3 & H4). repeat split; auto; try lia.
      pose proof (count_on_upd_nth k c l t th th' Ht) as Hc. rewrite Hon, (Hoff k c) in Hc. cbn in Hc. lia.
    + destruct (Itbl _ _ _ H) as (H1 & H2 & H3 & H4). repeat split; auto.
      pose proof (count_on_upd_nth k' c' l t th th' Ht) as Hc. rewrite (Hoff k' c') in Hc.
      destruct (on_chan k' c' (t_pc th)) eqn:E.
      * destruct (on_chan_inj _ _ _ _ _ Hon E). congruence.
      * cbn in Hc. lia.
  - intros k1 k2 c' n1 n2 H1 H2. unfold upd in H1, H2.
    destruct (Nat.eqb_spec k1 k) as [->|N1]; destruct (Nat.eqb_spec k2 k) as [->|N2]; auto.
    + injection H1 as <- <-. symmetry. eapply Iuniq; eauto.
    + injection H2 as <- <-. eapply Iuniq; eauto.
    + eauto.
  - intros t' th0 k0 c0 H Hon0. rewrite nth_error_upd_nth in H. destruct (Nat.eqb_spec t t') as [->|Hne].
    + rewrite Ht in H. injection H as <-. rewrite Hoff in Hon0. discriminate.
    + eauto.
  - intros t' th0 k0 c0 k' n' H Hon0 Hk'. rewrite nth_error_upd_nth in H. destruct (Nat.eqb_spec t t') as [->|Hne].
    + rewrite Ht in H. injection H as <-. rewrite Hoff in Hon0. discriminate.
    + unfold upd in Hk'. destruct (Nat.eqb_spec k' k) as [->|N].
      * injection Hk' as <- <-. eapply Ichk; eauto.
      * eauto.
  - exact Icl.
Qed.

Lemma T_leave_last : forall tb cl nx l k c n t th th',
  InvT' tb cl nx l -> tb k = Some (c, n) -> nth_error l t = Some th ->
  on_chan k c (t_pc th) = true -> off_chan (t_pc th') ->
  InvT' (upd tb k None) (upd cl c true) nx (upd_nth l t th').
Proof.
  intros tb cl nx l k c n t th th' I Hk Ht Hon Hoff.
  pose proof (T_notify _ _ _ _ _ _ _ I Hk) as J.
  destruct I as [Itbl Iuniq Ithr Ichk Icl]. destruct J as [Jtbl Juniq Jthr Jchk Jcl]. split.
  - intros k' c' n' H. destruct (Jtbl _ _ _ H) as (H1 & H2 & H3 & H4). repeat split; auto.
    pose proof (count_on_upd_nth k' c' l t th th' Ht) as Hc. rewrite (Hoff k' c') in Hc.
    destruct (on_chan k' c' (t_pc th)) eqn:E.
    + destruct (on_chan_inj _ _ _ _ _ Hon E) as [-> ->]. rewrite upd_eq in H. discriminate.
    + cbn in Hc. lia.
  - exact Juniq.
  - intros t' th0 k0 c0 H Hon0. rewrite nth_error_upd_nth in H. destruct (Nat.eqb_spec t t') as [->|Hne].
    + rewrite Ht in H. injection H as <-. rewrite Hoff in Hon0. discriminate.
    + eauto.
  - intros t' th0 k0 c0 k' n' H Hon0 Hk'. rewrite nth_error_upd_nth in H. destruct (Nat.eqb_spec t t') as [->|Hne].
    + rewrite Ht in H. injection H as <-. rewrite Hoff in Hon0. discriminate.
    + eauto.
  - exact Jcl.
Qed.

Lemma T_leave_nomatch : forall tb cl nx l k c t th th',
  InvT' tb cl nx l -> (forall n, tb k <> Some (c, n)) -> nth_error l t = Some th ->
  on_chan k c (t_pc th) = true -> off_chan (t_pc th') ->
  InvT' tb cl nx (upd_nth l t th').
Proof.
  intros tb cl nx l k c t th th' I Hk Ht Hon Hoff. destruct I as [Itbl Iuniq Ithr Ichk Icl]. split.
  - intros k' c' n' H. destruct (Itbl _ _ _ H) as (H1 & H2 & H3 & H4). repeat split; auto.
    pose proof (count_on_upd_nth k' c' l t th th' Ht) as Hc. rewrite (Hoff k' c') in Hc.
    destruct (on_chan k' c' (t_pc th)) eqn:E.
    + destruct (on_chan_inj _ _ _ _ _ Hon E) as [-> ->]. exfalso. eapply Hk; eauto.
    + cbn in Hc. lia.
  - exact Iuniq.
  - intros t' th0 k0 c0 H Hon0. rewrite nth_error_upd_nth in H. destruct (Nat.eqb_spec t t') as [->|Hne].
    + rewrite Ht in H. injection H as <-. rewrite Hoff in Hon0. discriminate.
    + eauto.
  - intros t' th0 k0 c0 k' n' H Hon0 Hk'. rewrite nth_error_upd_nth in H. destruct (Nat.eqb_spec t t') as [->|Hne].
    + rewrite Ht in H. injection H as <-. rewrite Hoff in Hon0. discriminate.
    + eauto.
  - exact Icl.
Qed.

Lemma T_join : forall tb cl nx l k c n t th th' v tm,
  InvT' tb cl nx l -> tb k = Some (c, n) -> nth_error l t = Some th ->
  off_chan (t_pc th) -> t_pc th' = PParked k v c tm ->
  InvT' (upd tb k (Some (c, n + 1)%Z)) cl nx (upd_nth l t th').
Proof.
  intros tb cl nx l k c n t th th' v tm I Hk Ht Hoff Hpc.
  assert (Hon : on_chan k c (t_pc th') = true) by (rewrite Hpc; apply on_chan_refl_parked).
  destruct I as [Itbl Iuniq Ithr Ichk Icl]. split.
  - intros k' c' n' H. unfold upd in H. destruct (Nat.eqb_spec k' k) as [->|Hne].
    + injection H as <- <-. destruct (Itbl _ _ _ Hk) as (H1 & H2 & H3 & H4). repeat split; auto; try lia.
      pose proof (count_on_upd_nth k c l t th th' Ht) as Hc. rewrite Hon, (Hoff k c) in Hc. cbn in Hc. lia.
    + destruct (Itbl _ _ _ H) as (H1 & H2 & H3 & H4). repeat split; auto.
      pose proof (count_on_upd_nth k' c' l t th th' Ht) as Hc. rewrite (Hoff k' c') in Hc.
      destruct (on_chan k' c' (t_pc th')) eqn:E.
      * destruct (on_chan_inj _ _ _ _ _ Hon E). congruence.
      * cbn in Hc. lia.
  - intros k1 k2 c' n1 n2 H1 H2. unfold upd in H1, H2.
    destruct (Nat.eqb_spec k1 k) as [->|N1]; destruct (Nat.eqb_spec k2 k) as [->|N2]; auto.
    + injection H1 as <- <-. symmetry. eapply Iuniq; eauto.
    + injection H2 as <- <-. eapply Iuniq; eauto.
    + eauto.
  - intros t' th0 k0 c0 H Hon0. rewrite nth_error_upd_nth in H. destruct (Nat.eqb_spec t t') as [->|Hne].
    + rewrite Ht in H. injection H as <-. destruct (on_chan_inj _ _ _ _ _ Hon Hon0) as [-> ->].
      apply (Itbl _ _ _ Hk).
    + eauto.
  - intros t' th0 k0 c0 k' n' H Hon0 Hk'. rewrite nth_error_upd_nth in H.
    assert (Hold : tb k' = Some (c0, n') \/ (k' = k /\ c0 = c)).
    { unfold upd in Hk'. destruct (Nat.eqb_spec k' k) as [->|N]; [right|left; exact Hk'].
      injection Hk' as <- <-. auto. }
    destruct (Nat.eqb_spec t t') as [->|Hne].
    + rewrite Ht in H. injection H as <-. destruct (on_chan_inj _ _ _ _ _ Hon Hon0) as [-> ->].
      destruct Hold as [Hold|[-> _]]; auto. eapply Iuniq; eauto.
    + destruct Hold as [Hold|[-> ->]]; eauto.
  - exact Icl.
Qed.

Lemma T_new : forall tb cl nx l k t th th' v tm,
  InvT' tb cl nx l -> tb k = None -> nth_error l t = Some th ->
  off_chan (t_pc th) -> t_pc th' = PParked k v nx tm ->
  InvT' (upd tb k (Some (nx, 1%Z))) cl (S nx) (upd_nth l t th').
Proof.
  intros tb cl nx l k t th th' v tm I Hk Ht Hoff Hpc.
  assert (Hon : on_chan k nx (t_pc th') = true) by (rewrite Hpc; apply on_chan_refl_parked).
  destruct I as [Itbl Iuniq Ithr Ichk Icl]. split.
  - intros k' c' n' H. unfold upd in H. destruct (Nat.eqb_spec k' k) as [->|Hne].
    + injection H as <- <-. repeat split; try lia.
      * destruct (cl nx) eqn:E; auto. apply Icl in E. lia.
      * pose proof (count_on_upd_nth k nx l t th th' Ht) as Hc. rewrite Hon, (Hoff k nx) in Hc. cbn in Hc.
        rewrite (count_on_zero k nx l) in Hc; [lia|].
        intros t0 th0 H0. destruct (on_chan k nx (t_pc th0)) eqn:E; auto.
        pose proof (Ithr _ _ _ _ H0 E). lia.
    + destruct (Itbl _ _ _ H) as (H1 & H2 & H3 & H4). repeat split; auto.
      pose proof (count_on_upd_nth k' c' l t th th' Ht) as Hc. rewrite (Hoff k' c') in Hc.
      destruct (on_chan k' c' (t_pc th')) eqn:E.
      * destruct (on_chan_inj _ _ _ _ _ Hon E). congruence.
      * cbn in Hc. lia.
  - intros k1 k2 c' n1 n2 H1 H2. unfold upd in H1, H2.
    destruct (Nat.eqb_spec k1 k) as [->|N1]; destruct (Nat.eqb_spec k2 k) as [->|N2]; auto.
    + injection H1 as <- <-. destruct (Itbl _ _ _ H2). lia.
    + injection H2 as <- <-. destruct (Itbl _ _ _ H1). lia.
    + eauto.
  - intros t' th0 k0 c0 H Hon0. rewrite nth_error_upd_nth in H. destruct (Nat.eqb_spec t t') as [->|Hne].
    + rewrite Ht in H. injection H as <-. destruct (on_chan_inj _ _ _ _ _ Hon Hon0) as [-> ->]. lia.
    + pose proof (Ithr _ _ _ _ H Hon0). lia.
  - intros t' th0 k0 c0 k' n' H Hon0 Hk'. rewrite nth_error_upd_nth in H.
    unfold upd in Hk'. destruct (Nat.eqb_spec t t') as [->|Hne].
    + rewrite Ht in H. injection H as <-. destruct (on_chan_inj _ _ _ _ _ Hon Hon0) as [-> ->].
      destruct (Nat.eqb_spec k' k) as [->|N]; auto. destruct (Itbl _ _ _ Hk'). lia.
    + destruct (Nat.eqb_spec k' k) as [->|N].
      * injection Hk' as <- <-. pose proof (Ithr _ _ _ _ H Hon0). lia.
      * eauto.
  - intros c H. apply Icl in H. lia.
Qed.

Lemma T_move : forall tb cl nx l t th th',
  InvT' tb cl nx l -> nth_error l t = Some th ->
  (forall k c, on_chan k c (t_pc th') = on_chan k c (t_pc th)) ->
  InvT' tb cl nx (upd_nth l t th').
Proof.
  intros tb cl nx l t th th' I Ht Hsame. destruct I as [Itbl Iuniq Ithr Ichk Icl]. split.
  - intros k' c' n' H. destruct (Itbl _ _ _ H) as (H1 & H2 & H3 & H4). repeat split; auto.
    pose proof (count_on_upd_nth k' c' l t th th' Ht) as Hc. rewrite Hsame in Hc. lia.
  - exact Iuniq.
  - intros t' th0 k0 c0 H Hon0. rewrite nth_error_upd_nth in H. destruct (Nat.eqb_spec t t') as [->|Hne].
    + rewrite Ht in H. injection H as <-. rewrite Hsame in Hon0. eauto.
    + eauto.
  - intros t' th0 k0 c0 k' n' H Hon0 Hk'. rewrite nth_error_upd_nth in H. destruct (Nat.eqb_spec t t') as [->|Hne].
    + rewrite Ht in H. injection H as <-. rewrite Hsame in Hon0. eauto.
    + eauto.
  - exact Icl.
Qed.

Lemma nth_error_snoc : forall {A} (l : list A) x t y,
  nth_error (l ++ [x]) t = Some y -> nth_error l t = Some y \/ (t = length l /\ y = x).
Proof.
  intros A l x t y H. destruct (Nat.lt_ge_cases t (length l)) as [Hlt|Hge].
  - rewrite nth_error_app1 in H by exact Hlt. auto.
  - rewrite nth_error_app2 in H by exact Hge. destruct (t - length l) as [|d] eqn:E.
    + cbn in H. injection H as <-. right. split; [lia|reflexivity].
    + cbn in H. destruct d; discriminate.
Qed.

Lemma T_app : forall tb cl nx l th,
  InvT' tb cl nx l -> off_chan (t_pc th) -> InvT' tb cl nx (l ++ [th]).
Proof.
  intros tb cl nx l th I Hoff. destruct I as [Itbl Iuniq Ithr Ichk Icl]. split.
  - intros k' c' n' H. destruct (Itbl _ _ _ H) as (H1 & H2 & H3 & H4). repeat split; auto.
    rewrite count_on_app. unfold count_on at 2. cbn [filter]. rewrite (Hoff k' c'). cbn. lia.
  - exact Iuniq.
  - intros t' th0 k0 c0 H Hon0. apply nth_error_snoc in H as [H|[_ ->]]; eauto.
    rewrite Hoff in Hon0. discriminate.
  - intros t' th0 k0 c0 k' n' H Hon0 Hk'. apply nth_error_snoc in H as [H|[_ ->]]; eauto.
    rewrite Hoff in Hon0. discriminate.
  - exact Icl.
Qed.

(** ** parked waiters on open channels wait for the current record *)

Lemma P_notify : forall sto sto' tb cl nx l k c n,
  InvT' tb cl nx l -> InvP' sto tb cl l -> tb k = Some (c, n) ->
  (forall k', k' <> k -> sto' k' = sto k') ->
  InvP' sto' (upd tb k None) (upd cl c true) l.
Proof.
  intros sto sto' tb cl nx l k c n I P Hk Hst t th k2 v c2 tm Ht Hpc Hcl.
  unfold upd in Hcl. destruct (Nat.eqb_spec c2 c) as [->|Hc]; [discriminate|].
  destruct (P _ _ _ _ _ _ Ht Hpc Hcl) as [[n2 Htb] Hr].
  assert (k2 <> k) by (intros ->; rewrite Hk in Htb; congruence).
  split.
  - exists n2. rewrite upd_neq; auto.
  - rewrite Hst; auto.
Qed.

(** a write to a key nobody can be waiting on with an open channel *)
Lemma P_write_quiet : forall sto sto' tb cl l k,
  InvP' sto tb cl l -> (tb k = None \/ sto k = None) ->
  (forall k', k' <> k -> sto' k' = sto k') ->
  InvP' sto' tb cl l.
Proof.
  intros sto sto' tb cl l k P Hk Hst t th k2 v c2 tm Ht Hpc Hcl.
  destruct (P _ _ _ _ _ _ Ht Hpc Hcl) as [[n2 Htb] (r & Hr & Hv & He)].
  assert (k2 <> k) by (intros ->; destruct Hk as [Hk|Hk]; congruence).
  split; [eauto|]. rewrite Hst; eauto.
Qed.

Lemma P_leave_dec : forall sto tb cl l k c n t th th',
  InvP' sto tb cl l -> tb k = Some (c, n) -> nth_error l t = Some th ->
  off_chan (t_pc th') ->
  InvP' sto (upd tb k (Some (c, n - 1)%Z)) cl (upd_nth l t th').
Proof.
  intros sto tb cl l k c n t th th' P Hk Ht Hoff t2 th2 k2 v c2 tm Ht2 Hpc Hcl.
  rewrite nth_error_upd_nth in Ht2. destruct (Nat.eqb_spec t t2) as [->|Hne].
  - rewrite Ht in Ht2. injection Ht2 as <-. pose proof (Hoff k2 c2) as X. rewrite Hpc, on_chan_refl_parked in X.
    discriminate.
  - destruct (P _ _ _ _ _ _ Ht2 Hpc Hcl) as [[n2 Htb] Hr]. split; auto.
    unfold upd. destruct (Nat.eqb_spec k2 k) as [->|N]; eauto.
    rewrite Hk in Htb. injection Htb as <- <-. eauto.
Qed.

Lemma P_leave_last : forall sto tb cl nx l k c n t th th',
  InvT' tb cl nx l -> InvP' sto tb cl l -> tb k = Some (c, n) -> nth_error l t = Some th ->
  off_chan (t_pc th') ->
  InvP' sto (upd tb k None) (upd cl c true) (upd_nth l t th').
Proof.
  intros sto tb cl nx l k c n t th th' I P Hk Ht Hoff t2 th2 k2 v c2 tm Ht2 Hpc Hcl.
  rewrite nth_error_upd_nth in Ht2. destruct (Nat.eqb_spec t t2) as [->|Hne].
  - rewrite Ht in Ht2. injection Ht2 as <-. pose proof (Hoff k2 c2) as X. rewrite Hpc, on_chan_refl_parked in X.
    discriminate.
  - eapply (P_notify sto sto tb cl nx l k c n I P Hk); eauto.
Qed.

Lemma P_leave_same : forall sto tb cl l t th th',
  InvP' sto tb cl l -> nth_error l t = Some th ->
  (forall k v c tm, t_pc th' <> PParked k v c tm) ->
  InvP' sto tb cl (upd_nth l t th').
Proof.
  intros sto tb cl l t th th' P Ht Hnp t2 th2 k2 v c2 tm Ht2 Hpc Hcl.
  rewrite nth_error_upd_nth in Ht2. destruct (Nat.eqb_spec t t2) as [->|Hne].
  - rewrite Ht in Ht2. injection Ht2 as <-. exfalso. eapply Hnp; eauto.
  - eauto.
Qed.

Lemma P_join : forall sto tb cl l k c n t th th' v r,
  InvP' sto tb cl l -> tb k = Some (c, n) -> nth_error l t = Some th ->
  sto k = Some r -> r_ver r = v -> t_pc th' = PParked k v c (r_exp r) ->
  InvP' sto (upd tb k (Some (c, n + 1)%Z)) cl (upd_nth l t th').
Proof.
  intros sto tb cl l k c n t th th' v r P Hk Ht Hst Hv Hpc' t2 th2 k2 v2 c2 tm Ht2 Hpc Hcl.
  rewrite nth_error_upd_nth in Ht2. destruct (Nat.eqb_spec t t2) as [->|Hne].
  - rewrite Ht in Ht2. injection Ht2 as <-. rewrite Hpc' in Hpc. injection Hpc as <- <- <- <-.
    split; [rewrite upd_eq; eauto|eauto].
  - destruct (P _ _ _ _ _ _ Ht2 Hpc Hcl) as [[n2 Htb] Hr]. split; auto.
    unfold upd. destruct (Nat.eqb_spec k2 k) as [->|N]; eauto.
    rewrite Hk in Htb. injection Htb as <- <-. eauto.
Qed.

Lemma P_new : forall sto tb cl l k nx t th th' v r,
  InvP' sto tb cl l -> tb k = None -> nth_error l t = Some th ->
  sto k = Some r -> r_ver r = v -> t_pc th' = PParked k v nx (r_exp r) ->
  InvP' sto (upd tb k (Some (nx, 1%Z))) cl (upd_nth l t th').
Proof.
  intros sto tb cl l k nx t th th' v r P Hk Ht Hst Hv Hpc' t2 th2 k2 v2 c2 tm Ht2 Hpc Hcl.
  rewrite nth_error_upd_nth in Ht2. destruct (Nat.eqb_spec t t2) as [->|Hne].
  - rewrite Ht in Ht2. injection Ht2 as <-. rewrite Hpc' in Hpc. injection Hpc as <- <- <- <-.
    split; [rewrite upd_eq; eauto|eauto].
  - destruct (P _ _ _ _ _ _ Ht2 Hpc Hcl) as [[n2 Htb] Hr]. split; auto.
    unfold upd. destruct (Nat.eqb_spec k2 k) as [->|N]; eauto. congruence.
Qed.

Lemma P_app : forall sto tb cl l th,
  InvP' sto tb cl l -> (forall k v c tm, t_pc th <> PParked k v c tm) -> InvP' sto tb cl (l ++ [th]).
Proof.
  intros sto tb cl l th P Hnp t2 th2 k2 v c2 tm Ht2 Hpc Hcl.
  apply nth_error_snoc in Ht2 as [H|[_ ->]]; eauto. exfalso. eapply Hnp; eauto.
Qed.

Lemma P_ctx : forall sto tb cl l t th b,
  InvP' sto tb cl l -> nth_error l t = Some th ->
  InvP' sto tb cl (upd_nth l t (mkThr (t_pc th) b)).
Proof.
  intros sto tb cl l t th b P Ht t2 th2 k2 v c2 tm Ht2 Hpc Hcl.
  rewrite nth_error_upd_nth in Ht2. destruct (Nat.eqb_spec t t2) as [->|Hne].
  - rewrite Ht in Ht2. injection Ht2 as <-. cbn in Hpc. eauto.
  - eauto.
Qed.

(** ** the invariant on states *)

Record Inv (s : st) : Prop := {
  inv_t : InvT' (tbl s) (closed s) (nextch s) (thr s);
  inv_p : InvP' (store s) (tbl s) (closed s) (thr s);
  inv_c : InvC' (thr s);
  inv_d : dblclose s = false }.

Lemma Inv_init : Inv init.
Proof.
  split.
  - split; cbn; intros; try discriminate. destruct t; discriminate.
  - intros t th k v c tm H. destruct t; discriminate.
  - intros t th k c H. destruct t; discriminate.
  - reflexivity.
Qed.

(** [notify] after any change of the store that only touches key [k] *)
Lemma Inv_notify_gen : forall s s1 k,
  Inv s -> tbl s1 = tbl s -> closed s1 = closed s -> nextch s1 = nextch s -> thr s1 = thr s ->
  dblclose s1 = dblclose s -> (forall k', k' <> k -> store s1 k' = store s k') ->
  Inv (notify s1 k).
Proof.
  intros s s1 k [IT IP IC ID] Htb Hcl Hnx Hth Hdb Hst. unfold notify. rewrite Htb.
  destruct (tbl s k) as [[c n]|] eqn:Hk.
  - split; cbn; rewrite ?Htb, ?Hcl, ?Hnx, ?Hth, ?Hdb.
    + eapply T_notify; eauto.
    + eapply P_notify; eauto.
    + exact IC.
    + rewrite ID. destruct (it_tbl _ _ _ _ IT _ _ _ Hk) as (_ & -> & _). reflexivity.
  - split; rewrite ?Htb, ?Hcl, ?Hnx, ?Hth, ?Hdb; auto.
    eapply P_write_quiet; eauto.
Qed.

Lemma Inv_notify : forall s k, Inv s -> Inv (notify s k).
Proof. intros s k I. eapply Inv_notify_gen; eauto. Qed.

Lemma Inv_write_notify : forall s k e, Inv s -> Inv (notify (write_rec s k e) k).
Proof.
  intros s k e I. eapply Inv_notify_gen; eauto. intros k' Hne. cbn. apply upd_neq. exact Hne.
Qed.

Lemma Inv_delete_notify : forall s k, Inv s ->
  Inv (notify (with_store s (upd (store s) k None) (dom s)) k).
Proof.
  intros s k I. eapply Inv_notify_gen; eauto. intros k' Hne. cbn. apply upd_neq. exact Hne.
Qed.

Lemma Inv_write_absent : forall s k e, Inv s -> store s k = None -> Inv (write_rec s k e).
Proof.
  intros s k e [IT IP IC ID] Hk. split; cbn; auto.
  eapply P_write_quiet; eauto. intros k' Hne. apply upd_neq. exact Hne.
Qed.

(** what [get_rec] does *)
Lemma get_rec_spec : forall s k,
  snd (get_rec s k) = live s k /\
  thr (fst (get_rec s k)) = thr s /\ now (fst (get_rec s k)) = now s /\
  (forall r, live s k = Some r -> fst (get_rec s k) = s /\ store s k = Some r) /\
  (live s k = None -> store (fst (get_rec s k)) k = None) /\
  (Inv s -> Inv (fst (get_rec s k))).
Proof.
  intros s k. unfold get_rec, live. destruct (store s k) as [r|] eqn:Hk.
  - destruct (expired r (now s)) eqn:He; cbn [fst snd].
    + split; [reflexivity|]. split; [|split; [|split; [|split]]].
      * unfold notify. cbn. destruct (tbl s k) as [[c n]|]; reflexivity.
      * unfold notify. cbn. destruct (tbl s k) as [[c n]|]; reflexivity.
      * intros r1 H. discriminate.
      * intros _. unfold notify. cbn. destruct (tbl s k) as [[c n]|]; cbn; apply upd_eq.
      * apply Inv_delete_notify.
    + split; [reflexivity|]. split; [reflexivity|]. split; [reflexivity|]. split; [|split].
      * intros r1 H. injection H as <-. auto.
      * intros H. discriminate.
      * auto.
  - cbn [fst snd]. split; [reflexivity|]. split; [reflexivity|]. split; [reflexivity|]. split; [|split].
    + intros r1 H. discriminate.
    + auto.
    + auto.
Qed.

Lemma Inv_get_rec : forall s k, Inv s -> Inv (fst (get_rec s k)).
Proof. intros s k. apply get_rec_spec. Qed.

Lemma Inv_get_many : forall ks s, Inv s -> Inv (fst (get_many s ks)).
Proof.
  induction ks as [|k tl IH]; intros s I; cbn [get_many].
  - exact I.
  - pose proof (Inv_get_rec s k I) as I1. destruct (get_rec s k) as [s1 r]. cbn [fst] in I1.
    specialize (IH s1 I1). destruct (get_many s1 tl) as [s2 l]. exact IH.
Qed.

Lemma Inv_list_keys : forall ks s, Inv s -> Inv (fst (list_keys s ks)).
Proof.
  induction ks as [|k tl IH]; intros s I; cbn [list_keys].
  - exact I.
  - pose proof (Inv_get_rec s k I) as I1. destruct (get_rec s k) as [s1 r]. cbn [fst] in I1.
    specialize (IH s1 I1). destruct (list_keys s1 tl) as [s2 l]. exact IH.
Qed.

Lemma Inv_put_many : forall l s, Inv s -> Inv (put_many s l).
Proof.
  induction l as [|[k e] tl IH]; intros s I; cbn [put_many].
  - exact I.
  - apply IH. apply Inv_write_notify. exact I.
Qed.

Lemma Inv_mut : forall s o, Inv s -> Inv (fst (mut_step s o)).
Proof.
  intros s o I. destruct o as [k e|k|ks|k e|l|k v e|k|]; cbn [mut_step].
  - destruct (get_rec_spec s k) as (Hf & _ & _ & Hsome & Hnone & HI). specialize (HI I).
    destruct (get_rec s k) as [s1 r]. cbn [fst snd] in *. destruct r as [r|]; cbn [fst]; auto.
    apply Inv_write_absent; auto.
  - pose proof (Inv_get_rec s k I). destruct (get_rec s k) as [s1 r]. exact H.
  - pose proof (Inv_get_many ks s I). destruct (get_many s ks) as [s1 r]. exact H.
  - cbn [fst]. apply Inv_write_notify. exact I.
  - cbn [fst]. apply Inv_put_many. exact I.
  - pose proof (Inv_get_rec s k I). destruct (get_rec s k) as [s1 r]. cbn [fst] in H.
    destruct r as [r|]; cbn [fst]; auto. destruct (N.eqb (r_ver r) v); cbn [fst]; auto.
    apply Inv_write_notify. exact H.
  - pose proof (Inv_get_rec s k I). destruct (get_rec s k) as [s1 r]. cbn [fst] in H.
    destruct r as [r|]; cbn [fst]; auto. apply Inv_delete_notify. exact H.
  - pose proof (Inv_list_keys (dom s) s I). destruct (list_keys s (dom s)) as [s1 r]. exact H.
Qed.

Lemma C_upd : forall l t th th',
  InvC' l -> nth_error l t = Some th ->
  (forall k c, t_pc th' = PCancelPending k c -> t_ctx th' = true) ->
  InvC' (upd_nth l t th').
Proof.
  intros l t th th' C Ht H t2 th2 k c Ht2 Hpc. rewrite nth_error_upd_nth in Ht2.
  destruct (Nat.eqb_spec t t2) as [->|Hne].
  - rewrite Ht in Ht2. injection Ht2 as <-. eauto.
  - eauto.
Qed.

Lemma C_app : forall l th,
  InvC' l -> (forall k c, t_pc th <> PCancelPending k c) -> InvC' (l ++ [th]).
Proof.
  intros l th C H t2 th2 k c Ht2 Hpc. apply nth_error_snoc in Ht2 as [H2|[_ ->]]; eauto.
  exfalso. eapply H; eauto.
Qed.

Lemma off_chan_not_parked : forall p, off_chan p -> forall k v c tm, p <> PParked k v c tm.
Proof.
  intros p H k v c tm ->. specialize (H k c). rewrite on_chan_refl_parked in H. discriminate.
Qed.

Lemma off_chan_not_cancel : forall p, off_chan p -> forall k c, p <> PCancelPending k c.
Proof.
  intros p H k c ->. specialize (H k c). rewrite on_chan_refl_cancel in H. discriminate.
Qed.

Lemma set_pc_eq : forall s t th p,
  nth_error (thr s) t = Some th -> set_pc s t p = with_thr s (upd_nth (thr s) t (mkThr p (t_ctx th))).
Proof. intros s t th p H. unfold set_pc. rewrite H. reflexivity. Qed.

Lemma thr_release : forall s k c, thr (release s k c) = thr s.
Proof.
  intros s k c. unfold release. destruct (tbl s k) as [[c1 n]|]; [|reflexivity].
  destruct (Nat.eqb c1 c); [|reflexivity]. destruct (Z.eqb (n - 1) 0); reflexivity.
Qed.

(** a thread registered on (k, c) runs releaseWaiter and goes to a state in
    which it is registered nowhere *)
Lemma Inv_release_leave : forall s t th k c p',
  Inv s -> nth_error (thr s) t = Some th -> on_chan k c (t_pc th) = true -> off_chan p' ->
  Inv (set_pc (release s k c) t p').
Proof.
  intros s t th k c p' [IT IP IC ID] Ht Hon Hoff.
  assert (Ht' : nth_error (thr (release s k c)) t = Some th) by (rewrite thr_release; exact Ht).
  rewrite (set_pc_eq _ _ _ _ Ht'). rewrite thr_release.
  set (th' := mkThr p' (t_ctx th)).
  assert (Hoff' : off_chan (t_pc th')) by exact Hoff.
  assert (HC : InvC' (upd_nth (thr s) t th')).
  { eapply C_upd; eauto. intros k0 c0 H. exfalso. eapply off_chan_not_cancel; eauto. }
  unfold release. destruct (tbl s k) as [[c1 n]|] eqn:Hk.
  - destruct (Nat.eqb_spec c1 c) as [->|Hc].
    + destruct (Z.eqb_spec (n - 1) 0) as [Hz|Hz].
      * split; cbn.
        -- eapply T_leave_last; eauto.
        -- eapply P_leave_last; eauto.
        -- exact HC.
        -- rewrite ID. destruct (it_tbl _ _ _ _ IT _ _ _ Hk) as (_ & -> & _). reflexivity.
      * split; cbn; auto.
        -- eapply T_leave_dec; eauto.
        -- eapply P_leave_dec; eauto.
    + split; cbn; auto.
      * eapply T_leave_nomatch; eauto. intros n0 H. rewrite Hk in H. congruence.
      * eapply P_leave_same; eauto. intros. apply off_chan_not_parked. exact Hoff.
  - split; cbn; auto.
    + eapply T_leave_nomatch; eauto. intros n0 H. rewrite Hk in H. congruence.
    + eapply P_leave_same; eauto. intros. apply off_chan_not_parked. exact Hoff.
Qed.

(** a thread that is registered nowhere changes its pc to another such pc *)
Lemma Inv_set_off : forall s t th p',
  Inv s -> nth_error (thr s) t = Some th -> off_chan (t_pc th) -> off_chan p' ->
  Inv (set_pc s t p').
Proof.
  intros s t th p' [IT IP IC ID] Ht Hoff Hoff'. rewrite (set_pc_eq _ _ _ _ Ht). split; cbn; auto.
  - eapply T_move; eauto; intros k c; cbn; rewrite Hoff, Hoff'; reflexivity.
  - eapply P_leave_same; eauto. intros. apply off_chan_not_parked. exact Hoff'.
  - eapply C_upd; eauto. intros k c H. exfalso. eapply off_chan_not_cancel; eauto.
Qed.

Lemma pc_of_some : forall s t p, pc_of s t = Some p ->
  exists th, nth_error (thr s) t = Some th /\ t_pc th = p.
Proof.
  intros s t p H. unfold pc_of in H. destruct (nth_error (thr s) t) as [th|]; [|discriminate].
  injection H as <-. eauto.
Qed.

Theorem Inv_step : forall s l s', Inv s -> step s l = Some s' -> Inv s'.
Proof.
  intros s l s' I H. destruct l as [t k v|t|o|t|t|t|t|t|t|dt]; cbn [step] in H.
  - (* Start *)
    destruct (Nat.eqb t (length (thr s))); [|discriminate]. injection H as <-.
    destruct I as [IT IP IC ID]. split; cbn; auto.
    + apply T_app; auto. apply off_chan_check.
    + apply P_app; auto. intros; discriminate.
    + apply C_app; auto. intros; discriminate.
  - (* LCheck *)
    destruct (pc_of s t) as [p|] eqn:Hp; [|discriminate]. destruct p as [k v| | | |]; try discriminate.
    apply pc_of_some in Hp as (th & Ht & Hpc).
    destruct (get_rec_spec s k) as (Hf & Hthr & _ & Hsome & Hnone & HI). specialize (HI I).
    destruct (get_rec s k) as [s1 found]. cbn [fst snd] in *. subst found.
    assert (Ht1 : nth_error (thr s1) t = Some th) by (rewrite Hthr; exact Ht).
    assert (Hoff : off_chan (t_pc th)) by (rewrite Hpc; apply off_chan_check).
    destruct (live s k) as [r|] eqn:Hl.
    + destruct (Hsome r eq_refl) as [-> Hst].
      destruct (N.eqb_spec (r_ver r) v) as [Hv|Hv].
      * unfold register in H. destruct (tbl s k) as [[c n]|] eqn:Hk; injection H as <-.
        -- match goal with |- Inv (set_pc ?S _ _) => assert (Hx : nth_error (thr S) t = Some th) by exact Ht end.
           rewrite (set_pc_eq _ _ _ _ Hx). destruct I as [IT IP IC ID]. split; cbn; auto.
           ++ eapply T_join; eauto; reflexivity.
           ++ eapply P_join; eauto; reflexivity.
           ++ eapply C_upd; eauto. intros; discriminate.
        -- match goal with |- Inv (set_pc ?S _ _) => assert (Hx : nth_error (thr S) t = Some th) by exact Ht end.
           rewrite (set_pc_eq _ _ _ _ Hx). destruct I as [IT IP IC ID]. split; cbn; auto.
           ++ eapply T_new; eauto; reflexivity.
           ++ eapply P_new; eauto; reflexivity.
           ++ eapply C_upd; eauto. intros; discriminate.
      * injection H as <-. eapply Inv_set_off; eauto. apply off_chan_done.
    + injection H as <-. eapply Inv_set_off; eauto. apply off_chan_done.
  - (* Mut *)
    injection H as <-. apply Inv_mut. exact I.
  - (* CtxDone *)
    destruct (nth_error (thr s) t) as [th|] eqn:Ht; [|discriminate]. injection H as <-.
    destruct I as [IT IP IC ID]. split; cbn; auto.
    + eapply T_move; eauto.
    + eapply P_ctx; eauto.
    + eapply C_upd; eauto.
  - (* WakeChan *)
    destruct (pc_of s t) as [p|] eqn:Hp; [|discriminate]. destruct p as [|k v c tm| | |]; try discriminate.
    destruct (closed s c) eqn:Hc; [|discriminate]. injection H as <-.
    apply pc_of_some in Hp as (th & Ht & Hpc).
    rewrite (set_pc_eq _ _ _ _ Ht). destruct I as [IT IP IC ID]. split; cbn; auto.
    + eapply (T_leave_nomatch _ _ _ _ k c); eauto.
      * intros n Hk. destruct (it_tbl _ _ _ _ IT _ _ _ Hk) as (_ & Hcl & _). congruence.
      * rewrite Hpc. apply on_chan_refl_parked.
      * apply off_chan_check.
    + eapply P_leave_same; eauto. intros; discriminate.
    + eapply C_upd; eauto. intros; discriminate.
  - (* WakeCtx *)
    destruct (pc_of s t) as [p|] eqn:Hp; [|discriminate]. destruct p as [|k v c tm| | |]; try discriminate.
    destruct (ctx_of s t) eqn:Hc; [|discriminate]. injection H as <-.
    apply pc_of_some in Hp as (th & Ht & Hpc).
    rewrite (set_pc_eq _ _ _ _ Ht). destruct I as [IT IP IC ID]. split; cbn; auto.
    + eapply T_move; eauto. intros k0 c0. cbn. rewrite Hpc. reflexivity.
    + eapply P_leave_same; eauto. intros; discriminate.
    + eapply C_upd; eauto. intros k0 c0 _. cbn. unfold ctx_of in Hc. rewrite Ht in Hc. exact Hc.
  - (* WakeExpiry *)
    destruct (pc_of s t) as [p|] eqn:Hp; [|discriminate]. destruct p as [|k v c tm| | |]; try discriminate.
    destruct tm as [e|]; [|discriminate]. destruct (Z.leb e (now s)); [|discriminate]. injection H as <-.
    apply pc_of_some in Hp as (th & Ht & Hpc).
    rewrite (set_pc_eq _ _ _ _ Ht). destruct I as [IT IP IC ID]. split; cbn; auto.
    + eapply T_move; eauto. intros k0 c0. cbn. rewrite Hpc. reflexivity.
    + eapply P_leave_same; eauto. intros; discriminate.
    + eapply C_upd; eauto. intros; discriminate.
  - (* CancelSec *)
    destruct (pc_of s t) as [p|] eqn:Hp; [|discriminate]. destruct p as [| |k c| |]; try discriminate.
    injection H as <-. apply pc_of_some in Hp as (th & Ht & Hpc).
    eapply Inv_release_leave; eauto.
    + rewrite Hpc. apply on_chan_refl_cancel.
    + apply off_chan_done.
  - (* ExpirySec *)
    destruct (pc_of s t) as [p|] eqn:Hp; [|discriminate]. destruct p as [| | |k v c|]; try discriminate.
    injection H as <-. apply pc_of_some in Hp as (th & Ht & Hpc).
    eapply Inv_release_leave; eauto.
    + rewrite Hpc. apply on_chan_refl_expiry.
    + apply off_chan_check.
  - (* Tick *)
    destruct (Z.leb 0 dt); [|discriminate]. injection H as <-. destruct I as [IT IP IC ID].
    split; cbn; auto.
Qed.

Definition reachable (s : st) : Prop := exists ls, run init ls = Some s.

Lemma Inv_run : forall ls s s', Inv s -> run s ls = Some s' -> Inv s'.
Proof.
  induction ls as [|l tl IH]; intros s s' I H; cbn [run] in H.
  - injection H as <-. exact I.
  - destruct (step s l) as [s1|] eqn:E; [|discriminate]. eapply IH; [|exact H]. eapply Inv_step; eauto.
Qed.

Theorem reachable_Inv : forall s, reachable s -> Inv s.
Proof. intros s [ls H]. eapply Inv_run; [apply Inv_init|exact H]. Qed.

(** * Part D: consequences *)

(** ** how the thread list moves *)

Lemma thr_notify : forall s k, thr (notify s k) = thr s.
Proof. intros s k. unfold notify. destruct (tbl s k) as [[c n]|]; reflexivity. Qed.

Lemma thr_get_rec : forall s k, thr (fst (get_rec s k)) = thr s.
Proof. intros s k. apply get_rec_spec. Qed.

Lemma thr_get_many : forall ks s, thr (fst (get_many s ks)) = thr s.
Proof.
  induction ks as [|k tl IH]; intros s; cbn [get_many]; [reflexivity|].
  pose proof (thr_get_rec s k) as H1. destruct (get_rec s k) as [s1 r]. cbn [fst] in H1.
  specialize (IH s1). destruct (get_many s1 tl) as [s2 l]. cbn [fst] in *. congruence.
Qed.

Lemma thr_list_keys : forall ks s, thr (fst (list_keys s ks)) = thr s.
Proof.
  induction ks as [|k tl IH]; intros s; cbn [list_keys]; [reflexivity|].
  pose proof (thr_get_rec s k) as H1. destruct (get_rec s k) as [s1 r]. cbn [fst] in H1.
  specialize (IH s1). destruct (list_keys s1 tl) as [s2 l]. cbn [fst] in *. congruence.
Qed.

Lemma thr_put_many : forall l s, thr (put_many s l) = thr s.
Proof.
  induction l as [|[k e] tl IH]; intros s; cbn [put_many]; [reflexivity|].
  rewrite IH, thr_notify. reflexivity.
Qed.

Lemma thr_mut : forall s o, thr (fst (mut_step s o)) = thr s.
Proof.
  intros s o. destruct o as [k e|k|ks|k e|l|k v e|k|]; cbn [mut_step].
  - pose proof (thr_get_rec s k) as H. destruct (get_rec s k) as [s1 r]. cbn [fst] in H.
    destruct r; cbn [fst]; auto.
  - pose proof (thr_get_rec s k) as H. destruct (get_rec s k) as [s1 r]. exact H.
  - pose proof (thr_get_many ks s) as H. destruct (get_many s ks) as [s1 r]. exact H.
  - cbn [fst]. rewrite thr_notify. reflexivity.
  - cbn [fst]. apply thr_put_many.
  - pose proof (thr_get_rec s k) as H. destruct (get_rec s k) as [s1 r]. cbn [fst] in H.
    destruct r as [r|]; cbn [fst]; auto. destruct (N.eqb (r_ver r) v); cbn [fst]; auto.
    rewrite thr_notify. exact H.
  - pose proof (thr_get_rec s k) as H. destruct (get_rec s k) as [s1 r]. cbn [fst] in H.
    destruct r as [r|]; cbn [fst]; auto. rewrite thr_notify. exact H.
  - pose proof (thr_list_keys (dom s) s) as H. destruct (list_keys s (dom s)) as [s1 r]. exact H.
Qed.

Lemma thr_set_pc_other : forall s t p t', t' <> t -> nth_error (thr (set_pc s t p)) t' = nth_error (thr s) t'.
Proof.
  intros s t p t' Hne. unfold set_pc. destruct (nth_error (thr s) t) as [th|]; [|reflexivity].
  cbn. apply nth_error_upd_nth_neq. congruence.
Qed.

Lemma pc_of_set_pc : forall s t th p, nth_error (thr s) t = Some th -> pc_of (set_pc s t p) t = Some p.
Proof.
  intros s t th p H. rewrite (set_pc_eq _ _ _ _ H). unfold pc_of. cbn.
  erewrite nth_error_upd_nth_eq; eauto.
Qed.

Lemma ctx_of_set_pc : forall s t p t', ctx_of (set_pc s t p) t' = ctx_of s t'.
Proof.
  intros s t p t'. unfold set_pc, ctx_of. destruct (nth_error (thr s) t) as [th|] eqn:E; [|reflexivity].
  cbn. rewrite nth_error_upd_nth. destruct (Nat.eqb_spec t t') as [->|]; [|reflexivity].
  rewrite E. reflexivity.
Qed.

Lemma thr_register : forall s k, thr (fst (register s k)) = thr s.
Proof. intros s k. unfold register. destruct (tbl s k) as [[c n]|]; reflexivity. Qed.

(** threads other than the one a label belongs to keep their entry, except
    that [Start] creates one and [CtxDone] sets a flag *)
Lemma step_other : forall s l s' t,
  step s l = Some s' -> thread_of l <> Some t ->
  (match l with Start t0 _ _ | CtxDone t0 => t0 <> t | _ => True end) ->
  nth_error (thr s') t = nth_error (thr s) t.
Proof.
  intros s l s' t H Hth Hx. destruct l as [t0 k v|t0|o|t0|t0|t0|t0|t0|t0|dt]; cbn [step thread_of] in *.
  - destruct (Nat.eqb_spec t0 (length (thr s))) as [->|]; [|discriminate]. injection H as <-. cbn.
    destruct (Nat.lt_ge_cases t (length (thr s))) as [Hlt|Hge].
    + apply nth_error_app1. exact Hlt.
    + rewrite nth_error_app2 by exact Hge. destruct (t - length (thr s)) as [|d] eqn:E; [lia|].
      cbn. destruct d; symmetry; apply nth_error_None; lia.
  - assert (t0 <> t) by congruence.
    destruct (pc_of s t0) as [p|]; [|discriminate]. destruct p as [k v| | | |]; try discriminate.
    pose proof (thr_get_rec s k) as Hg. destruct (get_rec s k) as [s1 found]. cbn [fst] in Hg.
    destruct found as [r|].
    + destruct (N.eqb (r_ver r) v).
      * pose proof (thr_register s1 k) as Hr. destruct (register s1 k) as [s2 c]. cbn [fst] in Hr.
        injection H as <-. rewrite thr_set_pc_other by congruence. congruence.
      * injection H as <-. rewrite thr_set_pc_other by congruence. congruence.
    + injection H as <-. rewrite thr_set_pc_other by congruence. congruence.
  - injection H as <-. rewrite thr_mut. reflexivity.
  - destruct (nth_error (thr s) t0) as [th|]; [|discriminate]. injection H as <-. cbn.
    apply nth_error_upd_nth_neq. exact Hx.
  - assert (t0 <> t) by congruence.
    destruct (pc_of s t0) as [p|]; [|discriminate]. destruct p as [|k v c tm| | |]; try discriminate.
    destruct (closed s c); [|discriminate]. injection H as <-. apply thr_set_pc_other. congruence.
  - assert (t0 <> t) by congruence.
    destruct (pc_of s t0) as [p|]; [|discriminate]. destruct p as [|k v c tm| | |]; try discriminate.
    destruct (ctx_of s t0); [|discriminate]. injection H as <-. apply thr_set_pc_other. congruence.
  - assert (t0 <> t) by congruence.
    destruct (pc_of s t0) as [p|]; [|discriminate]. destruct p as [|k v c tm| | |]; try discriminate.
    destruct tm as [e|]; [|discriminate]. destruct (Z.leb e (now s)); [|discriminate].
    injection H as <-. apply thr_set_pc_other. congruence.
  - assert (t0 <> t) by congruence.
    destruct (pc_of s t0) as [p|]; [|discriminate]. destruct p as [| |k c| |]; try discriminate.
    injection H as <-. rewrite thr_set_pc_other by congruence. rewrite thr_release. reflexivity.
  - assert (t0 <> t) by congruence.
    destruct (pc_of s t0) as [p|]; [|discriminate]. destruct p as [| | |k v c|]; try discriminate.
    injection H as <-. rewrite thr_set_pc_other by congruence. rewrite thr_release. reflexivity.
  - destruct (Z.leb 0 dt); [|discriminate]. injection H as <-. reflexivity.
Qed.

Lemma option_eq_dec_tid : forall (o : option tid) (t : tid), {o = Some t} + {o <> Some t}.
Proof.
  intros [x|] t.
  - destruct (Nat.eq_dec x t) as [->|N]; [left; reflexivity|right; congruence].
  - right. discriminate.
Qed.

(** ** soundness of every return (one step) *)

Definition sound_return (s : st) (l : label) (t : tid) (r : res) : Prop :=
  match r with
  | RNil => l = LCheck t /\ exists k v r0,
      pc_of s t = Some (PCheck k v) /\ live s k = Some r0 /\ r_ver r0 <> v
  | RNotExist => l = LCheck t /\ exists k v, pc_of s t = Some (PCheck k v) /\ live s k = None
  | RCtx => l = CancelSec t /\ ctx_of s t = true
  end.

Lemma pc_of_nth : forall s s' t, nth_error (thr s') t = nth_error (thr s) t -> pc_of s' t = pc_of s t.
Proof. intros s s' t H. unfold pc_of. rewrite H. reflexivity. Qed.

Theorem sound_step : forall s l s' t r,
  Inv s -> step s l = Some s' ->
  pc_of s' t = Some (PDone r) -> pc_of s t <> Some (PDone r) ->
  sound_return s l t r.
Proof.
  intros s l s' t r I H Hd Hnd.
  destruct (option_eq_dec_tid (thread_of l) t) as [Heq|Hne].
  2:{ (* not a step of t: t's pc can only have been created by Start, as PCheck *)
      exfalso. destruct l as [t0 k v|t0|o|t0|t0|t0|t0|t0|t0|dt];
        try (apply Hnd; rewrite <- Hd; symmetry; apply pc_of_nth; eapply step_other; [exact H|exact Hne|exact Logic.I]; fail).
      - destruct (Nat.eq_dec t0 t) as [->|N].
        + cbn [step] in H. destruct (Nat.eqb_spec t (length (thr s))) as [E|]; [|discriminate].
          injection H as <-. unfold pc_of in Hd. cbn in Hd. rewrite nth_error_app2 in Hd by lia.
          rewrite E, Nat.sub_diag in Hd. discriminate.
        + apply Hnd. rewrite <- Hd. symmetry. apply pc_of_nth. eapply step_other; [exact H|exact Hne|exact N].
      - destruct (Nat.eq_dec t0 t) as [->|N].
        + cbn [step] in H. destruct (nth_error (thr s) t) as [th|] eqn:E; [|discriminate].
          injection H as <-. apply Hnd. unfold pc_of in *. cbn in Hd.
          erewrite nth_error_upd_nth_eq in Hd by eauto. rewrite E. exact Hd.
        + apply Hnd. rewrite <- Hd. symmetry. apply pc_of_nth. eapply step_other; [exact H|exact Hne|exact N]. }
  destruct l as [t0 k v|t0|o|t0|t0|t0|t0|t0|t0|dt]; cbn [thread_of] in Heq; try discriminate;
    injection Heq as ->; cbn [step] in H.
  - (* LCheck *)
    destruct (pc_of s t) as [p|] eqn:Hp; [|discriminate]. destruct p as [k v| | | |]; try discriminate.
    destruct (pc_of_some _ _ _ Hp) as (th & Ht & Hpc).
    destruct (get_rec_spec s k) as (Hf & Hthr & _ & Hsome & _ & _).
    destruct (get_rec s k) as [s1 found]. cbn [fst snd] in *. subst found.
    assert (Ht1 : nth_error (thr s1) t = Some th) by (rewrite Hthr; exact Ht).
    destruct (live s k) as [r0|] eqn:Hl.
    + destruct (N.eqb_spec (r_ver r0) v) as [Hv|Hv].
      * pose proof (thr_register s1 k) as Hr. destruct (register s1 k) as [s2 c]. cbn [fst] in Hr.
        injection H as <-. erewrite pc_of_set_pc in Hd by (rewrite Hr; eauto). discriminate.
      * injection H as <-. erewrite pc_of_set_pc in Hd by eauto. injection Hd as <-.
        cbn. split; [reflexivity|]. exists k, v, r0. auto.
    + injection H as <-. erewrite pc_of_set_pc in Hd by eauto. injection Hd as <-.
      cbn. split; [reflexivity|]. exists k, v. auto.
  - (* WakeChan *)
    destruct (pc_of s t) as [p|] eqn:Hp; [|discriminate]. destruct p as [|k v c tm| | |]; try discriminate.
    destruct (closed s c); [|discriminate]. injection H as <-.
    destruct (pc_of_some _ _ _ Hp) as (th & Ht & Hpc). erewrite pc_of_set_pc in Hd by eauto. discriminate.
  - (* WakeCtx *)
    destruct (pc_of s t) as [p|] eqn:Hp; [|discriminate]. destruct p as [|k v c tm| | |]; try discriminate.
    destruct (ctx_of s t); [|discriminate]. injection H as <-.
    destruct (pc_of_some _ _ _ Hp) as (th & Ht & Hpc). erewrite pc_of_set_pc in Hd by eauto. discriminate.
  - (* WakeExpiry *)
    destruct (pc_of s t) as [p|] eqn:Hp; [|discriminate]. destruct p as [|k v c tm| | |]; try discriminate.
    destruct tm as [e|]; [|discriminate]. destruct (Z.leb e (now s)); [|discriminate]. injection H as <-.
    destruct (pc_of_some _ _ _ Hp) as (th & Ht & Hpc). erewrite pc_of_set_pc in Hd by eauto. discriminate.
  - (* CancelSec *)
    destruct (pc_of s t) as [p|] eqn:Hp; [|discriminate]. destruct p as [| |k c| |]; try discriminate.
    injection H as <-. destruct (pc_of_some _ _ _ Hp) as (th & Ht & Hpc).
    erewrite pc_of_set_pc in Hd by (rewrite thr_release; eauto). injection Hd as <-.
    cbn. split; [reflexivity|]. unfold ctx_of. rewrite Ht. eapply (inv_c _ I); eauto.
  - (* ExpirySec *)
    destruct (pc_of s t) as [p|] eqn:Hp; [|discriminate]. destruct p as [| | |k v c|]; try discriminate.
    injection H as <-. destruct (pc_of_some _ _ _ Hp) as (th & Ht & Hpc).
    erewrite pc_of_set_pc in Hd by (rewrite thr_release; eauto). discriminate.
Qed.

Lemma label_eq_ctxdone : forall (l : label) (t : tid), {l = CtxDone t} + {l <> CtxDone t}.
Proof.
  intros l t. destruct l as [t0 k v|t0|o|t0|t0|t0|t0|t0|t0|dt]; try (right; discriminate).
  destruct (Nat.eq_dec t0 t) as [->|N]; [left; reflexivity|right; congruence].
Qed.

Lemma pc_eq_done_dec : forall (o : option pc) (r : res), {o = Some (PDone r)} + {o <> Some (PDone r)}.
Proof.
  intros [p|] r; [|right; discriminate].
  destruct p as [| | | |r0]; try (right; discriminate).
  destruct r0, r; try (left; reflexivity); right; discriminate.
Qed.

(** ** traces *)

Lemma run_app : forall l1 l2 s,
  run s (l1 ++ l2) = match run s l1 with Some s1 => run s1 l2 | None => None end.
Proof.
  induction l1 as [|l tl IH]; intros l2 s; cbn [run app]; [reflexivity|].
  destruct (step s l); [apply IH|reflexivity].
Qed.

Lemma run_snoc : forall ls l s s',
  run s (ls ++ [l]) = Some s' -> exists s0, run s ls = Some s0 /\ step s0 l = Some s'.
Proof.
  intros ls l s s' H. rewrite run_app in H. destruct (run s ls) as [s0|]; [|discriminate].
  exists s0. split; [reflexivity|]. cbn [run] in H. destruct (step s0 l); [exact H|discriminate].
Qed.

(** a context flag is only ever set by the caller's cancel *)
Lemma ctx_of_step : forall s l s' t,
  step s l = Some s' -> ctx_of s' t = true -> ctx_of s t = true \/ l = CtxDone t.
Proof.
  intros s l s' t H Hc.
  destruct (label_eq_ctxdone l t) as [->|Hne]; [right; reflexivity|left].
  destruct l as [t0 k v|t0|o|t0|t0|t0|t0|t0|t0|dt]; cbn [step] in H.
  - destruct (Nat.eqb_spec t0 (length (thr s))) as [->|]; [|discriminate]. injection H as <-.
    unfold ctx_of in *. cbn in Hc. destruct (Nat.lt_ge_cases t (length (thr s))) as [Hlt|Hge].
    + rewrite nth_error_app1 in Hc by exact Hlt. exact Hc.
    + rewrite nth_error_app2 in Hc by exact Hge. destruct (t - length (thr s)) as [|d]; cbn in Hc.
      * discriminate.
      * destruct d; discriminate.
  - destruct (pc_of s t0) as [p|]; [|discriminate]. destruct p as [k v| | | |]; try discriminate.
    pose proof (thr_get_rec s k) as Hg. destruct (get_rec s k) as [s1 found]. cbn [fst] in Hg.
    assert (E1 : ctx_of s1 t = ctx_of s t) by (unfold ctx_of; rewrite Hg; reflexivity).
    destruct found as [r|].
    + destruct (N.eqb (r_ver r) v).
      * pose proof (thr_register s1 k) as Hr. destruct (register s1 k) as [s2 c]. cbn [fst] in Hr.
        injection H as <-. rewrite ctx_of_set_pc in Hc. unfold ctx_of in *. rewrite Hr in Hc. rewrite <- Hg. exact Hc.
      * injection H as <-. rewrite ctx_of_set_pc in Hc. congruence.
    + injection H as <-. rewrite ctx_of_set_pc in Hc. congruence.
  - injection H as <-. unfold ctx_of in *. rewrite thr_mut in Hc. exact Hc.
  - destruct (nth_error (thr s) t0) as [th|] eqn:E; [|discriminate]. injection H as <-.
    assert (t0 <> t) by congruence. unfold ctx_of in *. cbn in Hc.
    rewrite nth_error_upd_nth_neq in Hc by exact H. exact Hc.
  - destruct (pc_of s t0) as [p|]; [|discriminate]. destruct p as [|k v c tm| | |]; try discriminate.
    destruct (closed s c); [|discriminate]. injection H as <-. rewrite ctx_of_set_pc in Hc. exact Hc.
  - destruct (pc_of s t0) as [p|]; [|discriminate]. destruct p as [|k v c tm| | |]; try discriminate.
    destruct (ctx_of s t0); [|discriminate]. injection H as <-. rewrite ctx_of_set_pc in Hc. exact Hc.
  - destruct (pc_of s t0) as [p|]; [|discriminate]. destruct p as [|k v c tm| | |]; try discriminate.
    destruct tm as [e|]; [|discriminate]. destruct (Z.leb e (now s)); [|discriminate].
    injection H as <-. rewrite ctx_of_set_pc in Hc. exact Hc.
  - destruct (pc_of s t0) as [p|]; [|discriminate]. destruct p as [| |k c| |]; try discriminate.
    injection H as <-. rewrite ctx_of_set_pc in Hc. unfold ctx_of in *. rewrite thr_release in Hc. exact Hc.
  - destruct (pc_of s t0) as [p|]; [|discriminate]. destruct p as [| | |k v c|]; try discriminate.
    injection H as <-. rewrite ctx_of_set_pc in Hc. unfold ctx_of in *. rewrite thr_release in Hc. exact Hc.
  - destruct (Z.leb 0 dt); [|discriminate]. injection H as <-. exact Hc.
Qed.

Lemma ctx_of_run : forall ls s t,
  run init ls = Some s -> ctx_of s t = true -> In (CtxDone t) ls.
Proof.
  induction ls as [|l ls IH] using rev_ind; intros s t H Hc.
  - cbn in H. injection H as <-. unfold ctx_of in Hc. cbn in Hc. destruct t; discriminate.
  - apply run_snoc in H as (s0 & H0 & Hs). apply in_or_app.
    destruct (ctx_of_step _ _ _ _ Hs Hc) as [Hc0| ->].
    + left. eapply IH; eauto.
    + right. left. reflexivity.
Qed.

(** every result a call has returned was produced by a sound step of the trace;
    a context error moreover only after the caller's cancel *)
Theorem sound_trace : forall ls s t r,
  run init ls = Some s -> pc_of s t = Some (PDone r) ->
  exists pre l post s0,
    ls = pre ++ l :: post /\ run init pre = Some s0 /\ sound_return s0 l t r /\
    (r = RCtx -> In (CtxDone t) pre).
Proof.
  induction ls as [|l ls IH] using rev_ind; intros s t r H Hd.
  - cbn in H. injection H as <-. unfold pc_of in Hd. cbn in Hd. destruct t; discriminate.
  - apply run_snoc in H as (s0 & H0 & Hs).
    destruct (pc_eq_done_dec (pc_of s0 t) r) as [Hd0|Hnd].
    + destruct (IH _ _ _ H0 Hd0) as (pre & l0 & post & s1 & -> & Hp & Hsr & Hc).
      exists pre, l0, (post ++ [l]), s1. rewrite <- app_assoc. cbn. auto.
    + assert (I0 : Inv s0) by (apply reachable_Inv; exists ls; exact H0).
      pose proof (sound_step _ _ _ _ _ I0 Hs Hd Hnd) as Hsr.
      exists ls, l, [], s0. repeat split; auto.
      intros ->. cbn in Hsr. destruct Hsr as [_ Hc]. eapply ctx_of_run; eauto.
Qed.

(** a result, once returned, stays *)
Theorem done_final : forall s l s' t r,
  step s l = Some s' -> pc_of s t = Some (PDone r) -> pc_of s' t = Some (PDone r).
Proof.
  intros s l s' t r H Hd. rewrite <- Hd.
  destruct (option_eq_dec_tid (thread_of l) t) as [Heq|Hne].
  - exfalso. destruct l as [t0 k v|t0|o|t0|t0|t0|t0|t0|t0|dt]; cbn [thread_of] in Heq; try discriminate;
      injection Heq as ->; cbn [step] in H; rewrite Hd in H; discriminate.
  - destruct l as [t0 k v|t0|o|t0|t0|t0|t0|t0|t0|dt];
      try (apply pc_of_nth; eapply step_other; [exact H|exact Hne|exact Logic.I]; fail).
    + destruct (Nat.eq_dec t0 t) as [->|N].
      * cbn [step] in H. destruct (Nat.eqb_spec t (length (thr s))) as [E|]; [|discriminate].
        unfold pc_of in Hd. destruct (nth_error (thr s) t) eqn:E1; [|discriminate].
        assert (t < length (thr s)) by (apply nth_error_Some; congruence). lia.
      * apply pc_of_nth. eapply step_other; [exact H|exact Hne|exact N].
    + destruct (Nat.eq_dec t0 t) as [->|N].
      * cbn [step] in H. destruct (nth_error (thr s) t) as [th|] eqn:E; [|discriminate].
        injection H as <-. unfold pc_of. cbn. erewrite nth_error_upd_nth_eq by eauto. rewrite E. reflexivity.
      * apply pc_of_nth. eapply step_other; [exact H|exact Hne|exact N].
Qed.

(** ** enabledness *)

(** [enabled_of] is exactly the set of steps of thread [t] that [step] accepts *)
Theorem enabled_of_sound : forall s t l,
  In l (enabled_of s t) -> thread_of l = Some t /\ exists s', step s l = Some s'.
Proof.
  intros s t l H. unfold enabled_of in H. destruct (pc_of s t) as [p|] eqn:Hp; [|destruct H].
  destruct p as [k v|k v c tm|k c|k v c|r].
  - destruct H as [<-|[]]. split; [reflexivity|]. cbn [step]. rewrite Hp.
    destruct (get_rec s k) as [s1 [r|]]; [|eauto].
    destruct (N.eqb (r_ver r) v); [|eauto]. destruct (register s1 k); eauto.
  - apply in_app_or in H as [H|H]; [|apply in_app_or in H as [H|H]].
    + destruct (closed s c) eqn:E; [|destruct H]. destruct H as [<-|[]]. split; [reflexivity|].
      cbn [step]. rewrite Hp, E. eauto.
    + destruct (ctx_of s t) eqn:E; [|destruct H]. destruct H as [<-|[]]. split; [reflexivity|].
      cbn [step]. rewrite Hp, E. eauto.
    + destruct tm as [e|]; [|destruct H]. destruct (Z.leb e (now s)) eqn:E; [|destruct H].
      destruct H as [<-|[]]. split; [reflexivity|]. cbn [step]. rewrite Hp, E. eauto.
  - destruct H as [<-|[]]. split; [reflexivity|]. cbn [step]. rewrite Hp. eauto.
  - destruct H as [<-|[]]. split; [reflexivity|]. cbn [step]. rewrite Hp. eauto.
  - destruct H.
Qed.

Theorem enabled_of_complete : forall s t l s',
  thread_of l = Some t -> step s l = Some s' -> In l (enabled_of s t).
Proof.
  intros s t l s' Ht H. unfold enabled_of.
  destruct l as [t0 k v|t0|o|t0|t0|t0|t0|t0|t0|dt]; cbn [thread_of] in Ht; try discriminate;
    injection Ht as ->; cbn [step] in H; destruct (pc_of s t) as [p|]; try discriminate.
  - destruct p; try discriminate. left. reflexivity.
  - destruct p as [|k v c tm| | |]; try discriminate. destruct (closed s c); [|discriminate].
    left. reflexivity.
  - destruct p as [|k v c tm| | |]; try discriminate. destruct (ctx_of s t); [|discriminate].
    apply in_or_app. right. apply in_or_app. left. left. reflexivity.
  - destruct p as [|k v c tm| | |]; try discriminate. destruct tm as [e|]; [|discriminate].
    destruct (Z.leb e (now s)); [|discriminate].
    apply in_or_app. right. apply in_or_app. right. left. reflexivity.
  - destruct p; try discriminate. left. reflexivity.
  - destruct p; try discriminate. left. reflexivity.
Qed.

(** the version / absence condition under which WaitForVersionChange(k, v) must return *)
Definition changed (s : st) (k : key) (v : N) : Prop :=
  live s k = None \/ exists r, live s k = Some r /\ r_ver r <> v.

(** no lost wake-up: a call that is parked while a return condition holds can move *)
Theorem parked_enabled : forall s t k v c tm,
  Inv s -> pc_of s t = Some (PParked k v c tm) ->
  ctx_of s t = true \/ changed s k v ->
  enabled_of s t <> [].
Proof.
  intros s t k v c tm I Hp Hcond. unfold enabled_of. rewrite Hp.
  destruct (closed s c) eqn:Hcl; [discriminate|]. cbn [app].
  destruct (ctx_of s t) eqn:Hctx; [discriminate|]. cbn [app].
  destruct Hcond as [Hc|Hch]; [discriminate|].
  destruct (pc_of_some _ _ _ Hp) as (th & Ht & Hpc).
  destruct (inv_p _ I _ _ _ _ _ _ Ht Hpc Hcl) as [_ (r & Hst & Hv & He)].
  unfold changed, live in Hch. rewrite Hst in Hch. unfold expired in Hch. rewrite He in Hch.
  destruct tm as [e|].
  - destruct (Z.ltb_spec e (now s)) as [Hlt|Hge].
    + destruct (Z.leb_spec e (now s)); [discriminate|lia].
    + destruct Hch as [Hch|(r' & Hr' & Hne)]; [discriminate|]. injection Hr' as <-. congruence.
  - destruct Hch as [Hch|(r' & Hr' & Hne)]; [discriminate|]. injection Hr' as <-. congruence.
Qed.

(** a call that is neither parked nor finished can always move *)
Theorem unparked_enabled : forall s t p,
  pc_of s t = Some p ->
  (forall k v c tm, p <> PParked k v c tm) -> (forall r, p <> PDone r) ->
  enabled_of s t <> [].
Proof.
  intros s t p Hp Hnp Hnd. unfold enabled_of. rewrite Hp.
  destruct p as [k v|k v c tm|k c|k v c|r]; try discriminate.
  - exfalso. eapply Hnp; eauto.
  - exfalso. eapply Hnd; eauto.
Qed.

(** ** a call whose return condition holds can return by its own steps alone *)

Lemma live_set_pc : forall s t p k, live (set_pc s t p) k = live s k.
Proof. intros s t p k. unfold set_pc. destruct (nth_error (thr s) t); reflexivity. Qed.

Lemma live_release : forall s k c k', live (release s k c) k' = live s k'.
Proof.
  intros s k c k'. unfold release. destruct (tbl s k) as [[c1 n]|]; [|reflexivity].
  destruct (Nat.eqb c1 c); [|reflexivity]. destruct (Z.eqb (n - 1) 0); reflexivity.
Qed.

Definition own (t : tid) (ls : list label) : Prop := Forall (fun l => thread_of l = Some t) ls.

Lemma check_returns : forall s t k v,
  pc_of s t = Some (PCheck k v) -> changed s k v ->
  exists s' r, step s (LCheck t) = Some s' /\ pc_of s' t = Some (PDone r).
Proof.
  intros s t k v Hp Hch. cbn [step]. rewrite Hp.
  destruct (pc_of_some _ _ _ Hp) as (th & Ht & Hpc).
  destruct (get_rec_spec s k) as (Hf & Hthr & _ & _ & _ & _).
  destruct (get_rec s k) as [s1 found]. cbn [fst snd] in *. subst found.
  assert (Ht1 : nth_error (thr s1) t = Some th) by (rewrite Hthr; exact Ht).
  destruct Hch as [Hl|(r & Hl & Hne)]; rewrite Hl.
  - eexists _, _. split; [reflexivity|]. eapply pc_of_set_pc; eauto.
  - destruct (N.eqb_spec (r_ver r) v) as [E|E]; [congruence|].
    eexists _, _. split; [reflexivity|]. eapply pc_of_set_pc; eauto.
Qed.

Lemma parked_ctx_returns : forall s t k v c tm,
  pc_of s t = Some (PParked k v c tm) -> ctx_of s t = true ->
  exists s', run s [WakeCtx t; CancelSec t] = Some s' /\ pc_of s' t = Some (PDone RCtx).
Proof.
  intros s t k v c tm Hp Hc. destruct (pc_of_some _ _ _ Hp) as (th & Ht & Hpc).
  cbn [run step]. rewrite Hp, Hc.
  erewrite pc_of_set_pc by eauto.
  eexists. split; [reflexivity|].
  assert (exists th1, nth_error (thr (set_pc s t (PCancelPending k c))) t = Some th1) as [th1 H1].
  { rewrite (set_pc_eq _ _ _ _ Ht). cbn. erewrite nth_error_upd_nth_eq; eauto. }
  eapply pc_of_set_pc. rewrite thr_release. exact H1.
Qed.

Lemma check_ctx_returns : forall s t k v,
  pc_of s t = Some (PCheck k v) -> ctx_of s t = true ->
  exists ls s' r, own t ls /\ length ls <= 3 /\ run s ls = Some s' /\ pc_of s' t = Some (PDone r).
Proof.
  intros s t k v Hp Hc. destruct (pc_of_some _ _ _ Hp) as (th & Ht & Hpc).
  destruct (live s k) as [r|] eqn:Hl.
  2:{ destruct (check_returns s t k v Hp (or_introl Hl)) as (s' & r' & Hs & Hd).
      exists [LCheck t], s', r'. split; [|split; [|split]].
      - repeat constructor.
      - cbn; lia.
      - cbn [run]. rewrite Hs. reflexivity.
      - exact Hd. }
  destruct (N.eqb_spec (r_ver r) v) as [E|E].
  2:{ destruct (check_returns s t k v Hp (or_intror (ex_intro _ r (conj Hl E)))) as (s' & r' & Hs & Hd).
      exists [LCheck t], s', r'. split; [|split; [|split]].
      - repeat constructor.
      - cbn; lia.
      - cbn [run]. rewrite Hs. reflexivity.
      - exact Hd. }
  (* the check parks the call; its context is done, so it leaves through the cancel path *)
  destruct (get_rec_spec s k) as (Hf & _ & _ & Hsome & _ & _).
  destruct (Hsome r Hl) as [Hs1 Hst].
  assert (exists s1 c, step s (LCheck t) = Some s1 /\ pc_of s1 t = Some (PParked k v c (r_exp r)) /\ ctx_of s1 t = true)
    as (s1 & c & Hstep & Hp1 & Hc1).
  { cbn [step]. rewrite Hp. destruct (get_rec s k) as [s0 found]. cbn [fst snd] in *. subst found s0.
    rewrite Hl. destruct (N.eqb_spec (r_ver r) v); [|congruence].
    pose proof (thr_register s k) as Hr. destruct (register s k) as [s2 c]. cbn [fst] in Hr.
    exists (set_pc s2 t (PParked k v c (r_exp r))), c. split; [reflexivity|]. split.
    - eapply pc_of_set_pc. rewrite Hr. eauto.
    - rewrite ctx_of_set_pc. unfold ctx_of in *. rewrite Hr. exact Hc. }
  destruct (parked_ctx_returns _ _ _ _ _ _ Hp1 Hc1) as (s' & Hrun & Hd).
  exists [LCheck t; WakeCtx t; CancelSec t], s', RCtx. split; [|split; [|split]].
  - repeat constructor.
  - cbn; lia.
  - cbn [run]. rewrite Hstep. exact Hrun.
  - exact Hd.
Qed.

Theorem can_return : forall s t p,
  Inv s -> pc_of s t = Some p -> (forall r, p <> PDone r) ->
  (ctx_of s t = true \/
   exists k v, (p = PCheck k v \/ (exists c tm, p = PParked k v c tm) \/ (exists c, p = PExpiryPending k v c))
               /\ changed s k v) \/ (exists k c, p = PCancelPending k c) ->
  exists ls s' r, own t ls /\ length ls <= 5 /\ run s ls = Some s' /\ pc_of s' t = Some (PDone r).
Proof.
  intros s t p I Hp Hnd Hcond.
  destruct (pc_of_some _ _ _ Hp) as (th & Ht & Hpc).
  destruct p as [k v|k v c tm|k c|k v c|r]; [| | | |exfalso; eapply Hnd; eauto].
  - (* at the loop head *)
    destruct Hcond as [[Hc|(k' & v' & Hpp & Hch)]|(k' & c' & Hx)]; [| |discriminate].
    + destruct (check_ctx_returns _ _ _ _ Hp Hc) as (ls & s' & r & H1 & H2 & H3 & H4).
      exists ls, s', r. repeat split; auto; lia.
    + destruct Hpp as [Hpp|[(c' & tm' & Hpp)|(c' & Hpp)]]; try discriminate. injection Hpp as <- <-.
      destruct (check_returns _ _ _ _ Hp Hch) as (s' & r & Hs & Hd).
      exists [LCheck t], s', r. split; [|split; [|split]].
      * repeat constructor.
      * cbn; lia.
      * cbn [run]. rewrite Hs. reflexivity.
      * exact Hd.
  - (* parked *)
    destruct (ctx_of s t) eqn:Hc.
    + destruct (parked_ctx_returns _ _ _ _ _ _ Hp Hc) as (s' & Hrun & Hd).
      exists [WakeCtx t; CancelSec t], s', RCtx. split; [|split; [|split]].
      * repeat constructor.
      * cbn; lia.
      * exact Hrun.
      * exact Hd.
    + destruct Hcond as [[Hc'|(k' & v' & Hpp & Hch)]|(k' & c' & Hx)]; [discriminate| |discriminate].
      destruct Hpp as [Hpp|[(c' & tm' & Hpp)|(c' & Hpp)]]; try discriminate. injection Hpp as <- <- <- <-.
      destruct (closed s c) eqn:Hcl.
      * (* woken through the channel *)
        set (s1 := set_pc s t (PCheck k v)).
        assert (Hp1 : pc_of s1 t = Some (PCheck k v)) by (eapply pc_of_set_pc; eauto).
        assert (Hch1 : changed s1 k v) by (unfold changed, s1; rewrite live_set_pc; exact Hch).
        destruct (check_returns _ _ _ _ Hp1 Hch1) as (s' & r & Hs & Hd).
        exists [WakeChan t; LCheck t], s', r. split; [|split; [|split]].
        -- repeat constructor.
        -- cbn; lia.
        -- assert (Hst1 : step s (WakeChan t) = Some s1) by (cbn [step]; rewrite Hp, Hcl; reflexivity).
           cbn [run]. rewrite Hst1, Hs. reflexivity.
        -- exact Hd.
      * (* the channel is open: the record is the one waited for, so it has expired *)
        destruct (inv_p _ I _ _ _ _ _ _ Ht Hpc Hcl) as [_ (r0 & Hst & Hv & He)].
        assert (Hexp : exists e, tm = Some e /\ (e < now s)%Z).
        { unfold changed, live in Hch. rewrite Hst in Hch. unfold expired in Hch. rewrite He in Hch.
          destruct tm as [e|].
          - destruct (Z.ltb_spec e (now s)); [eauto|].
            destruct Hch as [Hch|(r' & Hr' & Hne)]; [discriminate|]. injection Hr' as <-. congruence.
          - destruct Hch as [Hch|(r' & Hr' & Hne)]; [discriminate|]. injection Hr' as <-. congruence. }
        destruct Hexp as (e & -> & Hlt).
        set (s1 := set_pc s t (PExpiryPending k v c)).
        assert (Hp1 : pc_of s1 t = Some (PExpiryPending k v c)) by (eapply pc_of_set_pc; eauto).
        assert (exists th1, nth_error (thr s1) t = Some th1) as [th1 H1].
        { unfold s1. rewrite (set_pc_eq _ _ _ _ Ht). cbn. erewrite nth_error_upd_nth_eq; eauto. }
        set (s2 := set_pc (release s1 k c) t (PCheck k v)).
        assert (Hp2 : pc_of s2 t = Some (PCheck k v)).
        { eapply pc_of_set_pc. rewrite thr_release. exact H1. }
        assert (Hch2 : changed s2 k v).
        { unfold changed, s2. rewrite live_set_pc, live_release. unfold s1. rewrite live_set_pc. exact Hch. }
        destruct (check_returns _ _ _ _ Hp2 Hch2) as (s' & r & Hs & Hd).
        exists [WakeExpiry t; ExpirySec t; LCheck t], s', r. split; [|split; [|split]].
        -- repeat constructor.
        -- cbn; lia.
        -- assert (Hst1 : step s (WakeExpiry t) = Some s1).
           { cbn [step]. rewrite Hp. destruct (Z.leb_spec e (now s)); [reflexivity|lia]. }
           assert (Hst2 : step s1 (ExpirySec t) = Some s2) by (cbn [step]; rewrite Hp1; reflexivity).
           cbn [run]. rewrite Hst1, Hst2, Hs. reflexivity.
        -- exact Hd.
  - (* cancel pending *)
    assert (exists th1, nth_error (thr (release s k c)) t = Some th1) as [th1 H1]
      by (rewrite thr_release; eauto).
    exists [CancelSec t], (set_pc (release s k c) t (PDone RCtx)), RCtx. split; [|split; [|split]].
    + repeat constructor.
    + cbn; lia.
    + cbn [run step]. rewrite Hp. reflexivity.
    + eapply pc_of_set_pc; eauto.
  - (* expiry pending *)
    set (s2 := set_pc (release s k c) t (PCheck k v)).
    assert (exists th1, nth_error (thr (release s k c)) t = Some th1) as [th1 H1]
      by (rewrite thr_release; eauto).
    assert (Hp2 : pc_of s2 t = Some (PCheck k v)) by (eapply pc_of_set_pc; eauto).
    assert (Hstep : step s (ExpirySec t) = Some s2) by (cbn [step]; rewrite Hp; reflexivity).
    destruct Hcond as [[Hc|(k' & v' & Hpp & Hch)]|(k' & c' & Hx)]; [| |discriminate].
    + assert (Hc2 : ctx_of s2 t = true).
      { unfold s2. rewrite ctx_of_set_pc. unfold ctx_of in *. rewrite thr_release. exact Hc. }
      destruct (check_ctx_returns _ _ _ _ Hp2 Hc2) as (ls & s' & r & Ho & Hlen & Hrun & Hd).
      exists (ExpirySec t :: ls), s', r. split; [|split; [|split]].
      * constructor; [reflexivity|exact Ho].
      * cbn; lia.
      * cbn [run]. rewrite Hstep. exact Hrun.
      * exact Hd.
    + destruct Hpp as [Hpp|[(c' & tm' & Hpp)|(c' & Hpp)]]; try discriminate. injection Hpp as <- <- <-.
      assert (Hch2 : changed s2 k v).
      { unfold changed, s2. rewrite live_set_pc, live_release. exact Hch. }
      destruct (check_returns _ _ _ _ Hp2 Hch2) as (s' & r & Hs & Hd).
      exists [ExpirySec t; LCheck t], s', r. split; [|split; [|split]].
      * repeat constructor.
      * cbn; lia.
      * cbn [run]. rewrite Hstep, Hs. reflexivity.
      * exact Hd.
Qed.

(** ** a cancellation does not disturb the other waiters *)

Lemma closed_release : forall s k c c0,
  closed (release s k c) c0 = closed s c0 \/
  (c0 = c /\ closed (release s k c) c0 = true /\ tbl s k = Some (c, 1%Z)).
Proof.
  intros s k c c0. unfold release. destruct (tbl s k) as [[c1 n]|] eqn:Hk; [|left; reflexivity].
  destruct (Nat.eqb_spec c1 c) as [->|]; [|left; reflexivity].
  destruct (Z.eqb_spec (n - 1) 0) as [Hz|Hz]; [|left; reflexivity].
  cbn. unfold upd. destruct (Nat.eqb_spec c0 c) as [->|]; [|left; reflexivity].
  right. repeat split. f_equal. f_equal. lia.
Qed.

Lemma store_release : forall s k c, store (release s k c) = store s /\ now (release s k c) = now s.
Proof.
  intros s k c. unfold release. destruct (tbl s k) as [[c1 n]|]; [|auto].
  destruct (Nat.eqb c1 c); [|auto]. destruct (Z.eqb (n - 1) 0); auto.
Qed.

Lemma store_set_pc : forall s t p, store (set_pc s t p) = store s /\ now (set_pc s t p) = now s /\
  closed (set_pc s t p) = closed s /\ tbl (set_pc s t p) = tbl s.
Proof. intros s t p. unfold set_pc. destruct (nth_error (thr s) t); auto. Qed.

Theorem cancel_isolated : forall s t s',
  Inv s -> step s (CancelSec t) = Some s' ->
  (forall t', t' <> t -> nth_error (thr s') t' = nth_error (thr s) t') /\
  (forall t', t' <> t -> enabled_of s' t' = enabled_of s t') /\
  (forall c, closed s c = false -> closed s' c = true ->
     forall t' th k', t' <> t -> nth_error (thr s) t' = Some th -> on_chan k' c (t_pc th) = false) /\
  store s' = store s.
Proof.
  intros s t s' I H. cbn [step] in H.
  destruct (pc_of s t) as [p|] eqn:Hp; [|discriminate]. destruct p as [| |k c| |]; try discriminate.
  injection H as <-. destruct (pc_of_some _ _ _ Hp) as (th & Ht & Hpc).
  assert (Hon : on_chan k c (t_pc th) = true) by (rewrite Hpc; apply on_chan_refl_cancel).
  assert (H1 : forall t', t' <> t ->
            nth_error (thr (set_pc (release s k c) t (PDone RCtx))) t' = nth_error (thr s) t').
  { intros t' Hne. rewrite thr_set_pc_other by exact Hne. rewrite thr_release. reflexivity. }
  assert (H3 : forall c0, closed s c0 = false -> closed (set_pc (release s k c) t (PDone RCtx)) c0 = true ->
            forall t' th' k', t' <> t -> nth_error (thr s) t' = Some th' -> on_chan k' c0 (t_pc th') = false).
  { intros c0 Hc0 Hc1 t' th' k' Hne Ht'.
    destruct (store_set_pc (release s k c) t (PDone RCtx)) as (_ & _ & Hcl & _). rewrite Hcl in Hc1.
    destruct (closed_release s k c c0) as [E|(-> & _ & Hk)]; [congruence|].
    destruct (on_chan k' c (t_pc th')) eqn:Hon'; [exfalso|reflexivity].
    assert (k = k') by (eapply (it_chkey _ _ _ _ (inv_t _ I)); eauto). subst k'.
    destruct (it_tbl _ _ _ _ (inv_t _ I) _ _ _ Hk) as (_ & _ & Hcnt & _).
    pose proof (count_on_two k c (thr s) t t' th th' (fun E => Hne (eq_sym E)) Ht Ht' Hon Hon'). lia. }
  split; [exact H1|]. split; [|split; [exact H3|]].
  - intros t' Hne. unfold enabled_of, pc_of, ctx_of. rewrite (H1 t' Hne).
    destruct (nth_error (thr s) t') as [th'|] eqn:Ht'; [|reflexivity]. cbn [option_map].
    destruct (t_pc th') as [| k' v' c' tm'| | |] eqn:Hpc'; try reflexivity.
    destruct (store_set_pc (release s k c) t (PDone RCtx)) as (_ & Hnow & Hcl & _).
    rewrite Hnow. destruct (store_release s k c) as [_ ->].
    replace (closed (set_pc (release s k c) t (PDone RCtx)) c') with (closed s c'); [reflexivity|].
    destruct (closed s c') eqn:E.
    + rewrite Hcl. destruct (closed_release s k c c') as [E1|(_ & E1 & _)]; congruence.
    + destruct (closed (set_pc (release s k c) t (PDone RCtx)) c') eqn:E1; [|reflexivity].
      pose proof (H3 c' E E1 t' th' k' Hne Ht') as X. rewrite Hpc', on_chan_refl_parked in X. discriminate.
  - destruct (store_set_pc (release s k c) t (PDone RCtx)) as (-> & _). apply store_release.
Qed.

(** ** nothing is left behind *)

Lemma count_on_witness : forall k c l, 1 <= count_on k c l ->
  exists t th, nth_error l t = Some th /\ on_chan k c (t_pc th) = true.
Proof.
  intros k c. induction l as [|h tl IH]; intros H.
  - cbn in H. lia.
  - rewrite count_on_cons in H. destruct (on_chan k c (t_pc h)) eqn:E.
    + exists 0, h. auto.
    + cbn in H. destruct (IH H) as (t & th & Ht & Hon). exists (S t), th. auto.
Qed.

(** every entry of the waiter table has a registered thread *)
Theorem tbl_entry_has_waiter : forall s k c n,
  Inv s -> tbl s k = Some (c, n) ->
  exists t p, pc_of s t = Some p /\ on_chan k c p = true.
Proof.
  intros s k c n I Hk. destruct (it_tbl _ _ _ _ (inv_t _ I) _ _ _ Hk) as (_ & _ & Hn & Hpos).
  destruct (count_on_witness k c (thr s)) as (t & th & Ht & Hon); [lia|].
  exists t, (t_pc th). split; [|exact Hon]. unfold pc_of. rewrite Ht. reflexivity.
Qed.

Theorem no_residue : forall s,
  Inv s -> (forall t p, pc_of s t = Some p -> off_chan p) -> forall k, tbl s k = None.
Proof.
  intros s I Hall k. destruct (tbl s k) as [[c n]|] eqn:Hk; [|reflexivity].
  destruct (tbl_entry_has_waiter _ _ _ _ I Hk) as (t & p & Hp & Hon).
  rewrite (Hall _ _ Hp k c) in Hon. discriminate.
Qed.

(** ** the statement of the invariant, unfolded *)
Theorem parked_accounting : forall s t k v c tm,
  Inv s -> pc_of s t = Some (PParked k v c tm) -> closed s c = false ->
  exists n r, tbl s k = Some (c, n) /\ n = Z.of_nat (count_on k c (thr s)) /\
              store s k = Some r /\ r_ver r = v /\ r_exp r = tm.
Proof.
  intros s t k v c tm I Hp Hcl. destruct (pc_of_some _ _ _ Hp) as (th & Ht & Hpc).
  destruct (inv_p _ I _ _ _ _ _ _ Ht Hpc Hcl) as [[n Hk] (r & Hst & Hv & He)].
  destruct (it_tbl _ _ _ _ (inv_t _ I) _ _ _ Hk) as (_ & _ & Hn & _).
  exists n, r. auto.
Qed.

Theorem tbl_accounting : forall s k c n,
  Inv s -> tbl s k = Some (c, n) ->
  closed s c = false /\ n = Z.of_nat (count_on k c (thr s)) /\ (1 <= n)%Z.
Proof.
  intros s k c n I Hk. destruct (it_tbl _ _ _ _ (inv_t _ I) _ _ _ Hk) as (_ & H1 & H2 & H3). auto.
Qed.

(** * Part E: the polling waiter (Redis client) *)
Import Poll.

Definition psound_return (s : pst) (l : plabel) (t : tid) (r : res) : Prop :=
  match r with
  | RNil => l = PPoll t /\ exists k v tmo r0,
      ppc_of s t = Some (QPoll k v tmo) /\ srv_get s k = Some r0 /\ r_ver r0 <> v
  | RNotExist => l = PPoll t /\ exists k v tmo, ppc_of s t = Some (QPoll k v tmo) /\ srv_get s k = None
  | RCtx => (l = PPollCtx t \/ l = PWakeCtx t) /\ pctx_of s t = true
  end.

Lemma ppc_of_pset : forall s t th p, nth_error (pthr s) t = Some th -> ppc_of (pset s t p) t = Some p.
Proof.
  intros s t th p H. unfold pset, ppc_of. rewrite H. cbn. erewrite nth_error_upd_nth_eq; eauto.
Qed.

Lemma ppc_of_pset_other : forall s t p t', t' <> t -> ppc_of (pset s t p) t' = ppc_of s t'.
Proof.
  intros s t p t' Hne. unfold pset, ppc_of. destruct (nth_error (pthr s) t); [|reflexivity].
  cbn. rewrite nth_error_upd_nth_neq by congruence. reflexivity.
Qed.

Lemma ppc_of_some : forall s t p, ppc_of s t = Some p -> exists th, nth_error (pthr s) t = Some th /\ q_pc th = p.
Proof.
  intros s t p H. unfold ppc_of in H. destruct (nth_error (pthr s) t) as [th|]; [|discriminate].
  injection H as <-. eauto.
Qed.

Definition plabel_thread (l : plabel) : option tid :=
  match l with
  | PPoll t | PPollCtx t | PWakeTimer t | PWakeCtx t => Some t
  | _ => None
  end.

Theorem poll_sound_step : forall s l s' t r,
  pstep s l = Some s' -> ppc_of s' t = Some (QDone r) -> ppc_of s t <> Some (QDone r) ->
  psound_return s l t r.
Proof.
  intros s l s' t r H Hd Hnd.
  destruct l as [t0 k v|t0|t0|k rc|t0|t0|t0|dt]; cbn [pstep] in H.
  - exfalso. destruct (Nat.eqb_spec t0 (length (pthr s))) as [->|]; [|discriminate]. injection H as <-.
    apply Hnd. unfold ppc_of in *. cbn in Hd.
    destruct (Nat.lt_ge_cases t (length (pthr s))) as [Hlt|Hge].
    + rewrite nth_error_app1 in Hd by exact Hlt. exact Hd.
    + rewrite nth_error_app2 in Hd by exact Hge. destruct (t - length (pthr s)) as [|d]; cbn in Hd.
      * discriminate.
      * destruct d; discriminate.
  - destruct (ppc_of s t0) as [p|] eqn:Hp; [|discriminate]. destruct p as [k v tmo| |]; try discriminate.
    destruct (ppc_of_some _ _ _ Hp) as (th & Ht & Hpc).
    destruct (Nat.eq_dec t t0) as [->|Hne].
    + destruct (srv_get s k) as [r0|] eqn:Hg.
      * destruct (N.eqb_spec (r_ver r0) v) as [Hv|Hv]; injection H as <-;
          erewrite ppc_of_pset in Hd by eauto; [discriminate|]. injection Hd as <-.
        cbn. split; [reflexivity|]. exists k, v, tmo, r0. auto.
      * injection H as <-. erewrite ppc_of_pset in Hd by eauto. injection Hd as <-.
        cbn. split; [reflexivity|]. exists k, v, tmo. auto.
    + exfalso. apply Hnd. rewrite <- Hd. destruct (srv_get s k) as [r0|].
      * destruct (N.eqb (r_ver r0) v); injection H as <-; rewrite ppc_of_pset_other by exact Hne; reflexivity.
      * injection H as <-. rewrite ppc_of_pset_other by exact Hne. reflexivity.
  - destruct (ppc_of s t0) as [p|] eqn:Hp; [|discriminate]. destruct p as [k v tmo| |]; try discriminate.
    destruct (pctx_of s t0) eqn:Hc; [|discriminate]. injection H as <-.
    destruct (ppc_of_some _ _ _ Hp) as (th & Ht & Hpc).
    destruct (Nat.eq_dec t t0) as [->|Hne].
    + erewrite ppc_of_pset in Hd by eauto. injection Hd as <-. cbn. auto.
    + exfalso. apply Hnd. rewrite <- Hd. rewrite ppc_of_pset_other by exact Hne. reflexivity.
  - exfalso. injection H as <-. apply Hnd. exact Hd.
  - exfalso. destruct (nth_error (pthr s) t0) as [th|] eqn:E; [|discriminate]. injection H as <-.
    apply Hnd. unfold ppc_of in *. cbn in Hd. rewrite nth_error_upd_nth in Hd.
    destruct (Nat.eqb_spec t0 t) as [->|]; [|exact Hd]. rewrite E in *. exact Hd.
  - destruct (ppc_of s t0) as [p|] eqn:Hp; [|discriminate]. destruct p as [|k v tmo wake|]; try discriminate.
    destruct (Z.leb wake (pnow s)); [|discriminate]. injection H as <-.
    destruct (ppc_of_some _ _ _ Hp) as (th & Ht & Hpc). exfalso.
    destruct (Nat.eq_dec t t0) as [->|Hne].
    + erewrite ppc_of_pset in Hd by eauto. discriminate.
    + apply Hnd. rewrite <- Hd. rewrite ppc_of_pset_other by exact Hne. reflexivity.
  - destruct (ppc_of s t0) as [p|] eqn:Hp; [|discriminate]. destruct p as [|k v tmo wake|]; try discriminate.
    destruct (pctx_of s t0) eqn:Hc; [|discriminate]. injection H as <-.
    destruct (ppc_of_some _ _ _ Hp) as (th & Ht & Hpc).
    destruct (Nat.eq_dec t t0) as [->|Hne].
    + erewrite ppc_of_pset in Hd by eauto. injection Hd as <-. cbn. auto.
    + exfalso. apply Hnd. rewrite <- Hd. rewrite ppc_of_pset_other by exact Hne. reflexivity.
  - exfalso. destruct (Z.leb 0 dt); [|discriminate]. injection H as <-. apply Hnd. exact Hd.
Qed.

(** the back-off only takes the values 2, 4, .., 64 ms (it starts at 2, is doubled
    at the loop head and falls back to 2 when the double exceeds 100), so a
    sleeping poller is due again at most 64 ms after it went to sleep *)
Definition tmo_ok (t : Z) : Prop := In t [2; 4; 8; 16; 32; 64]%Z.

Lemma next_timeout_ok : forall t, tmo_ok t -> tmo_ok (next_timeout t).
Proof.
  intros t H. unfold tmo_ok in *. cbn in H.
  destruct H as [<-|[<-|[<-|[<-|[<-|[<-|[]]]]]]]; vm_compute; tauto.
Qed.

Lemma tmo_ok_range : forall t, tmo_ok t -> (2 <= t <= 64)%Z.
Proof.
  intros t H. unfold tmo_ok in H. cbn in H.
  destruct H as [<-|[<-|[<-|[<-|[<-|[<-|[]]]]]]]; lia.
Qed.

Definition pinv (s : pst) : Prop :=
  forall t th, nth_error (pthr s) t = Some th ->
    match q_pc th with
    | QPoll _ _ tmo => tmo_ok tmo
    | QSleep _ _ tmo wake => tmo_ok tmo /\ (wake <= pnow s + 64)%Z
    | QDone _ => True
    end.

Lemma pinv_pset : forall s t th p,
  pinv s -> nth_error (pthr s) t = Some th ->
  match p with
  | QPoll _ _ tmo => tmo_ok tmo
  | QSleep _ _ tmo wake => tmo_ok tmo /\ (wake <= pnow s + 64)%Z
  | QDone _ => True
  end -> pinv (pset s t p).
Proof.
  intros s t th p I Ht Hp t2 th2 H2. unfold pset in H2. rewrite Ht in H2. cbn in H2.
  rewrite nth_error_upd_nth in H2. unfold pset. rewrite Ht. cbn [pnow].
  destruct (Nat.eqb_spec t t2) as [->|Hne].
  - rewrite Ht in H2. injection H2 as <-. cbn. exact Hp.
  - apply (I _ _ H2).
Qed.

Theorem pinv_step : forall s l s', pinv s -> pstep s l = Some s' -> pinv s'.
Proof.
  intros s l s' I H. destruct l as [t0 k v|t0|t0|k rc|t0|t0|t0|dt]; cbn [pstep] in H.
  - destruct (Nat.eqb (t0) (length (pthr s))); [|discriminate]. injection H as <-.
    intros t th Ht. cbn in Ht. apply nth_error_snoc in Ht as [Ht|[_ ->]].
    + apply (I _ _ Ht).
    + cbn. unfold tmo_ok. cbn. auto.
  - destruct (ppc_of s t0) as [p|] eqn:Hp; [|discriminate]. destruct p as [k v tmo| |]; try discriminate.
    destruct (ppc_of_some _ _ _ Hp) as (th & Ht & Hpc). pose proof (I _ _ Ht) as Hth. rewrite Hpc in Hth.
    destruct (srv_get s k) as [r0|].
    + destruct (N.eqb (r_ver r0) v); injection H as <-; eapply pinv_pset; eauto; cbn; auto.
      split; [apply next_timeout_ok; exact Hth|].
      pose proof (tmo_ok_range _ (next_timeout_ok _ Hth)). lia.
    + injection H as <-. eapply pinv_pset; eauto; exact Logic.I.
  - destruct (ppc_of s t0) as [p|] eqn:Hp; [|discriminate]. destruct p as [k v tmo| |]; try discriminate.
    destruct (pctx_of s t0); [|discriminate]. injection H as <-.
    destruct (ppc_of_some _ _ _ Hp) as (th & Ht & Hpc). eapply pinv_pset; eauto; exact Logic.I.
  - injection H as <-. exact I.
  - destruct (nth_error (pthr s) t0) as [th|] eqn:E; [|discriminate]. injection H as <-.
    intros t th2 Ht. cbn in Ht. rewrite nth_error_upd_nth in Ht. destruct (Nat.eqb_spec t0 t) as [->|].
    + rewrite E in Ht. injection Ht as <-. cbn. apply (I _ _ E).
    + apply (I _ _ Ht).
  - destruct (ppc_of s t0) as [p|] eqn:Hp; [|discriminate]. destruct p as [|k v tmo wake|]; try discriminate.
    destruct (Z.leb wake (pnow s)); [|discriminate]. injection H as <-.
    destruct (ppc_of_some _ _ _ Hp) as (th & Ht & Hpc). pose proof (I _ _ Ht) as Hth. rewrite Hpc in Hth.
    eapply pinv_pset; eauto. apply Hth.
  - destruct (ppc_of s t0) as [p|] eqn:Hp; [|discriminate]. destruct p as [|k v tmo wake|]; try discriminate.
    destruct (pctx_of s t0); [|discriminate]. injection H as <-.
    destruct (ppc_of_some _ _ _ Hp) as (th & Ht & Hpc). eapply pinv_pset; eauto; exact Logic.I.
  - destruct (Z.leb_spec 0 dt); [|discriminate]. injection H as <-.
    intros t th Ht. cbn in Ht. pose proof (I _ _ Ht) as Hth. cbn [pnow].
    destruct (q_pc th); auto. destruct Hth. split; auto. lia.
Qed.

Lemma pinv_init : pinv pinit.
Proof. intros t th H. destruct t; discriminate. Qed.

Lemma pinv_run : forall ls s s', pinv s -> prun s ls = Some s' -> pinv s'.
Proof.
  induction ls as [|l tl IH]; intros s s' I H; cbn [prun] in H.
  - injection H as <-. exact I.
  - destruct (pstep s l) as [s1|] eqn:E; [|discriminate]. eapply IH; [|exact H]. eapply pinv_step; eauto.
Qed.

(** a sleeping poller whose timer is due can poll, and the timer is due at most 64 ms
    (of model time) after any instant at which it sleeps *)
Theorem poll_sleep_bounded : forall ls s t k v tmo wake,
  prun pinit ls = Some s -> ppc_of s t = Some (QSleep k v tmo wake) ->
  (wake <= pnow s + 64)%Z /\
  forall s1, pstep s (PTick 64) = Some s1 -> exists s2, pstep s1 (PWakeTimer t) = Some s2.
Proof.
  intros ls s t k v tmo wake H Hp.
  destruct (ppc_of_some _ _ _ Hp) as (th & Ht & Hpc).
  pose proof (pinv_run _ _ _ pinv_init H _ _ Ht) as Hth. rewrite Hpc in Hth. destruct Hth as [_ Hw].
  split; [exact Hw|]. intros s1 H1. cbn [pstep] in H1. cbn in H1. injection H1 as <-.
  cbn [pstep]. unfold ppc_of in *. cbn [pthr pnow]. rewrite Ht in *. cbn [option_map] in *.
  injection Hp as ->. destruct (Z.leb_spec wake (pnow s + 64)); [eauto|lia].
Qed.

Lemma pctx_of_pset : forall s t p t', pctx_of (pset s t p) t' = pctx_of s t'.
Proof.
  intros s t p t'. unfold pset, pctx_of. destruct (nth_error (pthr s) t) as [th|] eqn:E; [|reflexivity].
  cbn. rewrite nth_error_upd_nth. destruct (Nat.eqb_spec t t') as [->|]; [|reflexivity].
  rewrite E. reflexivity.
Qed.

Lemma plabel_eq_ctxdone : forall (l : plabel) (t : tid), {l = PCtxDone t} + {l <> PCtxDone t}.
Proof.
  intros l t. destruct l as [t0 k v|t0|t0|k rc|t0|t0|t0|dt]; try (right; discriminate).
  destruct (Nat.eq_dec t0 t) as [->|N]; [left; reflexivity|right; congruence].
Qed.

Lemma pctx_of_step : forall s l s' t,
  pstep s l = Some s' -> pctx_of s' t = true -> pctx_of s t = true \/ l = PCtxDone t.
Proof.
  intros s l s' t H Hc. destruct (plabel_eq_ctxdone l t) as [->|Hne]; [right; reflexivity|left].
  destruct l as [t0 k v|t0|t0|k rc|t0|t0|t0|dt]; cbn [pstep] in H.
  - destruct (Nat.eqb_spec t0 (length (pthr s))) as [->|]; [|discriminate]. injection H as <-.
    unfold pctx_of in *. cbn in Hc. destruct (Nat.lt_ge_cases t (length (pthr s))) as [Hlt|Hge].
    + rewrite nth_error_app1 in Hc by exact Hlt. exact Hc.
    + rewrite nth_error_app2 in Hc by exact Hge. destruct (t - length (pthr s)) as [|d]; cbn in Hc.
      * discriminate.
      * destruct d; discriminate.
  - destruct (ppc_of s t0) as [p|]; [|discriminate]. destruct p as [k v tmo| |]; try discriminate.
    destruct (srv_get s k) as [r0|].
    + destruct (N.eqb (r_ver r0) v); injection H as <-; rewrite pctx_of_pset in Hc; exact Hc.
    + injection H as <-. rewrite pctx_of_pset in Hc. exact Hc.
  - destruct (ppc_of s t0) as [p|]; [|discriminate]. destruct p as [k v tmo| |]; try discriminate.
    destruct (pctx_of s t0); [|discriminate]. injection H as <-. rewrite pctx_of_pset in Hc. exact Hc.
  - injection H as <-. exact Hc.
  - destruct (nth_error (pthr s) t0) as [th|] eqn:E; [|discriminate]. injection H as <-.
    assert (t0 <> t) by congruence. unfold pctx_of in *. cbn in Hc.
    rewrite nth_error_upd_nth_neq in Hc by exact H. exact Hc.
  - destruct (ppc_of s t0) as [p|]; [|discriminate]. destruct p as [|k v tmo wake|]; try discriminate.
    destruct (Z.leb wake (pnow s)); [|discriminate]. injection H as <-. rewrite pctx_of_pset in Hc. exact Hc.
  - destruct (ppc_of s t0) as [p|]; [|discriminate]. destruct p as [|k v tmo wake|]; try discriminate.
    destruct (pctx_of s t0); [|discriminate]. injection H as <-. rewrite pctx_of_pset in Hc. exact Hc.
  - destruct (Z.leb 0 dt); [|discriminate]. injection H as <-. exact Hc.
Qed.

Lemma prun_snoc : forall ls l s s',
  prun s (ls ++ [l]) = Some s' -> exists s0, prun s ls = Some s0 /\ pstep s0 l = Some s'.
Proof.
  induction ls as [|l0 tl IH]; intros l s s' H; cbn [prun app] in H.
  - destruct (pstep s l) as [s1|] eqn:E; [|discriminate]. cbn in H. injection H as <-. exists s. auto.
  - destruct (pstep s l0) as [s1|] eqn:E; [|discriminate]. destruct (IH _ _ _ H) as (s0 & H0 & Hs).
    exists s0. split; [|exact Hs]. cbn [prun]. rewrite E. exact H0.
Qed.

Lemma pctx_of_run : forall ls s t,
  prun pinit ls = Some s -> pctx_of s t = true -> In (PCtxDone t) ls.
Proof.
  induction ls as [|l ls IH] using rev_ind; intros s t H Hc.
  - cbn in H. injection H as <-. unfold pctx_of in Hc. cbn in Hc. destruct t; discriminate.
  - apply prun_snoc in H as (s0 & H0 & Hs). apply in_or_app.
    destruct (pctx_of_step _ _ _ _ Hs Hc) as [Hc0| ->].
    + left. eapply IH; eauto.
    + right. left. reflexivity.
Qed.

Lemma ppc_eq_done_dec : forall (o : option ppc) (r : res), {o = Some (QDone r)} + {o <> Some (QDone r)}.
Proof.
  intros [p|] r; [|right; discriminate].
  destruct p as [| |r0]; try (right; discriminate).
  destruct r0, r; try (left; reflexivity); right; discriminate.
Qed.

Theorem poll_sound_trace : forall ls s t r,
  prun pinit ls = Some s -> ppc_of s t = Some (QDone r) ->
  exists pre l post s0,
    ls = pre ++ l :: post /\ prun pinit pre = Some s0 /\ psound_return s0 l t r /\
    (r = RCtx -> In (PCtxDone t) pre).
Proof.
  induction ls as [|l ls IH] using rev_ind; intros s t r H Hd.
  - cbn in H. injection H as <-. unfold ppc_of in Hd. cbn in Hd. destruct t; discriminate.
  - apply prun_snoc in H as (s0 & H0 & Hs).
    destruct (ppc_eq_done_dec (ppc_of s0 t) r) as [Hd0|Hnd].
    + destruct (IH _ _ _ H0 Hd0) as (pre & l0 & post & s1 & -> & Hp & Hsr & Hc).
      exists pre, l0, (post ++ [l]), s1. rewrite <- app_assoc. cbn. auto.
    + pose proof (poll_sound_step _ _ _ _ _ Hs Hd Hnd) as Hsr.
      exists ls, l, [], s0. repeat split; auto.
      intros ->. cbn in Hsr. destruct Hsr as [_ Hc]. eapply pctx_of_run; eauto.
Qed.

(** * Part F: the statements used by Properties/C07.v, over reachable states *)

Theorem wait_no_lost_wakeup : forall s, reachable s ->
  (forall t k v c tm, pc_of s t = Some (PParked k v c tm) -> closed s c = false ->
     exists n r, tbl s k = Some (c, n) /\ n = Z.of_nat (count_on k c (thr s)) /\
                 store s k = Some r /\ r_ver r = v /\ r_exp r = tm) /\
  (forall k c n, tbl s k = Some (c, n) ->
     closed s c = false /\ n = Z.of_nat (count_on k c (thr s)) /\ (1 <= n)%Z).
Proof.
  intros s R. pose proof (reachable_Inv s R) as I. split.
  - intros. eapply parked_accounting; eauto.
  - intros. eapply tbl_accounting; eauto.
Qed.

Theorem wait_enabled : forall s t p, reachable s -> pc_of s t = Some p ->
  (forall r, p <> PDone r) ->
  (forall k v c tm, p = PParked k v c tm -> ctx_of s t = true \/ changed s k v) ->
  exists l s', thread_of l = Some t /\ step s l = Some s'.
Proof.
  intros s t p R Hp Hnd Hcond. pose proof (reachable_Inv s R) as I.
  assert (Hne : enabled_of s t <> []).
  { destruct p as [k v|k v c tm|k c|k v c|r].
    - eapply unparked_enabled; eauto. intros; discriminate.
    - eapply parked_enabled; eauto.
    - eapply unparked_enabled; eauto. intros; discriminate.
    - eapply unparked_enabled; eauto. intros; discriminate.
    - exfalso. eapply Hnd; eauto. }
  destruct (enabled_of s t) as [|l tl] eqn:E; [congruence|].
  destruct (enabled_of_sound s t l) as [H1 [s' H2]]; [rewrite E; left; reflexivity|].
  exists l, s'. auto.
Qed.

Theorem wait_can_return : forall s t p, reachable s -> pc_of s t = Some p ->
  (forall r, p <> PDone r) ->
  (ctx_of s t = true \/
   exists k v, (p = PCheck k v \/ (exists c tm, p = PParked k v c tm) \/ (exists c, p = PExpiryPending k v c))
               /\ changed s k v) \/ (exists k c, p = PCancelPending k c) ->
  exists ls s' r, own t ls /\ length ls <= 5 /\ run s ls = Some s' /\ pc_of s' t = Some (PDone r).
Proof. intros s t p R. apply can_return. apply reachable_Inv. exact R. Qed.

Theorem wait_cancel_isolated : forall s t s', reachable s -> step s (CancelSec t) = Some s' ->
  (forall t', t' <> t -> nth_error (thr s') t' = nth_error (thr s) t') /\
  (forall t', t' <> t -> enabled_of s' t' = enabled_of s t') /\
  (forall c, closed s c = false -> closed s' c = true ->
     forall t' th k', t' <> t -> nth_error (thr s) t' = Some th -> on_chan k' c (t_pc th) = false) /\
  store s' = store s.
Proof. intros s t s' R. apply cancel_isolated. apply reachable_Inv. exact R. Qed.

Theorem wait_no_residue : forall s, reachable s ->
  (forall t p, pc_of s t = Some p -> off_chan p) -> forall k, tbl s k = None.
Proof. intros s R. apply no_residue. apply reachable_Inv. exact R. Qed.

Theorem wait_no_double_close : forall s, reachable s -> dblclose s = false.
Proof. intros s R. apply (inv_d _ (reachable_Inv s R)). Qed.

(** a call whose check finds an expired record behaves as if the key were deleted:
    it returns ErrNotExist and the record is gone afterwards (C06 in the waiter LTS) *)
Theorem wait_on_expired_notexist : forall s t k v r,
  pc_of s t = Some (PCheck k v) -> store s k = Some r -> expired r (now s) = true ->
  exists s', step s (LCheck t) = Some s' /\ pc_of s' t = Some (PDone RNotExist) /\ store s' k = None.
Proof.
  intros s t k v r Hp Hst He. destruct (pc_of_some _ _ _ Hp) as (th & Ht & Hpc).
  assert (Hl : live s k = None) by (unfold live; rewrite Hst, He; reflexivity).
  cbn [step]. rewrite Hp.
  destruct (get_rec_spec s k) as (Hf & Hthr & _ & _ & Hnone & _).
  destruct (get_rec s k) as [s1 found]. cbn [fst snd] in *. subst found. rewrite Hl.
  eexists. split; [reflexivity|]. split.
  - eapply pc_of_set_pc. rewrite Hthr. eauto.
  - destruct (store_set_pc s1 t (PDone RNotExist)) as (-> & _). apply Hnone. exact Hl.
Qed.

(** who stands behind an entry of the waiter table (what the race rounds of the
    correspondence run read through the hook): every call registered on it is parked
    for the version of the record stored under the key NOW, or has taken the ctx
    branch (its context is done), or has taken the timer branch *)
Theorem wait_entry_waiters_current : forall s k c n, reachable s -> tbl s k = Some (c, n) ->
  closed s c = false /\ n = Z.of_nat (count_on k c (thr s)) /\ (1 <= n)%Z /\
  forall t p, pc_of s t = Some p -> on_chan k c p = true ->
    match p with
    | PParked _ v _ tm => exists r, store s k = Some r /\ r_ver r = v /\ r_exp r = tm
    | PCancelPending _ _ => ctx_of s t = true
    | PExpiryPending _ _ _ => True
    | PCheck _ _ | PDone _ => False
    end.
Proof.
  intros s k c n R Hk. pose proof (reachable_Inv s R) as I.
  destruct (tbl_accounting _ _ _ _ I Hk) as (Hcl & Hn & Hpos).
  split; [exact Hcl|]. split; [exact Hn|]. split; [exact Hpos|].
  intros t p Hp Hon. destruct (pc_of_some _ _ _ Hp) as (th & Ht & Hpc).
  destruct p as [k' v|k' v c' tm|k' c'|k' v c'|r]; cbn [on_chan] in Hon; try discriminate.
  - apply andb_true_iff in Hon as [Hk' Hc']. apply Nat.eqb_eq in Hk', Hc'. subst k' c'.
    destruct (inv_p _ I _ _ _ _ _ _ Ht Hpc Hcl) as [_ Hr]. exact Hr.
  - unfold ctx_of. rewrite Ht. eapply (inv_c _ I); eauto.
  - exact Logic.I.
Qed.
