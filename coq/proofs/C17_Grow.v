(** C17, part 4b: the storage is larger than the live segments (non-fit
    storages, [OGrow] = bts.Grow under the live allocator).

    - the marks behind the live segments ([hidden_of_bytes]): untouched by
      everything the allocator and its users do, untouched by Grow;
    - what a reopen (NewBlocks on the storage as it is now) makes of them: the
      allocated set of the reopened allocator is the live set followed by the
      marks of the segments that became whole. *)
From Coq Require Import List ZArith NArith Bool Lia.
From GL Require Import model.Blocks spec.AllocSet
  proofs.C17_Bytes proofs.C17_Geometry proofs.C17_Count proofs.C17_Inv.
Import ListNotations.
Open Scope Z_scope.

(** * Lists *)

Lemma filter_none : forall (f : Z -> bool) l, (forall x, In x l -> f x = false) -> filter f l = [].
Proof.
  intros f. induction l as [|x t IH]; intros H; cbn [filter]; [reflexivity|].
  rewrite (H x (or_introl eq_refl)). apply IH. intros y Hy. apply H. right. exact Hy.
Qed.

Lemma filter_filter : forall (f g : Z -> bool) l,
  filter g (filter f l) = filter (fun x => f x && g x) l.
Proof.
  intros f g. induction l as [|x t IH]; cbn [filter]; [reflexivity|].
  destruct (f x); cbn [filter andb]; [destruct (g x)|]; rewrite IH; reflexivity.
Qed.

(** * One index *)

Lemma is_hidden_eq : forall bs buf x,
  is_hidden bs buf x =
  (hdr_addr bs (x / (8 * bs)) ((x mod (8 * bs)) / 8) <? bsize buf) && is_alloc_bytes bs buf x.
Proof. reflexivity. Qed.

(* inside whole segments of the storage the clipping is void *)
Lemma is_hidden_visible : forall bs buf segs x, 0 < bs -> 0 <= x < segs * (8 * bs) ->
  segs * ssz bs <= bsize buf -> is_hidden bs buf x = is_alloc_bytes bs buf x.
Proof.
  intros bs buf segs x Hbs Hx Hfit. rewrite is_hidden_eq.
  destruct (idx_decompose bs x Hbs ltac:(lia)) as [_ [Hs [Hp _]]]. cbv zeta in Hs, Hp.
  assert (Hlt : x / (8 * bs) < segs) by (apply idx_segment_lt; lia).
  destruct (hdr_in_buffer bs segs (bsize buf) _ _ Hbs Hfit (conj Hs Hlt) Hp) as [_ [H _]].
  destruct (Z.ltb_spec (hdr_addr bs (x / (8 * bs)) ((x mod (8 * bs)) / 8)) (bsize buf)); [reflexivity|lia].
Qed.

(* behind the segment that holds the end of the storage there is nothing *)
Lemma is_hidden_beyond : forall bs buf x, 0 < bs -> 0 <= bsize buf ->
  (bsize buf / ssz bs + 1) * (8 * bs) <= x -> is_hidden bs buf x = false.
Proof.
  intros bs buf x Hbs Hsz Hx. rewrite is_hidden_eq. pose proof (ssz_pos bs Hbs) as Hss.
  assert (H0 : 0 <= bsize buf / ssz bs) by (apply Z.div_pos; lia).
  assert (Hx0 : 0 <= x) by (assert (0 <= (bsize buf / ssz bs + 1) * (8 * bs)) by (apply Z.mul_nonneg_nonneg; lia); lia).
  destruct (idx_decompose bs x Hbs Hx0) as [_ [Hs [Hp _]]]. cbv zeta in Hs, Hp.
  assert (Hge : bsize buf / ssz bs + 1 <= x / (8 * bs)).
  { destruct (Z.lt_ge_cases (x / (8 * bs)) (bsize buf / ssz bs + 1)) as [Hlt|?]; [|assumption].
    apply (idx_segment_lt bs _ x Hbs Hx0) in Hlt. lia. }
  pose proof (Z.mul_succ_div_gt (bsize buf) (ssz bs) Hss) as Hgt.
  assert (ssz bs * (bsize buf / ssz bs + 1) <= ssz bs * (x / (8 * bs))) by (apply Z.mul_le_mono_nonneg_l; lia).
  unfold hdr_addr.
  destruct (Z.ltb_spec (x / (8 * bs) * ssz bs + (x mod (8 * bs)) / 8) (bsize buf)); [lia|reflexivity].
Qed.

(* Grow: the old bytes, zeros behind *)
Lemma is_hidden_grow : forall bs buf n x, 0 < bs -> 0 <= x -> bsize buf <= n ->
  is_hidden bs (grow_buf buf n) x = is_hidden bs buf x.
Proof.
  intros bs buf n x Hbs Hx Hn. rewrite !is_hidden_eq, bsize_grow.
  destruct (idx_decompose bs x Hbs Hx) as [E [Hs [Hp Hj]]]. cbv zeta in E, Hs, Hp, Hj.
  set (s := x / (8 * bs)) in *. set (p := (x mod (8 * bs)) / 8) in *.
  rewrite E. rewrite !is_alloc_bytes_at by assumption.
  pose proof (hdr_addr_nonneg bs s p Hbs Hs ltac:(lia)) as Ha.
  destruct (Z.ltb_spec (hdr_addr bs s p) (bsize buf)) as [Hin|Hout].
  - rewrite bget_grow_inside by lia.
    destruct (Z.ltb_spec (hdr_addr bs s p) n); [reflexivity|lia].
  - rewrite bget_grow_outside by lia. cbn [andb]. unfold bit_is_clear. rewrite N.land_0_l.
    cbn. apply andb_false_r.
Qed.

Lemma is_alloc_bytes_grow : forall bs buf n segs x, 0 < bs -> 0 <= x < segs * (8 * bs) ->
  segs * ssz bs <= bsize buf ->
  is_alloc_bytes bs (grow_buf buf n) x = is_alloc_bytes bs buf x.
Proof.
  intros bs buf n segs x Hbs Hx Hfit.
  destruct (idx_decompose bs x Hbs ltac:(lia)) as [E [Hs [Hp Hj]]]. cbv zeta in E, Hs, Hp, Hj.
  assert (Hlt : x / (8 * bs) < segs) by (apply idx_segment_lt; lia).
  destruct (hdr_in_buffer bs segs (bsize buf) _ _ Hbs Hfit (conj Hs Hlt) Hp) as [H0 [H _]].
  rewrite E. rewrite !is_alloc_bytes_at by assumption. rewrite bget_grow_inside by lia. reflexivity.
Qed.

(** * The marks behind the live segments *)

(* any range that reaches the segment holding the end of the storage will do *)
Lemma hidden_range : forall bs segs buf m, 0 < bs -> 0 <= bsize buf ->
  (Z.to_nat ((bsize buf / ssz bs + 1 - segs) * (8 * bs)) <= m)%nat ->
  filter (is_hidden bs buf) (zrange (segs * (8 * bs)) m) = hidden_of_bytes bs segs buf.
Proof.
  intros bs segs buf m Hbs Hsz Hm. unfold hidden_of_bytes.
  change ((8 * bs + 1) * bs) with (ssz bs).
  set (n := Z.to_nat ((bsize buf / ssz bs + 1 - segs) * (8 * bs))) in *.
  replace m with (n + (m - n))%nat by lia.
  rewrite zrange_app, filter_app. rewrite (filter_none _ (zrange _ (m - n))); [apply app_nil_r|].
  intros x Hx. apply in_zrange in Hx. apply is_hidden_beyond; try assumption. subst n. lia.
Qed.

(* the state of an index behind the live ones, one header bit flipped among the live ones *)
Lemma hidden_list_flip : forall page fit b b' i (t : bool), inv page fit b ->
  blkSize b' = blkSize b -> segments b' = segments b -> bsize (bts b') = bsize (bts b) ->
  0 <= i < blocks_count b ->
  (forall k, 0 <= k -> is_alloc b' k = if k =? i then t else is_alloc b k) ->
  hidden_list b' = hidden_list b.
Proof.
  intros page fit b b' i t I Hbs Hsegs Hsz Hi Hg.
  unfold hidden_list, hidden_of_bytes. rewrite Hbs, Hsegs, Hsz.
  apply filter_ext_zrange. intros x Hx. unfold is_hidden. rewrite Hsz. f_equal.
  unfold blocks_count in Hi. rewrite (inv_bis _ _ _ I) in Hi.
  pose proof (Hg x ltac:(lia)) as H. destruct (Z.eqb_spec x i) as [?|_]; [lia|].
  unfold is_alloc in H. rewrite Hbs in H. exact H.
Qed.

(** * Grow *)

Definition grown (b : blocks) (n : Z) : blocks :=
  mkBlocks (blkSize b) (blksInSegm b) (segments b) (freeIdx b) (available b) (grow_buf (bts b) n).

Lemma grow_same_headers : forall bs segs buf n, 0 < bs -> segs * ssz bs <= bsize buf ->
  same_headers bs segs buf (grow_buf buf n).
Proof.
  intros bs segs buf n Hbs Hfit s p Hs Hp.
  destruct (hdr_in_buffer bs segs (bsize buf) s p Hbs Hfit Hs Hp) as [H0 [H _]].
  apply bget_grow_inside. lia.
Qed.

Lemma grown_inv_abs : forall page fit b n, inv page fit b -> bsize (bts b) <= n ->
  inv page fit (grown b n) /\
  abs (grown b n) = mkSpec (blkSize b) (segments b) (alloc_list b) n (hidden_list b).
Proof.
  intros page fit b n I Hn. pose proof (inv_bs_pos _ _ _ I) as Hbs.
  pose proof (inv_segs_fit _ _ _ I) as Hfit. pose proof (inv_segs _ _ _ I) as Hsegs.
  pose proof (ssz_pos _ Hbs) as Hss.
  assert (Hsz : 0 <= bsize (bts b)) by nia.
  pose proof (grow_same_headers (blkSize b) (segments b) (bts b) n Hbs Hfit) as Hsame.
  split.
  - destruct I as [I1 I2 I3 I4 I5 I7 I8 I9].
    constructor; unfold grown; cbn [blkSize blksInSegm segments freeIdx available bts]; try assumption.
    + rewrite bsize_grow. lia.
    + intros s p Hs Hp Hlt. rewrite Hsame by assumption. apply I8; assumption.
    + rewrite I9. symmetry. apply free_count_ext; assumption.
  - unfold abs, alloc_list, hidden_list, grown. cbn [blkSize segments bts]. rewrite bsize_grow.
    rewrite (alloc_of_bytes_ext _ _ (bts b) (grow_buf (bts b) n)) by assumption.
    f_equal.
    rewrite <- (hidden_range (blkSize b) (segments b) (bts b)
                  (Z.to_nat ((n / ssz (blkSize b) + 1 - segments b) * (8 * blkSize b))) Hbs Hsz).
    + unfold hidden_of_bytes. rewrite bsize_grow. change ((8 * blkSize b + 1) * blkSize b) with (ssz (blkSize b)).
      apply filter_ext_zrange. intros x Hx. apply is_hidden_grow; try assumption.
      assert (0 <= segments b * (8 * blkSize b)) by (apply Z.mul_nonneg_nonneg; lia). lia.
    + pose proof (Z.div_le_mono _ _ (ssz (blkSize b)) Hss Hn) as Hd.
      assert ((bsize (bts b) / ssz (blkSize b) + 1 - segments b) * (8 * blkSize b)
              <= (n / ssz (blkSize b) + 1 - segments b) * (8 * blkSize b))
        by (apply Z.mul_le_mono_nonneg_r; lia).
      lia.
Qed.

(** * Reopen *)

(** NewBlocks on a storage with room behind the live segments: the set of the
    new allocator is the live set followed by the marks that became visible *)
Lemma reopen_split : forall bs segs buf, 0 < bs -> 0 <= segs ->
  segs * ssz bs <= bsize buf ->
  let S := bsize buf / ssz bs in
  alloc_of_bytes bs S buf =
    alloc_of_bytes bs segs buf ++ filter (fun i => i <? S * (8 * bs)) (hidden_of_bytes bs segs buf) /\
  hidden_of_bytes bs S buf = filter (fun i => S * (8 * bs) <=? i) (hidden_of_bytes bs segs buf).
Proof.
  intros bs segs buf Hbs Hsegs Hfit S. pose proof (ssz_pos bs Hbs) as Hss.
  assert (HS : segs <= S) by (apply Z.div_le_lower_bound; lia).
  assert (HSfit : S * ssz bs <= bsize buf) by (unfold S; rewrite Z.mul_comm; apply Z.mul_div_le; exact Hss).
  set (c := segs * (8 * bs)). set (C := S * (8 * bs)).
  assert (Hc0 : 0 <= c) by (apply Z.mul_nonneg_nonneg; lia).
  assert (HcC : c <= C) by (apply Z.mul_le_mono_nonneg_r; lia).
  set (n1 := Z.to_nat (C - c)). set (n2 := Z.to_nat (8 * bs)).
  assert (Hh : hidden_of_bytes bs segs buf =
               filter (is_hidden bs buf) (zrange c n1) ++ filter (is_hidden bs buf) (zrange C n2)).
  { unfold hidden_of_bytes. change ((8 * bs + 1) * bs) with (ssz bs). fold S. fold c.
    replace (Z.to_nat ((S + 1 - segs) * (8 * bs))) with (n1 + n2)%nat by (unfold n1, n2, C, c; lia).
    rewrite zrange_app, filter_app. do 3 f_equal. unfold n1. lia. }
  assert (Hlow : forall g, (forall x, c <= x < C -> g x = true) ->
            filter g (filter (is_hidden bs buf) (zrange c n1)) = filter (is_alloc_bytes bs buf) (zrange c n1)).
  { intros g Hg. rewrite filter_filter. apply filter_ext_zrange. intros x Hx.
    rewrite Hg by (unfold n1 in Hx; lia).
    rewrite (is_hidden_visible bs buf S x Hbs) by (try assumption; unfold n1 in Hx; fold C; lia).
    apply andb_true_r. }
  split.
  - unfold alloc_of_bytes at 1. fold C.
    replace (Z.to_nat C) with (Z.to_nat c + n1)%nat by (unfold n1; lia).
    rewrite zrange_app, filter_app. rewrite Z.add_0_l, Z2Nat.id by lia.
    unfold alloc_of_bytes. fold c. f_equal.
    rewrite Hh, filter_app. rewrite Hlow by (intros x Hx; apply Z.ltb_lt; lia).
    rewrite filter_filter, (filter_none _ (zrange C n2)); [symmetry; apply app_nil_r|].
    intros x Hx. apply in_zrange in Hx. destruct (Z.ltb_spec x C); [lia|]. apply andb_false_r.
  - rewrite Hh, filter_app.
    rewrite filter_filter, (filter_none _ (zrange c n1)).
    2:{ intros x Hx. apply in_zrange in Hx. unfold n1 in Hx.
        destruct (Z.leb_spec C x); [lia|]. apply andb_false_r. }
    cbn [app]. rewrite filter_filter.
    unfold hidden_of_bytes. change ((8 * bs + 1) * bs) with (ssz bs). fold S. fold C.
    replace (Z.to_nat ((S + 1 - S) * (8 * bs))) with n2 by (unfold n2; f_equal; ring).
    apply filter_ext_zrange. intros x Hx. destruct (Z.leb_spec C x); [|lia]. symmetry. apply andb_true_r.
Qed.

(* nothing behind the live segments becomes visible when the allocator covers the storage *)
Lemma hidden_tight : forall bs segs buf, 0 < bs -> 0 <= bsize buf -> segs = bsize buf / ssz bs ->
  filter (fun i => i <? segs * (8 * bs)) (hidden_of_bytes bs segs buf) = [] /\
  filter (fun i => segs * (8 * bs) <=? i) (hidden_of_bytes bs segs buf) = hidden_of_bytes bs segs buf.
Proof.
  intros bs segs buf Hbs Hsz Hs. unfold hidden_of_bytes. split.
  - rewrite filter_filter. apply filter_none. intros x Hx. apply in_zrange in Hx.
    destruct (Z.ltb_spec x (segs * (8 * bs))); [lia|]. apply andb_false_r.
  - rewrite filter_filter. apply filter_ext_zrange. intros x Hx.
    destruct (Z.leb_spec (segs * (8 * bs)) x); [|lia]. apply andb_true_r.
Qed.
