(** C18: what the refinement gives for the mixer model itself - Reset leads
    back to the initial state, the elements obtained under any call pattern
    are a prefix of the merge, the drained output is the merge (hence a
    permutation of the inputs, and sorted for sorted inputs). *)
From Coq Require Import List ZArith Bool Lia Permutation Sorted.
From GL Require Import model.Mixer spec.Merge proofs.C18_Mixer proofs.C18_Merge.
Import ListNotations.
Open Scope Z_scope.

Lemma mx_run_app : forall sf a b m,
  mx_run sf m (a ++ b) =
  (fst (mx_run sf m a) ++ fst (mx_run sf (snd (mx_run sf m a)) b),
   snd (mx_run sf (snd (mx_run sf m a)) b)).
Proof.
  intros sf a b. induction a as [|c t IH]; intros m.
  - cbn. destruct (mx_run sf m b). reflexivity.
  - cbn [app mx_run]. destruct (mx_step sf m c) as [m' o].
    rewrite IH. destruct (mx_run sf m' t) as [os mf]. reflexivity.
Qed.

(* the model never reports a panic or an unclassified Reset error *)
Lemma mx_step_outputs : forall sf m c,
  match c, snd (mx_step sf m c) with
  | CHasNext, OHas _ => True
  | CNext, ONext _ _ => True
  | CReset, OReset r => r <> ROther
  | _, _ => False
  end.
Proof.
  intros sf m c. destruct c; cbn.
  - exact I.
  - destruct (mx_next sf m) as [m' [v ok]]. exact I.
  - unfold mx_reset. destruct (desc_reset (m_src1 m)) as [d1 [|]].
    + destruct (desc_reset (m_src2 m)) as [d2 [|]]; cbn; discriminate.
    + cbn. discriminate.
Qed.

(* in every state reached from Init, Reset gives back exactly the state Init
   built (the look-ahead, [st] and both sources) *)
Lemma mixer_reset_is_init : forall sf la lb cs,
  mx_reset (snd (mx_run sf (mx_init (wrap_ints la) (wrap_ints lb)) cs)) =
  (mx_init (wrap_ints la) (wrap_ints lb), ROk).
Proof.
  intros sf la lb cs.
  pose proof (tail_ok_wrap_items la) as Ta. pose proof (tail_ok_wrap_items lb) as Tb.
  destruct (run_sim sf _ _ true true cs _ _ Ta Tb (sim_init sf _ _ true true Ta Tb)) as [_ H].
  { intros _. split; reflexivity. }
  change (src_of (wrap_items la) true) with (wrap_ints la) in H.
  change (src_of (wrap_items lb) true) with (wrap_ints lb) in H.
  revert H.
  generalize (snd (mx_run sf (mx_init (wrap_ints la) (wrap_ints lb)) cs)).
  generalize (snd (spec_run sf (spec_init (live_items (wrap_items la)) (live_items (wrap_items lb))) cs)).
  intros s m H. break_sim. subst.
  unfold mx_reset, desc_reset, src_reset, mx_init, wrap_ints, src_of. cbn. reflexivity.
Qed.

(* Reset restarts the merge: what follows a Reset is what follows Init *)
Lemma mixer_reset_restarts : forall sf l1 l2 cs1 cs2,
  fst (mx_run sf (mx_init (wrap_ints l1) (wrap_ints l2)) (cs1 ++ CReset :: cs2)) =
  fst (mx_run sf (mx_init (wrap_ints l1) (wrap_ints l2)) cs1) ++
  OReset ROk :: fst (mx_run sf (mx_init (wrap_ints l1) (wrap_ints l2)) cs2).
Proof.
  intros sf l1 l2 cs1 cs2. rewrite mx_run_app. cbn [fst]. f_equal.
  cbn [mx_run mx_step]. rewrite mixer_reset_is_init.
  destruct (mx_run sf (mx_init (wrap_ints l1) (wrap_ints l2)) cs2). reflexivity.
Qed.

(* any pattern of HasNext / Next calls obtains a prefix of the merge: as many
   elements as there were Next calls (sources with or without Reset) *)
Lemma mixer_next_vals : forall sf rs1 rs2 l1 l2 cs,
  ~ In CReset cs ->
  next_vals (fst (mx_run sf (mx_init (src_of (wrap_items l1) rs1) (src_of (wrap_items l2) rs2)) cs)) =
  firstn (count_next cs) (merge_out sf l1 l2).
Proof.
  intros sf rs1 rs2 l1 l2 cs Hn.
  rewrite mixer_refines_merge_noreset by exact Hn.
  rewrite spec_run_next_vals by exact Hn. reflexivity.
Qed.

(* calling Next often enough drains exactly the merge *)
Lemma mixer_drain : forall sf l1 l2 n,
  (length l1 + length l2 <= n)%nat ->
  next_vals (fst (mx_run sf (mx_init (wrap_ints l1) (wrap_ints l2)) (repeat CNext n))) =
  merge_out sf l1 l2.
Proof.
  intros sf l1 l2 n Hn. rewrite mixer_refines_merge. apply spec_drain. exact Hn.
Qed.

Lemma mixer_drain_perm : forall sf l1 l2 n,
  (length l1 + length l2 <= n)%nat ->
  Permutation
    (next_vals (fst (mx_run sf (mx_init (wrap_ints l1) (wrap_ints l2)) (repeat CNext n))))
    (l1 ++ l2).
Proof.
  intros sf l1 l2 n Hn. rewrite mixer_drain by exact Hn.
  unfold merge_out, merge_tagged. apply merge_run_perm. lia.
Qed.

Lemma mixer_drain_sorted : forall (leq : Z -> Z -> Prop) sf l1 l2 n,
  (forall x y z, leq x y -> leq y z -> leq x z) ->
  (forall x y, sf x y = true -> leq x y) ->
  (forall x y, sf x y = false -> leq y x) ->
  StronglySorted leq l1 -> StronglySorted leq l2 ->
  (length l1 + length l2 <= n)%nat ->
  StronglySorted leq
    (next_vals (fst (mx_run sf (mx_init (wrap_ints l1) (wrap_ints l2)) (repeat CNext n)))).
Proof.
  intros leq sf l1 l2 n Htr Ht Hf H1 H2 Hn. rewrite mixer_drain by exact Hn.
  apply merge_strongly_sorted; assumption.
Qed.
