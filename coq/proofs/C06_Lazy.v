(** C06 on the in-memory store: lazy expiry (a record is dropped by the first
    method whose [get()] meets it) is virtual expiry for every history; an
    expired record in the map is indistinguishable from its absence; the
    WaitForVersionChange check; and the pre-fix code (defect D6) refuted. *)
From Coq Require Import List ZArith NArith Arith Bool Lia.
From GL Require Import spec.KV model.InmemKV model.legacy.InmemKVLegacy
  proofs.C03_KV proofs.C06_Expiry proofs.C03_Inmem.
Import ListNotations.

(** ** the relation between map and contract state holds along every run *)

Fixpoint last_time (t : Z) (ops : list (Z * op)) : Z :=
  match ops with
  | [] => t
  | (now, _) :: r => last_time now r
  end.

Lemma im_run_sim_state : forall ops t sp im, sim t sp im -> mono t ops ->
  sim (last_time t ops) (snd (run sp ops)) (snd (im_run im ops)).
Proof.
  induction ops as [|[now o] r IH]; intros t sp im S M; cbn [im_run run last_time]; [exact S|].
  destruct M as [Hle M].
  destruct (im_step_sim now sp im o (sim_mono _ _ _ _ Hle S)) as [_ S'].
  destruct (im_step im now o) as [im' x], (step sp now o) as [sp' y]. cbn [fst snd] in *.
  specialize (IH now sp' im' S' M).
  destruct (im_run im' r) as [xs f1], (run sp' r) as [ys f2]. exact IH.
Qed.

(* every state the store can be in after a history with a monotone clock *)
Definition im_reachable (t : Z) (im : imem) : Prop :=
  exists ops t0, mono t0 ops /\ t = last_time t0 ops /\ im = snd (im_run im_new ops).

Lemma im_reachable_sim : forall t im, im_reachable t im -> exists sp, sim t sp im.
Proof.
  intros t im [ops [t0 [M [-> ->]]]]. exists (snd (run init ops)).
  apply im_run_sim_state; [apply sim_init|exact M].
Qed.

(** ** an expired record that is still in the map = no record *)

(* the map with the record of [k] taken out *)
Definition im_del (k : key) (im : imem) : imem := mkIm (remove k (m im)) (nxt im).

Definition im_exp_passed (im : imem) (now : Z) (k : key) : Prop :=
  exists r, lookup k (m im) = Some r /\ expired now r = true.

Lemma sim_im_del : forall t sp im k, sim t sp im -> im_exp_passed im t k -> sim t sp (im_del k im).
Proof.
  intros t sp im k S [r [Hl Hx]]. pose proof S as [H1 H2 H3].
  constructor; cbn [im_del nxt m]; [exact H1|exact H2|].
  rewrite remove_aremove. apply lazy_sub_drop_key; [exact H3|].
  intros r' Hin. rewrite lookup_alookup in Hl.
  pose proof (lazy_sub_lookup_some t k r _ _ H3 H2 Hl) as Hs.
  rewrite (In_alookup k r' _ H2 Hin) in Hs. injection Hs as ->. exact Hx.
Qed.

(** Whatever the store does next, and forever after: same results with the expired record still
    in the map as with the record removed (both are the results of the contract). *)
Theorem im_expired_eq_deleted : forall t im k ops, im_reachable t im -> im_exp_passed im t k -> mono t ops ->
  fst (im_run im ops) = fst (im_run (im_del k im) ops).
Proof.
  intros t im k ops R E M. destruct (im_reachable_sim t im R) as [sp S].
  rewrite (im_run_sim ops t sp im S M).
  rewrite (im_run_sim ops t sp (im_del k im) (sim_im_del t sp im k S E) M). reflexivity.
Qed.

(* one step, every operation kind: the results are equal *)
Corollary im_expired_eq_deleted_step : forall t im k o, im_reachable t im -> im_exp_passed im t k ->
  snd (im_step im t o) = snd (im_step (im_del k im) t o).
Proof.
  intros t im k o R E.
  pose proof (im_expired_eq_deleted t im k [(t, o)] R E (conj (Z.le_refl t) I)) as H.
  cbn [im_run] in H. destruct (im_step im t o) as [s1 x1], (im_step (im_del k im) t o) as [s2 x2].
  cbn [fst snd] in *. injection H as ->. reflexivity.
Qed.

(** ** WaitForVersionChange's check agrees with the contract, too *)
Lemma im_wait_sim : forall t sp im k v, sim t sp im ->
  snd (im_wait_check t k v im) = wait_now sp t k v /\ sim t sp (fst (im_wait_check t k v im)).
Proof.
  intros t sp im k v S. unfold im_wait_check, wait_now.
  destruct (im_get_sim t sp im k S) as [S1 Hg]. destruct (im_get t k im) as [s1 g]. cbn [fst snd] in *. subst g.
  destruct (find t k sp) as [r|]; [destruct (Nat.eqb (ver r) v)|]; cbn [fst snd]; auto.
Qed.

Corollary im_wait_on_expired_notexist : forall t im k v, im_exp_passed im t k ->
  snd (im_wait_check t k v im) = Some ONotExist.
Proof.
  intros t im k v [r [Hl Hx]]. unfold im_wait_check, im_get. rewrite Hl, Hx. reflexivity.
Qed.

(** ** D6: the store as it was before fix 2f2d445 *)
Definition d6_a : key := [97%N].
Definition d6_w : Z * op := (0%Z, Put d6_a [120%N] (Some 5%Z)).

Lemma legacy_inmem_expiry_refuted :
  (* the record written at 0 expires at 5; the first operation to touch it comes at 10 *)
  (mono 0 [d6_w; (10%Z, Create d6_a [] None)] /\
   fst (leg_run im_new [d6_w; (10%Z, Create d6_a [] None)]) = [ORec (d6_a, [120%N], 1, Some 5%Z); OExist 1] /\
   fst (run init [d6_w; (10%Z, Create d6_a [] None)]) = [ORec (d6_a, [120%N], 1, Some 5%Z); OVer 2]) /\
  (fst (leg_run im_new [d6_w; (10%Z, ListKeys [42%N])]) = [ORec (d6_a, [120%N], 1, Some 5%Z); OKeys [d6_a]] /\
   fst (run init [d6_w; (10%Z, ListKeys [42%N])]) = [ORec (d6_a, [120%N], 1, Some 5%Z); OKeys []]) /\
  (fst (leg_run im_new [d6_w; (10%Z, Delete d6_a)]) = [ORec (d6_a, [120%N], 1, Some 5%Z); OOk] /\
   fst (run init [d6_w; (10%Z, Delete d6_a)]) = [ORec (d6_a, [120%N], 1, Some 5%Z); ONotExist]) /\
  (snd (leg_wait_check d6_a 1 (snd (leg_run im_new [d6_w]))) = None /\
   wait_now (snd (run init [d6_w])) 10 d6_a 1 = Some ONotExist /\
   snd (im_wait_check 10 d6_a 1 (snd (im_run im_new [d6_w]))) = Some ONotExist) /\
  (* so the old code is no refinement of the contract, and an expired record was not equal to a deleted one *)
  (exists ops, mono 0 ops /\ fst (leg_run im_new ops) <> fst (run init ops)) /\
  (exists im k o, im_reachable 10 im /\ im_exp_passed im 10 k /\
     snd (leg_step im 10 o) <> snd (leg_step (im_del k im) 10 o)).
Proof.
  split; [|split; [|split; [|split; [|split]]]].
  - split; [cbn; lia|]. split; vm_compute; reflexivity.
  - split; vm_compute; reflexivity.
  - split; vm_compute; reflexivity.
  - split; [|split]; vm_compute; reflexivity.
  - exists [d6_w; (10%Z, Create d6_a [] None)]. split; [cbn; lia|]. vm_compute. intros H. discriminate H.
  - exists (snd (im_run im_new [d6_w; (10%Z, Get [98%N])])), d6_a, (Delete d6_a). split; [|split].
    + exists [d6_w; (10%Z, Get [98%N])], 0%Z. split; [cbn; lia|]. split; reflexivity.
    + eexists. split; vm_compute; reflexivity.
    + vm_compute. intros H. discriminate H.
Qed.
