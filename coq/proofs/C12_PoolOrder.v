(** C12, part 4: every reachable state of the dispatcher LTS has a heap-ordered slice,
    hence the future a worker pops is one with the smallest fire time. *)
From Coq Require Import List ZArith NArith Bool Lia.
From GL Require Import model.THeap model.TPool proofs.C12_THeap proofs.C12_TPool proofs.C12_HeapOrder.
Import ListNotations.
Open Scope Z_scope.

(* heap order only depends on the slice and on the fire times of the futures in it *)
Lemma heap_ordered_same : forall h h', arr h' = arr h ->
  (forall y, In y (arr h) -> fireT (get (hs h') y) = fireT (get (hs h) y)) ->
  heap_ordered h -> heap_ordered h'.
Proof.
  intros h h' Ha Hf Ho k Hk. rewrite Ha in Hk. unfold ft. rewrite Ha.
  pose proof (par_lt k ltac:(lia)) as Hp.
  rewrite !Hf by (apply nth_In; lia). apply Ho. exact Hk.
Qed.

Lemma step_heap_ordered : forall p l p',
  pool_ok p -> heap_ordered (hp p) -> step p l = Some p' -> heap_ordered (hp p').
Proof.
  intros p l p' Hok Ho Hs. unfold step in Hs.
  destruct (label_time l <? now p); [discriminate|].
  set (q := with_now p (label_time l)) in *.
  assert (Hoq : heap_ordered (hp q)) by exact Ho.
  assert (Hokq : pool_ok q) by (apply with_now_ok; exact Hok).
  clearbody q.
  destruct l as [x d tc nn t|x t|w t|w t|w t|w t]; cbn [label_time] in *.
  - destruct (tc >? t); [discriminate|]. unfold do_call in Hs.
    destruct (was_called q x) eqn:Hc; [discriminate|].
    assert (Hx : ~ In x (arr (hp q))).
    { intros HI. destruct (po_pend q Hokq x HI) as [A _]. congruence. }
    cbn [add_called hp] in Hs.
    set (h1 := mkHeap (arr (hp q)) (set (hs (hp q)) x (mkFut (tc + d) (-1) nn)) (bad (hp q))) in *.
    assert (Ho1 : heap_ordered h1).
    { apply (heap_ordered_same (hp q)); [reflexivity| |exact Hoq].
      intros y Hy. unfold h1. cbn [hs]. rewrite get_set_other; [reflexivity|]. intros ->. contradiction. }
    destruct nn.
    + assert (Hh : hp p' = heap_push h1 x).
      { match type of Hs with Some (if ?c then _ else _) = _ => destruct c end; injection Hs as <-; reflexivity. }
      rewrite Hh. apply heap_ordered_push. exact Ho1.
    + injection Hs as <-. exact Ho1.
  - unfold do_cancel in Hs. destruct (negb (was_called q x)); [discriminate|].
    destruct (idx (get (hs (hp q)) x) <? 0) eqn:Hi; [injection Hs as <-; exact Hoq|].
    set (h1 := mkHeap (arr (hp q)) (set_live (hs (hp q)) x false) (bad (hp q))) in *.
    assert (Ho1 : heap_ordered h1).
    { apply (heap_ordered_same (hp q)); [reflexivity| |exact Hoq].
      intros y Hy. unfold h1. cbn [hs]. apply fireT_set_live. }
    assert (Hx : In x (arr (hp q))).
    { destruct (in_dec N.eq_dec x (arr (hp q))) as [HI|HI]; [exact HI|].
      rewrite (not_pending_idx _ _ (po_idx q Hokq) HI) in Hi. discriminate. }
    assert (Hr : in_range h1 (idx (get (hs (hp q)) x)) = true).
    { apply In_anth in Hx. destruct Hx as [k [Hk E]].
      rewrite <- E, (proj1 (po_idx q Hokq) k Hk). apply in_range_intro; unfold f_len, h1; cbn [arr]; lia. }
    assert (Hh : hp p' = fst (heap_remove h1 (idx (get (hs (hp q)) x)))).
    { match type of Hs with Some (if ?c then _ else _) = _ => destruct c end; injection Hs as <-; reflexivity. }
    rewrite Hh. apply heap_ordered_remove; assumption.
  - destruct (pc_of q w) as [mis| | |] eqn:Hpc; try discriminate. injection Hs as <-.
    destruct (pops q t) eqn:Hp.
    + assert (Hw : (w < length (workers q))%nat) by (apply pc_of_lt; rewrite Hpc; discriminate).
      destruct (do_decide_pop q w mis t Hokq Hw Hp) as [_ [_ [_ [Hx [_ [_ [_ [Hpop _]]]]]]]].
      assert (Hne : arr (hp q) <> []) by (intros E; rewrite E in Hx; destruct Hx).
      pose proof (heap_ordered_pop (hp q) Hne Hoq) as H. rewrite Hpop in H. exact H.
    + destruct (do_decide_nopop q w mis t Hp) as [Hh _]. rewrite Hh. exact Hoq.
  - destruct (pc_of q w); try discriminate. destruct (t <? until); [discriminate|].
    injection Hs as <-. exact Hoq.
  - destruct (pc_of q w); try discriminate. destruct (tokens q >? 0); [|discriminate].
    injection Hs as <-. exact Hoq.
  - destruct (pc_of q w); try discriminate. injection Hs as <-. exact Hoq.
Qed.

Theorem reachable_heap_ordered : forall i m c k tr p,
  run (init_pool i m c k) tr = Some p -> heap_ordered (hp p).
Proof.
  intros i m c k tr p.
  assert (G : forall tr q p, pool_ok q -> heap_ordered (hp q) -> run q tr = Some p -> heap_ordered (hp p)).
  { clear. induction tr as [|l tr IH]; intros q p Hok Ho Hr; cbn [run] in Hr.
    - injection Hr as <-. exact Ho.
    - destruct (step q l) as [q1|] eqn:Es; [|discriminate].
      apply (IH q1 p); [|eapply step_heap_ordered; eauto|exact Hr].
      apply (sf_ok _ _ _ (step_facts_hold q l q1 Hok Es)). }
  apply G; [apply pool_ok_init|apply heap_ordered_empty].
Qed.

Lemma f_len_zero_arr : forall h, f_len h = 0 -> arr h = [].
Proof. intros h. unfold f_len. destruct (arr h); [reflexivity|cbn [length]; lia]. Qed.

(* the future whose callback is started has the smallest fire time of all pending ones *)
Theorem started_is_minimal : forall p l x,
  pool_ok p -> heap_ordered (hp p) -> starts p l = Some x ->
  forall y, In y (pending p) -> fireT (get (hs (hp p)) x) <= fireT (get (hs (hp p)) y).
Proof.
  intros p l x Hok Ho Hs y Hy. unfold starts in Hs.
  destruct l as [| |w t| | |]; try discriminate.
  destruct (pc_of p w) as [mis| | |]; try discriminate.
  destruct (negb (now p >? t) && negb (f_len (hp p) =? 0) && (t >? head_fire (hp p))) eqn:C; [|discriminate].
  apply andb_prop in C. destruct C as [C _]. apply andb_prop in C. destruct C as [_ C].
  apply negb_true_iff, Z.eqb_neq in C.
  assert (Hne : arr (hp p) <> []) by (intros E; apply C; unfold f_len; rewrite E; reflexivity).
  destruct (pop_head (hp p) (po_idx p Hok) Hne) as [_ Hx].
  destruct (heap_pop (hp p)) as [h1 z]. cbn [snd] in Hx.
  destruct (live (get (hs h1) z)); [|discriminate]. injection Hs as <-. subst z.
  apply (head_fire_minimal (hp p) y Ho Hy).
Qed.
