(** C08: the sequential cache model (model/ECache.v) refines the reference LRU
    (spec/LRU.v) for every capacity, key mapping and call sequence; the Clear
    loop never runs out of fuel. *)
From Coq Require Import List ZArith NArith Arith Bool Lia.
From GL Require Import spec.LRU model.ECache.
Import ListNotations.

Section Refinement.
Context {PK K V : Type}.
Context (keqb : K -> K -> bool).
Context (keqb_spec : forall a b, reflect (a = b) (keqb a b)).
Context (kmap : PK -> K).
Context (expires : V -> Z).

Notation entT := (ent K (PK * V)).
Notation omapT := (omap K (PK * V)).

Lemma keqb_refl : forall k, keqb k k = true.
Proof. intros k. destruct (keqb_spec k k) as [_|Hn]; [reflexivity|congruence]. Qed.

Lemma keqb_neq : forall a b, a <> b -> keqb a b = false.
Proof. intros a b Hn. destruct (keqb_spec a b) as [He|_]; [congruence|reflexivity]. Qed.

(** ** abstraction of the ordered map: its entries in insertion order *)

Definition abs_ents (l : list entT) : lru_state PK K V :=
  map (fun e => (e_key e, e_val e)) l.
Definition om_abs (m : omapT) : lru_state PK K V := abs_ents (om_ents m).

(* stamps strictly increase along the list and are all >= lo *)
Fixpoint stamps_from (lo : N) (l : list entT) : Prop :=
  match l with
  | [] => True
  | e :: t => (lo <= e_stamp e)%N /\ stamps_from (N.succ (e_stamp e)) t
  end.

Record om_wf (m : omapT) : Prop := mkWf {
  wf_sorted : stamps_from 0%N (om_ents m);
  wf_below : Forall (fun e : entT => (e_stamp e < om_next m)%N) (om_ents m);
  wf_nodup : NoDup (map (fun e : entT => e_key e) (om_ents m))
}.

Lemma stamps_from_weaken : forall l lo lo',
  (lo' <= lo)%N -> stamps_from lo l -> stamps_from lo' l.
Proof.
  intros [|e t] lo lo' Hle Hs; cbn [stamps_from] in *.
  - exact I.
  - destruct Hs as [H1 H2]. split; [lia|exact H2].
Qed.

Lemma stamps_from_filter : forall (p : entT -> bool) l lo,
  stamps_from lo l -> stamps_from lo (filter p l).
Proof.
  intros p l. induction l as [|e t IH]; intros lo Hs; cbn [filter stamps_from] in *.
  - exact I.
  - destruct Hs as [H1 H2]. destruct (p e).
    + cbn [stamps_from]. split; [exact H1|apply IH; exact H2].
    + apply stamps_from_weaken with (lo := N.succ (e_stamp e)); [lia|apply IH; exact H2].
Qed.

Lemma stamps_from_snoc : forall l lo n k x,
  stamps_from lo l -> Forall (fun e : entT => (e_stamp e < n)%N) l -> (lo <= n)%N ->
  stamps_from lo (l ++ [mkEnt n k x]).
Proof.
  induction l as [|e t IH]; intros lo n k x Hs Hb Hle; cbn [app stamps_from] in *.
  - split; [exact Hle|exact I].
  - destruct Hs as [H1 H2]. inversion Hb as [|? ? Hb1 Hb2]; subst.
    split; [exact H1|]. apply IH; [exact H2|exact Hb2|lia].
Qed.

Lemma ents_get_find : forall k (l : list entT),
  ents_get keqb k l = lru_find keqb k (abs_ents l).
Proof.
  intros k l. induction l as [|e t IH]; cbn [ents_get lru_find abs_ents map].
  - reflexivity.
  - destruct (keqb k (e_key e)); [reflexivity|exact IH].
Qed.

Lemma ents_get_none : forall k (l : list entT),
  ents_get keqb k l = None <-> ~ In k (map (fun e : entT => e_key e) l).
Proof.
  intros k l. induction l as [|e t IH]; cbn [ents_get map In].
  - split; [intros _ []|reflexivity].
  - destruct (keqb_spec k (e_key e)) as [He|Hn].
    + split; [discriminate|]. intros Hc. exfalso. apply Hc. left. congruence.
    + rewrite IH. split.
      * intros H [Hc|Hc]; [congruence|exact (H Hc)].
      * intros H Hc. apply H. right. exact Hc.
Qed.

Lemma ents_get_some_in : forall k x (l : list entT),
  ents_get keqb k l = Some x -> In k (map (fun e : entT => e_key e) l).
Proof.
  intros k x l H. destruct (in_dec (fun a b => match keqb_spec a b with
                                               | ReflectT _ e => left e
                                               | ReflectF _ n => right n end)
                                   k (map (fun e : entT => e_key e) l)) as [Hi|Hn].
  - exact Hi.
  - apply ents_get_none in Hn. congruence.
Qed.

Definition keep (k : K) : entT -> bool := fun e => negb (keqb k (e_key e)).

Lemma abs_filter : forall k (l : list entT),
  abs_ents (filter (keep k) l) = lru_del keqb k (abs_ents l).
Proof.
  intros k l. unfold lru_del, keep. induction l as [|e t IH]; cbn [filter abs_ents map fst].
  - reflexivity.
  - destruct (keqb k (e_key e)); cbn [negb].
    + exact IH.
    + cbn [abs_ents map]. f_equal. exact IH.
Qed.

Lemma filter_notin : forall k (l : list entT),
  ~ In k (map (fun e : entT => e_key e) l) -> filter (keep k) l = l.
Proof.
  intros k l. unfold keep. induction l as [|e t IH]; cbn [filter map In]; intros Hn.
  - reflexivity.
  - rewrite keqb_neq by (intros Hc; apply Hn; left; congruence). cbn [negb].
    f_equal. apply IH. intros Hc. apply Hn. right. exact Hc.
Qed.

Lemma filter_head : forall (e : entT) t,
  NoDup (map (fun e : entT => e_key e) (e :: t)) -> filter (keep (e_key e)) (e :: t) = t.
Proof.
  intros e t Hnd. cbn [filter]. unfold keep at 1. rewrite keqb_refl. cbn [negb].
  apply filter_notin. cbn [map] in Hnd. inversion Hnd; subst. assumption.
Qed.

Lemma get_after_filter : forall k (l : list entT), ents_get keqb k (filter (keep k) l) = None.
Proof.
  intros k l. unfold keep. induction l as [|e t IH]; cbn [filter ents_get].
  - reflexivity.
  - destruct (keqb k (e_key e)) eqn:E; cbn [negb].
    + exact IH.
    + cbn [ents_get]. rewrite E. exact IH.
Qed.

Lemma filter_keys_incl : forall (p : entT -> bool) l x,
  In x (map (fun e : entT => e_key e) (filter p l)) -> In x (map (fun e : entT => e_key e) l).
Proof.
  intros p l x. rewrite !in_map_iff. intros [e [He Hi]]. apply filter_In in Hi.
  exists e. tauto.
Qed.

Lemma nodup_filter_keys : forall (p : entT -> bool) l,
  NoDup (map (fun e : entT => e_key e) l) -> NoDup (map (fun e : entT => e_key e) (filter p l)).
Proof.
  intros p l. induction l as [|e t IH]; cbn [filter map]; intros Hnd.
  - constructor.
  - inversion Hnd as [|? ? Hni Hnd']; subst. destruct (p e).
    + cbn [map]. constructor; [|apply IH; exact Hnd'].
      intros Hc. apply Hni. eapply filter_keys_incl. exact Hc.
    + apply IH. exact Hnd'.
Qed.

Lemma forall_filter : forall (P : entT -> Prop) (p : entT -> bool) l,
  Forall P l -> Forall P (filter p l).
Proof.
  intros P p l H. rewrite Forall_forall in *. intros x Hx. apply filter_In in Hx. apply H. tauto.
Qed.

(** ** the map operations preserve well-formedness and commute with the abstraction *)

Lemma wf_empty : om_wf (@om_empty K (PK * V)).
Proof. constructor; cbn; [exact I|constructor|constructor]. Qed.

Lemma wf_remove : forall m k, om_wf m -> om_wf (om_remove keqb m k).
Proof.
  intros m k [H1 H2 H3]. constructor; cbn [om_remove om_ents om_next].
  - apply stamps_from_filter. exact H1.
  - apply forall_filter. exact H2.
  - apply nodup_filter_keys. exact H3.
Qed.

Lemma abs_remove : forall m k, om_abs (om_remove keqb m k) = lru_del keqb k (om_abs m).
Proof. intros m k. unfold om_abs, om_remove. cbn [om_ents]. apply abs_filter. Qed.

Lemma get_abs : forall m k, om_get keqb m k = lru_find keqb k (om_abs m).
Proof. intros m k. apply ents_get_find. Qed.

Lemma wf_add : forall m k x, om_wf m -> om_wf (om_add keqb m k x).
Proof.
  intros m k x Hwf. unfold om_add. destruct (om_get keqb m k) eqn:Hg; [exact Hwf|].
  destruct Hwf as [H1 H2 H3]. constructor; cbn [om_ents om_next].
  - apply stamps_from_snoc; [exact H1|exact H2|lia].
  - apply Forall_app. split.
    + eapply Forall_impl; [|exact H2]. cbn. intros e He. lia.
    + constructor; [cbn; lia|constructor].
  - rewrite map_app. cbn [map e_key].
    assert (Hni : ~ In k (map (fun e : entT => e_key e) (om_ents m))) by (apply ents_get_none; exact Hg).
    clear - H3 Hni. induction (om_ents m) as [|e t IH]; cbn [map app] in *.
    + constructor; [intros []|constructor].
    + inversion H3 as [|? ? Ha Hb]; subst. constructor.
      * rewrite in_app_iff. intros [Hc|[Hc|[]]]; [exact (Ha Hc)|]. apply Hni. left. congruence.
      * apply IH; [exact Hb|]. intros Hc. apply Hni. right. exact Hc.
Qed.

Lemma abs_add_fresh : forall m k x,
  om_get keqb m k = None -> om_abs (om_add keqb m k x) = om_abs m ++ [(k, x)].
Proof.
  intros m k x Hg. unfold om_add. rewrite Hg. unfold om_abs, abs_ents. cbn [om_ents].
  rewrite map_app. reflexivity.
Qed.

Lemma len_abs : forall m : omapT, om_len m = length (om_abs m).
Proof. intros m. unfold om_len, om_abs, abs_ents. rewrite map_length. reflexivity. Qed.

Lemma first_head : forall m : omapT,
  om_first m = match om_ents m with [] => None | e :: _ => Some (e_key e) end.
Proof.
  intros m. unfold om_first, it_next, it_peek, it_start.
  destruct (om_ents m) as [|e t]; cbn [find]; [reflexivity|].
  replace (0 <=? e_stamp e)%N with true by (symmetry; apply N.leb_le; lia). reflexivity.
Qed.

(** ** the four sections against the reference LRU *)

Lemma lookup_hit : forall it pk x,
  om_wf it -> lru_find keqb (kmap pk) (om_abs it) = Some x ->
  exists it', sec_lookup keqb kmap it pk = Some (snd x, it') /\ om_wf it' /\
              om_abs it' = lru_del keqb (kmap pk) (om_abs it) ++ [(kmap pk, x)].
Proof.
  intros it pk x Hwf Hf. unfold sec_lookup. rewrite get_abs, Hf.
  eexists. split; [reflexivity|]. split.
  - apply wf_add, wf_remove. exact Hwf.
  - rewrite abs_add_fresh, abs_remove; [reflexivity|].
    unfold om_get, om_remove. cbn [om_ents]. apply get_after_filter.
Qed.

Lemma lookup_miss : forall it pk,
  lru_find keqb (kmap pk) (om_abs it) = None -> sec_lookup keqb kmap it pk = None.
Proof. intros it pk Hf. unfold sec_lookup. rewrite get_abs, Hf. reflexivity. Qed.

(* the second section of GetOrCreate when the key is not resident *)
Lemma insert_spec : forall cap it pk v,
  om_wf it -> om_get keqb it (kmap pk) = None ->
  let l' := om_abs it ++ [(kmap pk, (pk, v))] in
  let '(it', d) := sec_insert keqb kmap cap it pk v in
  om_wf it' /\
  if (cap <? length l')%nat then
    match l' with
    | (_, x) :: t => om_abs it' = t /\ d = [x]
    | [] => False
    end
  else om_abs it' = l' /\ d = [].
Proof.
  intros cap it pk v Hwf Hg l'. unfold sec_insert.
  pose proof (wf_add it (kmap pk) (pk, v) Hwf) as Hwf1.
  pose proof (abs_add_fresh it (kmap pk) (pk, v) Hg) as Habs1.
  set (it1 := om_add keqb it (kmap pk) (pk, v)) in *.
  rewrite len_abs, Habs1. fold l'.
  assert (Hl' : l' = abs_ents (om_ents it1)) by (symmetry; exact Habs1).
  destruct (cap <? length l')%nat eqn:Hc.
  - rewrite first_head. rewrite Hl'.
    destruct (om_ents it1) as [|e t] eqn:He.
    + exfalso. cbn [abs_ents map] in Hl'. subst l'. apply app_eq_nil in Hl'.
      destruct Hl' as [_ Hl']. discriminate Hl'.
    + unfold om_get. rewrite He. cbn [ents_get]. rewrite keqb_refl.
      split; [apply wf_remove; exact Hwf1|].
      cbn [abs_ents map]. split; [|reflexivity].
      unfold om_abs, om_remove. cbn [om_ents]. rewrite He.
      change (fun e0 : entT => negb (keqb (e_key e) (e_key e0))) with (keep (e_key e)).
      rewrite filter_head; [reflexivity|]. rewrite <- He. apply (wf_nodup _ Hwf1).
  - split; [exact Hwf1|]. split; [exact Habs1|reflexivity].
Qed.

Lemma remove_spec : forall it pk,
  om_wf it ->
  let '(it', b, d) := sec_remove keqb kmap it pk in
  om_wf it' /\
  match lru_find keqb (kmap pk) (om_abs it) with
  | Some x => om_abs it' = lru_del keqb (kmap pk) (om_abs it) /\ b = true /\ d = [x]
  | None => om_abs it' = om_abs it /\ b = false /\ d = []
  end.
Proof.
  intros it pk Hwf. unfold sec_remove. rewrite get_abs.
  destruct (lru_find keqb (kmap pk) (om_abs it)) as [x|].
  - split; [apply wf_remove; exact Hwf|]. rewrite abs_remove. auto.
  - auto.
Qed.

Lemma clear_loop_all : forall (ents : list entT) fuel next pos removed dels,
  stamps_from pos ents -> NoDup (map (fun e : entT => e_key e) ents) -> length ents < fuel ->
  clear_loop keqb fuel (mkOMap ents next) pos removed dels =
  (mkOMap [] next, removed + length ents, dels ++ map (fun e : entT => e_val e) ents, false).
Proof.
  induction ents as [|e t IH]; intros fuel next pos removed dels Hs Hnd Hf.
  - destruct fuel as [|f]; [cbn in Hf; lia|]. cbn [clear_loop it_has_next it_peek om_ents find].
    cbn [length map]. rewrite Nat.add_0_r, app_nil_r. reflexivity.
  - destruct fuel as [|f]; [cbn in Hf; lia|]. cbn [stamps_from] in Hs. destruct Hs as [Hs1 Hs2].
    assert (Hp : it_peek (mkOMap (e :: t) next) pos = Some e).
    { unfold it_peek. cbn [om_ents find].
      replace (pos <=? e_stamp e)%N with true by (symmetry; apply N.leb_le; exact Hs1). reflexivity. }
    cbn [clear_loop]. unfold it_has_next, it_next. rewrite Hp.
    unfold om_remove. cbn [om_ents om_next].
    change (fun e0 : entT => negb (keqb (e_key e) (e_key e0))) with (keep (e_key e)).
    rewrite filter_head by exact Hnd.
    rewrite IH.
    + cbn [length map]. rewrite <- app_assoc. cbn [app]. f_equal. f_equal. f_equal. lia.
    + exact Hs2.
    + cbn [map] in Hnd. inversion Hnd; assumption.
    + cbn [length] in Hf. lia.
Qed.

Lemma clear_spec : forall it : omapT,
  om_wf it ->
  sec_clear keqb it = (mkOMap [] (om_next it), length (om_abs it),
                       map (fun e : entT => e_val e) (om_ents it), false).
Proof.
  intros [ents next] [H1 H2 H3]. cbn [om_ents om_next] in *. unfold sec_clear, it_start.
  rewrite clear_loop_all; [|exact H1|exact H3|unfold om_len; cbn [om_ents]; lia].
  unfold om_abs, abs_ents. cbn [om_ents]. rewrite map_length. reflexivity.
Qed.

Lemma wf_cleared : forall n, om_wf (mkOMap (@nil entT) n).
Proof. intros n. constructor; cbn; [exact I|constructor|constructor]. Qed.

(** ** simulation, operation by operation *)

Definition absC (c : ecache) : lru_state PK K V := om_abs (ec_items c).

Lemma get_sim : forall c pk res,
  om_wf (ec_items c) ->
  lru_get keqb kmap (ec_cap c) (absC c) pk res
    = (absC (fst (ec_get keqb kmap c pk res)), snd (ec_get keqb kmap c pk res))
  /\ om_wf (ec_items (fst (ec_get keqb kmap c pk res)))
  /\ ec_cap (fst (ec_get keqb kmap c pk res)) = ec_cap c.
Proof.
  intros c pk res Hwf. unfold lru_get, ec_get, absC.
  destruct (lru_find keqb (kmap pk) (om_abs (ec_items c))) as [[pk0 v0]|] eqn:Hf.
  - destruct (lookup_hit _ _ _ Hwf Hf) as [it' [Hl [Hwf' Habs]]]. rewrite Hl.
    cbn [fst snd ec_items ec_cap]. rewrite Habs. auto.
  - rewrite (lookup_miss _ _ Hf). destruct res as [v|].
    + assert (Hg : om_get keqb (ec_items c) (kmap pk) = None) by (rewrite get_abs; exact Hf).
      pose proof (insert_spec (ec_cap c) (ec_items c) pk v Hwf Hg) as Hi.
      destruct (sec_insert keqb kmap (ec_cap c) (ec_items c) pk v) as [it' d].
      cbn [fst snd ec_items ec_cap]. cbn zeta in Hi. destruct Hi as [Hwf' Hi].
      destruct (ec_cap c <? length (om_abs (ec_items c) ++ [(kmap pk, (pk, v))]))%nat.
      * destruct (om_abs (ec_items c) ++ [(kmap pk, (pk, v))]) as [|[k1 [pkd vd]] t]; [contradiction|].
        destruct Hi as [Ha Hd]. subst d. rewrite Ha. auto.
      * destruct Hi as [Ha Hd]. subst d. rewrite Ha. auto.
    + cbn [fst snd]. auto.
Qed.

Lemma remove_sim : forall c pk,
  om_wf (ec_items c) ->
  lru_remove keqb kmap (absC c) pk
    = (absC (fst (ec_remove keqb kmap c pk)), snd (ec_remove keqb kmap c pk))
  /\ om_wf (ec_items (fst (ec_remove keqb kmap c pk)))
  /\ ec_cap (fst (ec_remove keqb kmap c pk)) = ec_cap c.
Proof.
  intros c pk Hwf. unfold lru_remove, ec_remove, absC.
  pose proof (remove_spec (ec_items c) pk Hwf) as Hr.
  destruct (sec_remove keqb kmap (ec_items c) pk) as [[it' b] d].
  cbn [fst snd ec_items ec_cap]. destruct Hr as [Hwf' Hr].
  destruct (lru_find keqb (kmap pk) (om_abs (ec_items c))) as [[pk0 v0]|].
  - destruct Hr as [Ha [Hb Hd]]. subst. rewrite Ha. auto.
  - destruct Hr as [Ha [Hb Hd]]. subst. rewrite Ha. auto.
Qed.

Lemma clear_sim : forall c,
  om_wf (ec_items c) ->
  lru_clear (absC c)
    = (absC (fst (fst (ec_clear keqb c))), snd (fst (ec_clear keqb c)))
  /\ om_wf (ec_items (fst (fst (ec_clear keqb c))))
  /\ ec_cap (fst (fst (ec_clear keqb c))) = ec_cap c
  /\ snd (ec_clear keqb c) = false.
Proof.
  intros c Hwf. unfold lru_clear, ec_clear, absC. rewrite (clear_spec _ Hwf).
  cbn [fst snd ec_items ec_cap].
  split; [|split; [apply wf_cleared|split; reflexivity]].
  f_equal. f_equal. unfold dels_ev, om_abs, abs_ents. rewrite !map_map. reflexivity.
Qed.

Lemma eget_sim : forall c pk now r1 r2,
  om_wf (ec_items c) ->
  lru_eget keqb kmap expires (ec_cap c) (absC c) pk now r1 r2
    = (absC (fst (ec_eget keqb kmap expires c pk now r1 r2)),
       snd (ec_eget keqb kmap expires c pk now r1 r2))
  /\ om_wf (ec_items (fst (ec_eget keqb kmap expires c pk now r1 r2)))
  /\ ec_cap (fst (ec_eget keqb kmap expires c pk now r1 r2)) = ec_cap c.
Proof.
  intros c pk now r1 r2 Hwf. unfold lru_eget, ec_eget.
  destruct (get_sim c pk r1 Hwf) as [E1 [W1 C1]]. rewrite E1.
  destruct (ec_get keqb kmap c pk r1) as [c1 [res1 e1]]. cbn [fst snd] in *.
  destruct res1 as [v| | |]; cbn [fst snd]; auto.
  destruct (expires v <? now)%Z; cbn [fst snd]; auto.
  destruct (remove_sim c1 pk W1) as [E2 [W2 C2]]. rewrite E2.
  destruct (ec_remove keqb kmap c1 pk) as [c2 [res2 e2]]. cbn [fst snd] in *.
  set (r' := match e1 with [] => r1 | _ :: _ => r2 end).
  destruct (get_sim c2 pk r' W2) as [E3 [W3 C3]].
  rewrite <- C1, <- C2, E3.
  destruct (ec_get keqb kmap c2 pk r') as [c3 [res3 e3]]. cbn [fst snd] in *.
  split; [reflexivity|split; [exact W3|congruence]].
Qed.

Lemma step_sim : forall c o,
  om_wf (ec_items c) ->
  lru_step keqb kmap expires (ec_cap c) (absC c) o
    = (absC (fst (fst (ec_step keqb kmap expires c o))), snd (fst (ec_step keqb kmap expires c o)))
  /\ om_wf (ec_items (fst (fst (ec_step keqb kmap expires c o))))
  /\ ec_cap (fst (fst (ec_step keqb kmap expires c o))) = ec_cap c
  /\ snd (ec_step keqb kmap expires c o) = false.
Proof.
  intros c o Hwf. destruct o as [pk res|pk| |pk now r1 r2]; cbn [lru_step ec_step fst snd].
  - destruct (get_sim c pk res Hwf) as [E [W C]]. auto.
  - destruct (remove_sim c pk Hwf) as [E [W C]]. auto.
  - apply clear_sim. exact Hwf.
  - destruct (eget_sim c pk now r1 r2 Hwf) as [E [W C]]. auto.
Qed.

Lemma run_sim : forall ops c,
  om_wf (ec_items c) ->
  lru_run keqb kmap expires (ec_cap c) (absC c) ops
    = (fst (fst (ec_run keqb kmap expires c ops)),
       absC (snd (fst (ec_run keqb kmap expires c ops))))
  /\ snd (ec_run keqb kmap expires c ops) = false
  /\ om_wf (ec_items (snd (fst (ec_run keqb kmap expires c ops))))
  /\ ec_cap (snd (fst (ec_run keqb kmap expires c ops))) = ec_cap c.
Proof.
  induction ops as [|o t IH]; intros c Hwf; cbn [lru_run ec_run fst snd].
  - auto.
  - destruct (step_sim c o Hwf) as [E [W [C F]]]. rewrite E.
    destruct (ec_step keqb kmap expires c o) as [[c' x] oof]. cbn [fst snd] in *. subst oof.
    destruct (IH c' W) as [E' [F' [W' C']]]. rewrite <- C, E'.
    destruct (ec_run keqb kmap expires c' t) as [[xs cf] oof']. cbn [fst snd] in *.
    subst oof'. split; [reflexivity|split; [reflexivity|split; [exact W'|congruence]]].
Qed.

(** the refinement theorem *)
Theorem ecache_refines_lru : forall (cap : nat) (ops : list (lru_op PK V)),
  fst (fst (ec_run keqb kmap expires (ec_new cap) ops))
    = fst (lru_run keqb kmap expires cap [] ops).
Proof.
  intros cap ops. destruct (run_sim ops (ec_new cap) wf_empty) as [E _].
  cbn [ec_new ec_cap] in E. unfold absC in E. cbn in E. rewrite E. reflexivity.
Qed.

Theorem ecache_final_state : forall (cap : nat) (ops : list (lru_op PK V)),
  ec_resident (snd (fst (ec_run keqb kmap expires (ec_new cap) ops)))
    = snd (lru_run keqb kmap expires cap [] ops).
Proof.
  intros cap ops. destruct (run_sim ops (ec_new cap) wf_empty) as [E _].
  cbn [ec_new ec_cap] in E. unfold absC in E. cbn in E. rewrite E. reflexivity.
Qed.

Theorem ecache_never_out_of_fuel : forall (cap : nat) (ops : list (lru_op PK V)),
  snd (ec_run keqb kmap expires (ec_new cap) ops) = false.
Proof. intros cap ops. apply (run_sim ops (ec_new cap) wf_empty). Qed.

End Refinement.
