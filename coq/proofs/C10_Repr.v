(** C10, layer L1 <-> L2, part 3: the representation relation [repr] between a
    pointer-model state and a chain, and the simulation of every operation. *)
From Coq Require Import List ZArith Arith Bool Lia.
From GL Require Import lib.IMapBase model.IMap model.Chain spec.OMap
  proofs.C10_Assoc proofs.C10_Cells proofs.C10_Next proofs.C10_R2 proofs.C10_ChainSim
  proofs.C10_Heap proofs.C10_L1.
Import ListNotations.
Open Scope Z_scope.

(** * The relation *)

Definition lk (zs : list (nat * cell)) (x st : nat) : Prop := In (st, x) (sid zs).

Record repr (s : imap) (c : chain) (zs : list (nat * cell)) : Prop := mkRepr {
  rp_cells : cells c = map snd zs;
  rp_wst : wst (heap_of s) (head s) (pool s) zs;
  rp_last : List.last (ids_of zs) 0%nat = last s;
  rp_vals : trel (lk zs) (vals s) (cvals c);
  rp_iters : trel (lk zs) (iters s) (citers c)
}.

(* what the pointer layer needs to know about a chain state; follows from [R2] *)
Record cinv (c : chain) : Prop := mkCinv {
  ci_nodup : NoDup (map c_stamp (cells c));
  ci_vals : forall k st, In (k, st) (cvals c) -> exists cl, In cl (cells c) /\ c_stamp cl = st /\ c_st cl = StOk;
  ci_iters : forall i st, In (i, st) (citers c) -> exists cl, In cl (cells c) /\ c_stamp cl = st /\ 1 <= c_ref cl
}.

Lemma cfind_some_in s l c : cfind s l = Ok c -> In c l /\ c_stamp c = s.
Proof.
  unfold cfind. destruct (find (at_stamp s) l) as [c'|] eqn:E; [|discriminate]. intros [= <-].
  apply find_some in E. destruct E as [Hin Hs]. apply at_stamp_true in Hs. auto.
Qed.

Lemma cells_from_nodup r es : forall i, NoDup (map c_stamp (cells_from r i es)).
Proof.
  induction es as [|e t IH]; intros i; cbn [cells_from].
  - cbn. constructor; [intros []|constructor].
  - rewrite map_app. assert (Hs : forall x, In x (map c_stamp (cell_at r i e)) -> x = i).
    { intros x Hx. apply in_map_iff in Hx. destruct Hx as (c0 & <- & Hc0).
      exact (proj1 (Forall_forall _ _) (cell_at_stamp r i e) c0 Hc0). }
    assert (Ht : forall x, In x (map c_stamp (cells_from r (S i) t)) -> (S i <= x)%nat).
    { intros x Hx. apply in_map_iff in Hx. destruct Hx as (c0 & <- & Hc0).
      pose proof (proj1 (Forall_forall _ _) (cells_from_stamps r t (S i)) c0 Hc0) as Hb. cbn beta in Hb. lia. }
    clear Hs.
    assert (Hone : forall c0, c_stamp c0 = i -> NoDup (map c_stamp ([c0] ++ cells_from r (S i) t))).
    { intros c0 Hc0. cbn [map app]. constructor; [|apply IH]. intros Hin. apply Ht in Hin. lia. }
    rewrite <- map_app. unfold cell_at. destruct (e_live e); [apply Hone; reflexivity|].
    destruct (0 <? r i); [apply Hone; reflexivity|]. cbn [app]. apply IH.
Qed.

Lemma cinv_of_R2 c o : R2 c o -> cinv c.
Proof.
  intros H. constructor.
  - rewrite (r2_cells _ _ H). apply cells_from_nodup.
  - intros k st Hin. rewrite (r2_vals _ _ H) in Hin. apply in_rev, vals_from_in in Hin.
    destruct Hin as (_ & e & He & Hl & Hk). rewrite Nat.sub_0_r in He.
    pose proof (cfind_present (cnt (citers c)) (entries o) st e He (or_introl Hl)) as Hf.
    rewrite <- (r2_cells _ _ H) in Hf. apply cfind_some_in in Hf. destruct Hf as [Hc Hs].
    eexists. split; [exact Hc|]. split; [exact Hs|]. unfold the_cell. rewrite Hl. reflexivity.
  - intros i st Hin.
    assert (Hr : 1 <= cnt (citers c) st) by (eapply cnt_in; exact Hin).
    pose proof (irel_stamp_le _ _ _ _ _ (r2_iters _ _ H) Hin) as Hle.
    destruct (Nat.eq_dec st (length (entries o))) as [Hend|Hne].
    + pose proof (cfind_end' (cnt (citers c)) (entries o) st Hend) as Hf.
      rewrite <- (r2_cells _ _ H) in Hf. apply cfind_some_in in Hf. destruct Hf as [Hc Hs].
      eexists. split; [exact Hc|]. split; [exact Hs|]. exact Hr.
    + destruct (nth_error (entries o) st) as [e|] eqn:He; [|apply nth_error_None in He; lia].
      assert (Hpos : 0 < cnt (citers c) st) by lia.
      pose proof (cfind_present (cnt (citers c)) (entries o) st e He (or_intror Hpos)) as Hf.
      rewrite <- (r2_cells _ _ H) in Hf. apply cfind_some_in in Hf. destruct Hf as [Hc Hs].
      eexists. split; [exact Hc|]. split; [exact Hs|]. unfold the_cell. destruct (e_live e); exact Hr.
Qed.

(** * Tables *)

Lemma trel_both {A B} (R : A -> B -> Prop) la lb k : trel R la lb ->
  match alookup k la, alookup k lb with
  | Some a, Some b => R a b
  | None, None => True
  | _, _ => False
  end.
Proof.
  induction 1 as [|[ka va] [kb vb] ta tb [H HR] _ IH]; cbn [alookup]; [exact I|].
  cbn [fst snd] in H, HR. subst kb. destruct (ka =? k); [exact HR|exact IH].
Qed.

Lemma trel_length {A B} (R : A -> B -> Prop) la lb : trel R la lb -> length la = length lb.
Proof. induction 1; cbn; auto. Qed.

Lemma stamps_of_cells zs : stamps_of zs = map c_stamp (map snd zs).
Proof. unfold stamps_of. rewrite map_map. reflexivity. Qed.

Lemma in_stamps_sid zs st : In st (stamps_of zs) -> exists y, In (st, y) (sid zs).
Proof.
  intros H. rewrite <- sid_fst in H. apply in_map_iff in H. destruct H as ([st' y] & <- & Hin). eauto.
Qed.

(* entries whose stamp survives keep their node *)
Lemma lk_transfer zs zs' x st :
  NoDup (stamps_of zs) -> incl (sid zs') (sid zs) -> lk zs x st -> In st (stamps_of zs') -> lk zs' x st.
Proof.
  intros Hnd Hincl Hlk Hin. destruct (in_stamps_sid _ _ Hin) as (y & Hy).
  assert (y = x) by (eapply stamp_unique; [exact Hnd|apply Hincl; exact Hy|exact Hlk]). subst y. exact Hy.
Qed.

Lemma trel_transfer zs zs' (t1 t2 : list (Z * nat)) :
  NoDup (stamps_of zs) -> incl (sid zs') (sid zs) -> trel (lk zs) t1 t2 ->
  (forall k st, In (k, st) t2 -> In st (stamps_of zs')) -> trel (lk zs') t1 t2.
Proof.
  intros Hnd Hincl Ht. induction Ht as [|[ka va] [kb vb] ta tb [H HR] _ IH]; intros Hall; [constructor|].
  constructor.
  - split; [exact H|]. cbn [fst snd] in *. eapply lk_transfer; eauto. apply (Hall kb). left. reflexivity.
  - apply IH. intros k st Hin. apply (Hall k). right. exact Hin.
Qed.

Lemma trel_transfer_aset zs zs' (t1 t2 : list (Z * nat)) i x' st' :
  NoDup (stamps_of zs) -> incl (sid zs') (sid zs) -> trel (lk zs) t1 t2 ->
  (forall k st, In (k, st) (aset i st' t2) -> In st (stamps_of zs')) -> lk zs' x' st' ->
  trel (lk zs') (aset i x' t1) (aset i st' t2).
Proof.
  intros Hnd Hincl Ht. induction Ht as [|[ka va] [kb vb] ta tb [H HR] _ IH]; intros Hall Hnew; [constructor|].
  cbn [fst snd] in H, HR. subst kb. cbn [aset map fst] in *. constructor.
  - destruct (ka =? i); cbn [fst snd]; split; auto.
    eapply lk_transfer; eauto. apply (Hall ka). left. reflexivity.
  - apply IH; [|exact Hnew]. intros k st Hin. apply (Hall k). right. exact Hin.
Qed.

Lemma cinv_stamps_vals c zs : cinv c -> cells c = map snd zs ->
  forall k st, In (k, st) (cvals c) -> In st (stamps_of zs).
Proof.
  intros Hc Hcells k st Hin. destruct (ci_vals _ Hc k st Hin) as (cl & Hcl & Hs & _).
  rewrite stamps_of_cells, <- Hcells, <- Hs. apply in_map. exact Hcl.
Qed.

Lemma cinv_stamps_iters c zs : cinv c -> cells c = map snd zs ->
  forall k st, In (k, st) (citers c) -> In st (stamps_of zs).
Proof.
  intros Hc Hcells k st Hin. destruct (ci_iters _ Hc k st Hin) as (cl & Hcl & Hs & _).
  rewrite stamps_of_cells, <- Hcells, <- Hs. apply in_map. exact Hcl.
Qed.

(* the cell a linked stamp denotes *)
Lemma lk_cell zs x st : lk zs x st -> exists cl, In (x, cl) zs /\ c_stamp cl = st.
Proof. intros H. apply sid_in in H. exact H. Qed.

Lemma cell_unique zs x cl cl' :
  NoDup (stamps_of zs) -> In (x, cl) zs -> In cl' (map snd zs) -> c_stamp cl' = c_stamp cl -> cl' = cl.
Proof.
  intros Hnd Hin Hin' Hs. apply in_map_iff in Hin'. destruct Hin' as ([y c0] & Heq & Hy). cbn in Heq. subst c0.
  apply in_split in Hin. destruct Hin as (z1 & z2 & ->).
  rewrite stamps_app in Hnd. cbn [stamps_of map snd] in Hnd.
  apply in_app_iff in Hy. destruct Hy as [Hy|[[= _ ->]|Hy]]; [exfalso|reflexivity|exfalso];
    apply NoDup_remove_2 in Hnd; apply Hnd; rewrite in_app_iff; [left|right]; rewrite <- Hs;
    apply (in_map (fun z => c_stamp (snd z)) _ (y, cl')); exact Hy.
Qed.

Lemma repr_iter_cell s c zs i p st :
  repr s c zs -> cinv c -> alookup i (iters s) = Some p -> alookup i (citers c) = Some st ->
  exists cl, In (p, cl) zs /\ c_stamp cl = st /\ 1 <= c_ref cl.
Proof.
  intros Hr Hc Hp Hst. pose proof (trel_both _ _ _ i (rp_iters _ _ _ Hr)) as Hb. rewrite Hp, Hst in Hb.
  destruct (lk_cell _ _ _ Hb) as (cl & Hin & Hs). exists cl. split; [exact Hin|]. split; [exact Hs|].
  destruct (ci_iters _ Hc i st (alookup_in _ _ _ Hst)) as (cl' & Hcl' & Hs' & Hr').
  rewrite (rp_cells _ _ _ Hr) in Hcl'.
  assert (cl' = cl).
  { eapply cell_unique; [exact (co_stamps _ _ (ws_core _ _ _ _ (rp_wst _ _ _ Hr)))|exact Hin|exact Hcl'|congruence]. }
  subst cl'. exact Hr'.
Qed.

Lemma cfind_zs zs x cl : NoDup (stamps_of zs) -> In (x, cl) zs -> cfind (c_stamp cl) (map snd zs) = Ok cl.
Proof. intros Hnd Hin. apply in_split in Hin. destruct Hin as (z1 & z2 & ->). apply cfind_split. exact Hnd. Qed.

Lemma iters_other_side s c zs i st : repr s c zs -> alookup i (citers c) = Some st ->
  exists p, alookup i (iters s) = Some p.
Proof.
  intros Hr Hst. pose proof (trel_both _ _ _ i (rp_iters _ _ _ Hr)) as Hb. rewrite Hst in Hb.
  destruct (alookup i (iters s)) as [p|]; [eauto|contradiction].
Qed.

(** * Len, Get *)

Lemma sim1_len s c zs : repr s c zs -> i_len s = length (cvals c).
Proof. intros Hr. unfold i_len. apply (trel_length _ _ _ (rp_vals _ _ _ Hr)). Qed.

Lemma sim1_get s c zs k c' out : repr s c zs -> cinv c -> c_get c k = Ok (c', out) ->
  i_get s k = Ok (s, out) /\ c' = c.
Proof.
  intros Hr Hc Hget. unfold c_get in Hget. unfold i_get.
  pose proof (trel_both _ _ _ k (rp_vals _ _ _ Hr)) as Hb.
  destruct (alookup k (cvals c)) as [st|] eqn:Est; destruct (alookup k (vals s)) as [x|] eqn:Ex; try contradiction.
  - destruct (lk_cell _ _ _ Hb) as (cl & Hin & Hs).
    pose proof (ws_core _ _ _ _ (rp_wst _ _ _ Hr)) as Hcore.
    rewrite (rp_cells _ _ _ Hr), <- Hs, (cfind_zs _ _ _ (co_stamps _ _ Hcore) Hin) in Hget. cbn [bind] in Hget.
    injection Hget as <- <-.
    destruct (in_zs_pay _ _ _ _ Hcore Hin) as (n & Hn & _ & _ & Hkv). cbn [fst snd] in *.
    rewrite (get_ok _ _ _ Hn). cbn [bind].
    destruct (ci_vals _ Hc k st (alookup_in _ _ _ Est)) as (cl' & Hcl' & Hs' & Hok).
    rewrite (rp_cells _ _ _ Hr) in Hcl'.
    assert (cl' = cl) by (eapply cell_unique; [exact (co_stamps _ _ Hcore)|exact Hin|exact Hcl'|congruence]). subst cl'.
    destruct Hkv as [_ Hv]; [rewrite Hok; discriminate|]. rewrite Hv. auto.
  - injection Hget as <- <-. auto.
Qed.

(** * Iterator, HasNext, Next, Close *)

Lemma sim1_iterator s c zs i c' out : repr s c zs -> cinv c' -> c_iterator c i = Ok (c', out) ->
  exists s' zs', i_iterator s i = Ok (s', out) /\ repr s' c' zs'.
Proof.
  intros Hr Hc' Hit. unfold c_iterator in Hit.
  pose proof (rp_wst _ _ _ Hr) as Hw. pose proof (ws_core _ _ _ _ Hw) as Hcore.
  rewrite (rp_cells _ _ _ Hr) in Hit.
  destruct zs as [|[x0 cl0] zt] eqn:Ezs; [discriminate|]. cbn [map snd hd_error deref bind] in Hit.
  rewrite <- Ezs in *. assert (Hin : In (x0, cl0) zs) by (rewrite Ezs; left; reflexivity).
  assert (Hhd : head s = x0) by (pose proof (ws_head _ _ _ _ Hw) as Hh; rewrite Ezs in Hh; cbn in Hh; congruence).
  subst x0.
  destruct (park_sim _ _ _ _ (head s) cl0 Hw Hin) as (n & zs' & Hn & Hrf & Hst & Hcupd & Hw' & Ht' & Hin').
  replace (cl0 :: map snd zt) with (map snd zs) in Hit by (rewrite Ezs; reflexivity).
  rewrite Hcupd in Hit. injection Hit as <- <-.
  unfold i_iterator. rewrite (get_ok _ _ _ Hn). cbn [bind].
  eexists. exists zs'. split; [reflexivity|].
  constructor; cbn [cells cvals citers heap_of head pool last vals iters].
  - reflexivity.
  - exact Hw'.
  - rewrite (wt_last _ _ _ _ Ht'). exact (rp_last _ _ _ Hr).
  - eapply trel_transfer; [exact (co_stamps _ _ Hcore)|exact (wt_sid _ _ _ _ Ht')|exact (rp_vals _ _ _ Hr)|].
    intros k st Hk. apply (cinv_stamps_vals _ zs' Hc' eq_refl k st Hk).
  - apply trel_cons.
    + apply sid_in. eexists. split; [exact Hin'|reflexivity].
    + eapply trel_transfer; [exact (co_stamps _ _ Hcore)|exact (wt_sid _ _ _ _ Ht')|exact (rp_iters _ _ _ Hr)|].
      intros k st Hk. apply (cinv_stamps_iters _ zs' Hc' eq_refl k st). right. exact Hk.
Qed.

Lemma sim1_hasnext s c zs i c' out : repr s c zs -> cinv c -> cinv c' -> c_hasnext c i = Ok (c', out) ->
  exists s' zs', i_hasnext s i = Ok (s', out) /\ repr s' c' zs'.
Proof.
  intros Hr Hc Hc' Hop. unfold c_hasnext in Hop.
  destruct (alookup i (citers c)) as [st|] eqn:Est; [|discriminate]. cbn [deref bind] in Hop.
  destruct (iters_other_side _ _ _ _ _ Hr Est) as (p & Hp).
  destruct (repr_iter_cell _ _ _ _ _ _ Hr Hc Hp Est) as (cl & Hin & Hs & Hr1).
  pose proof (rp_wst _ _ _ Hr) as Hw. pose proof (ws_core _ _ _ _ Hw) as Hcore.
  destruct (c_getvalue (cells c) st) as [[cs1 st1]| |] eqn:Egv; [|discriminate|discriminate]. cbn [bind] in Hop.
  rewrite (rp_cells _ _ _ Hr), <- Hs in Egv.
  destruct (getvalue_sim _ _ _ _ _ _ _ _ Hw Hin Hr1 Egv) as (h' & hd' & pl' & p' & zs' & Hi & Hcs & Hw' & Ht' & (c2 & Hin2 & Hs2 & _)).
  subst cs1. pose proof (ws_core _ _ _ _ Hw') as Hcore'.
  rewrite <- Hs2, (cfind_zs _ _ _ (co_stamps _ _ Hcore') Hin2) in Hop. cbn [bind] in Hop. injection Hop as <- <-.
  destruct (in_zs_pay _ _ _ _ Hcore' Hin2) as (n & Hn & Hnst & _). cbn [fst snd] in *.
  unfold i_hasnext. rewrite Hp. cbn [deref bind]. unfold core_of. rewrite Hi. cbn [bind fst].
  rewrite (get_ok _ _ _ Hn). cbn [bind with_core]. rewrite Hnst.
  eexists. exists zs'. split; [reflexivity|].
  constructor; cbn [cells cvals citers heap_of head pool last vals iters].
  - reflexivity.
  - exact Hw'.
  - rewrite (wt_last _ _ _ _ Ht'). exact (rp_last _ _ _ Hr).
  - eapply trel_transfer; [exact (co_stamps _ _ Hcore)|exact (wt_sid _ _ _ _ Ht')|exact (rp_vals _ _ _ Hr)|].
    intros k st0 Hk. apply (cinv_stamps_vals _ zs' Hc' eq_refl k st0 Hk).
  - eapply trel_transfer_aset; [exact (co_stamps _ _ Hcore)|exact (wt_sid _ _ _ _ Ht')|exact (rp_iters _ _ _ Hr)| |].
    + intros k st0 Hk. apply (cinv_stamps_iters _ zs' Hc' eq_refl k st0 Hk).
    + apply sid_in. eauto.
Qed.

Lemma sim1_itnext s c zs i c' out : repr s c zs -> cinv c -> cinv c' -> c_itnext c i = Ok (c', out) ->
  exists s' zs', i_itnext s i = Ok (s', out) /\ repr s' c' zs'.
Proof.
  intros Hr Hc Hc' Hop. unfold c_itnext in Hop.
  destruct (alookup i (citers c)) as [st|] eqn:Est; [|discriminate]. cbn [deref bind] in Hop.
  destruct (iters_other_side _ _ _ _ _ Hr Est) as (p & Hp).
  destruct (repr_iter_cell _ _ _ _ _ _ Hr Hc Hp Est) as (cl & Hin & Hs & Hr1).
  pose proof (rp_wst _ _ _ Hr) as Hw. pose proof (ws_core _ _ _ _ Hw) as Hcore.
  destruct (c_getvalue (cells c) st) as [[cs1 st1]| |] eqn:Egv; [|discriminate|discriminate]. cbn [bind] in Hop.
  rewrite (rp_cells _ _ _ Hr), <- Hs in Egv.
  destruct (getvalue_sim _ _ _ _ _ _ _ _ Hw Hin Hr1 Egv) as (h1 & hd1 & pl1 & p1 & zs1 & Hi1 & Hcs & Hw1 & Ht1 & (c2 & Hin2 & Hs2 & Hr2)).
  subst cs1. pose proof (ws_core _ _ _ _ Hw1) as Hcore1.
  rewrite <- Hs2, (cfind_zs _ _ _ (co_stamps _ _ Hcore1) Hin2) in Hop. cbn [bind] in Hop.
  destruct (c_next (cfuel (map snd zs1)) (map snd zs1) (c_stamp c2)) as [[cs2 st2]| |] eqn:Enx; [|discriminate|discriminate].
  cbn [bind] in Hop. injection Hop as <- <-.
  destruct (next_sim _ (fuel_of h1) _ _ _ _ _ _ _ _ (fuel_ok _ _ Hcore1) Hw1 Hin2 Hr2 Enx)
    as (h2 & hd2 & pl2 & p2 & zs2 & Hi2 & Hcs2 & Hw2 & Ht2 & (c3 & Hin3 & Hs3 & _)).
  subst cs2.
  destruct (in_zs_pay _ _ _ _ Hcore1 Hin2) as (n & Hn & Hnst & _ & Hkv). cbn [fst snd] in *.
  unfold i_itnext. rewrite Hp. cbn [deref bind]. unfold core_of. rewrite Hi1. cbn [bind fst].
  rewrite (get_ok _ _ _ Hn). cbn [bind]. rewrite Hi2. cbn [bind with_core]. rewrite Hnst.
  assert (Hout : (if negb (nstate_eqb (c_st c2) StLast) then Some (n_key n, n_val n) else None)
               = (if negb (nstate_eqb (c_st c2) StLast) then Some (c_key c2, c_val c2) else None)).
  { destruct (nstate_eqb (c_st c2) StLast) eqn:E; cbn [negb]; [reflexivity|].
    destruct Hkv as [-> ->]; [intros E'; rewrite E' in E; discriminate|reflexivity]. }
  rewrite Hout.
  eexists. exists zs2. split; [reflexivity|].
  pose proof (wtr_trans _ _ _ _ _ _ Ht1 Ht2) as Ht.
  constructor; cbn [cells cvals citers heap_of head pool last vals iters].
  - reflexivity.
  - exact Hw2.
  - rewrite (wt_last _ _ _ _ Ht). exact (rp_last _ _ _ Hr).
  - eapply trel_transfer; [exact (co_stamps _ _ Hcore)|exact (wt_sid _ _ _ _ Ht)|exact (rp_vals _ _ _ Hr)|].
    intros k st0 Hk. apply (cinv_stamps_vals _ zs2 Hc' eq_refl k st0 Hk).
  - eapply trel_transfer_aset; [exact (co_stamps _ _ Hcore)|exact (wt_sid _ _ _ _ Ht)|exact (rp_iters _ _ _ Hr)| |].
    + intros k st0 Hk. apply (cinv_stamps_iters _ zs2 Hc' eq_refl k st0 Hk).
    + apply sid_in. eauto.
Qed.

Lemma sim1_close s c zs i c' out : repr s c zs -> cinv c -> cinv c' -> c_close c i = Ok (c', out) ->
  exists s' zs', i_close s i = Ok (s', out) /\ repr s' c' zs'.
Proof.
  intros Hr Hc Hc' Hop. unfold c_close in Hop.
  destruct (alookup i (citers c)) as [st|] eqn:Est; [|discriminate]. cbn [deref bind] in Hop.
  destruct (iters_other_side _ _ _ _ _ Hr Est) as (p & Hp).
  destruct (repr_iter_cell _ _ _ _ _ _ Hr Hc Hp Est) as (cl & Hin & Hs & Hr1).
  pose proof (rp_wst _ _ _ Hr) as Hw. pose proof (ws_core _ _ _ _ Hw) as Hcore.
  destruct (c_release (cells c) st) as [cs1| |] eqn:Erel; [|discriminate|discriminate]. cbn [bind] in Hop.
  injection Hop as <- <-.
  rewrite (rp_cells _ _ _ Hr), <- Hs in Erel.
  destruct (release_sim _ _ _ _ _ _ _ Hw Hin Hr1 Erel) as (h1 & hd1 & pl1 & zs1 & Hi1 & Hcs & Hw1 & Ht1).
  subst cs1.
  unfold i_close. rewrite Hp. cbn [deref bind]. unfold core_of. rewrite Hi1. cbn [bind with_core].
  eexists. exists zs1. split; [reflexivity|].
  constructor; cbn [cells cvals citers heap_of head pool last vals iters].
  - reflexivity.
  - exact Hw1.
  - rewrite (wt_last _ _ _ _ Ht1). exact (rp_last _ _ _ Hr).
  - eapply trel_transfer; [exact (co_stamps _ _ Hcore)|exact (wt_sid _ _ _ _ Ht1)|exact (rp_vals _ _ _ Hr)|].
    intros k st0 Hk. apply (cinv_stamps_vals _ zs1 Hc' eq_refl k st0 Hk).
  - eapply trel_transfer; [exact (co_stamps _ _ Hcore)|exact (wt_sid _ _ _ _ Ht1)|apply trel_aremove; exact (rp_iters _ _ _ Hr)|].
    intros k st0 Hk. apply (cinv_stamps_iters _ zs1 Hc' eq_refl k st0 Hk).
Qed.

(** * Remove *)

Lemma sim1_remove s c zs k c' out : repr s c zs -> cinv c -> cinv c' -> c_remove c k = Ok (c', out) ->
  exists s' zs', i_remove s k = Ok (s', out) /\ repr s' c' zs'.
Proof.
  intros Hr Hc Hc' Hop. unfold c_remove in Hop. unfold i_remove.
  pose proof (trel_both _ _ _ k (rp_vals _ _ _ Hr)) as Hb.
  destruct (alookup k (cvals c)) as [st|] eqn:Est; destruct (alookup k (vals s)) as [x|] eqn:Ex; try contradiction.
  - destruct (lk_cell _ _ _ Hb) as (cl & Hin & Hs).
    pose proof (rp_wst _ _ _ Hr) as Hw. pose proof (ws_core _ _ _ _ Hw) as Hcore.
    destruct (c_delete (cells c) st) as [cs1| |] eqn:Edel; [|discriminate|discriminate]. cbn [bind] in Hop.
    injection Hop as <- <-.
    rewrite (rp_cells _ _ _ Hr), <- Hs in Edel.
    destruct (delete_wst _ _ _ _ _ _ _ Hw Hin Edel) as (h2 & nh & zs2 & n' & Hdel & Hcs & Hw2 & Ht2 & Hn' & Hr' & Hput).
    subst cs1.
    (* the removed entry's cell is an Ok cell *)
    destruct (ci_vals _ Hc k st (alookup_in _ _ _ Est)) as (cl' & Hcl' & Hs' & Hok).
    rewrite (rp_cells _ _ _ Hr) in Hcl'.
    assert (cl' = cl) by (eapply cell_unique; [exact (co_stamps _ _ Hcore)|exact Hin|exact Hcl'|congruence]). subst cl'.
    rewrite Hdel. cbn [bind]. rewrite (get_ok _ _ _ Hn'). cbn [bind]. rewrite Hr'.
    eexists. exists zs2. split; [reflexivity|].
    constructor; cbn [cells cvals citers heap_of head pool last vals iters].
    + reflexivity.
    + destruct (Z.eqb_spec (c_ref cl) 0) as [Hz|Hnz]; [apply Hput; [rewrite Hok; discriminate|exact Hz]|exact Hw2].
    + rewrite (wt_last _ _ _ _ Ht2). exact (rp_last _ _ _ Hr).
    + eapply trel_transfer; [exact (co_stamps _ _ Hcore)|exact (wt_sid _ _ _ _ Ht2)|apply trel_aremove; exact (rp_vals _ _ _ Hr)|].
      intros k0 st0 Hk. apply (cinv_stamps_vals _ zs2 Hc' eq_refl k0 st0 Hk).
    + eapply trel_transfer; [exact (co_stamps _ _ Hcore)|exact (wt_sid _ _ _ _ Ht2)|exact (rp_iters _ _ _ Hr)|].
      intros k0 st0 Hk. apply (cinv_stamps_iters _ zs2 Hc' eq_refl k0 st0 Hk).
  - injection Hop as <- <-. exists s, zs. split; [reflexivity|exact Hr].
Qed.

(** * Add *)

Lemma remove_nth_spec {A} (l : list A) : forall n x,
  NoDup l -> nth_error l n = Some x ->
  ~ In x (remove_nth n l) /\ incl (remove_nth n l) l /\ NoDup (remove_nth n l).
Proof.
  induction l as [|y t IH]; intros [|n] x Hnd Hn; cbn in *; try discriminate.
  - injection Hn as ->. inversion Hnd; subst. repeat split; auto. apply incl_tl, incl_refl.
  - inversion Hnd as [|? ? Hy Hnd']; subst. destruct (IH n x Hnd' Hn) as (H1 & H2 & H3). repeat split.
    + intros [->|Hin]; [|contradiction]. apply Hy. eapply nth_error_In. exact Hn.
    + intros z [->|Hz]; [left; reflexivity|right; apply H2; exact Hz].
    + constructor; [|exact H3]. intros Hin. apply Hy. apply H2. exact Hin.
Qed.

Lemma core_ids_valid h zs y : core h zs -> In y (ids_of zs) -> (y < length h)%nat.
Proof.
  intros Hc Hy. destruct (dseg_in_valid _ _ _ _ y (co_dseg _ _ Hc) Hy) as (m & Hm).
  apply nth_error_Some. congruence.
Qed.

(* im.pool.Get(): whatever the choice, a node that is not on the list and has refCnt 0 *)
Lemma pool_get_spec h zs pl choice new h0 pl0 :
  core h zs -> poolok h zs pl -> pool_get h pl choice = (new, h0, pl0) ->
  (exists m, nth_error h0 new = Some m /\ n_ref m = 0) /\
  ~ In new (ids_of zs) /\ ~ In new pl0 /\
  (forall w, (w < length h)%nat -> nth_error h0 w = nth_error h w) /\
  poolok h0 zs pl0.
Proof.
  intros Hcore [Hnd Hf] Hget.
  assert (Hfresh : pool_get h pl None = (new, h0, pl0) ->
    (exists m, nth_error h0 new = Some m /\ n_ref m = 0) /\ ~ In new (ids_of zs) /\ ~ In new pl0 /\
    (forall w, (w < length h)%nat -> nth_error h0 w = nth_error h w) /\ poolok h0 zs pl0).
  { cbn [pool_get]. intros [= <- <- <-]. split; [exists zero_node; split; [apply nth_app_new|reflexivity]|].
    split; [intros Hin; apply (core_ids_valid _ _ _ Hcore) in Hin; lia|].
    split.
    { intros Hin. destruct (proj1 (Forall_forall _ _) Hf _ Hin) as (_ & m & Hm & _).
      assert (length h < length h)%nat by (apply nth_error_Some; congruence). lia. }
    split; [intros w Hw; apply nth_error_app1; exact Hw|].
    split; [exact Hnd|]. apply Forall_forall. intros q Hq.
    destruct (proj1 (Forall_forall _ _) Hf _ Hq) as (Hni & m & Hm & Hr). split; [exact Hni|].
    exists m. split; [apply nth_app_old; exact Hm|exact Hr]. }
  destruct choice as [n|]; [|exact (Hfresh Hget)].
  cbn [pool_get] in Hget. destruct (nth_error pl n) as [x|] eqn:En; [|exact (Hfresh Hget)].
  injection Hget as <- <- <-.
  destruct (remove_nth_spec pl n x Hnd En) as (H1 & H2 & H3).
  destruct (proj1 (Forall_forall _ _) Hf x (nth_error_In _ _ En)) as (Hni & m & Hm & Hr).
  split; [eauto|]. split; [exact Hni|]. split; [exact H1|]. split; [reflexivity|].
  split; [exact H3|]. apply Forall_forall. intros q Hq. apply (proj1 (Forall_forall _ _) Hf). apply H2. exact Hq.
Qed.

Lemma core_append h h' zi a la la' new lnew na na' m' :
  core h (zi ++ [(a, la)]) ->
  ~ In new (ids_of (zi ++ [(a, la)])) ->
  NoDup (stamps_of (zi ++ [(a, la'); (new, lnew)])) ->
  (forall w, In w (ids_of zi) -> nth_error h' w = nth_error h w) ->
  nth_error h a = Some na -> nth_error h' a = Some na' ->
  n_prev na' = n_prev na -> n_next na' = Some new -> pay h' (a, la') ->
  nth_error h' new = Some m' -> n_prev m' = Some a -> n_next m' = None -> pay h' (new, lnew) ->
  core h' (zi ++ [(a, la'); (new, lnew)]).
Proof.
  intros [H1 H2 H3 H4] Hnew Hst Hfr Hna Hna' Hp Hx Hpa Hm' Hmp Hmx Hpn.
  rewrite ids_app in H1, H3, Hnew. cbn [ids_of map fst] in H1, H3, Hnew. fold (ids_of zi) in *.
  assert (Ha : ~ In a (ids_of zi)).
  { intros Hin. apply NoDup_remove_2 in H1. apply H1. rewrite app_nil_r. exact Hin. }
  constructor.
  - rewrite ids_app. cbn [ids_of map fst]. fold (ids_of zi).
    change (ids_of zi ++ [a; new]) with (ids_of zi ++ [a] ++ [new]). rewrite app_assoc.
    apply nodup_snoc; assumption.
  - exact Hst.
  - rewrite ids_app. cbn [ids_of map fst]. fold (ids_of zi).
    change (ids_of zi ++ [a; new]) with (ids_of zi ++ [a] ++ [new]). rewrite app_assoc.
    apply dseg_app. split.
    + cbn [head_or]. eapply (dseg_relink_last h h' (ids_of zi) a None None (Some new) na na'); eauto.
    + rewrite last_or_snoc. cbn [dseg]. exists m'. auto.
  - apply Forall_app in H4. destruct H4 as [P1 _]. apply Forall_app. split.
    + eapply Forall_pay_frame; eauto.
    + constructor; [exact Hpa|]. constructor; [exact Hpn|constructor].
Qed.

Lemma hd_error_app_ne {A} (l1 l2 : list A) : l1 <> [] -> hd_error (l1 ++ l2) = hd_error l1.
Proof. destruct l1; [congruence|reflexivity]. Qed.

Definition add_heap (h0 : heap) (a new : nat) (k v : Z) : heap :=
  upd (upd (upd (upd (upd (upd (upd h0 new (set_prev (Some a))) new (set_next None)) new (set_st StLast))
    a (set_next (Some new))) a (set_st StOk)) a (set_key k)) a (set_val v).

Lemma putval_ok h0 a new k v na m :
  nth_error h0 a = Some na -> n_st na = StLast -> nth_error h0 new = Some m -> a <> new ->
  n_putval h0 a k v new = Ok (add_heap h0 a new k v, new).
Proof.
  intros Ha Hst Hm Hne. unfold n_putval. rewrite (get_ok _ _ _ Ha). cbn [bind]. rewrite Hst.
  rewrite (wr_ok _ _ _ _ Hm). cbn [bind]. fold (add_heap h0 a new k v).
  assert (Hn' : nth_error (add_heap h0 a new k v) a = Some (set_val v (set_key k (set_st StOk (set_next (Some new) na))))).
  { unfold add_heap. nthupd. reflexivity. }
  rewrite (get_ok _ _ _ Hn'). cbn [bind]. reflexivity.
Qed.

Lemma sim1_add s c zs k v choice c' out : repr s c zs -> cinv c' -> c_add c k v = Ok (c', out) ->
  exists s' zs', i_add s k v choice = Ok (s', out) /\ repr s' c' zs'.
Proof.
  intros Hr Hc' Hop. unfold c_add in Hop. unfold i_add.
  pose proof (trel_both _ _ _ k (rp_vals _ _ _ Hr)) as Hb.
  destruct (alookup k (cvals c)) as [st|] eqn:Est; destruct (alookup k (vals s)) as [x|] eqn:Ex; try contradiction.
  - injection Hop as <- <-. exists s, zs. split; [reflexivity|exact Hr].
  - pose proof (rp_wst _ _ _ Hr) as Hw. pose proof (ws_core _ _ _ _ Hw) as Hcore.
    destruct (list_snoc_cases zs) as [->|(zi & [a la] & ->)].
    { pose proof (ws_head _ _ _ _ Hw) as Hh. discriminate. }
    rewrite (rp_cells _ _ _ Hr), map_app in Hop. cbn [map snd] in Hop. rewrite clast_app in Hop. cbn [bind] in Hop.
    destruct (c_st la) eqn:Ela; try discriminate. injection Hop as <- <-.
    assert (Hlast : last s = a).
    { rewrite <- (rp_last _ _ _ Hr), ids_app. cbn [ids_of map fst]. apply last_last. }
    destruct (pool_get (heap_of s) (pool s) choice) as [[new h0] pl0] eqn:Epg.
    destruct (pool_get_spec _ _ _ _ _ _ _ Hcore (ws_pool _ _ _ _ Hw) Epg) as ((m & Hm & Hmr) & Hnew_ids & Hnew_pl & Hext & Hpool0).
    assert (Hain : In (a, la) (zi ++ [(a, la)])) by (apply in_app_iff; right; left; reflexivity).
    destruct (in_zs_pay _ _ _ _ Hcore Hain) as (na & Hna & Hnst & Hnrf & _). cbn [fst snd] in *.
    assert (Hna0 : nth_error h0 a = Some na).
    { rewrite Hext; [exact Hna|]. apply (core_ids_valid _ _ _ Hcore). apply (in_map fst) in Hain. exact Hain. }
    assert (Hane : a <> new) by (intros ->; apply Hnew_ids; apply (in_map fst) in Hain; exact Hain).
    rewrite Hlast. rewrite (putval_ok h0 a new k v na m Hna0) by congruence. cbn [bind].
    set (hF := add_heap h0 a new k v).
    assert (HFa : nth_error hF a = Some (set_val v (set_key k (set_st StOk (set_next (Some new) na))))).
    { unfold hF, add_heap. nthupd. reflexivity. }
    assert (HFn : nth_error hF new = Some (set_st StLast (set_next None (set_prev (Some a) m)))).
    { unfold hF, add_heap. nthupd. reflexivity. }
    assert (HFo : forall w, w <> a -> w <> new -> nth_error hF w = nth_error h0 w).
    { intros w H1 H2. unfold hF, add_heap. nthupd. reflexivity. }
    rewrite (get_ok _ _ _ HFn). cbn [bind set_st set_next set_prev n_prev deref].
    set (la' := mkCell (c_stamp la) StOk (c_ref la) k v).
    set (lnew := mkCell (S (c_stamp la)) StLast 0 0 0) in *.
    set (zs' := zi ++ [(a, la'); (new, lnew)]).
    assert (Hcells' : cupd (c_stamp la) (fun c0 => mkCell (c_stamp c0) StOk (c_ref c0) k v) (map snd zi ++ [la]) ++ [lnew]
                      = map snd zs').
    { pose proof (cupd_split zi [] a la (co_stamps _ _ Hcore) (fun c0 => mkCell (c_stamp c0) StOk (c_ref c0) k v) eq_refl) as Hcu.
      rewrite map_app in Hcu. cbn [map snd] in Hcu. rewrite Hcu. unfold zs'. rewrite !map_app, <- app_assoc. reflexivity. }
    rewrite Hcells' in Hc' |- *.
    eexists. exists zs'. split; [reflexivity|].
    assert (Hids_zi : forall w, In w (ids_of zi) -> w <> a /\ w <> new /\ (w < length (heap_of s))%nat).
    { intros w Hw0. assert (Hwin : In w (ids_of (zi ++ [(a, la)]))) by (rewrite ids_app; apply in_app_iff; left; exact Hw0).
      split; [|split].
      - pose proof (co_ids _ _ Hcore) as Hnd. rewrite ids_app in Hnd. cbn [ids_of map fst] in Hnd.
        eapply nodup_mid_l; eassumption.
      - intros ->. contradiction.
      - apply (core_ids_valid _ _ _ Hcore). exact Hwin. }
    assert (Hcore' : core hF zs').
    { unfold zs'. eapply (core_append (heap_of s) hF zi a la la' new lnew na _ _ Hcore Hnew_ids); try exact HFa; try exact HFn; try reflexivity; try exact Hna.
      - pose proof (ci_nodup _ Hc') as Hn. cbn [cells] in Hn. rewrite <- stamps_of_cells in Hn. exact Hn.
      - intros w Hw0. destruct (Hids_zi w Hw0) as (H1 & H2 & H3). rewrite HFo by assumption. apply Hext. exact H3.
      - unfold pay. cbn [fst snd]. eexists. split; [exact HFa|]. cbn. split; [reflexivity|]. split; [exact Hnrf|]. intros _. split; reflexivity.
      - unfold pay. cbn [fst snd]. eexists. split; [exact HFn|]. cbn. split; [reflexivity|]. split; [exact Hmr|]. intros E. congruence. }
    constructor; cbn [cells cvals citers heap_of head pool last vals iters].
    + reflexivity.
    + constructor.
      * exact Hcore'.
      * destruct Hpool0 as [Hnd0 Hf0]. split; [exact Hnd0|]. apply Forall_forall. intros q Hq.
        destruct (proj1 (Forall_forall _ _) Hf0 q Hq) as (Hni & mq & Hmq & Hrq).
        assert (Hqa : q <> a) by (intros ->; apply Hni; apply (in_map fst) in Hain; exact Hain).
        assert (Hqn : q <> new) by (intros ->; contradiction).
        split.
        -- unfold zs'. rewrite ids_app in Hni |- *. cbn [ids_of map fst] in Hni |- *. rewrite in_app_iff in Hni |- *. cbn [In] in *. assert (new <> q) by congruence. tauto.
        -- exists mq. rewrite HFo by assumption. auto.
      * pose proof (ws_head _ _ _ _ Hw) as Hh. unfold zs'. rewrite ids_app in Hh |- *. cbn [ids_of map fst] in *.
        destruct (ids_of zi); cbn in *; exact Hh.
      * intros w c0 Hwc. unfold zs' in Hwc. apply in_app_iff in Hwc. destruct Hwc as [Hwc|[[= <- <-]|[[= <- <-]|[]]]].
        -- apply (ws_refs _ _ _ _ Hw w c0). apply in_app_iff. left. exact Hwc.
        -- cbn. apply (ws_refs _ _ _ _ Hw a la Hain).
        -- cbn. lia.
    + unfold zs'. rewrite ids_app. cbn [ids_of map fst]. change [a; new] with ([a] ++ [new]). rewrite app_assoc. apply last_last.
    + assert (Hmono : forall x0 st0, lk (zi ++ [(a, la)]) x0 st0 -> lk zs' x0 st0).
      { intros x0 st0 Hl. unfold lk, zs' in *. rewrite sid_app in Hl |- *. cbn [sid map fst snd] in *.
        apply in_app_iff in Hl. apply in_app_iff. destruct Hl as [Hl|[Hl|[]]]; [left; exact Hl|right; left; exact Hl]. }
      apply trel_cons.
      * unfold lk, zs'. rewrite sid_app. apply in_app_iff. right. left. reflexivity.
      * eapply trel_mono; [exact Hmono|exact (rp_vals _ _ _ Hr)].
    + assert (Hmono : forall x0 st0, lk (zi ++ [(a, la)]) x0 st0 -> lk zs' x0 st0).
      { intros x0 st0 Hl. unfold lk, zs' in *. rewrite sid_app in Hl |- *. cbn [sid map fst snd] in *.
        apply in_app_iff in Hl. apply in_app_iff. destruct Hl as [Hl|[Hl|[]]]; [left; exact Hl|right; left; exact Hl]. }
      eapply trel_mono; [exact Hmono|exact (rp_iters _ _ _ Hr)].
Qed.
