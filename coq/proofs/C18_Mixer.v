(** C18 lemmas about the mixer model (model/Mixer.v): facts that hold in every
    state, and the refinement of the merge specification (spec/Merge.v). *)
From Coq Require Import List ZArith Bool Lia.
From GL Require Import model.Mixer spec.Merge.
Import ListNotations.
Open Scope Z_scope.

(** * Facts that hold in every state, for arbitrary sources *)

Lemma select_state_decided : forall sf m, m_st (select_state sf m) <> St0.
Proof.
  intros sf m. unfold select_state.
  destruct (m_st m) eqn:Hst; cbn [m_st]; try congruence.
  destruct (negb (d_load (desc_load (m_src1 m))) && negb (d_load (desc_load (m_src2 m)))); [discriminate|].
  destruct (negb (d_load (desc_load (m_src1 m)))); [discriminate|].
  destruct (negb (d_load (desc_load (m_src2 m))) || sf _ _); discriminate.
Qed.

Lemma select_state_fixed : forall sf m, m_st m <> St0 -> select_state sf m = m.
Proof.
  intros sf m Hst. unfold select_state. destruct (m_st m); congruence.
Qed.

Lemma select_state_idem : forall sf m,
  select_state sf (select_state sf m) = select_state sf m.
Proof.
  intros sf m. apply select_state_fixed, select_state_decided.
Qed.

(* HasNext twice: same answer, and the second call changes nothing *)
Lemma mx_has_next_idem : forall sf m,
  mx_has_next sf (fst (mx_has_next sf m)) = mx_has_next sf m.
Proof.
  intros sf m. unfold mx_has_next. cbn [fst].
  rewrite select_state_idem. reflexivity.
Qed.

(* Next after HasNext = Next without HasNext *)
Lemma mx_next_after_has_next : forall sf m,
  mx_next sf (fst (mx_has_next sf m)) = mx_next sf m.
Proof.
  intros sf m. unfold mx_has_next, mx_next. cbn [fst].
  rewrite select_state_idem. reflexivity.
Qed.

(* HasNext says exactly whether the following Next yields an element *)
Lemma mx_has_next_agrees_next : forall sf m,
  snd (mx_has_next sf m) = snd (snd (mx_next sf m)).
Proof.
  intros sf m. unfold mx_has_next, mx_next. cbn [snd].
  pose proof (select_state_decided sf m) as Hd.
  destruct (m_st (select_state sf m)); cbn; congruence.
Qed.

(* a failed Next returns the zero value and does not change the decided state *)
Lemma mx_next_not_ok : forall sf m,
  snd (snd (mx_next sf m)) = false ->
  mx_next sf m = (select_state sf m, (0, false)) /\ m_st (select_state sf m) = St3.
Proof.
  intros sf m. unfold mx_next.
  pose proof (select_state_decided sf m) as Hd.
  destruct (m_st (select_state sf m)); cbn; intros H; try discriminate; try congruence.
  split; reflexivity.
Qed.

(* once exhausted, the mixer stays exhausted until Reset *)
Lemma mx_exhausted_sticky : forall sf m,
  m_st m = St3 ->
  mx_has_next sf m = (m, false) /\ mx_next sf m = (m, (0, false)).
Proof.
  intros sf m H3. unfold mx_has_next, mx_next.
  rewrite select_state_fixed by congruence. rewrite H3. split; reflexivity.
Qed.

(** * Refinement of the merge specification *)

(* what a source descriptor still has to deliver: the look-ahead, then the
   items of the rest that come with ok = true *)
Definition live (d : desc) : list Z :=
  (if d_load d then [d_e d] else []) ++ live_items (s_rest (d_it d)).

(* the source is the list-backed iterator over [its]; only its last item may
   be a ghost *)
Definition src_ok (its : list (Z * bool)) (rs : bool) (s : src) : Prop :=
  s_orig s = its /\ s_rst s = rs /\ tail_ok (s_rest s) = true.

(* a decided state is the decision [merge_step] takes *)
Definition st_ok (sf : Z -> Z -> bool) (m : mixer) (r1 r2 : list Z) : Prop :=
  match m_st m with
  | St0 => True
  | St1 => d_load (m_src1 m) = true /\
           merge_step sf r1 r2 = Some (O1, d_e (m_src1 m), live_items (s_rest (d_it (m_src1 m))), r2)
  | St2 => d_load (m_src2 m) = true /\
           merge_step sf r1 r2 = Some (O2, d_e (m_src2 m), r1, live_items (s_rest (d_it (m_src2 m))))
  | St3 => merge_step sf r1 r2 = None
  end.

Definition sim (sf : Z -> Z -> bool) (its1 its2 : list (Z * bool)) (rs1 rs2 : bool)
               (m : mixer) (s : mspec) : Prop :=
  src_ok its1 rs1 (d_it (m_src1 m)) /\
  src_ok its2 rs2 (d_it (m_src2 m)) /\
  sp_l1 s = live_items its1 /\
  sp_l2 s = live_items its2 /\
  live (m_src1 m) = sp_r1 s /\
  live (m_src2 m) = sp_r2 s /\
  st_ok sf m (sp_r1 s) (sp_r2 s).

Lemma tail_ok_wrap_items : forall l, tail_ok (wrap_items l) = true.
Proof.
  induction l as [|x t IH]; [reflexivity|].
  cbn [wrap_items map tail_ok]. destruct t as [|y t']; [reflexivity|].
  cbn [map snd andb]. exact IH.
Qed.

Lemma live_items_wrap_items : forall l, live_items (wrap_items l) = l.
Proof.
  unfold live_items. induction l as [|x t IH]; [reflexivity|].
  cbn [wrap_items map filter snd fst]. f_equal. exact IH.
Qed.

Lemma sim_init : forall sf its1 its2 rs1 rs2,
  tail_ok its1 = true -> tail_ok its2 = true ->
  sim sf its1 its2 rs1 rs2 (mx_init (src_of its1 rs1) (src_of its2 rs2))
      (spec_init (live_items its1) (live_items its2)).
Proof.
  intros sf its1 its2 rs1 rs2 H1 H2. unfold sim, src_ok, live, st_ok. cbn.
  repeat split; assumption.
Qed.

Ltac break_sim :=
  match goal with
  | H : sim _ _ _ _ _ ?m ?s |- _ =>
      destruct m as [[[o1 rest1 b1] ld1 e1] [[o2 rest2 b2] ld2 e2] st];
      destruct s as [sl1 sl2 r1 r2];
      unfold sim, src_ok, live, st_ok in H; cbn in H;
      destruct H as ((Ho1 & Hb1 & Hk1) & (Ho2 & Hb2 & Hk2) & Hs1 & Hs2 & Hl1 & Hl2 & Hst)
  end.

(* the shapes of a rest whose only possible ghost is its last item *)
Ltac break_rest rest Hk :=
  let v := fresh "v" in let k := fresh "k" in let t := fresh "t" in
  destruct rest as [|[v k] [|? t]];
  [ | destruct k | cbn in Hk; apply andb_prop in Hk; destruct Hk as [-> Hk] ].

Lemma select_state_sim : forall sf its1 its2 rs1 rs2 m s,
  sim sf its1 its2 rs1 rs2 m s -> sim sf its1 its2 rs1 rs2 (select_state sf m) s.
Proof.
  intros sf its1 its2 rs1 rs2 m s H. break_sim.
  destruct st; unfold sim, src_ok, live, st_ok, select_state; cbn;
    try tauto.
  break_rest rest1 Hk1; break_rest rest2 Hk2;
    destruct ld1, ld2; unfold live_items in *; cbn in *; subst r1 r2;
    try (destruct (sf _ _) eqn:Hsf; cbn; rewrite ?Hsf);
    repeat split; try assumption; try reflexivity.
Qed.

(* one call: same result, and the relation is kept.  Reset is only covered
   when both sources can be reset (the specification's premise) *)
Lemma step_sim : forall sf its1 its2 rs1 rs2 m s c,
  tail_ok its1 = true -> tail_ok its2 = true ->
  sim sf its1 its2 rs1 rs2 m s ->
  (c = CReset -> rs1 = true /\ rs2 = true) ->
  snd (mx_step sf m c) = snd (spec_step sf s c) /\
  sim sf its1 its2 rs1 rs2 (fst (mx_step sf m c)) (fst (spec_step sf s c)).
Proof.
  intros sf its1 its2 rs1 rs2 m s c Ht1 Ht2 H Hc. destruct c.
  - (* HasNext *)
    unfold mx_step, mx_has_next.
    pose proof (select_state_sim _ _ _ _ _ _ _ H) as H'.
    pose proof (select_state_decided sf m) as Hd.
    clear H. cbn [fst snd]. split; [|exact H'].
    revert H' Hd. generalize (select_state sf m). intros m' H Hd.
    break_sim. cbn in *.
    destruct st; cbn; try congruence.
    + destruct Hst as [_ ->]. reflexivity.
    + destruct Hst as [_ ->]. reflexivity.
    + rewrite Hst. reflexivity.
  - (* Next *)
    unfold mx_step, mx_next.
    pose proof (select_state_sim _ _ _ _ _ _ _ H) as H'.
    pose proof (select_state_decided sf m) as Hd.
    clear H. revert H' Hd. generalize (select_state sf m). intros m' H Hd.
    break_sim. cbn in *.
    destruct st; cbn; try congruence.
    + destruct Hst as [-> Hms]. rewrite Hms. cbn.
      split; [reflexivity|]. unfold sim, src_ok, live, st_ok. cbn. tauto.
    + destruct Hst as [-> Hms]. rewrite Hms. cbn.
      split; [reflexivity|]. unfold sim, src_ok, live, st_ok. cbn. tauto.
    + rewrite Hst. cbn. split; [reflexivity|].
      unfold sim, src_ok, live, st_ok. cbn. tauto.
  - (* Reset *)
    destruct (Hc eq_refl) as [-> ->].
    break_sim. subst b1 b2.
    unfold mx_step, mx_reset, desc_reset, src_reset. cbn.
    split; [reflexivity|].
    unfold sim, src_ok, live, st_ok. cbn. subst o1 o2 sl1 sl2. tauto.
Qed.

Lemma run_sim : forall sf its1 its2 rs1 rs2 cs m s,
  tail_ok its1 = true -> tail_ok its2 = true ->
  sim sf its1 its2 rs1 rs2 m s ->
  (In CReset cs -> rs1 = true /\ rs2 = true) ->
  fst (mx_run sf m cs) = fst (spec_run sf s cs) /\
  sim sf its1 its2 rs1 rs2 (snd (mx_run sf m cs)) (snd (spec_run sf s cs)).
Proof.
  intros sf its1 its2 rs1 rs2 cs. induction cs as [|c t IH]; intros m s Ht1 Ht2 H Hr.
  - cbn. split; [reflexivity | exact H].
  - cbn [mx_run spec_run].
    assert (Hc : c = CReset -> rs1 = true /\ rs2 = true).
    { intros ->. apply Hr. left. reflexivity. }
    destruct (step_sim sf its1 its2 rs1 rs2 m s c Ht1 Ht2 H Hc) as [Ho Hs].
    destruct (mx_step sf m c) as [m' o]. destruct (spec_step sf s c) as [s' o'].
    cbn [fst snd] in Ho, Hs. subst o'.
    assert (Hr' : In CReset t -> rs1 = true /\ rs2 = true).
    { intros Hin. apply Hr. right. exact Hin. }
    destruct (IH m' s' Ht1 Ht2 Hs Hr') as [Ho Hf].
    destruct (mx_run sf m' t) as [os mf]. destruct (spec_run sf s' t) as [os' sf'].
    cbn [fst snd] in *. subst os'. split; [reflexivity | exact Hf].
Qed.

(** the general form: list-backed sources whose only possible ghost is the
    last item, with or without Reset (Reset calls only when both have it) *)
Theorem mixer_refines_merge_general :
  forall (sf : Z -> Z -> bool) (its1 its2 : list (Z * bool)) (rs1 rs2 : bool) (cs : list call),
  tail_ok its1 = true -> tail_ok its2 = true ->
  (In CReset cs -> rs1 = true /\ rs2 = true) ->
  fst (mx_run sf (mx_init (src_of its1 rs1) (src_of its2 rs2)) cs) =
  fst (spec_run sf (spec_init (live_items its1) (live_items its2)) cs).
Proof.
  intros sf its1 its2 rs1 rs2 cs Ht1 Ht2 Hr.
  apply (run_sim sf its1 its2 rs1 rs2 cs _ _ Ht1 Ht2 (sim_init sf its1 its2 rs1 rs2 Ht1 Ht2) Hr).
Qed.

(** the headline refinement: WrapIntSlice sources, every selector function,
    every call pattern *)
Theorem mixer_refines_merge : forall (sf : Z -> Z -> bool) (l1 l2 : list Z) (cs : list call),
  fst (mx_run sf (mx_init (wrap_ints l1) (wrap_ints l2)) cs) =
  fst (spec_run sf (spec_init l1 l2) cs).
Proof.
  intros sf l1 l2 cs. unfold wrap_ints.
  rewrite mixer_refines_merge_general.
  - rewrite !live_items_wrap_items. reflexivity.
  - apply tail_ok_wrap_items.
  - apply tail_ok_wrap_items.
  - intros _. split; reflexivity.
Qed.

(** sources that cannot be reset: every pattern over HasNext / Next *)
Theorem mixer_refines_merge_noreset :
  forall (sf : Z -> Z -> bool) (rs1 rs2 : bool) (l1 l2 : list Z) (cs : list call),
  ~ In CReset cs ->
  fst (mx_run sf (mx_init (src_of (wrap_items l1) rs1) (src_of (wrap_items l2) rs2)) cs) =
  fst (spec_run sf (spec_init l1 l2) cs).
Proof.
  intros sf rs1 rs2 l1 l2 cs Hn.
  rewrite mixer_refines_merge_general.
  - rewrite !live_items_wrap_items. reflexivity.
  - apply tail_ok_wrap_items.
  - apply tail_ok_wrap_items.
  - intros Hin. contradiction.
Qed.

(** a source whose last element vanishes between HasNext and Next (the case
    the Iterator contract describes) *)
Theorem mixer_refines_merge_vanishing_last :
  forall (sf : Z -> Z -> bool) (l1 l2 : list Z) (g1 g2 : list (Z * bool)) (cs : list call),
  (g1 = [] \/ exists v, g1 = [(v, false)]) ->
  (g2 = [] \/ exists v, g2 = [(v, false)]) ->
  fst (mx_run sf (mx_init (src_of (wrap_items l1 ++ g1) true) (src_of (wrap_items l2 ++ g2) true)) cs) =
  fst (spec_run sf (spec_init l1 l2) cs).
Proof.
  assert (Htail : forall l g, (g = [] \/ exists v, g = [(v, false)]) ->
            tail_ok (wrap_items l ++ g) = true /\ live_items (wrap_items l ++ g) = l).
  { intros l g Hg. induction l as [|x t [IH1 IH2]].
    - destruct Hg as [-> | [v ->]]; split; reflexivity.
    - split.
      + cbn [wrap_items map app tail_ok]. fold (wrap_items t).
        destruct (wrap_items t ++ g) eqn:E; [reflexivity|]. cbn [snd andb]. exact IH1.
      + unfold live_items in *. cbn [wrap_items map app filter snd fst]. fold (wrap_items t).
        f_equal. exact IH2. }
  intros sf l1 l2 g1 g2 cs Hg1 Hg2.
  destruct (Htail l1 g1 Hg1) as [T1 L1]. destruct (Htail l2 g2 Hg2) as [T2 L2].
  rewrite mixer_refines_merge_general; try assumption.
  - rewrite L1, L2. reflexivity.
  - intros _. split; reflexivity.
Qed.
