(** C18 lemmas about the mixer model (model/Mixer.v): facts that hold in every
    state, and the refinement of the merge specification (spec/Merge.v). *)
From Coq Require Import List ZArith Bool Lia.
From GL Require Import model.Mixer spec.Merge.
Import ListNotations.
Open Scope Z_scope.

(** * Facts that hold in every state, for arbitrary sources *)

Lemma select_state_decided : forall sf m, m_st (select_state sf m) <> St0.
Proof.
  intros sf m. unfold select_state.
  destruct (m_st m) eqn:Hst; cbn [m_st]; try congruence.
  destruct (negb (d_load (desc_load (m_src1 m))) && negb (d_load (desc_load (m_src2 m)))); [discriminate|].
  destruct (negb (d_load (desc_load (m_src1 m)))); [discriminate|].
  destruct (negb (d_load (desc_load (m_src2 m))) || sf _ _); discriminate.
Qed.

Lemma select_state_fixed : forall sf m, m_st m <> St0 -> select_state sf m = m.
Proof.
  intros sf m Hst. unfold select_state. destruct (m_st m); congruence.
Qed.

Lemma select_state_idem : forall sf m,
  select_state sf (select_state sf m) = select_state sf m.
Proof.
  intros sf m. apply select_state_fixed, select_state_decided.
Qed.

(* HasNext twice: same answer, and the second call changes nothing *)
Lemma mx_has_next_idem : forall sf m,
  mx_has_next sf (fst (mx_has_next sf m)) = mx_has_next sf m.
Proof.
  intros sf m. unfold mx_has_next. cbn [fst].
  rewrite select_state_idem. reflexivity.
Qed.

(* Next after HasNext = Next without HasNext *)
Lemma mx_next_after_has_next : forall sf m,
  mx_next sf (fst (mx_has_next sf m)) = mx_next sf m.
Proof.
  intros sf m. unfold mx_has_next, mx_next. cbn [fst].
  rewrite select_state_idem. reflexivity.
Qed.

(* HasNext says exactly whether the following Next yields an element *)
Lemma mx_has_next_agrees_next : forall sf m,
  snd (mx_has_next sf m) = snd (snd (mx_next sf m)).
Proof.
  intros sf m. unfold mx_has_next, mx_next. cbn [snd].
  pose proof (select_state_decided sf m) as Hd.
  destruct (m_st (select_state sf m)); cbn; congruence.
Qed.

(* a failed Next returns the zero value and does not change the decided state *)
Lemma mx_next_not_ok : forall sf m,
  snd (snd (mx_next sf m)) = false ->
  mx_next sf m = (select_state sf m, (0, false)) /\ m_st (select_state sf m) = St3.
Proof.
  intros sf m. unfold mx_next.
  pose proof (select_state_decided sf m) as Hd.
  destruct (m_st (select_state sf m)); cbn; intros H; try discriminate; try congruence.
  split; reflexivity.
Qed.

(* once exhausted, the mixer stays exhausted until Reset *)
Lemma mx_exhausted_sticky : forall sf m,
  m_st m = St3 ->
  mx_has_next sf m = (m, false) /\ mx_next sf m = (m, (0, false)).
Proof.
  intros sf m H3. unfold mx_has_next, mx_next.
  rewrite select_state_fixed by congruence. rewrite H3. split; reflexivity.
Qed.

(** * Refinement of the merge specification *)

(* what a source descriptor still has to deliver: the look-ahead, then the rest *)
Definition live (d : desc) : list Z :=
  (if d_load d then [d_e d] else []) ++ map fst (s_rest (d_it d)).

(* the source is the list-backed iterator over [l] (every Next there is ok) *)
Definition src_ok (l : list Z) (rs : bool) (s : src) : Prop :=
  s_orig s = wrap_items l /\ s_rst s = rs /\ forallb snd (s_rest s) = true.

(* a decided state is the decision [merge_step] takes *)
Definition st_ok (sf : Z -> Z -> bool) (m : mixer) (r1 r2 : list Z) : Prop :=
  match m_st m with
  | St0 => True
  | St1 => d_load (m_src1 m) = true /\
           merge_step sf r1 r2 = Some (O1, d_e (m_src1 m), map fst (s_rest (d_it (m_src1 m))), r2)
  | St2 => d_load (m_src2 m) = true /\
           merge_step sf r1 r2 = Some (O2, d_e (m_src2 m), r1, map fst (s_rest (d_it (m_src2 m))))
  | St3 => merge_step sf r1 r2 = None
  end.

Definition sim (sf : Z -> Z -> bool) (rs1 rs2 : bool) (m : mixer) (s : mspec) : Prop :=
  src_ok (sp_l1 s) rs1 (d_it (m_src1 m)) /\
  src_ok (sp_l2 s) rs2 (d_it (m_src2 m)) /\
  live (m_src1 m) = sp_r1 s /\
  live (m_src2 m) = sp_r2 s /\
  st_ok sf m (sp_r1 s) (sp_r2 s).

Lemma forallb_wrap_items : forall l, forallb snd (wrap_items l) = true.
Proof. induction l as [|x t IH]; [reflexivity | exact IH]. Qed.

Lemma map_fst_wrap_items : forall l, map fst (wrap_items l) = l.
Proof.
  induction l as [|x t IH]; [reflexivity|].
  cbn [wrap_items map fst]. f_equal. exact IH.
Qed.

Lemma sim_init : forall sf rs1 rs2 l1 l2,
  sim sf rs1 rs2 (mx_init (src_of (wrap_items l1) rs1) (src_of (wrap_items l2) rs2))
      (spec_init l1 l2).
Proof.
  intros sf rs1 rs2 l1 l2. unfold sim, src_ok, live, st_ok. cbn.
  rewrite !forallb_wrap_items, !map_fst_wrap_items. repeat split; reflexivity.
Qed.

Ltac break_sim :=
  match goal with
  | H : sim _ _ _ ?m ?s |- _ =>
      destruct m as [[[o1 rest1 b1] ld1 e1] [[o2 rest2 b2] ld2 e2] st];
      destruct s as [l1 l2 r1 r2];
      unfold sim, src_ok, live, st_ok in H; cbn in H;
      destruct H as ((Ho1 & Hb1 & Hk1) & (Ho2 & Hb2 & Hk2) & Hl1 & Hl2 & Hst)
  end.

Lemma select_state_sim : forall sf rs1 rs2 m s,
  sim sf rs1 rs2 m s -> sim sf rs1 rs2 (select_state sf m) s.
Proof.
  intros sf rs1 rs2 m s H. break_sim.
  destruct st; unfold sim, src_ok, live, st_ok, select_state; cbn;
    try tauto.
  destruct ld1, ld2, rest1 as [|[v1 k1] t1], rest2 as [|[v2 k2] t2];
    cbn in *; subst r1 r2;
    repeat match goal with
           | H : _ && _ = true |- _ => apply andb_prop in H; destruct H; subst
           end; cbn;
    try (destruct (sf _ _) eqn:Hsf; cbn; rewrite ?Hsf);
    repeat split; try assumption; try reflexivity.
Qed.

(* one call: same result, and the relation is kept.  Reset is only covered
   when both sources can be reset (the specification's premise) *)
Lemma step_sim : forall sf rs1 rs2 m s c,
  sim sf rs1 rs2 m s ->
  (c = CReset -> rs1 = true /\ rs2 = true) ->
  snd (mx_step sf m c) = snd (spec_step sf s c) /\
  sim sf rs1 rs2 (fst (mx_step sf m c)) (fst (spec_step sf s c)).
Proof.
  intros sf rs1 rs2 m s c H Hc. destruct c.
  - (* HasNext *)
    unfold mx_step, mx_has_next.
    pose proof (select_state_sim _ _ _ _ _ H) as H'.
    pose proof (select_state_decided sf m) as Hd.
    clear H. cbn [fst snd]. split; [|exact H'].
    revert H' Hd. generalize (select_state sf m). intros m' H Hd.
    break_sim. cbn in *.
    destruct st; cbn; try congruence.
    + destruct Hst as [_ ->]. reflexivity.
    + destruct Hst as [_ ->]. reflexivity.
    + rewrite Hst. reflexivity.
  - (* Next *)
    unfold mx_step, mx_next.
    pose proof (select_state_sim _ _ _ _ _ H) as H'.
    pose proof (select_state_decided sf m) as Hd.
    clear H. revert H' Hd. generalize (select_state sf m). intros m' H Hd.
    break_sim. cbn in *.
    destruct st; cbn; try congruence.
    + destruct Hst as [-> Hms]. rewrite Hms. cbn.
      split; [reflexivity|]. unfold sim, src_ok, live, st_ok. cbn. tauto.
    + destruct Hst as [-> Hms]. rewrite Hms. cbn.
      split; [reflexivity|]. unfold sim, src_ok, live, st_ok. cbn. tauto.
    + rewrite Hst. cbn. split; [reflexivity|].
      unfold sim, src_ok, live, st_ok. cbn. tauto.
  - (* Reset *)
    destruct (Hc eq_refl) as [-> ->].
    break_sim. subst b1 b2.
    unfold mx_step, mx_reset, desc_reset, src_reset. cbn.
    split; [reflexivity|].
    unfold sim, src_ok, live, st_ok. cbn. subst o1 o2.
    rewrite !forallb_wrap_items, !map_fst_wrap_items. tauto.
Qed.

Lemma run_sim : forall sf rs1 rs2 cs m s,
  sim sf rs1 rs2 m s ->
  (In CReset cs -> rs1 = true /\ rs2 = true) ->
  fst (mx_run sf m cs) = fst (spec_run sf s cs) /\
  sim sf rs1 rs2 (snd (mx_run sf m cs)) (snd (spec_run sf s cs)).
Proof.
  intros sf rs1 rs2 cs. induction cs as [|c t IH]; intros m s H Hr.
  - cbn. split; [reflexivity | exact H].
  - cbn [mx_run spec_run].
    assert (Hc : c = CReset -> rs1 = true /\ rs2 = true).
    { intros ->. apply Hr. left. reflexivity. }
    destruct (step_sim sf rs1 rs2 m s c H Hc) as [Ho Hs].
    destruct (mx_step sf m c) as [m' o]. destruct (spec_step sf s c) as [s' o'].
    cbn [fst snd] in Ho, Hs. subst o'.
    assert (Hr' : In CReset t -> rs1 = true /\ rs2 = true).
    { intros Hin. apply Hr. right. exact Hin. }
    destruct (IH m' s' Hs Hr') as [Ho Hf].
    destruct (mx_run sf m' t) as [os mf]. destruct (spec_run sf s' t) as [os' sf'].
    cbn [fst snd] in *. subst os'. split; [reflexivity | exact Hf].
Qed.

(** the headline refinement: WrapIntSlice sources, every selector function,
    every call pattern *)
Theorem mixer_refines_merge : forall (sf : Z -> Z -> bool) (l1 l2 : list Z) (cs : list call),
  fst (mx_run sf (mx_init (wrap_ints l1) (wrap_ints l2)) cs) =
  fst (spec_run sf (spec_init l1 l2) cs).
Proof.
  intros sf l1 l2 cs.
  apply (run_sim sf true true cs _ _ (sim_init sf true true l1 l2)).
  intros _. split; reflexivity.
Qed.

(** sources that cannot be reset: every pattern over HasNext / Next *)
Theorem mixer_refines_merge_noreset :
  forall (sf : Z -> Z -> bool) (rs1 rs2 : bool) (l1 l2 : list Z) (cs : list call),
  ~ In CReset cs ->
  fst (mx_run sf (mx_init (src_of (wrap_items l1) rs1) (src_of (wrap_items l2) rs2)) cs) =
  fst (spec_run sf (spec_init l1 l2) cs).
Proof.
  intros sf rs1 rs2 l1 l2 cs Hn.
  apply (run_sim sf rs1 rs2 cs _ _ (sim_init sf rs1 rs2 l1 l2)).
  intros Hin. contradiction.
Qed.
