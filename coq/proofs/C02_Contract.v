(** C02, contract level: what every SEQUENTIAL history of the contract with free
    choice of fresh versions ([KVRel.kvf_acc]) satisfies -- and hence, through
    linearizability, every concurrent history of an implementation that is
    linearizable w.r.t. it.  [KV.step] (versions 1, 2, 3, ...) is an instance
    ([kv_acc_kvf]). *)
From Coq Require Import List ZArith NArith Arith Bool Lia Permutation.
From GL Require Import lib.Lin lib.LinSim spec.KV spec.KVRel proofs.C03_KV proofs.C06_Expiry.
Import ListNotations.

Definition sver (kr : key * rec) : nat := ver (snd kr).

(** ** the invariant of contract states *)
Record finv (s : fstate) : Prop := {
  fi_wf : NoDup (akeys (frecs s));                                      (* one record per key *)
  fi_used : forall k r, In (k, r) (frecs s) -> In (ver r) (fused s);    (* stored versions were handed out *)
  fi_vers : NoDup (map sver (frecs s))                                  (* no version is stored twice *)
}.

Lemma finv_init : finv finit.
Proof. constructor; cbn; [constructor|intros k r []|constructor]. Qed.

Lemma ffind_some : forall now k s r, ffind now k s = Some r ->
  In (k, r) (frecs s) /\ expired now r = false.
Proof.
  intros now k s r H. unfold ffind, find in H. cbn [recs] in H. rewrite lookup_alookup in H.
  destruct (alookup k (frecs s)) as [r0|] eqn:E; [|discriminate].
  destruct (expired now r0) eqn:X; [discriminate|]. injection H as <-.
  split; [apply alookup_In; exact E|exact X].
Qed.

Lemma ffind_lookup : forall now k s, ffind now k s =
  match alookup k (frecs s) with Some r => if expired now r then None else Some r | None => None end.
Proof. intros. unfold ffind, find. cbn [recs]. rewrite lookup_alookup. reflexivity. Qed.

Lemma NoDup_map_filter : forall {A B} (f : A -> B) (g : A -> bool) l, NoDup (map f l) -> NoDup (map f (filter g l)).
Proof.
  intros A B f g l. induction l as [|a t IH]; intros H; cbn [filter map] in *; [constructor|].
  inversion H as [|? ? Hn Ht]; subst. destruct (g a); cbn [map]; [|auto].
  constructor; [|auto]. intros Hin. apply Hn. apply in_map_iff in Hin. destruct Hin as [x [Hx Hin]].
  apply filter_In in Hin. apply in_map_iff. exists x. tauto.
Qed.

Lemma in_aremove : forall k kr (l : list (key * rec)), In kr (aremove k l) -> In kr l.
Proof. intros k kr l H. unfold aremove in H. apply filter_In in H. tauto. Qed.

Lemma finv_fwrite : forall k v e n s, finv s -> ~ In n (fused s) -> finv (fwrite k v e n s).
Proof.
  intros k v e n s [Hw Hu Hv] Hn. unfold fwrite. constructor; cbn [frecs fused].
  - rewrite set_aset. apply NoDup_set. exact Hw.
  - intros k' r Hin. rewrite set_aset in Hin. apply in_app_or in Hin. destruct Hin as [Hin|[Heq|[]]].
    + right. eapply Hu. eapply in_aremove. exact Hin.
    + injection Heq as <- <-. left. reflexivity.
  - rewrite set_aset. unfold aset. rewrite map_app. cbn [map sver snd ver].
    assert (Hnd : NoDup (map sver (aremove k (frecs s)))) by (apply NoDup_map_filter; exact Hv).
    assert (Hnot : ~ In n (map sver (aremove k (frecs s)))).
    { intros Hin. apply in_map_iff in Hin. destruct Hin as [[k' r'] [Hx Hin]]. unfold sver in Hx. cbn [snd] in Hx.
      subst n. apply Hn. eapply Hu. eapply in_aremove. exact Hin. }
    clear -Hnd Hnot. induction (map sver (aremove k (frecs s))) as [|a t IH]; cbn.
    + constructor; [intros []|constructor].
    + inversion Hnd as [|? ? Ha Ht]; subst. constructor.
      * intros Hin. apply in_app_or in Hin. destruct Hin as [Hin|[<-|[]]]; [auto|]. apply Hnot. left. reflexivity.
      * apply IH; [exact Ht|]. intros Hin. apply Hnot. right. exact Hin.
Qed.

Lemma finv_remove : forall k s, finv s -> finv (mkF (remove k (frecs s)) (fused s)).
Proof.
  intros k s [Hw Hu Hv]. constructor; cbn [frecs fused]; rewrite remove_aremove.
  - apply NoDup_remove. exact Hw.
  - intros k' r Hin. eapply Hu. eapply in_aremove. exact Hin.
  - apply NoDup_map_filter. exact Hv.
Qed.

Lemma fused_fput_many : forall rs ns s, length ns = length rs ->
  fused (fput_many rs ns s) = rev ns ++ fused s.
Proof.
  induction rs as [|[[k v] e] t IH]; intros ns s Hl; destruct ns as [|n nt]; try discriminate; cbn [fput_many]; [reflexivity|].
  rewrite IH by (cbn in Hl; lia). cbn [fwrite fused rev]. rewrite <- app_assoc. reflexivity.
Qed.

Lemma finv_fput_many : forall rs ns s, finv s -> NoDup ns -> (forall n, In n ns -> ~ In n (fused s)) ->
  finv (fput_many rs ns s).
Proof.
  induction rs as [|[[k v] e] t IH]; intros ns s Hi Hnd Hf; cbn [fput_many]; [exact Hi|].
  destruct ns as [|n nt]; [exact Hi|]. inversion Hnd as [|? ? Hn Hnt]; subst.
  apply IH; [apply finv_fwrite; [exact Hi|apply Hf; left; reflexivity]|exact Hnt|].
  intros m Hm. cbn [fwrite fused]. intros [<-|Hin]; [auto|]. apply (Hf m); [right; exact Hm|exact Hin].
Qed.

(* the first (only) version of the supply of a single-write operation is fresh *)
Lemma supply_hd : forall s o ns, supply_ok s o ns -> wants o = 1 -> ~ In (hd 0 ns) (fused s).
Proof.
  intros s o ns [Hl [_ Hf]] Hw. destruct ns as [|n nt]; [rewrite Hw in Hl; discriminate|].
  cbn [hd]. apply Hf. left. reflexivity.
Qed.

Lemma finv_fstep : forall s now ns o, finv s -> supply_ok s o ns -> finv (fst (fstep s now ns o)).
Proof.
  intros s now ns o Hi Hs. pose proof (supply_hd s o ns Hs) as Hh. destruct o; cbn [fstep wants] in *.
  - destruct (ffind now k s); cbn [fst]; [exact Hi|]. apply finv_fwrite; auto.
  - destruct (ffind now k s); exact Hi.
  - exact Hi.
  - cbn [fst]. apply finv_fwrite; auto.
  - cbn [fst]. destruct Hs as [_ [Hnd Hf]]. apply finv_fput_many; auto.
  - destruct (ffind now k s) as [r|]; [|exact Hi].
    destruct (Nat.eqb (ver r) expected); cbn [fst]; [|exact Hi]. apply finv_fwrite; auto.
  - destruct (ffind now k s); cbn [fst]; [|exact Hi]. apply finv_remove. exact Hi.
  - exact Hi.
Qed.

Lemma finv_acc : forall st o r st', finv (fst st) -> kvf_acc st o r st' -> finv (fst st').
Proof.
  intros st o r st' Hi [_ [ns [Hs He]]]. pose proof (finv_fstep (fst st) (snd st') ns o Hi Hs) as H.
  rewrite He in H. exact H.
Qed.

Lemma finv_legal : forall l st stf, finv (fst st) -> legal kvf_acc st l stf -> finv (fst stf).
Proof.
  induction l as [|x t IH]; intros st stf Hi H; inversion H; subst; [exact Hi|].
  eapply IH; [|eassumption]. eapply finv_acc; eauto.
Qed.

(* versions are only ever added to the set of the versions handed out *)
Lemma fused_fstep : forall s now ns o n, In n (fused s) -> In n (fused (fst (fstep s now ns o))).
Proof.
  intros s now ns o n Hin. destruct o; cbn [fstep].
  - destruct (ffind now k s); cbn [fst fwrite fused]; auto. right. exact Hin.
  - destruct (ffind now k s); exact Hin.
  - exact Hin.
  - cbn [fst fwrite fused]. right. exact Hin.
  - cbn [fst]. revert ns s Hin. induction rs as [|[[k v] e] t IH]; intros ns s Hin; cbn [fput_many]; [exact Hin|].
    destruct ns as [|m nt]; [exact Hin|]. apply IH. cbn [fwrite fused]. right. exact Hin.
  - destruct (ffind now k s) as [r|]; [|exact Hin].
    destruct (Nat.eqb (ver r) expected); cbn [fst fwrite fused]; auto. right. exact Hin.
  - destruct (ffind now k s); cbn [fst fused]; exact Hin.
  - exact Hin.
Qed.

Lemma fused_acc : forall st o r st' n, kvf_acc st o r st' -> In n (fused (fst st)) -> In n (fused (fst st')).
Proof.
  intros st o r st' n [_ [ns [_ He]]] Hin. pose proof (fused_fstep (fst st) (snd st') ns o n Hin) as H.
  rewrite He in H. exact H.
Qed.

(** ** [KV.step] is the instance "next unused number" *)

Definition kv_rel (a : state * Z) (b : fstate * Z) : Prop :=
  snd a = snd b /\ frecs (fst b) = recs (fst a) /\ forall n, In n (fused (fst b)) -> n < next (fst a).

Lemma kv_rel_init : forall t, kv_rel (init, t) (finit, t).
Proof. intros t. repeat split. intros n []. Qed.

Lemma ffind_find : forall now k A sp, frecs A = recs sp -> ffind now k A = find now k sp.
Proof. intros now k A sp H. unfold ffind, find. cbn [recs]. rewrite H. reflexivity. Qed.

Lemma fput_many_put_many : forall rs sp A, frecs A = recs sp -> (forall n, In n (fused A) -> n < next sp) ->
  frecs (fput_many rs (seq (next sp) (length rs)) A) = recs (put_many rs sp) /\
  (forall n, In n (fused (fput_many rs (seq (next sp) (length rs)) A)) -> n < next (put_many rs sp)).
Proof.
  induction rs as [|[[k v] e] t IH]; intros sp A Hr Hu; cbn [fput_many put_many length seq]; [auto|].
  specialize (IH (fst (write k v e sp)) (fwrite k v e (next sp) A)).
  unfold write in IH |- *. cbn [fst next recs] in IH |- *. apply IH.
  - cbn [fwrite frecs]. rewrite Hr. reflexivity.
  - cbn [fwrite fused]. intros n [<-|Hin]; [lia|]. specialize (Hu n Hin). lia.
Qed.

Lemma kv_acc_kvf : forall a b o r a', kv_rel a b -> kv_acc a o r a' ->
  exists b', kvf_acc b o r b' /\ kv_rel a' b'.
Proof.
  intros [sp t] [A t'] o r [sp' t2] [Ht [Hr Hu]] [Hle Hs]. cbn [fst snd] in *. subst t'.
  assert (Hsup : supply_ok A o (seq (next sp) (wants o))).
  { split; [apply seq_length|]. split; [apply seq_NoDup|].
    intros n Hn Hin. apply in_seq in Hn. specialize (Hu n Hin). lia. }
  assert (Hw : forall k v e, frecs (fwrite k v e (next sp) A) = recs (fst (write k v e sp)) /\
                 forall n, In n (fused (fwrite k v e (next sp) A)) -> n < next (fst (write k v e sp))).
  { intros k v e. unfold write, fwrite. cbn [fst frecs fused recs next]. rewrite Hr. split; [reflexivity|].
    intros n [<-|Hin]; [lia|]. specialize (Hu n Hin). lia. }
  assert (Goal : exists A', fstep A t2 (seq (next sp) (wants o)) o = (A', r) /\
            frecs A' = recs sp' /\ forall n, In n (fused A') -> n < next sp').
  { destruct o; cbn [step fstep wants seq hd] in *; rewrite ?(ffind_find t2 _ A sp Hr).
    - destruct (find t2 k sp) as [r0|].
      + injection Hs as <- <-. eauto.
      + unfold write in Hs. injection Hs as <- <-. eexists. split; [reflexivity|]. apply (Hw k v e).
    - destruct (find t2 k sp); injection Hs as <- <-; eauto.
    - injection Hs as <- <-. eexists. split; [|eauto].
      f_equal. f_equal. apply map_ext. intros k. rewrite (ffind_find t2 k A sp Hr). reflexivity.
    - unfold write in Hs. injection Hs as <- <-. eexists. split; [reflexivity|]. apply (Hw k v e).
    - injection Hs as <- <-. eexists. split; [reflexivity|]. apply fput_many_put_many; assumption.
    - destruct (find t2 k sp) as [r0|]; [|injection Hs as <- <-; eauto].
      destruct (Nat.eqb (ver r0) expected); [|injection Hs as <- <-; eauto].
      unfold write in Hs. injection Hs as <- <-. eexists. split; [reflexivity|]. apply (Hw k v e).
    - destruct (find t2 k sp); injection Hs as <- <-; [|eauto].
      eexists. split; [reflexivity|]. cbn [frecs fused recs next]. rewrite Hr. auto.
    - injection Hs as <- <-. eexists. split; [|eauto]. rewrite Hr. reflexivity. }
  destruct Goal as [A' [He [Hr' Hu']]].
  exists (A', t2). split.
  - split; [exact Hle|]. exists (seq (next sp) (wants o)). split; [exact Hsup|exact He].
  - repeat split; assumption.
Qed.

(** every (concurrent) history that is linearizable w.r.t. [KV.step] is linearizable w.r.t. the
    contract with free versions *)
Theorem kv_linearizable_kvf : forall t h,
  linearizable kv_acc (init, t) h -> linearizable kvf_acc (finit, t) h.
Proof. intros t h. apply (linearizable_sim kv_acc kvf_acc kv_rel kv_acc_kvf). apply kv_rel_init. Qed.

(** ** losers *)

Definition failing (r : out) : bool :=
  match r with OExist _ | OConflict | ONotExist => true | _ => false end.

(* a failing Create / CasByVersion (any operation answering ErrExist, ErrConflict, ErrNotExist) changes nothing *)
Theorem loser_changes_nothing : forall st o r st',
  kvf_acc st o r st' -> failing r = true -> fst st' = fst st.
Proof.
  intros st o r st' [_ [ns [_ He]]] Hf. destruct o; cbn [fstep] in He.
  - destruct (ffind (snd st') k (fst st)); injection He as <- <-; [reflexivity|discriminate].
  - destruct (ffind (snd st') k (fst st)); injection He as <- <-; reflexivity.
  - injection He as <- <-. reflexivity.
  - injection He as <- <-. discriminate.
  - injection He as <- <-. discriminate.
  - destruct (ffind (snd st') k (fst st)) as [r0|]; [|injection He as <- <-; reflexivity].
    destruct (Nat.eqb (ver r0) expected); injection He as <- <-; [discriminate|reflexivity].
  - destruct (ffind (snd st') k (fst st)); injection He as <- <-; [discriminate|reflexivity].
  - injection He as <- <-. discriminate.
Qed.

(* the outcomes of Create and CasByVersion are exactly the documented ones, each in exactly its case *)
Theorem loser_outcome_documented : forall st o r st', kvf_acc st o r st' ->
  match o with
  | Create k v e =>
      (exists n, r = OVer n /\ ffind (snd st') k (fst st) = None /\ ~ In n (fused (fst st))) \/
      (exists rc, r = OExist (ver rc) /\ ffind (snd st') k (fst st) = Some rc)
  | CasByVersion k v e x =>
      (r = ONotExist /\ ffind (snd st') k (fst st) = None) \/
      (r = OConflict /\ exists rc, ffind (snd st') k (fst st) = Some rc /\ ver rc <> x) \/
      (exists n, r = ORec (k, v, n, e) /\ ~ In n (fused (fst st)) /\
                 exists rc, ffind (snd st') k (fst st) = Some rc /\ ver rc = x)
  | _ => True
  end.
Proof.
  intros st o r st' [_ [ns [Hs He]]]. pose proof (supply_hd _ _ _ Hs) as Hh.
  destruct o; try exact I; cbn [fstep wants] in *.
  - destruct (ffind (snd st') k (fst st)) as [rc|]; injection He as _ <-.
    + right. eauto.
    + left. eauto.
  - destruct (ffind (snd st') k (fst st)) as [rc|]; [|injection He as _ <-; auto].
    destruct (Nat.eqb_spec (ver rc) expected) as [E|E]; injection He as _ <-.
    + right. right. eauto 8.
    + right. left. eauto.
Qed.

(** ** fresh versions *)

(* the versions a result reports as newly written *)
Definition new_versions (o : op) (r : out) : list nat :=
  match o, r with
  | Create _ _ _, OVer n => [n]
  | Put _ _ _, ORec (_, _, n, _) => [n]
  | CasByVersion _ _ _ _, ORec (_, _, n, _) => [n]
  | _, _ => []
  end.

(* every version a successful write reports was never handed out before, and counts as handed out from
   then on (for ever: [fused_acc]) *)
Theorem fresh_versions : forall st o r st' n, kvf_acc st o r st' -> In n (new_versions o r) ->
  ~ In n (fused (fst st)) /\ In n (fused (fst st')).
Proof.
  intros st o r st' n [_ [ns [Hs He]]] Hin. pose proof (supply_hd _ _ _ Hs) as Hh.
  destruct o; cbn [fstep wants new_versions] in *; try contradiction.
  - destruct (ffind (snd st') k (fst st)); injection He as <- <-; [contradiction|].
    destruct Hin as [<-|[]]. split; [auto|left; reflexivity].
  - injection He as <- <-. destruct Hin as [<-|[]]. split; [auto|left; reflexivity].
  - destruct (ffind (snd st') k (fst st)) as [rc|]; [|injection He as <- <-; contradiction].
    destruct (Nat.eqb (ver rc) expected); injection He as <- <-; [|contradiction].
    destruct Hin as [<-|[]]. split; [auto|left; reflexivity].
Qed.

(* the record a key holds after an operation is the one it held before, or carries a version that was never
   handed out before: whoever holds an older version of the key can detect every write *)
Theorem writes_change_version : forall st o r st' k rc, finv (fst st) -> kvf_acc st o r st' ->
  In (k, rc) (frecs (fst st')) -> In (k, rc) (frecs (fst st)) \/ ~ In (ver rc) (fused (fst st)).
Proof.
  intros st o r [A' t'] k rc Hi [_ [ns [Hs He]]] Hin. cbn [fst snd] in *.
  pose proof (supply_hd _ _ _ Hs) as Hh.
  assert (Hw : forall k' v e n, ~ In n (fused (fst st)) -> In (k, rc) (frecs (fwrite k' v e n (fst st))) ->
            In (k, rc) (frecs (fst st)) \/ ~ In (ver rc) (fused (fst st))).
  { intros k' v e n Hn H. cbn [fwrite frecs] in H. rewrite set_aset in H. apply in_app_or in H.
    destruct H as [H|[Heq|[]]]; [left; eapply in_aremove; exact H|]. injection Heq as <- <-. right. exact Hn. }
  destruct o; cbn [fstep wants] in *.
  - destruct (ffind t' k0 (fst st)); injection He as <- <-; [auto|]. eapply Hw; eauto.
  - destruct (ffind t' k0 (fst st)); injection He as <- <-; auto.
  - injection He as <- <-. auto.
  - injection He as <- <-. eapply Hw; eauto.
  - injection He as <- <-. destruct Hs as [_ [Hnd Hf]]. clear Hh Hw.
    assert (G : forall rs ns s, NoDup ns -> (forall n, In n ns -> ~ In n (fused (fst st))) ->
              (forall k r, In (k, r) (frecs s) -> In (k, r) (frecs (fst st)) \/ ~ In (ver r) (fused (fst st))) ->
              In (k, rc) (frecs (fput_many rs ns s)) -> In (k, rc) (frecs (fst st)) \/ ~ In (ver rc) (fused (fst st))).
    { induction rs0 as [|[[k1 v1] e1] t IH]; intros ns0 s Hnd0 Hf0 Hs0 H; cbn [fput_many] in H; [auto|].
      destruct ns0 as [|n nt]; [auto|]. inversion Hnd0 as [|? ? Hn0 Hnt0]; subst.
      eapply IH; [exact Hnt0| |idtac|exact H].
      - intros m Hm. apply Hf0. right. exact Hm.
      - intros k2 r2 Hk2. cbn [fwrite frecs] in Hk2. rewrite set_aset in Hk2. apply in_app_or in Hk2.
        destruct Hk2 as [Hk2|[Heq|[]]]; [apply Hs0; eapply in_aremove; exact Hk2|].
        injection Heq as <- <-. right. cbn [ver]. apply Hf0. left. reflexivity. }
    eapply G; eauto.
  - destruct (ffind t' k0 (fst st)) as [r0|]; [|injection He as <- <-; auto].
    destruct (Nat.eqb (ver r0) expected); injection He as <- <-; [|auto]. eapply Hw; eauto.
  - destruct (ffind t' k0 (fst st)); injection He as <- <-; [|auto].
    cbn [frecs] in Hin. rewrite remove_aremove in Hin. left. eapply in_aremove. exact Hin.
  - injection He as <- <-. auto.
Qed.

(** ** at most one successful CasByVersion per version *)

(* [n] was handed out and no record carries it (any more) *)
Definition retired (n : nat) (s : fstate) : Prop :=
  In n (fused s) /\ forall k r, In (k, r) (frecs s) -> ver r <> n.

Lemma retired_acc : forall st o r st' n, finv (fst st) -> kvf_acc st o r st' ->
  retired n (fst st) -> retired n (fst st').
Proof.
  intros st o r st' n Hi Ha [Hu Hr]. split; [eapply fused_acc; eauto|].
  intros k rc Hin. destruct (writes_change_version _ _ _ _ _ _ Hi Ha Hin) as [H|H]; [eauto|].
  intros E. apply H. rewrite E. exact Hu.
Qed.

Definition cas_ok (n : nat) (x : opr op out) : bool :=
  match o_op x, o_res x with
  | CasByVersion _ _ _ n', ORec _ => Nat.eqb n' n
  | _, _ => false
  end.

Lemma cas_ok_retires : forall st x st' n, finv (fst st) -> kvf_acc st (o_op x) (o_res x) st' ->
  cas_ok n x = true -> retired n (fst st').
Proof.
  intros st x st' n Hi Ha Hc. unfold cas_ok in Hc.
  destruct (o_op x) as [| | | | |k v e n'| |] eqn:Eo; try discriminate.
  destruct (o_res x) as [| |rr| | | | | | | |] eqn:Er; try discriminate.
  apply Nat.eqb_eq in Hc. subst n'.
  pose proof (loser_outcome_documented _ _ _ _ Ha) as Hd. cbn in Hd.
  destruct Hd as [[Hd _]|[[Hd _]|[m [Hd [Hm [rc [Hf Hv]]]]]]]; try discriminate.
  destruct (ffind_some _ _ _ _ Hf) as [Hin _].
  assert (Hused : In n (fused (fst st))) by (rewrite <- Hv; eapply fi_used; eauto).
  split; [eapply fused_acc; eauto|].
  destruct Ha as [_ [ns [Hs He]]]. cbn [fstep] in He. rewrite Hf, Hv, Nat.eqb_refl in He.
  injection He as <- _. intros k' r' Hin'. cbn [fwrite frecs] in Hin'. rewrite set_aset in Hin'.
  apply in_app_or in Hin'. destruct Hin' as [Hin'|[Heq|[]]].
  - (* another key: versions are stored once *)
    unfold aremove in Hin'. apply filter_In in Hin'. destruct Hin' as [Hin' Hk]. cbn [fst] in Hk.
    intros E. assert (Hsame : (k', r') = (k, rc)).
    { destruct Hi as [_ _ Hnd]. clear -Hnd Hin Hin' E Hv.
      assert (Hs : sver (k', r') = sver (k, rc)) by (unfold sver; cbn [snd]; congruence).
      revert Hnd Hin Hin' Hs. generalize (k', r') (k, rc). generalize (frecs (fst st)).
      induction l as [|a t IH]; intros p q Hnd Hq Hp Hs; [destruct Hq|].
      cbn [map] in Hnd. inversion Hnd as [|? ? Hn Ht]; subst.
      destruct Hq as [->|Hq], Hp as [->|Hp]; auto.
      - exfalso. apply Hn. rewrite <- Hs. apply in_map. exact Hp.
      - exfalso. apply Hn. rewrite Hs. apply in_map. exact Hq. }
    injection Hsame as -> _. rewrite key_eqb_refl in Hk. discriminate.
  - injection Heq as _ <-. cbn [ver]. intros E. apply (supply_hd _ _ _ Hs eq_refl). rewrite E. exact Hused.
Qed.

Lemma retired_no_cas : forall st x st' n, kvf_acc st (o_op x) (o_res x) st' -> retired n (fst st) ->
  cas_ok n x = false.
Proof.
  intros st x st' n Ha [_ Hr]. unfold cas_ok.
  destruct (o_op x) as [| | | | |k v e n'| |] eqn:Eo; try reflexivity.
  destruct (o_res x) as [| |rr| | | | | | | |] eqn:Er; try reflexivity.
  destruct (Nat.eqb_spec n' n) as [->|]; [|reflexivity]. exfalso.
  pose proof (loser_outcome_documented _ _ _ _ Ha) as Hd. cbn in Hd.
  destruct Hd as [[Hd _]|[[Hd _]|[m [Hd [Hm [rc [Hf Hv]]]]]]]; try discriminate.
  destruct (ffind_some _ _ _ _ Hf) as [Hin _]. exact (Hr _ _ Hin Hv).
Qed.

Lemma retired_legal : forall l st stf n, finv (fst st) -> legal kvf_acc st l stf -> retired n (fst st) ->
  forall y, In y l -> cas_ok n y = false.
Proof.
  induction l as [|x t IH]; intros st stf n Hi Hl Hr y Hy; [destruct Hy|].
  inversion Hl; subst. destruct Hy as [<-|Hy].
  - eapply retired_no_cas; eauto.
  - eapply IH; [| eassumption | |exact Hy].
    + eapply finv_acc; eauto.
    + eapply retired_acc; eauto.
Qed.

(* in a sequential history, after a successful CasByVersion against version [n] no other one succeeds *)
Theorem cas_once_per_version : forall l1 x l2 st stf n, finv (fst st) ->
  legal kvf_acc st (l1 ++ x :: l2) stf -> cas_ok n x = true -> forall y, In y l2 -> cas_ok n y = false.
Proof.
  induction l1 as [|a t IH]; intros x l2 st stf n Hi Hl Hc y Hy; cbn [app] in Hl; inversion Hl; subst.
  - eapply retired_legal; [| eassumption | |exact Hy].
    + eapply finv_acc; eauto.
    + eapply cas_ok_retires; eauto.
  - eapply IH; [|eassumption|exact Hc|exact Hy]. eapply finv_acc; eauto.
Qed.

(* ... hence in every concurrent history that is linearizable w.r.t. the contract *)
Theorem concurrent_cas_once : forall st h n, finv (fst st) -> linearizable kvf_acc st h ->
  length (filter (cas_ok n) h) <= 1.
Proof.
  intros st h n Hi [l [sf [Hp [_ Hl]]]]. rewrite <- (perm_filter_length (cas_ok n) l h Hp).
  apply filter_length_le1. intros l1 x l2 E Hx y Hy. subst l.
  eapply cas_once_per_version; eauto.
Qed.

(** ** racing creators *)

Definition is_create (k : key) (o : op) : bool :=
  match o with Create k' _ _ => key_eqb k' k | _ => false end.

(* the operation does not write or delete [k] *)
Definition leaves (k : key) (o : op) : bool := negb (touches o k).

(* an expiration that has not passed at [t] *)
Definition alive (t : Z) (e : option Z) : Prop := match e with Some x => (t <= x)%Z | None => True end.

Definition create_alive (t : Z) (o : op) : Prop :=
  match o with Create _ _ e => alive t e | _ => True end.

Lemma alive_not_expired : forall t t' r, alive t (exp r) -> (t' <= t)%Z -> expired t' r = false.
Proof.
  intros t t' r H Hle. unfold expired. destruct (exp r) as [x|]; [|reflexivity].
  cbn in H. apply Z.ltb_ge. lia.
Qed.

Lemma ffind_absent_mono : forall t t' k s, (t <= t')%Z -> ffind t k s = None -> ffind t' k s = None.
Proof.
  intros t t' k s Hle H. rewrite ffind_lookup in *. destruct (alookup k (frecs s)) as [r|]; [|reflexivity].
  destruct (expired t r) eqn:E; [|discriminate]. rewrite (expired_mono t t' r Hle E). reflexivity.
Qed.

Lemma alookup_fput_many_other : forall rs ns s k,
  existsb (fun r => key_eqb (fst (fst r)) k) rs = false ->
  alookup k (frecs (fput_many rs ns s)) = alookup k (frecs s).
Proof.
  induction rs as [|[[k1 v1] e1] t IH]; intros ns s k H; cbn [fput_many]; [reflexivity|].
  destruct ns as [|n nt]; [reflexivity|]. cbn [existsb fst] in H. apply orb_false_iff in H. destruct H as [H1 H2].
  rewrite IH by exact H2. cbn [fwrite frecs]. rewrite set_aset. apply alookup_set_other.
  apply key_eqb_neq. exact H1.
Qed.

(* an operation that leaves [k] alone does not change what is stored under [k] *)
Lemma leaves_lookup : forall s now ns o k, leaves k o = true -> is_create k o = false ->
  alookup k (frecs (fst (fstep s now ns o))) = alookup k (frecs s).
Proof.
  intros s now ns o k Hl _. unfold leaves in Hl. apply negb_true_iff in Hl.
  destruct o; cbn [touches fstep] in *.
  - destruct (ffind now k0 s); cbn [fst]; [reflexivity|]. cbn [fwrite frecs]. rewrite set_aset.
    apply alookup_set_other. apply key_eqb_neq. exact Hl.
  - destruct (ffind now k0 s); reflexivity.
  - reflexivity.
  - cbn [fst fwrite frecs]. rewrite set_aset. apply alookup_set_other. apply key_eqb_neq. exact Hl.
  - cbn [fst]. apply alookup_fput_many_other. exact Hl.
  - destruct (ffind now k0 s) as [r|]; [|reflexivity]. destruct (Nat.eqb (ver r) expected); [|reflexivity].
    cbn [fst fwrite frecs]. rewrite set_aset. apply alookup_set_other. apply key_eqb_neq. exact Hl.
  - destruct (ffind now k0 s); [|reflexivity]. cbn [fst frecs]. rewrite remove_aremove.
    apply alookup_remove_other. apply key_eqb_neq. exact Hl.
  - reflexivity.
Qed.

Definition creates (k : key) (l : list (opr op out)) : list (opr op out) :=
  filter (fun x => is_create k (o_op x)) l.

(* what a history may contain around the racing creators: Creates of [k] whose records do not expire before
   [tf], and operations that do not write or delete [k] *)
Definition race_ok (k : key) (tf : Z) (x : opr op out) : Prop :=
  (is_create k (o_op x) = true /\ create_alive tf (o_op x)) \/
  (is_create k (o_op x) = false /\ leaves k (o_op x) = true).

(* once [k] holds a record that stays, every Create of [k] answers ErrExist with its version *)
Lemma creators_lose : forall l st stf k rc, legal kvf_acc st l stf ->
  alookup k (frecs (fst st)) = Some rc -> alive (snd stf) (exp rc) ->
  (forall x, In x l -> race_ok k (snd stf) x) ->
  forall y, In y (creates k l) -> o_res y = OExist (ver rc).
Proof.
  induction l as [|x t IH]; intros st stf k rc Hl Hk Ha Hok y Hy; [destruct Hy|].
  inversion Hl as [|? ? st1 ? ? Hacc Hl']; subst.
  assert (Hmono : forall l0 a b, legal kvf_acc a l0 b -> (snd a <= snd b)%Z).
  { clear. induction l0 as [|x0 t0 IH0]; intros a b H; inversion H; subst; [lia|].
    match goal with Ha : kvf_acc _ _ _ _ |- _ => destruct Ha as [Hle _] end.
    specialize (IH0 _ _ H5). lia. }
  pose proof (Hmono _ _ _ Hl') as Hle1.
  destruct Hacc as [Hle [ns [Hs He]]].
  assert (Hfind : ffind (snd st1) k (fst st) = Some rc).
  { rewrite ffind_lookup, Hk. rewrite (alive_not_expired (snd stf) (snd st1) rc Ha Hle1). reflexivity. }
  assert (Hkeep : alookup k (frecs (fst st1)) = Some rc /\ (is_create k (o_op x) = true -> o_res x = OExist (ver rc))).
  { destruct (Hok x (or_introl eq_refl)) as [[Hc _]|[Hc Hlv]].
    - destruct (o_op x) as [k' v e| | | | | | |] eqn:Eo; try discriminate. cbn [is_create] in Hc.
      apply key_eqb_eq in Hc. subst k'. cbn [fstep] in He. rewrite Hfind in He. injection He as <- <-. auto.
    - split; [|congruence]. pose proof (leaves_lookup (fst st) (snd st1) ns (o_op x) k Hlv Hc) as H.
      rewrite He in H. cbn [fst] in H. rewrite H. exact Hk. }
  destruct Hkeep as [Hk1 Hres]. unfold creates in Hy. cbn [filter] in Hy.
  destruct (is_create k (o_op x)) eqn:Ec.
  - destruct Hy as [<-|Hy]; [auto|]. eapply IH; eauto. intros z Hz. apply Hok. right. exact Hz.
  - eapply IH; eauto. intros z Hz. apply Hok. right. exact Hz.
Qed.

(** Of any number of Creates of a key that is absent, the first one (in the sequential order) succeeds and
    all the others answer ErrExist with the winner's version -- as long as nothing else writes the key and
    the winner's record does not expire. *)
Theorem single_create_winner : forall l st stf k, legal kvf_acc st l stf ->
  ffind (snd st) k (fst st) = None ->
  (forall x, In x l -> race_ok k (snd stf) x) ->
  creates k l = [] \/
  exists n c rest, creates k l = c :: rest /\ o_res c = OVer n /\ ~ In n (fused (fst st)) /\
                   forall y, In y rest -> o_res y = OExist n.
Proof.
  induction l as [|x t IH]; intros st stf k Hl Hk Hok; [left; reflexivity|].
  inversion Hl as [|? ? st1 ? ? Hacc Hl']; subst.
  pose proof Hacc as [Hle [ns [Hs He]]].
  pose proof (ffind_absent_mono _ _ _ _ Hle Hk) as Hk1.
  destruct (Hok x (or_introl eq_refl)) as [[Hc Hal]|[Hc Hlv]].
  - (* the first Create of k: it wins *)
    right. unfold creates. cbn [filter]. rewrite Hc.
    destruct (o_op x) as [k' v e| | | | | | |] eqn:Eo; try discriminate. cbn [is_create] in Hc.
    apply key_eqb_eq in Hc. subst k'. cbn [fstep] in He. rewrite Hk1 in He. injection He as E1 E2.
    exists (hd 0 ns), x, (creates k t). split; [reflexivity|]. split; [auto|].
    split; [apply (supply_hd _ _ _ Hs eq_refl)|].
    intros y Hy. cbn [create_alive] in Hal.
    apply (creators_lose t st1 stf k (mkRec v (hd 0 ns) e) Hl'); [| exact Hal | |exact Hy].
    + rewrite <- E1. cbn [fwrite frecs]. rewrite set_aset. apply alookup_set_same.
    + intros z Hz. apply Hok. right. exact Hz.
  - (* something that leaves k alone *)
    assert (Hk2 : ffind (snd st1) k (fst st1) = None).
    { rewrite ffind_lookup in *. pose proof (leaves_lookup (fst st) (snd st1) ns (o_op x) k Hlv Hc) as H.
      rewrite He in H. cbn [fst] in H. rewrite H. exact Hk1. }
    unfold creates. cbn [filter]. rewrite Hc. fold (creates k t).
    destruct (IH st1 stf k Hl' Hk2 (fun z Hz => Hok z (or_intror Hz))) as [H|[n [c [rest [H1 [H2 [H3 H4]]]]]]]; [left; exact H|].
    right. exists n, c, rest. repeat split; auto.
    intros Hin. apply H3. eapply fused_acc; eauto.
Qed.

(* ... hence for racing creators: a concurrent history of Creates of one absent key (whose records do not
   expire meanwhile) that is linearizable has exactly one winner, and every loser reports its version *)
Theorem concurrent_single_create_winner : forall st h k, linearizable kvf_acc st h ->
  ffind (snd st) k (fst st) = None -> h <> [] ->
  (forall x, In x h -> exists v, o_op x = Create k v None) ->
  exists n c rest, Permutation (c :: rest) h /\ o_res c = OVer n /\ forall y, In y rest -> o_res y = OExist n.
Proof.
  intros st h k [l [sf [Hp [_ Hl]]]] Hk Hne Hall.
  assert (Hc : forall x, In x l -> is_create k (o_op x) = true /\ create_alive (snd sf) (o_op x)).
  { intros x Hx. destruct (Hall x (Permutation_in _ Hp Hx)) as [v ->]. cbn [is_create create_alive alive].
    rewrite key_eqb_refl. auto. }
  assert (Hall' : forall x, In x l -> race_ok k (snd sf) x) by (intros x Hx; left; apply Hc; exact Hx).
  assert (Hcr : creates k l = l).
  { clear -Hc. induction l as [|a t IH]; [reflexivity|]. unfold creates. cbn [filter].
    destruct (Hc a (or_introl eq_refl)) as [-> _]. f_equal. apply IH. intros x Hx. apply Hc. right. exact Hx. }
  destruct (single_create_winner l st sf k Hl Hk Hall') as [H|[n [c [rest [H1 [H2 [_ H4]]]]]]].
  - rewrite Hcr in H. subst l. apply Permutation_nil in Hp. contradiction.
  - rewrite Hcr in H1. subst l. exists n, c, rest. auto.
Qed.
