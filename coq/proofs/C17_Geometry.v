(** C17, part 2: arithmetic of the layout.

    - which block sizes GetBlocksInSegment accepts ([valid_bs]);
    - index <-> (segment, header byte, bit);
    - where blocks live: pairwise disjoint, disjoint from every header, inside
      the storage.  Everything here is about integers only. *)
From Coq Require Import List ZArith NArith Bool Lia.
From GL Require Import model.Blocks.
Import ListNotations.
Open Scope Z_scope.

(** * Accepted block sizes *)

(** a block size is acceptable iff it is positive and, below the page size, a
    power of two, from the page size on, a multiple of it *)
Definition valid_bs (page bs : Z) : Prop :=
  0 < bs /\ (bs < page -> exists k, 0 <= k /\ bs = 2 ^ k) /\ (page <= bs -> bs mod page = 0).

Lemma land_pred_pow2 : forall x, 0 < x ->
  (Z.land x (x - 1) = 0 <-> exists k, 0 <= k /\ x = 2 ^ k).
Proof.
  intros x Hx. split.
  - intros Hl. exists (Z.log2 x). split; [apply Z.log2_nonneg|].
    destruct (Z.log2_spec x Hx) as [Hlo Hhi].
    destruct (Z.eq_dec x (2 ^ Z.log2 x)) as [E|Hne]; [exact E|exfalso].
    assert (Hk : Z.log2 (x - 1) = Z.log2 x).
    { apply Z.log2_unique; [apply Z.log2_nonneg|]. lia. }
    assert (H1 : Z.testbit x (Z.log2 x) = true) by (apply Z.bit_log2; lia).
    assert (H2 : Z.testbit (x - 1) (Z.log2 x) = true).
    { rewrite <- Hk. apply Z.bit_log2.
      assert (0 < 2 ^ Z.log2 x) by (apply Z.pow_pos_nonneg; [lia|apply Z.log2_nonneg]). lia. }
    assert (H3 : Z.testbit (Z.land x (x - 1)) (Z.log2 x) = true).
    { rewrite Z.land_spec, H1, H2. reflexivity. }
    rewrite Hl, Z.bits_0 in H3. discriminate.
  - intros [k [Hk ->]].
    replace (2 ^ k - 1) with (Z.ones k) by (rewrite Z.ones_equiv; lia).
    apply Z.bits_inj'. intros n Hn. rewrite Z.land_spec, Z.bits_0.
    rewrite Z.pow2_bits_eqb by lia.
    destruct (Z.eqb_spec k n) as [->|Hne]; [|reflexivity].
    rewrite Z.ones_spec_high by lia. reflexivity.
Qed.

Lemma get_blocks_in_segment_spec : forall page bs, 0 < page ->
  (valid_bs page bs /\ get_blocks_in_segment page bs = bs * 8 + 1) \/
  (~ valid_bs page bs /\ get_blocks_in_segment page bs = -1).
Proof.
  intros page bs Hp. unfold get_blocks_in_segment, valid_bs.
  destruct (Z.leb_spec bs 0) as [Hle|Hpos].
  { right. split; [|reflexivity]. intros [H _]. lia. }
  destruct (Z.ltb_spec bs page) as [Hlt|Hge].
  - destruct (Z.eqb_spec (Z.land bs (bs - 1)) 0) as [E|Hne].
    + left. split; [|reflexivity]. split; [exact Hpos|]. split.
      * intros _. apply land_pred_pow2; assumption.
      * intros ?. lia.
    + right. split; [|reflexivity]. intros [_ [H _]]. apply Hne.
      apply land_pred_pow2; [exact Hpos|]. apply H. exact Hlt.
  - rewrite Z.rem_mod_nonneg by lia.
    destruct (Z.eqb_spec (bs mod page) 0) as [E|Hne].
    + left. split; [|reflexivity]. split; [exact Hpos|]. split.
      * intros ?. lia.
      * intros _. exact E.
    + right. split; [|reflexivity]. intros [_ [_ H]]. apply Hne. apply H. exact Hge.
Qed.

(** * Layout *)

Definition ssz (bs : Z) : Z := (8 * bs + 1) * bs.              (* bytes per segment *)
Definition boff (bs i : Z) : Z := (i + i / (8 * bs) + 1) * bs. (* where block i starts *)
Definition hdr_addr (bs s p : Z) : Z := s * ssz bs + p.        (* header byte p of segment s *)

Lemma ssz_pos : forall bs, 0 < bs -> 0 < ssz bs.
Proof. intros bs H. unfold ssz. nia. Qed.

Lemma bs_le_ssz : forall bs, 0 < bs -> bs <= ssz bs.
Proof. intros bs H. unfold ssz. nia. Qed.

Lemma ssz_mod_bs : forall bs, 0 < bs -> ssz bs mod bs = 0.
Proof. intros bs H. unfold ssz. apply Z.mod_mul. lia. Qed.

(** header bytes are ordered by (segment, byte) *)
Lemma hdr_addr_lt : forall bs s p s' p', 0 < bs -> 0 <= p < bs -> 0 <= p' < bs ->
  (hdr_addr bs s' p' < hdr_addr bs s p <-> s' < s \/ (s' = s /\ p' < p)).
Proof.
  intros bs s p s' p' Hbs Hp Hp'. unfold hdr_addr.
  pose proof (bs_le_ssz bs Hbs) as Hle. split.
  - intros H. destruct (Z.lt_trichotomy s' s) as [?|[->|Hgt]]; [left; lia|right; lia|exfalso].
    assert (ssz bs * (s + 1) <= ssz bs * s') by (apply Z.mul_le_mono_nonneg_l; lia). lia.
  - intros [Hlt|[-> Hlt]]; [|lia].
    assert (ssz bs * (s' + 1) <= ssz bs * s) by (apply Z.mul_le_mono_nonneg_l; lia). lia.
Qed.

Lemma hdr_addr_inj : forall bs s p s' p', 0 < bs -> 0 <= p < bs -> 0 <= p' < bs ->
  hdr_addr bs s p = hdr_addr bs s' p' -> s = s' /\ p = p'.
Proof.
  intros bs s p s' p' Hbs Hp Hp' E.
  pose proof (proj1 (hdr_addr_lt bs s p s' p' Hbs Hp Hp')) as H1.
  pose proof (proj1 (hdr_addr_lt bs s' p' s p Hbs Hp' Hp)) as H2.
  destruct (Z.lt_trichotomy s s') as [?|[->|?]].
  - exfalso. assert (hdr_addr bs s p < hdr_addr bs s' p') by (apply hdr_addr_lt; auto). lia.
  - unfold hdr_addr in E. lia.
  - exfalso. assert (hdr_addr bs s' p' < hdr_addr bs s p) by (apply hdr_addr_lt; auto). lia.
Qed.

Lemma hdr_addr_nonneg : forall bs s p, 0 < bs -> 0 <= s -> 0 <= p -> 0 <= hdr_addr bs s p.
Proof. intros bs s p Hbs Hs Hp. unfold hdr_addr. pose proof (ssz_pos bs Hbs). nia. Qed.

Lemma hdr_addr_div : forall bs s p, 0 < bs -> 0 <= p < bs -> hdr_addr bs s p / ssz bs = s.
Proof.
  intros bs s p Hbs Hp. unfold hdr_addr. pose proof (bs_le_ssz bs Hbs).
  rewrite Z.add_comm, Z.div_add by lia. rewrite Z.div_small by lia. lia.
Qed.

Lemma hdr_addr_mod : forall bs s p, 0 < bs -> 0 <= p < bs -> hdr_addr bs s p mod ssz bs = p.
Proof.
  intros bs s p Hbs Hp. unfold hdr_addr. pose proof (bs_le_ssz bs Hbs).
  rewrite Z.add_comm, Z.mod_add by lia. apply Z.mod_small. lia.
Qed.

Lemma hdr_addr_mod_bs : forall bs s p, 0 < bs -> 0 <= p < bs -> hdr_addr bs s p mod bs = p.
Proof.
  intros bs s p Hbs Hp. unfold hdr_addr, ssz.
  replace (s * ((8 * bs + 1) * bs) + p) with (p + (s * (8 * bs + 1)) * bs) by ring.
  rewrite Z.mod_add by lia. apply Z.mod_small. lia.
Qed.

(** ** index <-> (segment, header byte, bit) *)

Lemma idx_compose : forall bs s p j, 0 < bs -> 0 <= p < bs -> 0 <= j < 8 ->
  let i := s * (8 * bs) + p * 8 + j in
  i / (8 * bs) = s /\ (i mod (8 * bs)) / 8 = p /\ (i mod (8 * bs)) mod 8 = j.
Proof.
  intros bs s p j Hbs Hp Hj i. subst i.
  assert (Hr : 0 <= p * 8 + j < 8 * bs) by lia.
  assert (Hd : (s * (8 * bs) + p * 8 + j) / (8 * bs) = s).
  { replace (s * (8 * bs) + p * 8 + j) with ((p * 8 + j) + s * (8 * bs)) by ring.
    rewrite Z.div_add by lia. rewrite Z.div_small by lia. lia. }
  assert (Hm : (s * (8 * bs) + p * 8 + j) mod (8 * bs) = p * 8 + j).
  { replace (s * (8 * bs) + p * 8 + j) with ((p * 8 + j) + s * (8 * bs)) by ring.
    rewrite Z.mod_add by lia. apply Z.mod_small. lia. }
  rewrite Hm. split; [exact Hd|]. split.
  - rewrite Z.add_comm, Z.div_add by lia. rewrite Z.div_small by lia. lia.
  - rewrite Z.add_comm, Z.mod_add by lia. apply Z.mod_small. lia.
Qed.

Lemma idx_decompose : forall bs i, 0 < bs -> 0 <= i ->
  let s := i / (8 * bs) in let p := (i mod (8 * bs)) / 8 in let j := (i mod (8 * bs)) mod 8 in
  i = s * (8 * bs) + p * 8 + j /\ 0 <= s /\ 0 <= p < bs /\ 0 <= j < 8.
Proof.
  intros bs i Hbs Hi s p j. subst s p j.
  pose proof (Z.div_mod i (8 * bs) ltac:(lia)) as H1.
  pose proof (Z.mod_pos_bound i (8 * bs) ltac:(lia)) as H2.
  pose proof (Z.div_mod (i mod (8 * bs)) 8 ltac:(lia)) as H3.
  pose proof (Z.mod_pos_bound (i mod (8 * bs)) 8 ltac:(lia)) as H4.
  assert (0 <= i / (8 * bs)) by (apply Z.div_pos; lia).
  assert (0 <= (i mod (8 * bs)) / 8) by (apply Z.div_pos; lia).
  assert ((i mod (8 * bs)) / 8 < bs) by (apply Z.div_lt_upper_bound; lia).
  lia.
Qed.

Lemma idx_segment_lt : forall bs segs i, 0 < bs -> 0 <= i ->
  (i / (8 * bs) < segs <-> i < segs * (8 * bs)).
Proof.
  intros bs segs i Hbs Hi. split; intros H.
  - pose proof (Z.div_mod i (8 * bs) ltac:(lia)).
    pose proof (Z.mod_pos_bound i (8 * bs) ltac:(lia)).
    assert ((8 * bs) * (i / (8 * bs) + 1) <= (8 * bs) * segs) by (apply Z.mul_le_mono_nonneg_l; lia). lia.
  - apply Z.div_lt_upper_bound; lia.
Qed.

(** ** where block i lives *)

Lemma boff_in_segment : forall bs i, 0 < bs -> 0 <= i ->
  let s := i / (8 * bs) in
  boff bs i = s * ssz bs + (i mod (8 * bs) + 1) * bs.
Proof.
  intros bs i Hbs Hi s. subst s. unfold boff, ssz.
  pose proof (Z.div_mod i (8 * bs) ltac:(lia)) as H1.
  set (q := i / (8 * bs)) in *. set (r := i mod (8 * bs)) in *.
  rewrite H1 at 1. ring.
Qed.

(** distinct blocks do not overlap *)
Lemma boff_disjoint : forall bs i j, 0 < bs -> 0 <= i -> i < j -> boff bs i + bs <= boff bs j.
Proof.
  intros bs i j Hbs Hi Hij. unfold boff.
  assert (i / (8 * bs) <= j / (8 * bs)) by (apply Z.div_le_mono; lia).
  replace ((i + i / (8 * bs) + 1) * bs + bs) with ((i + i / (8 * bs) + 2) * bs) by ring.
  apply Z.mul_le_mono_nonneg_r; lia.
Qed.

(** a block lies in its segment, after the header *)
Lemma boff_bounds : forall bs i, 0 < bs -> 0 <= i ->
  let s := i / (8 * bs) in
  s * ssz bs + bs <= boff bs i /\ boff bs i + bs <= (s + 1) * ssz bs.
Proof.
  intros bs i Hbs Hi s. rewrite boff_in_segment by assumption. fold s.
  pose proof (Z.mod_pos_bound i (8 * bs) ltac:(lia)) as Hm.
  set (r := i mod (8 * bs)) in *. unfold ssz. split.
  - assert (1 * bs <= (r + 1) * bs) by (apply Z.mul_le_mono_nonneg_r; lia). lia.
  - replace (s * ((8 * bs + 1) * bs) + (r + 1) * bs + bs) with (s * ((8 * bs + 1) * bs) + (r + 2) * bs) by ring.
    replace ((s + 1) * ((8 * bs + 1) * bs)) with (s * ((8 * bs + 1) * bs) + (8 * bs + 1) * bs) by ring.
    assert ((r + 2) * bs <= (8 * bs + 1) * bs) by (apply Z.mul_le_mono_nonneg_r; lia). lia.
Qed.

(** no byte of a block is a header byte *)
Lemma boff_avoids_headers : forall bs i s p k, 0 < bs -> 0 <= i -> 0 <= p < bs -> 0 <= k < bs ->
  boff bs i + k <> hdr_addr bs s p.
Proof.
  intros bs i s p k Hbs Hi Hp Hk E.
  destruct (boff_bounds bs i Hbs Hi) as [Hlo Hhi]. cbv zeta in Hlo, Hhi.
  set (si := i / (8 * bs)) in *. unfold hdr_addr in E.
  pose proof (ssz_pos bs Hbs) as Hss.
  destruct (Z.lt_trichotomy s si) as [Hlt|[->|Hgt]].
  - assert (ssz bs * (s + 1) <= ssz bs * si) by (apply Z.mul_le_mono_nonneg_l; lia).
    pose proof (bs_le_ssz bs Hbs). lia.
  - lia.
  - assert (ssz bs * (si + 1) <= ssz bs * s) by (apply Z.mul_le_mono_nonneg_l; lia). lia.
Qed.

(** a valid block lies inside the part of the storage covered by the segments *)
Lemma boff_inside : forall bs segs i, 0 < bs -> 0 <= i < segs * (8 * bs) ->
  bs <= boff bs i /\ boff bs i + bs <= segs * ssz bs.
Proof.
  intros bs segs i Hbs Hi.
  destruct (boff_bounds bs i Hbs ltac:(lia)) as [Hlo Hhi]. cbv zeta in Hlo, Hhi.
  assert (Hs : i / (8 * bs) < segs) by (apply idx_segment_lt; lia).
  assert (0 <= i / (8 * bs)) by (apply Z.div_pos; lia).
  pose proof (ssz_pos bs Hbs) as Hss.
  assert (ssz bs * (i / (8 * bs) + 1) <= ssz bs * segs) by (apply Z.mul_le_mono_nonneg_l; lia).
  assert (0 <= ssz bs * (i / (8 * bs))) by (apply Z.mul_nonneg_nonneg; lia).
  lia.
Qed.
