(** C19: lemmas about the model of errors/errors.go and errors/grpc.go
    (model/Errors.v).  Everything is proved for an arbitrary [tables] value
    that passes the computable check [tables_ok]; Properties/C19.v
    instantiates with the hand-written copy [std_tables], coqgen/C19_Gen.v
    with the tables translated from the Go source. *)
From Coq Require Import List NArith Bool Arith Lia.
From GL Require Import model.Errors.
Import ListNotations.

(** * Decidable equalities *)

Lemma class_eqb_spec (a b : class) : reflect (a = b) (class_eqb a b).
Proof. destruct a, b; constructor; solve [reflexivity | discriminate]. Qed.

Lemma code_eqb_spec (a b : code) : reflect (a = b) (code_eqb a b).
Proof. destruct a, b; constructor; solve [reflexivity | discriminate]. Qed.

Lemma class_eqb_refl (a : class) : class_eqb a a = true.
Proof. destruct a; reflexivity. Qed.

Lemma class_eqb_sym (a b : class) : class_eqb a b = class_eqb b a.
Proof. unfold class_eqb. apply N.eqb_sym. Qed.

Lemma class_eqb_eq (a b : class) : class_eqb a b = true <-> a = b.
Proof. destruct (class_eqb_spec a b) as [Heq|Hne]; split; intros H; congruence. Qed.

Lemma code_eqb_eq (a b : code) : code_eqb a b = true <-> a = b.
Proof. destruct (code_eqb_spec a b) as [Heq|Hne]; split; intros H; congruence. Qed.

Lemma code_eqb_refl (a : code) : code_eqb a a = true.
Proof. destruct a; reflexivity. Qed.

Lemma code_eqb_neq (a b : code) : code_eqb a b = false <-> a <> b.
Proof. destruct (code_eqb_spec a b) as [Heq|Hne]; split; intros H; congruence. Qed.

Lemma oclass_eqb_some (r : option class) (c : class) :
  oclass_eqb r (Some c) = true <-> r = Some c.
Proof.
  destruct r as [c0|]; cbn [oclass_eqb].
  - rewrite class_eqb_eq. split; intros H; congruence.
  - split; intros H; discriminate.
Qed.

Lemma all_classes_complete (c : class) : In c all_classes.
Proof. destruct c; cbn; tauto. Qed.

Lemma all_codes_complete (k : code) : In k all_codes.
Proof. destruct k; cbn; tauto. Qed.

(** * Induction over error trees (the operands of a Multi layer are in a list) *)

Section ErrTreeInd.
  Variable P : err -> Prop.
  Hypothesis HSent : forall c, P (Sentinel c).
  Hypothesis HPlain : forall t, P (Plain t).
  Hypothesis HIsLeaf : forall c t, P (IsLeaf c t).
  Hypothesis HStatus : forall k m, P (Status k m).
  Hypothesis HWrap : forall t e, P e -> P (Wrap t e).
  Hypothesis HGlue : forall t e, P e -> P (Glue t e).
  Hypothesis HEmbed : forall o e, P e -> P (Embed o e).
  Hypothesis HMulti : forall t0 ps, Forall (fun p => P (fst p)) ps -> P (Multi t0 ps).

  Fixpoint err_tree_ind (e : err) : P e :=
    match e with
    | Sentinel c => HSent c
    | Plain t => HPlain t
    | IsLeaf c t => HIsLeaf c t
    | Status k m => HStatus k m
    | Wrap t e' => HWrap t e' (err_tree_ind e')
    | Glue t e' => HGlue t e' (err_tree_ind e')
    | Embed o e' => HEmbed o e' (err_tree_ind e')
    | Multi t0 ps =>
        HMulti t0 ps
          ((fix go (l : list (err * msg)) : Forall (fun p => P (fst p)) l :=
              match l with
              | [] => Forall_nil _
              | p :: r =>
                  match p as p0 return Forall (fun p => P (fst p)) (p0 :: r) with
                  | (e', t) => Forall_cons (e', t) (err_tree_ind e' : P (fst (e', t))) (go r)
                  end
              end) ps)
    end.
End ErrTreeInd.

(** * Trees: errors.Is, errors.As *)

Lemma existsb_class_app (c : class) (a b : list class) :
  existsb (fun c0 => class_eqb c0 c) (a ++ b) =
  existsb (fun c0 => class_eqb c0 c) a || existsb (fun c0 => class_eqb c0 c) b.
Proof. apply existsb_app. Qed.

(* errors.Is finds exactly the classes that stand somewhere in the tree *)
Lemma is_chain_classes (e : err) (c : class) :
  is_chain e c = existsb (fun c0 => class_eqb c0 c) (classes_of e).
Proof.
  induction e as [c0|t|c0 t|k m|t e IH|t e IH|o e IH|t0 ps IH] using err_tree_ind;
    cbn [is_chain classes_of existsb]; rewrite ?orb_false_r; auto.
  induction IH as [|[e' t'] r Hp Hr IHr]; [reflexivity|].
  cbn [existsb flat_map fst] in *. rewrite existsb_class_app, Hp, IHr. reflexivity.
Qed.

Lemma uniform_tail (c0 c : class) (r : list class) :
  forallb (class_eqb c0) r = true -> class_eqb c0 c = false ->
  existsb (fun c1 => class_eqb c1 c) r = false.
Proof.
  intros Hall Hne. induction r as [|c1 r IH]; [reflexivity|].
  cbn [forallb] in Hall. apply andb_true_iff in Hall as [H1 Hr].
  apply class_eqb_eq in H1. subst c1. cbn [existsb]. rewrite Hne, (IH Hr). reflexivity.
Qed.

(* in a tree with one class, errors.Is answers for that class only *)
Lemma is_chain_leaf (e : err) (c : class) :
  uniform e = true ->
  is_chain e c = match the_class e with Some c0 => class_eqb c0 c | None => false end.
Proof.
  rewrite is_chain_classes. unfold uniform, the_class.
  destruct (classes_of e) as [|c0 r]; [reflexivity|]. cbn [hd_error existsb]. intros Hu.
  destruct (class_eqb c0 c) eqn:E; [reflexivity|]. apply (uniform_tail c0 c r Hu E).
Qed.

(** at most one class matches a tree with one class: the order in which
    GRPCStatusCode visits the rows of errorsToCode cannot matter *)
Lemma is_chain_unique (e : err) (c1 c2 : class) :
  uniform e = true -> is_chain e c1 = true -> is_chain e c2 = true -> c1 = c2.
Proof.
  intros Hu. rewrite !(is_chain_leaf e _ Hu). destruct (the_class e) as [c0|]; [|discriminate].
  rewrite !class_eqb_eq. congruence.
Qed.

(* a chain (no layer with several operands) has at most one class *)
Lemma classes_of_linear (e : err) : err_linear e = true -> (length (classes_of e) <= 1)%nat.
Proof.
  induction e as [c0|t|c0 t|k m|t e IH|t e IH|o e IH|t0 ps IH] using err_tree_ind;
    cbn [err_linear classes_of length]; auto; discriminate.
Qed.

Lemma linear_uniform (e : err) : err_linear e = true -> uniform e = true.
Proof.
  intros H. apply classes_of_linear in H. unfold uniform.
  destruct (classes_of e) as [|c [|c' r]]; cbn in *; [reflexivity|reflexivity|lia].
Qed.

Lemma is_chain_unique_linear (e : err) (c1 c2 : class) :
  err_linear e = true -> is_chain e c1 = true -> is_chain e c2 = true -> c1 = c2.
Proof. intros H. apply is_chain_unique, linear_uniform, H. Qed.

Lemma status_code_inner (e : err) :
  status_code e = match inner_status e with Some k => k | None => Unknown end.
Proof.
  unfold status_code, from_error.
  destruct e as [c|t|c t|k m|t e|t e|o e|t0 ps]; try reflexivity;
    destruct (inner_status _); reflexivity.
Qed.

Lemma from_error_not_status (e : err) :
  inner_status e = None -> from_error e = (Unknown, message e).
Proof.
  intros H. unfold from_error. destruct e as [c|t|c t|k m|t e|t e|o e|t0 ps]; try reflexivity;
    try (rewrite H; reflexivity). discriminate H.
Qed.

(** side operands that bring neither a class nor a status error *)

Lemma side_ok_spec (s : err) : side_ok s = true -> classes_of s = [] /\ inner_status s = None.
Proof.
  unfold side_ok. destruct (classes_of s); [|discriminate].
  destruct (inner_status s); [discriminate|auto].
Qed.

Lemma sides_classes (ps : list (err * msg)) :
  forallb (fun p => side_ok (fst p)) ps = true ->
  flat_map (fun p => let '(e', _) := p in classes_of e') ps = [].
Proof.
  induction ps as [|[s t] r IH]; [reflexivity|]. cbn [forallb flat_map fst].
  intros H. apply andb_true_iff in H as [Hs Hr].
  destruct (side_ok_spec s Hs) as [-> _]. exact (IH Hr).
Qed.

Lemma sides_status (ps rest : list (err * msg)) :
  forallb (fun p => side_ok (fst p)) ps = true ->
  first_some (fun p => let '(e', _) := p in inner_status e') (ps ++ rest) =
  first_some (fun p => let '(e', _) := p in inner_status e') rest.
Proof.
  induction ps as [|[s t] r IH]; [reflexivity|]. cbn [forallb app first_some fst].
  intros H. apply andb_true_iff in H as [Hs Hr].
  destruct (side_ok_spec s Hs) as [_ ->]. exact (IH Hr).
Qed.

Lemma forallb_app_true {A} (f : A -> bool) (a b : list A) :
  forallb f (a ++ b) = true -> forallb f a = true /\ forallb f b = true.
Proof. rewrite forallb_app. apply andb_true_iff. Qed.

Lemma ctx_sides_ok_cons (f : frame) (r : ctx) :
  ctx_sides_ok (f :: r) = true <-> frame_sides_ok f = true /\ ctx_sides_ok r = true.
Proof. unfold ctx_sides_ok. cbn [forallb]. apply andb_true_iff. Qed.

(* a context whose side operands bring nothing: the classes and the status of
   the tree are those of what stands in the hole *)
Lemma classes_of_plug (x : ctx) (e : err) :
  ctx_sides_ok x = true -> classes_of (plug x e) = classes_of e.
Proof.
  induction x as [|[t|t|o|t0 b t a] r IH]; intros Hx; [reflexivity| | | |];
    apply ctx_sides_ok_cons in Hx as [Hf Hr]; cbn [plug classes_of]; auto.
  cbn [frame_sides_ok] in Hf. apply forallb_app_true in Hf as [Hb Ha].
  rewrite flat_map_app. cbn [flat_map]. rewrite (sides_classes b Hb), (sides_classes a Ha).
  cbn [app]. rewrite app_nil_r. exact (IH Hr).
Qed.

Lemma inner_status_plug (x : ctx) (e : err) :
  ctx_sides_ok x = true -> inner_status (plug x e) = inner_status e.
Proof.
  induction x as [|[t|t|o|t0 b t a] r IH]; intros Hx; [reflexivity| | | |];
    apply ctx_sides_ok_cons in Hx as [Hf Hr]; cbn [plug inner_status]; auto.
  cbn [frame_sides_ok] in Hf. apply forallb_app_true in Hf as [Hb Ha].
  rewrite (sides_status b _ Hb). cbn [first_some]. rewrite (IH Hr).
  destruct (inner_status e); [reflexivity|].
  rewrite <- (app_nil_r a), (sides_status a [] Ha). reflexivity.
Qed.

Lemma one_class_per_tree (x : ctx) (e : err) :
  ctx_sides_ok x = true ->
  classes_of (plug x e) = classes_of e /\ inner_status (plug x e) = inner_status e.
Proof. intros H. split; [exact (classes_of_plug x e H)|exact (inner_status_plug x e H)]. Qed.

Lemma is_chain_plug (x : ctx) (e : err) (c : class) :
  ctx_sides_ok x = true -> is_chain (plug x e) c = is_chain e c.
Proof. intros Hx. rewrite !is_chain_classes, (classes_of_plug x e Hx). reflexivity. Qed.

Lemma the_class_plug (x : ctx) (e : err) :
  ctx_sides_ok x = true -> the_class (plug x e) = the_class e.
Proof. intros Hx. unfold the_class. rewrite (classes_of_plug x e Hx). reflexivity. Qed.

Lemma uniform_plug (x : ctx) (e : err) :
  ctx_sides_ok x = true -> uniform (plug x e) = uniform e.
Proof. intros Hx. unfold uniform. rewrite (classes_of_plug x e Hx). reflexivity. Qed.

Lemma status_code_plug_sentinel (x : ctx) (c : class) :
  ctx_sides_ok x = true -> status_code (plug x (Sentinel c)) = Unknown.
Proof. intros Hx. rewrite status_code_inner, (inner_status_plug x _ Hx). reflexivity. Qed.

(* a chain context has no side operands at all *)
Lemma linear_sides_ok (x : ctx) : ctx_linear x = true -> ctx_sides_ok x = true.
Proof.
  unfold ctx_linear, ctx_sides_ok. induction x as [|[t|t|o|t0 b t a] r IH]; cbn [forallb frame_linear frame_sides_ok];
    auto; discriminate.
Qed.

Lemma plug_linear (x : ctx) (e : err) :
  ctx_linear x = true -> err_linear e = true -> err_linear (plug x e) = true.
Proof.
  unfold ctx_linear. induction x as [|[t|t|o|t0 b t a] r IH]; cbn [forallb frame_linear plug err_linear andb];
    auto; discriminate.
Qed.

(** * Token-level split *)

Lemma split_marker_nonempty (m : msg) : split_marker m <> [].
Proof.
  induction m as [|t r IH]; cbn [split_marker]; [discriminate|].
  destruct t; try discriminate; destruct (split_marker r); discriminate.
Qed.

Lemma split_marker_cons (t : tok) (m : msg) (s : msg) (ss : list msg) :
  is_marker t = false -> split_marker m = s :: ss ->
  split_marker (t :: m) = (t :: s) :: ss.
Proof. intros Ht Hm. destruct t; try discriminate Ht; cbn [split_marker]; rewrite Hm; reflexivity. Qed.

Lemma split_marker_app_free (a b : msg) (s : msg) (ss : list msg) :
  has_marker a = false -> split_marker b = s :: ss ->
  split_marker (a ++ b) = (a ++ s) :: ss.
Proof.
  intros Ha Hb. induction a as [|t a IH]; [exact Hb|].
  cbn [has_marker existsb] in Ha. apply orb_false_iff in Ha as [Ht Ha].
  cbn [app]. rewrite (split_marker_cons t (a ++ b) (a ++ s) ss Ht (IH Ha)). reflexivity.
Qed.

Lemma split_marker_free (m : msg) : has_marker m = false -> split_marker m = [m].
Proof.
  intros H. rewrite <- (app_nil_r m) at 1.
  rewrite (split_marker_app_free m [] [] [] H eq_refl), app_nil_r. reflexivity.
Qed.

Lemma split_marker_marker (m : msg) : split_marker (Marker :: m) = [] :: split_marker m.
Proof. reflexivity. Qed.

(* the message EmbedObject builds around a marker-free message *)
Lemma split_marker_embed (o : obj) (m : msg) :
  has_marker m = false ->
  split_marker (Marker :: Json o :: Marker :: sep :: m) = [[]; [Json o]; sep :: m].
Proof.
  intros H. rewrite split_marker_marker. f_equal.
  apply (split_marker_cons (Json o) _ [] [sep :: m] eq_refl).
  rewrite split_marker_marker. f_equal.
  apply split_marker_free. exact H.
Qed.

Lemma has_marker_count (m : msg) : has_marker m = false <-> count_markers m = 0%nat.
Proof.
  unfold has_marker, count_markers. induction m as [|t m IH]; cbn [existsb filter]; [tauto|].
  destruct (is_marker t); cbn [orb length]; [split; intros H; discriminate|exact IH].
Qed.

Lemma has_marker_app (a b : msg) : has_marker (a ++ b) = has_marker a || has_marker b.
Proof. apply existsb_app. Qed.

(* the number of segments is the number of markers plus one *)
Lemma split_marker_length (m : msg) : length (split_marker m) = S (count_markers m).
Proof.
  unfold count_markers. induction m as [|t m IH]; [reflexivity|].
  destruct t; cbn [split_marker filter is_marker length]; try (rewrite IH; reflexivity);
    (destruct (split_marker m) as [|sg sgs] eqn:Hs; [exfalso; exact (split_marker_nonempty m Hs)|]);
    cbn [length] in *; exact IH.
Qed.

(* a marker-free text appended to a message only extends its last segment *)
Lemma split_marker_app_r (a b : msg) (ss : list msg) (q : msg) :
  has_marker b = false -> split_marker a = ss ++ [q] ->
  split_marker (a ++ b) = ss ++ [q ++ b].
Proof.
  intros Hb. revert ss q. induction a as [|t a IH]; intros ss q Ha.
  - cbn [split_marker] in Ha. destruct ss as [|s0 [|s1 ss]]; cbn [app] in Ha.
    + injection Ha as <-. cbn [app]. apply split_marker_free. exact Hb.
    + discriminate Ha.
    + discriminate Ha.
  - destruct (is_marker t) eqn:Ht.
    + destruct t; try discriminate Ht. cbn [app]. rewrite split_marker_marker in *.
      destruct ss as [|s0 ss]; cbn [app] in Ha.
      * injection Ha as _ Ha. exfalso. exact (split_marker_nonempty a Ha).
      * injection Ha as <- Ha. cbn [app]. f_equal. apply IH. exact Ha.
    + destruct (split_marker a) as [|s rest] eqn:Hs; [exfalso; exact (split_marker_nonempty a Hs)|].
      rewrite (split_marker_cons t a s rest Ht Hs) in Ha.
      destruct ss as [|s0 ss]; cbn [app] in Ha.
      * injection Ha as <- ->. cbn [app].
        apply (split_marker_cons t (a ++ b) (s ++ b) [] Ht). apply (IH [] s). reflexivity.
      * injection Ha as <- ->. cbn [app].
        apply (split_marker_cons t (a ++ b) s (ss ++ [q ++ b]) Ht). apply (IH (s :: ss) q). reflexivity.
Qed.

Lemma count_markers_app (a b : msg) : count_markers (a ++ b) = (count_markers a + count_markers b)%nat.
Proof. unfold count_markers. rewrite filter_app, app_length. reflexivity. Qed.

(** * Contexts *)

Lemma ctx_marker_free_cons (f : frame) (r : ctx) :
  ctx_marker_free (f :: r) = true <->
  frame_markers f = 0%nat /\ ctx_marker_free r = true.
Proof.
  unfold ctx_marker_free. cbn [forallb]. rewrite andb_true_iff, Nat.eqb_eq. tauto.
Qed.

Lemma ops_msg_app (a b : list (err * msg)) : ops_msg (a ++ b) = ops_msg a ++ ops_msg b.
Proof. unfold ops_msg, ops_text. apply flat_map_app. Qed.

(* the text of a Multi layer around the hole *)
Lemma message_plug_multi (t0 : msg) (b : list (err * msg)) (t : msg) (a : list (err * msg)) (r : ctx) (e : err) :
  message (plug (FMulti t0 b t a :: r) e) =
  (t0 ++ ops_msg b) ++ message (plug r e) ++ (t ++ ops_msg a).
Proof.
  cbn [plug message]. change (ops_text message) with ops_msg.
  rewrite ops_msg_app. change (ops_msg ((plug r e, t) :: a)) with ((message (plug r e) ++ t) ++ ops_msg a).
  rewrite <- !app_assoc. reflexivity.
Qed.

Lemma multi_markers (t0 : msg) (b : list (err * msg)) (t : msg) (a : list (err * msg)) :
  frame_markers (FMulti t0 b t a) = 0%nat ->
  has_marker (t0 ++ ops_msg b) = false /\ has_marker (t ++ ops_msg a) = false.
Proof. cbn [frame_markers]. intros H. split; apply has_marker_count; lia. Qed.

(* a marker-free context without embeds around a marker-free error gives a marker-free message *)
Lemma plug_marker_free (x : ctx) (e : err) :
  ctx_marker_free x = true -> ctx_embeds x = [] -> has_marker (message e) = false ->
  has_marker (message (plug x e)) = false.
Proof.
  intros Hx He Hl. induction x as [|[t|t|o|t0 b t a] r IH]; [exact Hl| | |discriminate He|].
  - apply ctx_marker_free_cons in Hx as [Ht Hr]. cbn [frame_markers] in Ht.
    cbn [plug message]. rewrite has_marker_app. cbn [has_marker existsb is_marker sep orb].
    apply has_marker_count in Ht. rewrite Ht. cbn [orb].
    apply IH; [exact Hr|exact He].
  - apply ctx_marker_free_cons in Hx as [Ht Hr]. cbn [frame_markers] in Ht.
    cbn [plug message]. rewrite has_marker_app.
    apply has_marker_count in Ht. rewrite Ht. cbn [orb].
    apply IH; [exact Hr|exact He].
  - apply ctx_marker_free_cons in Hx as [Ht Hr]. destruct (multi_markers _ _ _ _ Ht) as [Hpre Hpost].
    rewrite message_plug_multi, (has_marker_app (t0 ++ ops_msg b)), (has_marker_app (message (plug r e))).
    rewrite Hpre, Hpost, (IH Hr He). reflexivity.
Qed.

(* with exactly one embed the message splits in three and the object is the middle segment *)
Lemma plug_one_embed_split (x : ctx) (e : err) (o : obj) :
  ctx_marker_free x = true -> ctx_embeds x = [o] -> has_marker (message e) = false ->
  exists pre post, split_marker (message (plug x e)) = [pre; [Json o]; post].
Proof.
  intros Hx He Hl. induction x as [|[t|t|o'|t0 b t a] r IH]; [discriminate He| | | |].
  - apply ctx_marker_free_cons in Hx as [Ht Hr]. cbn [frame_markers] in Ht.
    apply has_marker_count in Ht.
    destruct (IH Hr He) as (pre & post & Hs).
    exists (t ++ sep :: pre), post. cbn [plug message].
    apply split_marker_app_free; [exact Ht|].
    apply split_marker_cons; [reflexivity|exact Hs].
  - apply ctx_marker_free_cons in Hx as [Ht Hr]. cbn [frame_markers] in Ht.
    apply has_marker_count in Ht.
    destruct (IH Hr He) as (pre & post & Hs).
    exists (t ++ pre), post. cbn [plug message].
    apply split_marker_app_free; [exact Ht|exact Hs].
  - apply ctx_marker_free_cons in Hx as [_ Hr].
    cbn [ctx_embeds flat_map app] in He. injection He as Ho Hnil. subst o'.
    assert (Hm : has_marker (message (plug r e)) = false)
      by (apply plug_marker_free; assumption).
    exists [], (sep :: message (plug r e)). cbn [plug message].
    apply split_marker_embed. exact Hm.
  - apply ctx_marker_free_cons in Hx as [Ht Hr]. destruct (multi_markers _ _ _ _ Ht) as [Hpre Hpost].
    destruct (IH Hr He) as (pre & post & Hs).
    exists ((t0 ++ ops_msg b) ++ pre), (post ++ t ++ ops_msg a). rewrite message_plug_multi.
    apply split_marker_app_free; [exact Hpre|].
    exact (split_marker_app_r _ _ [pre; [Json o]] post Hpost Hs).
Qed.

Lemma extract_plug_one_embed (x : ctx) (e : err) (o : obj) :
  ctx_marker_free x = true -> ctx_embeds x = [o] -> has_marker (message e) = false ->
  extract (plug x e) = Some o.
Proof.
  intros Hx He Hl. destruct (plug_one_embed_split x e o Hx He Hl) as (pre & post & Hs).
  unfold extract. rewrite Hs. reflexivity.
Qed.

(* without an embed and without markers nothing is extracted *)
Lemma extract_plug_no_embed (x : ctx) (e : err) :
  ctx_marker_free x = true -> ctx_embeds x = [] -> has_marker (message e) = false ->
  extract (plug x e) = None.
Proof.
  intros Hx He Hl. unfold extract.
  rewrite (split_marker_free _ (plug_marker_free x e Hx He Hl)). reflexivity.
Qed.

(* the value [plug x e] is the one the API builds: no EmbedObject call panics *)
Lemma build_plug (x : ctx) (e : err) :
  ctx_marker_free x = true -> (length (ctx_embeds x) <= 1)%nat -> has_marker (message e) = false ->
  build x e = Some (plug x e).
Proof.
  intros Hx He Hl. induction x as [|[t|t|o|t0 b t a] r IH]; [reflexivity| | | |].
  - apply ctx_marker_free_cons in Hx as [_ Hr]. cbn [build plug].
    rewrite (IH Hr He). reflexivity.
  - apply ctx_marker_free_cons in Hx as [_ Hr]. cbn [build plug].
    rewrite (IH Hr He). reflexivity.
  - apply ctx_marker_free_cons in Hx as [_ Hr].
    cbn [ctx_embeds flat_map app length] in He.
    assert (Hnil : ctx_embeds r = []).
    { destruct (ctx_embeds r) eqn:E; [reflexivity|]. unfold ctx_embeds in E. rewrite E in He. cbn in He. lia. }
    cbn [build plug]. rewrite IH; [|exact Hr|unfold ctx_embeds in Hnil |- *; rewrite Hnil; cbn; lia].
    unfold embed_object. rewrite (plug_marker_free r e Hr Hnil Hl). reflexivity.
  - apply ctx_marker_free_cons in Hx as [_ Hr]. cbn [build plug].
    rewrite (IH Hr He). reflexivity.
Qed.

Lemma has_marker_plug_mono (x : ctx) (e : err) :
  has_marker (message e) = true -> has_marker (message (plug x e)) = true.
Proof.
  intros H. induction x as [|[t|t|o|t0 b t a] r IH]; [exact H| | |reflexivity|].
  - cbn [plug message]. rewrite has_marker_app. cbn [has_marker existsb is_marker sep orb].
    fold (has_marker (message (plug r e))). rewrite IH. apply orb_true_r.
  - cbn [plug message]. rewrite has_marker_app, IH. apply orb_true_r.
  - rewrite message_plug_multi, (has_marker_app (t0 ++ ops_msg b)), (has_marker_app (message (plug r e))), IH.
    cbn [orb]. apply orb_true_r.
Qed.

(* EmbedObject refuses an error that already carries an object, however deeply wrapped *)
Lemma second_embed_panics (x : ctx) (o o' : obj) (e : err) :
  embed_object o' (plug x (Embed o e)) = None.
Proof.
  unfold embed_object. rewrite (has_marker_plug_mono x (Embed o e)); reflexivity.
Qed.

(* whatever the API builds carries at most one object *)
Lemma build_at_most_one_embed (x : ctx) (e e' : err) :
  build x e = Some e' -> has_marker (message e) = false ->
  e' = plug x e /\ (length (ctx_embeds x) <= 1)%nat
  /\ (ctx_embeds x <> [] -> has_marker (message e') = true).
Proof.
  revert e'. induction x as [|[t|t|o|t0 b t a] r IH]; intros e' Hb Hl.
  - cbn in Hb. injection Hb as <-. cbn. repeat split; [lia|congruence].
  - cbn [build] in Hb. destruct (build r e) as [e1|] eqn:Hr; [|discriminate].
    injection Hb as <-. destruct (IH e1 eq_refl Hl) as (-> & Hlen & Hm).
    cbn [plug ctx_embeds flat_map app]. repeat split; [exact Hlen|].
    intros Hne. cbn [message]. rewrite has_marker_app. cbn [has_marker existsb is_marker sep orb].
    fold (has_marker (message (plug r e))). rewrite (Hm Hne). apply orb_true_r.
  - cbn [build] in Hb. destruct (build r e) as [e1|] eqn:Hr; [|discriminate].
    injection Hb as <-. destruct (IH e1 eq_refl Hl) as (-> & Hlen & Hm).
    cbn [plug ctx_embeds flat_map app]. repeat split; [exact Hlen|].
    intros Hne. cbn [message]. rewrite has_marker_app, (Hm Hne). apply orb_true_r.
  - cbn [build] in Hb. destruct (build r e) as [e1|] eqn:Hr; [|discriminate].
    destruct (IH e1 eq_refl Hl) as (-> & Hlen & Hm).
    unfold embed_object in Hb.
    destruct (has_marker (message (plug r e))) eqn:Hh; [discriminate|].
    injection Hb as <-. cbn [plug]. split; [reflexivity|].
    assert (Hnil : ctx_embeds r = []).
    { destruct (ctx_embeds r) eqn:E; [reflexivity|]. exfalso.
      assert (Hft : false = true) by (apply Hm; discriminate). discriminate Hft. }
    cbn [ctx_embeds flat_map app]. unfold ctx_embeds in Hnil. rewrite Hnil. cbn. split; [lia|reflexivity].
  - cbn [build] in Hb. destruct (build r e) as [e1|] eqn:Hr; [|discriminate].
    injection Hb as <-. destruct (IH e1 eq_refl Hl) as (-> & Hlen & Hm).
    split; [reflexivity|]. cbn [ctx_embeds flat_map app]. split; [exact Hlen|].
    intros Hne. change (Multi t0 (b ++ (plug r e, t) :: a)) with (plug (FMulti t0 b t a :: r) e).
    rewrite message_plug_multi, (has_marker_app (t0 ++ ops_msg b)), (has_marker_app (message (plug r e))), (Hm Hne).
    cbn [orb]. apply orb_true_r.
Qed.

(* the first row whose key matches the tree is the row of the tree's class *)
Lemma find_row_gen (t : list (class * code)) (e : err) :
  uniform e = true ->
  option_map snd (find (fun row => is_chain e (fst row)) t) =
  match the_class e with Some c => lookup_class t c | None => None end.
Proof.
  intros Hu. destruct (the_class e) as [c|] eqn:E.
  - induction t as [|[c0 k0] t IH]; [reflexivity|].
    cbn [find lookup_class fst]. rewrite (is_chain_leaf e _ Hu), E.
    destruct (class_eqb c0 c) eqn:Hc; rewrite (class_eqb_sym c c0), Hc; [reflexivity|exact IH].
  - induction t as [|[c0 k0] t IH]; [reflexivity|].
    cbn [find fst]. rewrite (is_chain_leaf e _ Hu), E. exact IH.
Qed.

(* whatever row the loop finds, it is the row of its key (the first one with that key) *)
Lemma find_first_key (p : class -> bool) (t : list (class * code)) (row : class * code) :
  find (fun r => p (fst r)) t = Some row ->
  lookup_class t (fst row) = Some (snd row) /\ p (fst row) = true.
Proof.
  induction t as [|[c0 k0] t IH]; [discriminate|]. cbn [find fst].
  destruct (p c0) eqn:Hp.
  - intros [= <-]. cbn [lookup_class fst snd]. rewrite class_eqb_refl. auto.
  - intros H. destruct (IH H) as [H1 H2]. split; [|exact H2]. cbn [lookup_class].
    destruct (class_eqb c0 (fst row)) eqn:E; [|exact H1].
    apply class_eqb_eq in E. subst c0. congruence.
Qed.

(* the code a class travels as: its row, or the default *)
Definition eff_code (T : tables) (c : class) : code :=
  match to_code T c with Some k => k | None => t_def_code T end.

(** * The tables *)

Section Tables.
  Variable T : tables.
  Hypothesis HT : tables_ok T = true.

  Lemma row_ok (c : class) (k : code) :
    to_code T c = Some k -> k <> OK /\ k <> Unknown /\ from_code T k = Some c.
  Proof.
    intros Hk. unfold tables_ok in HT.
    apply andb_true_iff in HT as [HT' _]. apply andb_true_iff in HT' as [Hall _].
    pose proof (proj1 (forallb_forall _ _) Hall c (all_classes_complete c)) as Hc.
    unfold class_row_ok in Hc. rewrite Hk in Hc.
    apply andb_true_iff in Hc as [Hc H3]. apply andb_true_iff in Hc as [H1 H2].
    apply negb_true_iff, code_eqb_neq in H1, H2. apply oclass_eqb_some in H3. auto.
  Qed.

  Lemma def_code_ok : t_def_code T <> OK /\ t_def_code T <> Unknown.
  Proof.
    unfold tables_ok in HT. apply andb_true_iff in HT as [HT' H2].
    apply andb_true_iff in HT' as [_ H1].
    apply negb_true_iff, code_eqb_neq in H1, H2. auto.
  Qed.

  (** every class with a code comes back from its code *)
  Lemma class_code_roundtrip (c : class) (k : code) :
    to_code T c = Some k -> from_code T k = Some c.
  Proof. intros H. apply (row_ok c k H). Qed.

  (** two classes never share a code *)
  Lemma to_code_injective (c1 c2 : class) (k : code) :
    to_code T c1 = Some k -> to_code T c2 = Some k -> c1 = c2.
  Proof.
    intros H1 H2. apply class_code_roundtrip in H1, H2. congruence.
  Qed.

  (* the row found by the loop of GRPCStatusCode is the row of the tree's class *)
  Lemma find_row (e : err) :
    uniform e = true ->
    option_map snd (find (fun row => is_chain e (fst row)) (t_e2c T)) =
    match the_class e with Some c => to_code T c | None => None end.
  Proof. apply find_row_gen. Qed.

  (* errorsToCode[err]: only a sentinel itself is a key *)
  Lemma direct_lookup (e : err) (k : code) :
    match e with Sentinel c => to_code T c | _ => None end = Some k ->
    exists c, e = Sentinel c /\ to_code T c = Some k.
  Proof. destruct e as [c|t|c t|k0 m|t e|t e|o e|t0 ps]; try discriminate. intros H. exists c. auto. Qed.

  (* GRPCStatusCode of an error that is not a status error and has one class (or none) *)
  Lemma grpc_status_code_unknown (e : err) :
    status_code e = Unknown -> uniform e = true ->
    grpc_status_code T e =
    match the_class e with Some c => eff_code T c | None => t_def_code T end.
  Proof.
    intros Hu Hun. unfold grpc_status_code. rewrite Hu. cbn [code_eqb code_num N.eqb negb].
    pose proof (find_row e Hun) as Hf.
    destruct (match e with Sentinel c => to_code T c | _ => None end) as [k|] eqn:Hd.
    - destruct (direct_lookup e k Hd) as (c & -> & Hk). unfold eff_code. cbn [the_class classes_of hd_error].
      rewrite Hk. reflexivity.
    - destruct (find _ _) as [row|]; cbn [option_map] in Hf.
      + destruct (the_class e) as [c|]; [|discriminate]. unfold eff_code. rewrite <- Hf. reflexivity.
      + destruct (the_class e) as [c|]; [unfold eff_code; rewrite <- Hf|]; reflexivity.
  Qed.

  (* every error value: GRPCStatusCode never answers OK or Unknown for an error that is not a status error *)
  Lemma grpc_status_code_proper (e : err) :
    status_code e = Unknown ->
    grpc_status_code T e <> OK /\ grpc_status_code T e <> Unknown.
  Proof.
    intros Hu. unfold grpc_status_code. rewrite Hu. cbn [code_eqb code_num N.eqb negb].
    destruct (match e with Sentinel c => to_code T c | _ => None end) as [k|] eqn:Hd.
    - destruct (direct_lookup e k Hd) as (c & _ & Hk). destruct (row_ok c k Hk) as (H1 & H2 & _). auto.
    - destruct (find _ _) as [row|] eqn:Hf; [|exact def_code_ok].
      destruct (find_first_key (is_chain e) (t_e2c T) row Hf) as [Hk _].
      destruct (row_ok (fst row) (snd row) Hk) as (H1 & H2 & _). auto.
  Qed.

  Lemma status_error_some (k : code) (m : msg) : k <> OK -> status_error k m = Some (Status k m).
  Proof. intros H. unfold status_error. apply code_eqb_neq in H. rewrite H. reflexivity. Qed.

  (* the two cases of GRPCWrap *)
  Lemma grpc_wrap_cases (e : err) :
    (status_code e <> Unknown /\ grpc_wrap T e = Some e) \/
    (status_code e = Unknown /\ grpc_wrap T e = Some (Status (grpc_status_code T e) (message e))
     /\ grpc_status_code T e <> OK /\ grpc_status_code T e <> Unknown).
  Proof.
    unfold grpc_wrap. destruct (code_eqb_spec (status_code e) Unknown) as [Hu|Hu]; cbn [negb].
    - right. destruct (grpc_status_code_proper e Hu) as [H1 H2].
      rewrite (status_error_some _ _ H1). auto.
    - left. auto.
  Qed.

  (** GRPCWrap never returns nil for a non-nil error and its result is recognised as a gRPC error *)
  Lemma grpc_wrap_total (e : err) :
    exists w, grpc_wrap T e = Some w /\ status_code w <> Unknown.
  Proof.
    destruct (grpc_wrap_cases e) as [[Hu Hw]|(Hu & Hw & H1 & H2)].
    - exists e. auto.
    - eexists. split; [exact Hw|]. exact H2.
  Qed.

  (** GRPCWrap is idempotent: every error value, trees included *)
  Lemma grpc_wrap_idem (e : option err) :
    grpc_wrap_o T (grpc_wrap_o T e) = grpc_wrap_o T e.
  Proof.
    destruct e as [e|]; [|reflexivity]. cbn [grpc_wrap_o].
    destruct (grpc_wrap_total e) as (w & Hw & Hc). rewrite Hw. cbn [grpc_wrap_o].
    unfold grpc_wrap. apply code_eqb_neq in Hc. rewrite Hc. reflexivity.
  Qed.

  (* GRPCWrap of a tree without a status error all of whose classes are the class c *)
  Lemma grpc_wrap_tree (e : err) (c : class) :
    inner_status e = None -> uniform e = true -> the_class e = Some c ->
    grpc_wrap T e = Some (Status (eff_code T c) (message e)).
  Proof.
    intros Hs Hun Hc.
    assert (Hu : status_code e = Unknown) by (rewrite status_code_inner, Hs; reflexivity).
    destruct (grpc_wrap_cases e) as [[Hu' _]|(_ & Hw & _)]; [congruence|].
    rewrite Hw, (grpc_status_code_unknown e Hu Hun), Hc. reflexivity.
  Qed.

  (* GRPCWrap of a context around a sentinel *)
  Lemma grpc_wrap_plug_sentinel (x : ctx) (c : class) :
    ctx_sides_ok x = true ->
    grpc_wrap T (plug x (Sentinel c)) =
    Some (Status (match to_code T c with Some k => k | None => t_def_code T end)
                 (message (plug x (Sentinel c)))).
  Proof.
    intros Hx. apply (grpc_wrap_tree (plug x (Sentinel c)) c).
    - rewrite (inner_status_plug x _ Hx). reflexivity.
    - rewrite (uniform_plug x _ Hx). reflexivity.
    - rewrite (the_class_plug x _ Hx). reflexivity.
  Qed.

  Lemma Is_status (k : code) (m : msg) (c' : class) :
    Is T (Status k m) c' = match from_code T k with Some c0 => class_eqb c0 c' | None => false end.
  Proof. reflexivity. Qed.

  Lemma eff_code_row (c : class) (k : code) : to_code T c = Some k -> eff_code T c = k.
  Proof. intros H. unfold eff_code. rewrite H. reflexivity. Qed.

  Lemma eff_code_proper (c : class) : eff_code T c <> OK /\ eff_code T c <> Unknown.
  Proof.
    unfold eff_code. destruct (to_code T c) as [k|] eqn:Hk; [|exact def_code_ok].
    destruct (row_ok c k Hk) as (H1 & H2 & _). auto.
  Qed.

  (** the class survives GRPCWrap, and no other class appears: every TREE
      without a status error in which errors.Is can find the class c (at
      least once) and no other class *)
  Lemma class_survives_tree (e : err) (c : class) (k : code) (c' : class) :
    inner_status e = None -> uniform e = true -> the_class e = Some c ->
    to_code T c = Some k ->
    Is_o T (grpc_wrap T e) c' = class_eqb c' c.
  Proof.
    intros Hs Hun Hc Hk. rewrite (grpc_wrap_tree e c Hs Hun Hc), (eff_code_row c k Hk).
    cbn [Is_o]. rewrite Is_status.
    rewrite (class_code_roundtrip c k Hk). apply class_eqb_sym.
  Qed.

  (** the same for a wrapping context (a path through the tree, every side
      operand of which brings neither a class nor a status error) around the sentinel *)
  Lemma class_survives (c : class) (k : code) (x : ctx) (c' : class) :
    ctx_sides_ok x = true -> to_code T c = Some k ->
    Is_o T (grpc_wrap T (plug x (Sentinel c))) c' = class_eqb c' c.
  Proof.
    intros Hx Hk. rewrite (grpc_wrap_plug_sentinel x c Hx), Hk. cbn [Is_o]. rewrite Is_status.
    rewrite (class_code_roundtrip c k Hk). apply class_eqb_sym.
  Qed.

  (** the chain statement: contexts of single-operand layers need no side condition *)
  Lemma class_survives_linear (c : class) (k : code) (x : ctx) (c' : class) :
    ctx_linear x = true -> to_code T c = Some k ->
    Is_o T (grpc_wrap T (plug x (Sentinel c))) c' = class_eqb c' c.
  Proof. intros Hx. apply class_survives, linear_sides_ok, Hx. Qed.

  (** a class without a code travels as the default code *)
  Lemma class_without_code (c : class) (x : ctx) (c' : class) :
    ctx_sides_ok x = true -> to_code T c = None ->
    Is_o T (grpc_wrap T (plug x (Sentinel c))) c' =
    match from_code T (t_def_code T) with Some c0 => class_eqb c0 c' | None => false end.
  Proof. intros Hx Hk. rewrite (grpc_wrap_plug_sentinel x c Hx), Hk. reflexivity. Qed.

  (** the peer receives the same status error *)
  Lemma transport_wrapped_tree (e : err) (c : class) :
    inner_status e = None -> uniform e = true -> the_class e = Some c ->
    transport_o (grpc_wrap T e) = grpc_wrap T e.
  Proof.
    intros Hs Hun Hc. rewrite (grpc_wrap_tree e c Hs Hun Hc). cbn [transport_o transport from_error].
    apply status_error_some, eff_code_proper.
  Qed.

  Lemma transport_wrapped (x : ctx) (c : class) :
    ctx_sides_ok x = true ->
    transport_o (grpc_wrap T (plug x (Sentinel c))) = grpc_wrap T (plug x (Sentinel c)).
  Proof.
    intros Hx. apply (transport_wrapped_tree _ c).
    - rewrite (inner_status_plug x _ Hx). reflexivity.
    - rewrite (uniform_plug x _ Hx). reflexivity.
    - rewrite (the_class_plug x _ Hx). reflexivity.
  Qed.

  (** GRPCStatusCode of the wrapped error is the code of the class *)
  Lemma wrapped_code_tree (e : err) (c : class) (k : code) :
    inner_status e = None -> uniform e = true -> the_class e = Some c ->
    to_code T c = Some k ->
    grpc_status_code_o T (grpc_wrap T e) = k.
  Proof.
    intros Hs Hun Hc Hk. rewrite (grpc_wrap_tree e c Hs Hun Hc), (eff_code_row c k Hk).
    cbn [grpc_status_code_o]. unfold grpc_status_code. cbn [status_code from_error fst].
    destruct (row_ok c k Hk) as (_ & Hu & _). apply code_eqb_neq in Hu. rewrite Hu. reflexivity.
  Qed.

  Lemma wrapped_code (c : class) (k : code) (x : ctx) :
    ctx_sides_ok x = true -> to_code T c = Some k ->
    grpc_status_code_o T (grpc_wrap T (plug x (Sentinel c))) = k.
  Proof.
    intros Hx Hk. apply (wrapped_code_tree _ c k); [| | |exact Hk].
    - rewrite (inner_status_plug x _ Hx). reflexivity.
    - rewrite (uniform_plug x _ Hx). reflexivity.
    - rewrite (the_class_plug x _ Hx). reflexivity.
  Qed.

  (** before GRPCWrap: Is sees the class in the tree (and, because a plain
      error has status code Unknown, the class grpcToErrors gives to Unknown) *)
  Lemma Is_plain_chain (x : ctx) (c c' : class) :
    ctx_sides_ok x = true ->
    Is T (plug x (Sentinel c)) c' =
    class_eqb c c' || match from_code T Unknown with Some c0 => class_eqb c0 c' | None => false end.
  Proof.
    intros Hx. unfold Is, from_grpc. rewrite (is_chain_plug x _ _ Hx), (status_code_plug_sentinel x c Hx).
    cbn [is_chain]. destruct (class_eqb c c'); reflexivity.
  Qed.

  (** GRPCWrap keeps the message text *)
  Lemma grpc_wrap_keeps_message (e : err) :
    inner_status e = None -> grpc_msg_o (grpc_wrap T e) = message e.
  Proof.
    intros Hn. destruct (grpc_wrap_cases e) as [[Hu _]|(_ & Hw & _)].
    - exfalso. apply Hu. rewrite status_code_inner, Hn. reflexivity.
    - rewrite Hw. reflexivity.
  Qed.

  (** an error that already is a gRPC error is returned as it is *)
  Lemma grpc_wrap_as_is (e : err) (k : code) :
    inner_status e = Some k -> k <> Unknown -> grpc_wrap T e = Some e.
  Proof.
    intros Hs Hk. destruct (grpc_wrap_cases e) as [[_ Hw]|(Hu & _)]; [exact Hw|].
    rewrite status_code_inner, Hs in Hu. congruence.
  Qed.

  (** whatever ExtractObject finds before GRPCWrap it finds afterwards *)
  Lemma extract_status_message (k : code) (e : err) :
    extract (Status k (message e)) = extract e.
  Proof.
    unfold extract. cbn [message].
    destruct (split_marker (message e)) as [|s ss] eqn:Hs; [exfalso; exact (split_marker_nonempty _ Hs)|].
    rewrite (split_marker_cons (StatusPrefix k) _ s ss eq_refl Hs).
    destruct ss as [|mid [|post [|x ss]]]; reflexivity.
  Qed.

  Lemma grpc_wrap_keeps_object (e : err) : extract_o (grpc_wrap T e) = extract e.
  Proof.
    destruct (grpc_wrap_cases e) as [[_ Hw]|(_ & Hw & _)]; rewrite Hw; cbn [extract_o];
      [reflexivity|apply extract_status_message].
  Qed.

  (** the embedded object is still extractable after GRPCWrap and on the other side *)
  Lemma embed_survives (x : ctx) (c : class) (o : obj) :
    ctx_sides_ok x = true -> ctx_marker_free x = true -> ctx_embeds x = [o] ->
    extract_o (grpc_wrap T (plug x (Sentinel c))) = Some o /\
    extract_o (transport_o (grpc_wrap T (plug x (Sentinel c)))) = Some o.
  Proof.
    intros Hs Hx He. rewrite (transport_wrapped x c Hs), grpc_wrap_keeps_object.
    split; apply extract_plug_one_embed; auto.
  Qed.

  Lemma embed_survives_linear (x : ctx) (c : class) (o : obj) :
    ctx_linear x = true -> ctx_marker_free x = true -> ctx_embeds x = [o] ->
    extract_o (grpc_wrap T (plug x (Sentinel c))) = Some o /\
    extract_o (transport_o (grpc_wrap T (plug x (Sentinel c)))) = Some o.
  Proof. intros Hl. apply embed_survives, linear_sides_ok, Hl. Qed.

  (** any iteration order over errorsToCode gives the same row: every row
      that matches the tree is the row [find] returns, provided the keys of
      the table are distinct (they are keys of a Go map) and the tree has one class *)
  Lemma any_matching_row_is_found (e : err) (row : class * code) :
    uniform e = true ->
    NoDup (map fst (t_e2c T)) -> In row (t_e2c T) -> is_chain e (fst row) = true ->
    find (fun r => is_chain e (fst r)) (t_e2c T) = Some row.
  Proof.
    intros Hun Hnd Hin Hm. induction (t_e2c T) as [|r0 t IH]; [destruct Hin|].
    cbn [find]. cbn [map] in Hnd. inversion Hnd as [|? ? Hnotin Hnd']; subst.
    destruct Hin as [->|Hin].
    - rewrite Hm. reflexivity.
    - destruct (is_chain e (fst r0)) eqn:H0.
      + exfalso. apply Hnotin. rewrite (is_chain_unique e _ _ Hun H0 Hm). apply in_map. exact Hin.
      + apply IH; assumption.
  Qed.
End Tables.

(** * Finite checks on a table, as computable booleans *)

Definition is_some {A} (o : option A) : bool := match o with Some _ => true | None => false end.

(* every code other than OK maps to a class, OK maps to nil *)
Definition codes_total_b (T : tables) : bool :=
  forallb (fun k => if code_eqb k OK then negb (is_some (from_code T k)) else is_some (from_code T k)) all_codes.

Lemma codes_total_of_b (T : tables) :
  codes_total_b T = true ->
  from_code T OK = None /\ forall k, k <> OK -> exists c, from_code T k = Some c.
Proof.
  intros H. unfold codes_total_b in H. rewrite forallb_forall in H. split.
  - specialize (H OK (all_codes_complete OK)). cbn [code_eqb code_num N.eqb] in H.
    destruct (from_code T OK); [discriminate H|reflexivity].
  - intros k Hk. specialize (H k (all_codes_complete k)).
    apply code_eqb_neq in Hk. rewrite Hk in H.
    destruct (from_code T k) as [c|]; [exists c; reflexivity|discriminate H].
Qed.

Definition keys_distinct_b (T : tables) : bool :=
  (fix nodup (l : list N) : bool :=
     match l with
     | [] => true
     | x :: r => negb (existsb (N.eqb x) r) && nodup r
     end) (map (fun row => class_idx (fst row)) (t_e2c T)).

Lemma class_idx_inj (a b : class) : class_idx a = class_idx b -> a = b.
Proof. intros H. apply class_eqb_eq. unfold class_eqb. rewrite H. apply N.eqb_refl. Qed.

Lemma keys_distinct_of_b (T : tables) : keys_distinct_b T = true -> NoDup (map fst (t_e2c T)).
Proof.
  unfold keys_distinct_b. induction (t_e2c T) as [|[c k] t IH]; cbn [map fst]; intros H; [constructor|].
  apply andb_true_iff in H as [H1 H2]. constructor; [|exact (IH H2)].
  intros Hin. apply negb_true_iff in H1.
  assert (Hex : existsb (N.eqb (class_idx c)) (map (fun row => class_idx (fst row)) t) = true).
  { apply existsb_exists. exists (class_idx c). split; [|apply N.eqb_refl].
    apply in_map_iff in Hin as (row & Hr & Hin). apply in_map_iff. exists row. rewrite Hr. auto. }
  congruence.
Qed.

(** * The hand-written copy of the tables *)

Lemma std_tables_ok : tables_ok std_tables = true.
Proof. vm_compute. reflexivity. Qed.

(* the ten classes of errorsToCode *)
Definition classes_with_code : list class :=
  [ErrExist; ErrNotExist; ErrInvalid; ErrNotAuthorized; ErrDataLoss; ErrInternal;
   ErrConflict; ErrExhausted; ErrUnimplemented; ErrCanceled].

Lemma std_has_code (c : class) :
  In c classes_with_code <-> exists k, to_code std_tables c = Some k.
Proof.
  split.
  - intros H. destruct c; cbn in H; try (eexists; reflexivity);
      exfalso; repeat (destruct H as [H|H]; [discriminate H|]); exact H.
  - intros [k Hk]. destruct c; cbn; try tauto; discriminate Hk.
Qed.

Lemma std_class_survives (c : class) (x : ctx) (c' : class) :
  ctx_sides_ok x = true -> In c classes_with_code ->
  Is_o std_tables (grpc_wrap std_tables (plug x (Sentinel c))) c' = class_eqb c' c /\
  Is_o std_tables (transport_o (grpc_wrap std_tables (plug x (Sentinel c)))) c' = class_eqb c' c.
Proof.
  intros Hx Hin. apply std_has_code in Hin as [k Hk].
  rewrite (transport_wrapped std_tables std_tables_ok x c Hx).
  split; exact (class_survives std_tables std_tables_ok c k x c' Hx Hk).
Qed.

Lemma std_class_survives_linear (c : class) (x : ctx) (c' : class) :
  ctx_linear x = true -> In c classes_with_code ->
  Is_o std_tables (grpc_wrap std_tables (plug x (Sentinel c))) c' = class_eqb c' c /\
  Is_o std_tables (transport_o (grpc_wrap std_tables (plug x (Sentinel c)))) c' = class_eqb c' c.
Proof. intros Hl. apply std_class_survives, linear_sides_ok, Hl. Qed.

(* every tree without a status error whose classes are all the class c *)
Lemma std_class_survives_tree (e : err) (c : class) (c' : class) :
  inner_status e = None -> uniform e = true -> the_class e = Some c -> In c classes_with_code ->
  Is_o std_tables (grpc_wrap std_tables e) c' = class_eqb c' c /\
  Is_o std_tables (transport_o (grpc_wrap std_tables e)) c' = class_eqb c' c.
Proof.
  intros Hs Hun Hc Hin. apply std_has_code in Hin as [k Hk].
  rewrite (transport_wrapped_tree std_tables std_tables_ok e c Hs Hun Hc).
  split; exact (class_survives_tree std_tables std_tables_ok e c k c' Hs Hun Hc Hk).
Qed.

(* ErrClosed and ErrCommunication have no code: they travel as Internal and come back as ErrInternal *)
Lemma std_class_without_code (c : class) (x : ctx) (c' : class) :
  ctx_sides_ok x = true -> ~ In c classes_with_code ->
  (c = ErrClosed \/ c = ErrCommunication) /\
  Is_o std_tables (grpc_wrap std_tables (plug x (Sentinel c))) c' = class_eqb c' ErrInternal /\
  grpc_status_code_o std_tables (grpc_wrap std_tables (plug x (Sentinel c))) = Internal.
Proof.
  intros Hx Hn.
  assert (Hc : c = ErrClosed \/ c = ErrCommunication).
  { destruct c; auto; exfalso; apply Hn; cbn; tauto. }
  split; [exact Hc|].
  assert (Hk : to_code std_tables c = None) by (destruct Hc as [-> | ->]; reflexivity).
  rewrite (grpc_wrap_plug_sentinel std_tables std_tables_ok x c Hx), Hk.
  split; [|reflexivity].
  cbn [Is_o]. rewrite Is_status. destruct c'; reflexivity.
Qed.

Lemma std_codes_total :
  from_code std_tables OK = None /\
  forall k, k <> OK -> exists! c, from_code std_tables k = Some c.
Proof.
  assert (H : codes_total_b std_tables = true) by (vm_compute; reflexivity).
  apply codes_total_of_b in H as [H0 H]. split; [exact H0|].
  intros k Hk. destruct (H k Hk) as [c Hc]. exists c. split; [exact Hc|].
  intros c' Hc'. congruence.
Qed.

Lemma std_keys_distinct : NoDup (map fst (t_e2c std_tables)).
Proof. apply keys_distinct_of_b. vm_compute. reflexivity. Qed.

(* the whole code -> class map, spelled out *)
Lemma std_from_code_table :
  map (from_code std_tables) all_codes =
  [None; Some ErrCanceled; Some ErrCommunication; Some ErrInvalid; Some ErrCommunication;
   Some ErrNotExist; Some ErrExist; Some ErrNotAuthorized; Some ErrExhausted; Some ErrConflict;
   Some ErrInternal; Some ErrInternal; Some ErrUnimplemented; Some ErrInternal; Some ErrInternal;
   Some ErrDataLoss; Some ErrNotAuthorized].
Proof. vm_compute. reflexivity. Qed.

(** * Two tables that behave alike

    [tables_equiv] compares what the functions can observe of a table: the
    class of every code, the effective code of every class (its row, or the
    default) and the default code.  It does not depend on the order of the
    rows or on rows that repeat a default. *)

Definition tables_equiv (T1 T2 : tables) : bool :=
  forallb (fun k => oclass_eqb (from_code T1 k) (from_code T2 k)) all_codes
  && forallb (fun c => code_eqb (eff_code T1 c) (eff_code T2 c)) all_classes
  && code_eqb (t_def_code T1) (t_def_code T2).

Lemma oclass_eqb_eq (a b : option class) : oclass_eqb a b = true <-> a = b.
Proof.
  destruct a as [x|], b as [y|]; cbn [oclass_eqb]; try (split; intros H; congruence).
  rewrite class_eqb_eq. split; intros H; congruence.
Qed.

Lemma tables_equiv_spec (T1 T2 : tables) :
  tables_equiv T1 T2 = true ->
  (forall k, from_code T1 k = from_code T2 k) /\
  (forall c, eff_code T1 c = eff_code T2 c) /\
  t_def_code T1 = t_def_code T2.
Proof.
  unfold tables_equiv. intros H.
  apply andb_true_iff in H as [H H3]. apply andb_true_iff in H as [H1 H2].
  rewrite forallb_forall in H1, H2. repeat split.
  - intros k. apply oclass_eqb_eq, H1, all_codes_complete.
  - intros c. apply code_eqb_eq, H2, all_classes_complete.
  - apply code_eqb_eq, H3.
Qed.

(* GRPCStatusCode only sees the effective codes *)
Lemma grpc_status_code_eff (T : tables) (e : err) :
  uniform e = true ->
  grpc_status_code T e =
  if negb (code_eqb (status_code e) Unknown) then status_code e
  else match the_class e with Some c => eff_code T c | None => t_def_code T end.
Proof.
  intros Hun. destruct (code_eqb_spec (status_code e) Unknown) as [Hu|Hu]; cbn [negb].
  - rewrite (grpc_status_code_unknown T e Hu Hun). reflexivity.
  - unfold grpc_status_code. apply code_eqb_neq in Hu. rewrite Hu. reflexivity.
Qed.

(** equivalent tables give the same model functions on every error value
    with at most one class (for a tree with two different classes the result
    of GRPCStatusCode depends on the order of the rows, as it depends on the
    iteration order of the map in Go) *)
Lemma equiv_behaviour (T1 T2 : tables) :
  tables_equiv T1 T2 = true ->
  forall e : err, uniform e = true ->
    grpc_status_code T1 e = grpc_status_code T2 e /\
    from_grpc T1 e = from_grpc T2 e /\
    (forall c, Is T1 e c = Is T2 e c) /\
    grpc_wrap T1 e = grpc_wrap T2 e.
Proof.
  intros H e Hun. destruct (tables_equiv_spec T1 T2 H) as (Hf & He & Hd).
  assert (Hc : grpc_status_code T1 e = grpc_status_code T2 e).
  { rewrite !(grpc_status_code_eff _ e Hun). destruct (negb _); [reflexivity|].
    destruct (the_class e) as [c|]; [apply He|exact Hd]. }
  assert (Hg : from_grpc T1 e = from_grpc T2 e) by (unfold from_grpc; apply Hf).
  repeat split.
  - exact Hc.
  - exact Hg.
  - intros c. unfold Is. rewrite Hg. reflexivity.
  - unfold grpc_wrap. rewrite Hc. reflexivity.
Qed.
